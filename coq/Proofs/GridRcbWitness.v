(* Regression witness for the chunk count of the code before 3c3436b. *)
From Coupe Require Import Lib.Prelude Lib.SFloat Model.GridRcb Proofs.GridRcbMedian Proofs.GridRcbTree Proofs.GridRcbChecker Proofs.GridRcbComplete Gen.GridRcbGen.
Open Scope Z_scope.

(* ---------- regression witness for the OLD chunk count ---------- *)

(* the literals of the code before 3c3436b: the chunk count is the pool size
   alone (`let chunk_count = rayon::current_num_threads();`), TOLERANCE 0.01,
   least chunk size 1, axis 1 first.  Fixed literals: a regression witness
   does not follow the current source. *)
Definition cfg_old : cfg := mkcfg 1 1 4576918229304087675%N 1 1 1 1.

Lemma gridrcb_T1_stuck_4x4 : forall fuel,
  grid_rcb cfg_old fuel 1 I64 [4; 4]%nat (repeat 1 16) 2 16 = OutOfFuel.
Proof.
  intros fuel. unfold grid_rcb. cbn [existsb Nat.eqb orb length].
  change (sumZ (repeat 1 16)) with 16.
  change (start_rec2 cfg_old) with 1%nat. change (start_po2 cfg_old) with 1%nat.
  cbn [recurse into_subgrid map nth_opt Nat.eqb].
  replace (axis_weights [4; 4]%nat (repeat 1 16) [(0, 4); (0, 4)]%nat 1) with (Ok [4; 4; 4; 4])
    by (vm_compute; reflexivity).
  cbn [bind].
  rewrite (weighted_median_T1_stuck cfg_old I64 [4; 4; 4; 4] 16 (le_n 1) (le_n 1)).
  - reflexivity.
  - cbn. lia.
  - vm_compute. reflexivity.
Qed.

(* ---------- the literal "1% + 1 unit" is false of the code for giant i64 totals ---------- *)

(* the literals of the current code (two chunks at least, TOLERANCE 0.01, axis 1 first) *)
Definition cfg_fixed : cfg := mkcfg 2 1 4576918229304087675%N 1 1 1 1.

(* 1 x 3 grid, iter_count 1: total 2990798244639171807 (~2^61.4).  The code's
   min_part_weight is trunc(fl(fl(total)/2 * fl(0.99))) = 1480445131096389888,
   155 units below 0.495*total - 1 = 1480445131096390043.46...; the first
   slab weighs exactly that, the second 1 unit (so that no slab next to the
   cut holds the half-weight mark), and the cut is placed after the first slab. *)
Definition giant_ws : list Z := [1480445131096389888; 1; 1510353113542781918].

Lemma giant_run : forall T, In T [1; 2; 3; 4; 8; 16]%nat ->
  grid_rcb cfg_fixed 41 T I64 [1; 3]%nat giant_ws 1 3 = Ok [0; 1; 1]%N.
Proof. intros T HT. repeat (destruct HT as [<-|HT]; [vm_compute; reflexivity|]). destruct HT. Qed.

(* the strict clause fails: not within 1% + 1 unit, and no adjacent slab holds the half-weight mark *)
Lemma giant_strict_false :
  ~ bal_unit (sumZ giant_ws) 1480445131096389888 1 0
  /\ bal_i64 (sumZ giant_ws) 1480445131096389888 1 0.
Proof.
  split.
  - unfold bal_unit, band_unit, adjacent. vm_compute. intros [H|[[_ H]|[_ H]]]; apply H; reflexivity.
  - left. unfold band_i64. vm_compute. discriminate.
Qed.

(* hence the output violates the statement of C10 read with the strict clause,
   whatever tree is proposed (the checker is complete), and satisfies it with band_i64 *)
Lemma giant_spec_refuted :
  ~ C10_spec bal_unit 1 [1; 3]%nat giant_ws 1 [0; 1; 1]%N
  /\ C10_spec bal_i64 1 [1; 3]%nat giant_ws 1 [0; 1; 1]%N.
Proof.
  split.
  - intros H. apply (check_C10_complete bal_unit bal_unit_b) in H.
    + vm_compute in H. discriminate.
    + intros t w r l. apply bal_unit_b_iff.
    + reflexivity.
    + left. reflexivity.
    + repeat constructor.
    + reflexivity.
    + cbn. lia.
  - apply (check_C10_sound bal_i64 bal_i64_b).
    + intros t w r l. apply bal_i64_b_iff.
    + vm_compute. reflexivity.
Qed.

(* Regression witness for the chunk count of the code before 3c3436b. *)
From Coupe Require Import Lib.Prelude Lib.SFloat Model.GridRcb Proofs.GridRcbMedian Gen.GridRcbGen.
Open Scope Z_scope.

(* ---------- regression witness for the OLD chunk count ---------- *)

(* the literals of the code before 3c3436b: the chunk count is the pool size
   alone (`let chunk_count = rayon::current_num_threads();`), TOLERANCE 0.01,
   least chunk size 1, axis 1 first.  Fixed literals: a regression witness
   does not follow the current source. *)
Definition cfg_old : cfg := mkcfg 1 1 4576918229304087675%N 1 1 1 1.

Lemma gridrcb_T1_stuck_4x4 : forall fuel,
  grid_rcb cfg_old fuel 1 I64 [4; 4]%nat (repeat 1 16) 2 16 = OutOfFuel.
Proof.
  intros fuel. unfold grid_rcb. cbn [existsb Nat.eqb orb length].
  change (sumZ (repeat 1 16)) with 16.
  change (start_rec2 cfg_old) with 1%nat. change (start_po2 cfg_old) with 1%nat.
  cbn [recurse into_subgrid map nth_opt Nat.eqb].
  replace (axis_weights [4; 4]%nat (repeat 1 16) [(0, 4); (0, 4)]%nat 1) with (Ok [4; 4; 4; 4])
    by (vm_compute; reflexivity).
  cbn [bind].
  rewrite (weighted_median_T1_stuck cfg_old I64 [4; 4; 4; 4] 16 (le_n 1) (le_n 1)).
  - reflexivity.
  - cbn. lia.
  - vm_compute. reflexivity.
Qed.

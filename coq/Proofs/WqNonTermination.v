(* REFUTATION of the termination of `weighted_quantiles` (C01's "no hang" clause
   for HilbertCurve; C09's theorems are stated for runs that return).

   Witness: three points with curve indices 0, 4, 8, every weight 1e-16,
   5 parts.  `approx::abs_diff_eq!(pw, expected_left_weight)` compares with
   the ABSOLUTE tolerance f64::EPSILON = 2^-52 ~ 2.2e-16; with a total weight
   of that magnitude every partial sum is "approximately equal" to every
   target, so an unsettled split jumps onto a neighbour's position in every
   round, and two splits chase each other: after three rounds the loop state
   alternates between [S3] and [S4] for ever (no split settles, the positions
   3 / 7 are swapped back and forth).  The model runs out of ANY amount of fuel;
   the real function and `HilbertCurve::partition` do not return on this input
   (design-probes/c09-wq-hang-fuzz, bin wqrepro).  All steps by [vm_compute]
   on the faithful model. *)
From Coupe Require Import Lib.Prelude Lib.SFloat Lib.Sorting Model.SfcPart.
From Coq Require Import Floats.SpecFloat.
Open Scope nat_scope.

Definition wit_tol : spec_float := f64_of_bits 4587366580439587226%N.   (* SPLIT_TOLERANCE = 0.05 *)
Definition wit_idx : list N := [0; 4; 8]%N.
Definition wit_w : spec_float := f64_of_bits 4367597403136100796%N.     (* 1e-16 *)
Definition wit_ws : list spec_float := [wit_w; wit_w; wit_w].
Definition wit_n : nat := 5.

Definition S0 : list split := init_splits 0 8 5.
Definition S3 : list split :=
  [mkSplit 0 0 0 true; mkSplit 3 3 3 false; mkSplit 7 7 7 false; mkSplit 7 7 8 true]%N.
Definition S4 : list split :=
  [mkSplit 0 0 0 true; mkSplit 7 7 7 false; mkSplit 3 3 3 false; mkSplit 7 7 8 true]%N.

Lemma round_S3 : wq_round_g false wit_tol wit_n wit_idx wit_ws S3 = Ok (S4, 0).
Proof. vm_compute. reflexivity. Qed.
Lemma round_S4 : wq_round_g false wit_tol wit_n wit_idx wit_ws S4 = Ok (S3, 0).
Proof. vm_compute. reflexivity. Qed.

(* the first three rounds lead from the initial state to S3, two splits settle *)
Lemma prefix_rounds : forall fuel,
  wq_loop_g false wit_tol (3 + fuel) wit_n wit_idx wit_ws S0 4 = wq_loop_g false wit_tol fuel wit_n wit_idx wit_ws S3 2.
Proof.
  intros fuel. change (3 + fuel) with (S (S (S fuel))).
  cbn [wq_loop_g].
  replace (wq_round_g false wit_tol wit_n wit_idx wit_ws S0) with
    (Ok ([mkSplit 0 0 1 false; mkSplit 3 3 3 false; mkSplit 4 4 4 false; mkSplit 6 4 8 false]%N, 0))
    by (vm_compute; reflexivity).
  cbn [bind Nat.sub wq_loop_g].
  replace (wq_round_g false wit_tol wit_n wit_idx wit_ws
             [mkSplit 0 0 1 false; mkSplit 3 3 3 false; mkSplit 4 4 4 false; mkSplit 6 4 8 false]%N) with
    (Ok ([mkSplit 0 0 0 true; mkSplit 4 4 4 false; mkSplit 3 3 3 false; mkSplit 7 6 8 false]%N, 1))
    by (vm_compute; reflexivity).
  cbn [bind Nat.sub wq_loop_g].
  replace (wq_round_g false wit_tol wit_n wit_idx wit_ws
             [mkSplit 0 0 0 true; mkSplit 4 4 4 false; mkSplit 3 3 3 false; mkSplit 7 6 8 false]%N) with
    (Ok (S3, 1)) by (vm_compute; reflexivity).
  cbn [bind Nat.sub]. reflexivity.
Qed.

(* S3 <-> S4 for ever *)
Lemma cycle_out_of_fuel : forall fuel,
  wq_loop_g false wit_tol fuel wit_n wit_idx wit_ws S3 2 = OutOfFuel
  /\ wq_loop_g false wit_tol fuel wit_n wit_idx wit_ws S4 2 = OutOfFuel.
Proof.
  induction fuel as [|f [IH3 IH4]]; [split; reflexivity|].
  split; cbn [wq_loop_g].
  - rewrite round_S3. cbn [bind Nat.sub]. exact IH4.
  - rewrite round_S4. cbn [bind Nat.sub]. exact IH3.
Qed.

Theorem wq_loop_never_returns : forall fuel,
  wq_loop_g false wit_tol fuel wit_n wit_idx wit_ws S0 4 = OutOfFuel.
Proof.
  intros fuel. destruct fuel as [|[|[|f]]].
  - reflexivity.
  - vm_compute. reflexivity.
  - vm_compute. reflexivity.
  - change (S (S (S f))) with (3 + f). rewrite prefix_rounds. apply cycle_out_of_fuel.
Qed.

(* the quantile search does not terminate on the witness: no amount of fuel suffices *)
Theorem weighted_quantiles_nontermination : forall fuel,
  weighted_quantiles_g false wit_tol fuel wit_idx wit_ws wit_n = OutOfFuel.
Proof.
  intros fuel.
  change (weighted_quantiles_g false wit_tol fuel wit_idx wit_ws wit_n)
    with (bind (wq_loop_g false wit_tol fuel wit_n wit_idx wit_ws S0 4) (fun ss' => Ok (map s_pos ss'))).
  rewrite (wq_loop_never_returns fuel). reflexivity.
Qed.

(* ... hence HilbertCurve::partition (given these curve indices) never returns *)
Theorem hilbert_partition_nontermination : forall maxo order fuel p0,
  (order <= maxo)%N -> p0 <> [] ->
  hilbert_partition_g false wit_tol maxo order fuel wit_idx wit_ws wit_n p0 = OutOfFuel.
Proof.
  intros maxo order fuel p0 Ho Hp. unfold hilbert_partition_g.
  destruct (N.ltb_spec maxo order); [lia|]. destruct p0; [congruence|].
  rewrite weighted_quantiles_nontermination. reflexivity.
Qed.

(* Tree independence of rayon's max_by / min_by and of the bounding-box
   fold + reduce of the k-means model, on values where the comparison is a
   total order whose `Equal` means identical.  Generic part, then binary64
   ([val_ok_f64]: neither NaN nor -0.0), from SpecFloat's definitions alone. *)
From Coupe Require Import Lib.Prelude Lib.SFloat Lib.Rayon Model.KMeansAbs Model.KMeans Proofs.KMeansSched.
From Coq Require Import Floats.SpecFloat.
Local Open Scope nat_scope.

Lemma par_fold_nil_none {X Y} (f : list X -> option Y) (op : Y -> Y -> Y) :
  f [] = None -> forall t, par_fold f (oreduce op) t [] = None.
Proof.
  intros Hf. induction t as [|k l IHl r IHr]; cbn [par_fold]; auto.
  rewrite firstn_nil, skipn_nil, IHl, IHr. reflexivity.
Qed.

(* [col_leaf] of the model, for any type *)
Definition gleaf {X} (step : X -> X -> X) (init : X) (l : list X) : option X :=
  match l with [] => None | _ => Some (fold_left step l init) end.

Section Select.
  Context {X : Type}.
  Variable le : X -> X -> Prop.
  Variable ok : X -> Prop.
  Hypothesis le_trans : forall x y z, ok x -> ok y -> ok z -> le x y -> le y z -> le x z.
  Hypothesis le_antisym : forall x y, ok x -> ok y -> le x y -> le y x -> x = y.

  (* a binary operation that returns one of its arguments, above both *)
  Definition selects (op : X -> X -> X) : Prop :=
    forall a b, ok a -> ok b -> (op a b = a \/ op a b = b) /\ le a (op a b) /\ le b (op a b).

  Definition is_ub (m : X) (xs : list X) : Prop := In m xs /\ forall x, In x xs -> le x m.

  Lemma is_ub_unique m1 m2 xs : Forall ok xs -> is_ub m1 xs -> is_ub m2 xs -> m1 = m2.
  Proof.
    intros Hok [I1 U1] [I2 U2]. rewrite Forall_forall in Hok. apply le_antisym; auto.
  Qed.

  Lemma is_ub_combine op m1 m2 xs ys : selects op -> Forall ok xs -> Forall ok ys ->
    is_ub m1 xs -> is_ub m2 ys -> is_ub (op m1 m2) (xs ++ ys).
  Proof.
    intros Hop Hx Hy [I1 U1] [I2 U2]. rewrite Forall_forall in Hx, Hy.
    destruct (Hop m1 m2 (Hx _ I1) (Hy _ I2)) as (Hs & L1 & L2).
    assert (Hok : ok (op m1 m2)) by (destruct Hs as [-> | ->]; auto).
    split.
    - apply in_or_app. destruct Hs as [-> | ->]; auto.
    - intros x Hin. apply in_app_or in Hin. destruct Hin as [Hin|Hin].
      + apply (le_trans x m1); auto.
      + apply (le_trans x m2); auto.
  Qed.

  Lemma sel_refl op z : selects op -> ok z -> le z z.
  Proof. intros Hop Hz. destruct (Hop z z Hz Hz) as ([E|E] & L & _); rewrite E in L; exact L. Qed.

  Lemma fold_left_ub op : selects op -> forall t x, Forall ok (x :: t) -> is_ub (fold_left op t x) (x :: t).
  Proof.
    intros Hop t. induction t as [|y t IH] using rev_ind; intros x Hok.
    - cbn. inversion Hok; subst. split; [left; reflexivity|]. intros z [E|[]]. subst z.
      eapply sel_refl; eauto.
    - rewrite fold_left_app. cbn [fold_left].
      assert (Hok1 : Forall ok (x :: t)).
      { apply Forall_forall. intros z Hz. rewrite Forall_forall in Hok. apply Hok.
        destruct Hz as [<-|Hz]; [left; reflexivity|right; apply in_or_app; auto]. }
      assert (Hy : Forall ok [y]).
      { constructor; [|constructor]. rewrite Forall_forall in Hok. apply Hok. right. apply in_or_app. right. left. reflexivity. }
      specialize (IH x Hok1).
      assert (Uy : is_ub y [y]).
      { split; [left; reflexivity|]. intros z [E|[]]. subst z. inversion Hy; subst.
        eapply sel_refl; eauto. }
      pose proof (is_ub_combine op _ _ _ _ Hop Hok1 Hy IH Uy) as H. exact H.
  Qed.

  (* rayon reduce_with(op) *)
  Lemma tree_reduce_ub op : selects op -> forall t xs, Forall ok xs -> xs <> [] ->
    exists m, tree_reduce op t xs = Some m /\ is_ub m xs.
  Proof.
    intros Hop. unfold tree_reduce. induction t as [|k l IHl r IHr]; intros xs Hok Hne; cbn [par_fold].
    - destruct xs as [|x t]; [congruence|]. cbn [seq_reduce]. eexists; split; [reflexivity|]. now apply fold_left_ub.
    - assert (H1 : Forall ok (firstn k xs)).
      { apply Forall_forall. intros z Hz. rewrite Forall_forall in Hok. apply Hok. rewrite <- (firstn_skipn k xs). apply in_or_app; auto. }
      assert (H2 : Forall ok (skipn k xs)).
      { apply Forall_forall. intros z Hz. rewrite Forall_forall in Hok. apply Hok. rewrite <- (firstn_skipn k xs). apply in_or_app; auto. }
      destruct (firstn k xs) as [|a fa] eqn:Ef.
      + rewrite (par_fold_nil_none (seq_reduce op) op eq_refl l). cbn [oreduce].
        assert (Es : skipn k xs = xs) by (rewrite <- (firstn_skipn k xs) at 2; now rewrite Ef).
        rewrite Es in *. apply IHr; auto.
      + destruct (skipn k xs) as [|b sb] eqn:Es.
        * rewrite (par_fold_nil_none (seq_reduce op) op eq_refl r).
          assert (Ex : a :: fa = xs) by (rewrite <- (firstn_skipn k xs), Ef, Es; now rewrite app_nil_r).
          destruct (IHl (a :: fa) H1) as (m & -> & U); [discriminate|]. cbn [oreduce]. rewrite <- Ex. eauto.
        * destruct (IHl (a :: fa) H1) as (m1 & -> & U1); [discriminate|].
          destruct (IHr (b :: sb) H2) as (m2 & -> & U2); [discriminate|]. cbn [oreduce].
          eexists; split; [reflexivity|]. rewrite <- (firstn_skipn k xs), Ef, Es. now apply is_ub_combine.
  Qed.

  Theorem tree_reduce_indep op : selects op -> forall xs, Forall ok xs ->
    forall t1 t2, tree_reduce op t1 xs = tree_reduce op t2 xs.
  Proof.
    intros Hop xs Hok t1 t2. destruct xs as [|x t].
    - unfold tree_reduce. now rewrite !(par_fold_nil_none (seq_reduce op) op eq_refl).
    - destruct (tree_reduce_ub op Hop t1 (x :: t) Hok) as (m1 & -> & U1); [discriminate|].
      destruct (tree_reduce_ub op Hop t2 (x :: t) Hok) as (m2 & -> & U2); [discriminate|].
      f_equal. eapply is_ub_unique; eauto.
  Qed.

  (* the bounding-box column: every piece folds [step] from [init], the pieces are combined by [red] *)
  Lemma tree_col_ub step red init : selects step -> selects red -> ok init ->
    forall t col, Forall ok col -> col <> [] ->
    exists m, par_fold (gleaf step init) (oreduce red) t col = Some m /\ is_ub m (init :: col).
  Proof.
    intros Hs Hr Hi. induction t as [|k l IHl r IHr]; intros col Hok Hne; cbn [par_fold].
    - destruct col as [|x t]; [congruence|]. unfold gleaf. eexists; split; [reflexivity|].
      apply fold_left_ub; auto.
    - assert (H1 : Forall ok (firstn k col)).
      { apply Forall_forall. intros z Hz. rewrite Forall_forall in Hok. apply Hok. rewrite <- (firstn_skipn k col). apply in_or_app; auto. }
      assert (H2 : Forall ok (skipn k col)).
      { apply Forall_forall. intros z Hz. rewrite Forall_forall in Hok. apply Hok. rewrite <- (firstn_skipn k col). apply in_or_app; auto. }
      destruct (firstn k col) as [|a fa] eqn:Ef.
      + rewrite (par_fold_nil_none (gleaf step init) red eq_refl l). cbn [oreduce].
        assert (Es : skipn k col = col) by (rewrite <- (firstn_skipn k col) at 2; now rewrite Ef).
        rewrite Es in *. apply IHr; auto.
      + destruct (skipn k col) as [|b sb] eqn:Es.
        * rewrite (par_fold_nil_none (gleaf step init) red eq_refl r).
          assert (Ex : a :: fa = col) by (rewrite <- (firstn_skipn k col), Ef, Es; now rewrite app_nil_r).
          destruct (IHl (a :: fa) H1) as (m & -> & U); [discriminate|]. cbn [oreduce]. rewrite <- Ex. eauto.
        * destruct (IHl (a :: fa) H1) as (m1 & -> & U1); [discriminate|].
          destruct (IHr (b :: sb) H2) as (m2 & -> & U2); [discriminate|]. cbn [oreduce].
          eexists; split; [reflexivity|].
          pose proof (is_ub_combine red m1 m2 (init :: a :: fa) (init :: b :: sb) Hr) as H.
          assert (Ha : Forall ok (init :: a :: fa)) by (constructor; auto).
          assert (Hb : Forall ok (init :: b :: sb)) by (constructor; auto).
          specialize (H Ha Hb U1 U2). destruct H as [I U].
          rewrite <- (firstn_skipn k col), Ef, Es. split.
          -- apply in_app_or in I. destruct I as [I|[<-|I]]; [| left; reflexivity |].
             ++ destruct I as [<-|I]; [left; reflexivity|right; apply in_or_app; auto].
             ++ right. apply in_or_app; auto.
          -- intros x [<-|Hx]; [apply U; left; reflexivity|]. apply U.
             apply in_app_or in Hx. destruct Hx as [Hx|Hx]; apply in_or_app; [left|right]; right; exact Hx.
  Qed.
End Select.

(* ------------------------------------------------------------- binary64 *)

Local Open Scope Z_scope.

(* an order embedding of the non-NaN values into integer triples compared
   lexicographically (no canonicity needed: SFcompare itself is lexicographic) *)
Definition rank (x : spec_float) : Z * Z * Z :=
  match x with
  | S754_zero _ => (0, 0, 0)
  | S754_infinity s => (if s then -2 else 2, 0, 0)
  | S754_nan => (3, 0, 0)
  | S754_finite s m e => if s then (-1, - e, Zneg m) else (1, e, Zpos m)
  end.

Definition lexcmp (a b : Z * Z * Z) : comparison :=
  let '(a1, a2, a3) := a in let '(b1, b2, b3) := b in
  match a1 ?= b1 with
  | Eq => match a2 ?= b2 with Eq => a3 ?= b3 | c => c end
  | c => c
  end.

Lemma SFcompare_rank a b : is_nan a = false -> is_nan b = false ->
  SFcompare a b = Some (lexcmp (rank a) (rank b)).
Proof.
  destruct a as [sa|sa| |sa ma ea], b as [sb|sb| |sb mb eb]; try discriminate; intros _ _;
    cbn [SFcompare rank]; try (destruct sa); try (destruct sb); try reflexivity.
  - (* both negative *)
    unfold lexcmp. change (-1 ?= -1) with Eq. cbv iota.
    rewrite Z.compare_opp, (Z.compare_antisym ea eb).
    destruct (ea ?= eb); cbn [CompOpp]; reflexivity.
Qed.

(* lexcmp as propositions *)
Definition lexle (a b : Z * Z * Z) : Prop :=
  let '(a1, a2, a3) := a in let '(b1, b2, b3) := b in
  a1 < b1 \/ (a1 = b1 /\ (a2 < b2 \/ (a2 = b2 /\ a3 <= b3))).

Lemma lexcmp_le a b : lexcmp a b <> Gt <-> lexle a b.
Proof.
  destruct a as [[a1 a2] a3], b as [[b1 b2] b3]. unfold lexcmp, lexle.
  destruct (Z.compare_spec a1 b1); [destruct (Z.compare_spec a2 b2); [destruct (Z.compare_spec a3 b3)|..]|..];
    split; intros HH; try lia; try congruence; try discriminate.
Qed.

Lemma lexcmp_lt a b : lexcmp a b = Lt <-> ~ lexle b a.
Proof.
  destruct a as [[a1 a2] a3], b as [[b1 b2] b3]. unfold lexcmp, lexle.
  destruct (Z.compare_spec a1 b1); [destruct (Z.compare_spec a2 b2); [destruct (Z.compare_spec a3 b3)|..]|..];
    split; intros HH; try lia; try congruence; try discriminate.
Qed.

Lemma lexcmp_gt a b : lexcmp a b = Gt <-> ~ lexle a b.
Proof.
  rewrite <- lexcmp_le. destruct (lexcmp a b); split; intros H; try congruence.
  - exfalso; apply H; discriminate.
  - exfalso; apply H; discriminate.
Qed.

Lemma lexle_trans a b c : lexle a b -> lexle b c -> lexle a c.
Proof. destruct a as [[a1 a2] a3], b as [[b1 b2] b3], c as [[c1 c2] c3]. unfold lexle. lia. Qed.

Lemma lexle_antisym a b : lexle a b -> lexle b a -> a = b.
Proof. destruct a as [[a1 a2] a3], b as [[b1 b2] b3]. unfold lexle. intros H1 H2. f_equal; [f_equal|]; lia. Qed.

Lemma lexle_total a b : lexle a b \/ lexle b a.
Proof. destruct a as [[a1 a2] a3], b as [[b1 b2] b3]. unfold lexle. lia. Qed.

Lemma lexle_dec a b : lexle a b \/ ~ lexle a b.
Proof. destruct a as [[a1 a2] a3], b as [[b1 b2] b3]. unfold lexle. lia. Qed.

Definition okv (x : spec_float) : Prop := val_ok_f64 x = true.

Lemma okv_not_nan x : okv x -> is_nan x = false.
Proof. destruct x; cbn; auto; discriminate. Qed.

Lemma rank_inj x y : okv x -> okv y -> rank x = rank y -> x = y.
Proof.
  unfold okv. destruct x as [sx|sx| |sx mx ex], y as [sy|sy| |sy my ey]; cbn [val_ok_f64 rank]; intros Hx Hy E;
    try discriminate; try (destruct sx); try (destruct sy); try discriminate; try reflexivity; try congruence.
  - injection E as E1 E2. assert (ex = ey) by lia. congruence.
Qed.

Section F64OrderGen.
  Variables (lg : spec_float -> spec_float -> spec_float) (ex : spec_float -> spec_float).
  Variables fmax_bits fmin_bits eps_bits step_bits : N.
  Let A := F64km lg ex fmax_bits fmin_bits eps_bits step_bits.
  (* a class of values without NaN on which the rank is injective *)
  Variable ok : spec_float -> Prop.
  Hypothesis ok_nn : forall x, ok x -> is_nan x = false.
  Hypothesis ok_inj : forall x y, ok x -> ok y -> rank x = rank y -> x = y.

  Definition fle (x y : spec_float) : Prop := lexle (rank x) (rank y).

  Lemma fle_trans x y z : ok x -> ok y -> ok z -> fle x y -> fle y z -> fle x z.
  Proof. intros _ _ _. apply lexle_trans. Qed.
  Lemma fle_antisym x y : ok x -> ok y -> fle x y -> fle y x -> x = y.
  Proof. intros Hx Hy H1 H2. apply ok_inj; auto. now apply lexle_antisym. Qed.
  (* the reverse order, for the minima *)
  Definition fge (x y : spec_float) : Prop := fle y x.
  Lemma fge_trans x y z : ok x -> ok y -> ok z -> fge x y -> fge y z -> fge x z.
  Proof. unfold fge. intros _ _ _ H1 H2. eapply lexle_trans; eauto. Qed.
  Lemma fge_antisym x y : ok x -> ok y -> fge x y -> fge y x -> x = y.
  Proof. unfold fge. intros Hx Hy H1 H2. apply fle_antisym; auto. Qed.

  Lemma cmp_eq_rank x y : ok x -> ok y -> cmp_eq A x y = lexcmp (rank x) (rank y).
  Proof.
    intros Hx Hy. unfold cmp_eq. cbn [A F64km k_cmp]. unfold fcmp.
    rewrite SFcompare_rank; auto using ok_nn.
  Qed.
  Lemma klt_rank x y : ok x -> ok y -> klt A x y = true <-> ~ fle y x.
  Proof.
    intros Hx Hy. unfold klt. cbn [A F64km k_cmp]. unfold fcmp. rewrite SFcompare_rank; auto using ok_nn.
    unfold fle. rewrite <- lexcmp_lt. destruct (lexcmp (rank x) (rank y)); split; intros H; congruence.
  Qed.
  Lemma kgt_rank x y : ok x -> ok y -> kgt A x y = true <-> ~ fle x y.
  Proof.
    intros Hx Hy. unfold kgt. cbn [A F64km k_cmp]. unfold fcmp. rewrite SFcompare_rank; auto using ok_nn.
    unfold fle. rewrite <- lexcmp_gt. destruct (lexcmp (rank x) (rank y)); split; intros H; congruence.
  Qed.

  Lemma max_op_selects : selects fle ok (max_op A).
  Proof.
    intros a b Ha Hb. unfold max_op. rewrite cmp_eq_rank; auto.
    destruct (lexcmp (rank a) (rank b)) eqn:E.
    - repeat split; auto; unfold fle; [apply lexcmp_le; congruence|].
      destruct (lexle_total (rank b) (rank b)); auto.
    - repeat split; auto; unfold fle; [apply lexcmp_le; congruence|].
      destruct (lexle_total (rank b) (rank b)); auto.
    - apply lexcmp_gt in E. repeat split; auto; unfold fle.
      + destruct (lexle_total (rank a) (rank a)); auto.
      + destruct (lexle_total (rank a) (rank b)); tauto.
  Qed.

  Lemma min_op_selects : selects fge ok (min_op A).
  Proof.
    intros a b Ha Hb. unfold min_op, fge. rewrite cmp_eq_rank; auto.
    destruct (lexcmp (rank a) (rank b)) eqn:E.
    - repeat split; auto; unfold fle; [destruct (lexle_total (rank a) (rank a)); auto|apply lexcmp_le; congruence].
    - repeat split; auto; unfold fle; [destruct (lexle_total (rank a) (rank a)); auto|apply lexcmp_le; congruence].
    - apply lexcmp_gt in E. repeat split; auto; unfold fle.
      + destruct (lexle_total (rank a) (rank b)); tauto.
      + destruct (lexle_total (rank b) (rank b)); auto.
  Qed.

  Lemma min_step_selects : selects fge ok (min_step A).
  Proof.
    intros a b Ha Hb. unfold min_step, fge.
    destruct (klt A b a) eqn:E.
    - apply klt_rank in E; auto. repeat split; auto; unfold fle in *.
      + destruct (lexle_total (rank a) (rank b)); tauto.
      + destruct (lexle_total (rank b) (rank b)); auto.
    - assert (H : fle a b).
      { destruct (lexle_dec (rank a) (rank b)) as [H|H]; auto. exfalso.
        assert (klt A b a = true); [|congruence]. apply klt_rank; auto. }
      repeat split; auto. unfold fle. destruct (lexle_total (rank a) (rank a)); auto.
  Qed.

  Lemma max_step_selects : selects fle ok (max_step A).
  Proof.
    intros a b Ha Hb. unfold max_step.
    destruct (klt A a b) eqn:E.
    - apply klt_rank in E; auto. repeat split; auto; unfold fle in *.
      + destruct (lexle_total (rank a) (rank b)); tauto.
      + destruct (lexle_total (rank b) (rank b)); auto.
    - assert (H : fle b a).
      { destruct (lexle_dec (rank b) (rank a)) as [H|H]; auto. exfalso.
        assert (klt A a b = true); [|congruence]. apply klt_rank; auto. }
      repeat split; auto. unfold fle. destruct (lexle_total (rank a) (rank a)); auto.
  Qed.

  Lemma fmin2_selects : selects fge ok (fmin2 A).
  Proof.
    intros a b Ha Hb. unfold fmin2. cbn [A F64km k_isnan]. rewrite (ok_nn a Ha).
    exact (min_step_selects a b Ha Hb).
  Qed.

  Lemma fmax2_selects : selects fle ok (fmax2 A).
  Proof.
    intros a b Ha Hb. unfold fmax2. cbn [A F64km k_isnan]. rewrite (ok_nn a Ha).
    destruct (kgt A b a) eqn:E.
    - apply kgt_rank in E; auto. repeat split; auto; unfold fle in *.
      + destruct (lexle_total (rank a) (rank b)); tauto.
      + destruct (lexle_total (rank b) (rank b)); auto.
    - assert (H : fle b a).
      { destruct (lexle_dec (rank b) (rank a)) as [H|H]; auto. exfalso.
        assert (kgt A b a = true); [|congruence]. apply kgt_rank; auto. }
      repeat split; auto. unfold fle. destruct (lexle_total (rank a) (rank a)); auto.
  Qed.


  Lemma max_indep xs : Forall ok xs -> forall t1 t2, tree_reduce (max_op A) t1 xs = tree_reduce (max_op A) t2 xs.
  Proof. intros H t1 t2. now apply (tree_reduce_indep fle ok fle_trans fle_antisym (max_op A) max_op_selects). Qed.
  Lemma min_indep xs : Forall ok xs -> forall t1 t2, tree_reduce (min_op A) t1 xs = tree_reduce (min_op A) t2 xs.
  Proof. intros H t1 t2. now apply (tree_reduce_indep fge ok fge_trans fge_antisym (min_op A) min_op_selects). Qed.
End F64OrderGen.

Definition okv' (x : spec_float) : Prop := val_ok_neg_f64 x = true.
Lemma okv'_not_nan x : okv' x -> is_nan x = false.
Proof. destruct x; cbn; auto; discriminate. Qed.
Lemma rank_inj' x y : okv' x -> okv' y -> rank x = rank y -> x = y.
Proof.
  unfold okv'. destruct x as [sx|sx| |sx mx ex], y as [sy|sy| |sy my ey]; cbn [val_ok_neg_f64 rank]; intros Hx Hy E;
    try discriminate; try (destruct sx); try (destruct sy); try discriminate; try reflexivity; try congruence.
  - injection E as E1 E2. assert (ex = ey) by lia. congruence.
Qed.

Section F64Order.
  Variables (lg : spec_float -> spec_float -> spec_float) (ex : spec_float -> spec_float).
  Variables fmax_bits fmin_bits eps_bits step_bits : N.
  Let A := F64km lg ex fmax_bits fmin_bits eps_bits step_bits.
  Lemma forallb_okv xs : forallb val_ok_f64 xs = true -> Forall okv xs.
  Proof. intros H. apply Forall_forall. intros x Hx. rewrite forallb_forall in H. exact (H x Hx). Qed.

  Lemma forallb_okv' xs : forallb val_ok_neg_f64 xs = true -> Forall okv' xs.
  Proof. intros H. apply Forall_forall. intros x Hx. rewrite forallb_forall in H. exact (H x Hx). Qed.

  Theorem max_decided_f64 : max_decided A cmp_ok_f64.
  Proof.
    intros xs H t1 t2. unfold cmp_ok_f64 in H. apply orb_prop in H. destruct H as [H|H].
    - apply (max_indep lg ex fmax_bits fmin_bits eps_bits step_bits okv okv_not_nan rank_inj). now apply forallb_okv.
    - apply (max_indep lg ex fmax_bits fmin_bits eps_bits step_bits okv' okv'_not_nan rank_inj'). now apply forallb_okv'.
  Qed.

  Theorem min_decided_f64 : min_decided A cmp_ok_f64.
  Proof.
    intros xs H t1 t2. unfold cmp_ok_f64 in H. apply orb_prop in H. destruct H as [H|H].
    - apply (min_indep lg ex fmax_bits fmin_bits eps_bits step_bits okv okv_not_nan rank_inj). now apply forallb_okv.
    - apply (min_indep lg ex fmax_bits fmin_bits eps_bits step_bits okv' okv'_not_nan rank_inj'). now apply forallb_okv'.
  Qed.

  Lemma column_okv D c xs :
    forallb (fun v => Nat.eqb (length v) D && forallb val_ok_f64 v) xs = true -> Forall okv (column A c xs).
  Proof.
    intros H. apply Forall_forall. intros x Hx. unfold column in Hx. apply in_flat_map in Hx.
    destruct Hx as (v & Hv & Hx). rewrite forallb_forall in H. specialize (H v Hv).
    apply andb_prop in H. destruct H as [_ H]. rewrite forallb_forall in H.
    destruct (nth_opt v c) as [y|] eqn:E; [|destruct Hx]. destruct Hx as [<-|[]].
    apply H. eapply nth_opt_In; eauto.
  Qed.

  Lemma tree_col_indep (le : spec_float -> spec_float -> Prop) (le_trans : forall x y z, okv x -> okv y -> okv z -> le x y -> le y z -> le x z)
        (le_antisym : forall x y, okv x -> okv y -> le x y -> le y x -> x = y) step red init :
    selects le okv step -> selects le okv red -> okv init ->
    forall col, Forall okv col -> forall t1 t2, tree_col A step init red t1 col = tree_col A step init red t2 col.
  Proof.
    intros Hs Hr Hi col Hok t1 t2. unfold tree_col.
    change (col_leaf A step init) with (gleaf step init).
    destruct col as [|x t].
    - now rewrite !(par_fold_nil_none (gleaf step init) red eq_refl).
    - destruct (tree_col_ub le okv le_trans step red init Hs Hr Hi t1 (x :: t) Hok) as (m1 & E1 & U1); [discriminate|].
      destruct (tree_col_ub le okv le_trans step red init Hs Hr Hi t2 (x :: t) Hok) as (m2 & E2 & U2); [discriminate|].
      match goal with
      | |- match ?a with _ => _ end = match ?b with _ => _ end =>
        assert (Ea : a = Some m1) by exact E1; assert (Eb : b = Some m2) by exact E2; rewrite Ea, Eb
      end.
      apply (is_ub_unique le okv le_antisym m1 m2 (init :: x :: t)); auto.
  Qed.

  Hypothesis fmax_ok : okv (k_fmax A).
  Hypothesis fmin_ok : okv (k_fmin A).

  Theorem bbox_decided_f64 : bbox_decided A val_ok_f64.
  Proof.
    intros D xs H t1 t2. unfold tree_bbox. destruct xs as [|x0 xs0]; [reflexivity|].
    f_equal. f_equal.
    - apply map_ext. intros c.
      apply (tree_col_indep fge (fge_trans okv) (fge_antisym okv rank_inj));
        [ eapply min_step_selects; eauto using okv_not_nan, rank_inj
        | eapply fmin2_selects; eauto using okv_not_nan, rank_inj
        | exact fmax_ok
        | eapply column_okv; eauto ].
    - apply map_ext. intros c.
      apply (tree_col_indep fle (fle_trans okv) (fle_antisym okv rank_inj));
        [ eapply max_step_selects; eauto using okv_not_nan, rank_inj
        | eapply fmax2_selects; eauto using okv_not_nan, rank_inj
        | exact fmin_ok
        | eapply column_okv; eauto ].
  Qed.
End F64Order.

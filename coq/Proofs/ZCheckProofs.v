(* The ZCurve checkers of Model/SfcPart.v decide what they are meant to decide. *)
From Coupe Require Import Lib.Prelude Lib.Sorting Model.SfcPart Proofs.SortingProofs Proofs.ZCurveProofs.
From Coq Require Import Sorting.Permutation Sorting.Sorted Classes.RelationClasses.
Open Scope nat_scope.

(* ---- lexicographic order on codes ---- *)

Lemma lex_leb_trans : forall a b c, lex_leb a b = true -> lex_leb b c = true -> lex_leb a c = true.
Proof.
  induction a as [|x a IH]; intros [|y b] [|z c] H1 H2; cbn [lex_leb] in *; try reflexivity; try discriminate.
  apply orb_true_iff in H1. apply orb_true_iff in H2. apply orb_true_iff.
  destruct H1 as [H1|H1], H2 as [H2|H2];
    rewrite ?andb_true_iff, ?N.ltb_lt, ?N.eqb_eq in *.
  - left. lia.
  - left. destruct H2. lia.
  - left. destruct H1. lia.
  - right. destruct H1 as [-> H1], H2 as [-> H2]. split; [reflexivity|]. eapply IH; eauto.
Qed.

Lemma lex_ltb_not_leb : forall a b, lex_ltb a b = true -> lex_leb b a = false.
Proof.
  induction a as [|x a IH]; intros [|y b] H; cbn [lex_ltb lex_leb] in *; try discriminate; try reflexivity.
  apply orb_true_iff in H. apply orb_false_iff.
  destruct H as [H|H]; rewrite ?andb_true_iff, ?N.ltb_lt, ?N.eqb_eq in H.
  - split; [apply N.ltb_ge; lia|]. apply andb_false_iff. left. apply N.eqb_neq. lia.
  - destruct H as [-> H]. split; [apply N.ltb_irrefl|]. rewrite N.eqb_refl. cbn [andb]. apply IH, H.
Qed.

(* a is not after b in the order of the recorded codes *)
Definition code_le (codes : list (list N)) (a b : nat) : Prop :=
  exists ca cb, nth_opt codes a = Some ca /\ nth_opt codes b = Some cb /\ lex_leb ca cb = true.

Lemma code_le_trans codes : Transitive (code_le codes).
Proof.
  intros a b c [ca [cb [Ha [Hb H1]]]] [cb' [cc [Hb' [Hc H2]]]].
  rewrite Hb in Hb'. injection Hb' as <-. exists ca, cc. repeat split; auto. eapply lex_leb_trans; eauto.
Qed.

Lemma sorted_by_code_ok codes : forall perm,
  Forall (fun a => a < length codes) perm ->
  (sorted_by_code codes perm = true <-> StronglySorted (code_le codes) perm).
Proof.
  intros perm Hb. split.
  - intros H. apply Sorted_StronglySorted; [apply code_le_trans|].
    induction perm as [|a t IH]; [constructor|].
    cbn [sorted_by_code] in H. destruct t as [|b t'].
    + constructor; constructor.
    + destruct (nth_opt codes a) as [ca|] eqn:Ea; [|discriminate].
      destruct (nth_opt codes b) as [cb|] eqn:Eb; [|discriminate].
      apply andb_true_iff in H. destruct H as [H1 H2].
      inversion Hb; subst. constructor; [apply IH; assumption|].
      constructor. exists ca, cb. auto.
  - intros H. apply StronglySorted_Sorted in H.
    induction perm as [|a t IH]; [reflexivity|].
    cbn [sorted_by_code]. destruct t as [|b t']; [reflexivity|].
    inversion H as [|? ? Hs Hh]; subst. inversion Hh as [|? ? [ca [cb [Ha [Hb' Hl]]]]]; subst.
    rewrite Ha, Hb', Hl. cbn [andb]. inversion Hb; subst. apply IH; assumption.
Qed.

(* ---- permutation of 0..n-1 ---- *)

Lemma nodupb_ok : forall l, nodupb l = true <-> NoDup l.
Proof.
  induction l as [|x t IH]; cbn [nodupb]; [split; [constructor|reflexivity]|].
  rewrite andb_true_iff, negb_true_iff, IH. split.
  - intros [H1 H2]. constructor; [|exact H2]. intros C.
    assert (existsb (Nat.eqb x) t = true) by (apply existsb_exists; exists x; split; [exact C|apply Nat.eqb_refl]).
    congruence.
  - intros H. inversion H as [|? ? Hx Ht]; subst. split; [|exact Ht].
    destruct (existsb (Nat.eqb x) t) eqn:E; [|reflexivity].
    apply existsb_exists in E. destruct E as [y [Hy E]]. apply Nat.eqb_eq in E. subst y. contradiction.
Qed.

Lemma is_perm_of_range_ok perm n : is_perm_of_range perm n = true <-> Permutation perm (seq 0 n).
Proof.
  unfold is_perm_of_range. rewrite !andb_true_iff, Nat.eqb_eq, nodupb_ok, forallb_forall. split.
  - intros [[HL HN] HB]. apply NoDup_Permutation_bis; [exact HN|rewrite seq_length; lia|].
    intros a Ha. apply in_seq. specialize (HB a Ha). apply Nat.ltb_lt in HB. lia.
  - intros P. split; [split|].
    + rewrite (Permutation_length P). apply seq_length.
    + eapply Permutation_NoDup; [apply Permutation_sym; exact P|apply seq_NoDup].
    + intros a Ha. apply (Permutation_in _ P) in Ha. apply in_seq in Ha. apply Nat.ltb_lt. lia.
Qed.

(* ---- blocks ---- *)

Lemma follow_blocks_ok parts : forall sizes perm j,
  follow_blocks parts perm sizes j = true <-> runs_ok parts perm sizes j.
Proof.
  induction sizes as [|s st IH]; intros perm j; cbn [follow_blocks runs_ok].
  - destruct perm; split; intros H; try reflexivity; discriminate.
  - rewrite !andb_true_iff, Nat.eqb_eq, forallb_forall, IH. split.
    + intros [[HL HF] HR]. exists (firstn s perm), (skipn s perm).
      split; [symmetry; apply firstn_skipn|]. split; [exact HL|]. split; [|exact HR].
      rewrite Forall_forall. intros a Ha. specialize (HF a Ha).
      destruct (nth_opt parts a) as [p|]; [|discriminate]. apply N.eqb_eq in HF. congruence.
    + intros [b [rest [-> [HL [HF HR]]]]]. subst s.
      rewrite firstn_length_app, skipn_length_app. split; [split; [reflexivity|]|exact HR].
      rewrite Forall_forall in HF. intros a Ha. rewrite (HF a Ha). apply N.eqb_refl.
Qed.

(* what [check_runs] decides: [perm] witnesses that the parts are consecutive
   runs of the points sorted by cell, of the prescribed sizes *)
Definition runs_witness (codes : list (list N)) (perm : list nat) (parts : list N) (k : nat) : Prop :=
  let n := length parts in
  length codes = n
  /\ Permutation perm (seq 0 n)
  /\ StronglySorted (code_le codes) perm
  /\ runs_ok parts perm (block_sizes n k) 0%N.

Theorem check_runs_ok codes perm parts k :
  check_runs codes perm parts k = true <-> runs_witness codes perm parts k.
Proof.
  unfold check_runs, runs_witness. cbv zeta.
  rewrite !andb_true_iff, Nat.eqb_eq, is_perm_of_range_ok, follow_blocks_ok. split.
  - intros [[[HL HP] HS] HR]. repeat split; auto.
    apply sorted_by_code_ok; [|exact HS].
    rewrite Forall_forall. intros a Ha. apply (Permutation_in _ HP) in Ha. apply in_seq in Ha. lia.
  - intros [HL [HP [HS HR]]]. repeat split; auto.
    apply sorted_by_code_ok; [|exact HS].
    rewrite Forall_forall. intros a Ha. apply (Permutation_in _ HP) in Ha. apply in_seq in Ha. lia.
Qed.

(* the property itself: SOME sorted permutation explains the parts *)
Definition zcurve_property (codes : list (list N)) (parts : list N) (k : nat) : Prop :=
  exists perm, runs_witness codes perm parts k.

Corollary check_runs_sound codes perm parts k :
  check_runs codes perm parts k = true -> zcurve_property codes parts k.
Proof. intros H. exists perm. apply check_runs_ok, H. Qed.

(* ------------------------------------------------------------------ *)
(* the witness-free checker accepts every output that has the property  *)
(* (so its [false] means the property fails)                            *)
(* ------------------------------------------------------------------ *)

Definition part_le (parts : list N) (a b : nat) : Prop :=
  exists pa pb, nth_opt parts a = Some pa /\ nth_opt parts b = Some pb /\ (pa <= pb)%N.

Lemma StronglySorted_all_pairs {A} (R : A -> A -> Prop) l :
  (forall a b, In a l -> In b l -> R a b) -> StronglySorted R l.
Proof.
  induction l as [|x t IH]; intros H; constructor.
  - apply IH. intros a b Ha Hb. apply H; right; assumption.
  - rewrite Forall_forall. intros b Hb. apply H; [left; reflexivity|right; exact Hb].
Qed.

Lemma StronglySorted_and {A} (R1 R2 : A -> A -> Prop) l :
  StronglySorted R1 l -> StronglySorted R2 l -> StronglySorted (fun a b => R1 a b /\ R2 a b) l.
Proof.
  induction l as [|x t IH]; intros H1 H2; [constructor|].
  inversion H1 as [|? ? S1 F1]; inversion H2 as [|? ? S2 F2]; subst.
  constructor; [apply IH; assumption|].
  rewrite Forall_forall in *. intros b Hb. split; auto.
Qed.

Lemma StronglySorted_In_cases {A} (R : A -> A -> Prop) l a b :
  StronglySorted R l -> In a l -> In b l -> a = b \/ R a b \/ R b a.
Proof.
  induction 1 as [|x t Hs IH Hf]; intros Ha Hb; [destruct Ha|].
  rewrite Forall_forall in Hf.
  destruct Ha as [<-|Ha], Hb as [<-|Hb]; auto.
Qed.

Lemma runs_ok_sorted parts : forall sizes perm j,
  runs_ok parts perm sizes j ->
  StronglySorted (part_le parts) perm
  /\ Forall (fun a => exists pa, nth_opt parts a = Some pa /\ (j <= pa)%N) perm.
Proof.
  induction sizes as [|s st IH]; intros perm j H; cbn [runs_ok] in H.
  - subst perm. split; constructor.
  - destruct H as [b [rest [-> [_ [Hf Hr]]]]]. destruct (IH rest (j + 1)%N Hr) as [SR FR].
    rewrite Forall_forall in Hf, FR. split.
    + apply StronglySorted_app; [|exact SR|].
      * apply StronglySorted_all_pairs. intros a a' Ha Ha'. exists j, j.
        split; [apply Hf, Ha|]. split; [apply Hf, Ha'|lia].
      * intros a a' Ha Ha'. destruct (FR a' Ha') as [pa' [E L]]. exists j, pa'.
        split; [apply Hf, Ha|]. split; [exact E|lia].
    + apply Forall_app. split; rewrite Forall_forall.
      * intros a Ha. exists j. split; [apply Hf, Ha|lia].
      * intros a Ha. destruct (FR a Ha) as [pa [E L]]. exists pa. split; [exact E|lia].
Qed.

Lemma In_combine_nth {A B} : forall (l1 : list A) (l2 : list B) x y,
  In (x, y) (combine l1 l2) -> exists a, nth_opt l1 a = Some x /\ nth_opt l2 a = Some y.
Proof.
  induction l1 as [|u l1 IH]; intros [|v l2] x y H; cbn [combine] in H; try destruct H as [].
  - injection H as <- <-. exists 0. split; reflexivity.
  - destruct (IH _ _ _ H) as [a [H1 H2]]. exists (S a). split; assumption.
Qed.

Definition has_part (parts : list N) (v : N) (a : nat) : bool :=
  match nth_opt parts a with Some p => (p =? v)%N | None => false end.

Lemma filter_map_S (f : nat -> bool) l : filter f (map S l) = map S (filter (fun a => f (S a)) l).
Proof.
  induction l as [|x t IH]; cbn [map filter]; [reflexivity|].
  destruct (f (S x)); cbn [map]; rewrite IH; reflexivity.
Qed.

Lemma count_occ_filter_seq : forall (l : list N) v,
  count_occ N.eq_dec l v = length (filter (has_part l v) (seq 0 (length l))).
Proof.
  induction l as [|x t IH]; intros v; [reflexivity|].
  cbn [length seq]. rewrite <- seq_shift. cbn [filter]. rewrite filter_map_S.
  assert (E : filter (fun a => has_part (x :: t) v (S a)) (seq 0 (length t))
              = filter (has_part t v) (seq 0 (length t))) by (apply filter_ext; intros a; reflexivity).
  rewrite E. unfold has_part at 1. cbn [nth_opt count_occ].
  destruct (N.eq_dec x v) as [->|Hne].
  - rewrite N.eqb_refl. cbn [length]. rewrite map_length, <- IH. reflexivity.
  - destruct (N.eqb_spec x v); [contradiction|]. rewrite map_length, <- IH. reflexivity.
Qed.

Lemma Permutation_filter_length {A} (f : A -> bool) l l' :
  Permutation l l' -> length (filter f l) = length (filter f l').
Proof.
  induction 1 as [|x l l' _ IH|x y l|l l' l'' _ IH1 _ IH2]; cbn [filter].
  - reflexivity.
  - destruct (f x); cbn [length]; congruence.
  - destruct (f x), (f y); reflexivity.
  - congruence.
Qed.

Lemma runs_ok_count parts : forall sizes perm j d,
  runs_ok parts perm sizes j -> d < length sizes ->
  length (filter (has_part parts (j + N.of_nat d)%N) perm) = nth d sizes 0.
Proof.
  induction sizes as [|s st IH]; intros perm j d H Hd; cbn [length] in Hd; [lia|].
  cbn [runs_ok] in H. destruct H as [b [rest [-> [Hl [Hf Hr]]]]].
  rewrite filter_app, app_length. rewrite Forall_forall in Hf.
  destruct d as [|d]; cbn [nth].
  - rewrite N.add_0_r.
    rewrite (filter_all (has_part parts j) b).
    + rewrite (filter_none (has_part parts j) rest); [cbn [length]; lia|].
      destruct (runs_ok_sorted _ _ _ _ Hr) as [_ FR]. eapply Forall_impl; [|exact FR]. cbn beta.
      intros a [pa [E L]]. unfold has_part. rewrite E. apply N.eqb_neq. lia.
    + rewrite Forall_forall. intros a Ha. unfold has_part. rewrite (Hf a Ha). apply N.eqb_refl.
  - rewrite (filter_none _ b).
    + cbn [length Nat.add]. replace (j + N.of_nat (S d))%N with (j + 1 + N.of_nat d)%N by lia.
      apply IH; [exact Hr|lia].
    + rewrite Forall_forall. intros a Ha. unfold has_part. rewrite (Hf a Ha). apply N.eqb_neq. lia.
Qed.

Theorem check_zparts_complete codes parts k :
  zcurve_property codes parts k -> check_zparts codes parts k = true.
Proof.
  intros [perm [HL [HP [HS HR]]]]. cbv zeta in *.
  set (n := length parts) in *.
  assert (Hin : forall a, a < n -> In a perm).
  { intros a Ha. apply (Permutation_in a (Permutation_sym HP)). apply in_seq. lia. }
  destruct (runs_ok_sorted _ _ _ _ HR) as [SP _].
  pose proof (StronglySorted_and _ _ _ HS SP) as SB.
  unfold check_zparts. cbv zeta. fold n.
  rewrite !andb_true_iff. split; [split; [split|]|].
  - apply Nat.eqb_eq. exact HL.
  - apply forallb_forall. intros [ca pa] Hx. apply forallb_forall. intros [cb pb] Hy.
    unfold code_mono_pair. cbn [fst snd]. destruct (lex_ltb ca cb) eqn:Elt; [|reflexivity].
    apply N.leb_le.
    destruct (In_combine_nth _ _ _ _ Hx) as [a [Hca Hpa]].
    destruct (In_combine_nth _ _ _ _ Hy) as [b [Hcb Hpb]].
    assert (Ha : In a perm) by (apply Hin; eapply nth_opt_Some; eauto).
    assert (Hb : In b perm) by (apply Hin; eapply nth_opt_Some; eauto).
    destruct (StronglySorted_In_cases _ _ a b SB Ha Hb) as [->|[[_ [pa' [pb' [E1 [E2 L]]]]]|[[ca' [cb' [E1 [E2 L]]]] _]]].
    + rewrite Hpa in Hpb. injection Hpb as <-. lia.
    + rewrite Hpa in E1. rewrite Hpb in E2. injection E1 as <-. injection E2 as <-. exact L.
    + rewrite Hcb in E1. rewrite Hca in E2. injection E1 as <-. injection E2 as <-.
      apply lex_ltb_not_leb in Elt. congruence.
  - apply forallb_forall. intros p Hp. apply N.ltb_lt.
    destruct (In_nth_opt _ _ Hp) as [a Ha].
    assert (Hai : In a perm) by (apply Hin; eapply nth_opt_Some; eauto).
    pose proof (runs_ok_ids _ _ _ _ HR) as F. rewrite Forall_forall in F.
    destruct (F a Hai) as [d [Hd [E _]]]. rewrite Ha in E. injection E as ->.
    unfold block_sizes in Hd. rewrite map_length, seq_length in Hd. lia.
  - apply forallb_forall. intros j Hj. apply in_seq in Hj. apply Nat.eqb_eq.
    rewrite count_occ_filter_seq. fold n.
    rewrite <- (Permutation_filter_length _ _ _ HP).
    replace (N.of_nat j) with (0 + N.of_nat j)%N by lia.
    rewrite (runs_ok_count _ _ _ _ _ HR) by (unfold block_sizes; rewrite map_length, seq_length; lia).
    unfold block_sizes.
    rewrite (nth_indep _ 0 (chunk_size n k 0)) by (rewrite map_length, seq_length; lia).
    rewrite map_nth, seq_nth by lia. reflexivity.
Qed.

(* hence: the checker's [false] on an implementation output means that NO
   permutation sorted by cell explains the parts *)
Corollary check_zparts_false codes parts k :
  check_zparts codes parts k = false -> ~ zcurve_property codes parts k.
Proof. intros H C. apply check_zparts_complete in C. congruence. Qed.

(* ------------------------------------------------------------------ *)
(* the model's outputs have the property the checkers test              *)
(* ------------------------------------------------------------------ *)

Lemma nth_opt_map_seq_lt {B} (f : nat -> B) : forall n s a, a < n -> nth_opt (map f (seq s n)) a = Some (f (s + a)).
Proof.
  induction n as [|n IH]; intros s a Ha; [lia|]. cbn [seq map]. destruct a as [|a]; cbn [nth_opt].
  - rewrite Nat.add_0_r. reflexivity.
  - rewrite IH by lia. f_equal. f_equal. lia.
Qed.

Theorem zcurve_has_property nq maxo q sorter order k n p0 :
  1 <= nq -> sort_contract sorter -> (forall path x, (q path x < N.of_nat nq)%N) ->
  length p0 = n -> order <= maxo -> 1 <= k ->
  exists p, zcurve true nq maxo q sorter order k n p0 = Ok p
    /\ zcurve_property (map (zcode q order []) (seq 0 n)) p k.
Proof.
  intros Hnq Hsort Hq Hl Ho Hk.
  destruct (zcurve_runs nq maxo q sorter order k n p0 Hnq Hsort Hq Hl Ho Hk) as [p [E [Lp [perm [P [S' R]]]]]].
  exists p. split; [exact E|]. exists perm. unfold runs_witness. cbv zeta. rewrite Lp.
  split; [rewrite map_length, seq_length; reflexivity|]. split; [exact P|]. split; [|exact R].
  eapply StronglySorted_impl_in; [|exact S']. intros a b Ha Hb HR.
  apply (Permutation_in _ P) in Ha. apply (Permutation_in _ P) in Hb. apply in_seq in Ha. apply in_seq in Hb.
  exists (zcode q order [] a), (zcode q order [] b).
  rewrite !nth_opt_map_seq_lt by lia. cbn [Nat.add]. repeat split. exact HR.
Qed.

(* ---- the canonical sorter used to execute the model satisfies the contract ---- *)

Lemma insert_by_key_perm key x : forall l, Permutation (insert_by_key key x l) (x :: l).
Proof.
  induction l as [|y t IH]; cbn [insert_by_key]; [apply Permutation_refl|].
  destruct (key y <? key x)%N; [|apply Permutation_refl].
  eapply Permutation_trans; [apply perm_skip, IH|apply perm_swap].
Qed.

Lemma insert_by_key_sorted key x : forall l,
  StronglySorted (key_le key) l -> StronglySorted (key_le key) (insert_by_key key x l).
Proof.
  induction l as [|y t IH]; intros H; cbn [insert_by_key].
  - constructor; constructor.
  - inversion H as [|? ? Hs Hf]; subst. destruct (N.ltb_spec (key y) (key x)) as [L|L].
    + constructor; [apply IH, Hs|]. rewrite Forall_forall in *. intros z Hz.
      apply (Permutation_in _ (insert_by_key_perm key x t)) in Hz. destruct Hz as [<-|Hz].
      * unfold key_le. lia.
      * apply Hf, Hz.
    + constructor; [exact H|]. constructor; [unfold key_le; lia|].
      rewrite Forall_forall in *. intros z Hz. specialize (Hf z Hz). unfold key_le in *. lia.
Qed.

Theorem sort_by_key_contract : sort_contract sort_by_key.
Proof.
  intros key l. unfold sort_by_key. induction l as [|x t [IP IS]]; cbn [fold_right].
  - split; constructor.
  - split.
    + eapply Permutation_trans; [apply insert_by_key_perm|apply perm_skip, IP].
    + apply insert_by_key_sorted, IS.
Qed.

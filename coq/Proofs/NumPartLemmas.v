(* Lemmas about Model/NumPart.v shared by the proofs of C12 and C14. *)
From Coupe Require Import Lib.Prelude Model.NumPart.
From Coq Require Import Permutation.
Open Scope Z_scope.

Definition ids (l : list item) : list nat := map snd l.
Definition wts (l : list item) : list Z := map fst l.

(* non-increasing list of numbers (every later element is below every earlier one) *)
Fixpoint descZ (l : list Z) : Prop :=
  match l with
  | [] => True
  | x :: t => (forall y, In y t -> y <= x) /\ descZ t
  end.

(* ---------- sorting of numbers ---------- *)

Lemma insertZ_perm w l : Permutation (insertZ w l) (w :: l).
Proof.
  induction l as [|x t IH]; cbn [insertZ]; auto.
  destruct (x <? w); auto. rewrite IH. apply perm_swap.
Qed.

Lemma insertZ_desc w l : descZ l -> descZ (insertZ w l).
Proof.
  induction l as [|x t IH]; cbn [insertZ]; intros Hd.
  - cbn. split; auto. intros y [].
  - destruct Hd as [Hx Ht]. destruct (Z.ltb_spec x w) as [E|E].
    + cbn [descZ]. split; [|split; auto].
      intros y [<-|Hy]; [lia|]. specialize (Hx y Hy). lia.
    + cbn [descZ]. split; [|auto].
      intros y Hy. apply (Permutation_in _ (insertZ_perm w t)) in Hy. destruct Hy as [<-|Hy]; auto.
Qed.

Lemma sortZ_perm l : Permutation (sortZ_desc l) l.
Proof. induction l as [|x t IH]; cbn; auto. rewrite insertZ_perm. constructor. exact IH. Qed.

Lemma sortZ_descZ l : descZ (sortZ_desc l).
Proof. induction l as [|x t IH]; cbn; auto. apply insertZ_desc. exact IH. Qed.

Lemma descZ_perm_eq : forall l l', descZ l -> descZ l' -> Permutation l l' -> l = l'.
Proof.
  induction l as [|x t IH]; intros l' Hd Hd' P.
  - apply Permutation_nil in P. now subst.
  - destruct l' as [|y t']; [apply Permutation_sym, Permutation_nil in P; discriminate|].
    destruct Hd as [Hx Ht], Hd' as [Hy Ht'].
    assert (x = y).
    { assert (Hyin : In y (x :: t)) by (apply (Permutation_in _ (Permutation_sym P)); left; auto).
      assert (Hxin : In x (y :: t')) by (apply (Permutation_in _ P); left; auto).
      destruct Hyin as [->|Hyin]; auto. destruct Hxin as [->|Hxin]; auto.
      specialize (Hx _ Hyin). specialize (Hy _ Hxin). lia. }
    subst y. f_equal. apply IH; auto. eapply Permutation_cons_inv; eauto.
Qed.

Lemma sortZ_perm_eq l l' : Permutation l l' -> sortZ_desc l = sortZ_desc l'.
Proof.
  intros P. apply descZ_perm_eq; try apply sortZ_descZ.
  rewrite !sortZ_perm. exact P.
Qed.

Lemma list_Zeqb_eq a b : list_Zeqb a b = true <-> a = b.
Proof.
  revert b; induction a as [|x a IH]; intros [|y b]; cbn; split; intros H; try congruence; auto.
  - apply andb_true_iff in H as [H1 H2]. apply Z.eqb_eq in H1. apply IH in H2. congruence.
  - injection H as -> ->. apply andb_true_iff. split; [apply Z.eqb_refl|now apply IH].
Qed.

Lemma same_multiset_iff a b : same_multiset a b = true <-> Permutation a b.
Proof.
  unfold same_multiset. rewrite list_Zeqb_eq. split; intros H.
  - rewrite <- (sortZ_perm a), <- (sortZ_perm b), H. reflexivity.
  - now apply sortZ_perm_eq.
Qed.

Lemma insertZ_ge_all w l : (forall y, In y l -> y <= w) -> insertZ w l = w :: l.
Proof.
  induction l as [|y t IH]; intros H; cbn [insertZ]; auto.
  destruct (Z.ltb_spec y w) as [E|E]; auto.
  assert (y = w) by (specialize (H y (or_introl eq_refl)); lia). subst y.
  rewrite IH; auto. intros z Hz. apply H. now right.
Qed.

(* ---------- sorting of items ---------- *)

Lemma ltb_item_spec a b :
  ltb_item a b = true <-> (fst a < fst b \/ (fst a = fst b /\ (snd a < snd b)%nat)).
Proof.
  unfold ltb_item. rewrite orb_true_iff, andb_true_iff, Z.ltb_lt, Z.eqb_eq, Nat.ltb_lt. tauto.
Qed.

Lemma insert_desc_perm e l : Permutation (insert_desc e l) (e :: l).
Proof.
  induction l as [|x t IH]; cbn; auto.
  destruct (ltb_item x e); auto. rewrite IH. apply perm_swap.
Qed.

Lemma insert_desc_length e l : length (insert_desc e l) = S (length l).
Proof. apply (Permutation_length (insert_desc_perm e l)). Qed.

Lemma sort_items_perm l : Permutation (sort_items_desc l) l.
Proof. induction l as [|x t IH]; cbn; auto. rewrite insert_desc_perm. constructor. exact IH. Qed.

Lemma ids_insert e l : Permutation (ids (insert_desc e l)) (snd e :: ids l).
Proof. unfold ids. rewrite (Permutation_map snd (insert_desc_perm e l)). reflexivity. Qed.

(* the weights of a sorted insertion are the sorted insertion of the weights *)
Lemma wts_insert e l : descZ (wts l) -> wts (insert_desc e l) = insertZ (fst e) (wts l).
Proof.
  induction l as [|x t IH]; intros Hd; cbn [insert_desc wts map insertZ]; auto.
  destruct Hd as [Hx Ht]. fold (wts t) in *.
  destruct (ltb_item x e) eqn:E; destruct (Z.ltb_spec (fst x) (fst e)) as [E2|E2].
  - reflexivity.
  - apply ltb_item_spec in E. assert (fst x = fst e) by lia.
    cbn [map]. fold (wts t). rewrite insertZ_ge_all; [congruence|].
    intros y Hy. specialize (Hx y Hy). lia.
  - assert (ltb_item x e = true) by (apply ltb_item_spec; lia). congruence.
  - cbn [map]. fold (wts (insert_desc e t)). rewrite IH; auto.
Qed.

Lemma wts_sort l : wts (sort_items_desc l) = sortZ_desc (wts l).
Proof.
  induction l as [|x t IH]; cbn [sort_items_desc fold_right wts map sortZ_desc]; auto.
  fold (sort_items_desc t). fold (wts t). fold (sortZ_desc (wts t)).
  rewrite wts_insert; rewrite IH; auto. apply sortZ_descZ.
Qed.

Lemma wts_items_gen ws s : wts (combine ws (seq s (length ws))) = ws.
Proof. revert s; induction ws as [|w t IH]; intros s; cbn; auto. f_equal. apply IH. Qed.
Lemma wts_items ws : wts (items_of ws) = ws.
Proof. apply wts_items_gen. Qed.

Lemma ids_items ws : ids (items_of ws) = seq 0 (length ws).
Proof.
  unfold items_of, ids. generalize 0%nat. induction ws as [|w t IH]; intros k; cbn; auto.
  f_equal. apply IH.
Qed.

Lemma items_length ws : length (items_of ws) = length ws.
Proof. unfold items_of, item. rewrite combine_length, seq_length. lia. Qed.

Lemma sorted_items_facts ws :
  let l := sort_items_desc (items_of ws) in
  NoDup (ids l) /\ wts l = sortZ_desc ws /\ (forall i, In i (ids l) <-> (i < length ws)%nat)
  /\ length l = length ws /\ Permutation l (items_of ws).
Proof.
  intros l. pose proof (sort_items_perm (items_of ws)) as P.
  assert (Pi : Permutation (ids l) (seq 0 (length ws))).
  { unfold ids, l. rewrite (Permutation_map snd P). fold (ids (items_of ws)). now rewrite ids_items. }
  repeat split.
  - eapply Permutation_NoDup; [symmetry; exact Pi|apply seq_NoDup].
  - unfold l. now rewrite wts_sort, wts_items.
  - intros Hi. apply (Permutation_in _ Pi) in Hi. apply in_seq in Hi. lia.
  - intros Hi. apply (Permutation_in _ (Permutation_sym Pi)). apply in_seq. lia.
  - unfold l. rewrite (Permutation_length P). apply items_length.
  - exact P.
Qed.

(* ---------- maximum, minimum ---------- *)

Lemma maxl_ge l x : In x l -> x <= maxl l.
Proof.
  induction l as [|y t IH]; [intros []|].
  intros H. cbn [maxl]. destruct t as [|z t'].
  - destruct H as [->|[]]. lia.
  - destruct H as [->|H]; [lia|]. specialize (IH H). lia.
Qed.
Lemma maxl_in l : l <> [] -> In (maxl l) l.
Proof.
  induction l as [|y t IH]; [congruence|]. intros _. cbn [maxl]. destruct t as [|z t'].
  - now left.
  - assert (H : In (maxl (z :: t')) (z :: t')) by (apply IH; congruence).
    destruct (Z.max_spec y (maxl (z :: t'))) as [[_ ->]|[_ ->]]; [now right|now left].
Qed.
Lemma minl_le l x : In x l -> minl l <= x.
Proof.
  induction l as [|y t IH]; [intros []|].
  intros H. cbn [minl]. destruct t as [|z t'].
  - destruct H as [->|[]]. lia.
  - destruct H as [->|H]; [lia|]. specialize (IH H). lia.
Qed.
Lemma minl_in l : l <> [] -> In (minl l) l.
Proof.
  induction l as [|y t IH]; [congruence|]. intros _. cbn [minl]. destruct t as [|z t'].
  - now left.
  - assert (H : In (minl (z :: t')) (z :: t')) by (apply IH; congruence).
    destruct (Z.min_spec y (minl (z :: t'))) as [[_ ->]|[_ ->]]; [now left|now right].
Qed.

Lemma maxl_le_bound l b : l <> [] -> (forall x, In x l -> x <= b) -> maxl l <= b.
Proof. intros Hne H. apply H, maxl_in, Hne. Qed.
Lemma minl_ge_bound l b : l <> [] -> (forall x, In x l -> b <= x) -> b <= minl l.
Proof. intros Hne H. apply H, minl_in, Hne. Qed.

Lemma maxl_perm l l' : Permutation l l' -> maxl l = maxl l'.
Proof.
  intros P. destruct l as [|x t].
  - apply Permutation_nil in P. now subst.
  - assert (l' <> []) by (intro; subst; apply Permutation_sym, Permutation_nil in P; discriminate).
    assert (maxl (x :: t) <= maxl l').
    { apply maxl_ge. apply (Permutation_in _ P). apply maxl_in. congruence. }
    assert (maxl l' <= maxl (x :: t)).
    { apply maxl_ge. apply (Permutation_in _ (Permutation_sym P)). now apply maxl_in. }
    lia.
Qed.
Lemma minl_perm l l' : Permutation l l' -> minl l = minl l'.
Proof.
  intros P. destruct l as [|x t].
  - apply Permutation_nil in P. now subst.
  - assert (l' <> []) by (intro; subst; apply Permutation_sym, Permutation_nil in P; discriminate).
    assert (minl l' <= minl (x :: t)).
    { apply minl_le. apply (Permutation_in _ P). apply minl_in. congruence. }
    assert (minl (x :: t) <= minl l').
    { apply minl_le. apply (Permutation_in _ (Permutation_sym P)). now apply minl_in. }
    lia.
Qed.

(* ---------- nth_opt / set_nth ---------- *)

Lemma nth_opt_In {A} (l : list A) i x : nth_opt l i = Some x -> In x l.
Proof.
  revert i; induction l as [|y t IH]; intros [|i]; cbn; intros H; try discriminate.
  - injection H as ->. now left.
  - right. eapply IH; eauto.
Qed.
Lemma In_nth_opt {A} (l : list A) x : In x l -> exists i, nth_opt l i = Some x.
Proof.
  induction l as [|y t IH]; [intros []|]. intros [->|H].
  - now exists 0%nat.
  - destruct (IH H) as [i Hi]. now exists (S i).
Qed.
Lemma nth_opt_None {A} (l : list A) i : (length l <= i)%nat -> nth_opt l i = None.
Proof. revert i; induction l as [|y t IH]; intros [|i]; cbn; intros H; auto; try lia. apply IH. lia. Qed.

Lemma set_nth_In {A} (l : list A) i v x : In x (set_nth l i v) -> x = v \/ In x l.
Proof.
  revert i; induction l as [|y t IH]; intros [|i]; cbn; intros H; auto.
  - destruct H as [<-|H]; auto.
  - destruct H as [<-|H]; auto. destruct (IH _ H); auto.
Qed.

(* set_nth as a permutation: the old value is replaced by the new one *)
Lemma set_nth_perm {A} (l : list A) i x v :
  nth_opt l i = Some x -> exists r, Permutation l (x :: r) /\ Permutation (set_nth l i v) (v :: r).
Proof.
  revert i; induction l as [|y t IH]; intros [|i]; cbn; intros H; try discriminate.
  - injection H as ->. exists t. split; auto.
  - destruct (IH _ H) as [r [P1 P2]]. exists (y :: r). split.
    + rewrite P1. apply perm_swap.
    + rewrite P2. apply perm_swap.
Qed.

(* ---------- loads ---------- *)

(* weight that the items of [l] put on part [q] under the array [p] *)
Fixpoint vsum (p : list N) (q : N) (l : list item) : Z :=
  match l with
  | [] => 0
  | (w, i) :: t =>
    (match nth_opt p i with Some x => if (x =? q)%N then w else 0 | None => 0 end) + vsum p q t
  end.

Lemma vsum_perm p q l l' : Permutation l l' -> vsum p q l = vsum p q l'.
Proof. induction 1 as [|[v i] l l' _ IH|[v i] [w j] l|]; cbn [vsum]; try lia. Qed.

Lemma vsum_ext p p' q l : (forall i, In i (ids l) -> nth_opt p i = nth_opt p' i) -> vsum p q l = vsum p' q l.
Proof.
  induction l as [|[v i] t IH]; cbn [vsum ids map snd]; intros H; auto.
  rewrite (H i) by (now left). rewrite IH; auto. intros j Hj. apply H. now right.
Qed.

Lemma nth_opt_app_r {A} (pre p : list A) j : nth_opt (pre ++ p) (length pre + j) = nth_opt p j.
Proof. induction pre as [|x pre IH]; cbn; auto. Qed.

Lemma vsum_items_gen : forall ws p pre q, length ws = length p ->
  vsum (pre ++ p) q (combine ws (seq (length pre) (length ws))) = load ws p q.
Proof.
  induction ws as [|w ws IH]; intros [|x p] pre q Hlen; cbn in Hlen; try lia; auto.
  cbn [length seq combine vsum load].
  replace (nth_opt (pre ++ x :: p) (length pre)) with (Some x).
  2:{ rewrite <- (Nat.add_0_r (length pre)), nth_opt_app_r. reflexivity. }
  specialize (IH p (pre ++ [x]) q). rewrite app_length in IH. cbn [length] in IH.
  rewrite Nat.add_1_r, <- app_assoc in IH. cbn [app] in IH. rewrite IH by lia. reflexivity.
Qed.

Lemma vsum_items ws p q : length ws = length p -> vsum p q (items_of ws) = load ws p q.
Proof. intros H. apply (vsum_items_gen ws p [] q H). Qed.

(* a relabelling of one element moves its weight from the old part to the new one *)
Lemma load_set_nth : forall ws p i w x y q,
  nth_opt ws i = Some w -> nth_opt p i = Some x ->
  load ws (set_nth p i y) q
  = load ws p q - (if (x =? q)%N then w else 0) + (if (y =? q)%N then w else 0).
Proof.
  induction ws as [|w0 ws IH]; intros [|x0 p] [|i] w x y q Hw Hx; cbn in Hw, Hx; try discriminate.
  - injection Hw as ->. injection Hx as ->. cbn [set_nth load]. lia.
  - cbn [set_nth load]. rewrite (IH p i w x y q Hw Hx). lia.
Qed.

Lemma load_nil_r ws q : load ws [] q = 0.
Proof. destruct ws; reflexivity. Qed.

Lemma loads_length ws p k : length (loads ws p k) = k.
Proof. unfold loads. now rewrite map_length, seq_length. Qed.

Lemma nth_opt_map {A B} (f : A -> B) l i : nth_opt (map f l) i = option_map f (nth_opt l i).
Proof. revert i; induction l as [|x t IH]; intros [|i]; cbn; auto. Qed.

Lemma nth_opt_seq s n i : (i < n)%nat -> nth_opt (seq s n) i = Some (s + i)%nat.
Proof.
  revert s i; induction n as [|n IH]; intros s [|i] H; cbn; try lia.
  - f_equal. lia.
  - rewrite IH by lia. f_equal. lia.
Qed.

Lemma nth_opt_loads ws p k q : (q < k)%nat -> nth_opt (loads ws p k) q = Some (load ws p (N.of_nat q)).
Proof. intros H. unfold loads. rewrite nth_opt_map, nth_opt_seq by exact H. reflexivity. Qed.

(* the total weight is spread over the parts when every id is below k *)
Lemma sumZ_cons x l : sumZ (x :: l) = x + sumZ l.
Proof. reflexivity. Qed.

Lemma sumZ_map_add {A} (f g : A -> Z) l :
  sumZ (map (fun q => f q + g q) l) = sumZ (map f l) + sumZ (map g l).
Proof. induction l as [|x t IH]; cbn [map]; rewrite ?sumZ_cons; [reflexivity|lia]. Qed.

Lemma sumZ_indicator x w : forall k s,
  sumZ (map (fun q => if (x =? N.of_nat q)%N then w else 0) (seq s k))
  = if (N.of_nat s <=? x)%N && (x <? N.of_nat (s + k))%N then w else 0.
Proof.
  induction k as [|k IH]; intros s; cbn [seq map].
  - replace ((N.of_nat s <=? x)%N && (x <? N.of_nat (s + 0))%N) with false; [reflexivity|].
    symmetry. apply andb_false_iff. destruct (N.leb_spec (N.of_nat s) x); auto. right. apply N.ltb_ge. lia.
  - rewrite sumZ_cons, IH. replace (s + S k)%nat with (S s + k)%nat by lia.
    destruct (N.eqb_spec x (N.of_nat s)) as [->|Hne].
    + replace ((N.of_nat (S s) <=? N.of_nat s)%N) with false by (symmetry; apply N.leb_gt; lia).
      replace ((N.of_nat s <=? N.of_nat s)%N) with true by (symmetry; apply N.leb_le; lia).
      replace ((N.of_nat s <? N.of_nat (S s + k))%N) with true by (symmetry; apply N.ltb_lt; lia).
      cbn [andb]. lia.
    + destruct (N.leb_spec (N.of_nat (S s)) x) as [L1|L1];
      destruct (N.leb_spec (N.of_nat s) x) as [L2|L2]; try lia; cbn [andb]; lia.
Qed.

Lemma sumZ_loads : forall ws p k, length ws = length p -> ids_below k p = true ->
  sumZ (loads ws p k) = sumZ ws.
Proof.
  unfold loads. induction ws as [|w ws IH]; intros [|x p] k Hlen Hb; cbn [length] in Hlen; try lia.
  - cbn [load]. induction (seq 0 k) as [|a l IHl]; cbn [map]; rewrite ?sumZ_cons; auto.
  - cbn [load]. rewrite (sumZ_map_add (fun q => if (x =? N.of_nat q)%N then w else 0)
                                      (fun q => load ws p (N.of_nat q))).
    cbn [ids_below forallb] in Hb. apply andb_true_iff in Hb as [Hx Hb]. apply N.ltb_lt in Hx.
    rewrite IH by (auto; lia). rewrite sumZ_indicator, sumZ_cons.
    replace ((N.of_nat 0 <=? x)%N) with true by (symmetry; apply N.leb_le; lia).
    replace ((x <? N.of_nat (0 + k))%N) with true by (symmetry; apply N.ltb_lt; lia).
    reflexivity.
Qed.

(* ---------- positions of extreme elements ---------- *)

Lemma argmin_last_aux_spec : forall l pre bi bv,
  nth_opt (pre ++ l) bi = Some bv -> (forall x, In x pre -> bv <= x) ->
  exists lm, nth_opt (pre ++ l) (argmin_last_aux bi bv (length pre) l) = Some lm
             /\ forall x, In x (pre ++ l) -> lm <= x.
Proof.
  induction l as [|y t IH]; intros pre bi bv Hb Hpre; cbn [argmin_last_aux].
  - exists bv. split; auto. rewrite app_nil_r. exact Hpre.
  - replace (pre ++ y :: t) with ((pre ++ [y]) ++ t) in * by (rewrite <- app_assoc; reflexivity).
    replace (S (length pre)) with (length (pre ++ [y])) by (rewrite app_length; cbn; lia).
    destruct (Z.ltb_spec bv y) as [E|E].
    + apply IH; auto. intros x Hx. apply in_app_or in Hx as [Hx|[<-|[]]]; auto. lia.
    + apply IH.
      * rewrite <- app_assoc. cbn [app]. rewrite <- (Nat.add_0_r (length pre)), nth_opt_app_r. reflexivity.
      * intros x Hx. apply in_app_or in Hx as [Hx|[<-|[]]]; [|lia]. specialize (Hpre x Hx). lia.
Qed.

Lemma argmin_last_spec l m : argmin_last l = Some m ->
  exists lm, nth_opt l m = Some lm /\ forall x, In x l -> lm <= x.
Proof.
  destruct l as [|x t]; cbn [argmin_last]; [discriminate|]. intros H. injection H as <-.
  apply (argmin_last_aux_spec t [x] 0%nat x); auto.
  intros y [<-|[]]. lia.
Qed.

Lemma argmin_last_some l : l <> [] -> exists m, argmin_last l = Some m.
Proof. destruct l; [congruence|]. intros _. eexists. reflexivity. Qed.

Lemma argmin_first_aux_spec : forall l pre bi bv,
  nth_opt (pre ++ l) bi = Some bv -> (forall x, In x pre -> bv <= x) ->
  exists lm, nth_opt (pre ++ l) (argmin_first_aux bi bv (length pre) l) = Some lm
             /\ forall x, In x (pre ++ l) -> lm <= x.
Proof.
  induction l as [|y t IH]; intros pre bi bv Hb Hpre; cbn [argmin_first_aux].
  - exists bv. split; auto. rewrite app_nil_r. exact Hpre.
  - replace (pre ++ y :: t) with ((pre ++ [y]) ++ t) in * by (rewrite <- app_assoc; reflexivity).
    replace (S (length pre)) with (length (pre ++ [y])) by (rewrite app_length; cbn; lia).
    destruct (Z.ltb_spec y bv) as [E|E].
    + apply IH.
      * rewrite <- app_assoc. cbn [app]. rewrite <- (Nat.add_0_r (length pre)), nth_opt_app_r. reflexivity.
      * intros x Hx. apply in_app_or in Hx as [Hx|[<-|[]]]; [|lia]. specialize (Hpre x Hx). lia.
    + apply IH; auto. intros x Hx. apply in_app_or in Hx as [Hx|[<-|[]]]; auto.
Qed.

Lemma argmax_last_aux_spec : forall l pre bi bv,
  nth_opt (pre ++ l) bi = Some bv -> (forall x, In x pre -> x <= bv) ->
  exists lm, nth_opt (pre ++ l) (argmax_last_aux bi bv (length pre) l) = Some lm
             /\ forall x, In x (pre ++ l) -> x <= lm.
Proof.
  induction l as [|y t IH]; intros pre bi bv Hb Hpre; cbn [argmax_last_aux].
  - exists bv. split; auto. rewrite app_nil_r. exact Hpre.
  - replace (pre ++ y :: t) with ((pre ++ [y]) ++ t) in * by (rewrite <- app_assoc; reflexivity).
    replace (S (length pre)) with (length (pre ++ [y])) by (rewrite app_length; cbn; lia).
    destruct (Z.ltb_spec y bv) as [E|E].
    + apply IH; auto. intros x Hx. apply in_app_or in Hx as [Hx|[<-|[]]]; auto. lia.
    + apply IH.
      * rewrite <- app_assoc. cbn [app]. rewrite <- (Nat.add_0_r (length pre)), nth_opt_app_r. reflexivity.
      * intros x Hx. apply in_app_or in Hx as [Hx|[<-|[]]]; [|lia]. specialize (Hpre x Hx). lia.
Qed.

(* ---------- binary fuel ---------- *)

Section IterFacts.
  Context {St R : Type} (step : St -> St + R).

  Lemma iter_nat_add n m s :
    iter_nat step (n + m) s = match iter_nat step n s with inl s' => iter_nat step m s' | inr r => inr r end.
  Proof.
    revert s; induction n as [|n IH]; intros s; cbn [iter_nat Nat.add]; auto.
    destruct (step s); auto.
  Qed.

  Lemma iter_pos_nat n s : iter_pos step n s = iter_nat step (Pos.to_nat n) s.
  Proof.
    revert s; induction n as [n IH|n IH|]; intros s; cbn [iter_pos].
    - rewrite Pos2Nat.inj_xI. cbn [iter_nat]. destruct (step s) as [s1|r]; auto.
      replace (2 * Pos.to_nat n)%nat with (Pos.to_nat n + Pos.to_nat n)%nat by lia.
      rewrite iter_nat_add, <- IH. destruct (iter_pos step n s1); auto.
    - rewrite Pos2Nat.inj_xO.
      replace (2 * Pos.to_nat n)%nat with (Pos.to_nat n + Pos.to_nat n)%nat by lia.
      rewrite iter_nat_add, <- IH. destruct (iter_pos step n s); auto.
    - rewrite Pos2Nat.inj_1. cbn [iter_nat]. destruct (step s); auto.
  Qed.

  (* more fuel does not change a result *)
  Lemma iter_nat_mono n m s r : (n <= m)%nat -> iter_nat step n s = inr r -> iter_nat step m s = inr r.
  Proof.
    revert m s; induction n as [|n IH]; intros m s Hle H; cbn in H; [discriminate|].
    destruct m as [|m]; [lia|]. cbn. destruct (step s) as [s'|r']; auto. apply IH; auto. lia.
  Qed.
End IterFacts.

(* loops: invariants and termination by a decreasing measure *)
Section IterLoops.
  Context {St R : Type} (step : St -> St + R) (Inv : St -> Prop).

  Lemma iter_nat_inv :
    (forall s s', Inv s -> step s = inl s' -> Inv s') ->
    forall n s r, Inv s -> iter_nat step n s = inr r -> exists s1, Inv s1 /\ step s1 = inr r.
  Proof.
    intros Hpres. induction n as [|n IH]; intros s r Hs H; cbn [iter_nat] in H; [discriminate|].
    destruct (step s) as [s'|r'] eqn:E.
    - apply (IH s'); auto. eapply Hpres; eauto.
    - injection H as <-. exists s. auto.
  Qed.

  Lemma iter_nat_term (mu : St -> Z) :
    (forall s s', Inv s -> step s = inl s' -> Inv s' /\ 0 <= mu s' < mu s) ->
    forall n s, Inv s -> 0 <= mu s -> mu s < Z.of_nat n -> exists r, iter_nat step n s = inr r.
  Proof.
    intros Hdec. induction n as [|n IH]; intros s Hs H0 Hn; [lia|]. cbn [iter_nat].
    destruct (step s) as [s'|r'] eqn:E; [|eauto].
    destruct (Hdec s s' Hs E) as [Hs' Hmu]. apply IH; auto; lia.
  Qed.
End IterLoops.

(* ---------- further list facts used by the Vn proofs ---------- *)

Lemma maxN_ge p x : In x p -> (x <= maxN p)%N.
Proof.
  induction p as [|y t IH]; [intros []|]. unfold maxN. cbn [fold_right]. fold (maxN t).
  intros [->|H]; [lia|]. specialize (IH H). lia.
Qed.

Lemma In_items_gen : forall (ws : list Z) s (w : Z) id, In (w, id) (combine ws (seq s (length ws))) ->
  (s <= id)%nat /\ nth_opt ws (id - s) = Some w.
Proof.
  induction ws as [|w0 ws IH]; intros s w id H; cbn [length seq combine] in H; [destruct H|].
  destruct H as [E|H].
  - injection E as -> ->. split; [lia|]. now rewrite Nat.sub_diag.
  - apply IH in H as [H1 H2]. split; [lia|].
    replace (id - s)%nat with (S (id - S s)) by lia. exact H2.
Qed.
Lemma In_items ws w id : In (w, id) (items_of ws) -> nth_opt ws id = Some w.
Proof. intros H. apply In_items_gen in H as [_ H]. now rewrite Nat.sub_0_r in H. Qed.

Lemma set_nth_twice {A} (l : list A) i u v : set_nth (set_nth l i u) i v = set_nth l i v.
Proof. revert i; induction l as [|x t IH]; intros [|i]; cbn; auto. f_equal. apply IH. Qed.

Lemma nth_opt_ext {A} (l l' : list A) : (forall i, nth_opt l i = nth_opt l' i) -> l = l'.
Proof.
  revert l'; induction l as [|x t IH]; intros [|y t'] H; auto.
  - specialize (H 0%nat). discriminate.
  - specialize (H 0%nat). discriminate.
  - f_equal; [specialize (H 0%nat); cbn in H; congruence|]. apply IH. intros i. apply (H (S i)).
Qed.

Lemma nth_opt_repeat {A} (a : A) k q : (q < k)%nat -> nth_opt (repeat a k) q = Some a.
Proof. revert q; induction k as [|k IH]; intros [|q] H; cbn; try lia; auto. apply IH. lia. Qed.

(* moving the weight [w] of element [id] from part [a] to part [b] *)
Lemma loads_move ws p k id w a b la lb :
  nth_opt ws id = Some w -> nth_opt p id = Some (N.of_nat a) -> a <> b ->
  nth_opt (loads ws p k) a = Some la -> nth_opt (loads ws p k) b = Some lb ->
  loads ws (set_nth p id (N.of_nat b)) k = set_nth (set_nth (loads ws p k) a (la - w)) b (lb + w).
Proof.
  intros Hw Hp Hab Ha Hb.
  assert (Hak : (a < k)%nat) by (apply nth_opt_Some in Ha; now rewrite loads_length in Ha).
  assert (Hbk : (b < k)%nat) by (apply nth_opt_Some in Hb; now rewrite loads_length in Hb).
  rewrite nth_opt_loads in Ha, Hb by assumption. injection Ha as <-. injection Hb as <-.
  apply nth_opt_ext. intros q. destruct (Nat.lt_ge_cases q k) as [Hq|Hq].
  - rewrite nth_opt_loads by exact Hq. rewrite (load_set_nth ws p id w _ _ _ Hw Hp).
    destruct (Nat.eq_dec q b) as [->|Hqb].
    + rewrite nth_opt_set_nth_same by (rewrite set_nth_length, loads_length; exact Hbk).
      destruct (N.eqb_spec (N.of_nat a) (N.of_nat b)); [lia|]. rewrite N.eqb_refl. f_equal. lia.
    + rewrite nth_opt_set_nth_other by auto.
      destruct (N.eqb_spec (N.of_nat b) (N.of_nat q)); [lia|].
      destruct (Nat.eq_dec q a) as [->|Hqa].
      * rewrite nth_opt_set_nth_same by (rewrite loads_length; exact Hak). rewrite N.eqb_refl. f_equal. lia.
      * rewrite nth_opt_set_nth_other by auto. rewrite nth_opt_loads by exact Hq.
        destruct (N.eqb_spec (N.of_nat a) (N.of_nat q)); [lia|]. f_equal. lia.
  - rewrite !nth_opt_None; auto; rewrite ?set_nth_length, loads_length; lia.
Qed.

Lemma ids_below_le k p : ids_below k p = true <-> Forall (fun x => (x < N.of_nat k)%N) p.
Proof.
  unfold ids_below. rewrite forallb_forall, Forall_forall.
  split; intros H x Hx; specialize (H x Hx); now apply N.ltb_lt.
Qed.

Lemma Forall_set_nth {A} (Q : A -> Prop) l i v : Forall Q l -> Q v -> Forall Q (set_nth l i v).
Proof.
  intros H Hv. apply Forall_forall. intros x Hx. apply set_nth_In in Hx as [->|Hx]; auto.
  rewrite Forall_forall in H. auto.
Qed.

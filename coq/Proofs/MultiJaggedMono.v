(* mono_cuts from EXACT SUMS, for any arithmetic.

   If the weights of a slab are the images [inj z] of non-negative integers
   whose sums stay within a bound below which addition is exact
   ([a_add (inj a) (inj b) = inj (a + b)]), every running sum the code forms —
   block sums, cached sums, the sums of the refinements, whatever their
   association — is [inj] of the integer prefix sum.  The split positions of
   one call of compute_split_positions are then non-decreasing as soon as the
   thresholds are ordered and the two comparisons behave like comparisons:
   facts [F_first .. F_convex] below, about thresholds against exact sums only.
   Proofs/MultiJaggedF64Mono.v discharges them for binary64. *)
From Coq Require Import Permutation QArith Sorted.
From Coupe Require Import Lib.Prelude Lib.SFloat Model.MultiJagged Proofs.MultiJaggedProofs Proofs.MultiJaggedExact.
Local Open Scope Z_scope.

Section ExactSums.
  Variable A : arith.
  Variable inj : Z -> num A.
  Variable Bound : Z.
  Hypothesis H0 : a_zero A = inj 0.
  Hypothesis Hadd : forall a b, 0 <= a -> 0 <= b -> a + b <= Bound -> a_add A (inj a) (inj b) = inj (a + b).

  Definition inR (a : Z) : Prop := 0 <= a <= Bound.

  (* the class of thresholds and what is assumed of them, against exact sums *)
  Variable T : num A -> Prop.
  Definition tle (t t' : num A) : Prop :=
    forall a, inR a -> (a_lt A (inj a) t = true -> a_lt A (inj a) t' = true) /\
                       (a_lt A t' (inj a) = true -> a_lt A t (inj a) = true).
  (* the order in which the thresholds come, given by the instance; all that is used of it is [tle] and [F_convex] *)
  Variable tleS : num A -> num A -> Prop.
  Hypothesis tleS_tle : forall t t', tleS t t' -> tle t t'.
  Hypothesis F_first : forall t, T t -> a_lt A t (inj 0) = false.
  Hypothesis F_up : forall t a b, T t -> inR a -> inR b -> a <= b ->
    a_lt A t (inj a) = true -> a_lt A t (inj b) = true.
  Hypothesis F_eq : forall t a, T t -> inR a ->
    a_lt A (inj a) t = false -> a_lt A t (inj a) = false -> a_ulps A t (inj a) = true.
  Hypothesis F_convex : forall t t' a, T t -> T t' -> tleS t t' -> inR a ->
    a_lt A (inj a) t' = false -> a_ulps A t (inj a) = true -> a_ulps A t' (inj a) = true.

  (* the slab *)
  Variable zs : list Z.
  Hypothesis Hz : Forall (fun z => 0 <= z) zs.
  Hypothesis Hsum : sumZ zs <= Bound.
  Let wl := map inj zs.
  Let len := length zs.
  Definition P (i : nat) : Z := sumZ (firstn i zs).

  Lemma sumZ_nonneg l : Forall (fun z => 0 <= z) l -> 0 <= sumZ l.
  Proof. unfold sumZ. induction 1; cbn [fold_right]; lia. Qed.

  Lemma P_add a b : P (a + b) = P a + sumZ (firstn b (skipn a zs)).
  Proof. unfold P. rewrite firstn_add, sumZ_app. reflexivity. Qed.

  Lemma P_mono i j : (i <= j)%nat -> P i <= P j.
  Proof.
    intros H. replace j with (i + (j - i))%nat by lia. rewrite P_add.
    pose proof (sumZ_nonneg _ (Forall_firstn _ (j - i) _ (Forall_skipn _ i _ Hz))). lia.
  Qed.

  Lemma P_total i : (len <= i)%nat -> P i = sumZ zs.
  Proof. intros H. unfold P. rewrite firstn_all2 by exact H. reflexivity. Qed.

  Lemma P_range i : inR (P i).
  Proof.
    unfold inR. split; [apply sumZ_nonneg; apply Forall_firstn; exact Hz|].
    destruct (Nat.le_gt_cases len i) as [H|H]; [rewrite P_total by exact H; exact Hsum|].
    etransitivity; [apply (P_mono i len); lia|]. rewrite P_total by lia. exact Hsum.
  Qed.

  (* every association of a sum of slab weights is inj of the integer sum *)
  Lemma fold_inj : forall l c, Forall (fun z => 0 <= z) l -> 0 <= c -> c + sumZ l <= Bound ->
    fold_left (a_add A) (map inj l) (inj c) = inj (c + sumZ l).
  Proof.
    induction l as [|x t IH]; intros c Hl Hc Hb; cbn [map fold_left]; [unfold sumZ; cbn; f_equal; lia|].
    inversion Hl as [|? ? Hx Ht]; subst. unfold sumZ in *. cbn [fold_right] in *.
    pose proof (sumZ_nonneg t Ht) as Hn. unfold sumZ in Hn.
    rewrite Hadd by lia. rewrite IH by (try assumption; lia). f_equal. lia.
  Qed.

  Lemma sum_list_inj l : Forall (fun z => 0 <= z) l -> sumZ l <= Bound -> sum_list A (map inj l) = inj (sumZ l).
  Proof. intros Hl Hb. unfold sum_list. rewrite H0, fold_inj by (try assumption; lia). f_equal. Qed.

  (* ---- the loop test of the refinement ---- *)
  Definition cont (t : num A) (a : Z) : bool := a_lt A (inj a) t || a_ulps A t (inj a).

  Lemma K1 t a b : T t -> inR a -> inR b -> a <= b -> a_lt A t (inj b) = false -> cont t a = true.
  Proof.
    intros Ht Ha Hb Hab Hlt. unfold cont. destruct (a_lt A (inj a) t) eqn:E; [reflexivity|]. cbn [orb].
    apply F_eq; try assumption. destruct (a_lt A t (inj a)) eqn:E2; [|reflexivity].
    rewrite (F_up t a b Ht Ha Hb Hab E2) in Hlt. discriminate.
  Qed.

  Lemma K2 t t' a : T t -> T t' -> tleS t t' -> inR a -> cont t a = true -> cont t' a = true.
  Proof.
    intros Ht Ht' Hle Ha H. unfold cont in *. destruct (tleS_tle _ _ Hle a Ha) as [L1 _].
    destruct (a_lt A (inj a) t) eqn:E; [rewrite (L1 eq_refl); reflexivity|]. cbn [orb] in H.
    destruct (a_lt A (inj a) t') eqn:E'; [reflexivity|]. cbn [orb]. apply (F_convex t t' a); assumption.
  Qed.

  Lemma refine_Z : forall rest idx c t, Forall (fun z => 0 <= z) rest -> 0 <= c -> c + sumZ rest <= Bound ->
    let p := refine A (map inj rest) idx (inj c) t in
    (idx <= p <= idx + length rest)%nat /\
    (forall i, (i < p - idx)%nat -> cont t (c + sumZ (firstn (S i) rest)) = true) /\
    ((p < idx + length rest)%nat -> cont t (c + sumZ (firstn (S (p - idx)) rest)) = false).
  Proof.
    induction rest as [|w r IH]; intros idx c t Hr Hc Hb; cbn [map refine].
    - cbn [length]. split; [lia|]. split; intros; lia.
    - inversion Hr as [|? ? Hw Hr']; subst. unfold sumZ in Hb. cbn [fold_right] in Hb. fold (sumZ r) in Hb.
      pose proof (sumZ_nonneg r Hr') as Hn.
      cbv zeta. rewrite Hadd by lia. fold (cont t (c + w)).
      destruct (cont t (c + w)) eqn:E.
      + specialize (IH (S idx) (c + w) t Hr' ltac:(lia) ltac:(lia)). cbv zeta in IH.
        set (p := refine A (map inj r) (S idx) (inj (c + w)) t) in *. destruct IH as [R [Al Bl]].
        cbn [length]. split; [lia|]. split.
        * intros [|i] Hi.
          -- unfold sumZ. cbn. rewrite Z.add_0_r. exact E.
          -- specialize (Al i ltac:(lia)). cbn [firstn]. unfold sumZ in *. cbn [fold_right].
             change (firstn (S i) r) with (match r with [] => [] | a :: l => a :: firstn i l end) in Al.
             rewrite Z.add_assoc. exact Al.
        * intros Hp. specialize (Bl ltac:(lia)). replace (p - idx)%nat with (S (p - S idx)) by lia.
          cbn [firstn]. unfold sumZ in *. cbn [fold_right]. rewrite Z.add_assoc. exact Bl.
      + cbn [length]. split; [lia|]. split; [intros i Hi; lia|].
        intros _. rewrite Nat.sub_diag. unfold sumZ. cbn. rewrite Z.add_0_r. exact E.
  Qed.

  (* p is the cut of threshold t: the first position whose prefix sum fails the loop test *)
  Definition cutZ (t : num A) (p : nat) : Prop :=
    (p <= len)%nat /\ (forall i, (i < p)%nat -> cont t (P (S i)) = true) /\ ((p < len)%nat -> cont t (P (S p)) = false).

  Lemma cutZ_mono t t' p p' : T t -> T t' -> tleS t t' -> cutZ t p -> cutZ t' p' -> (p <= p')%nat.
  Proof.
    intros Ht Ht' Hle [L1 [A1 B1]] [L2 [A2 B2]]. destruct (Nat.le_gt_cases p p') as [?|Hlt]; [assumption|].
    specialize (B2 ltac:(lia)). specialize (A1 p' Hlt).
    rewrite (K2 t t' _ Ht Ht' Hle (P_range _) A1) in B2. discriminate.
  Qed.

  Lemma refine_cutZ lo t : T t -> (lo <= len)%nat -> a_lt A t (inj (P lo)) = false ->
    cutZ t (refine A (skipn lo wl) lo (inj (P lo)) t).
  Proof.
    intros Ht Hlo Hlt. unfold wl. rewrite <- map_skipn.
    pose proof (refine_Z (skipn lo zs) lo (P lo) t (Forall_skipn _ lo _ Hz)) as H.
    assert (Hb : P lo + sumZ (skipn lo zs) <= Bound).
    { unfold P. rewrite <- sumZ_app, firstn_skipn. exact Hsum. }
    destruct (P_range lo) as [Hp0 _]. specialize (H Hp0 Hb). cbv zeta in H.
    set (p := refine A (map inj (skipn lo zs)) lo (inj (P lo)) t) in *. destruct H as [R [Al Bl]].
    rewrite skipn_length in R, Bl. fold len in R, Bl.
    split; [lia|]. split.
    - intros i Hi. destruct (Nat.lt_ge_cases i lo) as [Hl|Hg].
      + apply (K1 t (P (S i)) (P lo) Ht (P_range _) (P_range _)); [apply P_mono; lia|exact Hlt].
      + specialize (Al (i - lo)%nat ltac:(lia)). replace (S i) with (lo + S (i - lo))%nat by lia. rewrite P_add. exact Al.
    - intros Hp. specialize (Bl ltac:(lia)). replace (S p) with (lo + S (p - lo))%nat by lia. rewrite P_add. exact Bl.
  Qed.

  (* ---- the scan ---- *)
  Definition scan_atZ (scan : list (nat * num A)) (cws : num A) : Prop :=
    exists bs c, scan = blocks_of A bs c (skipn c wl) /\ cws = inj (P c).
  Definition goodZ (e : nat * num A) (t : num A) : Prop :=
    (fst e <= len)%nat /\ snd e = inj (P (fst e)) /\ a_lt A t (snd e) = false.

  Lemma block_sum c b : a_add A (inj (P c)) (sum_list A (firstn b (skipn c wl))) = inj (P (c + b)).
  Proof.
    unfold wl. rewrite <- map_skipn, <- map_firstn.
    assert (Hf : Forall (fun z => 0 <= z) (firstn b (skipn c zs))) by (apply Forall_firstn, Forall_skipn, Hz).
    pose proof (P_range (c + b)) as [_ Hb]. rewrite P_add in Hb. destruct (P_range c) as [Hc0 _].
    pose proof (sumZ_nonneg _ Hf). rewrite sum_list_inj by (try assumption; lia). rewrite Hadd by lia. rewrite P_add. reflexivity.
  Qed.

  Lemma rest_sum c : (c < len)%nat -> a_add A (inj (P c)) (sum_list A (skipn c wl)) = inj (P len).
  Proof.
    intros Hc. rewrite <- (firstn_all2 (skipn c wl) (n := (len - c))).
    - rewrite block_sum. f_equal. f_equal. lia.
    - unfold wl. rewrite skipn_length, map_length. fold len. lia.
  Qed.

  Lemma take_until_Z t : forall bs c cws lo cached cws' rest,
    cws = inj (P c) -> a_lt A t cws = false ->
    take_until A (blocks_of A bs c (skipn c wl)) cws t len = (lo, cached, cws', rest) ->
    goodZ (lo, cached) t /\ scan_atZ rest cws'.
  Proof.
    assert (Hlw : length wl = len) by (unfold wl; apply map_length).
    assert (Hend : forall c cws lo cached cws' rest, cws = inj (P c) -> a_lt A t cws = false -> skipn c wl = [] ->
                   take_until A [] cws t len = (lo, cached, cws', rest) -> goodZ (lo, cached) t /\ scan_atZ rest cws').
    { intros c cws lo cached cws' rest Hc Hlt Es H. cbn [take_until] in H. injection H as E1 E2 E3 E4. subst lo cached cws' rest.
      assert (Hge : (len <= c)%nat).
      { destruct (Nat.le_gt_cases len c) as [?|Hl]; [assumption|].
        assert (Hl' : length (skipn c wl) = 0%nat) by (rewrite Es; reflexivity). rewrite skipn_length, Hlw in Hl'. lia. }
      assert (EP : P c = P len) by (rewrite !P_total by lia; reflexivity).
      split.
      - unfold goodZ; cbn [fst snd]. split; [lia|]. rewrite <- EP. split; assumption.
      - exists [], len. rewrite skipn_all2 by lia. split; [reflexivity|]. rewrite <- EP. exact Hc. }
    induction bs as [|b bs IH]; intros c cws lo cached cws' rest Hc Hlt H.
    - cbn [blocks_of] in H. destruct (skipn c wl) as [|w r] eqn:Es; [eapply Hend; eassumption|].
      rewrite <- Es in H. cbn [take_until] in H.
      assert (Hcl : (c < len)%nat).
      { destruct (Nat.le_gt_cases len c) as [Hge|?]; [|assumption]. rewrite skipn_all2 in Es by lia. discriminate. }
      pose proof (rest_sum c Hcl) as Esum. rewrite <- Hc in Esum. cbv zeta in H. rewrite Esum in H.
      destruct (a_lt A t (inj (P len))) eqn:E.
      + injection H as E1 E2 E3 E4. subst lo cached cws' rest. split.
        * unfold goodZ; cbn [fst snd]. split; [lia|]. split; assumption.
        * exists [], len. rewrite skipn_all2 by lia. split; reflexivity.
      + cbn [take_until] in H. injection H as E1 E2 E3 E4. subst lo cached cws' rest. split.
        * unfold goodZ; cbn [fst snd]. split; [lia|]. split; [reflexivity|exact E].
        * exists [], len. rewrite skipn_all2 by lia. split; reflexivity.
    - cbn [blocks_of] in H. destruct (skipn c wl) as [|w r] eqn:Es; [eapply Hend; eassumption|].
      rewrite <- Es in H.
      destruct (Nat.eqb b 0).
      + assert (Hb : blocks_of A bs c (w :: r) = blocks_of A bs c (skipn c wl)) by (rewrite Es; reflexivity).
        rewrite <- Es in Hb. eapply IH; [exact Hc|exact Hlt|exact H].
      + cbn [take_until] in H. cbv zeta in H. pose proof (block_sum c b) as Esum. rewrite <- Hc in Esum. rewrite Esum in H.
        destruct (a_lt A t (inj (P (c + b)))) eqn:E.
        * injection H as E1 E2 E3 E4. subst lo cached cws' rest.
          assert (Hcl : (c < len)%nat).
          { destruct (Nat.le_gt_cases len c) as [Hge|?]; [|assumption]. rewrite skipn_all2 in Es by lia. discriminate. }
          split.
          -- unfold goodZ; cbn [fst snd]. split; [lia|]. split; assumption.
          -- exists bs, (c + b)%nat. rewrite skipn_add. split; reflexivity.
        * rewrite <- skipn_add in H. eapply IH; [reflexivity|exact E|exact H].
  Qed.

  Lemma tle_cached t t' a : tle t t' -> inR a -> a_lt A t (inj a) = false -> a_lt A t' (inj a) = false.
  Proof.
    intros Hle Ha H. destruct (a_lt A t' (inj a)) eqn:E; [|reflexivity].
    destruct (Hle a Ha) as [_ L2]. rewrite (L2 E) in H. discriminate.
  Qed.

  Lemma outer_Z : forall ths scan cws ret,
    Forall T ths -> StronglySorted tleS ths -> scan_atZ scan cws ->
    match ret with
    | [] => match ths with [] => True | t :: _ => a_lt A t cws = false end
    | last :: _ => Forall (fun t => a_lt A t (snd last) = false) ths /\ (fst last <= len)%nat /\ snd last = inj (P (fst last))
    end ->
    exists new, outer A ths scan cws len ret = Ok (rev ret ++ new) /\ Forall2 goodZ new ths.
  Proof.
    pose proof P_range as PR. pose proof take_until_Z as TU.
    induction ths as [|t ths IH]; intros scan cws ret HT Hs Hscan Hret; cbn [outer].
    - exists []. rewrite app_nil_r. split; [reflexivity|constructor].
    - inversion HT as [|? ? Ht HT']; subst. inversion Hs as [|? ? Hs' Hall]; subst.
      destruct (a_lt A t cws) eqn:E.
      + destruct ret as [|last ret']; [congruence|].
        destruct Hret as [Hf [Hl Hsn]]. inversion Hf as [|? ? Hft Hfths]; subst.
        destruct (IH scan cws (last :: last :: ret') HT' Hs' Hscan) as [new [En Fn]].
        { split; [exact Hfths|]. split; assumption. }
        exists (last :: new). split.
        * etransitivity; [exact En|]. f_equal. cbn [rev]. rewrite <- !app_assoc. reflexivity.
        * constructor; [|exact Fn]. unfold goodZ. destruct last as [lo ca]; cbn [fst snd] in *. auto.
      + destruct Hscan as [bs [c [Escan Hc]]]. subst scan.
        destruct (take_until A (blocks_of A bs c (skipn c wl)) cws t len) as [[[lo cached] cws'] rest] eqn:Et.
        destruct (TU t bs c cws lo cached cws' rest Hc E Et) as [Hg Hrest].
        destruct (IH rest cws' ((lo, cached) :: ret) HT' Hs' Hrest) as [new [En Fn]].
        { destruct Hg as [G1 [G2 G3]]. cbn [fst snd] in *. split; [|split; assumption].
          rewrite Forall_forall in *. intros t' Ht'. rewrite G2. eapply tle_cached; [apply tleS_tle; apply Hall; exact Ht'|apply PR|].
          rewrite <- G2. exact G3. }
        exists ((lo, cached) :: new). split.
        * etransitivity; [exact En|]. cbn [rev]. rewrite <- app_assoc. reflexivity.
        * constructor; assumption.
  Qed.

  (* compute_split_positions, core: positions = the cuts, hence non-decreasing *)
  Theorem csp_core_sorted ths bs :
    Forall T ths -> StronglySorted tleS ths ->
    exists ps, csp_core A wl ths bs = Ok ps /\ Forall2 cutZ ths ps /\ StronglySorted le ps.
  Proof.
    intros HT Hs. unfold csp_core.
    assert (Hlw : length wl = len) by (unfold wl; apply map_length).
    destruct (outer_Z ths (blocks_of A bs 0 wl) (a_zero A) [] HT Hs) as [new [En Fn]].
    - exists bs, 0%nat. split; [reflexivity|]. rewrite H0. reflexivity.
    - destruct ths as [|t ths']; [exact I|]. inversion HT; subst. rewrite H0. apply F_first. assumption.
    - rewrite Hlw. cbn [rev app] in En. rewrite En. cbn [bind]. eexists. split; [reflexivity|].
      assert (Hcuts : Forall2 cutZ ths (map (fun '(idx, sum, t) => refine A (skipn idx wl) idx sum t) (combine new ths))).
      { clear En Hs. revert HT. induction Fn as [|[lo ca] t new ths' Hg Fn IH]; intros HT; cbn [combine map]; constructor.
        - destruct Hg as [G1 [G2 G3]]. cbn [fst snd] in *. subst ca. inversion HT; subst. apply refine_cutZ; assumption.
        - apply IH. inversion HT; assumption. }
      split; [exact Hcuts|].
      clear En Fn. revert Hcuts. generalize (map (fun '(idx, sum, t) => refine A (skipn idx wl) idx sum t) (combine new ths)).
      intros ps Hc. revert HT Hs. induction Hc as [|t p ths ps Hc HF IH]; intros HT Hs; [constructor|].
      inversion HT as [|? ? Ht HT']; subst. inversion Hs as [|? ? Hs' Hall]; subst.
      constructor; [apply IH; assumption|].
      clear IH Hs' HT Hs. induction HF as [|t' p' ths ps Hc' HF IH]; [constructor|].
      inversion HT' as [|? ? Ht' HT'']; subst. inversion Hall as [|? ? Hle Hall']; subst.
      constructor; [apply (cutZ_mono t t' p p'); assumption|apply IH; assumption].
  Qed.
End ExactSums.

(* ---------------------------------------------- lifting to every call: mono_cuts *)
From Coupe Require Import Proofs.MultiJaggedTotal.

Lemma sumZ_map_incl (f : nat -> Z) : forall l l', NoDup l -> incl l l' -> (forall x, 0 <= f x) ->
  sumZ (map f l) <= sumZ (map f l').
Proof.
  induction l as [|x t IH]; intros l' Hnd Hin Hf.
  - unfold sumZ at 1. cbn. clear Hin. induction l' as [|y t' IHl]; unfold sumZ in *; cbn [map fold_right]; [lia|]. specialize (Hf y). lia.
  - inversion Hnd as [|? ? Hx Hnd']; subst.
    destruct (in_split x l' (Hin x (or_introl eq_refl))) as [l1 [l2 ->]].
    assert (Hin' : incl t (l1 ++ l2)).
    { intros y Hy. specialize (Hin y (or_intror Hy)). apply in_app_or in Hin. apply in_or_app.
      destruct Hin as [H|[H|H]]; [left; exact H|subst; contradiction|right; exact H]. }
    specialize (IH (l1 ++ l2) Hnd' Hin' Hf).
    rewrite !map_app in *. cbn [map]. rewrite !sumZ_app in *. unfold sumZ in *. cbn [fold_right]. lia.
Qed.

Section MonoCutsLift.
  Variable A : arith.
  Variable inj : Z -> num A.
  Variable Bound : Z.
  Hypothesis H0 : a_zero A = inj 0.
  Hypothesis Hadd : forall a b, 0 <= a -> 0 <= b -> a + b <= Bound -> a_add A (inj a) (inj b) = inj (a + b).
  Variable T : num A -> Prop.
  Variable tleS : num A -> num A -> Prop.
  Hypothesis tleS_tle : forall t t', tleS t t' -> tle A inj Bound t t'.
  Hypothesis F_first : forall t, T t -> a_lt A t (inj 0) = false.
  Hypothesis F_up : forall t a b, T t -> inR Bound a -> inR Bound b -> a <= b ->
    a_lt A t (inj a) = true -> a_lt A t (inj b) = true.
  Hypothesis F_eq : forall t a, T t -> inR Bound a ->
    a_lt A (inj a) t = false -> a_lt A t (inj a) = false -> a_ulps A t (inj a) = true.
  Hypothesis F_convex : forall t t' a, T t -> T t' -> tleS t t' -> inR Bound a ->
    a_lt A (inj a) t' = false -> a_ulps A t (inj a) = true -> a_ulps A t' (inj a) = true.
  (* the thresholds of a well-formed node, for a total within the bound, are ordered thresholds *)
  Hypothesis F_thresholds : forall W cparts parts init z, inR Bound W ->
    Forall (fun cp => (1 <= cp)%N) cparts -> parts = sumN cparts -> (parts < 2 ^ 60)%N ->
    map (fun cp => a_div A (a_ofN A cp) (a_ofN A parts)) cparts = init ++ [z] ->
    Forall T (thresholds A (inj W) (inj 0) init) /\ StronglySorted tleS (thresholds A (inj W) (inj 0) init).

  Variable zs : list Z.                      (* all the weights, as integers *)
  Hypothesis Hz : Forall (fun z => 0 <= z) zs.
  Hypothesis Hsum : sumZ zs <= Bound.

  Lemma gather_inj perm : Forall (fun i => (i < length zs)%nat) perm ->
    gather A (map inj zs) perm = Ok (map inj (map (fun i => nth i zs 0) perm)).
  Proof.
    induction 1 as [|i t Hi Ht IH]; cbn [gather map]; [reflexivity|].
    assert (E : nth_opt (map inj zs) i = Some (inj (nth i zs 0))).
    { clear - Hi. revert i Hi. induction zs as [|x l IHl]; intros [|i] Hi; cbn [length] in Hi; try lia; cbn [map nth_opt nth]; [reflexivity|].
      apply IHl. lia. }
    rewrite E, IH. reflexivity.
  Qed.

  Theorem mono_cuts_of_exact_sums blk : mono_cuts A (length zs) (map inj zs) blk.
  Proof.
    intros perm mods pos [[Hnd Hin] [cparts [parts [Hne [Hc1 [Hps [Hpb ->]]]]]]] E. unfold csp in E.
    destruct (split_last _) as [init|] eqn:Esl; [|discriminate].
    destruct (split_last_app _ _ Esl) as [z Ez].
    rewrite (gather_inj perm Hin) in E. cbn [bind] in E.
    set (zp := map (fun i => nth i zs 0) perm) in *.
    assert (Hzp : Forall (fun z => 0 <= z) zp).
    { unfold zp. rewrite Forall_forall. intros y Hy. apply in_map_iff in Hy as [i [<- Hi]].
      rewrite Forall_forall in Hz, Hin. apply Hz. apply nth_In. apply Hin. exact Hi. }
    assert (Hsp : sumZ zp <= Bound).
    { etransitivity; [|exact Hsum].
      assert (Ezs : sumZ zs = sumZ (map (fun x => nth x zs 0) (seq 0 (length zs)))) by (rewrite nth_seq_all; reflexivity).
      rewrite Ezs. unfold zp.
      apply sumZ_map_incl; [exact Hnd| |].
      - intros i Hi. apply in_seq. rewrite Forall_forall in Hin. specialize (Hin i Hi). lia.
      - intros x. destruct (Nat.lt_ge_cases x (length zs)) as [Hl|Hg].
        + rewrite Forall_forall in Hz. apply Hz. apply nth_In. exact Hl.
        + rewrite nth_overflow by exact Hg. lia. }
    rewrite (sum_list_inj A inj Bound H0 Hadd zs zp Hzp Hsp), H0 in E.
    assert (HW : inR Bound (sumZ zp)) by (split; [apply (sumZ_nonneg zs); exact Hzp|exact Hsp]).
    destruct (F_thresholds (sumZ zp) cparts parts init z HW Hc1 Hps Hpb Ez) as [HT HS].
    destruct (csp_core_sorted A inj Bound H0 Hadd T tleS tleS_tle F_first F_up F_eq F_convex zp Hzp Hsp _ (blk perm) HT HS) as [ps [Eps [_ Sps]]].
    rewrite Eps in E. inversion E; subst. exact Sps.
  Qed.
End MonoCutsLift.

(* Schedule independence of Rcb (C06): for the current search variant (pivot =
   right-hand point of minimal coordinate) and exact integer weights, the
   result of rcb does not depend on the split trees of its folds.
   Route: rcb_rec is invariant under permutation of its item list AND under
   the choice of the trees: the search consumes only permutation-invariant
   quantities (weight left of a target, existence and coordinate class of the
   nearest right point); for pivots of equivalent coordinate the two sides of
   reorder_split are permutations of each other across the two runs; boxes and
   totals are values.  The stores go to pairwise distinct cells, so permuted
   assignment lists write the same array. *)
From Coupe Require Import Lib.Prelude Lib.SFloat Model.Rcb Proofs.RcbProofs Proofs.RcbBalance.
From Coq Require Import Permutation.
Open Scope Z_scope.

Section Sched.
  Variable C : Type.
  Variables ltb leb : C -> C -> bool.
  Variable mid : C -> C -> C.
  Variables dist addc : C -> C -> C.
  Variables zero inf : C.
  Variable within_tol : Z -> Z -> bool.
  Variable probe_max : bool.
  Variable valid : C -> bool.

  Hypothesis lt_irrefl : forall x, valid x = true -> ltb x x = false.
  Hypothesis lt_negtrans : forall x y z, valid x = true -> valid y = true -> valid z = true ->
    ltb x y = true -> ltb x z = true \/ ltb z y = true.
  Hypothesis lt_trans : forall x y z, valid x = true -> valid y = true -> valid z = true ->
    ltb x y = true -> ltb y z = true -> ltb x z = true.
  Hypothesis le_lt : forall x y, valid x = true -> valid y = true -> leb x y = negb (ltb y x).
  Hypothesis inf_valid : valid inf = true.
  (* `max <= nearest_coord`: the bound [m] may be any value (even NaN); the
     test does not distinguish two valid values neither of which is below the other *)
  Hypothesis leb_equiv : forall m a b, valid a = true -> valid b = true ->
    ltb a b = false -> ltb b a = false -> leb m a = leb m b.

  Notation keyed := (keyed C).
  Notation item := (item C).
  Notation par_fold := (par_fold C ltb dist zero inf true).
  Notation search := (search C ltb leb mid dist addc zero inf within_tol false true probe_max).
  Notation reorder_split := (reorder_split C ltb leb).
  Notation rcb_rec := (rcb_rec C ltb leb mid dist addc zero inf within_tol false true probe_max).
  Notation rcb_core := (rcb_core C ltb leb mid dist addc zero inf within_tol false true probe_max).
  Notation Wl := (Wl C ltb).

  Definition kvalid (x : keyed) : Prop := valid (fst x) = true.
  Definition eqv (a b : C) : Prop := ltb a b = false /\ ltb b a = false.

  Lemma eqv_cut a b y : valid a = true -> valid b = true -> valid y = true -> eqv a b -> ltb y a = ltb y b.
  Proof.
    intros Va Vb Vy [A B]. destruct (ltb y a) eqn:E1, (ltb y b) eqn:E2; try reflexivity; exfalso.
    - destruct (lt_negtrans y a b Vy Va Vb E1) as [Q|Q]; congruence.
    - destruct (lt_negtrans y b a Vy Vb Va E2) as [Q|Q]; congruence.
  Qed.

  Lemma Wl_perm t xs1 xs2 : Permutation xs1 xs2 -> Wl t xs1 = Wl t xs2.
  Proof.
    intros P. unfold RcbBalance.Wl. apply wsum_perm, filter_Permutation. unfold aw_of. apply Permutation_map, P.
  Qed.

  (* ---------- the fold: what two (tree, order) pairs agree on ---------- *)
  Lemma fold_rel t s1 s2 xs1 xs2 : Permutation xs1 xs2 -> Forall kvalid xs1 ->
    let '(_, w1, n1, d1) := par_fold t s1 0%nat xs1 in
    let '(_, w2, n2, d2) := par_fold t s2 0%nat xs2 in
    w1 = w2 /\ valid d1 = true /\ valid d2 = true /\ eqv d1 d2
    /\ match n1, n2 with
       | None, None => True
       | Some i1, Some i2 => exists e1 e2, nth_opt xs1 i1 = Some e1 /\ nth_opt xs2 i2 = Some e2
                                          /\ fst e1 = d1 /\ fst e2 = d2
       | _, _ => False
       end.
  Proof.
    intros P Hv1.
    assert (Hv2 : Forall kvalid xs2).
    { rewrite Forall_forall in *. intros x Hx. apply Hv1. eapply Permutation_in; [apply Permutation_sym, P|exact Hx]. }
    pose proof (par_fold_PF0 C ltb dist addc zero inf valid lt_irrefl lt_negtrans lt_trans inf_valid t s1 0%nat xs1 Hv1) as P1.
    pose proof (par_fold_PF0 C ltb dist addc zero inf valid lt_irrefl lt_negtrans lt_trans inf_valid t s2 0%nat xs2 Hv2) as P2.
    destruct (par_fold t s1 0%nat xs1) as [[[c1 w1] n1] d1]. destruct (par_fold t s2 0%nat xs2) as [[[c2 w2] n2] d2].
    unfold PF in P1, P2. destruct P1 as (W1 & V1 & N1), P2 as (W2 & V2 & N2).
    split; [rewrite W1, W2; apply Wl_perm, P|]. split; [exact V1|]. split; [exact V2|].
    assert (In12 : forall y, In y xs1 -> In y xs2) by (intros y Hy; eapply Permutation_in; [exact P|exact Hy]).
    assert (In21 : forall y, In y xs2 -> In y xs1) by (intros y Hy; eapply Permutation_in; [apply Permutation_sym, P|exact Hy]).
    destruct n1 as [i1|], n2 as [i2|].
    - destruct N1 as (e1 & _ & He1 & K1 & R1 & _ & M1), N2 as (e2 & _ & He2 & K2 & R2 & _ & M2).
      rewrite Nat.sub_0_r in He1, He2. split.
      + split.
        * rewrite <- K1. apply M2; [apply In12; eapply nth_opt_In; exact He1|rewrite K1; exact R1].
        * rewrite <- K2. apply M1; [apply In21; eapply nth_opt_In; exact He2|rewrite K2; exact R2].
      + exists e1, e2. auto.
    - exfalso. destruct N1 as (e1 & _ & He1 & K1 & R1 & F1 & _), N2 as (_ & A2).
      destruct (A2 e1 (In12 _ (nth_opt_In _ _ _ He1))) as [Q|Q]; rewrite K1 in Q; congruence.
    - exfalso. destruct N2 as (e2 & _ & He2 & K2 & R2 & F2 & _), N1 as (_ & A1).
      destruct (A1 e2 (In21 _ (nth_opt_In _ _ _ He2))) as [Q|Q]; rewrite K2 in Q; congruence.
    - destruct N1 as (-> & _), N2 as (-> & _). split; [split; apply lt_irrefl, inf_valid|exact I].
  Qed.

  (* ---------- the search ---------- *)
  Definition SR (xs1 xs2 : list keyed) (r1 r2 : res (split_res C)) : Prop :=
    match r1, r2 with
    | Ok (AllLeft p1), Ok (AllLeft p2) => p1 = p2
    | Ok (SplitAt i1 w1 p1 _), Ok (SplitAt i2 w2 p2 _) =>
      w1 = w2 /\ p1 = p2
      /\ exists e1 e2, nth_opt xs1 i1 = Some e1 /\ nth_opt xs2 i2 = Some e2 /\ eqv (fst e1) (fst e2)
    | OutOfFuel, OutOfFuel => True
    | _, _ => False
    end.

  Lemma search_rel xs1 xs2 sum : Permutation xs1 xs2 -> Forall kvalid xs1 ->
    forall fuel sch1 sch2 it1 it2 mn mx prev1 prev2,
    SR xs1 xs2 (search fuel sch1 it1 xs1 sum mn mx prev1) (search fuel sch2 it2 xs2 sum mn mx prev2).
  Proof.
    intros P Hv. induction fuel as [|f IH]; intros sch1 sch2 it1 it2 mn mx prev1 prev2; [exact I|].
    cbn [Rcb.search].
    set (m := mid mn mx). set (exh := negb (ltb mn m && ltb m mx)).
    set (t := if probe_max && exh then mx else m).
    pose proof (fold_rel t (sch1 it1) (sch2 it2) xs1 xs2 P Hv) as F.
    destruct (par_fold t (sch1 it1) 0%nat xs1) as [[[c1 w1] n1] d1].
    destruct (par_fold t (sch2 it2) 0%nat xs2) as [[[c2 w2] n2] d2].
    destruct F as (Ew & V1 & V2 & [E12 E21] & Hn). subst w2.
    destruct n1 as [i1|], n2 as [i2|]; try contradiction.
    - destruct Hn as (e1 & e2 & H1 & H2 & K1 & K2).
      rewrite (leb_equiv mx d1 d2 V1 V2 E12 E21).
      destruct (exh || (w1 <? sum - w1) && leb mx d2 || within_tol w1 sum).
      + cbn [SR]. split; [reflexivity|]. split; [reflexivity|]. exists e1, e2.
        split; [exact H1|]. split; [exact H2|]. rewrite K1, K2. split; assumption.
      + destruct (w1 <? sum - w1); apply IH.
    - destruct exh; [reflexivity|apply IH].
  Qed.

  (* ---------- the reordering ---------- *)
  Lemma side_filter (f : keyed -> bool) (l r xs : list keyed) : Permutation (l ++ r) xs ->
    Forall (fun y => f y = true) l -> Forall (fun y => f y = false) r ->
    Permutation l (filter f xs) /\ Permutation r (filter (fun y => negb (f y)) xs).
  Proof.
    intros P Hl Hr. rewrite Forall_forall in Hl, Hr. split.
    - eapply perm_trans; [|apply filter_Permutation, P]. rewrite filter_app.
      rewrite (filter_all f l), (filter_none f r); [rewrite app_nil_r; apply Permutation_refl|exact Hr|exact Hl].
    - eapply perm_trans; [|apply filter_Permutation, P]. rewrite filter_app.
      rewrite (filter_none _ l), (filter_all _ r); [apply Permutation_refl| |].
      + intros y Hy. rewrite (Hr y Hy). reflexivity.
      + intros y Hy. rewrite (Hl y Hy). reflexivity.
  Qed.

  Lemma reorder_rel xs1 xs2 i1 i2 e1 e2 : Permutation xs1 xs2 -> Forall kvalid xs1 ->
    nth_opt xs1 i1 = Some e1 -> nth_opt xs2 i2 = Some e2 -> eqv (fst e1) (fst e2) ->
    exists l1 r1 l2 r2, reorder_split xs1 i1 = Ok (l1, r1) /\ reorder_split xs2 i2 = Ok (l2, r2)
      /\ Permutation l1 l2 /\ Permutation r1 r2 /\ Permutation (l1 ++ r1) xs1 /\ Permutation (l2 ++ r2) xs2.
  Proof.
    intros P Hv1 H1 H2 E.
    assert (Hv2 : Forall kvalid xs2).
    { rewrite Forall_forall in *. intros x Hx. apply Hv1. eapply Permutation_in; [apply Permutation_sym, P|exact Hx]. }
    destruct (reorder_split_scalar_spec C ltb leb valid lt_irrefl le_lt xs1 i1 Hv1 (nth_opt_Some _ _ _ H1))
      as (p1 & l1 & r1 & Q1 & R1 & P1 & L1 & G1).
    destruct (reorder_split_scalar_spec C ltb leb valid lt_irrefl le_lt xs2 i2 Hv2 (nth_opt_Some _ _ _ H2))
      as (p2 & l2 & r2 & Q2 & R2 & P2 & L2 & G2).
    rewrite H1 in Q1. inversion Q1; subst p1. rewrite H2 in Q2. inversion Q2; subst p2.
    exists l1, r1, l2, r2. split; [exact R1|]. split; [exact R2|].
    destruct (side_filter (fun y => ltb (fst y) (fst e1)) l1 r1 xs1 P1 L1 G1) as [A1 B1].
    destruct (side_filter (fun y => ltb (fst y) (fst e2)) l2 r2 xs2 P2 L2 G2) as [A2 B2].
    assert (Ve1 : valid (fst e1) = true) by (rewrite Forall_forall in Hv1; apply Hv1; eapply nth_opt_In; exact H1).
    assert (Ve2 : valid (fst e2) = true) by (rewrite Forall_forall in Hv2; apply Hv2; eapply nth_opt_In; exact H2).
    assert (Hext : forall y, In y xs2 -> ltb (fst y) (fst e1) = ltb (fst y) (fst e2)).
    { intros y Hy. apply eqv_cut; auto. rewrite Forall_forall in Hv2. apply Hv2, Hy. }
    split; [|split; [|split; assumption]].
    - eapply perm_trans; [exact A1|]. eapply perm_trans; [apply filter_Permutation, P|].
      erewrite filter_ext_in; [apply Permutation_sym, A2|]. exact Hext.
    - eapply perm_trans; [exact B1|]. eapply perm_trans; [apply filter_Permutation, P|].
      erewrite filter_ext_in; [apply Permutation_sym, B2|]. intros y Hy. rewrite (Hext y Hy). reflexivity.
  Qed.
  (* ---------- the recursion ---------- *)
  Definition RR {A} (r1 r2 : res (list A)) : Prop :=
    match r1, r2 with
    | Ok a1, Ok a2 => Permutation a1 a2
    | Err e1, Err e2 => e1 = e2
    | Panic s1, Panic s2 => s1 = s2
    | OutOfFuel, OutOfFuel => True
    | _, _ => False
    end.

  Lemma RR_bind_app {A} (L1 L2 R1 R2 : res (list A)) : RR L1 L2 -> RR R1 R2 ->
    RR (bind L1 (fun L => bind R1 (fun R => Ok (L ++ R)))) (bind L2 (fun L => bind R2 (fun R => Ok (L ++ R)))).
  Proof.
    intros HL HR. destruct L1 as [l1|e1|s1|], L2 as [l2|e2|s2|]; cbn [RR bind] in *; try contradiction; try assumption.
    destruct R1 as [r1|e1|s1|], R2 as [r2|e2|s2|]; cbn [RR bind] in *; try contradiction; try assumption.
    apply Permutation_app; assumption.
  Qed.

  Lemma keys_none_perm a (its1 its2 : list item) : Permutation its1 its2 -> keys C a its1 = None -> keys C a its2 = None.
  Proof.
    intros P H. destruct (keys C a its2) as [k2|] eqn:E; [|reflexivity].
    destruct (keys_perm C a its2 its1 (Permutation_sym P) k2 E) as (k1 & Q & _). congruence.
  Qed.

  Theorem rcb_rec_perm : forall k fuel s1 s2 D its1 its2 iter_id a sum bb,
    Permutation its1 its2 -> Forall (vitem C valid) its1 ->
    RR (rcb_rec fuel s1 D k its1 iter_id a sum bb) (rcb_rec fuel s2 D k its2 iter_id a sum bb).
  Proof.
    induction k as [|k IH]; intros fuel s1 s2 D its1 its2 iter_id a sum bb P Hv.
    - destruct its1 as [|x1 t1].
      + apply Permutation_nil in P. subst its2. cbn. apply perm_nil.
      + destruct its2 as [|x2 t2]; [apply Permutation_sym, Permutation_nil in P; discriminate|].
        cbn [Rcb.rcb_rec RR].
        change ((x1, iter_id) :: map (fun it : item => (it, iter_id)) t1) with (map (fun it : item => (it, iter_id)) (x1 :: t1)).
        change ((x2, iter_id) :: map (fun it : item => (it, iter_id)) t2) with (map (fun it : item => (it, iter_id)) (x2 :: t2)).
        apply Permutation_map, P.
    - destruct its1 as [|x1 t1].
      { apply Permutation_nil in P. subst its2. cbn. apply perm_nil. }
      destruct its2 as [|x2 t2]; [apply Permutation_sym, Permutation_nil in P; discriminate|].
      set (its1 := x1 :: t1) in *. set (its2 := x2 :: t2) in *.
      cbn [Rcb.rcb_rec]. fold its1 its2.
      destruct (nth_opt bb a) as [[mn mx]|]; [|reflexivity].
      destruct (keys C a its1) as [xs1|] eqn:K1.
      2:{ rewrite (keys_none_perm a its1 its2 P K1). reflexivity. }
      destruct (keys_perm C a its1 its2 P xs1 K1) as (xs2 & K2 & Pk). rewrite K2.
      pose proof (vkey_of_keys C valid a its1 xs1 K1 Hv) as Hvx.
      destruct (keys_spec C a its1 xs1 K1) as [Hm1 _]. destruct (keys_spec C a its2 xs2 K2) as [Hm2 _].
      pose proof (search_rel xs1 xs2 sum Pk Hvx fuel (s1 iter_id) (s2 iter_id) 0%nat 0%nat mn mx None None) as S.
      destruct (search fuel (s1 iter_id) 0 xs1 sum mn mx None) as [[i1 w1 p1 y1|p1]|e1|q1|];
        destruct (search fuel (s2 iter_id) 0 xs2 sum mn mx None) as [[i2 w2 p2 y2|p2]|e2|q2|];
        cbn [SR] in S; try contradiction; cbn [bind]; try exact I.
      + (* both split at a pivot *)
        destruct S as (-> & -> & e1 & e2 & H1 & H2 & E).
        destruct (reorder_rel xs1 xs2 i1 i2 e1 e2 Pk Hvx H1 H2 E) as (l1 & r1 & l2 & r2 & R1 & R2 & Pl & Pr & A1 & A2).
        rewrite R1, R2. cbn [bind fst snd].
        assert (Hsub : forall it, In it (map snd l1) \/ In it (map snd r1) -> In it its1).
        { intros it Hit. rewrite <- Hm1. eapply Permutation_in; [apply Permutation_map, A1|].
          rewrite map_app. apply in_or_app. exact Hit. }
        apply RR_bind_app; apply IH.
        * apply Permutation_map, Pl.
        * rewrite Forall_forall in *. intros it Hit. apply Hv, Hsub. left; exact Hit.
        * apply Permutation_map, Pr.
        * rewrite Forall_forall in *. intros it Hit. apply Hv, Hsub. right; exact Hit.
      + (* both all-left *)
        subst p2. apply RR_bind_app; apply IH.
        * apply Permutation_map, Pk.
        * rewrite Hm1. exact Hv.
        * apply perm_nil.
        * constructor.
  Qed.

  (* ---------- the stores: permuted assignments to distinct cells ---------- *)
  Lemma set_nth_comm {A} (p : list A) i j v w : i <> j ->
    set_nth (set_nth p i v) j w = set_nth (set_nth p j w) i v.
  Proof.
    revert i j. induction p as [|y p IH]; intros [|i] [|j] H; cbn [set_nth]; try reflexivity; try congruence.
    f_equal. apply IH. congruence.
  Qed.

  Lemma stores_perm (asg1 asg2 : list (item * N)) : Permutation asg1 asg2 ->
    NoDup (map (fun x => ix (fst x)) asg1) ->
    forall p, fold_left (fun q x => set_nth q (ix (fst x)) (snd x)) asg1 p
            = fold_left (fun q x => set_nth q (ix (fst x)) (snd x)) asg2 p.
  Proof.
    induction 1 as [|x a b H IH|x y a|a b c H1 IH1 H2 IH2]; intros Hnd p.
    - reflexivity.
    - cbn [fold_left]. apply IH. inversion Hnd; assumption.
    - cbn [fold_left]. f_equal. apply set_nth_comm. cbn [map] in Hnd. inversion Hnd as [|? ? Hnot _]; subst.
      intros Q. apply Hnot. left. congruence.
    - rewrite IH1 by exact Hnd. apply IH2.
      eapply Permutation_NoDup; [apply Permutation_map, H1|exact Hnd].
  Qed.

  Lemma scatter_perm (asg1 asg2 : list (item * N)) p : Permutation asg1 asg2 ->
    NoDup (map (fun x => ix (fst x)) asg1) -> scatter C p asg1 = scatter C p asg2.
  Proof.
    intros P Hnd. rewrite !scatter_all_in_range.
    assert (E : forallb (fun x : item * N => Nat.ltb (ix (fst x)) (length p)) asg1
                = forallb (fun x : item * N => Nat.ltb (ix (fst x)) (length p)) asg2).
    { clear Hnd. induction P as [|x a b H IH|x y a|a b c H1 IH1 H2 IH2]; cbn [forallb]; try reflexivity.
      - rewrite IH; reflexivity.
      - destruct (Nat.ltb (ix (fst x)) (length p)), (Nat.ltb (ix (fst y)) (length p)); reflexivity.
      - congruence. }
    rewrite E. destruct (forallb _ asg2); [|reflexivity]. f_equal. apply stores_perm; assumption.
  Qed.

  (* ---------- rcb_core: the same result for any two schedules ---------- *)
  Theorem rcb_core_sched_indep : forall fuel s1 s2 D k its sum bb p0,
    Forall (vitem C valid) its -> NoDup (map ix its) ->
    rcb_core fuel s1 D k its sum bb p0 = rcb_core fuel s2 D k its sum bb p0.
  Proof.
    intros fuel s1 s2 D k its sum bb p0 Hv Hnd. unfold Rcb.rcb_core.
    pose proof (rcb_rec_perm k fuel s1 s2 D its its 0%N 0%nat sum bb (Permutation_refl _) Hv) as R.
    destruct (rcb_rec fuel s1 D k its 0%N 0%nat sum bb) as [a1|e1|q1|] eqn:E1;
      destruct (rcb_rec fuel s2 D k its 0%N 0%nat sum bb) as [a2|e2|q2|] eqn:E2;
      cbn [RR] in R; try contradiction; cbn [bind]; try congruence.
    rewrite !(scatter_fast_eq C).
    destruct (rcb_rec_spec C ltb leb mid dist addc zero inf within_tol false true probe_max valid
                lt_irrefl lt_negtrans le_lt _ _ _ _ _ _ _ _ _ _ Hv E1) as (PL & _ & _).
    rewrite (scatter_perm a1 a2 p0 R); [reflexivity|].
    rewrite <- (map_map fst ix). eapply Permutation_NoDup; [apply Permutation_sym, Permutation_map, PL|exact Hnd].
  Qed.
End Sched.

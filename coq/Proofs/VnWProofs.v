(* VnBest / VnFirst over an arbitrary weight arithmetic (Model/VnW.v).
   What survives without any law: the guards (length mismatch, negative
   weights).  What does NOT survive rounding, with witnesses on binary64:
   - VnBest's loop need not end: on weights 0.2 0.8 0.9 0.1 0.1 with the parts
     1 1 0 1 0 the loads are 1.0 and 1.1, the tracked imbalance is the ROUNDED
     difference 0.10000000000000009 > 0.1, so the weight 0.1 is moved, after
     which the loads are 1.1 and 1.0 again: it moves back and forth for ever;
   - VnFirst can increase the EXACT gap by a rounding error. *)
From Coupe Require Import Lib.Prelude Lib.SFloat Model.ArithW Model.NumPart Model.Vn Model.VnW Proofs.NumPartLemmas.
From Coq Require Import Floats.SpecFloat.

Section VnWGuards.
  Variable A : arith.

  Theorem vn_bestW_mismatch : forall guard fuel ws p, length ws <> length p ->
    vn_bestW A guard fuel ws p = Err (InputLenMismatch (length p) (length ws)).
  Proof. intros guard fuel ws p H. unfold vn_bestW. apply Nat.eqb_neq in H. rewrite H. reflexivity. Qed.

  Theorem vn_bestW_negative : forall guard fuel ws p, length ws = length p ->
    Exists (fun w => w_ltb A w (w_zero A) = true) ws ->
    vn_bestW A guard fuel ws p = Err NegativeValues.
  Proof.
    intros guard fuel ws p Hlen Hex. unfold vn_bestW. apply Nat.eqb_eq in Hlen. rewrite Hlen. cbn [negb].
    replace (existsb (fun w => w_ltb A w (w_zero A)) ws) with true; [reflexivity|].
    symmetry. apply existsb_exists. apply Exists_exists in Hex. exact Hex.
  Qed.

  Theorem vn_firstW_mismatch : forall ws p, length ws <> length p ->
    vn_firstW A ws p = Err (InputLenMismatch (length p) (length ws)).
  Proof. intros ws p H. unfold vn_firstW. apply Nat.eqb_neq in H. rewrite H. reflexivity. Qed.
End VnWGuards.

(* ---------- witnesses on binary64 ---------- *)

Definition f64s (bits : list N) : list spec_float := map (fun b => f64_of_bits b) bits.

(* 0.2 0.8 0.9 0.1 0.1 *)
Definition osc_ws : list spec_float :=
  f64s [4596373779694328218; 4605380978949069210; 4606281698874543309; 4591870180066957722; 4591870180066957722]%N.
Definition osc_p : list N := [1; 1; 0; 1; 0]%N.

(* after two turns the partition and the tracked loads are back where they were *)
Definition osc_L : list spec_float := f64s [4607182418800017408; 4607632778762754458]%N.   (* 1.0 1.1 *)
Definition osc_crit := rev (sort_items_descW F64arith (items_ofW F64arith osc_ws)).

Lemma vnbest_f64_cycle :
  parts_loadW F64arith osc_ws osc_p 2 = Ok osc_L /\
  forall n, iter_nat (vb_stepW F64arith false osc_crit) 2 (osc_p, osc_L, n) = inl (osc_p, osc_L, (n + 1 + 1)%N).
Proof.
  split; [vm_compute; reflexivity|]. intros n. cbv [iter_nat].
  assert (S1 : forall m, vb_stepW F64arith false osc_crit (osc_p, osc_L, m)
                         = inl ([1; 1; 0; 0; 0]%N, f64s [4607632778762754458; 4607182418800017408]%N, (m + 1)%N)).
  { intros m. vm_compute. reflexivity. }
  rewrite S1.
  assert (S2 : forall m, vb_stepW F64arith false osc_crit ([1; 1; 0; 0; 0]%N, f64s [4607632778762754458; 4607182418800017408]%N, m)
                         = inl (osc_p, osc_L, (m + 1)%N)).
  { intros m. vm_compute. reflexivity. }
  rewrite S2. reflexivity.
Qed.

(* hence no fuel is enough: the loop WITHOUT the progress test (the code before fix 98041ea) never
   returns on this input *)
Theorem vnbest_f64_never_returns : forall fuel, vn_bestW F64arith false fuel osc_ws osc_p = OutOfFuel.
Proof.
  destruct vnbest_f64_cycle as [HL Hc].
  assert (G : forall k n, exists n', iter_nat (vb_stepW F64arith false osc_crit) (2 * k) (osc_p, osc_L, n) = inl (osc_p, osc_L, n')).
  { induction k as [|k IH]; intros n; [exists n; reflexivity|].
    replace (2 * S k)%nat with (2 + 2 * k)%nat by lia.
    rewrite (iter_nat_add (vb_stepW F64arith false osc_crit) 2 (2 * k)), Hc. apply IH. }
  assert (G1 : forall fuel n, exists s, iter_nat (vb_stepW F64arith false osc_crit) fuel (osc_p, osc_L, n) = inl s).
  { intros fuel n. destruct (Nat.Even_or_Odd fuel) as [[k ->]|[k ->]].
    - destruct (G k n) as [n' E]. eauto.
    - replace (2 * k + 1)%nat with (2 * k + 1)%nat by lia.
      rewrite (iter_nat_add (vb_stepW F64arith false osc_crit) (2 * k) 1).
      destruct (G k n) as [n' E]. rewrite E. cbn [iter_nat].
      assert (S1 : vb_stepW F64arith false osc_crit (osc_p, osc_L, n')
                   = inl ([1; 1; 0; 0; 0]%N, f64s [4607632778762754458; 4607182418800017408]%N, (n' + 1)%N))
        by (vm_compute; reflexivity).
      rewrite S1. eauto. }
  intros fuel. unfold vn_bestW.
  change (Nat.eqb (length osc_ws) (length osc_p)) with true. cbn [negb].
  replace (existsb (fun w => w_ltb F64arith w (w_zero F64arith)) osc_ws) with false by (vm_compute; reflexivity).
  replace (Nat.eqb (length osc_p) 0 || forallb (w_is_zero F64arith) osc_ws || Nat.ltb (part_count osc_p) 2) with false
    by (vm_compute; reflexivity).
  change (part_count osc_p) with 2%nat. rewrite HL. cbn [bind]. fold osc_crit.
  destruct (G1 fuel 0%N) as [s E].
  match goal with |- match ?t with _ => _ end = _ => replace t with (@inl (vb_stateW F64arith) (res (list N * N)) s) by (symmetry; exact E) end.
  reflexivity.
Qed.

(* with the progress test the same input returns at once: the move 1.0|1.1 -> 1.1|1.0 does not bring
   the two parts closer (0.10000000000000009 is not below 0.10000000000000009) *)
Lemma vnbest_f64_fixed_returns : vn_bestW F64arith true 10 osc_ws osc_p = Ok (osc_p, 0%N).
Proof. vm_compute. reflexivity. Qed.

(* on the integers the progress test never fires: the two loops are the same function *)
Lemma vb_guardW_Z_never lo lu w : w_leb Zarith (w_sub Zarith lo lu) w = false ->
  vb_guardW Zarith lo lu w (w_sub Zarith lo lu) = false.
Proof.
  unfold w_leb, vb_guardW. cbn [Zarith W w_ltb w_eqb w_sub w_add]. intros H.
  apply orb_false_iff in H as [H1 H2]. apply Z.ltb_ge in H1. apply Z.eqb_neq in H2.
  destruct (Z.ltb_spec (lo - w) (lu + w)); cbn [andb]; auto.
  destruct (Z.ltb_spec (lu + w - (lo - w)) (lo - lu)); cbn [negb]; auto. lia.
Qed.

Lemma vb_stepW_Z_guard crit st : vb_stepW Zarith true crit st = vb_stepW Zarith false crit st.
Proof.
  unfold vb_stepW. destruct st as [[p L] n].
  destruct (minmax_posW Zarith L) as [[under over]|]; auto.
  destruct (nth_opt L over) as [lo|]; auto. destruct (nth_opt L under) as [lu|]; auto.
  destruct (nearestW _ _ _ _ _ _ _ _) as [[c|]| | |]; auto.
  destruct (nth_opt crit c) as [[w id]|]; auto.
  destruct (w_leb Zarith (w_sub Zarith lo lu) w || w_is_zero Zarith w) eqn:E; auto.
  apply orb_false_iff in E as [E _]. cbn [andb]. rewrite (vb_guardW_Z_never _ _ _ E). reflexivity.
Qed.

Theorem vn_bestW_Z_guard fuel ws p : vn_bestW Zarith true fuel ws p = vn_bestW Zarith false fuel ws p.
Proof.
  unfold vn_bestW.
  destruct (negb _); auto. destruct (existsb _ ws); auto. destruct (_ || _); auto.
  destruct (parts_loadW Zarith ws p (part_count p)) as [L| | |]; cbn [bind]; auto.
  assert (G : forall n s, iter_nat (vb_stepW Zarith true (rev (sort_items_descW Zarith (items_ofW Zarith ws)))) n s
                        = iter_nat (vb_stepW Zarith false (rev (sort_items_descW Zarith (items_ofW Zarith ws)))) n s).
  { induction n as [|n IH]; intros s; cbn [iter_nat]; auto. rewrite vb_stepW_Z_guard.
    destruct (vb_stepW Zarith false _ s); auto. }
  now rewrite G.
Qed.

(* VnFirst: 0.1 0.1 0.6000000000000001 0.7000000000000001, parts 0 1 1 0 -> 1 1 1 0: the exact gap grows
   from 900719925474099 / 2^53 to 1801439850948199 / 2^54, i.e. by 2^-54 *)
Definition vf_ws : list spec_float :=
  f64s [4591870180066957722; 4591870180066957722; 4603579539098121012; 4604480259023595111]%N.

Lemma vnfirst_f64_exact_gap_grows :
  vn_firstW F64arith vf_ws [0; 1; 1; 0]%N = Ok ([1; 1; 1; 0]%N, 2%N)
  /\ check_vn_f64 vf_ws [0; 1; 1; 0]%N [1; 1; 1; 0]%N = Some (true, false).
Proof. split; vm_compute; reflexivity. Qed.

(* ArcSwap with f64 vertex weights (instance wops_f64 of the machine).
   PROVED for every f64 weight vector (any bit patterns), every graph with symmetric adjacency, every
   number of workers and every schedule: mutual exclusion, gain exactness, the accounting identity
   (exact: gains and the cut are i64), valid ids, move_count, no panic / no deadlock, termination,
   completion — instances of Proofs/ArcSwapGeneric.v.
   REFUTED: the strict caps clause, even for integer-valued weights whose sums are all below 2^53:
   the per-thread budget `pw + (max - pw) / tc` is rounded to a binary64 number, at magnitude 2^52
   to the next integer, and two workers can together exceed the headroom ([f64w_caps_refuted];
   the implementation does the same: design-probes/c05_f64_weights_probe.rs). *)
From Coupe Require Import Lib.Prelude Lib.SFloat Model.ArcSwap Model.ArcSwapF64 Proofs.ArcSwapCut
  Proofs.ArcSwapProto Proofs.ArcSwapAcct Proofs.ArcSwapProgress Proofs.ArcSwapTerm Proofs.ArcSwapTrace
  Proofs.ArcSwapSafe Proofs.ArcSwapGeneric.
Open Scope Z_scope.

Lemma config_of_wf_f64w g vw p0 T cap : graph_ok g -> length vw = length g -> length p0 = length g ->
  (1 <= length g)%nat -> (1 <= T)%nat -> config_wf (config_of headroom_f64w g vw p0 T cap).
Proof.
  intros Hg Hvw Hp Hn HT. unfold config_of.
  pose proof (work_share_chunks (length p0) T) as Hws. rewrite Hp in Hws. specialize (Hws Hn HT).
  rewrite Hp. destruct (work_share (length g) T) as [ipt tc]. destruct Hws as [Htc Hch].
  split; cbn [cf_g cf_vw cf_k cf_ipt cf_tc cf_hr]; auto.
  - apply (go_range _ Hg).
  - unfold part_count. lia.
  - discriminate.
Qed.

(* every clause that does not involve weights, for f64 vertex weights *)
Theorem arcswap_f64w_safe g vw p0 T cap st0 sch st :
  graph_ok g -> length p0 = length g ->
  let cf := config_of headroom_f64w g vw p0 T cap in
  init_state (W := wops_f64) cf p0 = Some st0 -> run (W := wops_f64) cf st0 sch = Some st ->
  no_adjacent_critical g st
  /\ cut g p0 - cut g (g_part st) = total_gain st /\ 0 <= total_gain st
  /\ length (g_part st) = length p0 /\ Forall (fun x => (x < part_count p0)%nat) (g_part st)
  /\ relabelled p0 (g_part st) <= total_moves st
  /\ Acc (step_rel (W := wops_f64) cf) st.
Proof.
  intros Hg Hl cf Hi Hr.
  destruct (config_of_fields headroom_f64w g vw p0 T cap) as (E1 & E2 & E3 & E4 & E5). fold cf in E1, E2, E3, E4, E5.
  assert (Hgq : graph_ok (cf_g cf)) by now rewrite E1.
  assert (Hlq : length p0 = length (cf_g cf)) by now rewrite E1.
  assert (Hidq : Forall (fun x => (x < cf_k cf)%nat) p0) by (rewrite E3; apply part_count_bound).
  pose proof (arcswap_mutex_w (W := wops_f64) cf p0 Hgq Hlq Hidq st0 sch st Hi Hr) as M.
  destruct (arcswap_accounting_w (W := wops_f64) cf p0 Hgq Hlq Hidq st0 sch st Hi Hr) as (A1 & A2 & A3 & A4 & A5).
  destruct (arcswap_terminates_w (W := wops_f64) cf p0 Hgq Hlq Hidq st0 sch st Hi Hr) as [T1 _].
  rewrite E1 in M, A1. rewrite E3 in A4.
  split; [exact M|]. split; [exact A1|]. split; [exact A2|]. split; [exact A3|]. split; [exact A4|].
  split; [exact A5|exact T1].
Qed.

Theorem arcswap_f64w_runs g vw p0 T cap :
  graph_ok g -> length vw = length g -> length p0 = length g -> (1 <= length g)%nat -> (1 <= T)%nat ->
  let cf := config_of headroom_f64w g vw p0 T cap in
  init_state (W := wops_f64) cf p0 <> None /\
  forall st0 sch st, init_state (W := wops_f64) cf p0 = Some st0 -> run (W := wops_f64) cf st0 sch = Some st ->
    (g_fin st = false ->
       (forall t w, nth_opt (g_ws st) t = Some w -> w_pc w <> PDone -> step (W := wops_f64) cf st t <> None)
       /\ exists t st', step (W := wops_f64) cf st t = Some st')
    /\ (forall f : nat -> nat, exists m, run (W := wops_f64) cf st (map f (seq 0 m)) = None)
    /\ (exists sch' st', run (W := wops_f64) cf st sch' = Some st' /\ g_fin st' = true).
Proof.
  intros Hg Hlv Hl Hn HT cf.
  pose proof (config_of_wf_f64w g vw p0 T cap Hg Hlv Hl Hn HT) as Hwf. fold cf in Hwf.
  destruct (config_of_fields headroom_f64w g vw p0 T cap) as (E1 & E2 & E3 & E4 & E5). fold cf in E1, E2, E3, E4, E5.
  assert (Hgq : graph_ok (cf_g cf)) by now rewrite E1.
  assert (Hlq : length p0 = length (cf_g cf)) by now rewrite E1.
  assert (Hidq : Forall (fun x => (x < cf_k cf)%nat) p0) by (rewrite E3; apply part_count_bound).
  destruct (arcswap_no_panic_w (W := wops_f64) cf p0 Hwf Hlq Hidq) as [Hinit Hnp].
  split; [exact Hinit|]. intros st0 sch st Hi Hr.
  split; [intros Hnf; exact (Hnp st0 sch st Hi Hr Hnf)|].
  destruct (arcswap_terminates_w (W := wops_f64) cf p0 Hgq Hlq Hidq st0 sch st Hi Hr) as [_ B].
  split; [exact B|].
  exact (arcswap_completes_w (W := wops_f64) cf p0 Hgq Hwf Hlq Hidq st0 sch st Hi Hr).
Qed.

(* ---------------------------------------------------- the caps clause fails *)

Definition fb (z : Z) : Z := zf (f64_of_Z z).     (* the f64 with integer value z, as bits *)

(* chunk 0 = {0,1,2}, chunk 1 = {3,4}; movers 0 and 3 (part 0, weight 2) each tied to an anchor of
   part 1 (vertices 1 and 4, weight 2^51); vertex 2 (part 0) weighs 2^52 - 1.  Part 0 = 2^52 + 3 is
   the cap (max_imbalance = None), part 1 = 2^52: headroom 3, i.e. 1.5 per worker, but
   2^52 + 1.5 rounds to 2^52 + 2 and both workers move their vertex of weight 2 *)
Definition fw_g : graph := [[(1%nat, 1)]; [(0%nat, 1)]; []; [(4%nat, 1)]; [(3%nat, 1)]].
Definition fw_vw : list Z := [fb 2; fb (2 ^ 51); fb (2 ^ 52 - 1); fb 2; fb (2 ^ 51)].
Definition fw_p0 : list nat := [0; 1; 0; 0; 1]%nat.

Lemma fw_cap : cap_f64w None (wloads (W := wops_f64) fw_vw fw_p0 2) 2 = Some (fb (2 ^ 52 + 3)).
Proof. vm_compute. reflexivity. Qed.

Lemma f64w_caps_refuted :
  let cf := config_of headroom_f64w fw_g fw_vw fw_p0 2 (fb (2 ^ 52 + 3)) in
  exists st0 sch st, init_state (W := wops_f64) cf fw_p0 = Some st0 /\ run (W := wops_f64) cf st0 sch = Some st
    /\ g_fin st = true
    /\ wload (W := wops_f64) fw_vw fw_p0 1 = fb (2 ^ 52)            (* input weight of part 1 *)
    /\ wload (W := wops_f64) fw_vw (g_part st) 1 = fb (2 ^ 52 + 4)   (* its final weight: above the cap 2^52 + 3 *)
    /\ f64_int (fb (2 ^ 52 + 4)) = Some (2 ^ 52 + 4).
Proof.
  cbv zeta.
  destruct (init_state (W := wops_f64) (config_of headroom_f64w fw_g fw_vw fw_p0 2 (fb (2 ^ 52 + 3))) fw_p0) as [st0|] eqn:E0;
    [|vm_compute in E0; discriminate].
  exists st0, (fst (drive_w (W := wops_f64) (config_of headroom_f64w fw_g fw_vw fw_p0 2 (fb (2 ^ 52 + 3))) 2000 0 st0 [])),
              (snd (drive_w (W := wops_f64) (config_of headroom_f64w fw_g fw_vw fw_p0 2 (fb (2 ^ 52 + 3))) 2000 0 st0 [])).
  vm_compute in E0. injection E0 as <-. vm_compute. repeat split; reflexivity.
Qed.

(* The laws of a weight arithmetic (Model/ArithW.v) that the generic theorems
   use, and their proofs for the two instances.
   [ok] = the values the contract allows (and the loads built from them):
   every integer; for binary64: +0, positive finite numbers and +infinity
   (no NaN, nothing negative, no -0.0).
   Order laws (proved for both instances): [<] is a strict weak order on ok
   values whose incomparable elements are EQUAL.
   Closure law [add_ok] (ok + ok is ok): proved for Z; for binary64 it is the
   IEEE-754 fact "the rounded sum of two non-negative numbers is a non-negative
   number, never NaN, never -0.0"; it is NOT proved here for SpecFloat's
   binary_normalize and appears as an explicit premise of the f64 theorems.
   No associativity, no monotonicity of +, no exactness is assumed anywhere. *)
From Coupe Require Import Lib.Prelude Lib.SFloat Model.ArithW.
From Coq Require Import Floats.SpecFloat.
Open Scope Z_scope.

Record order_laws (A : arith) (ok : W A -> Prop) : Prop := {
  ltb_irrefl : forall x, ok x -> w_ltb A x x = false;
  ltb_asym : forall x y, ok x -> ok y -> w_ltb A x y = true -> w_ltb A y x = false;
  (* negative transitivity: "not below" is transitive *)
  ltb_negtrans : forall x y z, ok x -> ok y -> ok z ->
    w_ltb A x y = false -> w_ltb A y z = false -> w_ltb A x z = false;
  (* incomparable values are equal (so a tie between two loads is a tie between equal numbers) *)
  ltb_tie_eq : forall x y, ok x -> ok y -> w_ltb A x y = false -> w_ltb A y x = false -> x = y;
  eqb_ok : forall x y, ok x -> ok y -> (w_eqb A x y = true <-> x = y);
  zero_ok : ok (w_zero A)
}.

Definition add_closed (A : arith) (ok : W A -> Prop) : Prop :=
  forall x y, ok x -> ok y -> ok (w_add A x y).

(* ---------------- Z ---------------- *)

Definition okZ (_ : Z) : Prop := True.

Lemma Z_order_laws : order_laws Zarith okZ.
Proof.
  constructor; cbn; intros; try exact I.
  - apply Z.ltb_irrefl.
  - apply Z.ltb_ge. apply Z.ltb_lt in H1. lia.
  - apply Z.ltb_ge in H2, H3. apply Z.ltb_ge. lia.
  - apply Z.ltb_ge in H1, H2. lia.
  - apply Z.eqb_eq.
Qed.

Lemma Z_add_closed : add_closed Zarith okZ.
Proof. intros x y _ _. exact I. Qed.

(* ---------------- binary64 ---------------- *)

Definition okF (x : spec_float) : Prop :=
  match x with
  | S754_zero s => s = false
  | S754_finite s _ _ => s = false
  | S754_infinity s => s = false
  | S754_nan => False
  end.

(* an order embedding of the ok values into triples of integers, compared lexicographically *)
Definition rankF (x : spec_float) : Z * Z * Z :=
  match x with
  | S754_zero _ => (0, 0, 0)
  | S754_finite _ m e => (1, e, Zpos m)
  | S754_infinity _ => (2, 0, 0)
  | S754_nan => (3, 0, 0)
  end.
Definition lex3 (a b : Z * Z * Z) : Prop :=
  let '(a1, a2, a3) := a in let '(b1, b2, b3) := b in
  a1 < b1 \/ (a1 = b1 /\ (a2 < b2 \/ (a2 = b2 /\ a3 < b3))).

Lemma SFltb_rank x y : okF x -> okF y -> (SFltb x y = true <-> lex3 (rankF x) (rankF y)).
Proof.
  destruct x as [sx|sx| |sx mx ex], y as [sy|sy| |sy my ey]; cbn [okF]; intros Hx Hy; try contradiction; subst;
    unfold SFltb, SFcompare, lex3, rankF; try (split; [discriminate|lia]); try (split; [lia|reflexivity]).
  destruct (Z.compare_spec ex ey) as [E|E|E];
    [ subst; change (Pos.compare_cont Eq mx my) with (Pos.compare mx my);
      destruct (Pos.compare_spec mx my) as [F|F|F]; split; intros H; try discriminate; try reflexivity; lia
    | split; [lia|reflexivity]
    | split; [discriminate|lia] ].
Qed.

Lemma rankF_inj x y : okF x -> okF y -> rankF x = rankF y -> x = y.
Proof.
  destruct x as [sx|sx| |sx mx ex], y as [sy|sy| |sy my ey]; cbn [okF rankF]; intros Hx Hy E;
    try contradiction; subst; try discriminate; try reflexivity.
  injection E as -> ->. reflexivity.
Qed.

Lemma SFltb_false_rank x y : okF x -> okF y -> (SFltb x y = false <-> ~ lex3 (rankF x) (rankF y)).
Proof.
  intros Hx Hy. rewrite <- (SFltb_rank x y Hx Hy). destruct (SFltb x y); split; intros H; try congruence.
Qed.

Lemma lex3_total a b : ~ lex3 a b -> ~ lex3 b a -> a = b.
Proof. destruct a as [[a1 a2] a3], b as [[b1 b2] b3]. unfold lex3. intros H1 H2. f_equal; [f_equal|]; lia. Qed.

Lemma SFeqb_ok x y : okF x -> okF y -> (SFeqb x y = true <-> x = y).
Proof.
  intros Hx Hy. split.
  - intros H. apply rankF_inj; auto. apply lex3_total.
    + apply (SFltb_false_rank x y Hx Hy). unfold SFltb, SFeqb in *. destruct (SFcompare x y) as [[| |]|]; congruence.
    + apply (SFltb_false_rank y x Hy Hx).
      destruct x as [sx|sx| |sx mx ex], y as [sy|sy| |sy my ey]; cbn [okF] in *; try contradiction; subst;
        unfold SFltb, SFeqb, SFcompare in *; try discriminate; try reflexivity.
      destruct (Z.compare_spec ex ey) as [E|E|E]; try discriminate. subst. rewrite Z.compare_refl.
      change (Pos.compare_cont Eq mx my) with (Pos.compare mx my) in H.
      change (Pos.compare_cont Eq my mx) with (Pos.compare my mx).
      destruct (Pos.compare_spec mx my) as [F|F|F]; try discriminate. subst. now rewrite Pos.compare_refl.
  - intros <-. destruct x as [sx|sx| |sx mx ex]; cbn [okF] in Hx; try contradiction; subst;
      unfold SFeqb, SFcompare; try reflexivity.
    rewrite Z.compare_refl. change (Pos.compare_cont Eq mx mx) with (Pos.compare mx mx). now rewrite Pos.compare_refl.
Qed.

Lemma F64_order_laws : order_laws F64arith okF.
Proof.
  constructor; cbn [F64arith W w_ltb w_eqb w_zero].
  - intros x Hx. apply (SFltb_false_rank x x Hx Hx). destruct (rankF x) as [[a b] c]. unfold lex3. lia.
  - intros x y Hx Hy H. apply (SFltb_rank x y Hx Hy) in H. apply (SFltb_false_rank y x Hy Hx).
    destruct (rankF x) as [[a b] c], (rankF y) as [[a' b'] c']. unfold lex3 in *. lia.
  - intros x y z Hx Hy Hz H1 H2. apply (SFltb_false_rank x y Hx Hy) in H1. apply (SFltb_false_rank y z Hy Hz) in H2.
    apply (SFltb_false_rank x z Hx Hz).
    destruct (rankF x) as [[a b] c], (rankF y) as [[a' b'] c'], (rankF z) as [[a'' b''] c'']. unfold lex3 in *. lia.
  - intros x y Hx Hy H1 H2. apply rankF_inj; auto. apply lex3_total.
    + now apply (SFltb_false_rank x y Hx Hy).
    + now apply (SFltb_false_rank y x Hy Hx).
  - apply SFeqb_ok.
  - reflexivity.
Qed.

(* Termination of VnBest's loop WITH the progress test of fix 98041ea, over an
   arbitrary weight arithmetic, under monotonic-rounding laws (part 1: the
   measure on the vector of tracked part loads).

   The tracked imbalance does NOT strictly decrease at every accepted move
   (nor does the pair (imbalance, number of parts at the maximum)): with three
   or more parts the extreme loads may be shared by several parts, and a weight
   that is absorbed by rounding (M - w = M, m + w = m) leaves every load
   unchanged.  What does decrease is the lexicographic measure
     ( rank of the largest load,            -- never grows: M - w <= M
       - rank of the smallest load,          -- never grows: m + w >= m
       number of parts at an extreme load,   -- a part that leaves the extremes is not touched again
       T,                                    -- see below
       number of elements in the parts at the largest load )   -- an absorbed move takes one away
   where, once the three first components are fixed, the only load changes left
   are "the lightest part jumps to the maximum" (m + w = M, M - w = M) and "the
   heaviest part drops to the minimum" (M - w' = m, m + w' = m); monotonicity of
   + and - in the weight excludes that both kinds exist for the same (M, m), so
   T := the number of parts at M when a weight of the second kind exists, and
   k - that number otherwise.  The swap (M - w = m, m + w = M) is what the
   progress test rejects. *)
From Coupe Require Import Lib.Prelude Model.ArithW Proofs.NumPartLemmas Proofs.ArithWLemmas.
From Coq Require Import Permutation.
Open Scope Z_scope.

Section Laws.
  Variable A : arith.
  Variable ok : W A -> Prop.
  Variable rank : W A -> Z.
  Notation Wt := (W A).
  Notation ltb := (w_ltb A).
  Notation add := (w_add A).
  Notation sub := (w_sub A).

  (* x <= y *)
  Definition leW (x y : Wt) : Prop := ltb y x = false.

  Record round_laws : Prop := {
    rl_order : order_laws A ok;
    rl_rank_nonneg : forall x, ok x -> 0 <= rank x;
    rl_rank_mono : forall x y, ok x -> ok y -> ltb x y = true -> rank x < rank y;
    (* the rounded operations are monotone in the weight, and never leave [m, M] *)
    rl_add_ge : forall x w, ok x -> ok w -> leW x (add x w);
    rl_sub_le : forall x w, ok x -> ok w -> leW (sub x w) x;
    rl_within_sub : forall M m w, ok M -> ok m -> ok w -> ltb w (sub M m) = true -> leW m (sub M w);
    rl_within_add : forall M m w, ok M -> ok m -> ok w -> ltb w (sub M m) = true -> leW (add m w) M;
    rl_add_mono : forall x w w', ok x -> ok w -> ok w' -> leW w w' -> leW (add x w) (add x w');
    rl_sub_anti : forall x w w', ok x -> ok w -> ok w' -> leW w w' -> leW (sub x w') (sub x w);
    (* closure of the admitted values *)
    rl_add_ok : forall M m w, ok M -> ok m -> ok w -> ltb w (sub M m) = true -> ok (add m w);
    rl_sub_ok : forall M m w, ok M -> ok m -> ok w -> ltb w (sub M m) = true -> ok (sub M w);
    rl_gap_ok : forall M m, ok M -> ok m -> leW m M -> ok (sub M m);
    rl_sub_self : forall x, ok x -> ltb (w_zero A) (sub x x) = false;
    rl_nonneg : forall x, ok x -> ltb x (w_zero A) = false
  }.
End Laws.

Section Measure.
  Variable A : arith.
  Variable ok : W A -> Prop.
  Variable rank : W A -> Z.
  Hypothesis RL : round_laws A ok rank.
  Notation Wt := (W A).
  Notation ltb := (w_ltb A).
  Notation eqb := (w_eqb A).
  Notation add := (w_add A).
  Notation sub := (w_sub A).
  Let OL := rl_order A ok rank RL.

  Lemma leW_refl x : ok x -> leW A x x.
  Proof. intros H. unfold leW. apply (ltb_irrefl A ok OL x H). Qed.
  Lemma leW_trans x y z : ok x -> ok y -> ok z -> leW A x y -> leW A y z -> leW A x z.
  Proof. unfold leW. intros Hx Hy Hz H1 H2. apply (ltb_negtrans A ok OL z y x); auto. Qed.
  Lemma leW_antisym x y : ok x -> ok y -> leW A x y -> leW A y x -> x = y.
  Proof. unfold leW. intros Hx Hy H1 H2. apply (ltb_tie_eq A ok OL); auto. Qed.
  Lemma ltb_leW x y : ok x -> ok y -> ltb x y = true -> leW A x y.
  Proof. unfold leW. intros Hx Hy H. apply (ltb_asym A ok OL x y); auto. Qed.
  Lemma not_leW_ltb x y : ok x -> ok y -> ~ leW A x y -> ltb y x = true.
  Proof. unfold leW. intros Hx Hy H. destruct (ltb y x); auto; exfalso; apply H; reflexivity. Qed.
  Lemma leW_rank x y : ok x -> ok y -> leW A x y -> rank x <= rank y.
  Proof.
    intros Hx Hy H. destruct (ltb x y) eqn:E.
    - pose proof (rl_rank_mono A ok rank RL x y Hx Hy E). lia.
    - assert (x = y) by (apply leW_antisym; auto). subst. lia.
  Qed.
  Lemma eqb_refl_ok x : ok x -> eqb x x = true.
  Proof. intros H. apply (eqb_ok A ok OL x x H H). reflexivity. Qed.
  Lemma eqb_spec_ok x y : ok x -> ok y -> reflect (x = y) (eqb x y).
  Proof.
    intros Hx Hy. destruct (eqb x y) eqn:E; constructor.
    - now apply (eqb_ok A ok OL x y Hx Hy).
    - intro C. apply (eqb_ok A ok OL x y Hx Hy) in C. congruence.
  Qed.

  (* ---------- maximum, minimum, counts ---------- *)

  Definition maxW (L : list Wt) : Wt :=
    match L with [] => w_zero A | x :: t => fold_left (fun a y => if ltb a y then y else a) t x end.
  Definition minW (L : list Wt) : Wt :=
    match L with [] => w_zero A | x :: t => fold_left (fun a y => if ltb y a then y else a) t x end.

  Lemma maxW_spec L : L <> [] -> Forall ok L -> In (maxW L) L /\ forall y, In y L -> leW A y (maxW L).
  Proof.
    destruct L as [|x t]; [congruence|]. intros _ Hok. cbn [maxW].
    assert (G : forall l a pre, Forall ok (pre ++ l) -> ok a -> In a pre -> (forall y, In y pre -> leW A y a) ->
              In (fold_left (fun a y => if ltb a y then y else a) l a) (pre ++ l)
              /\ forall y, In y (pre ++ l) -> leW A y (fold_left (fun a y => if ltb a y then y else a) l a)).
    { clear Hok. induction l as [|z l IH]; intros a pre Hok Ha Hin Hle; cbn [fold_left].
      - rewrite app_nil_r. auto.
      - assert (Hz : ok z) by (rewrite Forall_forall in Hok; apply Hok, in_or_app; right; now left).
        assert (Hpre : forall y, In y pre -> ok y) by (intros y Hy; rewrite Forall_forall in Hok; apply Hok, in_or_app; now left).
        replace (pre ++ z :: l) with ((pre ++ [z]) ++ l) in * by (rewrite <- app_assoc; reflexivity).
        destruct (ltb a z) eqn:E.
        + apply IH; auto; [apply in_or_app; right; now left|].
          intros y Hy. apply in_app_or in Hy as [Hy|[<-|[]]]; [|now apply leW_refl].
          apply (leW_trans y a z); auto. now apply ltb_leW.
        + apply IH; auto; [apply in_or_app; now left|].
          intros y Hy. apply in_app_or in Hy as [Hy|[<-|[]]]; auto. }
    apply (G t x [x]); auto.
    - now inversion Hok.
    - now left.
    - intros y [<-|[]]. apply leW_refl. now inversion Hok.
  Qed.

  Lemma minW_spec L : L <> [] -> Forall ok L -> In (minW L) L /\ forall y, In y L -> leW A (minW L) y.
  Proof.
    destruct L as [|x t]; [congruence|]. intros _ Hok. cbn [minW].
    assert (G : forall l a pre, Forall ok (pre ++ l) -> ok a -> In a pre -> (forall y, In y pre -> leW A a y) ->
              In (fold_left (fun a y => if ltb y a then y else a) l a) (pre ++ l)
              /\ forall y, In y (pre ++ l) -> leW A (fold_left (fun a y => if ltb y a then y else a) l a) y).
    { clear Hok. induction l as [|z l IH]; intros a pre Hok Ha Hin Hle; cbn [fold_left].
      - rewrite app_nil_r. auto.
      - assert (Hz : ok z) by (rewrite Forall_forall in Hok; apply Hok, in_or_app; right; now left).
        assert (Hpre : forall y, In y pre -> ok y) by (intros y Hy; rewrite Forall_forall in Hok; apply Hok, in_or_app; now left).
        replace (pre ++ z :: l) with ((pre ++ [z]) ++ l) in * by (rewrite <- app_assoc; reflexivity).
        destruct (ltb z a) eqn:E.
        + apply IH; auto; [apply in_or_app; right; now left|].
          intros y Hy. apply in_app_or in Hy as [Hy|[<-|[]]]; [|now apply leW_refl].
          apply (leW_trans z a y); auto. now apply ltb_leW.
        + apply IH; auto; [apply in_or_app; now left|].
          intros y Hy. apply in_app_or in Hy as [Hy|[<-|[]]]; auto. }
    apply (G t x [x]); auto.
    - now inversion Hok.
    - now left.
    - intros y [<-|[]]. apply leW_refl. now inversion Hok.
  Qed.

  (* a maximum is THE maximum *)
  Lemma max_unique L M : L <> [] -> Forall ok L -> In M L -> (forall y, In y L -> leW A y M) -> maxW L = M.
  Proof.
    intros Hne Hok Hin Hle. destruct (maxW_spec L Hne Hok) as [Hi Hm].
    rewrite Forall_forall in Hok. apply leW_antisym; auto.
  Qed.
  Lemma min_unique L m : L <> [] -> Forall ok L -> In m L -> (forall y, In y L -> leW A m y) -> minW L = m.
  Proof.
    intros Hne Hok Hin Hle. destruct (minW_spec L Hne Hok) as [Hi Hm].
    rewrite Forall_forall in Hok. apply leW_antisym; auto.
  Qed.

  Definition ind (x y : Wt) : Z := if eqb x y then 1 else 0.
  Fixpoint cnt (x : Wt) (L : list Wt) : Z :=
    match L with [] => 0 | y :: t => ind y x + cnt x t end.

  Lemma cnt_bounds x L : 0 <= cnt x L <= Z.of_nat (length L).
  Proof. induction L as [|y t IH]; cbn [cnt length]; [lia|]. unfold ind. destruct (eqb y x); lia. Qed.

  Lemma cnt_set_nth x : forall L i v old, nth_opt L i = Some old ->
    cnt x (set_nth L i v) = cnt x L - ind old x + ind v x.
  Proof.
    induction L as [|y t IH]; intros [|i] v old H; cbn in H; try discriminate.
    - injection H as ->. cbn [set_nth cnt]. lia.
    - cbn [set_nth cnt]. rewrite (IH i v old H). lia.
  Qed.

  Lemma set_nth_same {B} (L : list B) i v : nth_opt L i = Some v -> set_nth L i v = L.
  Proof. revert i; induction L as [|y t IH]; intros [|i] H; cbn in *; try discriminate; [congruence|f_equal; auto]. Qed.

  (* ---------- the measure on load vectors ---------- *)

  Variable ws : list Wt.     (* the weights a move can use *)
  Variable k : nat.

  (* a weight that drops the heaviest part to the minimum without lifting the lightest one exists *)
  Definition dropQ (M m : Wt) : bool :=
    existsb (fun w => ltb w (sub M m) && negb (ltb m (sub M w)) && negb (ltb m (add m w))) ws.

  Definition compE (L : list Wt) : Z := cnt (maxW L) L + cnt (minW L) L.
  Definition compT (L : list Wt) : Z :=
    if dropQ (maxW L) (minW L) then cnt (maxW L) L else Z.of_nat k - cnt (maxW L) L.

  (* lexicographic decrease of (rank max, - rank min, E, T), or nothing changed *)
  Definition lex4 (L L' : list Wt) : Prop :=
    rank (maxW L') < rank (maxW L)
    \/ (maxW L' = maxW L /\
        (rank (minW L) < rank (minW L')
         \/ (minW L' = minW L /\
             (compE L' < compE L \/ (compE L' = compE L /\ compT L' < compT L))))).

  Theorem move_decreases : forall L o u M m w,
    length L = k -> Forall ok L -> Forall ok ws -> In w ws ->
    nth_opt L o = Some M -> nth_opt L u = Some m ->
    (forall y, In y L -> leW A y M) -> (forall y, In y L -> leW A m y) ->
    ltb w (sub M m) = true ->
    (* the progress test let the move through *)
    (ltb (sub M w) (add m w) && negb (ltb (sub (add m w) (sub M w)) (sub M m))) = false ->
    let L' := set_nth (set_nth L o (sub M w)) u (add m w) in
    length L' = k /\ Forall ok L' /\ o <> u /\ (L' = L \/ lex4 L L') /\ 0 <= compT L' /\ 0 <= compT L
    /\ leW A (maxW L') (maxW L) /\ leW A (minW L) (minW L').
  Proof.
    intros L o u M m w HL Hok Hws Hw Ho Hu Hmax Hmin Hlt Hguard L'.
    assert (HM : ok M) by (rewrite Forall_forall in Hok; apply Hok; eapply nth_opt_In; eauto).
    assert (Hm : ok m) by (rewrite Forall_forall in Hok; apply Hok; eapply nth_opt_In; eauto).
    assert (Hwok : ok w) by (rewrite Forall_forall in Hws; auto).
    assert (HmM : leW A m M) by (apply Hmin; eapply nth_opt_In; eauto).
    assert (Hg : ok (sub M m)) by (apply (rl_gap_ok A ok rank RL); auto).
    set (M' := sub M w) in *. set (m' := add m w) in *.
    assert (HM' : ok M') by (apply (rl_sub_ok A ok rank RL M m w); auto).
    assert (Hm' : ok m') by (apply (rl_add_ok A ok rank RL M m w); auto).
    assert (B1 : leW A M' M) by (apply (rl_sub_le A ok rank RL); auto).
    assert (B2 : leW A m M') by (apply (rl_within_sub A ok rank RL M m w); auto).
    assert (B3 : leW A m m') by (apply (rl_add_ge A ok rank RL); auto).
    assert (B4 : leW A m' M) by (apply (rl_within_add A ok rank RL M m w); auto).
    (* M <> m: otherwise w < M - M <= 0 <= w *)
    assert (Hneq : M <> m).
    { intro C. subst m. pose proof (rl_sub_self A ok rank RL M HM) as Z0. pose proof (rl_nonneg A ok rank RL w Hwok) as Z1.
      assert (ltb w (sub M M) = false).
      { apply (ltb_negtrans A ok OL w (w_zero A) (sub M M)); auto. apply (zero_ok A ok OL). }
      congruence. }
    assert (Hou : o <> u) by (intro; subst; rewrite Ho in Hu; injection Hu as ->; congruence).
    assert (Hu1 : nth_opt (set_nth L o M') u = Some m) by (rewrite nth_opt_set_nth_other; auto).
    assert (HL' : length L' = k) by (unfold L'; now rewrite !set_nth_length).
    assert (Hok' : Forall ok L') by (unfold L'; repeat apply Forall_set_nth; auto).
    assert (Hne : L <> []) by (intro C; rewrite C in Ho; destruct o; discriminate).
    assert (Hne' : L' <> []).
    { intro C. apply (f_equal (@length Wt)) in C. rewrite HL' in C. rewrite <- HL in C. destruct L; [congruence|discriminate]. }
    assert (EM : maxW L = M) by (apply max_unique; auto; eapply nth_opt_In; eauto).
    assert (Em : minW L = m) by (apply min_unique; auto; eapply nth_opt_In; eauto).
    (* every new load lies in [m, M] *)
    assert (Hin' : forall y, In y L' -> leW A m y /\ leW A y M).
    { intros y Hy. unfold L' in Hy. apply set_nth_In in Hy as [->|Hy]; [split; auto|].
      apply set_nth_In in Hy as [->|Hy]; [split; auto|]. split; auto. }
    destruct (maxW_spec L' Hne' Hok') as [MI MS]. destruct (minW_spec L' Hne' Hok') as [mI mS].
    assert (OkMx : ok (maxW L')) by (rewrite Forall_forall in Hok'; auto).
    assert (OkMn : ok (minW L')) by (rewrite Forall_forall in Hok'; auto).
    assert (LM : leW A (maxW L') M) by (apply Hin'; auto).
    assert (Lm : leW A m (minW L')) by (apply Hin'; auto).
    (* the counts *)
    assert (CM : forall x, cnt x L' = cnt x L - ind M x + ind M' x - ind m x + ind m' x).
    { intros x. unfold L'. rewrite (cnt_set_nth x _ u m' m Hu1), (cnt_set_nth x L o M' M Ho). lia. }
    assert (IndMm : ind M m = 0) by (unfold ind; destruct (eqb_spec_ok M m HM Hm); congruence).
    assert (IndmM : ind m M = 0) by (unfold ind; destruct (eqb_spec_ok m M Hm HM); congruence).
    assert (IndMM : ind M M = 1) by (unfold ind; now rewrite eqb_refl_ok).
    assert (Indmm : ind m m = 1) by (unfold ind; now rewrite eqb_refl_ok).
    assert (TB : forall L0, length L0 = k -> 0 <= compT L0).
    { intros L0 H0. unfold compT. pose proof (cnt_bounds (maxW L0) L0). destruct (dropQ _ _); lia. }
    split; [exact HL'|]. split; [exact Hok'|]. split; [exact Hou|].
    split; [|split; [apply TB; auto|split; [apply TB; auto|split; [now rewrite EM|now rewrite Em]]]].
    unfold lex4. rewrite EM, Em.
    destruct (ltb (maxW L') M) eqn:E1.
    { right. left. pose proof (rl_rank_mono A ok rank RL _ _ OkMx HM E1). lia. }
    assert (EM' : maxW L' = M) by (apply leW_antisym; auto).
    destruct (ltb m (minW L')) eqn:E2.
    { right. right. split; [exact EM'|]. left. apply (rl_rank_mono A ok rank RL); auto. }
    assert (Em' : minW L' = m) by (symmetry; apply leW_antisym; auto).
    (* same extremes: look at the two new values *)
    unfold compE, compT. rewrite EM', Em', EM, Em, !CM, IndMm, IndmM, IndMM, Indmm.
    assert (I1 : ind M' M + ind M' m <= 1).
    { unfold ind. destruct (eqb_spec_ok M' M HM' HM), (eqb_spec_ok M' m HM' Hm); try lia. congruence. }
    assert (I2 : ind m' M + ind m' m <= 1).
    { unfold ind. destruct (eqb_spec_ok m' M Hm' HM), (eqb_spec_ok m' m Hm' Hm); try lia. congruence. }
    assert (I0 : 0 <= ind M' M /\ 0 <= ind M' m /\ 0 <= ind m' M /\ 0 <= ind m' m) by (unfold ind; repeat split; destruct (eqb _ _); lia).
    destruct (Z.eq_dec (ind M' M + ind M' m + ind m' M + ind m' m) 2) as [E2'|NE].
    2:{ right. right. split; [reflexivity|]. right. split; [reflexivity|]. left. lia. }
    (* both new values are extreme *)
    assert (HM'c : M' = M \/ M' = m).
    { unfold ind in *. destruct (eqb_spec_ok M' M HM' HM); auto. destruct (eqb_spec_ok M' m HM' Hm); auto.
      destruct (eqb m' M), (eqb m' m); lia. }
    assert (Hm'c : m' = M \/ m' = m).
    { unfold ind in *. destruct (eqb_spec_ok m' M Hm' HM); auto. destruct (eqb_spec_ok m' m Hm' Hm); auto.
      destruct (eqb M' M), (eqb M' m); lia. }
    assert (IV : forall x y : Wt, ok x -> ok y -> x = y -> ind x y = 1) by (intros x y Hx Hy ->; unfold ind; now rewrite eqb_refl_ok).
    assert (IZ : forall x y : Wt, ok x -> ok y -> x <> y -> ind x y = 0) by (intros x y Hx Hy Hn; unfold ind; destruct (eqb_spec_ok x y Hx Hy); congruence).
    pose proof (cnt_bounds M L) as CB. rewrite HL in CB.
    destruct HM'c as [C1|C1], Hm'c as [C2|C2].
    - (* P: the lightest part jumps to the maximum, the heaviest one stays *)
      right. right. split; [reflexivity|]. right. split; [reflexivity|].
      rewrite (IV M' M), (IV m' M), (IZ M' m), (IZ m' m) by (auto; congruence).
      right. split; [lia|].
      destruct (dropQ M m) eqn:EQ; [|lia].
      exfalso. unfold dropQ in EQ. apply existsb_exists in EQ as [w' [Hw' Hq]].
      apply andb_true_iff in Hq as [Hq Q2]. apply andb_true_iff in Hq as [Q0 Q1].
      apply negb_true_iff in Q1, Q2.
      assert (Hw'ok : ok w') by (rewrite Forall_forall in Hws; auto).
      assert (Os : ok (sub M w')) by (apply (rl_sub_ok A ok rank RL M m w'); auto).
      assert (Oa : ok (add m w')) by (apply (rl_add_ok A ok rank RL M m w'); auto).
      apply Hneq. apply leW_antisym; auto.
      destruct (ltb w' w) eqn:Ew.
      + pose proof (rl_sub_anti A ok rank RL M w' w HM Hw'ok Hwok (ltb_leW w' w Hw'ok Hwok Ew)) as Hmon.
        fold M' in Hmon. rewrite C1 in Hmon. apply (leW_trans M (sub M w') m); auto.
      + pose proof (rl_add_mono A ok rank RL m w w' Hm Hwok Hw'ok Ew) as Hmon.
        fold m' in Hmon. rewrite C2 in Hmon. apply (leW_trans M (add m w') m); auto.
    - (* absorbed: nothing changed *)
      left. unfold L'. rewrite C1, C2. rewrite (set_nth_same L o M Ho). now apply set_nth_same.
    - (* swap: rejected by the progress test *)
      exfalso. rewrite C1, C2 in Hguard.
      assert (Hs : ltb m M = true) by (apply not_leW_ltb; auto; intro C; apply Hneq; apply leW_antisym; auto).
      rewrite Hs in Hguard. rewrite (ltb_irrefl A ok OL (sub M m) Hg) in Hguard. discriminate.
    - (* Q: the heaviest part drops to the minimum, the lightest one stays *)
      right. right. split; [reflexivity|]. right. split; [reflexivity|].
      rewrite (IZ M' M), (IZ m' M), (IV M' m), (IV m' m) by (auto; congruence).
      right. split; [lia|].
      destruct (dropQ M m) eqn:EQ; [lia|].
      exfalso. unfold dropQ in EQ.
      assert (EQ' : existsb (fun w0 => ltb w0 (sub M m) && negb (ltb m (sub M w0)) && negb (ltb m (add m w0))) ws = true).
      { apply existsb_exists. exists w. split; [exact Hw|].
        fold M' m'. rewrite Hlt, C1, C2. rewrite (ltb_irrefl A ok OL m Hm). reflexivity. }
      congruence.
  Qed.
End Measure.

(* ====================================================================== *)
(* Part 2: from the measure to the executable loop                          *)
(* ====================================================================== *)
From Coupe Require Import Model.NumPart Model.Vn Model.VnW.

Section Loop.
  Variable A : arith.
  Variable ok : W A -> Prop.
  Variable rank : W A -> Z.
  Hypothesis RL : round_laws A ok rank.
  Notation Wt := (W A).
  Notation ltb := (w_ltb A).
  Notation eqb := (w_eqb A).
  Notation add := (w_add A).
  Notation sub := (w_sub A).
  Let OL := rl_order A ok rank RL.

  (* ---------- positions of the extreme loads ---------- *)

  Lemma argmin_first_auxW_spec : forall l pre bi bv,
    Forall ok (pre ++ l) -> nth_opt (pre ++ l) bi = Some bv -> (forall x, In x pre -> leW A bv x) ->
    exists lm, nth_opt (pre ++ l) (argmin_first_auxW A bi bv (length pre) l) = Some lm
               /\ forall x, In x (pre ++ l) -> leW A lm x.
  Proof.
    induction l as [|y t IH]; intros pre bi bv Hok Hb Hpre; cbn [argmin_first_auxW].
    - exists bv. split; auto. rewrite app_nil_r. exact Hpre.
    - assert (Hbv : ok bv) by (rewrite Forall_forall in Hok; apply Hok; eapply nth_opt_In; eauto).
      assert (Hy : ok y) by (rewrite Forall_forall in Hok; apply Hok, in_or_app; right; now left).
      assert (Hpre_ok : forall x, In x pre -> ok x) by (intros x Hx; rewrite Forall_forall in Hok; apply Hok, in_or_app; now left).
      replace (pre ++ y :: t) with ((pre ++ [y]) ++ t) in * by (rewrite <- app_assoc; reflexivity).
      replace (S (length pre)) with (length (pre ++ [y])) by (rewrite app_length; cbn; lia).
      destruct (ltb y bv) eqn:E.
      + apply IH; auto.
        * rewrite <- app_assoc. cbn [app]. rewrite <- (Nat.add_0_r (length pre)), nth_opt_app_r. reflexivity.
        * intros x Hx. apply in_app_or in Hx as [Hx|[<-|[]]]; [|now apply (leW_refl A ok rank RL)].
          apply (leW_trans A ok rank RL y bv x); auto. now apply (ltb_leW A ok rank RL).
      + apply IH; auto. intros x Hx. apply in_app_or in Hx as [Hx|[<-|[]]]; auto.
  Qed.

  Lemma argmax_last_auxW_spec : forall l pre bi bv,
    Forall ok (pre ++ l) -> nth_opt (pre ++ l) bi = Some bv -> (forall x, In x pre -> leW A x bv) ->
    exists lm, nth_opt (pre ++ l) (argmax_last_auxW A bi bv (length pre) l) = Some lm
               /\ forall x, In x (pre ++ l) -> leW A x lm.
  Proof.
    induction l as [|y t IH]; intros pre bi bv Hok Hb Hpre; cbn [argmax_last_auxW].
    - exists bv. split; auto. rewrite app_nil_r. exact Hpre.
    - assert (Hbv : ok bv) by (rewrite Forall_forall in Hok; apply Hok; eapply nth_opt_In; eauto).
      assert (Hy : ok y) by (rewrite Forall_forall in Hok; apply Hok, in_or_app; right; now left).
      assert (Hpre_ok : forall x, In x pre -> ok x) by (intros x Hx; rewrite Forall_forall in Hok; apply Hok, in_or_app; now left).
      replace (pre ++ y :: t) with ((pre ++ [y]) ++ t) in * by (rewrite <- app_assoc; reflexivity).
      replace (S (length pre)) with (length (pre ++ [y])) by (rewrite app_length; cbn; lia).
      destruct (ltb y bv) eqn:E.
      + apply IH; auto. intros x Hx. apply in_app_or in Hx as [Hx|[<-|[]]]; auto.
        now apply (ltb_leW A ok rank RL).
      + apply IH; auto.
        * rewrite <- app_assoc. cbn [app]. rewrite <- (Nat.add_0_r (length pre)), nth_opt_app_r. reflexivity.
        * intros x Hx. apply in_app_or in Hx as [Hx|[<-|[]]]; [|now apply (leW_refl A ok rank RL)].
          apply (leW_trans A ok rank RL x bv y); auto.
  Qed.

  Lemma minmax_posW_spec L under over : Forall ok L -> minmax_posW A L = Some (under, over) ->
    exists lu lo, nth_opt L under = Some lu /\ nth_opt L over = Some lo
      /\ (forall x, In x L -> leW A lu x) /\ (forall x, In x L -> leW A x lo).
  Proof.
    destruct L as [|x t]; cbn [minmax_posW]; [discriminate|]. intros Hok H. injection H as <- <-.
    assert (Hx : ok x) by now inversion Hok.
    destruct (argmin_first_auxW_spec t [x] 0%nat x Hok eq_refl) as [lu [Hlu Hmin]].
    { intros y [<-|[]]. now apply (leW_refl A ok rank RL). }
    destruct (argmax_last_auxW_spec t [x] 0%nat x Hok eq_refl) as [lo [Hlo Hmax]].
    { intros y [<-|[]]. now apply (leW_refl A ok rank RL). }
    exists lu, lo. auto.
  Qed.

  (* ---------- the inner scan ---------- *)

  Lemma nearestW_spec : forall fuel crit p over t2 above below c,
    nearestW A fuel crit p over t2 above below = Ok (Some c) ->
    exists cc, nth_opt crit c = Some cc /\ nth_opt p (snd cc) = Some over.
  Proof.
    induction fuel as [|f IH]; intros crit p over t2 above below c H; cbn [nearestW] in H; [discriminate|].
    match type of H with
    | match ?pick with _ => _ end = _ => destruct pick as [[[c0 ia]|]| | |] eqn:Ep; try discriminate
    end.
    destruct (nth_opt crit c0) as [cc|] eqn:Ec; [|discriminate].
    destruct (nth_opt p (snd cc)) as [pc|] eqn:Epc; [|discriminate].
    destruct (N.eqb_spec pc over) as [->|Hne].
    - injection H as <-. exists cc. auto.
    - destruct ia; eapply IH; eauto.
  Qed.

  Lemma nearestW_fuel : forall fuel crit p over t2 above below,
    (match above with Some a => length crit - a | None => 0 end
     + match below with Some b => S b | None => 0 end < fuel)%nat ->
    (forall a, above = Some a -> (a < length crit)%nat) ->
    nearestW A fuel crit p over t2 above below <> OutOfFuel.
  Proof.
    induction fuel as [|f IH]; intros crit p over t2 above below Hm Ha; [lia|]. cbn [nearestW].
    assert (STEP : forall c ia,
      (ia = true -> above = Some c) -> (ia = false -> below = Some c) ->
      match nth_opt crit c with
      | Some cc =>
        match nth_opt p (snd cc) with
        | Some pc =>
          if (pc =? over)%N then Ok (Some c)
          else if ia : bool then nearestW A f crit p over t2 (if Nat.ltb (S c) (length crit) then Some (S c) else None) below
          else nearestW A f crit p over t2 above (match c with O => None | S c' => Some c' end)
        | None => Panic 2
        end
      | None => Panic 2
      end <> OutOfFuel).
    { intros c ia Hia Hib. destruct (nth_opt crit c) as [cc|]; [|discriminate].
      destruct (nth_opt p (snd cc)) as [pc|]; [|discriminate].
      destruct (pc =? over)%N; [discriminate|]. destruct ia.
      - rewrite (Hia eq_refl) in *. specialize (Ha c eq_refl). apply IH.
        + destruct (Nat.ltb_spec (S c) (length crit)); destruct below; lia.
        + intros a. destruct (Nat.ltb_spec (S c) (length crit)); [|discriminate]. intros E. injection E as <-. lia.
      - rewrite (Hib eq_refl) in *. apply IH; auto.
        destruct c as [|c']; destruct above; lia. }
    destruct above as [a|], below as [b|].
    - destruct (nth_opt crit a) as [ca|]; [|discriminate]. destruct (nth_opt crit b) as [cb|]; [|discriminate].
      destruct (ltb (sub (fst ca) t2) (sub t2 (fst cb))); [apply (STEP a true)|apply (STEP b false)]; auto; discriminate.
    - apply (STEP a true); auto; discriminate.
    - apply (STEP b false); auto; discriminate.
    - discriminate.
  Qed.

  Lemma count_ltW_le t2 crit : (count_ltW A t2 crit <= length crit)%nat.
  Proof. induction crit as [|x t IH]; cbn [count_ltW length]; [lia|]. destruct (ltb (fst x) t2); lia. Qed.

  (* one turn never answers OutOfFuel: the scan has fuel enough *)
  Lemma vb_stepW_not_oof crit st : vb_stepW A true crit st <> inr OutOfFuel.
  Proof.
    unfold vb_stepW. destruct st as [[p L] n].
    destruct (minmax_posW A L) as [[under over]|]; [|discriminate].
    destruct (nth_opt L over) as [lo|]; [|discriminate]. destruct (nth_opt L under) as [lu|]; [|discriminate].
    destruct (nearestW _ _ _ _ _ _ _ _) as [[c|]| | |] eqn:En; try discriminate.
    - destruct (nth_opt crit c) as [[w id]|]; [|discriminate].
      destruct (_ || _); [discriminate|]. destruct (_ && _); [discriminate|].
      destruct (Nat.ltb id (length p)); [|discriminate]. destruct (nth_opt _ under); discriminate.
    - exfalso. revert En. apply nearestW_fuel.
      + pose proof (count_ltW_le (w_half A (sub lo lu)) crit) as Hc.
        set (c := count_ltW A (w_half A (sub lo lu)) crit) in *.
        destruct (Nat.ltb_spec c (length crit)); destruct c; lia.
      + intros a. destruct (Nat.ltb_spec (count_ltW A (w_half A (sub lo lu)) crit) (length crit)); [|discriminate].
        intros Ea. injection Ea as <-. assumption.
  Qed.

  (* ---------- what a move is ---------- *)

  Variable ws : list Wt.
  Variable k : nat.
  Hypothesis ws_ok : Forall ok ws.
  Let crit := rev (sort_items_descW A (items_ofW A ws)).

  Lemma crit_in_ws cc : In cc crit -> In (fst cc) ws.
  Proof.
    intros H. unfold crit in H. apply in_rev in H.
    assert (P : Permutation (sort_items_descW A (items_ofW A ws)) (items_ofW A ws)).
    { clear. induction (items_ofW A ws) as [|x t IH]; cbn; auto.
      assert (Q : forall e l, Permutation (insert_descW A e l) (e :: l)).
      { clear. intros e l. induction l as [|y t IH]; cbn; auto. destruct (ltb_itemW A y e); auto. rewrite IH. apply perm_swap. }
      rewrite Q. now constructor. }
    apply (Permutation_in _ P) in H. unfold items_ofW in H. destruct cc as [w i]. cbn [fst].
    eapply in_combine_l; eauto.
  Qed.

  Definition VBW (st : vb_stateW A) : Prop :=
    let '(p, L, n) := st in
    length L = k /\ Forall ok L /\ Forall (fun x => (N.to_nat x < k)%nat) p.

  Lemma vb_stepW_move p L n p' L' n' : VBW (p, L, n) -> vb_stepW A true crit (p, L, n) = inl (p', L', n') ->
    exists under over id w lu lo,
      nth_opt L under = Some lu /\ nth_opt L over = Some lo
      /\ (forall x, In x L -> leW A lu x) /\ (forall x, In x L -> leW A x lo)
      /\ In w ws /\ nth_opt p id = Some (N.of_nat over) /\ (under < k)%nat
      /\ ltb w (sub lo lu) = true
      /\ (ltb (sub lo w) (add lu w) && negb (ltb (sub (add lu w) (sub lo w)) (sub lo lu))) = false
      /\ p' = set_nth p id (N.of_nat under)
      /\ L' = set_nth (set_nth L over (sub lo w)) under (add lu w).
  Proof.
    intros [HL [Hok Hp]] H. unfold vb_stepW in H.
    destruct (minmax_posW A L) as [[under over]|] eqn:Em; [|discriminate].
    destruct (minmax_posW_spec _ _ _ Hok Em) as [lu [lo [Hu [Ho [Hmin Hmax]]]]].
    rewrite Ho, Hu in H.
    destruct (nearestW _ _ _ _ _ _ _ _) as [[c|]| | |] eqn:En; try discriminate.
    destruct (nearestW_spec _ _ _ _ _ _ _ _ En) as [cc [Hcc Hpc]]. rewrite Hcc in H.
    destruct cc as [w id]. cbn [snd] in Hpc.
    destruct (w_leb A (sub lo lu) w || w_is_zero A w) eqn:Eb; [discriminate|].
    apply orb_false_iff in Eb as [E1 E2]. unfold w_leb in E1. apply orb_false_iff in E1 as [E1 E1'].
    cbn [andb] in H. destruct (vb_guardW A lo lu w (sub lo lu)) eqn:Eg; [discriminate|].
    destruct (Nat.ltb id (length p)); [|discriminate].
    assert (Hw : In w ws) by (apply (crit_in_ws (w, id)); eapply nth_opt_In; eauto).
    assert (Hwok : ok w) by (rewrite Forall_forall in ws_ok; auto).
    assert (Hlo : ok lo) by (rewrite Forall_forall in Hok; apply Hok; eapply nth_opt_In; eauto).
    assert (Hlu : ok lu) by (rewrite Forall_forall in Hok; apply Hok; eapply nth_opt_In; eauto).
    assert (Hg : ok (sub lo lu)).
    { apply (rl_gap_ok A ok rank RL); auto. apply Hmin. eapply nth_opt_In; eauto. }
    (* not (imbalance <= w) on ok values: w < imbalance *)
    assert (Hlt : ltb w (sub lo lu) = true).
    { destruct (ltb w (sub lo lu)) eqn:E; auto. exfalso.
      assert (w = sub lo lu) by (apply (ltb_tie_eq A ok OL); auto).
      subst w. rewrite (eqb_refl_ok A ok rank RL _ Hg) in E1'. discriminate. }
    assert (Hne : over <> under).
    { intro C. subst under. rewrite Ho in Hu. injection Hu as ->.
      pose proof (rl_sub_self A ok rank RL lu Hlu) as Z0. pose proof (rl_nonneg A ok rank RL w Hwok) as Z1.
      assert (ltb w (sub lu lu) = false).
      { apply (ltb_negtrans A ok OL w (w_zero A) (sub lu lu)); auto. apply (zero_ok A ok OL). }
      congruence. }
    rewrite nth_opt_set_nth_other, Hu in H by exact Hne.
    injection H as <- <- <-.
    exists under, over, id, w, lu, lo. repeat split; auto.
    apply nth_opt_Some in Hu. lia.
  Qed.

  (* ---------- the full measure ---------- *)

  Variable n0 : nat.      (* number of elements *)
  Variable R : Z.         (* rank of the largest initial load *)

  (* number of elements that sit in a part whose load is the maximum *)
  Fixpoint cntS (L : list Wt) (M : Wt) (p : list N) : Z :=
    match p with
    | [] => 0
    | q :: t => (match nth_opt L (N.to_nat q) with Some l => ind A l M | None => 0 end) + cntS L M t
    end.
  Lemma cntS_bounds L M p : 0 <= cntS L M p <= Z.of_nat (length p).
  Proof.
    induction p as [|q t IH]; cbn [cntS length]; [lia|].
    destruct (nth_opt L (N.to_nat q)); unfold ind; [destruct (eqb _ _)|]; lia.
  Qed.
  Lemma cntS_set_nth L M : forall p i v old, nth_opt p i = Some old ->
    cntS L M (set_nth p i v) = cntS L M p
      - (match nth_opt L (N.to_nat old) with Some l => ind A l M | None => 0 end)
      + (match nth_opt L (N.to_nat v) with Some l => ind A l M | None => 0 end).
  Proof.
    induction p as [|q t IH]; intros [|i] v old H; cbn in H; try discriminate.
    - injection H as ->. cbn [set_nth cntS]. lia.
    - cbn [set_nth cntS]. rewrite (IH i v old H). lia.
  Qed.

  Definition mu (st : vb_stateW A) : Z :=
    let '(p, L, _) := st in
    let kk := Z.of_nat k in
    ((((rank (maxW A L)) * (R + 1) + (R - rank (minW A L))) * (2 * kk + 1) + compE A L) * (kk + 1)
       + compT A ws k L) * (Z.of_nat n0 + 1) + cntS L (maxW A L) p.

  Definition INV (st : vb_stateW A) : Prop :=
    let '(p, L, _) := st in
    VBW st /\ length p = n0 /\ (1 <= k)%nat /\ rank (maxW A L) <= R.

  Lemma pair_lt x x' y y' B : 0 <= y <= B -> 0 <= y' <= B -> x' < x -> x' * (B + 1) + y' < x * (B + 1) + y.
  Proof. intros. nia. Qed.

  Lemma vb_stepW_decreases st st' : INV st -> vb_stepW A true crit st = inl st' -> INV st' /\ 0 <= mu st' < mu st.
  Proof.
    destruct st as [[p L] n], st' as [[p' L'] n']. intros [HV [Hn [Hk HR]]] H.
    destruct (vb_stepW_move _ _ _ _ _ _ HV H) as [under [over [id [w [lu [lo [Hu [Ho [Hmin [Hmax [Hw [Hp [Huk [Hlt [Hg [-> ->]]]]]]]]]]]]]]]].
    destruct HV as [HL [Hok Hpk]].
    destruct (move_decreases A ok rank RL ws k L over under lo lu w HL Hok ws_ok Hw Ho Hu Hmax Hmin Hlt Hg)
      as [HL' [Hok' [Hou [Hdec [T1 [T0 [LMx LMn]]]]]]].
    set (L2 := set_nth (set_nth L over (sub lo w)) under (add lu w)) in *.
    assert (Hne : L <> []) by (intro C; rewrite C in Ho; destruct over; discriminate).
    assert (Hne2 : L2 <> []) by (intro C; apply (f_equal (@length Wt)) in C; rewrite HL' in C; cbn in C; lia).
    destruct (maxW_spec A ok rank RL L Hne Hok) as [MI _]. destruct (minW_spec A ok rank RL L Hne Hok) as [mI _].
    destruct (maxW_spec A ok rank RL L2 Hne2 Hok') as [MI2 _]. destruct (minW_spec A ok rank RL L2 Hne2 Hok') as [mI2 MS2].
    assert (OkM : ok (maxW A L)) by (rewrite Forall_forall in Hok; auto).
    assert (Okm : ok (minW A L)) by (rewrite Forall_forall in Hok; auto).
    assert (OkM2 : ok (maxW A L2)) by (rewrite Forall_forall in Hok'; auto).
    assert (Okm2 : ok (minW A L2)) by (rewrite Forall_forall in Hok'; auto).
    pose proof (leW_rank A ok rank RL _ _ OkM2 OkM LMx) as RA.
    pose proof (leW_rank A ok rank RL _ _ Okm Okm2 LMn) as RB.
    pose proof (leW_rank A ok rank RL _ _ Okm2 OkM2 (MS2 _ MI2)) as RC.
    pose proof (rl_rank_nonneg A ok rank RL _ Okm) as R0. pose proof (rl_rank_nonneg A ok rank RL _ Okm2) as R02.
    assert (Hidp : (id < length p)%nat) by (eapply nth_opt_Some; eauto).
    split.
    - split; [|split; [now rewrite set_nth_length|split; [exact Hk|lia]]].
      split; [exact HL'|]. split; [exact Hok'|]. apply Forall_set_nth; auto. rewrite Nat2N.id. exact Huk.
    - unfold mu.
      set (kk := Z.of_nat k). set (nn := Z.of_nat n0).
      pose proof (cnt_bounds A (maxW A L) L) as C1. pose proof (cnt_bounds A (minW A L) L) as C2.
      pose proof (cnt_bounds A (maxW A L2) L2) as C3. pose proof (cnt_bounds A (minW A L2) L2) as C4.
      rewrite HL in C1, C2. rewrite HL' in C3, C4. fold kk in C1, C2, C3, C4.
      assert (E0 : 0 <= compE A L <= 2 * kk) by (unfold compE; lia).
      assert (E2 : 0 <= compE A L2 <= 2 * kk) by (unfold compE; lia).
      assert (TU : forall L0, length L0 = k -> compT A ws k L0 <= kk).
      { intros L0 H0. unfold compT. pose proof (cnt_bounds A (maxW A L0) L0) as B0. rewrite H0 in B0. fold kk in B0.
        destruct (dropQ A ws _ _); lia. }
      pose proof (TU L HL) as TU0. pose proof (TU L2 HL') as TU2.
      pose proof (cntS_bounds L (maxW A L) p) as S0. rewrite Hn in S0. fold nn in S0.
      pose proof (cntS_bounds L2 (maxW A L2) (set_nth p id (N.of_nat under))) as S2.
      rewrite set_nth_length, Hn in S2. fold nn in S2.
      set (a := rank (maxW A L)) in *. set (a2 := rank (maxW A L2)) in *.
      set (b := R - rank (minW A L)) in *. set (b2 := R - rank (minW A L2)).
      assert (Hb : 0 <= b <= R) by (unfold b; lia). assert (Hb2 : 0 <= b2 <= R) by (unfold b2; lia).
      assert (Ha2 : 0 <= a2) by (unfold a2; lia).
      set (e := compE A L) in *. set (e2 := compE A L2) in *.
      set (t := compT A ws k L) in *. set (t2 := compT A ws k L2) in *.
      set (s := cntS L (maxW A L) p) in *. set (s2 := cntS L2 (maxW A L2) (set_nth p id (N.of_nat under))) in *.
      assert (POS : 0 <= (((a2 * (R + 1) + b2) * (2 * kk + 1) + e2) * (kk + 1) + t2) * (nn + 1) + s2) by nia.
      split; [exact POS|].
      destruct Hdec as [Heq|Hlex].
      + (* absorbed: same loads, one element fewer in the parts at the maximum *)
        assert (s2 < s).
        { unfold s2, s. rewrite Heq. rewrite (cntS_set_nth L (maxW A L) p id (N.of_nat under) (N.of_nat over) Hp).
          rewrite !Nat2N.id, Ho, Hu.
          assert (EM : maxW A L = lo) by (apply (max_unique A ok rank RL); auto; eapply nth_opt_In; eauto).
          rewrite EM.
          assert (Hlo : ok lo) by (rewrite Forall_forall in Hok; apply Hok; eapply nth_opt_In; eauto).
          assert (Hlu : ok lu) by (rewrite Forall_forall in Hok; apply Hok; eapply nth_opt_In; eauto).
          unfold ind. rewrite (eqb_refl_ok A ok rank RL lo Hlo).
          destruct (eqb_spec_ok A ok rank RL lu lo Hlu Hlo) as [C|C]; [|lia].
          (* lu = lo: then w < lo - lo <= 0 <= w *)
          exfalso. subst lu. pose proof (rl_sub_self A ok rank RL lo Hlo) as Z0.
          assert (Hwok : ok w) by (rewrite Forall_forall in ws_ok; auto).
          pose proof (rl_nonneg A ok rank RL w Hwok) as Z1.
          assert (ltb w (sub lo lo) = false).
          { apply (ltb_negtrans A ok OL w (w_zero A) (sub lo lo)); auto. apply (zero_ok A ok OL).
            apply (rl_gap_ok A ok rank RL); auto. apply (leW_refl A ok rank RL); auto. }
          congruence. }
        assert (Ea : a2 = a) by (unfold a2, a; now rewrite Heq).
        assert (Eb : b2 = b) by (unfold b2, b; now rewrite Heq).
        assert (Ee : e2 = e) by (unfold e2, e; now rewrite Heq).
        assert (Et : t2 = t) by (unfold t2, t; now rewrite Heq).
        rewrite Ea, Eb, Ee, Et. lia.
      + unfold lex4 in Hlex. fold a a2 e e2 t t2 in Hlex.
        apply pair_lt; [lia|lia|].
        destruct Hlex as [Hl|[EqM Hlex]].
        * apply pair_lt; [lia|lia|]. apply pair_lt; [lia|lia|]. apply pair_lt; [lia|lia|]. exact Hl.
        * assert (a2 = a) by (unfold a2, a; now rewrite EqM). subst a2.
          destruct Hlex as [Hl|[Eqm Hlex]].
          -- apply pair_lt; [lia|lia|]. apply pair_lt; [lia|lia|]. unfold b2, b. 
             assert (rank (minW A L) < rank (minW A L2)) by exact Hl. lia.
          -- assert (b2 = b) by (unfold b2, b; now rewrite Eqm). rewrite H0.
             destruct Hlex as [Hl|[Eqe Hl]].
             ++ apply pair_lt; [lia|lia|]. lia.
             ++ rewrite Eqe. lia.
  Qed.

  (* ---------- termination of the loop ---------- *)

  Theorem vb_loopW_terminates : forall p L, INV (p, L, 0%N) ->
    forall fuel, mu (p, L, 0%N) < Z.of_nat fuel ->
    exists r, iter_nat (vb_stepW A true crit) fuel (p, L, 0%N) = inr r /\ r <> OutOfFuel.
  Proof.
    intros p L HI fuel Hf.
    assert (H0 : 0 <= mu (p, L, 0%N)).
    { destruct HI as [[HL [Hok Hpk]] [Hn [Hk HR]]].
      assert (Hne : L <> []) by (intro C; rewrite C in HL; cbn in HL; lia).
      destruct (maxW_spec A ok rank RL L Hne Hok) as [MI MS]. destruct (minW_spec A ok rank RL L Hne Hok) as [mI mS].
      assert (OkM : ok (maxW A L)) by (rewrite Forall_forall in Hok; auto).
      assert (Okm : ok (minW A L)) by (rewrite Forall_forall in Hok; auto).
      pose proof (leW_rank A ok rank RL _ _ Okm OkM (MS _ mI)).
      pose proof (rl_rank_nonneg A ok rank RL _ Okm). pose proof (rl_rank_nonneg A ok rank RL _ OkM).
      pose proof (cnt_bounds A (maxW A L) L) as C1. pose proof (cnt_bounds A (minW A L) L) as C2.
      pose proof (cntS_bounds L (maxW A L) p) as S0.
      assert (0 <= compT A ws k L).
      { unfold compT. rewrite HL in C1. destruct (dropQ A ws _ _); lia. }
      unfold mu. unfold compE at 1.
      set (b := R - rank (minW A L)). assert (Hb : 0 <= b) by (unfold b; lia). clearbody b.
      repeat (apply Z.add_nonneg_nonneg || apply Z.mul_nonneg_nonneg); lia. }
    destruct (iter_nat_term (vb_stepW A true crit) INV mu) with (n := fuel) (s := (p, L, 0%N)) as [r Hr]; auto.
    - intros s s' Hs E. apply vb_stepW_decreases; auto.
    - exists r. split; [exact Hr|].
      destruct (iter_nat_inv (vb_stepW A true crit) (fun _ => True) (fun _ _ _ _ => I) _ _ _ I Hr) as [s1 [_ E]].
      intro C. subst r. exact (vb_stepW_not_oof crit s1 E).
  Qed.
End Loop.

(* ====================================================================== *)
(* Part 3: the entry point, and the two instances                           *)
(* ====================================================================== *)

Section Entry.
  Variable A : arith.
  Variable ok : W A -> Prop.
  Variable rank : W A -> Z.
  Hypothesis RL : round_laws A ok rank.
  Notation Wt := (W A).
  Let OL := rl_order A ok rank RL.

  (* the initial part loads: their length needs no law; that they are admitted values ("the sums do not
     overflow") follows from closure of + where it holds (integers), and is a premise otherwise *)
  Lemma fold_loadW_len : forall (ws : list Wt) (p : list N) acc L,
    fold_loadW A ws p acc = Ok L -> length L = length acc.
  Proof.
    induction ws as [|w ws IH]; intros [|x p] acc L H; cbn [fold_loadW] in H; try (injection H as <-; auto).
    destruct (nth_opt acc (N.to_nat x)) as [a|]; [|discriminate].
    apply IH in H. now rewrite set_nth_length in H.
  Qed.
  Lemma zip_addW_len : forall l r : list Wt, length (zip_addW A l r) = length l.
  Proof. induction l as [|x l IH]; intros [|y r]; cbn [zip_addW length]; auto. Qed.
  Lemma parts_loadW_len ws p k L : parts_loadW A ws p k = Ok L -> length L = k.
  Proof.
    intros H. unfold parts_loadW in H. destruct (Nat.ltb _ 2).
    - apply fold_loadW_len in H. now rewrite repeat_length in H.
    - destruct (fold_loadW A (firstn _ ws) _ _) as [l| | |] eqn:E1; cbn [bind] in H; try discriminate.
      destruct (fold_loadW A (skipn _ _) _ _) as [r| | |] eqn:E2; cbn [bind] in H; try discriminate.
      injection H as <-. rewrite zip_addW_len. apply fold_loadW_len in E1. now rewrite repeat_length in E1.
  Qed.

  Section Closed.
  Hypothesis AC : add_closed A ok.

  Lemma fold_loadW_ok : forall (ws : list Wt) (p : list N) acc L, Forall ok ws -> Forall ok acc ->
    fold_loadW A ws p acc = Ok L -> length L = length acc /\ Forall ok L.
  Proof.
    induction ws as [|w ws IH]; intros [|x p] acc L Hw Ha H; cbn [fold_loadW] in H; try (injection H as <-; auto).
    destruct (nth_opt acc (N.to_nat x)) as [a|] eqn:E; [|discriminate].
    inversion Hw as [|? ? Hw0 Hwt]; subst.
    assert (Hok_a : ok a) by (rewrite Forall_forall in Ha; apply Ha; eapply nth_opt_In; eauto).
    destruct (IH p _ L Hwt (Forall_set_nth ok acc (N.to_nat x) _ Ha (AC a w Hok_a Hw0)) H) as [H1 H2].
    rewrite set_nth_length in H1. auto.
  Qed.

  Lemma zip_addW_ok : forall l r : list Wt, Forall ok l -> Forall ok r ->
    length (zip_addW A l r) = length l /\ Forall ok (zip_addW A l r).
  Proof.
    induction l as [|x l IH]; intros [|y r] Hl Hr; cbn [zip_addW length]; auto.
    inversion Hl as [|? ? Hx Hl']; subst. inversion Hr as [|? ? Hy Hr']; subst. destruct (IH r Hl' Hr') as [E1 E2]. split; [lia|].
    constructor; auto.
  Qed.

  Lemma In_firstn_l (l : list Wt) : forall n x, In x (firstn n l) -> In x l.
  Proof.
    induction l as [|y t IH]; intros [|n] x; cbn [firstn In]; try tauto.
    intros [->|H]; [now left|right; eapply IH; eauto].
  Qed.
  Lemma In_skipn_l (l : list Wt) : forall n x, In x (skipn n l) -> In x l.
  Proof.
    induction l as [|y t IH]; intros [|n] x; cbn [skipn In]; try tauto.
    intros H. right. eapply IH; eauto.
  Qed.
  Lemma Forall_firstn_ok (l : list Wt) n : Forall ok l -> Forall ok (firstn n l).
  Proof. intros H. rewrite Forall_forall in *. intros x Hx. apply H. eapply In_firstn_l; eauto. Qed.
  Lemma Forall_skipn_ok (l : list Wt) n : Forall ok l -> Forall ok (skipn n l).
  Proof. intros H. rewrite Forall_forall in *. intros x Hx. apply H. eapply In_skipn_l; eauto. Qed.

  Lemma parts_loadW_ok ws p k L : Forall ok ws -> parts_loadW A ws p k = Ok L -> length L = k /\ Forall ok L.
  Proof.
    intros Hw H. unfold parts_loadW in H.
    assert (Hz : Forall ok (repeat (w_zero A) k)).
    { apply Forall_forall. intros x Hx. apply repeat_spec in Hx. subst. apply (zero_ok A ok OL). }
    destruct (Nat.ltb (Nat.min (length ws) (length p)) 2).
    - destruct (fold_loadW_ok _ _ _ _ Hw Hz H) as [H1 H2]. rewrite repeat_length in H1. auto.
    - destruct (fold_loadW A (firstn _ ws) _ _) as [l| | |] eqn:E1; cbn [bind] in H; try discriminate.
      destruct (fold_loadW A (skipn _ _) _ _) as [r| | |] eqn:E2; cbn [bind] in H; try discriminate.
      injection H as <-.
      destruct (fold_loadW_ok _ _ _ _ (Forall_firstn_ok _ _ Hw) Hz E1) as [A1 A2].
      destruct (fold_loadW_ok _ _ _ _ (Forall_skipn_ok _ _ (Forall_firstn_ok _ _ Hw)) Hz E2) as [B1 B2].
      destruct (zip_addW_ok l r A2 B2) as [C1 C2]. rewrite repeat_length in A1. split; [lia|exact C2].
  Qed.

  End Closed.

  Lemma fold_loadW_not_oof : forall (ws : list Wt) (p : list N) acc, fold_loadW A ws p acc <> OutOfFuel.
  Proof.
    induction ws as [|w ws IH]; intros [|x p] acc; cbn [fold_loadW]; try discriminate.
    destruct (nth_opt acc (N.to_nat x)); [apply IH|discriminate].
  Qed.
  Lemma parts_loadW_not_oof ws p k : parts_loadW A ws p k <> OutOfFuel.
  Proof.
    unfold parts_loadW. destruct (Nat.ltb _ 2); [apply fold_loadW_not_oof|].
    destruct (fold_loadW A (firstn _ ws) _ _) as [l| | |] eqn:E1; cbn [bind]; try discriminate.
    - destruct (fold_loadW A (skipn _ _) _ _) as [r| | |] eqn:E2; cbn [bind]; try discriminate.
      exfalso. exact (fold_loadW_not_oof _ _ _ E2).
    - exfalso. exact (fold_loadW_not_oof _ _ _ E1).
  Qed.

  (* VnBest with the progress test never runs out of fuel once the fuel exceeds the measure of the
     initial state: the bound is symbolic and huge (about rank(max load)^2 * k^2 * n) *)
  Theorem vn_bestW_terminates : forall ws p, Forall ok ws ->
    (forall L, parts_loadW A ws p (part_count p) = Ok L -> Forall ok L) ->
    exists fuel0, forall fuel, (fuel0 <= fuel)%nat -> vn_bestW A true fuel ws p <> OutOfFuel.
  Proof.
    intros ws p Hw HL0. unfold vn_bestW. set (k := part_count p).
    destruct (negb (Nat.eqb (length ws) (length p))); [exists 0%nat; discriminate|].
    destruct (existsb _ ws); [exists 0%nat; discriminate|].
    destruct (Nat.eqb (length p) 0 || forallb (w_is_zero A) ws || Nat.ltb k 2) eqn:Ee; [exists 0%nat; discriminate|].
    apply orb_false_iff in Ee as [_ Ek]. apply Nat.ltb_ge in Ek.
    destruct (parts_loadW A ws p k) as [L| | |] eqn:EL; cbn [bind]; try (exists 0%nat; discriminate);
      [|exfalso; exact (parts_loadW_not_oof _ _ _ EL)].
    pose proof (parts_loadW_len ws p k L EL) as HL. pose proof (HL0 L EL) as Hok.
    set (R := rank (maxW A L)).
    assert (HI : INV A ok rank k (length p) R (p, L, 0%N)).
    { split; [|split; [reflexivity|split; [lia|unfold R; lia]]].
      split; [exact HL|]. split; [exact Hok|].
      apply Forall_forall. intros x Hx. apply maxN_ge in Hx. unfold k, part_count. lia. }
    exists (S (Z.to_nat (mu A rank ws k (length p) R (p, L, 0%N)))). intros fuel Hf.
    destruct (vb_loopW_terminates A ok rank RL ws k Hw (length p) R p L HI fuel) as [r [Hr Hne]].
    - destruct (Z.le_gt_cases 0 (mu A rank ws k (length p) R (p, L, 0%N))); lia.
    - rewrite Hr. exact Hne.
  Qed.
End Entry.

(* ---------------- the integers satisfy the laws ---------------- *)

Definition okZnn (x : Z) : Prop := 0 <= x.

Lemma Z_round_laws : round_laws Zarith okZnn (fun x => x).
Proof.
  constructor; unfold okZnn, leW; cbn [Zarith W w_ltb w_add w_sub w_zero]; intros;
    repeat match goal with
           | H : (_ <? _) = true |- _ => apply Z.ltb_lt in H
           | H : (_ <? _) = false |- _ => apply Z.ltb_ge in H
           end; try (apply Z.ltb_ge); try lia.
  constructor; cbn [Zarith W w_ltb w_eqb w_zero]; intros;
    repeat match goal with
           | H : (_ <? _) = true |- _ => apply Z.ltb_lt in H
           | H : (_ <? _) = false |- _ => apply Z.ltb_ge in H
           end; try (apply Z.ltb_ge); try (apply Z.ltb_irrefl); try lia.
Qed.

(* VnBest (with the progress test) on non-negative integers, in the generic model with plain fuel *)
Theorem vn_bestW_Z_terminates : forall ws p, Forall (fun w => 0 <= w) ws ->
  exists fuel0, forall fuel, (fuel0 <= fuel)%nat -> vn_bestW Zarith true fuel ws p <> OutOfFuel.
Proof.
  intros ws p Hw. apply (vn_bestW_terminates Zarith okZnn (fun x => x) Z_round_laws ws p Hw).
  intros L HL. apply (parts_loadW_ok Zarith okZnn (fun x => x) Z_round_laws) with (ws := ws) (p := p) (k := part_count p); auto.
  intros x y Hx Hy. unfold okZnn in *. cbn. lia.
Qed.

(* ---------------- binary64 ---------------- *)
From Coupe Require Import Lib.SFloat.
From Coq Require Import Floats.SpecFloat.

(* the admitted values: +0 and the positive FINITE binary64 numbers (mantissa below 2^53, exponent in range) *)
Definition okV0 (x : spec_float) : Prop :=
  match x with
  | S754_zero s => s = false
  | S754_finite s m e => s = false /\ Zpos m < 2 ^ 53 /\ -1074 <= e <= 971
  | _ => False
  end.
(* ... in their canonical representation (what f64_of_bits produces and the operations return) *)
Definition okV (x : spec_float) : Prop := valid_binary 53 1024 x = true /\ okV0 x.

(* their position in the order, as an integer: the order of the values is the order of (exponent, mantissa) *)
Definition rankV (x : spec_float) : Z :=
  match x with
  | S754_finite _ m e => 1 + (e + 1074) * 2 ^ 53 + Zpos m
  | _ => 0
  end.

Lemma okV0_okF x : okV0 x -> okF x.
Proof. destruct x; cbn; tauto. Qed.
Lemma okV_okF x : okV x -> okF x.
Proof. intros [_ H]. now apply okV0_okF. Qed.

Lemma F64_order_laws_V : order_laws F64arith okV.
Proof.
  pose proof F64_order_laws as [L1 L2 L3 L4 L5 L6].
  constructor.
  - intros x Hx. apply L1. now apply okV_okF.
  - intros x y Hx Hy. apply L2; now apply okV_okF.
  - intros x y z Hx Hy Hz. apply L3; now apply okV_okF.
  - intros x y Hx Hy. apply L4; now apply okV_okF.
  - intros x y Hx Hy. apply L5; now apply okV_okF.
  - split; reflexivity.
Qed.

Lemma rankV_nonneg x : okV x -> 0 <= rankV x.
Proof. intros [_ H]. revert H. destruct x as [s|s| |s m e]; cbn [okV0 rankV]; lia. Qed.

Lemma rankV_mono x y : okV x -> okV y -> SFltb x y = true -> rankV x < rankV y.
Proof.
  intros Hx Hy H. apply (SFltb_rank x y (okV_okF x Hx) (okV_okF y Hy)) in H.
  destruct Hx as [_ Hx], Hy as [_ Hy].
  destruct x as [sx|sx| |sx mx ex], y as [sy|sy| |sy my ey]; cbn [okV0 rankV rankF lex3] in *; try tauto; try lia.
Qed.

Lemma okV_nonneg x : okV x -> SFltb x (S754_zero false) = false.
Proof.
  intros [_ H]. revert H.
  destruct x as [s|s| |s m e]; cbn [okV0]; try tauto; intros H; try (destruct H as [H _]); subst; reflexivity.
Qed.

(* the IEEE-754 facts about rounded + and - on those values that the termination proof uses; they are
   NOT proved here for SpecFloat's SFadd / SFsub (monotonicity of round-to-nearest, no NaN, no -0.0) *)
Record f64_rounding_facts : Prop := {
  ff_add_ge : forall x w, okV x -> okV w -> SFltb (f64_add x w) x = false;
  ff_sub_le : forall x w, okV x -> okV w -> SFltb x (f64_sub x w) = false;
  ff_within_sub : forall M m w, okV M -> okV m -> okV w -> SFltb w (f64_sub M m) = true -> SFltb (f64_sub M w) m = false;
  ff_within_add : forall M m w, okV M -> okV m -> okV w -> SFltb w (f64_sub M m) = true -> SFltb M (f64_add m w) = false;
  ff_add_mono : forall x w w', okV x -> okV w -> okV w' -> SFltb w' w = false -> SFltb (f64_add x w') (f64_add x w) = false;
  ff_sub_anti : forall x w w', okV x -> okV w -> okV w' -> SFltb w' w = false -> SFltb (f64_sub x w) (f64_sub x w') = false;
  ff_add_ok : forall M m w, okV M -> okV m -> okV w -> SFltb w (f64_sub M m) = true -> okV (f64_add m w);
  ff_sub_ok : forall M m w, okV M -> okV m -> okV w -> SFltb w (f64_sub M m) = true -> okV (f64_sub M w);
  ff_gap_ok : forall M m, okV M -> okV m -> SFltb M m = false -> okV (f64_sub M m);
  ff_sub_self : forall x, okV x -> SFltb (S754_zero false) (f64_sub x x) = false
}.

Lemma F64_round_laws : f64_rounding_facts -> round_laws F64arith okV rankV.
Proof.
  intros [F1 F2 F3 F4 F5 F6 F7 F8 F9 F10].
  constructor; unfold leW; cbn [F64arith W w_ltb w_add w_sub w_zero]; auto.
  - apply F64_order_laws_V.
  - apply rankV_nonneg.
  - apply rankV_mono.
  - apply okV_nonneg.
Qed.

(* VnBest with the progress test on finite non-negative binary64 weights whose initial part loads are finite:
   it never runs out of fuel beyond a (huge) bound -- given the rounding facts above *)
Theorem vn_bestW_f64_terminates : f64_rounding_facts ->
  forall ws p, Forall okV ws ->
  (forall L, parts_loadW F64arith ws p (part_count p) = Ok L -> Forall okV L) ->
  exists fuel0, forall fuel, (fuel0 <= fuel)%nat -> vn_bestW F64arith true fuel ws p <> OutOfFuel.
Proof. intros FF. exact (vn_bestW_terminates F64arith okV rankV (F64_round_laws FF)). Qed.

(* the tracked imbalance alone does not decrease strictly: 1e16 0.25 0.25 0.25 with parts 0 0 0 1.  The
   weight 0.25 moves (1e16 - 0.25 = 1e16: absorbed above; 0.25 + 0.25 = 0.5 below), the largest load, the
   number of parts holding it and the imbalance 1e16 - 0.5 = 1e16 all stay what they were. *)
Example vnbest_f64_imbalance_not_strict :
  let ws := map (fun b => f64_of_bits b) [4846369599423283200; 4598175219545276416; 4598175219545276416; 4598175219545276416]%N in
  let crit := rev (sort_items_descW F64arith (items_ofW F64arith ws)) in
  exists L L' p',
    parts_loadW F64arith ws [0; 0; 0; 1]%N 2 = Ok L
    /\ vb_stepW F64arith true crit ([0; 0; 0; 1]%N, L, 0%N) = inl (p', L', 1%N)
    /\ p' <> [0; 0; 0; 1]%N
    /\ maxW F64arith L' = maxW F64arith L
    /\ f64_sub (maxW F64arith L') (minW F64arith L') = f64_sub (maxW F64arith L) (minW F64arith L).
Proof.
  cbv zeta. eexists _, _, _. split; [vm_compute; reflexivity|]. split; [vm_compute; reflexivity|].
  split; [discriminate|]. split; vm_compute; reflexivity.
Qed.

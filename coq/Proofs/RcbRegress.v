(* Regression witnesses for C04: the balance statement is FALSE of the cut
   search under its earlier variants -- the three stop rules of the pinned
   tree (before 40af1ed) and the three float-edge defects repaired by 241da30,
   a287019, 6449881.  Each witness satisfies the hypotheses of search_post
   (finite coordinates, non-negative weights, true total, box = min/max of the
   points) and is evaluated by vm_compute on the faithful model. *)
From Coupe Require Import Lib.Prelude Lib.SFloat Model.Rcb Proofs.SFOrder Proofs.RcbProofs
  Proofs.RcbInst Proofs.RcbBalance Proofs.RcbBalInst.
From Coq Require Import Floats.SpecFloat.
Open Scope Z_scope.

Definition awl (xs : list (keyed spec_float)) : list (spec_float * Z) := map (fun x => (fst x, wt (snd x))) xs.

(* the two sides the reordering produces are balanced *)
Definition sides_balanced (tol : spec_float) (xs : list (keyed spec_float)) (sr : split_res spec_float) : Prop :=
  match sr with
  | AllLeft _ => balanced_or_bracket spec_float flt (tol_test tol) (awl xs) []
  | SplitAt i _ _ _ =>
    exists p, nth_opt xs i = Some p
      /\ balanced_or_bracket spec_float flt (tol_test tol)
           (filter (fun q => flt (fst q) (fst p)) (awl xs)) (filter (fun q => negb (flt (fst q) (fst p))) (awl xs))
  end.

Definition search_v (v : variant) (fuel : nat) (tol : spec_float) (xs : list (keyed spec_float)) (mn mx : spec_float) :=
  search spec_float flt fle (f32_mid (v_safe_mid v)) f32_sub f32_add f32_zero f32_inf (tol_test tol)
         (v_old v) (v_by_coord v) (v_probe_max v) fuel (fun _ => SLeaf) 0 xs (sumZ (map snd (awl xs))) mn mx None.

(* hypotheses of search_post, as a boolean: finite coordinates and bounds,
   non-negative weights, every point inside [mn, mx] *)
Definition pre (xs : list (keyed spec_float)) (mn mx : spec_float) : bool :=
  f32_fin mn && f32_fin mx
  && forallb (fun q => f32_fin (fst q) && (0 <=? snd q) && negb (flt (fst q) mn) && negb (flt mx (fst q))) (awl xs).

Definition refuted (v : variant) : Prop :=
  exists fuel tol xs mn mx sr, pre xs mn mx = true /\ search_v v fuel tol xs mn mx = Ok sr /\ ~ sides_balanced tol xs sr.

Lemma pre_vaw xs mn mx : pre xs mn mx = true -> vaw spec_float f32v (awl xs).
Proof.
  unfold pre. intros H. apply andb_true_iff in H. destruct H as [_ H]. apply vawb_sound. unfold vawb.
  rewrite forallb_forall in *. intros q Hq. specialize (H q Hq).
  apply andb_true_iff in H. destruct H as [H _]. apply andb_true_iff in H. destruct H as [H _].
  apply andb_true_iff in H. destruct H as [A B]. rewrite (fin_valid32 _ A), B. reflexivity.
Qed.

Lemma split_check_refutes v fuel tol xs mn mx :
  pre xs mn mx = true -> split_check v fuel tol xs mn mx = Some false -> refuted v.
Proof.
  intros Hpre H. exists fuel, tol, xs, mn, mx. unfold split_check in H. fold (awl xs) in H. fold (search_v v fuel tol xs mn mx) in H.
  pose proof (pre_vaw xs mn mx Hpre) as Hv.
  destruct (search_v v fuel tol xs mn mx) as [[i wl pos why|pos]|e|s|]; try discriminate.
  - destruct (nth_opt xs i) as [p|] eqn:Ep; [|discriminate]. inversion H as [Hc]. clear H.
    eexists. split; [exact Hpre|]. split; [reflexivity|]. intros (p' & Hp' & Hb). rewrite Ep in Hp'. inversion Hp'; subst p'.
    apply (check_split32_iff tol) in Hb; [congruence| |]; apply (vaw_filter spec_float f32v); exact Hv.
  - inversion H as [Hc]. clear H. eexists. split; [exact Hpre|]. split; [reflexivity|]. intros Hb.
    apply (check_split32_iff tol) in Hb; [congruence|exact Hv|constructor].
Qed.

(* ---- inputs ---- *)
Definition mkxs (cs : list spec_float) (ws : list Z) : list (keyed spec_float) :=
  map (fun '(i, (c, w)) => (c, mkitem (N.of_nat i) [c] w)) (combine (seq 0 (length cs)) (combine cs ws)).
Definition zs (l : list Z) : list spec_float := map (fun z => f32_of_Z z) l.
Definition tol005 : spec_float := f64_of_bits 4587366580439587226%N.   (* 0.05 *)

Definition v_pinned : variant := mkvariant true false false false false.       (* before 40af1ed *)
Definition v_dist : variant := mkvariant false false false false false.        (* 40af1ed .. before 241da30 *)
Definition v_noprobe : variant := mkvariant false true false false false.      (* 241da30, before a287019 *)
Definition v_unsafe_mid : variant := mkvariant false true true false false.    (* a287019, before 6449881 *)

(* 1. `count_left == prev_count_left`: 0,16,..,20 stops at 1 | 5 although 3 | 3 exists *)
Lemma rcb_c04_refuted_1 : refuted v_pinned.
Proof.
  apply (split_check_refutes v_pinned 400 tol005 (mkxs (zs [0;16;17;18;19;20]) [1;1;1;1;1;1]) (f32_of_Z 0) (f32_of_Z 20));
    vm_compute; reflexivity.
Qed.

(* 2. `max <= target + nearest` although the cut must move left: 0,1,2,3,4,20 stops at 5 | 1 *)
Lemma rcb_c04_refuted_2 : refuted v_pinned.
Proof.
  apply (split_check_refutes v_pinned 400 tol005 (mkxs (zs [0;1;2;3;4;20]) [1;1;1;1;1;1]) (f32_of_Z 0) (f32_of_Z 20));
    vm_compute; reflexivity.
Qed.

(* 3. two `all points on the left` probes: the cluster 0..3 inside the loose
   box [0, 2003] inherited from its parent is not split at all (4 | 0) *)
Lemma rcb_c04_refuted_3 : refuted v_pinned.
Proof.
  apply (split_check_refutes v_pinned 400 tol005 (mkxs (zs [0;1;2;3]) [1;1;1;1]) (f32_of_Z 0) (f32_of_Z 2003));
    vm_compute; reflexivity.
Qed.

(* 4. pivot by ROUNDED distance: 1 - t = 2 - t in binary32 for t = -2^30, the
   farther point (2) is the pivot: x = [-2^31 (w 21), 2 (w 9), 1 (w 10)] is counted
   21 | 19 (within 5 %) but cut 31 | 9, and the children inherit the wrong totals *)
Lemma rcb_c04_refuted_dist_tie : refuted v_dist.
Proof.
  apply (split_check_refutes v_dist 400 tol005 (mkxs (zs [-2147483648; 2; 1]) [21;9;10]) (f32_of_Z (-2147483648)) (f32_of_Z 2));
    vm_compute; reflexivity.
Qed.

(* 5. exhausted interval probed at the rounded midpoint (= min): the points
   at 1.0 stay on the high side with the heavy group at nextafter(1.0): 1 | 11 where 2 | 10 exists *)
Definition one32 : spec_float := f32_of_bits 1065353216%N.
Definition one32_up : spec_float := f32_of_bits 1065353217%N.
Lemma rcb_c04_refuted_adjacent : refuted v_noprobe.
Proof.
  apply (split_check_refutes v_noprobe 400 tol005 (mkxs [f32_of_Z 0; one32; one32_up] [1;1;10]) (f32_of_Z 0) one32_up);
    vm_compute; reflexivity.
Qed.

(* 6. `(min + max) / 2` overflows: five points above f32::MAX / 2 are cut 4 | 1 *)
Definition huge (k : Z) : spec_float := f64_to_f32 (f64_of_Z (k * 10 ^ 37)).
Lemma rcb_c04_refuted_overflow : refuted v_unsafe_mid.
Proof.
  apply (split_check_refutes v_unsafe_mid 400 tol005 (mkxs [huge 20; huge 23; huge 26; huge 29; huge 32] [1;1;1;1;1]) (huge 20) (huge 32));
    vm_compute; reflexivity.
Qed.

(* the same inputs are split correctly by the search at HEAD *)
Example head_repairs_all :
  map (fun '(xs, mn, mx) => split_check head_variant 400 tol005 xs mn mx)
    [ (mkxs (zs [0;16;17;18;19;20]) [1;1;1;1;1;1], f32_of_Z 0, f32_of_Z 20);
      (mkxs (zs [0;1;2;3;4;20]) [1;1;1;1;1;1], f32_of_Z 0, f32_of_Z 20);
      (mkxs (zs [0;1;2;3]) [1;1;1;1], f32_of_Z 0, f32_of_Z 2003);
      (mkxs (zs [-2147483648; 2; 1]) [21;9;10], f32_of_Z (-2147483648), f32_of_Z 2);
      (mkxs [f32_of_Z 0; one32; one32_up] [1;1;10], f32_of_Z 0, one32_up);
      (mkxs [huge 20; huge 23; huge 26; huge 29; huge 32] [1;1;1;1;1], huge 20, huge 32) ]
  = [Some true; Some true; Some true; Some true; Some true; Some true].
Proof. vm_compute. reflexivity. Qed.

(* ---------- beyond the binary32 range (code at HEAD) ----------
   A finite f64 coordinate above f32::MAX becomes +inf (below -f32::MAX: -inf)
   by `as f32`.  The points that share the image +inf form one group of equal
   binary32 coordinate like any other (flt is a strict weak order on all
   non-NaN values), so balanced_or_bracket keeps its meaning.  It is FALSE of
   the search at HEAD on such inputs: the box bound is infinite, `min/2 + max/2`
   is +-inf or NaN, the interval counts as exhausted at once and the only
   probe is made at max; a point at +inf can never be the pivot (the fold
   starts from nearest_coord = +inf with a strict `<`). *)
Definition pre_nonnan (xs : list (keyed spec_float)) (mn mx : spec_float) : bool :=
  f32v mn && f32v mx
  && forallb (fun q => f32v (fst q) && (0 <=? snd q) && negb (flt (fst q) mn) && negb (flt mx (fst q))) (awl xs).

Definition refuted_nonnan (v : variant) : Prop :=
  exists fuel tol xs mn mx sr, pre_nonnan xs mn mx = true /\ search_v v fuel tol xs mn mx = Ok sr /\ ~ sides_balanced tol xs sr.

Lemma split_check_refutes_nonnan v fuel tol xs mn mx :
  pre_nonnan xs mn mx = true -> split_check v fuel tol xs mn mx = Some false -> refuted_nonnan v.
Proof.
  intros Hpre H. exists fuel, tol, xs, mn, mx. unfold split_check in H. fold (awl xs) in H. fold (search_v v fuel tol xs mn mx) in H.
  assert (Hv : vaw spec_float f32v (awl xs)).
  { unfold pre_nonnan in Hpre. apply andb_true_iff in Hpre. destruct Hpre as [_ Hp]. apply vawb_sound. unfold vawb.
    rewrite forallb_forall in *. intros q Hq. specialize (Hp q Hq).
    apply andb_true_iff in Hp. destruct Hp as [Hp _]. apply andb_true_iff in Hp. destruct Hp as [Hp _]. exact Hp. }
  destruct (search_v v fuel tol xs mn mx) as [[i wl pos why|pos]|e|s|]; try discriminate.
  - destruct (nth_opt xs i) as [p|] eqn:Ep; [|discriminate]. inversion H as [Hc]. clear H.
    eexists. split; [exact Hpre|]. split; [reflexivity|]. intros (p' & Hp' & Hb). rewrite Ep in Hp'. inversion Hp'; subst p'.
    apply (check_split32_iff tol) in Hb; [congruence| |]; apply (vaw_filter spec_float f32v); exact Hv.
  - inversion H as [Hc]. clear H. eexists. split; [exact Hpre|]. split; [reflexivity|]. intros Hb.
    apply (check_split32_iff tol) in Hb; [congruence|exact Hv|constructor].
Qed.

Definition f32_pinf : spec_float := S754_infinity false.
Definition f32_ninf : spec_float := S754_infinity true.

(* x = 0,1,2,3 and one image +inf (e.g. 1e39), unit weights: everything on the low side (5 | 0) *)
Lemma rcb_c04_refuted_beyond_f32_plus : refuted_nonnan head_variant.
Proof.
  apply (split_check_refutes_nonnan head_variant 400 tol005
           (mkxs (zs [0;1;2;3] ++ [f32_pinf]) [1;1;1;1;1]) (f32_of_Z 0) f32_pinf); vm_compute; reflexivity.
Qed.

(* one image -inf (e.g. -1e39) and x = 0,1,2,3: cut 4 | 1 although 2 | 3 exists *)
Lemma rcb_c04_refuted_beyond_f32_minus : refuted_nonnan head_variant.
Proof.
  apply (split_check_refutes_nonnan head_variant 400 tol005
           (mkxs (f32_ninf :: zs [0;1;2;3]) [1;1;1;1;1]) f32_ninf (f32_of_Z 3)); vm_compute; reflexivity.
Qed.

(* the whole algorithm on the f64 input (x, 0) with the PLAIN cast (before the
   clamp fix): x = 0,1,2,3,1e39 ends in one part, x = -1e39,0,1,2,3 is cut 4 | 1;
   with the clamped cast (current source) both are cut 3 | 2 *)
Definition pts_x (xs : list Z) : list (list spec_float) := map (fun x => [f64_of_Z x; f64_of_Z 0]) xs.
Example rcb_beyond_f32_one_part :
  rcb (head_variant_c false) 400 seq_sched 2 1 tol005 (pts_x [0; 1; 2; 3; 10 ^ 39]) [1;1;1;1;1] [9;9;9;9;9]%N
  = Ok [0;0;0;0;0]%N.
Proof. vm_compute. reflexivity. Qed.
Example rcb_beyond_f32_lopsided :
  rcb (head_variant_c false) 400 seq_sched 2 1 tol005 (pts_x [- 10 ^ 39; 0; 1; 2; 3]) [1;1;1;1;1] [9;9;9;9;9]%N
  = Ok [0;0;0;0;1]%N.
Proof. vm_compute. reflexivity. Qed.
Example rcb_beyond_f32_clamped :
  rcb head_variant 400 seq_sched 2 1 tol005 (pts_x [0; 1; 2; 3; 10 ^ 39]) [1;1;1;1;1] [9;9;9;9;9]%N = Ok [0;0;0;1;1]%N
  /\ rcb head_variant 400 seq_sched 2 1 tol005 (pts_x [- 10 ^ 39; 0; 1; 2; 3]) [1;1;1;1;1] [9;9;9;9;9]%N = Ok [0;0;0;1;1]%N
  /\ rcb head_variant 400 seq_sched 2 1 tol005 (pts_x [- 10 ^ 39; 0; 1; 2; 3; 10 ^ 39]) [1;1;1;1;1;1] [9;9;9;9;9;9]%N
     = Ok [0;0;0;1;1;1]%N.
Proof. repeat split; vm_compute; reflexivity. Qed.
(* the plain-cast outputs are rejected, the clamped ones accepted, by the
   certified C04 checker (which judges the clamped binary32 images) *)
Example checker_beyond_f32 :
  check_balance32 2 1 tol005 (pts_x [0; 1; 2; 3; 10 ^ 39]) [1;1;1;1;1] [0;0;0;0;0]%N = false
  /\ check_balance32 2 1 tol005 (pts_x [- 10 ^ 39; 0; 1; 2; 3]) [1;1;1;1;1] [0;0;0;0;1]%N = false
  /\ check_balance32 2 1 tol005 (pts_x [0; 1; 2; 3; 10 ^ 39]) [1;1;1;1;1] [0;0;0;1;1]%N = true.
Proof. repeat split; vm_compute; reflexivity. Qed.

(* Proofs about Model/Ckk.v: soundness (for the repaired sum branch),
   completeness (both variants), termination bound, panic freedom, checker
   correctness, and the refutation of soundness for the pinned code. *)
From Coupe Require Import Lib.Prelude Lib.SFloat Model.Ckk.
From Coq Require Import Permutation Floats.SpecFloat.
Open Scope Z_scope.

(* value of a partition array at an index (0 outside; never used outside) *)
Definition pv (p : list N) (i : nat) : N := match nth_opt p i with Some x => x | None => 0%N end.
Definition sgn (x : N) (v : Z) : Z := if (x =? 0)%N then - v else v.
Fixpoint Dl (p : list N) (l : list item) : Z :=
  match l with [] => 0 | (v, i) :: t => sgn (pv p i) v + Dl p t end.
Definition ids (l : list item) : list nat := map snd l.

Fixpoint desc (l : list item) : Prop :=
  match l with
  | [] => True
  | x :: t => (match t with [] => True | y :: _ => ltb_item x y = false end) /\ desc t
  end.
Definition nonneg (l : list item) := Forall (fun x => 0 <= fst x) l.

(* ---------- insert / sort ---------- *)

Lemma insert_perm e l : Permutation (insert e l) (e :: l).
Proof.
  induction l as [|x t IH]; cbn; auto.
  destruct (ltb_item x e); auto.
  rewrite IH. apply perm_swap.
Qed.

Lemma insert_length e l : length (insert e l) = S (length l).
Proof. apply (Permutation_length (insert_perm e l)). Qed.

Lemma ltb_false_ge x y : ltb_item x y = false -> fst y <= fst x.
Proof. unfold ltb_item. intros H. apply orb_false_iff in H as [H _]. lia. Qed.

Lemma ltb_item_asym x e : ltb_item x e = true -> ltb_item e x = false.
Proof.
  unfold ltb_item. intros E. apply orb_true_iff in E. apply orb_false_iff.
  destruct E as [E|E].
  - split; [lia|]. apply andb_false_iff. left. lia.
  - apply andb_true_iff in E as [E1 E2]. apply Nat.ltb_lt in E2. split; [lia|].
    apply andb_false_iff. right. apply Nat.ltb_ge. lia.
Qed.

Lemma desc_insert e l : desc l -> desc (insert e l).
Proof.
  induction l as [|x t IH]; cbn; intros Hd; auto.
  destruct Hd as [Hx Ht].
  destruct (ltb_item x e) eqn:E.
  - cbn. split; [|split; auto]. apply ltb_item_asym; exact E.
  - specialize (IH Ht). cbn. split; auto.
    destruct t as [|y t']; cbn in *.
    + exact E.
    + destruct (ltb_item y e); auto.
Qed.

Lemma nonneg_insert e l : 0 <= fst e -> nonneg l -> nonneg (insert e l).
Proof.
  intros He Hl. unfold nonneg in *. rewrite Forall_forall in *.
  intros x Hx. apply (Permutation_in _ (insert_perm e l)) in Hx. destruct Hx as [<-|Hx]; auto.
Qed.

Lemma ids_insert e l : Permutation (ids (insert e l)) (snd e :: ids l).
Proof. unfold ids. rewrite (Permutation_map snd (insert_perm e l)). reflexivity. Qed.

Lemma sort_desc_perm l : Permutation (sort_desc l) l.
Proof.
  induction l as [|x t IH]; cbn; auto.
  rewrite insert_perm. constructor. exact IH.
Qed.

Lemma sort_desc_desc l : desc (sort_desc l).
Proof. induction l as [|x t IH]; cbn; auto. apply desc_insert. exact IH. Qed.

Lemma items_of_ids ws : ids (items_of ws) = seq 0 (length ws).
Proof.
  unfold items_of, ids. generalize 0%nat. induction ws as [|w t IH]; intros k; cbn; auto.
  f_equal. apply IH.
Qed.

Lemma items_of_nonneg ws : Forall (fun w => 0 <= w) ws -> nonneg (items_of ws).
Proof.
  unfold items_of, nonneg. generalize 0%nat.
  induction ws as [|w t IH]; intros k H; cbn; auto.
  inversion H; subst. constructor; auto.
Qed.

(* ---------- D ---------- *)

Lemma Dl_perm p l l' : Permutation l l' -> Dl p l = Dl p l'.
Proof. induction 1 as [|[v i] l l' _ IH|[v i] [w j] l|]; cbn; try lia. Qed.

Lemma Dl_insert p e l : Dl p (insert e l) = sgn (pv p (snd e)) (fst e) + Dl p l.
Proof. rewrite (Dl_perm _ _ _ (insert_perm e l)). destruct e; reflexivity. Qed.

Lemma Dl_ext p q l : (forall i, In i (ids l) -> pv p i = pv q i) -> Dl p l = Dl q l.
Proof.
  induction l as [|[v i] t IH]; cbn; intros H; auto.
  rewrite (H i) by auto. rewrite IH; auto.
Qed.

Lemma sgn_abs b v : 0 <= v -> Z.abs (sgn b v) = v.
Proof. unfold sgn. destruct (b =? 0)%N; lia. Qed.

Lemma pv_set_same p i v : (i < length p)%nat -> pv (set_nth p i v) i = v.
Proof. intros H. unfold pv. now rewrite nth_opt_set_nth_same. Qed.
Lemma pv_set_other p i j v : i <> j -> pv (set_nth p i v) j = pv p j.
Proof. intros H. unfold pv. now rewrite nth_opt_set_nth_other. Qed.

(* ---------- termination: fuel = number of items is enough ---------- *)

Lemma ckk_rec_fuel b : forall fuel l tol steps,
  (length l <= fuel)%nat -> l <> [] -> ckk_rec b fuel l tol steps <> None.
Proof.
  induction fuel as [|f IH]; intros l tol steps Hlen Hne.
  - destruct l; cbn in *; [congruence|lia].
  - cbn. destruct l as [|[aw ai] [|[bw bi] t]]; [congruence| |].
    + destruct (aw <=? tol); congruence.
    + cbn in Hlen.
      assert (Hn : forall e, insert e t <> []).
      { intros e C. pose proof (insert_length e t) as L. rewrite C in L. discriminate. }
      assert (Hl : forall e, (length (insert e t) <= f)%nat) by (intros e; rewrite insert_length; lia).
      destruct (ckk_rec b f (insert (aw - bw, ai) t) tol _) as [[r|]|] eqn:E1; try congruence.
      * apply IH; auto.
      * exfalso. revert E1. apply IH; auto.
Qed.

(* ---------- completeness ---------- *)

Theorem ckk_rec_complete b : forall fuel l tol steps,
  desc l -> nonneg l -> l <> [] ->
  ckk_rec b fuel l tol steps = Some None ->
  forall p : list N, Z.abs (Dl p l) > tol.
Proof.
  induction fuel as [|f IH]; intros l tol steps Hd Hn Hne H p; [discriminate|].
  cbn in H. destruct l as [|[aw ai] [|[bw bi] t]]; [congruence| |].
  - destruct (aw <=? tol) eqn:E; [discriminate|].
    cbn. inversion Hn; subst; cbn in *. rewrite Z.add_0_r, sgn_abs by assumption. lia.
  - destruct Hd as [Hab Hd]. destruct Hd as [_ Hdt].
    apply ltb_false_ge in Hab; cbn in Hab.
    inversion Hn as [|? ? Ha Hn']; subst. inversion Hn' as [|? ? Hb Hnt]; subst. cbn in Ha, Hb.
    assert (Hne' : forall e, insert e t <> []).
    { intros e C. pose proof (insert_length e t) as L. rewrite C in L. discriminate. }
    destruct (ckk_rec b f (insert (aw - bw, ai) t) tol _) as [[r|]|] eqn:E1; try discriminate.
    assert (N1 : forall q, Z.abs (Dl q (insert (aw - bw, ai) t)) > tol).
    { eapply IH; eauto; [apply desc_insert; auto | apply nonneg_insert; cbn; auto; lia]. }
    assert (N2 : forall q, Z.abs (Dl q (insert (aw + bw, ai) t)) > tol).
    { eapply IH; eauto; [apply desc_insert; auto | apply nonneg_insert; cbn; auto; lia]. }
    cbn [Dl].
    specialize (N1 p). specialize (N2 p). rewrite Dl_insert in N1, N2. cbn [fst snd] in N1, N2.
    unfold sgn in *. destruct (pv p ai =? 0)%N, (pv p bi =? 0)%N; lia.
Qed.

(* ---------- soundness of the repaired search (sum branch records separate := false) ---------- *)

Lemma build_app p s1 s2 : build p (s1 ++ s2) = bind (build p s1) (fun q => build q s2).
Proof.
  revert p; induction s1 as [|s t IH]; intros p; cbn [app build bind]; auto.
  destruct (nth_opt p (sa s)) as [pa|]; cbn [bind]; auto.
  destruct (Nat.ltb (sb s) (length p)); cbn [bind]; auto.
  destruct (separate s); auto. destruct (pa <=? 1)%N; cbn [bind]; auto.
Qed.

Definition in_range (l : list item) (p : list N) := forall i, In i (ids l) -> (i < length p)%nat.

Theorem ckk_rec_sound : forall fuel l tol steps last S,
  NoDup (ids l) -> desc l -> nonneg l ->
  ckk_rec false fuel l tol steps = Some (Some (last, S)) ->
  exists S', S = S' ++ steps /\ In last (ids l) /\
    forall p0, in_range l p0 -> (pv p0 last <= 1)%N ->
      exists p', build p0 S' = Ok p' /\ length p' = length p0 /\
        (forall i, In i (ids l) -> (pv p' i <= 1)%N) /\ Z.abs (Dl p' l) <= tol.
Proof.
  induction fuel as [|f IH]; intros l tol steps last S Hnd Hd Hn H; [discriminate|].
  cbn in H. destruct l as [|[aw ai] [|[bw bi] t]]; [discriminate| |].
  - destruct (aw <=? tol) eqn:E; [|discriminate]. injection H as <- <-.
    exists []. split; auto. split; [cbn; auto|]. intros p0 _ Hl. exists p0.
    repeat split; auto.
    + intros i [<-|[]]. exact Hl.
    + cbn. inversion Hn; subst; cbn in *. rewrite Z.add_0_r, sgn_abs by assumption. lia.
  - destruct Hd as [Hge [_ Hdt]]. apply ltb_false_ge in Hge; cbn in Hge.
    inversion Hn as [|? ? Hna Hn']; subst. inversion Hn' as [|? ? Hnb Hnt]; subst. cbn in Hna, Hnb.
    cbn in Hnd. inversion Hnd as [|? ? Ha Hnd']; subst. inversion Hnd' as [|? ? Hb Hndt]; subst.
    assert (Hab : ai <> bi) by (intro; subst; apply Ha; left; reflexivity).
    assert (Hat : ~ In ai (ids t)) by (intro; apply Ha; right; assumption).
    assert (ND' : forall v, NoDup (ids (insert (v, ai) t))).
    { intros v. eapply Permutation_NoDup; [symmetry; apply ids_insert|]. cbn. constructor; auto. }
    assert (SUB : forall v i, In i (ids (insert (v, ai) t)) -> In i (ai :: ids t)).
    { intros v i Hi. apply (Permutation_in _ (ids_insert (v, ai) t)) in Hi. exact Hi. }
    assert (SUP : forall v i, In i (ai :: ids t) -> In i (ids (insert (v, ai) t))).
    { intros v i Hi. apply (Permutation_in _ (Permutation_sym (ids_insert (v, ai) t))). exact Hi. }
    (* one step of un-winding, common to both branches *)
    assert (STEP : forall sep v S0 stp, stp = {| sa := ai; sb := bi; separate := sep |} ->
      v = (if sep then aw - bw else aw + bw) ->
      (exists S'', S0 = S'' ++ stp :: steps /\ In last (ids (insert (v, ai) t)) /\
         forall p0, in_range (insert (v, ai) t) p0 -> (pv p0 last <= 1)%N ->
           exists p', build p0 S'' = Ok p' /\ length p' = length p0 /\
             (forall i, In i (ids (insert (v, ai) t)) -> (pv p' i <= 1)%N) /\
             Z.abs (Dl p' (insert (v, ai) t)) <= tol) ->
      exists S', S0 = S' ++ steps /\ In last (ids ((aw, ai) :: (bw, bi) :: t)) /\
         forall p0, in_range ((aw, ai) :: (bw, bi) :: t) p0 -> (pv p0 last <= 1)%N ->
           exists p', build p0 S' = Ok p' /\ length p' = length p0 /\
             (forall i, In i (ids ((aw, ai) :: (bw, bi) :: t)) -> (pv p' i <= 1)%N) /\
             Z.abs (Dl p' ((aw, ai) :: (bw, bi) :: t)) <= tol).
    { intros sep v S0 stp -> -> [S'' [-> [Hlast HS]]].
      exists (S'' ++ [{| sa := ai; sb := bi; separate := sep |}]). split; [|split].
      - rewrite <- app_assoc. reflexivity.
      - apply SUB in Hlast. cbn in *. tauto.
      - intros p0 Hr Hl0.
        destruct (HS p0) as [q [Hq [Hlen [Hle HD]]]]; auto.
        { intros i Hi. apply Hr. apply SUB in Hi. cbn in *. tauto. }
        rewrite build_app, Hq. cbn [bind build sa sb separate].
        assert (Hai : (ai < length q)%nat) by (rewrite Hlen; apply Hr; cbn; auto).
        assert (Hbi : (bi < length q)%nat) by (rewrite Hlen; apply Hr; cbn; auto).
        destruct (nth_opt_lt q ai Hai) as [pa Hpa]. rewrite Hpa.
        assert (Hpa1 : (pa <= 1)%N).
        { specialize (Hle ai (SUP _ _ (or_introl eq_refl))). unfold pv in Hle. now rewrite Hpa in Hle. }
        assert (Hpv : pv q ai = pa) by (unfold pv; now rewrite Hpa).
        apply Nat.ltb_lt in Hbi as Hbi'. rewrite Hbi'.
        set (x := if sep then (1 - pa)%N else pa).
        assert (Hx : (x <= 1)%N) by (unfold x; destruct sep; lia).
        exists (set_nth q bi x). split; [|split; [|split]].
        + unfold x. destruct sep; auto. apply N.leb_le in Hpa1. now rewrite Hpa1.
        + rewrite set_nth_length. exact Hlen.
        + intros i [<-|[<-|Hi]].
          * rewrite pv_set_other by auto. apply Hle, SUP. cbn; auto.
          * rewrite pv_set_same by auto. exact Hx.
          * rewrite pv_set_other by (intro; subst; contradiction). apply Hle, SUP. cbn; auto.
        + cbn [Dl]. rewrite pv_set_same, (pv_set_other _ bi ai) by auto.
          rewrite (Dl_ext _ q t) by (intros j Hj; apply pv_set_other; intro; subst; contradiction).
          rewrite Dl_insert in HD. cbn [fst snd] in HD. rewrite Hpv in *.
          unfold sgn in *. unfold x.
          destruct sep;
            repeat match goal with
                   | |- context [(?a =? ?b)%N] => destruct (N.eqb_spec a b)
                   | H : context [(?a =? ?b)%N] |- _ => destruct (N.eqb_spec a b)
                   end; lia. }
    destruct (ckk_rec false f (insert (aw - bw, ai) t) tol _) as [[r|]|] eqn:E1; try discriminate.
    + injection H as ->. eapply (STEP true); eauto.
      eapply IH; eauto; [apply desc_insert; auto | apply nonneg_insert; cbn; auto; lia].
    + eapply (STEP false); eauto.
      eapply IH; eauto; [apply desc_insert; auto | apply nonneg_insert; cbn; auto; lia].
Qed.

(* ---------- from D to loads ---------- *)

Lemma pv_app_r pre p j : pv (pre ++ p) (length pre + j) = pv p j.
Proof.
  unfold pv. induction pre as [|x pre IH]; cbn; auto.
Qed.

Lemma Dl_items_gen : forall ws p pre, length ws = length p -> two_way p ->
  Dl (pre ++ p) (combine ws (seq (length pre) (length ws))) = load ws p 1 - load ws p 0.
Proof.
  induction ws as [|w ws IH]; intros [|x p] pre Hlen Htw; cbn in *; try lia.
  inversion Htw as [|? ? Hx Htw']; subst.
  replace (pv (pre ++ x :: p) (length pre)) with x.
  2:{ rewrite <- (Nat.add_0_r (length pre)), pv_app_r. reflexivity. }
  specialize (IH p (pre ++ [x])). rewrite app_length in IH. cbn in IH.
  rewrite Nat.add_1_r, <- app_assoc in IH. cbn in IH. rewrite IH by (auto; lia).
  unfold sgn. destruct (N.eqb_spec x 0), (N.eqb_spec x 1); lia.
Qed.

Lemma Dl_items ws p : length ws = length p -> two_way p ->
  Dl p (items_of ws) = load ws p 1 - load ws p 0.
Proof. intros. apply (Dl_items_gen ws p []); auto. Qed.

Lemma two_way_pv p : (forall i, (i < length p)%nat -> (pv p i <= 1)%N) -> two_way p.
Proof.
  induction p as [|x p IH]; intros H; constructor.
  - apply (H 0%nat). cbn; lia.
  - apply IH. intros i Hi. apply (H (S i)). cbn; lia.
Qed.

(* ---------- the entry point ---------- *)

Lemma ckk_inv ws tol p0 b r : ckk b ws tol p0 = r -> ws <> [] ->
  (r = Err (InputLenMismatch (length p0) (length ws)) /\ length ws <> length p0) \/
  (length ws = length p0 /\
   ((r = Panic 2 /\ tol_int (sumZ ws) tol = None) \/
    exists t, tol_int (sumZ ws) tol = Some t /\
      match ckk_rec b (length ws) (sort_desc (items_of ws)) t [] with
      | None => r = OutOfFuel
      | Some None => r = Err NotFound
      | Some (Some (last, stps)) =>
          r = if Nat.ltb last (length p0) then build (set_nth p0 last 0%N) stps else Panic 1
      end)).
Proof.
  unfold ckk. intros <- Hne.
  destruct (Nat.eqb (length ws) (length p0)) eqn:E; cbn.
  - apply Nat.eqb_eq in E. right. split; auto.
    destruct ws as [|w ws']; [congruence|].
    destruct (tol_int _ tol) as [t|]; [right; exists t; split; auto | left; auto].
    destruct (ckk_rec _ _ _ _ _) as [[[last S]|]|]; auto.
  - apply Nat.eqb_neq in E. left. auto.
Qed.

Lemma sorted_items_facts ws : Forall (fun w => 0 <= w) ws ->
  let l := sort_desc (items_of ws) in
  NoDup (ids l) /\ desc l /\ nonneg l /\ (forall i, In i (ids l) <-> (i < length ws)%nat)
  /\ length l = length ws.
Proof.
  intros Hnn l. pose proof (sort_desc_perm (items_of ws)) as P.
  assert (Pi : Permutation (ids l) (seq 0 (length ws))).
  { unfold ids, l. rewrite (Permutation_map snd P). fold (ids (items_of ws)). now rewrite items_of_ids. }
  repeat split.
  - eapply Permutation_NoDup; [symmetry; exact Pi|apply seq_NoDup].
  - apply sort_desc_desc.
  - unfold nonneg. rewrite Forall_forall. intros x Hx. apply (Permutation_in _ P) in Hx.
    pose proof (items_of_nonneg ws Hnn) as Q. unfold nonneg in Q. rewrite Forall_forall in Q. auto.
  - intros Hi. apply (Permutation_in _ Pi) in Hi. apply in_seq in Hi. lia.
  - intros Hi. apply (Permutation_in _ (Permutation_sym Pi)). apply in_seq. lia.
  - unfold l. rewrite (Permutation_length P). unfold items_of, item. rewrite combine_length, seq_length. lia.
Qed.

Theorem ckk_sound : forall ws tol p0 p,
  Forall (fun w => 0 <= w) ws -> ws <> [] ->
  ckk false ws tol p0 = Ok p ->
  exists t, tol_int (sumZ ws) tol = Some t /\
    length p = length p0 /\ length p = length ws /\ two_way p /\ diff ws p <= t.
Proof.
  intros ws tol p0 p Hnn Hne H.
  destruct (ckk_inv _ _ _ _ _ H Hne) as [[C _]|[Hlen [[C _]|[t [Ht HR]]]]]; try discriminate.
  exists t. split; auto.
  destruct (sorted_items_facts ws Hnn) as [Hnd [Hd [Hn [Hids Hll]]]].
  destruct (ckk_rec false _ _ t []) as [[[last S]|]|] eqn:E; try discriminate.
  destruct (ckk_rec_sound _ _ _ _ _ _ Hnd Hd Hn E) as [S' [-> [Hlast HS]]].
  rewrite app_nil_r in *.
  assert (Hl : (last < length p0)%nat) by (rewrite <- Hlen; apply Hids; auto).
  apply Nat.ltb_lt in Hl as Hl'. rewrite Hl' in HR.
  destruct (HS (set_nth p0 last 0%N)) as [p' [Hb [Hlen' [Hle HD]]]].
  - intros i Hi. rewrite set_nth_length, <- Hlen. now apply Hids.
  - rewrite pv_set_same by auto. lia.
  - rewrite Hb in HR. injection HR as ->. rewrite set_nth_length in Hlen'.
    assert (Htw : two_way p').
    { apply two_way_pv. intros i Hi. apply Hle, Hids. lia. }
    repeat split; auto; try lia.
    unfold diff. rewrite <- Dl_items by (auto; lia).
    rewrite <- (Dl_perm _ _ _ (sort_desc_perm (items_of ws))). exact HD.
Qed.

Theorem ckk_complete : forall b ws tol p0,
  Forall (fun w => 0 <= w) ws -> ws <> [] ->
  ckk b ws tol p0 = Err NotFound ->
  exists t, tol_int (sumZ ws) tol = Some t /\
    forall p, length p = length ws -> two_way p -> diff ws p > t.
Proof.
  intros b ws tol p0 Hnn Hne H.
  destruct (ckk_inv _ _ _ _ _ H Hne) as [[C _]|[Hlen [[C _]|[t [Ht HR]]]]]; try discriminate.
  exists t. split; auto.
  destruct (sorted_items_facts ws Hnn) as [Hnd [Hd [Hn [Hids Hll]]]].
  destruct (ckk_rec b _ _ t []) as [[[last S]|]|] eqn:E; try discriminate.
  - destruct (Nat.ltb last (length p0)); [|discriminate].
    (* build never returns Err *)
    exfalso. clear -HR. revert HR. generalize (set_nth p0 last 0%N).
    induction S as [|s S IH]; cbn; intros q HR; [discriminate|].
    destruct (nth_opt q (sa s)); [|discriminate].
    destruct (Nat.ltb (sb s) (length q)); [|discriminate].
    destruct (separate s); [destruct (n <=? 1)%N; [|discriminate]|]; eapply IH; eauto.
  - intros p Hp Htw. unfold diff. rewrite <- Dl_items by auto.
    rewrite <- (Dl_perm _ _ _ (sort_desc_perm (items_of ws))).
    eapply ckk_rec_complete; eauto.
    intro C. rewrite C in Hll. cbn in Hll. destruct ws; [congruence|discriminate].
Qed.

Theorem ckk_terminates : forall b ws tol p0, ckk b ws tol p0 <> OutOfFuel.
Proof.
  intros b ws tol p0 H.
  destruct ws as [|w ws'] eqn:Ews.
  { unfold ckk in H. destruct (negb _); discriminate. }
  rewrite <- Ews in H.
  assert (Hne : ws <> []) by (rewrite Ews; discriminate).
  destruct (ckk_inv _ _ _ _ _ H Hne) as [[C _]|[Hlen [[C _]|[t [Ht HR]]]]]; try discriminate.
  destruct (ckk_rec b _ _ t []) as [[[last S]|]|] eqn:E; try discriminate.
  - destruct (Nat.ltb last (length p0)); [|discriminate].
    clear -HR. revert HR. generalize (set_nth p0 last 0%N).
    induction S as [|s S IH]; cbn; intros q HR; [discriminate|].
    destruct (nth_opt q (sa s)); [|discriminate].
    destruct (Nat.ltb (sb s) (length q)); [|discriminate].
    destruct (separate s); [destruct (n <=? 1)%N; [|discriminate]|]; eapply IH; eauto.
  - revert E. apply ckk_rec_fuel.
    + pose proof (sort_desc_perm (items_of ws)) as P. rewrite (Permutation_length P).
      unfold items_of, item. rewrite combine_length, seq_length. lia.
    + intro C. pose proof (Permutation_length (sort_desc_perm (items_of ws))) as L.
      rewrite C in L. unfold items_of, item in L. rewrite combine_length, seq_length in L.
      rewrite Ews in L. cbn in L. lia.
Qed.

(* no panic inside the contract (non-negative weights, convertible tolerance) *)
Theorem ckk_no_panic : forall ws tol p0 s,
  Forall (fun w => 0 <= w) ws -> tol_int (sumZ ws) tol <> None ->
  ckk false ws tol p0 <> Panic s.
Proof.
  intros ws tol p0 s Hnn Htol H.
  destruct ws as [|w ws'] eqn:Ews.
  { unfold ckk in H. destruct (negb _); discriminate. }
  rewrite <- Ews in *.
  assert (Hne : ws <> []) by (rewrite Ews; discriminate).
  destruct (ckk_inv _ _ _ _ _ H Hne) as [[C _]|[Hlen [[_ C]|[t [Ht HR]]]]]; try discriminate; try contradiction.
  destruct (sorted_items_facts ws Hnn) as [Hnd [Hd [Hn [Hids Hll]]]].
  destruct (ckk_rec false _ _ t []) as [[[last S]|]|] eqn:E; try discriminate.
  destruct (ckk_rec_sound _ _ _ _ _ _ Hnd Hd Hn E) as [S' [-> [Hlast HS]]].
  rewrite app_nil_r in *.
  assert (Hl : (last < length p0)%nat) by (rewrite <- Hlen; apply Hids; auto).
  apply Nat.ltb_lt in Hl as Hl'. rewrite Hl' in HR.
  destruct (HS (set_nth p0 last 0%N)) as [p' [Hb _]].
  - intros i Hi. rewrite set_nth_length, <- Hlen. now apply Hids.
  - rewrite pv_set_same by auto. lia.
  - rewrite Hb in HR. discriminate.
Qed.

(* length mismatch is reported, partition untouched (C20 clause for CKK) *)
Theorem ckk_len_mismatch : forall b ws tol p0, length ws <> length p0 ->
  ckk b ws tol p0 = Err (InputLenMismatch (length p0) (length ws)).
Proof.
  intros b ws tol p0 H. unfold ckk. apply Nat.eqb_neq in H. now rewrite H.
Qed.

(* ---------- checker ---------- *)

Ltac nsimp := cbn; change (1 =? 1)%N with true; change (1 =? 0)%N with false;
              change (0 =? 0)%N with true; change (0 =? 1)%N with false; cbn.

Lemma nodupZ_In x l : In x (nodupZ l) <-> In x l.
Proof.
  induction l as [|y t IH]; cbn; [tauto|].
  destruct (existsb (Z.eqb y) t) eqn:E.
  - rewrite IH. split; auto. intros [<-|H]; auto.
    apply existsb_exists in E as [z [Hz Hyz]]. apply Z.eqb_eq in Hyz. now subst.
  - cbn. rewrite IH. tauto.
Qed.

Lemma signed_sums_spec ws s :
  In s (signed_sums ws) <->
  exists p, length p = length ws /\ two_way p /\ s = load ws p 1 - load ws p 0.
Proof.
  revert s; induction ws as [|w ws IH]; intros s; cbn [signed_sums].
  - split.
    + intros [<-|[]]. exists []. repeat split; auto. constructor.
    + intros [p [Hp [_ ->]]]. destruct p; [|discriminate]. cbn. auto.
  - rewrite nodupZ_In, in_app_iff, !in_map_iff. split.
    + intros [[r [<- Hr]]|[r [<- Hr]]]; apply IH in Hr as [p [Hp [Htw ->]]].
      * exists (1%N :: p). nsimp. repeat split; auto; [constructor; auto; lia|lia].
      * exists (0%N :: p). nsimp. repeat split; auto; [constructor; auto; lia|lia].
    + intros [[|x p] [Hp [Htw ->]]]; [discriminate|].
      inversion Htw as [|? ? Hx Htw']; subst. cbn in Hp. injection Hp as Hp.
      assert (x = 0 \/ x = 1)%N as [-> | ->] by lia; nsimp.
      * right. exists (load ws p 1 - load ws p 0). split; [lia|]. apply IH. eauto.
      * left. exists (load ws p 1 - load ws p 0). split; [lia|]. apply IH. eauto.
Qed.

Lemma exists_within_spec ws t :
  exists_within ws t = true <-> exists p, length p = length ws /\ two_way p /\ diff ws p <= t.
Proof.
  unfold exists_within, diff. rewrite existsb_exists. split.
  - intros [s [Hs Hle]]. apply signed_sums_spec in Hs as [p [Hp [Htw ->]]].
    exists p. repeat split; auto. lia.
  - intros [p [Hp [Htw Hle]]]. exists (load ws p 1 - load ws p 0). split; [|lia].
    apply signed_sums_spec. eauto.
Qed.

Lemma check_C13_ok ws t p :
  check_C13 ws t (OOk p) = true <-> (length p = length ws /\ two_way p /\ diff ws p <= t).
Proof.
  unfold check_C13, two_way. rewrite !andb_true_iff, Nat.eqb_eq, forallb_forall, Forall_forall, Z.leb_le.
  split.
  - intros [[H1 H2] H3]. repeat split; auto. intros x Hx. specialize (H2 x Hx). apply N.leb_le. exact H2.
  - intros [H1 [H2 H3]]. repeat split; auto. intros x Hx. specialize (H2 x Hx). apply N.leb_le. exact H2.
Qed.

Lemma check_C13_notfound ws t :
  check_C13 ws t ONotFound = true <->
  (forall p, length p = length ws -> two_way p -> diff ws p > t).
Proof.
  unfold check_C13. rewrite negb_true_iff. split.
  - intros H p Hp Htw. destruct (Z_le_gt_dec (diff ws p) t) as [Hle|]; auto.
    assert (exists_within ws t = true) by (apply exists_within_spec; eauto). congruence.
  - intros H. destruct (exists_within ws t) eqn:E; auto.
    apply exists_within_spec in E as [p [Hp [Htw Hle]]]. specialize (H p Hp Htw). lia.
Qed.

(* ---------- regression witnesses ---------- *)

(* the pinned tree (sum branch records `separate: true`) is unsound:
   [4;5;6;7;8], tolerance 0 -> Ok with loads differing by 14 *)
Lemma ckk_pinned_refuted :
  exists p, ckk true [4;5;6;7;8] (f64_of_Z 0) [9;9;9;9;9]%N = Ok p /\ diff [4;5;6;7;8] p = 14.
Proof. eexists. split; vm_compute; reflexivity. Qed.

Example ckk_fixed_example :
  exists p, ckk false [4;5;6;7;8] (f64_of_Z 0) [9;9;9;9;9]%N = Ok p /\ diff [4;5;6;7;8] p = 0.
Proof. eexists. split; vm_compute; reflexivity. Qed.

(* ArcSwap: the machine never panics and never deadlocks.
   A well-formedness invariant (array lengths, vertices and part ids in range,
   non-empty to-do lists) is inductive, and under it every worker that is not
   done can perform its next access: [step] is [Some] for every active worker
   of every reachable state.  (Termination is not claimed.) *)
From Coupe Require Import Lib.Prelude Model.ArcSwap Proofs.ArcSwapCut Proofs.ArcSwapProto
  Proofs.ArcSwapAcct Proofs.ArcSwapCaps.
Open Scope Z_scope.

Section WithW.
Context {W : wops}.


Lemma nth_opt_ex {A} (l : list A) i : (i < length l)%nat -> exists x, nth_opt l i = Some x.
Proof. apply nth_opt_lt. Qed.

Lemma targets_nonempty k ip : (2 <= k)%nat -> targets k ip <> [].
Proof.
  intros Hk E. unfold targets in E.
  assert (H : In (if Nat.eqb ip 0 then 1%nat else 0%nat)
                (filter (fun t => negb (Nat.eqb t ip)) (seq 0 k))).
  { apply filter_In. split; [apply in_seq; destruct (Nat.eqb ip 0); lia|].
    destruct (Nat.eqb_spec ip 0) as [->|N]; [reflexivity|].
    apply negb_true_iff, Nat.eqb_neq. lia. }
  rewrite E in H. destruct H.
Qed.

(* lengths of the merged vectors, whatever the weight arithmetic *)
Lemma vec_add_len a b k : length a = k -> length b = k -> length (vec_add a b) = k.
Proof.
  revert b k. induction a as [|x a IH]; intros [|y b] k Ha Hb; cbn in *; try (subst; discriminate); auto.
  destruct k as [|k]; [discriminate|]. f_equal. apply IH; lia.
Qed.
Lemma pw_sum_len k ws : Forall (fun w => length (w_pw w) = k) ws -> length (pw_sum k ws) = k.
Proof.
  unfold pw_sum. induction 1 as [|w ws Hw _ IH]; cbn [fold_right]; [apply repeat_length|].
  now apply vec_add_len.
Qed.
Lemma pw_merge_len tc s pw k : length s = k -> length pw = k -> length (pw_merge tc s pw) = k.
Proof.
  revert pw k. induction s as [|x s IH]; intros [|y pw] k Hs Hp; cbn in *; try (subst; discriminate); auto.
  destruct k as [|k]; [discriminate|]. f_equal. apply IH; lia.
Qed.
Lemma thread_max_len cf pw tm : thread_max cf pw = Some tm -> length tm = length pw.
Proof.
  revert tm. induction pw as [|x pw IH]; intros tm H; cbn [thread_max] in H; [now injection H as <-|].
  destruct (cf_hr cf _ _); [|discriminate]. destruct (thread_max cf pw) as [r|]; [|discriminate].
  injection H as <-. cbn. f_equal. now apply IH.
Qed.

Section Progress.
Variable cf : config.
Let g := cf_g cf.
Let k := cf_k cf.
Let n := length g.
Hypothesis in_range : forall a u, In u (nbrs g a) -> (u < n)%nat.
Hypothesis len_vw : length (cf_vw cf) = n.
Hypothesis k_ge_2 : (2 <= k)%nat.
Hypothesis chunks_ok : forall i, (i < cf_tc cf)%nat -> (cf_ipt cf * i < n)%nat.
Hypothesis tc_pos : (1 <= cf_tc cf)%nat.
Hypothesis hr_total : forall d, cf_hr cf d (cf_tc cf) <> None.

Definition row_ok (r : list (nat * Z)) : Prop := Forall (fun e => (fst e < n)%nat) r.
Definition todo_ok (r : list (nat * Z)) : Prop := r <> [] /\ row_ok r.

Lemma row_row_ok v : row_ok (row g v).
Proof.
  apply Forall_forall. intros e He. apply (in_range v). unfold nbrs. now apply in_map.
Qed.

(* a non-empty suffix of the adjacency row of v *)
Definition suffix_ok (v : nat) (todo : list (nat * Z)) : Prop :=
  todo <> [] /\ exists done, row g v = done ++ todo.

Lemma suffix_todo_ok v todo : suffix_ok v todo -> todo_ok todo.
Proof.
  intros [Hne [done Hd]]. split; [exact Hne|].
  pose proof (row_row_ok v) as Hr. unfold row_ok in *. rewrite Hd in Hr.
  apply Forall_app in Hr. tauto.
Qed.
Lemma suffix_tail v e e2 todo : suffix_ok v (e :: e2 :: todo) -> suffix_ok v (e2 :: todo).
Proof.
  intros [_ [done Hd]]. split; [discriminate|]. exists (done ++ [e]). rewrite <- app_assoc. exact Hd.
Qed.
Lemma suffix_full v todo : suffix_ok v todo -> suffix_ok v (row g v).
Proof.
  intros [Hne [done Hd]]. split; [|exists []; reflexivity].
  intros E. rewrite E in Hd. destruct done; destruct todo; try discriminate; congruence.
Qed.
Lemma suffix_row v e r : row g v = e :: r -> suffix_ok v (e :: r).
Proof. intros E. split; [discriminate|]. exists []. exact E. Qed.

Definition pc_wf (w : worker) : Prop :=
  match w_pc w with
  | PScanOwn => (w_cur w < n)%nat
  | PScanNbr ip todo => (w_cur w < n)%nat /\ suffix_ok (w_cur w) todo
  | PCas v => (v < n)%nat
  | PChk v todo => (v < n)%nat /\ suffix_ok v todo
  | POwn v => (v < n)%nat
  | PGain v ip tg rest acc todo best =>
      (v < n)%nat /\ (ip < k)%nat /\ (tg < k)%nat /\ Forall (fun t => (t < k)%nat) rest /\ suffix_ok v todo /\
      match best with Some (bt, _) => (bt < k)%nat | None => True end
  | PStore v ip tg gn => (v < n)%nat /\ (ip < k)%nat /\ (tg < k)%nat
  | PUnlock v r => (v < n)%nat
  | PReNbr v todo => suffix_ok v todo
  | PReGain v todo nb np tg rest acc todo2 best => (todo = [] \/ suffix_ok v todo) /\ (nb < n)%nat /\ suffix_ok nb todo2
  | PDone => True
  end.

Record worker_wf (w : worker) : Prop := {
  ww_pc : pc_wf w;
  ww_cut : Forall (fun v => (v < n)%nat) (w_cut w);
  ww_pw : length (w_pw w) = k;
  ww_end : (w_end w <= n)%nat
}.

Record shared_wf (locks : list bool) (part : list nat) (tmax : list Z) : Prop := {
  sw_locks : length locks = n;
  sw_part : length part = n;
  sw_ids : Forall (fun x => (x < k)%nat) part;
  sw_tmax : length tmax = k
}.

(* ---- helper transitions keep a worker well-formed ---- *)

Lemma scan_next_wf w : worker_wf w -> worker_wf (scan_next w).
Proof.
  intros [Hpc Hcut Hpw Hend]. unfold scan_next. split; cbn [w_cut w_pw w_end]; auto.
  unfold pc_wf. cbn [w_pc w_cur w_end]. destruct (Nat.ltb_spec (S (w_cur w)) (w_end w)); [lia|exact I].
Qed.

Lemma enter_wf w : Forall (fun v => (v < n)%nat) (w_cut w) -> length (w_pw w) = k -> (w_end w <= n)%nat ->
  worker_wf (enter_make_move w).
Proof.
  intros Hcut Hpw Hend. unfold enter_make_move. destruct (w_cut w) as [|v rest] eqn:E.
  - unfold scan_next. split; cbn [w_cut w_pw w_end]; auto; [|rewrite E; constructor].
    unfold pc_wf. cbn [w_pc w_cur w_end]. destruct (Nat.ltb_spec (S (w_cur w)) (w_end w)); [lia|exact I].
  - inversion Hcut; subst. split; cbn [w_cut w_pw w_end]; auto.
Qed.

Lemma re_start_wf w v todo : (todo = [] \/ suffix_ok v todo) ->
  Forall (fun v => (v < n)%nat) (w_cut w) -> length (w_pw w) = k -> (w_end w <= n)%nat ->
  worker_wf (re_start w v todo).
Proof.
  intros Hr Hcut Hpw Hend. unfold re_start. destruct todo as [|e todo]; [now apply enter_wf|].
  destruct Hr as [Hr|Hr]; [discriminate|].
  split; cbn [set_pc w_cut w_pw w_end]; auto.
Qed.

Lemma decide_wf tmax w v ip bt bg w' : (v < n)%nat -> (ip < k)%nat -> (bt < k)%nat ->
  Forall (fun v => (v < n)%nat) (w_cut w) -> length (w_pw w) = k -> (w_end w <= n)%nat ->
  decide cf tmax w v ip (bt, bg) = Some w' -> worker_wf w'.
Proof.
  intros Hv Hip Hbt Hcut Hpw Hend. unfold decide. destruct (bg <=? 0).
  - intros [= <-]. split; cbn [set_pc set_md w_cut w_pw w_end]; auto.
  - destruct (nth_opt (cf_vw cf) v), (nth_opt (w_pw w) bt), (nth_opt tmax bt); try discriminate.
    destruct (w_ltb _ _); intros [= <-]; split; cbn [set_pc set_md w_cut w_pw w_end]; auto.
    unfold pc_wf. cbn [set_pc w_pc]. auto.
Qed.

Lemma decide_total tmax w v ip bt bg : (v < n)%nat -> (bt < k)%nat -> length (w_pw w) = k -> length tmax = k ->
  decide cf tmax w v ip (bt, bg) <> None.
Proof.
  intros Hv Hbt Hpw Htm. unfold decide. destruct (bg <=? 0); [discriminate|].
  destruct (nth_opt_ex (cf_vw cf) v) as [x ->]; [rewrite len_vw; exact Hv|].
  destruct (nth_opt_ex (w_pw w) bt) as [y ->]; [rewrite Hpw; exact Hbt|].
  destruct (nth_opt_ex tmax bt) as [z ->]; [rewrite Htm; exact Hbt|].
  destruct (w_ltb _ _); discriminate.
Qed.

Lemma targets_lt ip tg rest : targets k ip = tg :: rest -> (tg < k)%nat /\ Forall (fun t => (t < k)%nat) rest.
Proof.
  intros E.
  assert (H : forall t, In t (tg :: rest) -> (t < k)%nat).
  { intros t Hin. rewrite <- E in Hin. now apply targets_spec in Hin. }
  split; [apply H; now left|]. apply Forall_forall. intros t Hin. apply H. now right.
Qed.

Lemma upd_best_lt best tg gn : (tg < k)%nat -> match best with Some (bt, _) => (bt < k)%nat | None => True end ->
  (fst (upd_best best tg gn) < k)%nat.
Proof.
  intros Htg Hb. unfold upd_best. destruct best as [[bt bg]|]; cbn; auto. destruct (bg <=? gn); cbn; auto.
Qed.

(* ---- one access: possible, and well-formedness is kept ---- *)

Lemma suffix_head v u ew todo : suffix_ok v ((u, ew) :: todo) -> (u < n)%nat.
Proof. intros H. apply suffix_todo_ok in H as [_ Hr]. inversion Hr; subst. assumption. Qed.

Lemma wstep_progress tmax locks part w :
  shared_wf locks part tmax -> worker_wf w -> w_pc w <> PDone -> wstep cf tmax locks part w <> None.
Proof.
  intros [Hll Hlp Hids Htm] [Hpc Hcut Hpw Hend] Hnd. unfold wstep. unfold pc_wf in Hpc.
  destruct (w_pc w) as [ | ip todo | v | v todo | v | v ip tg rest acc todo best | v ip tg gn | v r
                        | v todo | v todo nb np tg rest acc todo2 best | ] eqn:E; [ | | | | | | | | | | congruence].
  - destruct (nth_opt_ex part (w_cur w)) as [x ->]; [lia|]. fold g. destruct (row g (w_cur w)); discriminate.
  - destruct Hpc as (Hc & Hs). destruct todo as [|[u ew] todo]; [destruct Hs; congruence|].
    apply suffix_head in Hs. destruct (nth_opt_ex part u) as [x ->]; [lia|].
    destruct (negb _); [discriminate|]. destruct todo; discriminate.
  - destruct (nth_opt_ex locks v) as [[|] ->]; [lia| |]; discriminate.
  - destruct Hpc as (Hv & Hs). destruct todo as [|[u ew] todo]; [destruct Hs; congruence|].
    apply suffix_head in Hs. destruct (nth_opt_ex locks u) as [[|] ->]; [lia| |]; discriminate.
  - destruct (nth_opt_ex part v) as [ip ->]; [lia|].
    destruct (targets (cf_k cf) ip) eqn:Et; [exfalso; exact (targets_nonempty _ _ k_ge_2 Et)|].
    fold g. destruct (row g v); discriminate.
  - destruct Hpc as (Hv & Hip & Htg & Hrest & Hs & Hb). destruct todo as [|[u ew] todo]; [destruct Hs; congruence|].
    apply suffix_head in Hs. destruct (nth_opt_ex part u) as [pu ->]; [lia|].
    destruct todo; [|discriminate]. destruct rest; [|discriminate].
    pose proof (upd_best_lt best tg (acc + gain_term ip tg pu ew) Htg Hb) as Hbt.
    destruct (upd_best best tg _) as [bt bg]. cbn in Hbt.
    pose proof (decide_total tmax w v ip bt bg Hv Hbt Hpw Htm) as Hd.
    destruct (decide cf tmax w v ip (bt, bg)); [discriminate|congruence].
  - destruct Hpc as (Hv & Hip & Htg).
    destruct (nth_opt_ex (cf_vw cf) v) as [wv ->]; [rewrite len_vw; exact Hv|].
    destruct (nth_opt_ex (w_pw w) ip) as [a ->]; [rewrite Hpw; exact Hip|].
    destruct (nth_opt_ex (w_pw w) tg) as [b ->]; [rewrite Hpw; exact Htg|].
    destruct (Nat.ltb_spec v (length part)); [|lia].
    destruct (nth_opt_ex (set_nth (w_pw w) ip (w_sub a wv)) tg) as [c ->]; [rewrite set_nth_length, Hpw; exact Htg|].
    discriminate.
  - destruct (Nat.ltb_spec v (length locks)); [discriminate|lia].
  - destruct todo as [|[nb ew] todo]; [destruct Hpc; congruence|].
    apply suffix_head in Hpc. destruct (nth_opt_ex part nb) as [np ->]; [lia|].
    destruct (targets (cf_k cf) np) eqn:Et; [exfalso; exact (targets_nonempty _ _ k_ge_2 Et)|].
    fold g. destruct (row g nb); discriminate.
  - destruct Hpc as (Hr0 & Hnb & Hs). destruct todo2 as [|[u ew] todo2]; [destruct Hs; congruence|].
    apply suffix_head in Hs. destruct (nth_opt_ex part u) as [pu ->]; [lia|].
    destruct todo2; [|discriminate]. destruct rest; discriminate.
Qed.

Lemma wstep_wf tmax locks part w locks' part' w' :
  shared_wf locks part tmax -> worker_wf w ->
  wstep cf tmax locks part w = Some (locks', part', w') ->
  shared_wf locks' part' tmax /\ worker_wf w'.
Proof.
  intros Hs Hw H. pose proof Hs as [Hll Hlp Hids Htm]. pose proof Hw as [Hpc Hcut Hpw Hend].
  unfold wstep in H. unfold pc_wf in Hpc.
  destruct (w_pc w) as [ | ip todo | v | v todo | v | v ip tg rest acc todo best | v ip tg gn | v r
                        | v todo | v todo nb np tg rest acc todo2 best | ] eqn:E; [ | | | | | | | | | | discriminate].
  - (* PScanOwn *)
    destruct (nth_opt part (w_cur w)) as [ip|]; [|discriminate]. fold g in H.
    destruct (row g (w_cur w)) as [|e r] eqn:Er; injection H as <- <- <-; (split; [exact Hs|]).
    + now apply scan_next_wf.
    + split; cbn [set_pc w_cut w_pw w_end]; auto. unfold pc_wf. cbn [set_pc w_pc w_cur].
      split; [exact Hpc|]. now apply suffix_row.
  - (* PScanNbr *)
    destruct Hpc as (Hc & Hsx). destruct todo as [|[u ew] todo]; [discriminate|].
    destruct (nth_opt part u); [|discriminate].
    destruct (negb _).
    + injection H as <- <- <-. split; [exact Hs|]. apply enter_wf; cbn [set_cut w_cut w_pw w_end]; auto.
    + destruct todo as [|e2 todo]; injection H as <- <- <-; (split; [exact Hs|]).
      * now apply scan_next_wf.
      * split; cbn [set_pc w_cut w_pw w_end]; auto. unfold pc_wf. cbn [set_pc w_pc w_cur].
        split; [exact Hc|]. eapply suffix_tail; eauto.
  - (* PCas *)
    destruct (nth_opt locks v) as [[|]|]; [| |discriminate].
    + injection H as <- <- <-. split; [exact Hs|]. apply enter_wf; cbn [set_md w_cut w_pw w_end]; auto.
    + fold g in H. injection H as <- <- <-. split.
      * split; auto. now rewrite set_nth_length.
      * split; cbn [set_pc w_cut w_pw w_end]; auto. unfold pc_wf. cbn [set_pc w_pc].
        destruct (row g v) as [|e r] eqn:Er; [exact Hpc|]. split; [exact Hpc|]. now apply suffix_row.
  - (* PChk *)
    destruct Hpc as (Hv & Hsx). destruct todo as [|[u ew] todo]; [discriminate|].
    destruct (nth_opt locks u) as [[|]|]; [| |discriminate]; injection H as <- <- <-; (split; [exact Hs|]).
    + split; cbn [set_pc set_md w_cut w_pw w_end]; auto.
    + split; cbn [set_pc w_cut w_pw w_end]; auto. unfold pc_wf. cbn [set_pc w_pc].
      destruct todo as [|e2 todo]; [exact Hv|]. split; [exact Hv|]. eapply suffix_tail; eauto.
  - (* POwn *)
    destruct (nth_opt part v) as [ip|] eqn:Ep; [|discriminate].
    assert (Hip : (ip < k)%nat) by (eapply (Forall_nth_opt _ _ _ _ Hids); eauto).
    destruct (targets (cf_k cf) ip) as [|tg rest] eqn:Et; [discriminate|].
    destruct (targets_lt _ _ _ Et) as [Htg Hrest].
    fold g in H.
    destruct (row g v) as [|e r] eqn:Er; injection H as <- <- <-; (split; [exact Hs|]).
    + split; cbn [set_pc set_md w_cut w_pw w_end]; auto.
    + split; cbn [set_pc w_cut w_pw w_end]; auto. unfold pc_wf. cbn [set_pc w_pc].
      repeat split; auto; try discriminate. exists []. exact Er.
  - (* PGain *)
    destruct Hpc as (Hv & Hip & Htg & Hrest & Hsx & Hb). destruct todo as [|[u ew] todo]; [discriminate|].
    destruct (nth_opt part u) as [pu|]; [|discriminate].
    destruct todo as [|e2 todo].
    + pose proof (upd_best_lt best tg (acc + gain_term ip tg pu ew) Htg Hb) as Hbt.
      destruct rest as [|tg' rest'].
      * destruct (decide _ _ _ _ _ _) as [wd|] eqn:Hd; [|discriminate]. injection H as <- <- <-.
        split; [exact Hs|]. destruct (upd_best best tg _) as [bt bg]. cbn in Hbt.
        exact (decide_wf tmax w v ip bt bg wd Hv Hip Hbt Hcut Hpw Hend Hd).
      * injection H as <- <- <-. split; [exact Hs|].
        split; cbn [set_pc w_cut w_pw w_end]; auto. unfold pc_wf. cbn [set_pc w_pc].
        inversion Hrest; subst. fold g. pose proof (suffix_full _ _ Hsx) as Hfull.
        repeat split; auto; try apply Hfull.
        destruct (upd_best best tg _) as [bt bg]. exact Hbt.
    + injection H as <- <- <-. split; [exact Hs|].
      split; cbn [set_pc w_cut w_pw w_end]; auto. unfold pc_wf. cbn [set_pc w_pc].
      pose proof (suffix_tail _ _ _ _ Hsx) as Ht.
      repeat split; auto; apply Ht.
  - (* PStore *)
    destruct Hpc as (Hv & Hip & Htg).
    destruct (nth_opt (cf_vw cf) v) as [wv|]; [|discriminate].
    destruct (nth_opt (w_pw w) ip) as [a|]; [|discriminate].
    destruct (nth_opt (w_pw w) tg); [|discriminate].
    destruct (Nat.ltb_spec v (length part)); [|discriminate].
    destruct (nth_opt _ tg) as [b|]; [|discriminate]. injection H as <- <- <-. split.
    + split; auto; [now rewrite set_nth_length|]. apply Forall_set_nth; auto.
    + split; cbn [w_cut w_pw w_end]; auto. now rewrite !set_nth_length.
  - (* PUnlock *)
    destruct (Nat.ltb_spec v (length locks)); [|discriminate]. injection H as <- <- <-. split.
    + split; auto. now rewrite set_nth_length.
    + fold g. destruct r; try (apply enter_wf; auto). apply re_start_wf; auto.
      destruct (row g v) as [|e r] eqn:Er; [now left|right; now apply suffix_row].
  - (* PReNbr *)
    destruct todo as [|[nb ew] todo]; [discriminate|].
    pose proof (suffix_head _ _ _ _ Hpc) as Hnb.
    assert (Htodo : todo = [] \/ suffix_ok v todo).
    { destruct todo as [|e2 todo]; [now left|right]. eapply suffix_tail; eauto. }
    destruct (nth_opt part nb) as [np|]; [|discriminate].
    destruct (targets (cf_k cf) np) as [|tg rest]; [discriminate|].
    fold g in H.
    destruct (row g nb) as [|e r] eqn:Er; injection H as <- <- <-; (split; [exact Hs|]).
    + apply re_start_wf; auto.
    + split; cbn [set_pc w_cut w_pw w_end]; auto. unfold pc_wf. cbn [set_pc w_pc].
      repeat split; auto; try discriminate. exists []. exact Er.
  - (* PReGain *)
    destruct Hpc as (Hr0 & Hnb & Hsx). destruct todo2 as [|[u ew] todo2]; [discriminate|].
    destruct (nth_opt part u) as [pu|]; [|discriminate].
    destruct todo2 as [|e2 todo2].
    + destruct rest as [|tg' rest']; injection H as <- <- <-; (split; [exact Hs|]).
      * apply re_start_wf; auto; destruct (0 <? _); cbn [set_cut w_cut w_pw w_end]; auto.
      * split; cbn [set_pc w_cut w_pw w_end]; auto. unfold pc_wf. cbn [set_pc w_pc]. fold g.
        repeat split; auto; apply (suffix_full _ _ Hsx).
    + injection H as <- <- <-. split; [exact Hs|].
      split; cbn [set_pc w_cut w_pw w_end]; auto. unfold pc_wf. cbn [set_pc w_pc].
      pose proof (suffix_tail _ _ _ _ Hsx) as Ht.
      repeat split; auto; apply Ht.
Qed.

(* ---- the global invariant ---- *)

Record pinv (st : gstate) : Prop := {
  pv_shared : shared_wf (g_locks st) (g_part st) (g_tmax st);
  pv_ws : Forall worker_wf (g_ws st);
  pv_pw : length (g_pw st) = k;
  pv_active : g_fin st = false -> all_done (g_ws st) = false
}.

Lemma thread_max_total pw : thread_max cf pw <> None.
Proof.
  induction pw as [|x pw IH]; cbn [thread_max]; [discriminate|].
  destruct (cf_hr cf (w_sub (cf_cap cf) x) (cf_tc cf)) eqn:E; [|destruct (hr_total _ E)].
  destruct (thread_max cf pw); [discriminate|congruence].
Qed.

Lemma init_workers_wf pw : length pw = k -> Forall worker_wf (init_workers cf pw).
Proof.
  intros Hpw. unfold init_workers. apply Forall_forall. intros w Hin.
  apply in_map_iff in Hin as (i & <- & Hi). apply in_seq in Hi.
  split; cbn [init_worker w_pc w_cur w_cut w_pw w_end]; auto.
  - unfold pc_wf. cbn [init_worker w_pc w_cur]. apply chunks_ok. lia.
  - unfold n_of. fold g. fold n. lia.
Qed.

Lemma init_workers_active pw : all_done (init_workers cf pw) = false.
Proof.
  unfold init_workers. destruct (cf_tc cf) as [|m] eqn:E; [lia|]. reflexivity.
Qed.

Lemma end_pass_pinv st st' :
  shared_wf (g_locks st) (g_part st) (g_tmax st) -> Forall worker_wf (g_ws st) -> length (g_pw st) = k ->
  end_pass cf st = Some st' -> pinv st'.
Proof.
  intros Hs Hws Hpw H. unfold end_pass in H.
  assert (Hlw : Forall (fun w => length (w_pw w) = k) (g_ws st)).
  { eapply Forall_impl; [|exact Hws]. intros w Hw. apply Hw. }
  pose proof (pw_sum_len k _ Hlw) as Ls.
  pose proof (pw_merge_len (cf_tc cf) _ _ k Ls Hpw) as Lm.
  destruct Hs as [Hll Hlp Hids Htm].
  destruct (_ =? 0).
  - injection H as <-. split; cbn [g_locks g_part g_ws g_pw g_tmax g_fin]; auto; try discriminate.
    split; auto.
  - destruct (thread_max cf _) as [tm|] eqn:Et; [|discriminate]. injection H as <-.
    pose proof (thread_max_len _ _ _ Et) as Ltm.
    split; cbn [g_locks g_part g_ws g_pw g_tmax g_fin]; auto.
    + split; auto. rewrite Ltm. exact Lm.
    + apply init_workers_wf. exact Lm.
    + intros _. apply init_workers_active.
Qed.

Lemma step_pinv st t st' : pinv st -> step cf st t = Some st' -> pinv st'.
Proof.
  intros [Hs Hws Hpw Hact] H. unfold step in H.
  destruct (g_fin st); [discriminate|].
  destruct (nth_opt (g_ws st) t) as [w|] eqn:Hw; [|discriminate].
  destruct (wstep cf _ _ _ w) as [[[locks' part'] w']|] eqn:Hstep; [|discriminate].
  destruct (wstep_wf _ _ _ _ _ _ _ Hs (Forall_nth_opt _ _ _ _ Hws Hw) Hstep) as [Hs' Hw'].
  assert (Hws' : Forall worker_wf (set_nth (g_ws st) t w')) by (apply Forall_set_nth; auto).
  cbn [g_ws] in H. destruct (all_done (set_nth (g_ws st) t w')) eqn:Hd.
  - eapply end_pass_pinv; [| | |exact H]; cbn [g_locks g_part g_ws g_pw g_tmax]; auto.
  - injection H as <-. split; cbn [g_locks g_part g_ws g_pw g_tmax g_fin]; auto.
Qed.

Lemma run_pinv sch : forall st st', pinv st -> run cf st sch = Some st' -> pinv st'.
Proof.
  induction sch as [|t sch IH]; intros st st' Hinv H; cbn [run] in H.
  - now injection H as <-.
  - destruct (step cf st t) as [st1|] eqn:Hs; [|discriminate].
    eapply IH; [|exact H]. eapply step_pinv; eauto.
Qed.

Lemma init_pinv p0 st0 : length p0 = n -> Forall (fun x => (x < k)%nat) p0 ->
  init_state cf p0 = Some st0 -> pinv st0.
Proof.
  intros Hl Hids. unfold init_state.
  destruct (thread_max cf _) as [tm|] eqn:Et; [|discriminate]. intros [= <-].
  pose proof (thread_max_len _ _ _ Et) as Ltm.
  assert (Ll : length (wloads (cf_vw cf) p0 (cf_k cf)) = k) by (unfold wloads; now rewrite map_length, seq_length).
  split; cbn [g_locks g_part g_ws g_pw g_tmax g_fin]; auto.
  - split; auto; [now rewrite repeat_length|]. now rewrite Ltm.
  - now apply init_workers_wf.
  - intros _. apply init_workers_active.
Qed.

(* no panic: every worker that is not done can perform its next access *)
Theorem step_no_panic st t w : pinv st -> g_fin st = false ->
  nth_opt (g_ws st) t = Some w -> w_pc w <> PDone -> step cf st t <> None.
Proof.
  intros [Hs Hws Hpw Hact] Hnf Hw Hnd. unfold step. rewrite Hnf, Hw.
  pose proof (Forall_nth_opt _ _ _ _ Hws Hw) as Hww.
  pose proof (wstep_progress _ _ _ _ Hs Hww Hnd) as Hp.
  destruct (wstep cf _ _ _ w) as [[[locks' part'] w']|] eqn:Hstep; [|congruence].
  clear Hact. cbn [g_ws]. destruct (all_done (set_nth (g_ws st) t w')); [|discriminate].
  unfold end_pass. destruct (_ =? 0); [discriminate|].
  match goal with |- context [thread_max cf ?x] => pose proof (thread_max_total x) as Ht; destruct (thread_max cf x) end;
    [discriminate|congruence].
Qed.

(* no deadlock: while the outer loop has not exited, some worker can move *)
Theorem step_no_deadlock st : pinv st -> g_fin st = false -> exists t st', step cf st t = Some st'.
Proof.
  intros Hinv Hnf. pose proof (pv_active _ Hinv Hnf) as Ha.
  assert (Hex : exists t w, nth_opt (g_ws st) t = Some w /\ w_pc w <> PDone).
  { clear - Ha. unfold all_done in Ha. induction (g_ws st) as [|w ws IH]; [discriminate|].
    cbn [forallb] in Ha. apply andb_false_iff in Ha as [Ha|Ha].
    - exists O, w. split; [reflexivity|]. intros E. rewrite E in Ha. discriminate.
    - destruct (IH Ha) as (t & w' & H1 & H2). exists (S t), w'. auto. }
  destruct Hex as (t & w & Hw & Hnd). exists t.
  pose proof (step_no_panic _ _ _ Hinv Hnf Hw Hnd) as Hp.
  destruct (step cf st t) as [st'|]; [eauto|congruence].
Qed.
End Progress.

End WithW.

(* The checker of Model/GridRcb.v is sound: when it accepts an output array,
   the array satisfies the statement of C10 (with the property's own balance
   clause).  Nothing is assumed of [rebuild]: the tree it proposes is verified. *)
From Coupe Require Import Lib.Prelude Lib.SFloat Model.GridRcb Proofs.GridRcbMedian Proofs.GridRcbTree.
Open Scope nat_scope.

Lemma adjacent_b_iff tot wl sr sl : adjacent_b tot wl sr sl = true <-> adjacent tot wl sr sl.
Proof. unfold adjacent_b, adjacent. lia. Qed.

Lemma bal_unit_b_iff tot wl sr sl : bal_unit_b tot wl sr sl = true <-> bal_unit tot wl sr sl.
Proof.
  unfold bal_unit_b, bal_unit, band_unit_b, band_unit. rewrite orb_true_iff, adjacent_b_iff, Z.leb_le. tauto.
Qed.

Lemma bal_i64_b_iff tot wl sr sl : bal_i64_b tot wl sr sl = true <-> bal_i64 tot wl sr sl.
Proof.
  unfold bal_i64_b, bal_i64, band_i64_b, band_i64. rewrite orb_true_iff, adjacent_b_iff.
  destruct (tot <? 2 ^ 46)%Z; unfold band_unit_b, band_unit, band_unit_rel_b, band_unit_rel; rewrite Z.leb_le; tauto.
Qed.

Lemma bal_rel_b_iff e tot wl sr sl : bal_rel_b e tot wl sr sl = true <-> bal_rel e tot wl sr sl.
Proof.
  unfold bal_rel_b, bal_rel, band_rel_b, band_rel. rewrite orb_true_iff, adjacent_b_iff, Z.leb_le. tauto.
Qed.

Lemma bal_prop_b_iff fw tot wl sr sl : bal_prop_b fw tot wl sr sl = true <-> bal_prop fw tot wl sr sl.
Proof. destruct fw; [apply bal_i64_b_iff|apply bal_rel_b_iff]. Qed.

Lemma TreeOK_mono D f (b1 b2 : Z -> Z -> Z -> Z -> Prop) :
  (forall t w r l, b1 t w r l -> b2 t w r l) ->
  forall d c sub t, TreeOK D f b1 d c sub t -> TreeOK D f b2 d c sub t.
Proof.
  intros Himp. induction 1 as [c sub|d c sub off Hn|d c sub off size p l r Hn Hsz Hp Hb Hl IHl Hr IHr].
  - constructor.
  - eapply T_leaf_empty; eauto.
  - eapply T_node; eauto. unfold node_bal in *. apply Himp. exact Hb.
Qed.

Lemma C10_spec_mono (b1 b2 : Z -> Z -> Z -> Z -> Prop) s ds ws k ids :
  (forall t w r l, b1 t w r l -> b2 t w r l) ->
  C10_spec b1 s ds ws k ids -> C10_spec b2 s ds ws k ids.
Proof.
  intros Himp (Hl & Hlt & t & Ht & Hc). split; [exact Hl|]. split; [exact Hlt|].
  exists t. split; [|exact Hc]. eapply TreeOK_mono; eauto.
Qed.

Section Sound.
Variables (bal : Z -> Z -> Z -> Z -> Prop) (balb : Z -> Z -> Z -> Z -> bool).
Hypothesis Hrefl : forall t w r l, balb t w r l = true -> bal t w r l.

Lemma check_tree_sound D f : forall t d c sub,
  check_tree D f balb d c sub t = true -> TreeOK D f bal d c sub t.
Proof.
  induction t as [|p l IHl r IHr]; intros d c sub H.
  - destruct d as [|d]; [constructor|]. cbn [check_tree] in H.
    destruct (nth_opt sub c) as [[off [|n]]|] eqn:En; try discriminate.
    eapply T_leaf_empty; eauto.
  - destruct d as [|d]; [discriminate|]. cbn [check_tree] in H.
    destruct (nth_opt sub c) as [[off size]|] eqn:En; [|discriminate].
    apply andb_true_iff in H as [H Hr]. apply andb_true_iff in H as [H Hl].
    apply andb_true_iff in H as [H Hb]. apply andb_true_iff in H as [H Hlt].
    apply andb_true_iff in H as [Hsz Hle].
    eapply T_node; eauto.
    + destruct (Nat.eqb_spec size 0); [discriminate|auto].
    + apply Nat.leb_le in Hle. apply Nat.ltb_lt in Hlt. lia.
    + unfold node_bal. apply Hrefl. assumption.
Qed.

Lemma list_eqb_N_eq a : forall b, list_eqb_N a b = true -> a = b.
Proof.
  induction a as [|x t IH]; intros [|y u] H; cbn [list_eqb_N] in H; try discriminate; auto.
  apply andb_true_iff in H as [H1 H2]. apply N.eqb_eq in H1. subst. f_equal. auto.
Qed.

Theorem check_C10_sound s ds ws k ids :
  check_C10 balb s ds ws k ids = true -> C10_spec bal s ds ws k ids.
Proof.
  unfold check_C10. intros H.
  apply andb_true_iff in H as [H Hrest]. apply andb_true_iff in H as [H Hlt].
  apply andb_true_iff in H as [H Hli]. apply andb_true_iff in H as [H Hlw].
  apply andb_true_iff in H as [Hz HD].
  apply andb_true_iff in Hrest as [Htree Hids].
  set (t := rebuild ds ids k s (into_subgrid ds)) in *.
  destruct (ids_of_tree ds t s) as [ids'| | |] eqn:Eids; try discriminate.
  apply list_eqb_N_eq in Hids. subst ids'.
  assert (HD' : length ds = 2 \/ length ds = 3).
  { apply orb_true_iff in HD as [E|E]; apply Nat.eqb_eq in E; auto. }
  assert (Hsides : Forall (fun s => 1 <= s) ds).
  { apply Forall_forall. intros x Hin. destruct x; [|lia]. exfalso.
    apply negb_true_iff in Hz. assert (existsb (Nat.eqb 0) ds = true); [|congruence].
    apply existsb_exists. exists 0. split; auto. }
  apply Nat.eqb_eq in Hli.
  unfold C10_spec. split; [exact Hli|]. split.
  - apply Forall_forall. intros q Hq. rewrite forallb_forall in Hlt. apply Hlt in Hq. apply N.ltb_lt in Hq. exact Hq.
  - exists t. split; [apply check_tree_sound; exact Htree|].
    intros i Hi. unfold ids_of_tree in Eids.
    destruct (map_res_inv _ _ _ Eids) as (_ & Hnth).
    destruct (Hnth i i ltac:(rewrite nth_opt_seq; auto)) as (q & Hq & Hn).
    destruct (position_of_ok ds i HD' Hsides Hi) as (pos & Hp & Hb & Hix & _).
    rewrite Hp in Hq. cbn [bind] in Hq. exists pos, q. auto.
Qed.
End Sound.

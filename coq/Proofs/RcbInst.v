(* The binary32 instance of the generic C03 results (Proofs/RcbProofs.v) with
   the order facts of Proofs/SFOrder.v. *)
From Coupe Require Import Lib.Prelude Lib.SFloat Model.Rcb Proofs.SFOrder Proofs.RcbProofs.
From Coq Require Import Floats.SpecFloat Permutation.
Open Scope Z_scope.

Definition to32 (pts : list (list spec_float)) : list (list spec_float) := map (map f64_to_f32) pts.
(* the binary32 image of every coordinate is a number (true of every finite f64) *)
Definition coords_ok (pts : list (list spec_float)) : Prop :=
  Forall (fun pt => Forall (fun c => f32_valid c = true) pt) (to32 pts).

Lemma f32_valid_f32v x : f32_valid x = f32v x.
Proof. reflexivity. Qed.

(* the binary32 coordinates the algorithm works on: the images under the cast
   of the variant (clamped to [f32::MIN, f32::MAX] or not) *)
Definition to32c (c : bool) (pts : list (list spec_float)) : list (list spec_float) := map (map (cast32 c)) pts.
Definition post32 (c : bool) (x : spec_float) : spec_float := if c then clamp32 x else x.

Lemma cast32_post c x : cast32 c x = post32 c (f64_to_f32 x).
Proof. destruct c; reflexivity. Qed.
Lemma to32c_post c pts : to32c c pts = map (map (post32 c)) (to32 pts).
Proof.
  unfold to32c, to32. rewrite map_map. apply map_ext. intros p. rewrite map_map. apply map_ext. intros x. apply cast32_post.
Qed.
Lemma to32c_false pts : to32c false pts = to32 pts.
Proof. reflexivity. Qed.

Lemma clamp32_nonnan x : f32v x = true -> f32v (clamp32 x) = true.
Proof.
  intros H. unfold clamp32. destruct (flt x f32_min_value); [destruct (flt f32_max_value f32_min_value); reflexivity|].
  destruct (flt f32_max_value x); [reflexivity|exact H].
Qed.
Lemma post32_nonnan c x : f32v x = true -> f32v (post32 c x) = true.
Proof. destruct c; [apply clamp32_nonnan|auto]. Qed.

Lemma coords_okc c pts : coords_ok pts ->
  Forall (fun pt => Forall (fun x => f32v x = true) pt) (to32c c pts).
Proof.
  unfold coords_ok. rewrite to32c_post. intros H. rewrite Forall_forall in *. intros q Hq.
  apply in_map_iff in Hq. destruct Hq as (p & <- & Hp). specialize (H p Hp).
  rewrite Forall_forall in *. intros y Hy. apply in_map_iff in Hy. destruct Hy as (x & <- & Hx).
  apply post32_nonnan. exact (H x Hx).
Qed.

Lemma mk_items_ix c : forall pts ws i, length pts = length ws ->
  map ix (mk_items c i pts ws) = seq (N.to_nat i) (length pts).
Proof.
  induction pts as [|p t IH]; intros [|w ws] i H; cbn [mk_items map length seq] in *; try discriminate; try reflexivity.
  rewrite IH by lia. f_equal. f_equal. lia.
Qed.
Lemma mk_items_co c : forall pts ws i, length pts = length ws ->
  map co (mk_items c i pts ws) = to32c c pts.
Proof.
  unfold to32c. induction pts as [|p t IH]; intros [|w ws] i H; cbn [mk_items map length] in *; try discriminate; try reflexivity.
  f_equal. apply IH. lia.
Qed.

Notation BT := (BisectTree spec_float flt).

(* C03: for EVERY variant of the cut search, tolerance, fuel and schedule *)
Theorem rcb_bisect_tree : forall v fuel sched D k tol pts ws p0 p,
  coords_ok pts ->
  rcb v fuel sched D k tol pts ws p0 = Ok p ->
  length p = length pts
  /\ (exists t, Permutation t (combine (to32c (v_clamp v) pts) p) /\ BT D k 0%nat t)
  /\ (pts <> [] -> Forall (fun i => (i < 2 ^ N.of_nat k)%N) p).
Proof.
  intros v fuel sched D k tol pts ws p0 p Hok H. unfold rcb in H.
  destruct (Nat.eqb (length ws) (length p0)) eqn:E1; cbn [negb] in H; [|discriminate].
  destruct (Nat.eqb (length pts) (length p0)) eqn:E2; cbn [negb] in H; [|discriminate].
  apply Nat.eqb_eq in E1, E2.
  destruct pts as [|pt0 pts'].
  - inversion H; subst. cbn in E2. destruct p; [|discriminate]. split; [reflexivity|]. split.
    + exists []. split; [constructor|]. apply bt_leaf. intros x y [].
    + intros Q; congruence.
  - cbv iota in H. set (pts := pt0 :: pts') in *.
    destruct (bbox32 (v_clamp v) D 0 pts) as [bb|]; [|discriminate].
    assert (Hlen : length pts = length ws) by lia.
    pose proof (rcb_core_bisect_tree spec_float flt fle (f32_mid (v_safe_mid v)) f32_sub f32_add f32_zero f32_inf
                  (tol_test tol) (v_old v) (v_by_coord v) (v_probe_max v) f32v
                  flt_irrefl flt_negtrans fle_flt
                  fuel sched D k (mk_items (v_clamp v) 0%N pts ws) (sumZ ws) bb p0 p) as T.
    destruct T as (A & B & Cc).
    + rewrite Forall_forall. intros it Hit. unfold vitem.
      assert (Hc : In (co it) (to32c (v_clamp v) pts)) by (rewrite <- (mk_items_co (v_clamp v) pts ws 0%N Hlen); apply in_map, Hit).
      pose proof (coords_okc (v_clamp v) pts Hok) as Hok'. rewrite Forall_forall in Hok'. exact (Hok' _ Hc).
    + rewrite mk_items_ix by exact Hlen. rewrite E2. reflexivity.
    + unfold pts. destruct ws; [cbn in Hlen; discriminate|]. cbn. discriminate.
    + exact H.
    + rewrite (mk_items_co (v_clamp v) pts ws 0%N Hlen) in B. split; [lia|]. split; [exact B|]. intros _; exact Cc.
Qed.

Lemma nth_error_combine {A B} : forall (a : list A) (b : list B) i x y,
  nth_error a i = Some x -> nth_error b i = Some y -> In (x, y) (combine a b).
Proof.
  induction a as [|a0 a IH]; intros [|b0 b] [|i] x y Ha Hb; cbn [nth_error combine] in *; try discriminate.
  - inversion Ha; inversion Hb; subst. left; reflexivity.
  - right. eapply IH; eassumption.
Qed.

Lemma combine_valid c pts (p : list N) : coords_ok pts ->
  Forall (fun x : list spec_float * N => Forall (fun c => f32v c = true) (fst x)) (combine (to32c c pts) p).
Proof.
  intros Hok. rewrite Forall_forall. intros [q i] Hx. apply in_combine_l in Hx.
  pose proof (coords_okc c pts Hok) as Hok'. rewrite Forall_forall in Hok'. exact (Hok' _ Hx).
Qed.

Lemma nth_error_map' {A B} (f : A -> B) : forall l i x, nth_error l i = Some x -> nth_error (map f l) i = Some (f x).
Proof. induction l as [|y t IH]; intros [|i] x H; cbn [nth_error map] in *; try discriminate; [inversion H; reflexivity|auto]. Qed.

(* corollary 1: every point belongs to exactly one part -- the result is a
   total function from points to ids (one id per point, all written) *)
Corollary rcb_one_part_per_point : forall v fuel sched D k tol pts ws p0 p,
  coords_ok pts -> rcb v fuel sched D k tol pts ws p0 = Ok p ->
  length p = length pts /\ (pts <> [] -> Forall (fun i => (i < 2 ^ N.of_nat k)%N) p).
Proof.
  intros v fuel sched D k tol pts ws p0 p Hok H.
  destruct (rcb_bisect_tree _ _ _ _ _ _ _ _ _ _ Hok H) as (A & _ & B). split; assumption.
Qed.

(* corollary 2: points with identical binary32 coordinates share a part *)
Corollary rcb_equal_points_share_part : forall v fuel sched D k tol pts ws p0 p i j c a b,
  coords_ok pts -> rcb v fuel sched D k tol pts ws p0 = Ok p ->
  nth_error (to32 pts) i = Some c -> nth_error (to32 pts) j = Some c ->
  nth_error p i = Some a -> nth_error p j = Some b -> a = b.
Proof.
  intros v fuel sched D k tol pts ws p0 p i j c a b Hok H Hi Hj Ha Hb.
  destruct (rcb_bisect_tree _ _ _ _ _ _ _ _ _ _ Hok H) as (_ & (t & Pt & Tt) & _).
  rewrite to32c_post in Pt.
  apply (nth_error_map' (map (post32 (v_clamp v)))) in Hi, Hj.
  pose proof (nth_error_combine _ _ _ _ _ Hi Ha) as I1.
  pose proof (nth_error_combine _ _ _ _ _ Hj Hb) as I2.
  apply (Permutation_in _ (Permutation_sym Pt)) in I1, I2.
  assert (Hv : Forall (fun x : list spec_float * N => Forall (fun c => f32v c = true) (fst x)) t).
  { pose proof (combine_valid (v_clamp v) pts p Hok) as Q. rewrite to32c_post in Q. rewrite Forall_forall in *. intros x Hx. apply Q.
    eapply Permutation_in; [exact Pt|exact Hx]. }
  exact (BisectTree_equal_coords spec_float flt f32v flt_irrefl D k 0%nat t Tt Hv _ _ I1 I2 eq_refl).
Qed.

(* the checker used on the implementation's outputs is sound *)
Theorem check_bisect32_sound : forall D k pts ids,
  check_bisect32 D k pts ids = true ->
  length pts = length ids /\ Forall (fun i => (i < 2 ^ N.of_nat k)%N) ids
  /\ exists t, Permutation t (combine (to32c true pts) ids) /\ BT D k 0%nat t.
Proof.
  intros D k pts ids H. unfold check_bisect32 in H.
  destruct (check_bisect_sound spec_float flt f32v flt_negtrans D k _ _ H) as (A & B & Cc).
  fold (to32c true pts) in *. unfold to32c in A. rewrite map_length in A. auto.
Qed.

(* Two properties model the same Rust functions by hand: C10 (Model/GridRcb.v, result type [res],
   D = 2, 3 only) and C16 (Model/Metrics.v, every D) both transcribe Grid::index_of,
   Grid::position_of and Grid::len of src/cartesian/mod.rs.  They are the same functions wherever
   C10's is defined, so the bijection / neighbour theorems of C16 speak about the index arithmetic
   Grid::rcb's model uses, and a change of the source that is absorbed into one model only cannot
   stay consistent with this file. *)
From Coupe Require Import Lib.Prelude.
From Coupe Require Model.GridRcb Model.Metrics.
Open Scope nat_scope.

Lemma grid_len_agrees ds : GridRcb.glen ds = Metrics.grid_len ds.
Proof. reflexivity. Qed.

Lemma index_of_agrees_2d w h x y :
  GridRcb.index_of [w; h] [x; y] = Ok (Metrics.index_of [w; h] [x; y]).
Proof. reflexivity. Qed.

Lemma index_of_agrees_3d w h d x y z :
  GridRcb.index_of [w; h; d] [x; y; z] = Ok (Metrics.index_of [w; h; d] [x; y; z]).
Proof. reflexivity. Qed.

Lemma position_of_agrees_2d w h i :
  GridRcb.position_of [w; h] i = Ok (Metrics.position_of [w; h] i).
Proof. reflexivity. Qed.

Lemma position_of_agrees_3d w h d i :
  GridRcb.position_of [w; h; d] i = Ok (Metrics.position_of [w; h; d] i).
Proof. reflexivity. Qed.

(* whenever C10's model answers at all, it answers what C16's model answers *)
Theorem grid_models_agree ds :
  GridRcb.glen ds = Metrics.grid_len ds
  /\ (forall pos i, GridRcb.index_of ds pos = Ok i -> Metrics.index_of ds pos = i)
  /\ (forall i pos, GridRcb.position_of ds i = Ok pos -> Metrics.position_of ds i = pos).
Proof.
  split; [reflexivity|]. split.
  - intros pos i H. destruct ds as [|w [|h [|d [|e t]]]]; try discriminate H.
    + destruct pos as [|x [|y [|z pt]]]; try discriminate H. injection H as <-. reflexivity.
    + destruct pos as [|x [|y [|z [|u pt]]]]; try discriminate H. injection H as <-. reflexivity.
  - intros i pos H. destruct ds as [|w [|h [|d [|e t]]]]; try discriminate H; injection H as <-; reflexivity.
Qed.

(* The per-cell check of Run/RunC08.v (Model.Hilbert.check_cell) is sound: it
   returns true on the outputs of ANY indexing of the grid that has the
   property (bijective onto [0,4^n), continuous, parent recurrence) — so a
   [false] on the implementation's outputs means the implementation does not
   have the property.  The proven curve is such an indexing (non-vacuity). *)
From Coupe Require Import Lib.Prelude Model.Hilbert Gen.HilbertTables
  Proofs.HilbertCurve Proofs.HilbertCert Proofs.HilbertInst.
Open Scope N_scope.

Definition in_grid2 (n : N) (c : N * N) : Prop := fst c < 2 ^ n /\ snd c < 2 ^ n.

(* the property C08 states, for an arbitrary indexing g of the order-n grid
   (gp: the indexing one order lower) *)
Record curve_ok2 (n : N) (g gp : N * N -> N) : Prop := {
  ok_range : forall c, in_grid2 n c -> g c < 2 ^ (2 * n);
  ok_inj : forall a b, in_grid2 n a -> in_grid2 n b -> g a = g b -> a = b;
  ok_surj : forall h, h < 2 ^ (2 * n) -> exists c, in_grid2 n c /\ g c = h;
  ok_cont : forall a b, in_grid2 n a -> in_grid2 n b -> g b = g a + 1 -> adjacent2 a b;
  ok_parent : n <> 0 -> forall c, in_grid2 n c -> g c / 4 = gp (fst c / 2, snd c / 2)
}.

Lemma in_nbrs1 side c c' : c < side -> (In c' (nbrs1 side c) <-> c' < side /\ (c' + 1 = c \/ c + 1 = c')).
Proof.
  intros Hc. unfold nbrs1. rewrite in_app_iff.
  destruct (N.ltb_spec 0 c), (N.ltb_spec (c + 1) side); cbn [In]; lia.
Qed.

Lemma in_nbrs2 n x y b : x < 2 ^ n -> y < 2 ^ n ->
  (In b (nbrs2 n x y) <-> in_grid2 n b /\ adjacent2 (x, y) b).
Proof.
  intros Hx Hy. unfold nbrs2, in_grid2, adjacent2. cbv zeta. rewrite in_app_iff, !in_map_iff.
  destruct b as [bx by_]. cbn [fst snd]. split.
  - intros [[x' [E H]] | [y' [E H]]]; inversion E; subst; apply in_nbrs1 in H; try assumption; lia.
  - intros [[Gx Gy] [[E H] | [E H]]].
    + right. exists by_. split; [subst; reflexivity | apply in_nbrs1; [assumption | lia]].
    + left. exists bx. split; [subst; reflexivity | apply in_nbrs1; [assumption | lia]].
Qed.

Lemma adjacent2_sym a b : adjacent2 a b -> adjacent2 b a.
Proof. unfold adjacent2. intros [[E H] | [E H]]; [left | right]; split; auto; lia. Qed.
Lemma adjacent2_neq a b : adjacent2 a b -> a <> b.
Proof. unfold adjacent2. intros [[E H] | [E H]] ->; lia. Qed.

Theorem check_cell2_sound n g gp x y :
  curve_ok2 n g gp -> x < 2 ^ n -> y < 2 ^ n ->
  check_cell 2 n (g (x, y)) (gp (x / 2, y / 2)) (map g (nbrs2 n x y)) = true.
Proof.
  intros OK Hx Hy. assert (G : in_grid2 n (x, y)) by (split; assumption).
  unfold check_cell. cbv zeta. change (2 ^ 2) with 4.
  pose proof (ok_range _ _ _ OK _ G) as R.
  repeat (apply andb_true_intro; split).
  - apply N.ltb_lt. assumption.
  - destruct (N.eqb_spec n 0) as [E|E]; [reflexivity|]. cbn [orb].
    apply N.eqb_eq. apply (ok_parent _ _ _ OK E (x, y) G).
  - destruct (N.ltb_spec (g (x, y) + 1) (2 ^ (2 * n))) as [Hs|Hs]; [|reflexivity]. cbn [negb orb].
    destruct (ok_surj _ _ _ OK _ Hs) as [b [Gb Eb]].
    apply existsb_exists. exists (g b). split; [| apply N.eqb_eq; assumption].
    apply in_map, in_nbrs2; try assumption. split; [assumption|].
    apply (ok_cont _ _ _ OK); assumption.
  - destruct (N.eqb_spec (g (x, y)) 0) as [E|E]; [reflexivity|]. cbn [orb].
    assert (Hp : g (x, y) - 1 < 2 ^ (2 * n)) by lia.
    destruct (ok_surj _ _ _ OK _ Hp) as [a [Ga Ea]].
    apply existsb_exists. exists (g a). split; [| apply N.eqb_eq; lia].
    apply in_map, in_nbrs2; try assumption. split; [assumption|].
    apply adjacent2_sym. apply (ok_cont _ _ _ OK); try assumption. lia.
  - apply forallb_forall. intros h' Hin. apply in_map_iff in Hin. destruct Hin as [b [Eb Hb]].
    apply in_nbrs2 in Hb; try assumption. destruct Hb as [Gb Ab].
    apply negb_true_iff, N.eqb_neq. intros E. subst h'.
    apply (adjacent2_neq _ _ Ab). symmetry. apply (ok_inj _ _ _ OK); assumption.
Qed.

(* the proven curve has the property, at every order and from every start state *)
Theorem hilbert2_curve_ok (n : nat) s : s < 4 ->
  curve_ok2 (N.of_nat n) (fun c => enc2 n s (fst c) (snd c))
            (fun c => enc2 (Nat.pred n) s (fst c) (snd c)).
Proof.
  intros Hs.
  assert (P4 : 2 ^ (2 * N.of_nat n) = 4 ^ N.of_nat n) by (rewrite N.pow_mul_r; reflexivity).
  constructor.
  - intros c _. rewrite P4. apply enc2_lt. assumption.
  - intros [ax ay] [bx by_] [A1 A2] [B1 B2] E. cbn [fst snd] in *.
    rewrite <- (dec2_enc2 n s ax ay), <- (dec2_enc2 n s bx by_) by assumption. rewrite E. reflexivity.
  - intros h Hh. rewrite P4 in Hh. exists (dec2 n s h). split.
    + apply dec2_lt.
    + apply enc2_dec2; assumption.
  - intros [ax ay] [bx by_] [A1 A2] [B1 B2] E. cbn [fst snd] in *.
    rewrite <- (dec2_enc2 n s ax ay), <- (dec2_enc2 n s bx by_) by assumption. rewrite E.
    apply dec2_continuous; [assumption|]. rewrite <- E. apply enc2_lt. assumption.
  - intros Hn [cx cy] _. cbn [fst snd]. destruct n as [|m]; [contradiction Hn; reflexivity|].
    cbn [Nat.pred]. apply enc2_parent. assumption.
Qed.

(* ================================================================== 3-D *)
From Coupe Require Import Proofs.HilbertEncode2D Proofs.HilbertPdep Proofs.HilbertInterleave Proofs.Hilbert3D.

Definition in_grid3 (n : N) (c : N * N * N) : Prop :=
  let '(x, y, z) := c in x < 2 ^ n /\ y < 2 ^ n /\ z < 2 ^ n.
Definition half3 (c : N * N * N) : N * N * N := let '(x, y, z) := c in (x / 2, y / 2, z / 2).

Record curve_ok3 (n : N) (g gp : N * N * N -> N) : Prop := {
  ok3_range : forall c, in_grid3 n c -> g c < 2 ^ (3 * n);
  ok3_inj : forall a b, in_grid3 n a -> in_grid3 n b -> g a = g b -> a = b;
  ok3_surj : forall h, h < 2 ^ (3 * n) -> exists c, in_grid3 n c /\ g c = h;
  ok3_cont : forall a b, in_grid3 n a -> in_grid3 n b -> g b = g a + 1 -> adjacent3 a b;
  ok3_parent : n <> 0 -> forall c, in_grid3 n c -> g c / 8 = gp (half3 c)
}.

Lemma in_nbrs3 n x y z b : x < 2 ^ n -> y < 2 ^ n -> z < 2 ^ n ->
  (In b (nbrs3 n x y z) <-> in_grid3 n b /\ adjacent3 (x, y, z) b).
Proof.
  intros Hx Hy Hz. unfold nbrs3, in_grid3, adjacent3. cbv zeta. rewrite !in_app_iff, !in_map_iff.
  destruct b as [[bx by_] bz]. split.
  - intros [[x' [E H]] | [[y' [E H]] | [z' [E H]]]]; inversion E; subst; apply in_nbrs1 in H; try assumption; lia.
  - intros [[Gx [Gy Gz]] [[E1 [E2 H]] | [[E1 [E2 H]] | [E1 [E2 H]]]]].
    + left. exists bx. split; [subst; reflexivity | apply in_nbrs1; [assumption | lia]].
    + right; left. exists by_. split; [subst; reflexivity | apply in_nbrs1; [assumption | lia]].
    + right; right. exists bz. split; [subst; reflexivity | apply in_nbrs1; [assumption | lia]].
Qed.

Lemma adjacent3_sym a b : adjacent3 a b -> adjacent3 b a.
Proof.
  destruct a as [[ax ay] az], b as [[bx by_] bz]. unfold adjacent3.
  intros [[E1 [E2 H]] | [[E1 [E2 H]] | [E1 [E2 H]]]]; [left | right; left | right; right]; repeat split; auto; lia.
Qed.
Lemma adjacent3_neq a b : adjacent3 a b -> a <> b.
Proof.
  destruct a as [[ax ay] az], b as [[bx by_] bz]. unfold adjacent3.
  intros [[E1 [E2 H]] | [[E1 [E2 H]] | [E1 [E2 H]]]] E; inversion E; lia.
Qed.

Theorem check_cell3_sound n g gp x y z :
  curve_ok3 n g gp -> x < 2 ^ n -> y < 2 ^ n -> z < 2 ^ n ->
  check_cell 3 n (g (x, y, z)) (gp (x / 2, y / 2, z / 2)) (map g (nbrs3 n x y z)) = true.
Proof.
  intros OK Hx Hy Hz. assert (G : in_grid3 n (x, y, z)) by (repeat split; assumption).
  unfold check_cell. cbv zeta. change (2 ^ 3) with 8.
  pose proof (ok3_range _ _ _ OK _ G) as R.
  repeat (apply andb_true_intro; split).
  - apply N.ltb_lt. assumption.
  - destruct (N.eqb_spec n 0) as [E|E]; [reflexivity|]. cbn [orb].
    apply N.eqb_eq. apply (ok3_parent _ _ _ OK E (x, y, z) G).
  - destruct (N.ltb_spec (g (x, y, z) + 1) (2 ^ (3 * n))) as [Hs|Hs]; [|reflexivity]. cbn [negb orb].
    destruct (ok3_surj _ _ _ OK _ Hs) as [b [Gb Eb]].
    apply existsb_exists. exists (g b). split; [| apply N.eqb_eq; assumption].
    apply in_map, in_nbrs3; try assumption. split; [assumption|].
    apply (ok3_cont _ _ _ OK); assumption.
  - destruct (N.eqb_spec (g (x, y, z)) 0) as [E|E]; [reflexivity|]. cbn [orb].
    assert (Hp : g (x, y, z) - 1 < 2 ^ (3 * n)) by lia.
    destruct (ok3_surj _ _ _ OK _ Hp) as [a [Ga Ea]].
    apply existsb_exists. exists (g a). split; [| apply N.eqb_eq; lia].
    apply in_map, in_nbrs3; try assumption. split; [assumption|].
    apply adjacent3_sym. apply (ok3_cont _ _ _ OK); try assumption. lia.
  - apply forallb_forall. intros h' Hin. apply in_map_iff in Hin. destruct Hin as [b [Eb Hb]].
    apply in_nbrs3 in Hb; try assumption. destruct Hb as [Gb Ab].
    apply negb_true_iff, N.eqb_neq. intros E. subst h'.
    apply (adjacent3_neq _ _ Ab). symmetry. apply (ok3_inj _ _ _ OK); assumption.
Qed.

Theorem hilbert3_curve_ok (n : nat) s : s < 12 ->
  curve_ok3 (N.of_nat n) (fun c => let '(x, y, z) := c in enc3 n s x y z)
            (fun c => let '(x, y, z) := c in enc3 (Nat.pred n) s x y z).
Proof.
  intros Hs.
  assert (P8 : 2 ^ (3 * N.of_nat n) = 8 ^ N.of_nat n) by (rewrite N.pow_mul_r; reflexivity).
  constructor.
  - intros [[cx cy] cz] _. rewrite P8. apply enc3_lt. assumption.
  - intros [[ax ay] az] [[bx by_] bz] [A1 [A2 A3]] [B1 [B2 B3]] E.
    rewrite <- (dec3_enc3 n s ax ay az), <- (dec3_enc3 n s bx by_ bz) by assumption. rewrite E. reflexivity.
  - intros h Hh. rewrite P8 in Hh. exists (dec3 n s h). split.
    + pose proof (dec3_lt n s h) as L. unfold in_grid3. destruct (dec3 n s h) as [[a b] c]. exact L.
    + pose proof (enc3_dec3 n s h Hs Hh) as L. destruct (dec3 n s h) as [[a b] c]. exact L.
  - intros [[ax ay] az] [[bx by_] bz] [A1 [A2 A3]] [B1 [B2 B3]] E.
    rewrite <- (dec3_enc3 n s ax ay az), <- (dec3_enc3 n s bx by_ bz) by assumption. rewrite E.
    apply dec3_continuous; [assumption|]. rewrite <- E. apply enc3_lt. assumption.
  - intros Hn [[cx cy] cz] _. cbn [half3]. destruct n as [|m]; [contradiction Hn; reflexivity|].
    cbn [Nat.pred]. apply enc3_parent. assumption.
Qed.

(* ------------------------------------ the check at every cell of the grid *)
Lemma in_all_cells2 n c : In c (all_cells2 n) -> in_grid2 n c.
Proof.
  unfold all_cells2. cbv zeta. rewrite in_flat_map. intros [x [Hx Hc]].
  apply in_map_iff in Hc. destruct Hc as [y [E Hy]]. subst c.
  apply in_map_iff in Hx. destruct Hx as [i [Ei Hi]]. apply in_map_iff in Hy. destruct Hy as [j [Ej Hj]].
  apply in_seq in Hi. apply in_seq in Hj. split; cbn [fst snd]; lia.
Qed.

Theorem check_table2_sound n g gp : curve_ok2 n g gp -> check_table2 n g gp = true.
Proof.
  intros OK. unfold check_table2. apply forallb_forall. intros [x y] Hc.
  apply in_all_cells2 in Hc. destruct Hc as [Hx Hy]. cbn [fst snd] in *.
  apply check_cell2_sound; assumption.
Qed.

Lemma in_all_cells3 n c : In c (all_cells3 n) -> in_grid3 n c.
Proof.
  unfold all_cells3. cbv zeta. rewrite in_flat_map. intros [x [Hx Hc]].
  apply in_flat_map in Hc. destruct Hc as [y [Hy Hc]].
  apply in_map_iff in Hc. destruct Hc as [z [E Hz]]. subst c.
  apply in_map_iff in Hx. destruct Hx as [i [Ei Hi]]. apply in_map_iff in Hy. destruct Hy as [j [Ej Hj]].
  apply in_map_iff in Hz. destruct Hz as [k [Ek Hk]].
  apply in_seq in Hi. apply in_seq in Hj. apply in_seq in Hk. unfold in_grid3. lia.
Qed.

Theorem check_table3_sound n g gp : curve_ok3 n g gp -> check_table3 n g gp = true.
Proof.
  intros OK. unfold check_table3. apply forallb_forall. intros [[x y] z] Hc.
  apply in_all_cells3 in Hc. destruct Hc as [Hx [Hy Hz]].
  apply check_cell3_sound; assumption.
Qed.

(* ArcSwap: assembly of the three stages into the statements of Properties/C05.v,
   the instance for the configuration arc_swap derives from its arguments, the
   link between an accepted trace and a schedule, and the certified checker. *)
From Coupe Require Import Lib.Prelude Model.ArcSwap Proofs.ArcSwapCut Proofs.ArcSwapProto
  Proofs.ArcSwapAcct Proofs.ArcSwapCaps Proofs.ArcSwapProgress Proofs.ArcSwapTerm.
Open Scope Z_scope.

Lemma critical_phase p v : critical_on p = Some v <-> phase_of p = PhCrit v.
Proof.
  destruct p as [ | | | | | | | ? r | | | ]; cbn; try (split; intros H; discriminate H);
    try (split; intros H; injection H as <-; reflexivity).
  destruct r; cbn; split; intros H; try discriminate H; injection H as <-; reflexivity.
Qed.

Section Safe.
Variable cf : config.
Let g := cf_g cf.
Let k := cf_k cf.
Let vw := cf_vw cf.
Variable p0 : list nat.
Hypothesis Hg : graph_ok g.
Hypothesis len_p0 : length p0 = length g.
Hypothesis ids_p0 : Forall (fun x => (x < k)%nat) p0.

Lemma reach_ginv st0 sch st : init_state cf p0 = Some st0 -> run cf st0 sch = Some st -> ginv cf p0 st.
Proof.
  destruct Hg as [H1 H2 H3]. intros Hi Hr.
  eapply run_ginv; eauto. eapply init_ginv; eauto.
Qed.

Lemma ginv_mutex st : ginv cf p0 st -> no_adjacent_critical g st.
Proof.
  intros Hinv t t' w w' v u Hne Hw Hw' Hc Hc' Hadj.
  apply critical_phase in Hc, Hc'.
  exact (proto_mutex g (go_nbrs _ Hg) _ _ t t' w w' v u (gi_proto _ _ _ Hinv) Hw Hw' Hne Hc Hc' Hadj).
Qed.

(* stage 1 *)
Theorem arcswap_mutex st0 sch st :
  init_state cf p0 = Some st0 -> run cf st0 sch = Some st -> no_adjacent_critical g st.
Proof. intros Hi Hr. apply ginv_mutex. eapply reach_ginv; eauto. Qed.

(* stage 1: the gain about to be applied is the cut delta of the store, and is positive *)
Theorem arcswap_gain_exact st0 sch st t w v ip tg gn :
  init_state cf p0 = Some st0 -> run cf st0 sch = Some st ->
  nth_opt (g_ws st) t = Some w -> w_pc w = PStore v ip tg gn ->
  cut g (set_nth (g_part st) v tg) = cut g (g_part st) - gn /\ 0 < gn /\ pid (g_part st) v = ip /\ tg <> ip.
Proof.
  intros Hi Hr Hw Hpc. pose proof (reach_ginv _ _ _ Hi Hr) as Hinv.
  pose proof (gi_gain _ _ _ Hinv _ _ Hw) as Hgw. unfold gain_ok in Hgw. rewrite Hpc in Hgw.
  destruct Hgw as (Hip & Hvl & Htg & Htk & Hgn & Hpos).
  assert (Hcrit : wphase w = PhCrit v) by (unfold wphase; now rewrite Hpc).
  assert (Hv : (v < length g)%nat) by (unfold g; rewrite <- (gi_len _ _ _ Hinv); exact Hvl).
  repeat split; auto.
  rewrite (cut_store g (go_wt _ Hg) (go_range _ Hg) (g_part st) v tg Hvl Hv
             (proto_no_self_loop g _ _ t w v (gi_proto _ _ _ Hinv) Hw Hcrit)) by congruence.
  rewrite Hip. fold g in Hgn. rewrite <- Hgn. reflexivity.
Qed.

(* stage 2 *)
Theorem arcswap_accounting st0 sch st :
  init_state cf p0 = Some st0 -> run cf st0 sch = Some st ->
  cut g p0 - cut g (g_part st) = total_gain st /\ 0 <= total_gain st
  /\ length (g_part st) = length p0 /\ Forall (fun x => (x < k)%nat) (g_part st)
  /\ relabelled p0 (g_part st) <= total_moves st.
Proof.
  intros Hi Hr. destruct (reach_ginv _ _ _ Hi Hr) as [_ _ Hlen Hids Hacct [Hp1 Hp2] Hmoves].
  unfold total_gain, total_moves. repeat split; auto.
  - pose proof (sum_gain_nonneg _ Hp2). unfold sum_gain in *. change wgain with (fun w => md_gain (w_md w)) in *. lia.
  - rewrite Hlen. symmetry. exact len_p0.
Qed.

(* stage 3 *)
Hypothesis vw_nonneg : Forall (fun x => 0 <= x) vw.
Hypothesis Hhr : hr_ok cf.

Lemma hr_ok_on_of_hr_ok : hr_ok cf -> hr_ok_on cf 0.
Proof.
  intros H d h _ Hh. destruct (H d h Hh) as [A B]. split; [|exact B].
  intros Hd. destruct (A Hd). split; lia.
Qed.

Lemma reach_cinv_slack slack st0 sch st : 0 <= slack -> hr_ok_on cf slack ->
  init_state cf p0 = Some st0 -> run cf st0 sch = Some st -> cinv cf slack p0 st.
Proof.
  destruct Hg as [H1 H2 H3]. intros Hs Hon Hi Hr.
  eapply (run_inv cf H1 H2 H3 vw_nonneg slack Hs Hon); [exact len_p0| | |exact Hr].
  - eapply init_ginv; eauto.
  - eapply init_cinv; eauto.
Qed.

Lemma reach_cinv st0 sch st : init_state cf p0 = Some st0 -> run cf st0 sch = Some st -> cinv cf 0 p0 st.
Proof. apply reach_cinv_slack; [lia|apply hr_ok_on_of_hr_ok; exact Hhr]. Qed.

(* the caps up to [slack], for a share that may over-allocate by [slack] in total *)
Theorem arcswap_caps_slack slack st0 sch st : 0 <= slack -> hr_ok_on cf slack ->
  init_state cf p0 = Some st0 -> run cf st0 sch = Some st ->
  forall q, (q < k)%nat -> load vw (g_part st) q <= Z.max (load vw p0 q) (cf_cap cf + slack).
Proof.
  intros Hs Hon Hi Hr. eapply cinv_caps; eauto. eapply reach_cinv_slack; eauto.
Qed.

Theorem arcswap_caps st0 sch st :
  init_state cf p0 = Some st0 -> run cf st0 sch = Some st ->
  forall q, (q < k)%nat -> load vw (g_part st) q <= Z.max (load vw p0 q) (cf_cap cf).
Proof.
  intros Hi Hr q Hq.
  pose proof (arcswap_caps_slack 0 st0 sch st ltac:(lia) (hr_ok_on_of_hr_ok Hhr) Hi Hr q Hq) as H.
  now rewrite Z.add_0_r in H.
Qed.

(* when the outer loop has exited, the totals are the returned Metadata *)
Theorem arcswap_final st0 sch st :
  init_state cf p0 = Some st0 -> run cf st0 sch = Some st -> g_fin st = true ->
  total_gain st = md_gain (g_md st) /\ total_moves st = md_moves (g_md st).
Proof.
  intros Hi Hr Hf. pose proof (ci_fin _ _ _ _ (reach_cinv _ _ _ Hi Hr) Hf) as E.
  unfold total_gain, total_moves. rewrite E. cbn. lia.
Qed.

(* everything at once (DESIGN §13) *)
Theorem arcswap_safe st0 sch st :
  init_state cf p0 = Some st0 -> run cf st0 sch = Some st ->
  no_adjacent_critical g st
  /\ cut g p0 - cut g (g_part st) = total_gain st /\ 0 <= total_gain st
  /\ (forall q, (q < k)%nat -> load vw (g_part st) q <= Z.max (load vw p0 q) (cf_cap cf))
  /\ length (g_part st) = length p0 /\ Forall (fun x => (x < k)%nat) (g_part st)
  /\ relabelled p0 (g_part st) <= total_moves st
  /\ (g_fin st = true -> total_gain st = md_gain (g_md st) /\ total_moves st = md_moves (g_md st)).
Proof.
  intros Hi Hr.
  destruct (arcswap_accounting _ _ _ Hi Hr) as (A1 & A2 & A3 & A4 & A5).
  repeat split; auto.
  - eapply arcswap_mutex; eauto.
  - eapply arcswap_caps; eauto.
  - eapply arcswap_final; eauto.
  - eapply arcswap_final; eauto.
Qed.
End Safe.

(* ------------------------------------ the configuration arc_swap derives *)

Lemma headroom_checked_ok cf : cf_hr cf = headroom_checked -> hr_ok cf.
Proof.
  intros E d h. rewrite E. unfold headroom_checked. destruct (headroom_f64 d (cf_tc cf)) as [a|]; [|discriminate].
  destruct (Z.eqb_spec a (Z.quot d (Z.of_nat (cf_tc cf)))) as [->|]; [|discriminate]. intros [= <-].
  set (n := Z.of_nat (cf_tc cf)). assert (Hn : 0 <= n) by (unfold n; lia).
  destruct (Z.eq_dec n 0) as [E0|N0].
  - rewrite E0. replace (d ÷ 0) with 0 by (destruct d; reflexivity). split; intros; lia.
  - split.
    + intros Hd. split; [apply Z.quot_pos; lia|]. pose proof (Z.mul_quot_le d n Hd N0). lia.
    + intros Hd. pose proof (Z.mul_quot_ge d n Hd N0). nia.
Qed.

Lemma list_max_nat_ge l x : In x l -> (x <= list_max_nat l)%nat.
Proof.
  unfold list_max_nat. induction l as [|y l IH]; cbn [In fold_right]; [tauto|].
  intros [->|H]; [lia|]. specialize (IH H). lia.
Qed.

Lemma part_count_bound p0 : Forall (fun x => (x < part_count p0)%nat) p0.
Proof.
  apply Forall_forall. intros x Hx. apply list_max_nat_ge in Hx. unfold part_count. lia.
Qed.

Lemma config_of_fields hr g vw p0 T cap :
  let cf := config_of hr g vw p0 T cap in
  cf_g cf = g /\ cf_vw cf = vw /\ cf_k cf = part_count p0 /\ cf_cap cf = cap /\ cf_hr cf = hr.
Proof. unfold config_of. destruct (work_share (length p0) T). cbn. auto. Qed.

(* an accepted trace is a schedule *)
Lemma replay_run cf tr : forall st st', replay cf st tr = Some st' -> run cf st (map e_task tr) = Some st'.
Proof.
  induction tr as [|e tr IH]; intros st st' H; cbn [replay map run] in *; [exact H|].
  destruct (nth_opt (g_ws st) (e_task e)); [|discriminate].
  destruct (next_access _ _ _) as [[[ka i] v]|]; [|discriminate].
  destruct (_ && _); [|discriminate].
  destruct (step cf st (e_task e)); [|discriminate]. auto.
Qed.

(* ------------------------------------------------- the certified checker *)

Lemma check_valid_ok n k p : check_valid n k p = true <-> length p = n /\ Forall (fun x => (x < k)%nat) p.
Proof.
  unfold check_valid. rewrite andb_true_iff, Nat.eqb_eq, forallb_forall, Forall_forall.
  split; intros [H1 H2]; split; auto; intros x Hx; apply Nat.ltb_lt; auto.
Qed.

Lemma check_caps_ok vw p0 k cap p : check_caps vw p0 k cap p = true <->
  forall q, (q < k)%nat -> load vw p q <= Z.max (load vw p0 q) cap.
Proof.
  unfold check_caps. rewrite forallb_forall. split.
  - intros H q Hq. apply Z.leb_le, H, in_seq. lia.
  - intros H q Hq. apply Z.leb_le, H. apply in_seq in Hq. lia.
Qed.

Theorem check_C05_ok g vw p0 cap tasks tr o :
  check_C05 g vw p0 cap tasks tr o = true <->
  (length (o_part o) = length p0 /\ Forall (fun x => (x < part_count p0)%nat) (o_part o))
  /\ (cut g p0 - cut g (o_part o) = o_gain o /\ 0 <= o_gain o)
  /\ (forall q, (q < part_count p0)%nat -> load vw (o_part o) q <= Z.max (load vw p0 q) cap)
  /\ relabelled p0 (o_part o) <= o_moves o
  /\ trace_mutex g (repeat TIdle tasks) tr = true.
Proof.
  unfold check_C05, check_accounting, check_moves.
  rewrite !andb_true_iff, check_valid_ok, check_caps_ok, Z.eqb_eq, !Z.leb_le. tauto.
Qed.

(* ------------------------------------------------ the decidable contract *)

Lemma row_out g v : (length g <= v)%nat -> row g v = [].
Proof. intros H. unfold row. now apply nth_overflow. Qed.

Lemma graph_okb_ok g : graph_okb g = true -> graph_ok g.
Proof.
  unfold graph_okb. rewrite !andb_true_iff. intros [[Hn Hs] Hr].
  assert (Hrange : forall a u, In u (nbrs g a) -> (u < length g)%nat).
  { intros a u Hin. destruct (Nat.lt_ge_cases a (length g)) as [La|La].
    - unfold rows_in_range in Hr. rewrite forallb_forall in Hr.
      specialize (Hr (row g a) (nth_In _ _ La)). rewrite forallb_forall in Hr.
      unfold nbrs in Hin. apply in_map_iff in Hin as (e & <- & He). apply Nat.ltb_lt. now apply Hr.
    - unfold nbrs in Hin. rewrite row_out in Hin by assumption. destruct Hin. }
  split; [| |exact Hrange].
  - intros v u Hin. destruct (Nat.lt_ge_cases v (length g)) as [Lv|Lv].
    + unfold nbrs_symb in Hn. rewrite forallb_forall in Hn.
      assert (Hv : In v (seq 0 (length g))) by (apply in_seq; lia).
      specialize (Hn v Hv). rewrite forallb_forall in Hn. specialize (Hn u Hin).
      apply existsb_exists in Hn as (x & Hx & E). apply Nat.eqb_eq in E. now subst x.
    + unfold nbrs in Hin. rewrite row_out in Hin by assumption. destruct Hin.
  - assert (Hout : forall a b, (length g <= a)%nat -> wt g a b = 0 /\ wt g b a = 0).
    { intros a b La. split.
      - unfold wt. now rewrite row_out.
      - rewrite wt_wtr. apply wtr_notin. intros Hin. apply (Hrange b a) in Hin. lia. }
    intros a b. destruct (Nat.lt_ge_cases a (length g)) as [La|La]; [|destruct (Hout a b La); lia].
    destruct (Nat.lt_ge_cases b (length g)) as [Lb|Lb]; [|destruct (Hout b a Lb); lia].
    unfold symmetricb in Hs. rewrite forallb_forall in Hs.
    assert (Ha : In a (seq 0 (length g))) by (apply in_seq; lia).
    assert (Hb : In b (seq 0 (length g))) by (apply in_seq; lia).
    specialize (Hs a Ha). rewrite forallb_forall in Hs. specialize (Hs b Hb). now apply Z.eqb_eq.
Qed.

(* ------------------- the statement for arc_swap's own configuration *)

Theorem arcswap_safe_impl g vw p0 T cap st0 sch st :
  graph_ok g -> length p0 = length g -> Forall (fun x => 0 <= x) vw ->
  let cf := config_of headroom_checked g vw p0 T cap in
  init_state cf p0 = Some st0 -> run cf st0 sch = Some st ->
  no_adjacent_critical g st
  /\ cut g p0 - cut g (g_part st) = total_gain st /\ 0 <= total_gain st
  /\ (forall q, (q < part_count p0)%nat -> load vw (g_part st) q <= Z.max (load vw p0 q) cap)
  /\ length (g_part st) = length p0 /\ Forall (fun x => (x < part_count p0)%nat) (g_part st)
  /\ relabelled p0 (g_part st) <= total_moves st
  /\ (g_fin st = true -> total_gain st = md_gain (g_md st) /\ total_moves st = md_moves (g_md st)).
Proof.
  intros Hg Hl Hvw cf Hi Hr.
  destruct (config_of_fields headroom_checked g vw p0 T cap) as (E1 & E2 & E3 & E4 & E5). fold cf in E1, E2, E3, E4, E5.
  pose proof (arcswap_safe cf p0) as S. rewrite E1, E2, E3, E4 in S.
  apply (S Hg Hl (part_count_bound p0) Hvw (headroom_checked_ok cf E5) st0 sch st Hi Hr).
Qed.

(* a run of the implementation whose recorded trace the machine accepts is covered *)
Corollary arcswap_replayed_safe g vw p0 T cap st0 tr st :
  graph_ok g -> length p0 = length g -> Forall (fun x => 0 <= x) vw ->
  let cf := config_of headroom_checked g vw p0 T cap in
  init_state cf p0 = Some st0 -> replay cf st0 tr = Some st -> g_fin st = true ->
  cut g p0 - cut g (g_part st) = md_gain (g_md st) /\ 0 <= md_gain (g_md st)
  /\ (forall q, (q < part_count p0)%nat -> load vw (g_part st) q <= Z.max (load vw p0 q) cap)
  /\ length (g_part st) = length p0 /\ Forall (fun x => (x < part_count p0)%nat) (g_part st)
  /\ relabelled p0 (g_part st) <= md_moves (g_md st).
Proof.
  intros Hg Hl Hvw cf Hi Hr Hf. apply replay_run in Hr.
  destruct (arcswap_safe_impl g vw p0 T cap st0 _ st Hg Hl Hvw Hi Hr) as (_ & A & B & C & D & E & F & G).
  destruct (G Hf) as [G1 G2]. rewrite G1 in A, B. rewrite G2 in F. repeat split; auto.
Qed.

(* ------------------------------------ a scheduler, for non-vacuity examples *)

Definition active (w : worker) : bool := match w_pc w with PDone => false | _ => true end.
Fixpoint pick_from (ws : list worker) (n : nat) (cands : list nat) : option nat :=
  match cands with
  | [] => None
  | t :: r => match nth_opt ws t with
              | Some w => if active w then Some t else pick_from ws n r
              | None => pick_from ws n r
              end
  end.
(* round-robin over the active workers, starting after [last] *)
Fixpoint drive (cf : config) (fuel : nat) (last : nat) (st : gstate) (acc : list nat) : list nat * gstate :=
  match fuel with
  | O => (rev acc, st)
  | S f =>
    if g_fin st then (rev acc, st)
    else
      let tc := length (g_ws st) in
      match pick_from (g_ws st) tc (map (fun i => Nat.modulo (last + 1 + i) tc) (seq 0 tc)) with
      | None => (rev acc, st)
      | Some t => match step cf st t with
                  | Some st' => drive cf f t st' (t :: acc)
                  | None => (rev acc, st)
                  end
      end
  end.

(* --------------------------------------------- no panic, no deadlock *)

(* the side conditions on a configuration under which the machine cannot panic *)
Record config_wf (cf : config) : Prop := {
  cw_range : forall a u, In u (nbrs (cf_g cf) a) -> (u < length (cf_g cf))%nat;
  cw_vw : length (cf_vw cf) = length (cf_g cf);
  cw_k : (2 <= cf_k cf)%nat;
  cw_chunks : forall i, (i < cf_tc cf)%nat -> (cf_ipt cf * i < length (cf_g cf))%nat;
  cw_tc : (1 <= cf_tc cf)%nat;
  cw_hr : forall d, cf_hr cf d (cf_tc cf) <> None
}.

Theorem arcswap_no_panic cf p0 : config_wf cf ->
  length p0 = length (cf_g cf) -> Forall (fun x => (x < cf_k cf)%nat) p0 ->
  init_state cf p0 <> None /\
  forall st0 sch st, init_state cf p0 = Some st0 -> run cf st0 sch = Some st -> g_fin st = false ->
    (forall t w, nth_opt (g_ws st) t = Some w -> w_pc w <> PDone -> step cf st t <> None)
    /\ exists t st', step cf st t = Some st'.
Proof.
  intros [H1 H2 H3 H4 H5 H6] Hl Hids. split.
  - unfold init_state. pose proof (thread_max_total cf H6 (wloads (cf_vw cf) p0 (cf_k cf))) as Ht.
    destruct (thread_max cf _); [discriminate|congruence].
  - intros st0 sch st Hi Hr Hnf.
    assert (Hp : pinv cf st).
    { eapply run_pinv; [.. | exact Hr]; eauto. eapply init_pinv; eauto. }
    split.
    + intros t w Hw Hnd. eapply step_no_panic; eauto.
    + eapply step_no_deadlock; eauto.
Qed.

Lemma work_share_chunks n T : (1 <= n)%nat -> (1 <= T)%nat ->
  let '(ipt, tc) := work_share n T in
  (1 <= tc)%nat /\ forall i, (i < tc)%nat -> (ipt * i < n)%nat.
Proof.
  intros Hn HT. unfold work_share.
  set (m := Nat.min n T). assert (Hm : (1 <= m <= n)%nat) by (unfold m; lia).
  set (ipt := Nat.div (n + m - 1) m).
  assert (Hipt : (1 <= ipt)%nat).
  { unfold ipt. apply Nat.div_le_lower_bound; lia. }
  set (tc := Nat.div (n + ipt - 1) ipt).
  assert (Htc : (1 <= tc)%nat) by (unfold tc; apply Nat.div_le_lower_bound; lia).
  split; [exact Htc|]. intros i Hi.
  assert (Hle : (ipt * tc <= n + ipt - 1)%nat) by (unfold tc; apply Nat.mul_div_le; lia).
  nia.
Qed.

Lemma config_of_wf g vw p0 T cap : graph_ok g -> length vw = length g -> length p0 = length g ->
  (1 <= length g)%nat -> (1 <= T)%nat -> config_wf (config_of headroom_quot g vw p0 T cap).
Proof.
  intros Hg Hvw Hp Hn HT. unfold config_of.
  pose proof (work_share_chunks (length p0) T) as Hws. rewrite Hp in Hws. specialize (Hws Hn HT).
  rewrite Hp. destruct (work_share (length g) T) as [ipt tc]. destruct Hws as [Htc Hch].
  split; cbn [cf_g cf_vw cf_k cf_ipt cf_tc cf_hr]; auto.
  - apply (go_range _ Hg).
  - unfold part_count. lia.
  - discriminate.
Qed.

(* ------------------------------------------------------------ termination *)

(* no infinite schedule: whatever the infinite sequence of choices, a finite prefix of it cannot be
   executed to its end (its last choice is a worker with nothing left to do, or the loop has exited) *)
Lemma acc_no_infinite_run cf st : Acc (step_rel cf) st ->
  forall f : nat -> nat, exists m, run cf st (map f (seq 0 m)) = None.
Proof.
  induction 1 as [st _ IH]. intros f.
  destruct (step cf st (f O)) as [st'|] eqn:Hs.
  - destruct (IH st' (ex_intro _ (f O) Hs) (fun i => f (S i))) as [m Hm].
    exists (S m). cbn [seq map run]. rewrite Hs, <- seq_shift, map_map. exact Hm.
  - exists 1%nat. cbn [seq map run]. now rewrite Hs.
Qed.

Theorem arcswap_terminates cf p0 : graph_ok (cf_g cf) -> length p0 = length (cf_g cf) ->
  Forall (fun x => (x < cf_k cf)%nat) p0 ->
  forall st0 sch st, init_state cf p0 = Some st0 -> run cf st0 sch = Some st ->
  Acc (step_rel cf) st /\ forall f : nat -> nat, exists m, run cf st (map f (seq 0 m)) = None.
Proof.
  intros Hg Hl Hids st0 sch st Hi Hr.
  pose proof (reach_ginv cf p0 Hg Hl Hids st0 sch st Hi Hr) as Hinv.
  destruct Hg as [H1 H2 H3].
  assert (A : Acc (step_rel cf) st) by (eapply ginv_acc; eauto).
  split; [exact A|]. now apply acc_no_infinite_run.
Qed.

(* with the side conditions of [config_wf]: from every reachable state the run can be completed,
   and every way of continuing it (always choosing a worker that is not done) ends with the outer
   loop exited *)
Theorem arcswap_completes cf p0 : graph_ok (cf_g cf) -> config_wf cf -> length p0 = length (cf_g cf) ->
  Forall (fun x => (x < cf_k cf)%nat) p0 ->
  forall st0 sch st, init_state cf p0 = Some st0 -> run cf st0 sch = Some st ->
  exists sch' st', run cf st sch' = Some st' /\ g_fin st' = true.
Proof.
  intros Hg Hwf Hl Hids st0 sch st Hi Hr.
  destruct (arcswap_terminates cf p0 Hg Hl Hids st0 sch st Hi Hr) as [A _].
  revert sch Hr. induction A as [st _ IH]. intros sch Hr.
  destruct (g_fin st) eqn:Hf.
  - exists [], st. split; [reflexivity|exact Hf].
  - destruct (arcswap_no_panic cf p0 Hwf Hl Hids) as [_ Hnp].
    destruct (Hnp st0 sch st Hi Hr Hf) as [_ (t & st1 & Hs)].
    assert (Hr1 : run cf st0 (sch ++ [t]) = Some st1).
    { clear - Hr Hs. revert st0 Hr. induction sch as [|a sch IHs]; intros st0 Hr; cbn [run app] in *.
      - injection Hr as ->. now rewrite Hs.
      - destruct (step cf st0 a); [|discriminate]. auto. }
    destruct (IH st1 (ex_intro _ t Hs) _ Hr1) as (sch' & st' & Hr' & Hf').
    exists (t :: sch'), st'. split; [|exact Hf']. cbn [run]. now rewrite Hs.
Qed.

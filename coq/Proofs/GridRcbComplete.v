(* The checker of Model/GridRcb.v is complete: an output array that satisfies
   the statement of C10 (C10_spec with the property's balance clause) is
   accepted.  With Proofs/GridRcbChecker.v: check_C10 = true <-> C10_spec, so
   a `false` of the checker means that the property fails on that output.
   Main lemma: on every non-empty box [rebuild] finds the cut of any tree that
   explains the ids (the bit k-1-depth of a cell's id tells its side); on
   empty boxes it builds a trivially valid subtree. *)
From Coupe Require Import Lib.Prelude Lib.SFloat Model.GridRcb Proofs.GridRcbMedian Proofs.GridRcbTree
  Proofs.GridRcbBoxes Proofs.GridRcbChecker.
Open Scope nat_scope.

(* the bit that tells the side at the first cut of a subtree of depth S d' *)
Lemma side_bit (id q : N) (d' : nat) :
  (id * 2 ^ N.of_nat (S d') <= q < (id + 1) * 2 ^ N.of_nat (S d'))%N ->
  (N.testbit q (N.of_nat d') = false <-> (q < (2 * id + 1) * 2 ^ N.of_nat d')%N).
Proof.
  rewrite Nat2N.inj_succ, N.pow_succ_r'. intros Hq.
  set (P := (2 ^ N.of_nat d')%N) in *.
  assert (HP : (0 < P)%N) by (apply N.neq_0_lt_0, N.pow_nonzero; lia).
  rewrite N.testbit_odd, N.shiftr_div_pow2. fold P. clearbody P.
  destruct (N.ltb_spec q ((2 * id + 1) * P)) as [Hlt|Hge].
  - assert (E : (q / P = 2 * id)%N).
    { symmetry. apply (N.div_unique q P (2 * id) (q - 2 * id * P)).
      - lia.
      - lia. }
    rewrite E. rewrite N.odd_mul. change (N.odd 2) with false. cbn [andb]. tauto.
  - assert (E : (q / P = 2 * id + 1)%N).
    { symmetry. apply (N.div_unique q P (2 * id + 1) (q - (2 * id + 1) * P)); lia. }
    rewrite E. rewrite N.odd_add, N.odd_mul. change (N.odd 2) with false. change (N.odd 1) with true.
    cbn [andb xorb]. split; [discriminate|]. intros. exfalso. lia.
Qed.

(* ---------- empty boxes ---------- *)
Definition has_empty (sub : subgrid) : Prop := exists i off, nth_opt sub i = Some (off, 0).

Lemma forallb_false_has_empty sub :
  forallb (fun os : nat * nat => negb (Nat.eqb (snd os) 0)) sub = false -> has_empty sub.
Proof.
  induction sub as [|[o n] r IH]; cbn [forallb]; intros H; [discriminate|].
  apply andb_false_iff in H as [H|H].
  - cbn [snd] in H. apply negb_false_iff in H. apply Nat.eqb_eq in H. subst n. exists 0, o. reflexivity.
  - destruct (IH H) as (i & off & Hi). exists (S i), off. exact Hi.
Qed.

Lemma has_empty_forallb sub : has_empty sub ->
  forallb (fun os : nat * nat => negb (Nat.eqb (snd os) 0)) sub = false.
Proof.
  intros (i & off & Hi). revert i Hi. induction sub as [|[o n] r IH]; intros [|i] Hi; cbn [nth_opt] in Hi; try discriminate.
  - injection Hi as -> ->. reflexivity.
  - cbn [forallb]. rewrite (IH i Hi). apply andb_false_r.
Qed.

Lemma has_empty_no_cell sub pos : has_empty sub -> ~ in_box sub pos.
Proof. intros (i & off & Hi) Hin. destruct (in_box_nth _ _ _ _ _ Hin Hi) as (x & _ & Hx). lia. Qed.

Lemma has_empty_sum f sub : has_empty sub -> box_sum sub f = 0%Z.
Proof. intros (i & off & Hi). eapply box_sum_empty; eauto. Qed.

Lemma has_empty_set_same sub c off : c < length sub -> has_empty (set_nth sub c (off, 0)).
Proof. intros Hc. exists c, off. apply nth_opt_set_nth_same. exact Hc. Qed.

Lemma has_empty_set_other sub c o n : has_empty sub -> nth_opt sub c = Some (o, S n) ->
  forall v, has_empty (set_nth sub c v).
Proof.
  intros (i & off & Hi) Hc v. exists i, off.
  rewrite nth_opt_set_nth_other; auto. intros ->. congruence.
Qed.

Section Rebuild.
  Variables (ds : list nat) (ids : list N) (f : list nat -> Z).
  Variable balb : Z -> Z -> Z -> Z -> bool.
  Hypothesis Hbal0 : balb 0 0 0 0 = true.   (* an empty box is trivially balanced *)
  Let D := length ds.

  Lemma rebuild_empty_ok : forall d c sub, has_empty sub -> c < length sub -> length sub = D -> 0 < D ->
    check_tree D f balb d c sub (rebuild ds ids d c sub) = true.
  Proof.
    induction d as [|d IH]; intros c sub He Hc Hl HD; [reflexivity|].
    cbn [rebuild]. destruct (nth_opt_lt sub c Hc) as ((off & size) & Hn). rewrite Hn.
    destruct size as [|n].
    - cbn [check_tree]. rewrite Hn. reflexivity.
    - rewrite (has_empty_forallb sub He). cbn [check_tree]. rewrite Hn.
      replace (off + 0) with off by lia. replace (off - off) with 0 by lia.
      rewrite Nat.eqb_refl.
      rewrite (has_empty_sum f sub He).
      rewrite (has_empty_sum f (set_nth sub c (off, 0))) by (apply has_empty_set_same; exact Hc).
      unfold slab. rewrite (has_empty_sum f (set_nth sub c (off, 1))) by (eapply has_empty_set_other; eauto).
      assert (Hm : S c mod length ds < D) by (apply Nat.mod_upper_bound; fold D; lia).
      fold D. fold D in Hm.
      rewrite IH; [|apply has_empty_set_same; exact Hc|rewrite set_nth_length; lia|rewrite set_nth_length; exact Hl|exact HD].
      rewrite IH; [|eapply has_empty_set_other; eauto|rewrite set_nth_length; lia|rewrite set_nth_length; exact Hl|exact HD].
      destruct (Nat.leb_spec off off); [|lia]. destruct (Nat.ltb_spec off (off + S n)); [|lia].
      rewrite Hbal0. reflexivity.
  Qed.
End Rebuild.

(* ---------- representative cells ---------- *)
Definition rep (sub : subgrid) (c j : nat) : list nat := map fst (set_nth sub c (j, 1)).

Lemma rep_in_box sub : forall c off size j,
  forallb (fun os : nat * nat => negb (Nat.eqb (snd os) 0)) sub = true ->
  nth_opt sub c = Some (off, size) -> off <= j < off + size ->
  in_box sub (rep sub c j).
Proof.
  unfold in_box, rep. induction sub as [|[o n] r IH]; intros c off size j Hne Hc Hj; [destruct c; discriminate|].
  cbn [forallb] in Hne. apply andb_true_iff in Hne as [H1 H2]. cbn [snd] in H1.
  apply negb_true_iff in H1. apply Nat.eqb_neq in H1.
  destruct c as [|c]; cbn [nth_opt set_nth map fst] in *.
  - injection Hc as -> ->. constructor; [cbn [fst snd]; lia|].
    clear - H2. induction r as [|[o' n'] r' IH']; cbn [map]; constructor.
    + cbn [forallb snd] in H2. apply andb_true_iff in H2 as [H _]. apply negb_true_iff in H. apply Nat.eqb_neq in H.
      cbn [fst snd]. lia.
    + apply IH'. cbn [forallb] in H2. apply andb_true_iff in H2 as [_ H]. exact H.
  - constructor; [cbn [fst snd]; lia|]. eapply IH; eauto.
Qed.

Lemma rep_nth sub c j : c < length sub -> nth_opt (rep sub c j) c = Some j.
Proof.
  unfold rep. revert c; induction sub as [|os r IH]; intros [|c] Hc; cbn [length] in Hc; try lia; cbn [set_nth map nth_opt fst].
  - reflexivity.
  - apply IH. lia.
Qed.

Lemma filter_ltb_seq p : forall size off, off <= p <= off + size ->
  filter (fun j => Nat.ltb j p) (seq off size) = seq off (p - off).
Proof.
  induction size as [|n IH]; intros off Hp.
  - replace (p - off) with 0 by lia. reflexivity.
  - cbn [seq filter]. destruct (Nat.ltb_spec off p) as [Hlt|Hge].
    + rewrite IH by lia. replace (p - off) with (S (p - S off)) by lia. reflexivity.
    + replace (p - off) with 0 by lia. cbn [seq].
      clear - Hge. revert off Hge. induction n as [|n IHn]; intros off Hge; [reflexivity|].
      cbn [seq filter]. destruct (Nat.ltb_spec (S off) p); [lia|]. apply IHn. lia.
Qed.

Section Complete.
  Variables (ds : list nat) (ids : list N) (f : list nat -> Z).
  Variables (bal : Z -> Z -> Z -> Z -> Prop) (balb : Z -> Z -> Z -> Z -> bool).
  Hypothesis Hcompl : forall t w r l, bal t w r l -> balb t w r l = true.
  Hypothesis Hbal0 : balb 0 0 0 0 = true.
  Let D := length ds.
  Hypothesis HD : 0 < D.

  Lemma rebuild_complete : forall d c sub t0, TreeOK D f bal d c sub t0 ->
    length sub = D -> c < D ->
    forall id0,
    (forall pos, in_box sub pos -> exists q, part_of D t0 pos c id0 = Ok q /\ id_at ds ids pos = Some q) ->
    check_tree D f balb d c sub (rebuild ds ids d c sub) = true /\
    (forall pos, in_box sub pos ->
       part_of D (rebuild ds ids d c sub) pos c id0 = part_of D t0 pos c id0).
  Proof.
    induction 1 as [c sub|d c sub off Hn|d c sub off size p l r Hn Hsz Hp Hb Hl IHl Hr IHr];
      intros Hlen Hc id0 Hag.
    - split; [reflexivity|intros; reflexivity].
    - destruct d as [|d]; [split; [reflexivity|intros; reflexivity]|].
      cbn [rebuild]. rewrite Hn. split; [|intros; reflexivity].
      cbn [check_tree]. rewrite Hn. reflexivity.
    - destruct (forallb (fun os : nat * nat => negb (Nat.eqb (snd os) 0)) sub) eqn:Ene.
      2:{ apply forallb_false_has_empty in Ene. split.
          - apply rebuild_empty_ok; auto. lia.
          - intros pos Hin. exfalso. eapply has_empty_no_cell; eauto. }
      assert (Hnode : TreeOK D f bal (S d) c sub (Split p l r)) by (eapply T_node; eauto).
      assert (Hsplit := fun pos => in_box_split sub c off size p pos Hn ltac:(lia)).
      assert (Hm : S c mod D < D) by (apply Nat.mod_upper_bound; lia).
      assert (Hcut : rebuild ds ids (S d) c sub =
                     Split p (rebuild ds ids d (S c mod D) (set_nth sub c (off, p - off)))
                             (rebuild ds ids d (S c mod D) (set_nth sub c (p, size - (p - off))))).
      { cbn [rebuild]. rewrite Hn. destruct size as [|n]; [congruence|]. rewrite Ene.
        match goal with |- context [filter ?g (seq off (S n))] =>
          rewrite (filter_ext_in g (fun j => Nat.ltb j p)) end.
        - rewrite filter_ltb_seq by lia. rewrite seq_length.
          replace (off + (p - off)) with p by lia. reflexivity.
        - intros j Hj. apply in_seq in Hj. fold (rep sub c j).
          assert (Hin : in_box sub (rep sub c j)) by (eapply rep_in_box; eauto).
          destruct (Hag _ Hin) as (q & Hq & Hid). rewrite Hid.
          pose proof (part_of_range_in _ _ _ _ _ _ _ Hnode _ _ _ Hin Hq) as Hrange.
          pose proof (side_bit id0 q d Hrange) as Hbit.
          cbn [part_of] in Hq. rewrite rep_nth in Hq by lia.
          destruct (Nat.ltb_spec j p) as [Hlt|Hge].
          + apply (part_of_range_in _ _ _ _ _ _ _ Hl) in Hq.
            2:{ apply (proj1 (Hsplit _)). split; [exact Hin|]. exists j. split; [apply rep_nth; lia|exact Hlt]. }
            rewrite (proj2 Hbit) by lia. reflexivity.
          + apply (part_of_range_in _ _ _ _ _ _ _ Hr) in Hq.
            2:{ apply (proj2 (Hsplit _)). split; [exact Hin|]. exists j. split; [apply rep_nth; lia|exact Hge]. }
            destruct (N.testbit q (N.of_nat d)) eqn:Et; [reflexivity|].
            exfalso. pose proof (proj1 Hbit eq_refl). lia. }
      rewrite Hcut.
      (* the children *)
      destruct (IHl ltac:(rewrite set_nth_length; exact Hlen) Hm (2 * id0)%N) as (HcL & HpL).
      { intros pos Hin. apply (proj1 (Hsplit pos)) in Hin as (Hin & x & Hx & Hlt).
        destruct (Hag pos Hin) as (q & Hq & Hid). exists q. split; [|exact Hid].
        cbn [part_of] in Hq. rewrite Hx in Hq. destruct (Nat.ltb_spec x p); [exact Hq|lia]. }
      destruct (IHr ltac:(rewrite set_nth_length; exact Hlen) Hm (2 * id0 + 1)%N) as (HcR & HpR).
      { intros pos Hin. apply (proj2 (Hsplit pos)) in Hin as (Hin & x & Hx & Hge).
        destruct (Hag pos Hin) as (q & Hq & Hid). exists q. split; [|exact Hid].
        cbn [part_of] in Hq. rewrite Hx in Hq. destruct (Nat.ltb_spec x p); [lia|exact Hq]. }
      split.
      + cbn [check_tree]. rewrite Hn. rewrite HcL, HcR.
        destruct (Nat.eqb_spec size 0); [congruence|].
        destruct (Nat.leb_spec off p); [|lia]. destruct (Nat.ltb_spec p (off + size)); [|lia].
        unfold node_bal in Hb. rewrite (Hcompl _ _ _ _ Hb). reflexivity.
      + intros pos Hin. destruct (in_box_nth _ _ _ _ _ Hin Hn) as (x & Hx & Hxr).
        cbn [part_of]. rewrite Hx. destruct (Nat.ltb_spec x p) as [Hlt|Hge].
        * apply HpL. apply (proj1 (Hsplit pos)). eauto.
        * apply HpR. apply (proj2 (Hsplit pos)). eauto.
  Qed.
End Complete.

(* ---------- index_of is the inverse of position_of on the grid ---------- *)
Lemma index_of_in_box ds pos : (length ds = 2 \/ length ds = 3) ->
  in_box (into_subgrid ds) pos ->
  exists i, index_of ds pos = Ok i /\ i < glen ds /\ position_of ds i = Ok pos.
Proof.
  unfold in_box, into_subgrid. intros [HD|HD] Hin.
  - destruct ds as [|w [|h [|? ?]]]; try discriminate. cbn [map] in Hin.
    inversion Hin as [|? x ? ? Hx Hin']; subst. inversion Hin' as [|? y ? ? Hy Hin'']; subst.
    inversion Hin''; subst. cbn [fst snd] in *.
    exists (x + w * y). split; [reflexivity|]. split.
    + cbn [glen fold_right]. nia.
    + cbn [position_of]. f_equal.
      assert (E1 : (x + w * y) / w = y) by (symmetry; apply (Nat.div_unique _ w y x); lia).
      assert (E2 : (x + w * y) mod w = x) by (symmetry; apply (Nat.mod_unique _ w y x); lia).
      rewrite E1, E2. reflexivity.
  - destruct ds as [|w [|h [|d [|? ?]]]]; try discriminate. cbn [map] in Hin.
    inversion Hin as [|? x ? ? Hx Hin']; subst. inversion Hin' as [|? y ? ? Hy Hin'']; subst.
    inversion Hin'' as [|? z ? ? Hz Hin''']; subst. inversion Hin'''; subst. cbn [fst snd] in *.
    exists (x + w * (y + h * z)). split; [reflexivity|]. split.
    + cbn [glen fold_right]. assert (y + h * z < h * d) by nia. nia.
    + cbn [position_of]. f_equal.
      assert (E1 : (x + w * (y + h * z)) / w = y + h * z)
        by (symmetry; apply (Nat.div_unique _ w (y + h * z) x); lia).
      assert (E2 : (x + w * (y + h * z)) mod w = x)
        by (symmetry; apply (Nat.mod_unique _ w (y + h * z) x); lia).
      assert (E3 : (y + h * z) / h = z) by (symmetry; apply (Nat.div_unique _ h z y); lia).
      assert (E4 : (y + h * z) mod h = y) by (symmetry; apply (Nat.mod_unique _ h z y); lia).
      rewrite E1, E2, E3, E4. reflexivity.
Qed.

Lemma map_res_seq {B} (g : nat -> res B) : forall (l : list B) off,
  (forall i, i < length l -> exists b, g (off + i) = Ok b /\ nth_opt l i = Some b) ->
  map_res g (seq off (length l)) = Ok l.
Proof.
  induction l as [|y t IH]; intros off H; [reflexivity|].
  cbn [length seq map_res].
  destruct (H 0 ltac:(cbn; lia)) as (b & Hb & Hn). rewrite Nat.add_0_r in Hb. cbn [nth_opt] in Hn.
  injection Hn as ->. rewrite Hb. cbn [bind].
  rewrite (IH (S off)).
  - reflexivity.
  - intros i Hi. destruct (H (S i) ltac:(cbn; lia)) as (b' & Hb' & Hn'). exists b'.
    replace (S off + i) with (off + S i) by lia. auto.
Qed.

Lemma list_eqb_N_refl l : list_eqb_N l l = true.
Proof. induction l as [|x t IH]; [reflexivity|]. cbn [list_eqb_N]. rewrite N.eqb_refl, IH. reflexivity. Qed.

(* the checker is complete: an output that satisfies the statement of C10 is accepted *)
Theorem check_C10_complete (bal : Z -> Z -> Z -> Z -> Prop) balb s ds ws k ids :
  (forall t w r l, bal t w r l -> balb t w r l = true) -> balb 0%Z 0%Z 0%Z 0%Z = true ->
  (length ds = 2 \/ length ds = 3) -> Forall (fun x => 1 <= x) ds -> length ws = glen ds ->
  s < length ds ->
  C10_spec bal s ds ws k ids -> check_C10 balb s ds ws k ids = true.
Proof.
  intros Hcompl Hbal0 HD Hsides Hlw Hs (Hli & Hlt & t0 & Ht0 & Hcells).
  assert (HD0 : 0 < length ds) by lia.
  assert (Hag : forall pos, in_box (into_subgrid ds) pos ->
            exists q, part_of (length ds) t0 pos s 0%N = Ok q /\ id_at ds ids pos = Some q).
  { intros pos Hin. destruct (index_of_in_box ds pos HD Hin) as (i & Hix & Hi & Hpos).
    destruct (Hcells i Hi) as (pos' & q & Hp' & _ & _ & Hq & Hn).
    rewrite Hpos in Hp'. injection Hp' as <-. exists q. split; [exact Hq|].
    unfold id_at. rewrite Hix. exact Hn. }
  destruct (rebuild_complete ds ids (wfun ds ws) bal balb Hcompl Hbal0 HD0 k s (into_subgrid ds) t0 Ht0
              ltac:(unfold into_subgrid; apply map_length) Hs 0%N Hag) as (Hck & Hpo).
  unfold check_C10.
  assert (Hex : existsb (Nat.eqb 0) ds = false).
  { apply not_true_is_false. intros E. apply existsb_exists in E as (x & Hin & Ex).
    apply Nat.eqb_eq in Ex. subst x. rewrite Forall_forall in Hsides. apply Hsides in Hin. lia. }
  rewrite Hex. cbn [negb andb].
  assert (HDb : Nat.eqb (length ds) 2 || Nat.eqb (length ds) 3 = true)
    by (destruct HD as [-> | ->]; reflexivity).
  rewrite HDb, Hlw, Hli, !Nat.eqb_refl. cbn [andb].
  assert (Hfb : forallb (fun q => (q <? 2 ^ N.of_nat k)%N) ids = true).
  { apply forallb_forall. intros q Hq. rewrite Forall_forall in Hlt. apply N.ltb_lt. auto. }
  rewrite Hfb, Hck. cbn [andb].
  unfold ids_of_tree. rewrite <- Hli.
  rewrite (map_res_seq _ ids 0).
  - apply list_eqb_N_refl.
  - intros i Hi. rewrite Hli in Hi. cbn [Nat.add].
    destruct (Hcells i Hi) as (pos & q & Hp & Hin & _ & Hq & Hn).
    exists q. split; [|exact Hn]. rewrite Hp. cbn [bind]. rewrite Hpo by exact Hin. exact Hq.
Qed.

(* Proofs about Model/MultiJagged.v at exact arithmetic ([QA]): the block
   decomposition of the scan is irrelevant, every cut is the first position
   whose prefix weight exceeds the threshold, and the balance bound. *)
From Coq Require Import Permutation QArith Lqa Sorted.
From Coupe Require Import Lib.Prelude Lib.SFloat Model.MultiJagged Proofs.MultiJaggedProofs.
Open Scope Q_scope.

Fixpoint sumQ (l : list Q) : Q := match l with [] => 0 | x :: t => x + sumQ t end.

Lemma sumQ_app a b : sumQ (a ++ b) == sumQ a + sumQ b.
Proof. induction a as [|x t IH]; cbn [app sumQ fold_right]; [ring|]. fold (sumQ (t ++ b)) (sumQ t). rewrite IH. ring. Qed.

Lemma fold_left_Qplus l a : fold_left Qplus l a == a + sumQ l.
Proof.
  revert a; induction l as [|x t IH]; intros a; cbn [fold_left sumQ fold_right]; [ring|].
  fold (sumQ t). rewrite IH. ring.
Qed.

Lemma sum_list_Q l : sum_list QA l == sumQ l.
Proof. unfold sum_list. cbn [a_add a_zero QA]. rewrite fold_left_Qplus. ring. Qed.

Lemma sumQ_nonneg l : Forall (Qle 0) l -> 0 <= sumQ l.
Proof.
  induction 1 as [|x t Hx Ht IH]; cbn [sumQ fold_right]; [lra|]. fold (sumQ t). lra.
Qed.

Lemma Forall_firstn {X} (P : X -> Prop) n l : Forall P l -> Forall P (firstn n l).
Proof. revert l; induction n as [|n IH]; intros l H; [constructor|]. destruct H; cbn [firstn]; constructor; auto. Qed.

Lemma Forall_skipn {X} (P : X -> Prop) n l : Forall P l -> Forall P (skipn n l).
Proof. revert l; induction n as [|n IH]; intros l H; [exact H|]. destruct H; cbn [skipn]; auto. Qed.

(* prefix weight *)
Definition pre (wl : list Q) (i : nat) : Q := sumQ (firstn i wl).

Lemma pre_add wl a b : pre wl (a + b) == pre wl a + sumQ (firstn b (skipn a wl)).
Proof. unfold pre. rewrite firstn_add, sumQ_app. reflexivity. Qed.

Lemma pre_mono wl i j : Forall (Qle 0) wl -> (i <= j)%nat -> pre wl i <= pre wl j.
Proof.
  intros H Hij. replace j with (i + (j - i))%nat by lia. rewrite pre_add.
  pose proof (sumQ_nonneg _ (Forall_firstn _ (j - i) _ (Forall_skipn _ i _ H))). lra.
Qed.

Lemma pre_all wl i : (length wl <= i)%nat -> pre wl i = sumQ wl.
Proof. intros H. unfold pre. rewrite firstn_all2 by exact H. reflexivity. Qed.

Lemma pre_S wl i w : nth_error wl i = Some w -> pre wl (S i) == pre wl i + w.
Proof.
  revert i; induction wl as [|x t IH]; intros [|i] H; cbn [nth_error] in H; try discriminate.
  - inversion H; subst. unfold pre. cbn. ring.
  - unfold pre in *. cbn [firstn sumQ fold_right]. fold (sumQ (firstn (S i) t)) (sumQ (firstn i t)).
    rewrite (IH i H). ring.
Qed.

(* the loop test of the refinement at exact arithmetic: s < t or t = s, i.e. s <= t *)
Lemma refine_test s t : (a_lt QA s t || a_ulps QA t s) = true <-> s <= t.
Proof.
  cbn [a_lt a_ulps QA]. rewrite orb_true_iff, negb_true_iff, Qeq_bool_iff. split.
  - intros [H|H]; [|lra]. destruct (Qlt_le_dec s t) as [?|Hle]; [lra|].
    apply Qle_bool_iff in Hle. congruence.
  - intros H. destruct (Qeq_dec t s) as [E|N]; [right; exact E|left].
    destruct (Qle_bool t s) eqn:E; [|reflexivity]. apply Qle_bool_iff in E. exfalso. apply N. lra.
Qed.

Lemma lt_test a b : a_lt QA a b = true <-> a < b.
Proof.
  cbn [a_lt QA]. rewrite negb_true_iff. split.
  - intros H. destruct (Qlt_le_dec a b) as [?|Hle]; [assumption|]. apply Qle_bool_iff in Hle. congruence.
  - intros H. destruct (Qle_bool b a) eqn:E; [|reflexivity]. apply Qle_bool_iff in E. lra.
Qed.

Lemma lt_test_false a b : a_lt QA a b = false <-> b <= a.
Proof.
  split.
  - intros H. destruct (Qlt_le_dec a b) as [Hl|?]; [|assumption]. apply lt_test in Hl. congruence.
  - intros H. destruct (a_lt QA a b) eqn:E; [|reflexivity]. apply lt_test in E. lra.
Qed.

(* p is the cut for threshold t: the first position whose prefix weight exceeds t *)
Definition is_cut (wl : list Q) (t : Q) (p : nat) : Prop :=
  (p <= length wl)%nat /\ (forall i, (i < p)%nat -> pre wl (S i) <= t) /\
  ((p < length wl)%nat -> t < pre wl (S p)).

Lemma is_cut_unique wl t p p' : is_cut wl t p -> is_cut wl t p' -> p = p'.
Proof.
  intros [L1 [A1 B1]] [L2 [A2 B2]].
  destruct (Nat.lt_trichotomy p p') as [H|[H|H]]; [|exact H|].
  - specialize (B1 ltac:(lia)). specialize (A2 p H). lra.
  - specialize (B2 ltac:(lia)). specialize (A1 p' H). lra.
Qed.

Ltac destr_if_in H E :=
  match type of H with context [if ?g then _ else _] => destruct g eqn:E end.
Ltac destr_match_in H E :=
  match type of H with context [match ?g with _ => _ end] => destruct g eqn:E end.
Ltac destr_if E :=
  match goal with |- context [if ?g then _ else _] => destruct g eqn:E end.

Section Core.
  Variable wl : list Q.
  Hypothesis Hnn : Forall (Qle 0) wl.
  Notation len := (length wl).

  Lemma refine_spec : forall (rest : list Q) (idx : nat) (sum t : Q),
    let p := refine QA rest idx sum t in
    (idx <= p <= idx + length rest)%nat /\
    (forall i, (i < p - idx)%nat -> sum + sumQ (firstn (S i) rest) <= t) /\
    ((p < idx + length rest)%nat -> t < sum + sumQ (firstn (S (p - idx)) rest)).
  Proof.
    induction rest as [|w r IH]; intros idx sum t; cbn [refine].
    - cbn [length]. split; [lia|]. split; [intros i Hi; lia|intros Hi; lia].
    - cbv zeta. destruct (a_lt QA (a_add QA sum w) t || a_ulps QA t (a_add QA sum w)) eqn:E.
      + apply refine_test in E. cbn [a_add QA] in E |- *.
        specialize (IH (S idx) (sum + w) t). cbv zeta in IH.
        set (p := refine QA r (S idx) (sum + w) t) in *. destruct IH as [R [Al Bl]].
        cbn [length]. split; [lia|]. split.
        * intros [|i] Hi.
          -- cbn [firstn sumQ fold_right]. lra.
          -- specialize (Al i ltac:(lia)). cbn [firstn sumQ fold_right] in *.
             fold (sumQ (firstn (S i) r)) in *.
             change (firstn (S i) r) with (match r with [] => [] | a :: l => a :: firstn i l end) in Al.
             lra.
        * intros Hp. specialize (Bl ltac:(lia)).
          replace (p - idx)%nat with (S (p - S idx)) by lia.
          cbn [firstn sumQ fold_right] in *. lra.
      + assert (Hgt : t < sum + w).
        { destruct (Qlt_le_dec t (sum + w)) as [?|Hle]; [assumption|].
          apply (proj2 (refine_test (a_add QA sum w) t)) in Hle. congruence. }
        cbn [length]. split; [lia|]. split; [intros i Hi; lia|].
        intros _. rewrite Nat.sub_diag. cbn [firstn sumQ fold_right]. lra.
  Qed.

  (* from a start position whose prefix weight is within the threshold, the
     refinement stops exactly at the cut *)
  Lemma refine_cut lo cached t :
    (lo <= len)%nat -> cached == pre wl lo -> pre wl lo <= t ->
    is_cut wl t (refine QA (skipn lo wl) lo cached t).
  Proof.
    intros Hlo Hc Hle.
    pose proof (refine_spec (skipn lo wl) lo cached t) as H. cbv zeta in H.
    set (p := refine QA (skipn lo wl) lo cached t) in *. destruct H as [R [Al Bl]].
    rewrite skipn_length in R, Bl.
    split; [lia|]. split.
    - intros i Hi. destruct (Nat.lt_ge_cases i lo) as [Hlt|Hge].
      + pose proof (pre_mono wl (S i) lo Hnn ltac:(lia)). lra.
      + specialize (Al (i - lo)%nat ltac:(lia)).
        replace (S i) with (lo + S (i - lo))%nat by lia. rewrite pre_add. lra.
    - intros Hp. specialize (Bl ltac:(lia)).
      replace (S p) with (lo + S (p - lo))%nat by lia. rewrite pre_add. lra.
  Qed.

  (* the scan is what is left of some block decomposition from position c on,
     and the running sum is the prefix weight at c *)
  Definition scan_at (scan : list (nat * Q)) (cws : Q) : Prop :=
    exists bs c, scan = blocks_of QA bs c (skipn c wl) /\ cws == pre wl c.

  Definition good (e : nat * Q) (t : Q) : Prop :=
    (fst e <= len)%nat /\ snd e == pre wl (fst e) /\ pre wl (fst e) <= t.

  Lemma take_until_spec t : forall bs c cws lo cached cws' rest,
    cws == pre wl c -> cws <= t ->
    take_until QA (blocks_of QA bs c (skipn c wl)) cws t len = (lo, cached, cws', rest) ->
    good (lo, cached) t /\ scan_at rest cws'.
  Proof.
    induction bs as [|b bs IH]; intros c cws lo cached cws' rest Hc Hle H.
    - (* one last block *)
      cbn [blocks_of] in H. destruct (skipn c wl) as [|w r] eqn:Es.
      + cbn [take_until] in H. injection H as E1 E2 E3 E4; subst lo cached cws' rest.
        assert (Hge : (len <= c)%nat).
        { destruct (Nat.le_gt_cases len c) as [?|Hlt]; [assumption|].
          assert (Hl : length (skipn c wl) = 0%nat) by (rewrite Es; reflexivity).
          rewrite skipn_length in Hl. lia. }
        assert (E : pre wl c = pre wl len) by (rewrite !pre_all by lia; reflexivity).
        split.
        * unfold good; cbn [fst snd]. split; [lia|]. rewrite <- E. split; [exact Hc|lra].
        * exists [], len. rewrite skipn_all. split; [reflexivity|]. rewrite <- E. exact Hc.
      + rewrite <- Es in H. cbn [take_until] in H.
        assert (Hlt : (c < len)%nat).
        { destruct (Nat.le_gt_cases len c) as [Hge|?]; [|assumption]. rewrite skipn_all2 in Es by exact Hge. discriminate. }
        assert (Esum : a_add QA cws (sum_list QA (skipn c wl)) == pre wl len).
        { cbn [a_add QA]. rewrite sum_list_Q. replace len with (c + (len - c))%nat at 1 by lia.
          rewrite pre_add, firstn_all2 by (rewrite skipn_length; lia). lra. }
        destr_if_in H E.
        * injection H as E1 E2 E3 E4; subst lo cached cws' rest. split.
          -- unfold good; cbn [fst snd]. split; [lia|]. split; [exact Hc|lra].
          -- exists [], len. rewrite skipn_all. split; [reflexivity|exact Esum].
        * apply lt_test_false in E. cbn [take_until] in H. injection H as E1 E2 E3 E4; subst lo cached cws' rest. split.
          -- unfold good; cbn [fst snd]. split; [lia|]. split; [exact Esum|lra].
          -- exists [], len. rewrite skipn_all. split; [reflexivity|exact Esum].
    - cbn [blocks_of] in H. destruct (skipn c wl) as [|w r] eqn:Es.
      + (* nothing left: same as above *)
        cbn [take_until] in H. injection H as E1 E2 E3 E4; subst lo cached cws' rest.
        assert (Hge : (len <= c)%nat).
        { destruct (Nat.le_gt_cases len c) as [?|Hlt]; [assumption|].
          assert (Hl : length (skipn c wl) = 0%nat) by (rewrite Es; reflexivity).
          rewrite skipn_length in Hl. lia. }
        assert (E : pre wl c = pre wl len) by (rewrite !pre_all by lia; reflexivity).
        split.
        * unfold good; cbn [fst snd]. split; [lia|]. rewrite <- E. split; [exact Hc|lra].
        * exists [], len. rewrite skipn_all. split; [reflexivity|]. rewrite <- E. exact Hc.
      + rewrite <- Es in H.
        assert (Hlt : (c < len)%nat).
        { destruct (Nat.le_gt_cases len c) as [Hge|?]; [|assumption]. rewrite skipn_all2 in Es by exact Hge. discriminate. }
        destruct (Nat.eqb b 0).
        * (* zero-length block request: skipped *)
          assert (Hb : blocks_of QA bs c (w :: r) = blocks_of QA bs c (skipn c wl)) by (rewrite Es; reflexivity).
          rewrite <- Es in Hb. eapply IH; [exact Hc|exact Hle|]. exact H.
        * cbn [take_until] in H.
          assert (Esum : a_add QA cws (sum_list QA (firstn b (skipn c wl))) == pre wl (c + b)).
          { cbn [a_add QA]. rewrite sum_list_Q, pre_add. lra. }
          destr_if_in H E.
          -- injection H as E1 E2 E3 E4; subst lo cached cws' rest. split.
             ++ unfold good; cbn [fst snd]. split; [lia|]. split; [exact Hc|lra].
             ++ exists bs, (c + b)%nat. rewrite skipn_add. split; [reflexivity|exact Esum].
          -- apply lt_test_false in E. rewrite <- skipn_add in H.
             eapply IH; [exact Esum| |exact H]. exact E.
  Qed.

  Lemma outer_spec : forall ths scan cws ret,
    StronglySorted Qle ths -> scan_at scan cws ->
    match ret with
    | [] => match ths with [] => True | t :: _ => cws <= t end
    | last :: _ => Forall (fun t => pre wl (fst last) <= t) ths /\ (fst last <= len)%nat /\ snd last == pre wl (fst last)
    end ->
    exists new, outer QA ths scan cws len ret = Ok (rev ret ++ new) /\ Forall2 good new ths.
  Proof.
    induction ths as [|t ths IH]; intros scan cws ret Hs Hscan Hret; cbn [outer].
    - exists []. rewrite app_nil_r. split; [reflexivity|constructor].
    - inversion Hs as [|? ? Hs' Hall]; subst.
      destruct (a_lt QA t cws) eqn:E.
      + apply lt_test in E. destruct ret as [|last ret']; [lra|].
        destruct Hret as [Hf [Hl Hsn]]. inversion Hf as [|? ? Hft Hfths]; subst.
        destruct (IH scan cws (last :: last :: ret') Hs' Hscan) as [new [En Fn]].
        { split; [exact Hfths|]. split; assumption. }
        exists (last :: new). split.
        * etransitivity; [exact En|]. f_equal. cbn [rev]. rewrite <- !app_assoc. reflexivity.
        * constructor; [|exact Fn]. unfold good. destruct last as [lo ca]; cbn [fst snd] in *. auto.
      + apply lt_test_false in E. destruct Hscan as [bs [c [Escan Hc]]]. subst scan.
        destruct (take_until QA (blocks_of QA bs c (skipn c wl)) cws t len) as [[[lo cached] cws'] rest] eqn:Et.
        destruct (take_until_spec t bs c cws lo cached cws' rest Hc E Et) as [Hg Hrest].
        destruct (IH rest cws' ((lo, cached) :: ret) Hs' Hrest) as [new [En Fn]].
        { destruct Hg as [G1 [G2 G3]]. cbn [fst snd] in *. split; [|split; assumption].
          rewrite Forall_forall in *. intros t' Ht'. specialize (Hall t' Ht'). lra. }
        exists ((lo, cached) :: new). split.
        * etransitivity; [exact En|]. cbn [rev]. rewrite <- app_assoc. reflexivity.
        * constructor; assumption.
  Qed.

  (* compute_split_positions, core: for thresholds in increasing order, none
     negative, every returned position is the cut of its threshold — whatever
     the block decomposition *)
  Lemma csp_core_spec ths bs :
    StronglySorted Qle ths -> Forall (Qle 0) ths ->
    exists ps, csp_core QA wl ths bs = Ok ps /\ Forall2 (is_cut wl) ths ps.
  Proof.
    intros Hs Hpos. unfold csp_core.
    destruct (outer_spec ths (blocks_of QA bs 0 wl) (a_zero QA) [] Hs) as [new [En Fn]].
    - exists bs, 0%nat. split; [reflexivity|]. unfold pre. cbn. reflexivity.
    - destruct ths as [|t ths']; [exact I|]. inversion Hpos; subst. cbn [a_zero QA]. assumption.
    - cbn [rev app] in En. match goal with |- exists ps, bind ?o _ = _ /\ _ => replace o with (Ok new : res (list (nat * Q))) by (symmetry; exact En) end.
      cbn [bind]. eexists. split; [reflexivity|].
      clear En Hs Hpos. induction Fn as [|[lo ca] t new ths' Hg Fn IH]; cbn [combine map]; constructor; [|exact IH].
      destruct Hg as [G1 [G2 G3]]. cbn [fst snd] in *. apply refine_cut; assumption.
  Qed.
End Core.

Lemma Forall2_is_cut_unique wl ths ps ps' :
  Forall2 (is_cut wl) ths ps -> Forall2 (is_cut wl) ths ps' -> ps = ps'.
Proof.
  intros H. revert ps'. induction H as [|t p ths ps Hc HF IH]; intros ps' H'; inversion H'; subst; [reflexivity|].
  f_equal; [eapply is_cut_unique; eassumption|apply IH; assumption].
Qed.

(* rayon's block decomposition of the scan does not influence the result *)
Lemma csp_core_blocks_irrelevant wl ths bs1 bs2 :
  Forall (Qle 0) wl -> StronglySorted Qle ths -> Forall (Qle 0) ths ->
  csp_core QA wl ths bs1 = csp_core QA wl ths bs2.
Proof.
  intros Hnn Hs Hp.
  destruct (csp_core_spec wl Hnn ths bs1 Hs Hp) as [p1 [E1 F1]].
  destruct (csp_core_spec wl Hnn ths bs2 Hs Hp) as [p2 [E2 F2]].
  rewrite E1, E2. f_equal. eapply Forall2_is_cut_unique; eassumption.
Qed.

(* ======================================================== thresholds *)

Lemma thresholds_sorted W : 0 <= W -> forall mods c, Forall (Qle 0) mods ->
  StronglySorted Qle (thresholds QA W c mods) /\ Forall (Qle c) (thresholds QA W c mods).
Proof.
  intros HW. induction mods as [|m t IH]; intros c Hm; cbn [thresholds]; [split; constructor|].
  inversion Hm as [|? ? Hm0 Hmt]; subst. cbv zeta. cbn [a_add a_mul QA].
  destruct (IH (c + W * m) Hmt) as [S1 F1].
  assert (Hc : c <= c + W * m) by nra.
  split; constructor; try assumption.
  rewrite Forall_forall in *. intros x Hx. specialize (F1 x Hx). lra.
Qed.

(* =================================================== weights of element lists *)

Section Weights.
  Variable wq : list Q.                      (* the weights array *)
  Definition wv (x : nat) : Q := nth x wq 0.
  Definition wsum (els : list nat) : Q := sumQ (map wv els).

  Lemma gather_map perm wl : gather QA wq perm = Ok wl -> wl = map wv perm.
  Proof.
    revert wl. induction perm as [|i t IH]; intros wl H; cbn [gather] in H.
    - inversion H; reflexivity.
    - destr_match_in H E; [|discriminate].
      apply bind_ok in H as [r [Hr H]]. inversion H; subst. cbn [map]. f_equal; [|apply IH; exact Hr].
      unfold wv. symmetry. apply nth_opt_nth. exact E.
  Qed.

  Lemma wsum_app a b : wsum (a ++ b) == wsum a + wsum b.
  Proof. unfold wsum. rewrite map_app, sumQ_app. reflexivity. Qed.

  Lemma wsum_perm a b : Permutation a b -> wsum a == wsum b.
  Proof.
    unfold wsum. induction 1 as [|x a b Hp IH|x y a|a b c H1 IH1 H2 IH2]; cbn [map sumQ].
    - reflexivity.
    - rewrite IH. reflexivity.
    - ring.
    - rewrite IH1. exact IH2.
  Qed.

  Lemma wsum_concat_nil : wsum [] == 0.
  Proof. reflexivity. Qed.
End Weights.

Lemma map_firstn {X Y} (f : X -> Y) n l : map f (firstn n l) = firstn n (map f l).
Proof. revert l; induction n as [|n IH]; intros [|x t]; cbn [firstn map]; try reflexivity. rewrite IH. reflexivity. Qed.

Lemma map_skipn {X Y} (f : X -> Y) n l : map f (skipn n l) = skipn n (map f l).
Proof. revert l; induction n as [|n IH]; intros [|x t]; cbn [skipn map]; try reflexivity. apply IH. Qed.

Lemma sumQ_firstn_skipn l d : sumQ l == pre l d + sumQ (skipn d l).
Proof. unfold pre. rewrite <- sumQ_app, firstn_skipn. reflexivity. Qed.

(* ============================================= one node: every slab is within
   one element's weight of its target W * modifier *)

Section Node.
  Variable wq : list Q.
  Variable M : Q.
  Hypothesis HM : 0 < M.
  Hypothesis Hw : Forall (fun w => 0 <= w <= M) wq.

  Lemma wv_bounds x : 0 <= wv wq x <= M.
  Proof.
    unfold wv. destruct (Nat.lt_ge_cases x (length wq)) as [Hlt|Hge].
    - rewrite Forall_forall in Hw. apply Hw. apply nth_In. exact Hlt.
    - rewrite nth_overflow by exact Hge. lra.
  Qed.

  Lemma map_wv_nonneg els : Forall (Qle 0) (map (wv wq) els).
  Proof. induction els as [|x t IH]; cbn [map]; constructor; [apply wv_bounds|exact IH]. Qed.

  Definition slab_ok (W : Q) (s : list nat) (m : Q) : Prop := - M < wsum wq s - W * m /\ wsum wq s - W * m < M.

  Lemma node_balance (sorted : list nat) (W z : Q) :
    let wl := map (wv wq) sorted in
    W == sumQ wl -> 0 <= z ->
    forall init c d ps subs,
      Forall (Qle 0) init ->
      c + W * sumQ (init ++ [z]) == W ->
      c - M < pre wl d -> pre wl d <= c ->
      Forall2 (is_cut wl) (thresholds QA W c init) ps ->
      split_many (skipn d sorted) ps d = Ok subs ->
      Forall2 (slab_ok W) subs (init ++ [z]).
  Proof.
    intros wl HW Hz.
    assert (Hnn : Forall (Qle 0) wl) by apply map_wv_nonneg.
    assert (HW0 : 0 <= W) by (rewrite HW; apply sumQ_nonneg; exact Hnn).
    induction init as [|m init IH]; intros c d ps subs Hi Hrest Hlo Hhi Hcut Hsplit.
    - cbn [thresholds] in Hcut. inversion Hcut; subst. cbn [split_many] in Hsplit. inversion Hsplit; subst.
      cbn [app]. constructor; [|constructor]. unfold slab_ok.
      assert (E : wsum wq (skipn d sorted) == sumQ wl - pre wl d).
      { unfold wsum. rewrite map_skipn. fold wl. rewrite (sumQ_firstn_skipn wl d). lra. }
      cbn [app sumQ] in Hrest. rewrite E. split; lra.
    - inversion Hi as [|? ? Hm Hi']; subst.
      cbn [thresholds] in Hcut. cbv zeta in Hcut. cbn [a_add a_mul QA] in Hcut.
      inversion Hcut as [|t p ths ps' Hc Hcut']; subst.
      cbn [split_many] in Hsplit.
      destruct (Nat.ltb_spec p d) as [|Hdp]; [discriminate|].
      destruct (Nat.ltb (length (skipn d sorted)) (p - d)); [discriminate|].
      apply bind_ok in Hsplit as [rest [Hrest' Hsplit]]. inversion Hsplit; subst. clear Hsplit.
      rewrite <- skipn_add in Hrest'. replace (d + (p - d))%nat with p in Hrest' by lia.
      cbn [app sumQ] in Hrest.
      assert (Hsum_nn : 0 <= sumQ (init ++ [z])).
      { apply sumQ_nonneg. apply Forall_app. split; [exact Hi'|]. constructor; [exact Hz|constructor]. }
      destruct Hc as [Hpl [Hbelow Habove]]. unfold wl in Hpl. rewrite map_length in Hpl.
      assert (Hpre0 : 0 <= pre wl d) by (unfold pre; apply sumQ_nonneg; apply Forall_firstn; exact Hnn).
      assert (Hp_hi : pre wl p <= c + W * m).
      { destruct p as [|i]; [unfold pre; cbn [firstn sumQ]; nra|]. apply Hbelow. lia. }
      assert (Hp_lo : c + W * m - M < pre wl p).
      { destruct (Nat.lt_ge_cases p (length wl)) as [Hlt|Hge].
        - specialize (Habove Hlt).
          destruct (nth_error wl p) as [w|] eqn:En; [|apply nth_error_None in En; lia].
          rewrite (pre_S wl p w En) in Habove.
          assert (Hwb : w <= M).
          { unfold wl in En. rewrite nth_error_map in En. destruct (nth_error sorted p) as [x|]; [|discriminate].
            cbn [option_map] in En. inversion En; subst. apply wv_bounds. }
          lra.
        - rewrite pre_all by exact Hge. rewrite <- HW. nra. }
      constructor.
      + unfold slab_ok.
        assert (E : wsum wq (firstn (p - d) (skipn d sorted)) == pre wl p - pre wl d).
        { unfold wsum. rewrite map_firstn, map_skipn. fold wl.
          replace p with (d + (p - d))%nat at 2 by lia. rewrite pre_add. lra. }
        rewrite E. split; lra.
      + eapply (IH (c + W * m) p ps' rest Hi'); try eassumption. lra.
  Qed.
End Node.

(* ========================================== the tree: induction on the scheme *)

Definition QN (n : N) : Q := inject_Z (Z.of_N n).
Definition Qd (d : nat) : Q := inject_Z (Z.of_nat d).

Lemma QN_ge1 n : (1 <= n)%N -> 1 <= QN n.
Proof. intros H. unfold QN. change 1 with (inject_Z 1). rewrite <- Zle_Qle. lia. Qed.

Lemma QN_add a b : QN (a + b) == QN a + QN b.
Proof. unfold QN. rewrite N2Z.inj_add, inject_Z_plus. reflexivity. Qed.

Lemma Qd_S d : Qd (S d) == Qd d + 1.
Proof. unfold Qd. rewrite Nat2Z.inj_succ. unfold Z.succ. rewrite inject_Z_plus. reflexivity. Qed.

Lemma Qd_nonneg d : 0 <= Qd d.
Proof. unfold Qd. change 0 with (inject_Z 0). rewrite <- Zle_Qle. lia. Qed.

Lemma sumQ_modifiers P cparts :
  sumQ (map (fun cp => a_div QA (a_ofN QA cp) P) cparts) == QN (sumN cparts) / P.
Proof.
  induction cparts as [|cp t IH]; cbn [map sumQ sumN fold_right].
  - unfold QN, Qdiv. cbn. ring.
  - fold (sumN t). rewrite IH, QN_add. cbn [a_div a_ofN QA]. fold (QN cp). unfold Qdiv. ring.
Qed.

Lemma combine_bound x u W c P M dM :
  1 <= c -> 1 <= P -> 0 <= M -> 0 <= dM ->
  - M < u - W * (c / P) -> u - W * (c / P) < M ->
  - dM <= x - u / c -> x - u / c <= dM ->
  - (dM + M) <= x - W / P /\ x - W / P <= dM + M.
Proof.
  intros Hc HP HM HdM E1 E2 B1 B2. unfold Qdiv in *.
  assert (Hic : c * / c == 1) by (apply Qmult_inv_r; lra).
  set (ic := / c) in *. set (iP := / P) in *.
  assert (Hic0 : 0 < ic) by nra.
  assert (Hic1 : ic <= 1) by nra.
  assert (Ee : (u - W * (c * iP)) * ic == u * ic - W * iP).
  { setoid_replace ((u - W * (c * iP)) * ic) with (u * ic - W * iP * (c * ic)) by ring. rewrite Hic. ring. }
  set (e := u - W * (c * iP)) in *.
  assert (He1 : - M <= e * ic) by nra.
  assert (He2 : e * ic <= M) by nra.
  split; lra.
Qed.

Lemma Forall2_map_r {X Y Z} (R : X -> Z -> Prop) (f : Y -> Z) l1 l2 :
  Forall2 R l1 (map f l2) -> Forall2 (fun x y => R x (f y)) l1 l2.
Proof.
  revert l1; induction l2 as [|y t IH]; intros l1 H; cbn [map] in H; inversion H; subst; constructor; auto.
Qed.

Section Tree.
  Variable D npts : nat.
  Variable wq : list Q.
  Variable sorter : nat -> list nat -> list nat.
  Variable blk : list nat -> list nat.
  Variable M : Q.
  Hypothesis HM : 0 < M.
  Hypothesis Hw : Forall (fun w => 0 <= w <= M) wq.
  Hypothesis Hperm : forall a l, Permutation (sorter a l) l.

  Notation mjrec := (mj_rec QA D npts wq sorter blk).

  (* a leaf below a node of total weight W meant for [parts] parts, at most d levels of cuts below *)
  Definition leaf_ok (W : Q) (parts : N) (d : nat) (l : list nat) : Prop :=
    - (Qd d * M) <= wsum wq l - W / QN parts /\ wsum wq l - W / QN parts <= Qd d * M.

  Lemma leaf_ok_eq W W' parts d l : W == W' -> leaf_ok W parts d l -> leaf_ok W' parts d l.
  Proof. intros E [H1 H2]. unfold leaf_ok. rewrite <- E. split; assumption. Qed.

  Definition tree_spec (sch : scheme Q) : Prop :=
    forall parts d, WfScheme QA sch parts d ->
    forall a perm lvs, mjrec sch a perm = Ok lvs -> Forall (leaf_ok (wsum wq perm) parts d) lvs.

  Lemma go_ch_balance a' W parts d : (1 <= parts)%N ->
    forall (chs : list (scheme Q)) cparts subs lvs,
    Forall tree_spec chs ->
    Forall2 (fun c cp => WfScheme QA c cp d /\ (1 <= cp)%N) chs cparts ->
    Forall2 (fun s cp => slab_ok wq M W s (a_div QA (a_ofN QA cp) (a_ofN QA parts))) subs cparts ->
    go_ch QA D (fun c s => mjrec c a' s) subs chs = Ok lvs ->
    Forall (leaf_ok W parts (S d)) lvs.
  Proof.
    intros Hparts. induction chs as [|c chs IH]; intros cparts subs lvs HP HW HS H.
    - destruct subs; cbn [go_ch] in H; inversion H; constructor.
    - inversion HW as [|? cp ? cps [Wc Hcp] Wt]; subst. inversion HS as [|s ? subs' ? Hs HS']; subst.
      inversion HP as [|? ? Pc Pt]; subst.
      cbn [go_ch] in H. destruct (Nat.eqb D 0); [discriminate|].
      apply bind_ok in H as [l1 [H1 H]]. apply bind_ok in H as [l2 [H2 H]]. inversion H; subst.
      apply Forall_app. split; [|eapply IH; eassumption].
      specialize (Pc cp d Wc a' s l1 H1). rewrite Forall_forall in *. intros l Hl.
      destruct (Pc l Hl) as [B1 B2]. destruct Hs as [S1 S2]. cbn [a_div a_ofN QA] in S1, S2.
      fold (QN cp) (QN parts) in S1, S2.
      pose proof (Qd_nonneg d) as Hd0.
      destruct (combine_bound (wsum wq l) (wsum wq s) W (QN cp) (QN parts) M (Qd d * M)
                  (QN_ge1 _ Hcp) (QN_ge1 _ Hparts) ltac:(lra) ltac:(nra) S1 S2 B1 B2) as [C1 C2].
      unfold leaf_ok. rewrite Qd_S. split; lra.
  Qed.

  Lemma Wf_parts_ge1 sch parts d : WfScheme QA sch parts d -> (1 <= parts)%N.
  Proof.
    intros W. inversion W as [|ns mods children parts' d' cparts Hns Hlen HF Hsum Hmods]; subst; [lia|].
    destruct HF as [|c cp cs cps [_ Hcp] _]; [cbn [length] in Hlen; lia|].
    cbn [sumN fold_right]. lia.
  Qed.

  Lemma tree_balance : forall sch, tree_spec sch.
  Proof.
    induction sch as [ns mods next IH] using scheme_ind2. intros parts d W a perm lvs H.
    pose proof (Wf_parts_ge1 _ _ _ W) as Hparts.
    rewrite mj_rec_eq in H.
    inversion W as [mods' next' d'|ns' mods' children parts' d' cparts Hns Hlen HF Hsum Hmods]; subst.
    - change (0 =? 0)%N with true in H. cbv iota in H. inversion H; subst. constructor; [|constructor].
      unfold leaf_ok. pose proof (Qd_nonneg d). unfold QN. cbn [Z.of_N inject_Z].
      setoid_replace (wsum wq perm / 1) with (wsum wq perm) by (unfold Qdiv; change (/ 1) with 1; ring).
      split; nra.
    - destruct (N.eqb_spec ns 0) as [?|_]; [contradiction|].
      destr_match_in H Eb; [discriminate|].
      cbv zeta in H. apply bind_ok in H as [pos [Hpos H]]. apply bind_ok in H as [subs [Hsubs H]].
      set (sorted := sorter a perm) in *.
      set (fm := fun cp => a_div QA (a_ofN QA cp) (a_ofN QA (sumN cparts))) in *.
      (* open compute_split_positions *)
      unfold csp in Hpos. destruct (split_last (map fm cparts)) as [init|] eqn:Esl; [|discriminate].
      destruct (split_last_app _ _ Esl) as [z Emods].
      apply bind_ok in Hpos as [wl [Hg Hcore]]. apply gather_map in Hg. subst wl.
      set (wl := map (wv wq) sorted) in *. set (W0 := sum_list QA wl) in *.
      assert (HW0 : W0 == sumQ wl) by apply sum_list_Q.
      assert (Hnn : Forall (Qle 0) wl) by (apply map_wv_nonneg with (M := M); assumption).
      assert (HW0nn : 0 <= W0) by (rewrite HW0; apply sumQ_nonneg; exact Hnn).
      assert (Hmods_nn : Forall (Qle 0) (map fm cparts)).
      { rewrite Forall_forall. intros q Hq. apply in_map_iff in Hq as [cp [<- _]]. unfold fm.
        cbn [a_div a_ofN QA]. fold (QN cp) (QN (sumN cparts)).
        pose proof (QN_ge1 _ Hparts). apply Qle_shift_div_l; [lra|].
        unfold QN. change 0 with (inject_Z 0). rewrite Qmult_0_l. change 0 with (inject_Z 0). rewrite <- Zle_Qle. lia. }
      rewrite Emods in Hmods_nn. apply Forall_app in Hmods_nn as [Hinit Hz]. inversion Hz as [|? ? Hz0 _]; subst.
      assert (Hsum1 : sumQ (init ++ [z]) == 1).
      { rewrite <- Emods. unfold fm. rewrite sumQ_modifiers. cbn [a_ofN QA]. fold (QN (sumN cparts)).
        pose proof (QN_ge1 _ Hparts). unfold Qdiv. apply Qmult_inv_r. lra. }
      destruct (thresholds_sorted W0 HW0nn init 0 Hinit) as [Ts Tp].
      destruct (csp_core_spec wl Hnn (thresholds QA W0 0 init) (blk sorted) Ts Tp) as [ps [Eps Fcut]].
      assert (Epos : pos = ps).
      { change (a_zero QA) with 0 in Hcore. fold W0 in Hcore.
        assert (E : Ok pos = Ok ps) by (rewrite <- Hcore, <- Eps; reflexivity). inversion E; reflexivity. }
      subst pos.
      assert (Hslabs : Forall2 (slab_ok wq M W0) subs (init ++ [z])).
      { eapply (node_balance wq M HM Hw sorted W0 z HW0 Hz0 init 0 0%nat ps subs Hinit).
        - rewrite Hsum1. ring.
        - unfold pre. cbn [firstn sumQ]. lra.
        - unfold pre. cbn [firstn sumQ]. lra.
        - exact Fcut.
        - exact Hsubs. }
      rewrite <- Emods in Hslabs. apply Forall2_map_r in Hslabs.
      assert (EW : W0 == wsum wq perm).
      { rewrite HW0. unfold wl. fold (wsum wq sorted). apply wsum_perm. apply Hperm. }
      eapply Forall_impl; [intros l Hl; eapply leaf_ok_eq; [exact EW|exact Hl]|].
      eapply (go_ch_balance (S a mod D) W0 (sumN cparts) d' Hparts children cparts subs lvs (IH children eq_refl) HF Hslabs H).
  Qed.
End Tree.

(* ================================================= from leaves to part loads (Z) *)

Open Scope Z_scope.

Lemma sumZ_map_perm {X} (g : X -> Z) a b : Permutation a b -> sumZ (map g a) = sumZ (map g b).
Proof.
  unfold sumZ. induction 1 as [|x a b Hp IH|x y a|a b c H1 IH1 H2 IH2]; cbn [map fold_right]; lia.
Qed.

Lemma sumZ_map_zero {X} (g : X -> Z) l : (forall x, In x l -> g x = 0) -> sumZ (map g l) = 0.
Proof.
  unfold sumZ. induction l as [|x t IH]; intros H; cbn [map fold_right]; [reflexivity|].
  rewrite (H x (or_introl eq_refl)), IH; [reflexivity|]. intros y Hy. apply H. right; exact Hy.
Qed.

Lemma sumZ_map_ext {X} (g h : X -> Z) l : (forall x, In x l -> g x = h x) -> sumZ (map g l) = sumZ (map h l).
Proof.
  unfold sumZ. induction l as [|x t IH]; intros H; cbn [map fold_right]; [reflexivity|].
  rewrite (H x (or_introl eq_refl)), IH; [reflexivity|]. intros y Hy. apply H. right; exact Hy.
Qed.

Lemma loadZ_seq : forall ws p b, length p = length ws ->
  loadZ ws p b = sumZ (map (fun x => if (nth x p 0%N =? b)%N then nth x ws 0 else 0) (seq 0 (length ws))).
Proof.
  induction ws as [|w ws IH]; intros p b Hl; destruct p as [|x p]; try discriminate; [reflexivity|].
  cbn [loadZ length seq map]. rewrite <- seq_shift, map_map. unfold sumZ at 1. cbn [fold_right nth].
  fold (sumZ (map (fun i => if (nth (S i) (x :: p) 0%N =? b)%N then nth (S i) (w :: ws) 0 else 0) (seq 0 (length ws)))).
  cbn [nth]. rewrite (IH p b) by (cbn [length] in Hl; lia). reflexivity.
Qed.

Lemma nth_seq_all (ws : list Z) : map (fun x => nth x ws 0) (seq 0 (length ws)) = ws.
Proof.
  induction ws as [|w ws IH]; [reflexivity|]. cbn [length seq map nth].
  rewrite <- seq_shift, map_map. cbn [nth]. rewrite IH. reflexivity.
Qed.

Section Pick.
  Variable ord : nat -> N.
  Variable idp : nat -> N.
  Variable wzf : nat -> Z.
  Variable b : N.
  Let g (x : nat) : Z := if (idp x =? b)%N then wzf x else 0.

  (* the elements carrying id b are exactly those of the leaf that drew b *)
  Lemma sum_pick : forall lvs base j l,
    nth_error lvs j = Some l ->
    (forall i l' x, nth_error lvs i = Some l' -> In x l' -> idp x = ord (base + i)) ->
    (forall i, (i < length lvs)%nat -> i <> j -> ord (base + i) <> b) ->
    ord (base + j) = b ->
    sumZ (map g (concat lvs)) = sumZ (map wzf l).
  Proof.
    induction lvs as [|l0 t IH]; intros base j l Hn Hid Hne Hj; [destruct j; discriminate|].
    cbn [concat]. rewrite map_app, sumZ_app. destruct j as [|j]; cbn [nth_error] in Hn.
    - inversion Hn; subst l0. rewrite Nat.add_0_r in Hj.
      rewrite (sumZ_map_ext g wzf l).
      + rewrite (sumZ_map_zero g (concat t)); [lia|]. intros x Hx. apply in_concat in Hx as [l' [Hl' Hx]].
        apply In_nth_error in Hl' as [i Hi]. unfold g.
        rewrite (Hid (S i) l' x Hi Hx).
        destruct (N.eqb_spec (ord (base + S i)) b) as [E|_]; [|reflexivity].
        exfalso. apply (Hne (S i)); [|discriminate|exact E]. cbn [length]. assert (i < length t)%nat by (apply nth_error_Some; congruence). lia.
      + intros x Hx. unfold g. rewrite (Hid 0%nat l x eq_refl Hx), Nat.add_0_r, Hj, N.eqb_refl. reflexivity.
    - rewrite (sumZ_map_zero g l0).
      + rewrite (IH (S base) j l Hn); [lia| | |].
        * intros i l' x Hi Hx. rewrite (Hid (S i) l' x Hi Hx). f_equal. lia.
        * intros i Hi Hij. replace (S base + i)%nat with (base + S i)%nat by lia. apply Hne; [cbn [length]; lia|lia].
        * replace (S base + j)%nat with (base + S j)%nat by lia. exact Hj.
      + intros x Hx. unfold g. rewrite (Hid 0%nat l0 x eq_refl Hx).
        destruct (N.eqb_spec (ord (base + 0)) b) as [E|_]; [|reflexivity].
        exfalso. apply (Hne 0%nat); [cbn [length]; lia|discriminate|exact E].
  Qed.
End Pick.

(* ===================================================== the balance theorem *)

(* every number below L is drawn by exactly one leaf *)
Definition ord_bij (ord : nat -> N) (L : nat) : Prop :=
  ord_ok ord L /\ forall b, (b < N.of_nat L)%N -> exists j, (j < L)%nat /\ ord j = b.

Lemma maxZ_ge ws w : In w ws -> w <= maxZ ws.
Proof.
  unfold maxZ. induction ws as [|x t IH]; intros H; [destruct H|]. cbn [fold_right].
  destruct H as [<-|H]; [lia|]. specialize (IH H). lia.
Qed.

Lemma wsum_inject ws l :
  (wsum (map inject_Z ws) l == inject_Z (sumZ (map (fun x => nth x ws 0%Z) l)))%Q.
Proof.
  unfold wsum, sumZ. induction l as [|x t IH]; cbn [map sumQ fold_right]; [reflexivity|].
  rewrite IH, inject_Z_plus. unfold wv. change 0%Q with (inject_Z 0). rewrite map_nth. reflexivity.
Qed.

Theorem mj_balance_exact D npts (ws : list Z) sorter blk cxlt root ord (k : N) (m : nat) p0 p :
  root_ok root -> sorter_ok sorter cxlt -> ord_bij ord (N.to_nat k) ->
  (1 <= k)%N -> (k < 2 ^ 60)%N -> (1 <= m)%nat ->
  Forall (fun w => 0 <= w) ws -> 0 < maxZ ws -> length ws = npts -> length p0 = npts ->
  multi_jagged QA D npts (map inject_Z ws) sorter blk root ord k m p0 = Ok p ->
  forall b, (b < k)%N ->
    Z.abs (Z.of_N k * loadZ ws p b - sumZ ws) <= Z.of_N k * Z.of_nat m * maxZ ws.
Proof.
  intros Hr Hs [Ho Hsurj] Hk Hb Hm Hnn Hmax Hlw Hlp H b Hb'.
  unfold multi_jagged in H.
  destruct (mj_leaf_count QA root k m Hr Hk Hb Hm) as [sch [E [L W]]]. rewrite E in H. cbn [bind] in H.
  unfold mj_with_scheme in H. apply bind_ok in H as [lvs [Hrec H]].
  set (wq := map inject_Z ws) in *. set (M := inject_Z (maxZ ws)).
  destruct (mj_rec_spec QA D npts wq sorter blk cxlt (fun _ => 0%N) Hs sch k m W 0%nat (seq 0 npts) lvs Hrec)
    as [Ll [Q _]].
  rewrite L in Ll.
  assert (Hnd : NoDup (concat lvs)).
  { eapply Permutation_NoDup; [apply Permutation_sym; exact Q|apply seq_NoDup]. }
  apply write_leaves_spec in H as [Lp [Aw Bw]]; [|exact Hnd].
  assert (HMpos : (0 < M)%Q).
  { unfold M. change 0%Q with (inject_Z 0). rewrite <- Zlt_Qlt. exact Hmax. }
  assert (Hw : Forall (fun w => 0 <= w <= M)%Q wq).
  { unfold wq. rewrite Forall_forall in *. intros q Hq. apply in_map_iff in Hq as [w [<- Hin]].
    unfold M. change 0%Q with (inject_Z 0). rewrite <- !Zle_Qle. split; [apply Hnn; exact Hin|apply maxZ_ge; exact Hin]. }
  pose proof (tree_balance D npts wq sorter blk M HMpos Hw (fun a l => proj1 (Hs a l)) sch k m W 0%nat (seq 0 npts) lvs Hrec) as Hbal.
  destruct (Hsurj b ltac:(lia)) as [j [Hj Ej]].
  destruct (nth_error lvs j) as [l|] eqn:En; [|apply nth_error_None in En; lia].
  rewrite Forall_forall in Hbal. destruct (Hbal l (nth_error_In _ _ En)) as [B1 B2].
  assert (Eload : loadZ ws p b = sumZ (map (fun x => nth x ws 0) l)).
  { rewrite loadZ_seq by lia. rewrite Hlw.
    rewrite (sumZ_map_perm _ _ _ (Permutation_sym Q)).
    apply (sum_pick ord (fun x => nth x p 0%N) (fun x => nth x ws 0) b lvs 0%nat j l En).
    - intros i l' x Hi Hx. apply nth_opt_nth. rewrite (Aw i l' Hi x Hx). reflexivity.
    - intros i Hi Hij E'. apply Hij. apply (proj2 Ho); try lia. cbn [Nat.add] in E'. congruence.
    - exact Ej. }
  rewrite Eload. set (wl := sumZ (map (fun x => nth x ws 0) l)) in *.
  assert (Etot : (wsum wq (seq 0 npts) == inject_Z (sumZ ws))%Q).
  { unfold wq. rewrite wsum_inject, <- Hlw, nth_seq_all. reflexivity. }
  unfold wq in B1, B2. rewrite wsum_inject in B1, B2. fold wq in B1, B2. fold wl in B1, B2.
  rewrite Etot in B1, B2. unfold Qd, QN, M in B1, B2.
  set (K := inject_Z (Z.of_N k)) in *. set (T := inject_Z (sumZ ws)) in *.
  set (a := inject_Z wl) in *. set (dq := inject_Z (Z.of_nat m)) in *. set (Mq := inject_Z (maxZ ws)) in *.
  assert (HK : (1 <= K)%Q) by (apply QN_ge1; exact Hk).
  assert (Hmul : (K * (a - T / K) == K * a - T)%Q) by (field; lra).
  assert (U : (K * a - T <= K * dq * Mq)%Q) by nra.
  assert (Lw : (- (K * dq * Mq) <= K * a - T)%Q) by nra.
  unfold K, T, a, dq, Mq in U, Lw.
  unfold Qminus in U, Lw.
  rewrite <- !inject_Z_mult in U, Lw. repeat rewrite <- inject_Z_opp in U. repeat rewrite <- inject_Z_opp in Lw.
  rewrite <- inject_Z_plus in U. rewrite <- inject_Z_plus in Lw.
  rewrite <- Zle_Qle in U, Lw.
  apply Z.abs_le. lia.
Qed.

(* the property's balance clause (strict, with max_iter + 1) follows *)
Corollary mj_balance D npts (ws : list Z) sorter blk cxlt root ord (k : N) (m : nat) p0 p :
  root_ok root -> sorter_ok sorter cxlt -> ord_bij ord (N.to_nat k) ->
  (1 <= k)%N -> (k < 2 ^ 60)%N -> (1 <= m)%nat ->
  Forall (fun w => 0 <= w) ws -> 0 < maxZ ws -> length ws = npts -> length p0 = npts ->
  multi_jagged QA D npts (map inject_Z ws) sorter blk root ord k m p0 = Ok p ->
  balanced ws p k m.
Proof.
  intros Hr Hs Ho Hk Hb Hm Hnn Hmax Hlw Hlp H b Hb'.
  pose proof (mj_balance_exact D npts ws sorter blk cxlt root ord k m p0 p Hr Hs Ho Hk Hb Hm Hnn Hmax Hlw Hlp H b Hb').
  nia.
Qed.

(* ============================ no panic at exact arithmetic (non-negative weights) *)

Lemma is_cut_mono wl t t' p p' : (t <= t')%Q -> is_cut wl t p -> is_cut wl t' p' -> (p <= p')%nat.
Proof.
  intros Ht [L1 [A1 B1]] [L2 [A2 B2]]. destruct (Nat.le_gt_cases p p') as [?|Hlt]; [assumption|].
  specialize (B2 ltac:(lia)). specialize (A1 p' Hlt). lra.
Qed.

Lemma cuts_sorted wl ths ps :
  StronglySorted Qle ths -> Forall2 (is_cut wl) ths ps ->
  StronglySorted le ps /\ Forall (fun p => (p <= length wl)%nat) ps.
Proof.
  intros Hs HF. induction HF as [|t p ths ps Hc HF IH]; [split; constructor|].
  inversion Hs as [|? ? Hs' Hall]; subst. destruct (IH Hs') as [S1 F1].
  split; constructor; try assumption; [|destruct Hc; assumption].
  clear - Hc Hall HF. induction HF as [|t' p' ths ps Hc' HF IH]; [constructor|].
  inversion Hall; subst. constructor; [eapply is_cut_mono; eassumption|apply IH; assumption].
Qed.

Lemma split_many_total {X} : forall ps (l : list X) d,
  StronglySorted le ps -> Forall (fun p => (d <= p <= d + length l)%nat) ps ->
  exists subs, split_many l ps d = Ok subs.
Proof.
  induction ps as [|p ps IH]; intros l d Hs Hb; cbn [split_many]; [eauto|].
  inversion Hs as [|? ? Hs' Hall]; subst. inversion Hb as [|? ? Hp Hb']; subst.
  destruct (Nat.ltb_spec p d); [lia|]. destruct (Nat.ltb_spec (length l) (p - d)); [lia|].
  destruct (IH (skipn (p - d) l) (d + (p - d))%nat Hs') as [rest E].
  - rewrite Forall_forall in *. intros q Hq. specialize (Hall q Hq). specialize (Hb' q Hq).
    rewrite skipn_length. lia.
  - rewrite E. cbn [bind]. eauto.
Qed.

Lemma split_last_none {X} (l : list X) : split_last l = None -> l = [].
Proof.
  induction l as [|x t IH]; cbn [split_last]; intros H; [reflexivity|].
  destruct t as [|y t']; [discriminate|]. destruct (split_last (y :: t')); [discriminate|].
  specialize (IH eq_refl). discriminate.
Qed.

Section Total.
  Variable D npts : nat.
  Variable wq : list Q.
  Variable sorter : nat -> list nat -> list nat.
  Variable blk : list nat -> list nat.
  Hypothesis HD : (1 <= D)%nat.
  Hypothesis Hlen : length wq = npts.
  Hypothesis Hw : Forall (Qle 0) wq.
  Hypothesis Hperm : forall a l, Permutation (sorter a l) l.
  Notation mjrec := (mj_rec QA D npts wq sorter blk).

  Lemma gather_total perm : Forall (fun i => (i < npts)%nat) perm -> exists wl, gather QA wq perm = Ok wl.
  Proof.
    induction 1 as [|i t Hi Ht [wl IH]]; cbn [gather]; [eauto|].
    destruct (nth_opt_lt wq i ltac:(lia)) as [w E].
    match goal with |- exists wl, match ?g with _ => _ end = _ => replace g with (Some w : option Q) end.
    rewrite IH. cbn [bind]. eauto.
  Qed.

  Lemma wv_nonneg els : Forall (Qle 0) (map (wv wq) els).
  Proof.
    induction els as [|x t IH]; cbn [map]; constructor; [|exact IH]. unfold wv.
    destruct (Nat.lt_ge_cases x (length wq)) as [Hlt|Hge].
    - rewrite Forall_forall in Hw. apply Hw. apply nth_In. exact Hlt.
    - rewrite nth_overflow by exact Hge. lra.
  Qed.

  Definition total_spec (sch : scheme Q) : Prop :=
    forall parts d, WfScheme QA sch parts d ->
    forall a perm, Forall (fun i => (i < npts)%nat) perm -> exists lvs, mjrec sch a perm = Ok lvs.

  Lemma go_ch_total a' : forall (chs : list (scheme Q)) cparts d subs,
    Forall total_spec chs ->
    Forall2 (fun c cp => WfScheme QA c cp d /\ (1 <= cp)%N) chs cparts ->
    Forall (Forall (fun i => (i < npts)%nat)) subs ->
    exists lvs, go_ch QA D (fun c s => mjrec c a' s) subs chs = Ok lvs.
  Proof.
    induction chs as [|c chs IH]; intros cparts d subs HP HW Hs.
    - destruct subs; cbn [go_ch]; eauto.
    - destruct subs as [|s subs]; cbn [go_ch]; [eauto|].
      destruct (Nat.eqb_spec D 0); [lia|].
      inversion HP as [|? ? Pc Pt]; subst. inversion HW as [|? cp ? cps [Wc _] Wt]; subst.
      inversion Hs as [|? ? Hs1 Hs2]; subst.
      destruct (Pc cp d Wc a' s Hs1) as [l1 E1]. rewrite E1. cbn [bind].
      destruct (IH cps d subs Pt Wt Hs2) as [l2 E2]. rewrite E2. cbn [bind]. eauto.
  Qed.

  Lemma mj_rec_total : forall sch, total_spec sch.
  Proof.
    induction sch as [ns mods next IH] using scheme_ind2. intros parts d W a perm Hin.
    pose proof (Wf_parts_ge1 _ _ _ W) as Hparts.
    rewrite mj_rec_eq.
    inversion W as [mods' next' d'|ns' mods' children parts' d' cparts Hns Hlc HF Hsum Hmods]; subst.
    - change (0 =? 0)%N with true. cbv iota. eauto.
    - destruct (N.eqb_spec ns 0) as [?|_]; [contradiction|].
      assert (Hfb : forallb (fun i => Nat.ltb i npts) perm = true).
      { apply forallb_forall. rewrite Forall_forall in Hin. intros x Hx. apply Nat.ltb_lt. apply Hin; exact Hx. }
      rewrite Hfb, andb_false_r. cbv zeta.
      set (sorted := sorter a perm).
      assert (Hsin : Forall (fun i => (i < npts)%nat) sorted).
      { eapply Permutation_Forall; [apply Permutation_sym; apply Hperm|exact Hin]. }
      set (fm := fun cp => a_div QA (a_ofN QA cp) (a_ofN QA (sumN cparts))).
      (* compute_split_positions returns sorted cuts within the slab *)
      assert (Hcsp : exists ps, csp QA wq sorted (map fm cparts) (blk sorted) = Ok ps /\
                                StronglySorted le ps /\ Forall (fun p => (p <= length sorted)%nat) ps).
      { unfold csp.
        destruct (split_last (map fm cparts)) as [init|] eqn:Esl.
        2:{ exfalso. apply split_last_none in Esl. destruct cparts; [|discriminate].
            apply Forall2_len in HF. cbn [length] in HF. lia. }
        destruct (split_last_app _ _ Esl) as [z Emods].
        destruct (gather_total sorted Hsin) as [wl Eg]. rewrite Eg. cbn [bind].
        pose proof (gather_map wq sorted wl Eg) as Ewl. subst wl.
        set (wl := map (wv wq) sorted). set (W0 := sum_list QA wl).
        assert (Hnn : Forall (Qle 0) wl) by apply wv_nonneg.
        assert (HW0nn : (0 <= W0)%Q) by (unfold W0; rewrite sum_list_Q; apply sumQ_nonneg; exact Hnn).
        assert (Hmods_nn : Forall (Qle 0) (map fm cparts)).
        { rewrite Forall_forall. intros q Hq. apply in_map_iff in Hq as [cp [<- _]]. unfold fm.
          cbn [a_div a_ofN QA]. fold (QN cp) (QN (sumN cparts)).
          pose proof (QN_ge1 _ Hparts). apply Qle_shift_div_l; [lra|].
          unfold QN. change 0%Q with (inject_Z 0). rewrite Qmult_0_l. change 0%Q with (inject_Z 0). rewrite <- Zle_Qle. lia. }
        rewrite Emods in Hmods_nn. apply Forall_app in Hmods_nn as [Hinit _].
        destruct (thresholds_sorted W0 HW0nn init 0%Q Hinit) as [Ts Tp].
        destruct (csp_core_spec wl Hnn (thresholds QA W0 0%Q init) (blk sorted) Ts Tp) as [ps [Eps Fcut]].
        exists ps. split; [exact Eps|].
        destruct (cuts_sorted wl _ ps Ts Fcut) as [S1 F1]. split; [exact S1|].
        unfold wl in F1. rewrite map_length in F1. exact F1. }
      destruct Hcsp as [ps [Ecsp [Sps Fps]]]. rewrite Ecsp. cbn [bind].
      destruct (split_many_total ps sorted 0%nat Sps) as [subs Esubs].
      { rewrite Forall_forall in *. intros p Hp. specialize (Fps p Hp). lia. }
      rewrite Esubs. cbn [bind].
      apply split_many_ok in Esubs as [Hcat _].
      eapply (go_ch_total _ children cparts d' subs (IH children eq_refl) HF).
      rewrite Forall_forall. intros s Hs. rewrite Forall_forall in *. intros x Hx.
      apply Hsin. rewrite <- Hcat. eapply in_concat_of; eassumption.
  Qed.
End Total.

(* at exact arithmetic MultiJagged returns for every input of the contract *)
Theorem mj_exact_total D npts (wq : list Q) sorter blk cxlt root ord (k : N) (m : nat) p0 :
  root_ok root -> sorter_ok sorter cxlt ->
  (1 <= k)%N -> (k < 2 ^ 60)%N -> (1 <= m)%nat -> (1 <= D)%nat ->
  Forall (Qle 0) wq -> length wq = npts -> length p0 = npts ->
  exists p, multi_jagged QA D npts wq sorter blk root ord k m p0 = Ok p.
Proof.
  intros Hr Hs Hk Hb Hm HD Hw Hlw Hlp. unfold multi_jagged.
  destruct (mj_leaf_count QA root k m Hr Hk Hb Hm) as [sch [E [L W]]]. rewrite E. cbn [bind].
  unfold mj_with_scheme.
  destruct (mj_rec_total D npts wq sorter blk HD Hlw Hw (fun a l => proj1 (Hs a l)) sch k m W 0%nat (seq 0 npts)) as [lvs El].
  { rewrite Forall_forall. intros x Hx. apply in_seq in Hx. lia. }
  rewrite El. cbn [bind].
  destruct (mj_rec_spec QA D npts wq sorter blk cxlt (fun _ => 0%N) Hs sch k m W 0%nat (seq 0 npts) lvs El) as [_ [Q _]].
  apply write_leaves_ok. rewrite Forall_forall. intros x Hx.
  eapply Permutation_in in Hx; [|exact Q]. apply in_seq in Hx. lia.
Qed.

(* ================= whole-algorithm schedule independence at exact arithmetic *)

Lemma gather_nonneg (wq : list Q) perm wl :
  Forall (Qle 0%Q) wq -> gather QA wq perm = Ok wl -> Forall (Qle 0%Q) wl.
Proof.
  intros Hw. revert wl. induction perm as [|i t IH]; intros wl H; cbn [gather] in H.
  - inversion H; constructor.
  - destr_match_in H E; [|discriminate]. apply bind_ok in H as [r [Hr H]]. inversion H; subst.
    constructor; [|apply IH; exact Hr]. rewrite Forall_forall in Hw. apply Hw. eapply nth_opt_In; exact E.
Qed.

(* one call of compute_split_positions, gather and thresholds included *)
Lemma csp_blocks_irrelevant (wq : list Q) perm (mods : list Q) bs1 bs2 :
  Forall (Qle 0%Q) wq -> Forall (Qle 0%Q) mods ->
  csp QA wq perm mods bs1 = csp QA wq perm mods bs2.
Proof.
  intros Hw Hm. unfold csp.
  match goal with |- context [match ?g with _ => _ end] => destruct g as [init|] eqn:Esl end; [|reflexivity].
  destruct (split_last_app _ _ Esl) as [z Emods]. rewrite Emods in Hm. apply Forall_app in Hm as [Hinit _].
  match goal with |- context [bind ?g _] => destruct g as [wl| | |] eqn:Eg end; cbn [bind]; try reflexivity.
  pose proof (gather_nonneg wq perm wl Hw Eg) as Hnn.
  assert (HW0 : (0 <= sum_list QA wl)%Q) by (rewrite sum_list_Q; apply sumQ_nonneg; exact Hnn).
  destruct (thresholds_sorted (sum_list QA wl) HW0 init 0%Q Hinit) as [Ts Tp].
  apply csp_core_blocks_irrelevant; assumption.
Qed.

Section BlocksIndep.
  Variable D npts : nat.
  Variable wq : list Q.
  Variable sorter : nat -> list nat -> list nat.
  Variable blk1 blk2 : list nat -> list nat.
  Hypothesis Hw : Forall (Qle 0%Q) wq.

  Lemma wf_mods_nonneg cparts parts : (1 <= parts)%N ->
    Forall (Qle 0%Q) (map (fun cp => a_div QA (a_ofN QA cp) (a_ofN QA parts)) cparts).
  Proof.
    intros Hparts. rewrite Forall_forall. intros q Hq. apply in_map_iff in Hq as [cp [<- _]].
    cbn [a_div a_ofN QA]. fold (QN cp) (QN parts).
    pose proof (QN_ge1 _ Hparts). apply Qle_shift_div_l; [lra|].
    unfold QN. change 0%Q with (inject_Z 0). rewrite Qmult_0_l. change 0%Q with (inject_Z 0). rewrite <- Zle_Qle. lia.
  Qed.

  (* the leaves do not depend on the block decompositions *)
  Lemma mj_rec_blocks : forall (sch : scheme Q) parts d, WfScheme QA sch parts d ->
    forall a perm, mj_rec QA D npts wq sorter blk1 sch a perm = mj_rec QA D npts wq sorter blk2 sch a perm.
  Proof.
    induction sch as [ns mods next IH] using scheme_ind2. intros parts d W a perm.
    pose proof (Wf_parts_ge1 _ _ _ W) as Hparts.
    rewrite !mj_rec_eq.
    inversion W as [mods' next' d'|ns' mods' children parts' d' cparts Hns Hlc HF Hsum Hmods]; subst; [reflexivity|].
    destruct (ns =? 0)%N; [reflexivity|]. destruct (_ && _); [reflexivity|]. cbv zeta.
    rewrite (csp_blocks_irrelevant wq (sorter a perm) _ (blk1 (sorter a perm)) (blk2 (sorter a perm)) Hw
               (wf_mods_nonneg cparts (sumN cparts) Hparts)).
    destruct (csp QA wq (sorter a perm) _ (blk2 (sorter a perm))) as [pos| | |]; cbn [bind]; try reflexivity.
    destruct (split_many (sorter a perm) pos 0) as [subs| | |]; cbn [bind]; try reflexivity.
    specialize (IH children eq_refl). clear - IH HF. revert subs cparts HF.
    induction children as [|c t IHc]; intros subs cparts HF; destruct subs as [|s subs]; cbn [go_ch]; try reflexivity.
    inversion IH as [|? ? Pc Pt]; subst. inversion HF as [|? cp ? cps [Wc _] Wt]; subst.
    destruct (Nat.eqb D 0); [reflexivity|].
    rewrite (Pc cp d' Wc). destruct (mj_rec QA D npts wq sorter blk2 c (S a mod D) s); cbn [bind]; try reflexivity.
    rewrite (IHc Pt subs cps Wt). reflexivity.
  Qed.

  (* same leaf order: the very same result, block decomposition by block decomposition *)
  Lemma mj_blocks_irrelevant_exact root ord k m p0 :
    root_ok root -> (1 <= k)%N -> (k < 2 ^ 60)%N -> (1 <= m)%nat ->
    multi_jagged QA D npts wq sorter blk1 root ord k m p0 = multi_jagged QA D npts wq sorter blk2 root ord k m p0.
  Proof.
    intros Hr Hk Hb Hm. unfold multi_jagged.
    destruct (mj_leaf_count QA root k m Hr Hk Hb Hm) as [sch [E [_ W]]]. rewrite E. cbn [bind].
    unfold mj_with_scheme. rewrite (mj_rec_blocks sch k m W). reflexivity.
  Qed.
End BlocksIndep.

(* mj_sched_indep_exact: everything a rayon schedule can influence in the model
   — the block decomposition of every scan and the order in which the leaves
   draw their number — changes nothing but the names of the parts *)
Theorem mj_sched_indep_exact D npts (wq : list Q) sorter cxlt root blk1 blk2 ord1 ord2 (k : N) (m : nat) p0 p1 p2 :
  root_ok root -> sorter_ok sorter cxlt ->
  ord_ok ord1 (N.to_nat k) -> ord_ok ord2 (N.to_nat k) ->
  (1 <= k)%N -> (k < 2 ^ 60)%N -> (1 <= m)%nat ->
  Forall (Qle 0%Q) wq -> length p0 = npts ->
  multi_jagged QA D npts wq sorter blk1 root ord1 k m p0 = Ok p1 ->
  multi_jagged QA D npts wq sorter blk2 root ord2 k m p0 = Ok p2 ->
  length p1 = npts /\ length p2 = npts /\
  forall x y, (x < npts)%nat -> (y < npts)%nat ->
    (nth_opt p1 x = nth_opt p1 y <-> nth_opt p2 x = nth_opt p2 y).
Proof.
  intros Hr Hs O1 O2 Hk Hb Hm Hw Hl H1 H2.
  rewrite (mj_blocks_irrelevant_exact D npts wq sorter blk1 blk2 Hw root ord1 k m p0 Hr Hk Hb Hm) in H1.
  pose proof (mj_structure QA D npts wq sorter blk2 cxlt root ord1 k m p0 p1 Hr Hs O1 Hk Hb Hm Hl H1) as [L1 _].
  pose proof (mj_structure QA D npts wq sorter blk2 cxlt root ord2 k m p0 p2 Hr Hs O2 Hk Hb Hm Hl H2) as [L2 _].
  split; [exact L1|]. split; [exact L2|].
  unfold multi_jagged in H1, H2.
  destruct (mj_leaf_count QA root k m Hr Hk Hb Hm) as [sch [E [_ W]]]. rewrite E in H1, H2. cbn [bind] in H1, H2.
  exact (mj_ord_indep QA D npts wq sorter blk2 cxlt Hs sch k m ord1 ord2 p0 p1 p2 W O1 O2 Hl H1 H2).
Qed.

(* The certificate evaluated on coupe's tables (Gen/HilbertTables.v), and the
   curve theorems on cells (x, y) / (x, y, z) for the 2-D and 3-D machines. *)
From Coupe Require Import Lib.Prelude Model.Hilbert Gen.HilbertTables Proofs.HilbertCurve Proofs.HilbertCert.
Open Scope N_scope.

(* The finite certificate: 4 states x 4 quadrants, 12 states x 8 octants.
   A mutated table entry makes one of these two proofs fail. *)
Lemma cert2 : cert 2 digit2 next2 4 = true.
Proof. vm_compute. reflexivity. Qed.
Lemma cert3 : cert 3 digit3 next3 12 = true.
Proof. vm_compute. reflexivity. Qed.

Lemma Qp2 n : Qp 2 n = 4 ^ N.of_nat n.
Proof. unfold Qp. rewrite N.pow_mul_r. reflexivity. Qed.
Lemma Qp3 n : Qp 3 n = 8 ^ N.of_nat n.
Proof. unfold Qp. rewrite N.pow_mul_r. reflexivity. Qed.

Lemma bitn_lt m x : bitn m x < 2.
Proof. unfold bitn. apply N.mod_lt. lia. Qed.
Lemma bitn_cases m x : bitn m x = 0 \/ bitn m x = 1.
Proof. pose proof (bitn_lt m x). lia. Qed.

Lemma pow2_S m : 2 ^ N.of_nat (S m) = 2 * 2 ^ N.of_nat m.
Proof. rewrite Nat2N.inj_succ, N.pow_succ_r'. reflexivity. Qed.

Lemma mod_pow2_S m x : x mod 2 ^ N.of_nat (S m) = bitn m x * 2 ^ N.of_nat m + x mod 2 ^ N.of_nat m.
Proof.
  rewrite pow2_S. pose proof (pow2_pos (N.of_nat m)).
  rewrite (N.mul_comm 2), N.mod_mul_r by lia. unfold bitn. lia.
Qed.

Lemma bitn_testbit m x : bitn m x = N.b2n (N.testbit x (N.of_nat m)).
Proof. unfold bitn. symmetry. apply N.testbit_spec'. Qed.

Lemma bitn_mod k m x : (k < m)%nat -> bitn k (x mod 2 ^ N.of_nat m) = bitn k x.
Proof.
  intros Hk. rewrite !bitn_testbit. f_equal. apply N.mod_pow2_bits_low. lia.
Qed.

Lemma bitn_top m b r : b < 2 -> r < 2 ^ N.of_nat m -> bitn m (b * 2 ^ N.of_nat m + r) = b.
Proof.
  intros Hb Hr. unfold bitn. pose proof (pow2_pos (N.of_nat m)).
  replace ((b * 2 ^ N.of_nat m + r) / 2 ^ N.of_nat m) with b.
  - apply N.mod_small; assumption.
  - apply N.div_unique with (r := r); lia.
Qed.

Lemma bitn_div2 m x : bitn m (x / 2) = bitn (S m) x.
Proof.
  unfold bitn. rewrite N.div_div by (pose proof (pow2_pos (N.of_nat m)); lia).
  rewrite pow2_S. reflexivity.
Qed.

(* ================================================================== 2-D *)

Lemma il2_lt n x y : il2 n x y < 4 ^ N.of_nat n.
Proof.
  induction n as [|m IH]; cbn [il2]; [cbn; lia|].
  rewrite Nat2N.inj_succ, N.pow_succ_r'. pose proof (bitn_lt m x). pose proof (bitn_lt m y). nia.
Qed.

Lemma mod_mod_pow2_S m x : (x mod 2 ^ N.of_nat (S m)) mod 2 ^ N.of_nat m = x mod 2 ^ N.of_nat m.
Proof.
  rewrite mod_pow2_S. pose proof (pow2_pos (N.of_nat m)).
  rewrite N.add_comm, N.mod_add, N.mod_mod by lia. reflexivity.
Qed.

Lemma il2_mod n : forall x y, il2 n x y = il2 n (x mod 2 ^ N.of_nat n) (y mod 2 ^ N.of_nat n).
Proof.
  induction n as [|m IH]; intros x y; cbn [il2]; [reflexivity|].
  rewrite !(bitn_mod m (S m)) by lia.
  rewrite (IH x y), (IH (x mod 2 ^ N.of_nat (S m)) (y mod 2 ^ N.of_nat (S m))), !mod_mod_pow2_S.
  reflexivity.
Qed.

Lemma qbit2 a b : a < 2 -> b < 2 -> qbit 2 (2 * a + b) 0 = a /\ qbit 2 (2 * a + b) 1 = b.
Proof.
  intros Ha Hb. assert (A : a = 0 \/ a = 1) by lia. assert (B : b = 0 \/ b = 1) by lia.
  destruct A, B; subst; split; reflexivity.
Qed.
Lemma qbit2_inv q : q < 4 -> 2 * qbit 2 q 0 + qbit 2 q 1 = q.
Proof.
  intros Hq. assert (A : q = 0 \/ q = 1 \/ q = 2 \/ q = 3) by lia.
  destruct A as [A|[A|[A|A]]]; subst; reflexivity.
Qed.

Lemma coord_il2 n : forall x y,
  coord 2 n 0 (il2 n x y) = x mod 2 ^ N.of_nat n /\ coord 2 n 1 (il2 n x y) = y mod 2 ^ N.of_nat n.
Proof.
  induction n as [|m IH]; intros x y.
  - cbn [coord il2]. cbn. rewrite !N.mod_1_r. split; reflexivity.
  - cbn [il2]. pose proof (bitn_lt m x) as Hx. pose proof (bitn_lt m y) as Hy.
    pose proof (il2_lt m x y) as Hl. rewrite <- Qp2 in *.
    rewrite !coord_top by (try assumption; change (2 ^ 2) with 4; lia).
    destruct (IH x y) as [I1 I2]. rewrite I1, I2.
    destruct (qbit2 _ _ Hx Hy) as [B1 B2]. rewrite B1, B2, !mod_pow2_S. split; reflexivity.
Qed.

Lemma il2_coord n : forall z, il2 n (coord 2 n 0 z) (coord 2 n 1 z) = z mod 4 ^ N.of_nat n.
Proof.
  induction n as [|m IH]; intros z.
  - cbn [il2]. cbn. rewrite N.mod_1_r. reflexivity.
  - cbn [il2 coord].
    pose proof (coord_lt 2 m 0 z) as L0. pose proof (coord_lt 2 m 1 z) as L1.
    assert (B0 : qbit 2 (qd 2 m z) 0 < 2) by (destruct (qbit_le1 2 (qd 2 m z) 0) as [E|E]; rewrite E; lia).
    assert (B1 : qbit 2 (qd 2 m z) 1 < 2) by (destruct (qbit_le1 2 (qd 2 m z) 1) as [E|E]; rewrite E; lia).
    rewrite !bitn_top by assumption.
    rewrite il2_mod. pose proof (pow2_pos (N.of_nat m)).
    rewrite !(N.add_comm (_ * 2 ^ N.of_nat m)), !N.mod_add by lia.
    rewrite <- il2_mod, IH.
    rewrite qbit2_inv by (apply (qd_lt 2)).
    rewrite <- !Qp2. symmetry. apply mod_Qp_S.
Qed.

Lemma il2_S n x y : il2 (S n) x y = (2 * bitn n x + bitn n y) * 4 ^ N.of_nat n + il2 n x y.
Proof. reflexivity. Qed.

Lemma il2_div4 n : forall x y, il2 (S n) x y / 4 = il2 n (x / 2) (y / 2).
Proof.
  induction n as [|m IH]; intros x y.
  - cbn [il2]. pose proof (bitn_lt 0 x). pose proof (bitn_lt 0 y).
    change (4 ^ N.of_nat 0) with 1. apply N.div_small. lia.
  - rewrite (il2_S (S m) x y), (il2_S m (x / 2) (y / 2)).
    rewrite <- IH, !bitn_div2.
    rewrite (Nat2N.inj_succ m), N.pow_succ_r'.
    set (a := 2 * bitn (S m) x + bitn (S m) y). set (p := 4 ^ N.of_nat m). set (b := il2 (S m) x y).
    replace (a * (4 * p) + b) with (b + (a * p) * 4) by lia.
    rewrite N.div_add by lia. lia.
Qed.

(* the 2-D theorems, on cells *)
Theorem enc2_lt n s x y : s < 4 -> enc2 n s x y < 4 ^ N.of_nat n.
Proof. intros Hs. unfold enc2. rewrite <- Qp2. apply (cert_enc_lt _ _ _ _ cert2); assumption. Qed.

Theorem dec2_lt n s h : fst (dec2 n s h) < 2 ^ N.of_nat n /\ snd (dec2 n s h) < 2 ^ N.of_nat n.
Proof. unfold dec2. cbn [fst snd]. split; apply coord_lt. Qed.

Theorem dec2_enc2 n s x y : s < 4 -> x < 2 ^ N.of_nat n -> y < 2 ^ N.of_nat n ->
  dec2 n s (enc2 n s x y) = (x, y).
Proof.
  intros Hs Hx Hy. unfold dec2, enc2.
  rewrite (cert_dec_enc _ _ _ _ cert2) by assumption.
  rewrite Qp2, N.mod_small by apply il2_lt.
  destruct (coord_il2 n x y) as [C0 C1]. rewrite C0, C1, !N.mod_small by assumption. reflexivity.
Qed.

Theorem enc2_dec2 n s h : s < 4 -> h < 4 ^ N.of_nat n ->
  enc2 n s (fst (dec2 n s h)) (snd (dec2 n s h)) = h.
Proof.
  intros Hs Hh. unfold dec2, enc2. cbn [fst snd].
  rewrite il2_coord, <- Qp2, <- enc_mod.
  rewrite (cert_enc_dec _ _ _ _ cert2) by assumption.
  rewrite Qp2. apply N.mod_small. assumption.
Qed.

Lemma adjacent_2 n z z' : adjacent 2 n z z' ->
  adjacent2 (coord 2 n 0 z, coord 2 n 1 z) (coord 2 n 0 z', coord 2 n 1 z').
Proof.
  intros [i [Hi [Hstep Hoth]]]. unfold adjacent2; cbn [fst snd].
  assert (A : i = 0 \/ i = 1) by lia. destruct A; subst i.
  - right. split; [apply Hoth; lia | assumption].
  - left. split; [apply Hoth; lia | assumption].
Qed.

Theorem dec2_continuous n s h : s < 4 -> h + 1 < 4 ^ N.of_nat n ->
  adjacent2 (dec2 n s h) (dec2 n s (h + 1)).
Proof.
  intros Hs Hh. unfold dec2. apply adjacent_2.
  apply (cert_dec_continuous _ _ _ _ cert2); [assumption | rewrite Qp2; assumption].
Qed.

Theorem enc2_parent n s x y : s < 4 -> enc2 (S n) s x y / 4 = enc2 n s (x / 2) (y / 2).
Proof.
  intros Hs. unfold enc2.
  change 4 with (2 ^ 2) at 1. rewrite (cert_enc_parent _ _ _ _ cert2) by assumption.
  change (2 ^ 2) with 4. rewrite il2_div4. reflexivity.
Qed.

(* the order guard of HilbertCurve::partition, with the limits read from the source *)
Lemma order_guard_spec order :
  (order_guard max_order_2d order = Ok tt <-> order <= 32) /\
  (order_guard max_order_3d order = Ok tt <-> order <= 21) /\
  (32 < order -> order_guard max_order_2d order = Err (InvalidOrder 32 order)) /\
  (21 < order -> order_guard max_order_3d order = Err (InvalidOrder 21 order)).
Proof.
  unfold order_guard. change max_order_2d with 32. change max_order_3d with 21.
  destruct (N.ltb_spec 32 order), (N.ltb_spec 21 order); repeat split; intros; try lia; try discriminate; try reflexivity.
Qed.

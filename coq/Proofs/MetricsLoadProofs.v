(* Proofs about compute_parts_load / max_imbalance / imbalance_target /
   imbalance of Model/Metrics.v:
   - the loads are the per-part sums for EVERY split tree of rayon's fold/reduce;
   - itertools' pairwise minmax loop returns (min, max) on integers, and commutes
     with strictly monotone maps;
   - max_imbalance = largest - smallest load; imbalance_target = largest excess;
   - the expression of `imbalance`, read over the rationals, is
     max_p (load_p * k / total - 1), attained by the heaviest part. *)
From Coupe Require Import Lib.Prelude Lib.SFloat Lib.Csr Model.Metrics.
From Coq Require Import QArith Floats.SpecFloat.
Open Scope Z_scope.

(* ------------------------------------------------------------ vectors by nth *)

Definition load_pw (q : nat) (pw : list (nat * Z)) : Z :=
  sumZ (map (fun e : nat * Z => if Nat.eqb (fst e) q then snd e else 0) pw).

Lemma load_pw_cons q e pw :
  load_pw q (e :: pw) = (if Nat.eqb (fst e) q then snd e else 0) + load_pw q pw.
Proof. reflexivity. Qed.

Lemma load_pw_app q a b : load_pw q (a ++ b) = load_pw q a + load_pw q b.
Proof. unfold load_pw. rewrite map_app, sumZ_app. reflexivity. Qed.

Lemma load_of_pw q p ws : load_of q p ws = load_pw q (combine p ws).
Proof.
  revert ws. induction p as [|x p IH]; intros [|w ws]; try reflexivity.
  cbn [load_of combine]. rewrite load_pw_cons, IH. reflexivity.
Qed.

Lemma list_eq_nth (a b : list Z) :
  length a = length b -> (forall i, (i < length a)%nat -> nth i a 0 = nth i b 0) -> a = b.
Proof.
  revert b. induction a as [|x a IH]; intros [|y b] Hl H; cbn in Hl; try lia; [reflexivity|].
  f_equal.
  - apply (H 0%nat). cbn. lia.
  - apply IH; [lia|]. intros i Hi. apply (H (S i)). cbn. lia.
Qed.

Lemma add_at_spec acc q w :
  (q < length acc)%nat ->
  exists acc', add_at acc q w = Some acc' /\ length acc' = length acc /\
    forall i, nth i acc' 0 = nth i acc 0 + (if Nat.eqb q i then w else 0).
Proof.
  revert q. induction acc as [|x t IH]; intros [|q] H; cbn [length] in H; try lia.
  - eexists. split; [reflexivity|]. split; [reflexivity|]. intros [|i]; cbn; lia.
  - destruct (IH q) as [t' [E [L N]]]; [lia|]. cbn [add_at]. rewrite E.
    eexists. split; [reflexivity|]. split; [cbn; lia|]. intros [|i]; cbn [nth]; [cbn; lia|].
    rewrite N. reflexivity.
Qed.

Lemma add_at_none acc q w : (length acc <= q)%nat -> add_at acc q w = None.
Proof.
  revert q. induction acc as [|x t IH]; intros q H; [destruct q; reflexivity|].
  destruct q as [|q]; cbn [length] in H; [lia|]. cbn [add_at]. rewrite IH by lia. reflexivity.
Qed.

Lemma fold_loads_spec pw : forall acc,
  Forall (fun e : nat * Z => (fst e < length acc)%nat) pw ->
  exists r, fold_loads acc pw = Ok r /\ length r = length acc /\
    forall i, nth i r 0 = nth i acc 0 + load_pw i pw.
Proof.
  induction pw as [|[q w] pw IH]; intros acc H.
  - exists acc. split; [reflexivity|]. split; [reflexivity|]. intros i. unfold load_pw. cbn. lia.
  - inversion H as [|? ? Hq Hrest]; subst. cbn [fst] in Hq.
    destruct (add_at_spec acc q w Hq) as [acc' [E [L N]]].
    cbn [fold_loads]. rewrite E.
    destruct (IH acc') as [r [Er [Lr Nr]]].
    { rewrite L. exact Hrest. }
    exists r. split; [exact Er|]. split; [lia|]. intros i.
    rewrite Nr, N, load_pw_cons. cbn [fst snd]. lia.
Qed.

Lemma nth_repeat0 k i : nth i (repeat 0 k) 0 = 0.
Proof. revert i. induction k as [|k IH]; intros [|i]; cbn; auto. Qed.

Lemma zip_add_spec a b :
  length a = length b ->
  length (zip_add a b) = length a /\ forall i, nth i (zip_add a b) 0 = nth i a 0 + nth i b 0.
Proof.
  revert b. induction a as [|x a IH]; intros [|y b] H; cbn in H; try lia.
  - split; [reflexivity|]. intros [|i]; reflexivity.
  - destruct (IH b) as [L N]; [lia|]. cbn [zip_add]. split; [cbn; lia|].
    intros [|i]; cbn [nth]; [reflexivity|apply N].
Qed.

(* rayon's fold + reduce_with over ANY split tree gives the per-part sums *)
Lemma par_loads_spec t : forall k pw,
  Forall (fun e : nat * Z => (fst e < k)%nat) pw ->
  exists r, par_loads t k pw = Ok r /\ length r = k /\ forall i, nth i r 0 = load_pw i pw.
Proof.
  induction t as [|m l IHl r IHr]; intros k pw H.
  - cbn [par_loads]. destruct (fold_loads_spec pw (repeat 0 k)) as [v [E [L N]]].
    { rewrite repeat_length. exact H. }
    exists v. split; [exact E|]. split; [rewrite L; apply repeat_length|].
    intros i. rewrite N, nth_repeat0. lia.
  - cbn [par_loads].
    rewrite <- (firstn_skipn m pw) in H. apply Forall_app in H as [H1 H2].
    destruct (IHl k _ H1) as [a [Ea [La Na]]]. destruct (IHr k _ H2) as [b [Eb [Lb Nb]]].
    rewrite Ea, Eb. cbn [bind].
    destruct (zip_add_spec a b) as [L N]; [lia|].
    eexists. split; [reflexivity|]. split; [lia|]. intros i.
    rewrite N, Na, Nb, <- load_pw_app, firstn_skipn. reflexivity.
Qed.

Lemma max_part_lt p k : (0 < k)%nat -> Forall (fun q => (q < k)%nat) p -> (max_part p < k)%nat.
Proof.
  intros Hk H. induction H as [|q p Hq _ IH]; cbn [max_part fold_right]; [exact Hk|].
  fold (max_part p). lia.
Qed.

Lemma max_part_ge p q : In q p -> (q <= max_part p)%nat.
Proof.
  induction p as [|x p IH]; intros H; [destruct H|]. cbn [max_part fold_right]. fold (max_part p).
  destruct H as [->|H]; [lia|]. specialize (IH H). lia.
Qed.

Lemma combine_fst_forall {B} (P : nat -> Prop) (p : list nat) (ws : list B) :
  Forall P p -> Forall (fun e : nat * B => P (fst e)) (combine p ws).
Proof.
  intros H. revert ws. induction H as [|x p Hx _ IH]; intros [|w ws]; cbn [combine]; constructor; auto.
Qed.

Theorem loads_def_any_tree t k p ws :
  (0 < k)%nat -> Forall (fun q => (q < k)%nat) p ->
  compute_parts_load t k p ws = Ok (loads_def k p ws).
Proof.
  intros Hk Hp. unfold compute_parts_load.
  destruct (Nat.ltb_spec (max_part p) k) as [_|Hge]; [|pose proof (max_part_lt p k Hk Hp); lia].
  destruct (par_loads_spec t k (combine p ws)) as [r [E [L N]]].
  { apply (combine_fst_forall (fun q => (q < k)%nat)). exact Hp. }
  rewrite E. f_equal. apply list_eq_nth.
  - unfold loads_def. rewrite map_length, seq_length. exact L.
  - intros i Hi. rewrite N. unfold loads_def.
    rewrite (nth_indep _ 0 (load_of 0 p ws)) by (rewrite map_length, seq_length; lia).
    rewrite (map_nth (fun q => load_of q p ws) (seq 0 k) 0%nat i).
    rewrite seq_nth by lia. cbn [Nat.add]. rewrite load_of_pw. reflexivity.
Qed.

(* the schedule does not matter *)
Corollary loads_tree_indep t1 t2 k p ws :
  (0 < k)%nat -> Forall (fun q => (q < k)%nat) p ->
  compute_parts_load t1 k p ws = compute_parts_load t2 k p ws.
Proof. intros Hk Hp. rewrite !loads_def_any_tree by assumption. reflexivity. Qed.

(* a part id outside the requested count is reported (debug assertion), never absorbed *)
Theorem loads_out_of_range t k p ws q :
  In q p -> (k <= q)%nat -> compute_parts_load t k p ws = Panic 2.
Proof.
  intros Hin Hq. unfold compute_parts_load. pose proof (max_part_ge p q Hin).
  destruct (Nat.ltb_spec (max_part p) k); [lia|reflexivity].
Qed.

Lemma loads_def_length k p ws : length (loads_def k p ws) = k.
Proof. unfold loads_def. rewrite map_length, seq_length. reflexivity. Qed.

(* ------------------------------------------------------------------- minmax *)

Lemma list_ind2 {A} (P : list A -> Prop) :
  P [] -> (forall x, P [x]) -> (forall x y l, P l -> P (x :: y :: l)) -> forall l, P l.
Proof.
  intros H0 H1 H2. fix IH 1. intros [|x [|y l]]; [exact H0|exact (H1 x)|exact (H2 x y l (IH l))].
Qed.

Lemma fold_min_init l a b : fold_right Z.min (Z.min a b) l = Z.min a (fold_right Z.min b l).
Proof. induction l as [|y l IH]; cbn [fold_right]; [reflexivity|]. rewrite IH. lia. Qed.
Lemma fold_max_init l a b : fold_right Z.max (Z.max a b) l = Z.max a (fold_right Z.max b l).
Proof. induction l as [|y l IH]; cbn [fold_right]; [reflexivity|]. rewrite IH. lia. Qed.
Lemma if_ltb_min a b : (if a <? b then a else b) = Z.min a b.
Proof. destruct (Z.ltb_spec a b); lia. Qed.
Lemma if_nltb_max a b : (if negb (a <? b) then a else b) = Z.max a b.
Proof. destruct (Z.ltb_spec a b); cbn [negb]; lia. Qed.

Lemma minmax_loop_Z l : forall mn mx, mn <= mx ->
  minmax_loop Z.ltb mn mx l = (list_min_Z mn l, list_max_Z mx l).
Proof.
  unfold list_min_Z, list_max_Z.
  induction l as [| first | first second t IH] using list_ind2; intros mn mx H.
  - reflexivity.
  - cbn [minmax_loop fold_right].
    destruct (Z.ltb_spec first mn); [f_equal; lia|].
    destruct (Z.ltb_spec first mx); cbn [negb]; f_equal; lia.
  - cbn [minmax_loop fold_right]. rewrite !if_ltb_min, !if_nltb_max.
    destruct (Z.ltb_spec second first); cbn [negb].
    + rewrite IH by lia. rewrite fold_min_init, fold_max_init. f_equal; lia.
    + rewrite IH by lia. rewrite fold_min_init, fold_max_init. f_equal; lia.
Qed.

Theorem minmax_Z l :
  minmax Z.ltb l = match l with [] => None | x :: r => Some (list_min_Z x r, list_max_Z x r) end.
Proof.
  destruct l as [|x [|y t]]; try reflexivity.
  cbn [minmax]. f_equal. unfold list_min_Z, list_max_Z. cbn [fold_right].
  destruct (Z.ltb_spec y x); cbn [negb]; rewrite minmax_loop_Z by lia; unfold list_min_Z, list_max_Z; f_equal.
  - rewrite <- fold_min_init. f_equal. lia.
  - rewrite <- fold_max_init. f_equal. lia.
  - rewrite <- fold_min_init. f_equal. lia.
  - rewrite <- fold_max_init. f_equal. lia.
Qed.

(* the loop only looks at comparisons: it commutes with order embeddings *)
Section MinMaxMono.
  Variable F : Type.
  Variable lt : F -> F -> bool.
  Variable phi : Z -> F.
  Hypothesis phi_lt : forall a b, lt (phi a) (phi b) = (a <? b).

  Lemma minmax_loop_mono l : forall mn mx,
    minmax_loop lt (phi mn) (phi mx) (map phi l)
    = (phi (fst (minmax_loop Z.ltb mn mx l)), phi (snd (minmax_loop Z.ltb mn mx l))).
  Proof.
    induction l as [| first | first second t IH] using list_ind2; intros mn mx.
    - reflexivity.
    - cbn [map minmax_loop]. rewrite !phi_lt.
      destruct (first <? mn); [reflexivity|]. destruct (first <? mx); reflexivity.
    - cbn [map minmax_loop]. rewrite !phi_lt.
      destruct (second <? first); cbn [negb].
      + destruct (second <? mn), (first <? mx); cbn [negb]; apply IH.
      + destruct (first <? mn), (second <? mx); cbn [negb]; apply IH.
  Qed.

  Lemma minmax_mono l :
    minmax lt (map phi l)
    = match minmax Z.ltb l with None => None | Some (a, b) => Some (phi a, phi b) end.
  Proof.
    destruct l as [|x [|y t]]; try reflexivity.
    cbn [map minmax]. rewrite phi_lt. destruct (y <? x); cbn [negb].
    - rewrite minmax_loop_mono. destruct (minmax_loop Z.ltb y x t); reflexivity.
    - rewrite minmax_loop_mono. destruct (minmax_loop Z.ltb x y t); reflexivity.
  Qed.
End MinMaxMono.

(* ------------------------------------------- max_imbalance, imbalance_target *)

Theorem max_imbalance_def t k p ws :
  (0 < k)%nat -> Forall (fun q => (q < k)%nat) p ->
  max_imbalance t k p ws = Ok (spread (loads_def k p ws)).
Proof.
  intros Hk Hp. unfold max_imbalance. rewrite loads_def_any_tree by assumption. cbn [bind].
  rewrite minmax_Z. unfold spread. destruct (loads_def k p ws); reflexivity.
Qed.

Lemma max_by_last_max l : forall cur, max_by_last cur l = list_max_Z cur l.
Proof.
  unfold list_max_Z. induction l as [|x l IH]; intros cur; [reflexivity|].
  cbn [max_by_last fold_right]. rewrite IH.
  assert (G : forall a b, a <= b -> fold_right Z.max a l <= fold_right Z.max b l).
  { clear. induction l as [|y l IH]; intros a b H; cbn [fold_right]; [exact H|]. specialize (IH a b H). lia. }
  assert (G2 : forall a, a <= fold_right Z.max a l).
  { clear. induction l as [|y l IH]; intros a; cbn [fold_right]; [lia|]. specialize (IH a). lia. }
  assert (G3 : forall a b, fold_right Z.max (Z.max a b) l = Z.max a (fold_right Z.max b l)).
  { clear. induction l as [|y l IH]; intros a b; cbn [fold_right]; [reflexivity|]. rewrite IH. lia. }
  destruct (Z.ltb_spec x cur).
  - replace cur with (Z.max x cur) at 1 by lia. rewrite G3. reflexivity.
  - replace x with (Z.max x cur) at 1 by lia. rewrite G3.
    pose proof (G2 cur). pose proof (G cur x). lia.
Qed.

Theorem imbalance_target_def t targets p ws :
  (0 < length targets)%nat -> Forall (fun q => (q < length targets)%nat) p ->
  imbalance_target t targets p ws = Ok (max_excess (loads_def (length targets) p ws) targets).
Proof.
  intros Hk Hp. unfold imbalance_target. rewrite loads_def_any_tree by assumption. cbn [bind].
  unfold max_excess. destruct (map _ _) as [|d ds]; [reflexivity|]. rewrite max_by_last_max. reflexivity.
Qed.

(* ---------------------------------------------------------------- imbalance *)

(* the model = the f64 instance of the expression, applied to the per-part sums *)
Theorem imbalance_def t k p ws :
  (0 < k)%nat -> Forall (fun q => (q < k)%nat) p -> length p = length ws ->
  imbalance t k p ws = Ok (imbalance_f64 k (loads_def k p ws)).
Proof.
  intros Hk Hp Hl. unfold imbalance. rewrite Hl, Nat.eqb_refl. cbn [negb].
  destruct (Nat.eqb_spec k 0); [lia|]. rewrite loads_def_any_tree by assumption. reflexivity.
Qed.

(* the rational reading of the same expression *)
Definition Qltb (a b : Q) : bool := negb (Qle_bool b a).
Definition imbalance_Q (k : nat) (loads : list Z) : Q :=
  imbalance_expr Q inject_Z Qminus Qdiv (fun q => Qeq_bool q 0) Qltb 0%Q k loads.

Open Scope Q_scope.

Lemma imbalance_term_Q (l total k : Z) :
  ~ inject_Z total == 0 -> ~ inject_Z k == 0 ->
  (inject_Z l - inject_Z total / inject_Z k) / (inject_Z total / inject_Z k)
  == inject_Z l * inject_Z k / inject_Z total - 1.
Proof. intros Ht Hk. field. split; assumption. Qed.

Lemma Qltb_term_mono (ideal : Q) (a b : Z) :
  0 < ideal ->
  Qltb ((inject_Z a - ideal) / ideal) ((inject_Z b - ideal) / ideal) = (a <? b)%Z.
Proof.
  intros Hi. unfold Qltb.
  assert (Hinv : 0 < / ideal) by (apply Qinv_lt_0_compat; exact Hi).
  destruct (Z.ltb_spec a b) as [Hab|Hab].
  - apply negb_true_iff. apply not_true_iff_false. intros H. apply Qle_bool_iff in H.
    unfold Qdiv in H. apply Qmult_le_r in H; [|exact Hinv].
    unfold Qminus in H. apply Qplus_le_l in H. rewrite <- Zle_Qle in H. lia.
  - apply negb_false_iff. apply Qle_bool_iff.
    unfold Qdiv. apply Qmult_le_r; [exact Hinv|].
    unfold Qminus. apply Qplus_le_l. rewrite <- Zle_Qle. exact Hab.
Qed.

(* total > 0, k > 0: the value is load_max * k / total - 1, load_max the heaviest part *)
Theorem imbalance_real (k : nat) (x : Z) (r : list Z) :
  (0 < k)%nat -> (0 < sumZ (x :: r))%Z ->
  imbalance_Q k (x :: r)
  == inject_Z (list_max_Z x r) * inject_Z (Z.of_nat k) / inject_Z (sumZ (x :: r)) - 1.
Proof.
  intros Hk Ht. unfold imbalance_Q, imbalance_expr.
  set (total := sumZ (x :: r)) in *.
  set (ideal := Qdiv (inject_Z total) (inject_Z (Z.of_nat k))).
  assert (HkQ : 0 < inject_Z (Z.of_nat k)) by (change 0 with (inject_Z 0); rewrite <- Zlt_Qlt; lia).
  assert (HtQ : 0 < inject_Z total) by (change 0 with (inject_Z 0); rewrite <- Zlt_Qlt; lia).
  assert (Hideal : 0 < ideal).
  { unfold ideal, Qdiv. apply Qmult_lt_0_compat; [exact HtQ|]. apply Qinv_lt_0_compat. exact HkQ. }
  assert (Hnz : Qeq_bool ideal 0 = false).
  { apply not_true_iff_false. intros H. apply Qeq_bool_iff in H. rewrite H in Hideal.
    exact (Qlt_irrefl 0 Hideal). }
  rewrite Hnz.
  rewrite (minmax_mono Q Qltb (fun l => (inject_Z l - ideal) / ideal)
             (fun a b => Qltb_term_mono ideal a b Hideal) (x :: r)).
  rewrite minmax_Z. unfold ideal.
  apply imbalance_term_Q.
  - intros H. rewrite H in HtQ. exact (Qlt_irrefl 0 HtQ).
  - intros H. rewrite H in HkQ. exact (Qlt_irrefl 0 HkQ).
Qed.

(* ... and that is the largest of the per-part values *)
Theorem imbalance_real_is_max (k : nat) (x : Z) (r : list Z) (l : Z) :
  (0 < k)%nat -> (0 < sumZ (x :: r))%Z -> In l (x :: r) ->
  inject_Z l * inject_Z (Z.of_nat k) / inject_Z (sumZ (x :: r)) - 1 <= imbalance_Q k (x :: r).
Proof.
  intros Hk Ht Hin. rewrite imbalance_real by assumption.
  assert (HkQ : 0 < inject_Z (Z.of_nat k)) by (change 0 with (inject_Z 0); rewrite <- Zlt_Qlt; lia).
  assert (HtQ : 0 < inject_Z (sumZ (x :: r))) by (change 0 with (inject_Z 0); rewrite <- Zlt_Qlt; lia).
  assert (Hle : (l <= list_max_Z x r)%Z).
  { unfold list_max_Z. clear - Hin. destruct Hin as [->|Hin].
    - induction r as [|y r IH]; cbn [fold_right]; lia.
    - induction r as [|y r IH]; [destruct Hin|]. cbn [fold_right].
      destruct Hin as [->|Hin]; [lia|]. specialize (IH Hin). lia. }
  unfold Qminus. apply Qplus_le_l. unfold Qdiv. apply Qmult_le_r; [apply Qinv_lt_0_compat; exact HtQ|].
  apply Qmult_le_r; [exact HkQ|]. rewrite <- Zle_Qle. exact Hle.
Qed.

(* the heaviest part exists: the maximum is attained *)
Lemma list_max_Z_in x r : In (list_max_Z x r) (x :: r).
Proof.
  unfold list_max_Z. induction r as [|y r IH]; cbn [fold_right]; [left; reflexivity|].
  destruct (Z.max_spec y (fold_right Z.max x r)) as [[_ ->]|[_ ->]].
  - destruct IH as [IH|IH]; [left; exact IH|right; right; exact IH].
  - right. left. reflexivity.
Qed.

(* total = 0 (no weight at all): the early return *)
Theorem imbalance_Q_zero_total (k : nat) (loads : list Z) :
  sumZ loads = 0%Z -> imbalance_Q k loads == 0.
Proof.
  intros H. unfold imbalance_Q, imbalance_expr. rewrite H.
  assert (E : Qeq_bool (inject_Z 0 / inject_Z (Z.of_nat k)) 0 = true).
  { apply Qeq_bool_iff. unfold Qdiv. change (inject_Z 0) with 0. apply Qmult_0_l. }
  rewrite E. reflexivity.
Qed.

(* The ZCurve model only ever asks the quadrant oracle about a point along that
   point's OWN path (the boxes that contain it) and above depth [order]; hence
   running it with the oracle rebuilt from the recorded codes is the same as
   running it with the true quadrant function. *)
From Coupe Require Import Lib.Prelude Lib.Sorting Model.SfcPart Proofs.SortingProofs Proofs.ZCurveProofs.
From Coq Require Import Sorting.Permutation Sorting.Sorted.
Open Scope nat_scope.

(* ---- extensionality of the pieces ---- *)

Lemma bs_loop_ext {A} (c1 c2 : A -> comparison) (a : list A) :
  (forall x, In x a -> c1 x = c2 x) ->
  forall fuel base size, bs_loop c1 a fuel base size = bs_loop c2 a fuel base size.
Proof.
  intros H. induction fuel as [|f IH]; intros base size; cbn [bs_loop]; [reflexivity|].
  destruct (Nat.leb size 1); [reflexivity|].
  destruct (nth_opt a (base + Nat.div2 size)) as [x|] eqn:E; [|reflexivity].
  rewrite (H x (nth_opt_In _ _ _ E)). apply IH.
Qed.

Lemma bsearch_by_ext {A} (c1 c2 : A -> comparison) (a : list A) :
  (forall x, In x a -> c1 x = c2 x) -> bsearch_by c1 a = bsearch_by c2 a.
Proof.
  intros H. unfold bsearch_by. destruct a as [|y t] eqn:Ea; [reflexivity|]. rewrite <- Ea in *.
  rewrite (bs_loop_ext c1 c2 a H).
  destruct (bs_loop c2 a (length a) 0 (length a)) as [b| | |]; try reflexivity.
  destruct (nth_opt a b) as [x|] eqn:E; [|reflexivity].
  rewrite (H x (nth_opt_In _ _ _ E)). reflexivity.
Qed.

Lemma split_positions_ext (k1 k2 : nat -> N) L :
  (forall x, In x L -> k1 x = k2 x) -> forall ns, split_positions k1 L ns = split_positions k2 L ns.
Proof.
  intros H. induction ns as [|n nt IH]; cbn [split_positions]; [reflexivity|].
  rewrite (bsearch_by_ext (fun idx => if (k1 idx <? N.of_nat n)%N then Lt else Gt)
                          (fun idx => if (k2 idx <? N.of_nat n)%N then Lt else Gt) L).
  - rewrite IH. reflexivity.
  - intros x Hx. rewrite (H x Hx). reflexivity.
Qed.

Lemma zslices_ext (r1 r2 : N -> list nat -> res (list nat)) : forall sl i,
  (forall d s, nth_opt sl d = Some s -> r1 (N.of_nat (i + d)) s = r2 (N.of_nat (i + d)) s) ->
  zslices r1 i sl = zslices r2 i sl.
Proof.
  induction sl as [|s st IH]; intros i H; cbn [zslices]; [reflexivity|].
  pose proof (H 0 s eq_refl) as H0. rewrite Nat.add_0_r in H0. rewrite H0.
  rewrite (IH (S i)); [reflexivity|].
  intros d s' Hd. specialize (H (S d) s' Hd). replace (S i + d) with (i + S d) by lia. exact H.
Qed.

(* the sort oracle looks at the keys of the elements it sorts only *)
Definition sorter_ext (sorter : (nat -> N) -> list nat -> list nat) : Prop :=
  forall k1 k2 l, (forall x, In x l -> k1 x = k2 x) -> sorter k1 l = sorter k2 l.

Lemma insert_by_key_ext k1 k2 x : forall l,
  k1 x = k2 x -> (forall y, In y l -> k1 y = k2 y) -> insert_by_key k1 x l = insert_by_key k2 x l.
Proof.
  induction l as [|y t IH]; intros Hx H; cbn [insert_by_key]; [reflexivity|].
  rewrite (H y (or_introl eq_refl)), Hx. destruct (k2 y <? k2 x)%N; [|reflexivity].
  f_equal. apply IH; [exact Hx|]. intros z Hz. apply H. right. exact Hz.
Qed.

Lemma insert_by_key_in key x l y : In y (insert_by_key key x l) -> y = x \/ In y l.
Proof.
  induction l as [|z t IH]; cbn [insert_by_key]; intros H.
  - destruct H as [<-|[]]. left. reflexivity.
  - destruct (key z <? key x)%N.
    + destruct H as [<-|H]; [right; left; reflexivity|]. destruct (IH H) as [->|Hy]; [left; reflexivity|right; right; exact Hy].
    + destruct H as [<-|H]; [left; reflexivity|right; exact H].
Qed.

Theorem sort_by_key_ext : sorter_ext sort_by_key.
Proof.
  intros k1 k2 l. unfold sort_by_key. induction l as [|x t IH]; intros H; cbn [fold_right]; [reflexivity|].
  rewrite IH by (intros y Hy; apply H; right; exact Hy).
  apply insert_by_key_ext; [apply H; left; reflexivity|].
  intros y Hy. apply H. right.
  clear - Hy. induction t as [|z t IHt]; cbn [fold_right] in Hy; [destruct Hy|].
  apply insert_by_key_in in Hy. destruct Hy as [->|Hy]; [left; reflexivity|right; apply IHt, Hy].
Qed.

(* ---- own paths ---- *)

Lemma zcode_snoc q : forall m path x,
  zcode q (S m) path x = zcode q m path x ++ [q (path ++ zcode q m path x) x].
Proof.
  induction m as [|m IH]; intros path x.
  - cbn [zcode app]. rewrite app_nil_r. reflexivity.
  - change (zcode q (S (S m)) path x) with (q path x :: zcode q (S m) (path ++ [q path x]) x).
    rewrite IH. cbn [zcode app]. rewrite <- app_assoc. reflexivity.
Qed.

(* [path] is the path of the boxes that contain x, from the root *)
Definition own (q : list N -> nat -> N) (path : list N) (x : nat) : Prop :=
  zcode q (length path) [] x = path.

Lemma own_snoc q path x : own q path x -> own q (path ++ [q path x]) x.
Proof.
  unfold own. intros H. rewrite app_length. cbn [length]. rewrite Nat.add_1_r, zcode_snoc.
  cbn [app]. rewrite H. reflexivity.
Qed.

Section Ext.
  Variables (nq : nat) (q1 q2 : list N -> nat -> N) (sorter : (nat -> N) -> list nat -> list nat) (depth : nat).
  Hypothesis Hnq : 1 <= nq.
  Hypothesis Hsort : sort_contract sorter.
  Hypothesis Hext : sorter_ext sorter.
  Hypothesis Hrange : forall path x, (q1 path x < N.of_nat nq)%N.
  (* the two oracles agree along own paths above [depth] *)
  Hypothesis Hagree : forall path x, length path < depth -> own q1 path x -> q2 path x = q1 path x.

  Lemma zrec_oracle_ext : forall o path permu,
    length path + o <= depth -> Forall (own q1 path) permu ->
    zrec nq q1 sorter o path permu = zrec nq q2 sorter o path permu.
  Proof.
    induction o as [|o IH]; intros path permu Hd Hown; cbn [zrec]; [reflexivity|].
    destruct (Nat.leb (length permu) 1); [reflexivity|].
    rewrite Forall_forall in Hown.
    assert (K : forall x, In x permu -> q1 path x = q2 path x)
      by (intros x Hx; symmetry; apply Hagree; [lia|apply Hown, Hx]).
    rewrite <- (Hext (q1 path) (q2 path) permu K).
    destruct (Hsort (q1 path) permu) as [HP HS]. set (L := sorter (q1 path) permu) in *.
    assert (KL : forall x, In x L -> q1 path x = q2 path x)
      by (intros x Hx; apply K; eapply Permutation_in; eauto).
    rewrite <- (split_positions_ext (q1 path) (q2 path) L KL).
    rewrite (split_positions_spec (q1 path) L HS). cbn [bind].
    rewrite (slices_spec (q1 path) nq L Hnq (fun x _ => Hrange path x) HS). cbn [bind].
    apply zslices_ext. intros d s Hds. apply nth_opt_map_seq in Hds. destruct Hds as [-> _].
    cbn [Nat.add]. apply IH.
    - rewrite app_length. cbn [length]. lia.
    - rewrite Forall_forall. intros x Hx. unfold e_eq in Hx. apply filter_In in Hx.
      destruct Hx as [HxL Hk]. apply N.eqb_eq in Hk. rewrite <- Hk. apply own_snoc.
      apply Hown. eapply Permutation_in; eauto.
  Qed.
End Ext.

Theorem zcurve_oracle_ext guard nq maxo q1 q2 sorter order k n p0 :
  1 <= nq -> sort_contract sorter -> sorter_ext sorter ->
  (forall path x, (q1 path x < N.of_nat nq)%N) ->
  (forall path x, length path < order -> own q1 path x -> q2 path x = q1 path x) ->
  zcurve guard nq maxo q1 sorter order k n p0 = zcurve guard nq maxo q2 sorter order k n p0.
Proof.
  intros Hnq Hs He Hr Ha. unfold zcurve.
  destruct (negb (Nat.eqb (length p0) n)); [reflexivity|].
  destruct (Nat.ltb maxo order); [reflexivity|].
  destruct n as [|n']; [reflexivity|].
  rewrite (zrec_oracle_ext nq q1 q2 sorter order Hnq Hs He Hr Ha order [] (seq 0 (S n'))); [reflexivity|cbn [length]; lia|].
  rewrite Forall_forall. intros x _. reflexivity.
Qed.

(* the oracle rebuilt from recorded codes agrees with the quadrant function
   that produced them, along own paths above depth [order] *)
Lemma nth_zcode q : forall order m path x, m < order ->
  nth m (zcode q order path x) 0%N = q (path ++ zcode q m path x) x.
Proof.
  induction order as [|o IH]; intros m path x Hm; [lia|].
  cbn [zcode]. destruct m as [|m]; cbn [nth zcode].
  - rewrite app_nil_r. reflexivity.
  - rewrite IH by lia. rewrite <- app_assoc. reflexivity.
Qed.

Theorem zcurve_codes_oracle guard nq maxo q sorter order k n p0 :
  1 <= nq -> sort_contract sorter -> sorter_ext sorter ->
  (forall path x, (q path x < N.of_nat nq)%N) ->
  zcurve guard nq maxo q sorter order k n p0
  = zcurve guard nq maxo (oracle_of_codes (map (zcode q order []) (seq 0 n))) sorter order k n p0.
Proof.
  intros Hnq Hs He Hr.
  destruct (Nat.eq_dec (length p0) n) as [Hl|Hl].
  2:{ unfold zcurve. destruct (Nat.eqb_spec (length p0) n); [contradiction|reflexivity]. }
  (* only points 0..n-1 are ever asked about: compare through an oracle that is total *)
  set (qc := fun path x => if Nat.ltb x n then oracle_of_codes (map (zcode q order []) (seq 0 n)) path x else q path x).
  transitivity (zcurve guard nq maxo qc sorter order k n p0).
  - apply zcurve_oracle_ext; auto. intros path x Hp Hown. unfold qc.
    destruct (Nat.ltb_spec x n) as [Hx|Hx]; [|reflexivity].
    unfold oracle_of_codes. rewrite (nth_indep _ [] (zcode q order [] 0)) by (rewrite map_length, seq_length; exact Hx).
    rewrite map_nth, seq_nth by exact Hx. cbn [Nat.add].
    rewrite nth_zcode by exact Hp. cbn [app]. unfold own in Hown. rewrite Hown. reflexivity.
  - (* qc and the rebuilt oracle agree on 0..n-1, and the recursion only sees those *)
    unfold zcurve. rewrite Hl, Nat.eqb_refl. cbn [negb].
    destruct (Nat.ltb maxo order); [reflexivity|]. destruct n as [|n']; [reflexivity|].
    f_equal.
    assert (G : forall o path permu, Forall (fun x => x < S n') permu ->
              zrec nq qc sorter o path permu
              = zrec nq (oracle_of_codes (map (zcode q order []) (seq 0 (S n')))) sorter o path permu).
    { induction o as [|o IH]; intros path permu Hb; cbn [zrec]; [reflexivity|].
      destruct (Nat.leb (length permu) 1); [reflexivity|].
      rewrite Forall_forall in Hb.
      assert (K : forall x, In x permu -> qc path x = oracle_of_codes (map (zcode q order []) (seq 0 (S n'))) path x).
      { intros x Hx. unfold qc. destruct (Nat.ltb_spec x (S n')) as [_|C]; [reflexivity|]. specialize (Hb x Hx). lia. }
      rewrite <- (He _ _ permu K).
      destruct (Hs (qc path) permu) as [HP _]. set (L := sorter (qc path) permu) in *.
      assert (KL : forall x, In x L -> qc path x = oracle_of_codes (map (zcode q order []) (seq 0 (S n'))) path x)
        by (intros x Hx; apply K; eapply Permutation_in; eauto).
      rewrite <- (split_positions_ext _ _ L KL).
      destruct (split_positions (qc path) L (seq 1 (nq - 1))) as [sp| | |]; cbn [bind]; try reflexivity.
      destruct (split_at_many L sp 0) as [slices| | |] eqn:Esl; cbn [bind]; try reflexivity.
      apply zslices_ext. intros d s Hd. apply IH.
      apply split_at_many_concat in Esl. rewrite Forall_forall. intros x Hx. apply Hb.
      apply (Permutation_in _ HP). rewrite <- Esl. apply in_concat. exists s. split; [eapply nth_opt_In; eauto|exact Hx]. }
    apply G. rewrite Forall_forall. intros x Hx. apply in_seq in Hx. lia.
Qed.

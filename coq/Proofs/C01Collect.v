(* C01, collected: for every partition-creating algorithm the statement of C01
   about THAT algorithm's model, derived from the PROPERTY THEOREMS of the
   algorithm's own development (Properties/C03, C09, C10, C11, C12, C13).

   Maintenance rule of this file: a lemma here may use
     - theorems [Cxx_...] and instantiated models ([rcb_impl], [zcurve_impl_2d],
       ...) of the other Properties files, by their qualified names;
     - definitions of Model/*.v (to state things, and to unfold the first
       lines of an entry point: length checks, the empty input);
     - the predicates those property theorems are STATED with, wherever they
       are defined (coords_ok, sort_contract, root_ok, wf_grid, ...);
   and no lemma from the Proofs/*.v of another development, so that a
   refactoring inside a development cannot break this file as long as the
   development's property theorems keep their statements.  The single
   exception is marked EXCEPTION below (CompleteKarmarkarKarp's error value).
   One Module per algorithm; nothing is imported at top level, so the
   developments are loaded side by side without name clashes. *)
From Coupe Require Import Lib.Prelude Lib.SFloat.
From Coq Require Import Floats.SpecFloat Permutation.
From Coq Require QArith.QArith.
From Coupe Require Properties.C03 Properties.C09 Properties.C10 Properties.C11 Properties.C12 Properties.C13.

(* ------------------------------------------------------------------ Rcb / Rib *)
Module RcbC.
  Import Coupe.Model.Rcb Coupe.Proofs.RcbInst.   (* RcbInst, RcbBox: only [coords_ok], [to32], [coords_in_f32_range] (vocabulary of C03's statements) *)
  Open Scope Z_scope.

  (* whenever the model returns Ok: one id per point, every id below 2^iter_count *)
  Lemma rcb_range : forall fuel sched D k tol pts ws p0 p,
    coords_ok pts -> C03.rcb_impl fuel sched D k tol pts ws p0 = Ok p ->
    length p = length pts /\ (pts <> [] -> Forall (fun i => (i < 2 ^ N.of_nat k)%N) p).
  Proof. exact C03.C03_one_part_per_point. Qed.

  (* a finite binary32 image is not NaN (SpecFloat only) *)
  Lemma in_range_coords_ok pts : RcbBox.coords_in_f32_range pts -> coords_ok pts.
  Proof.
    unfold RcbBox.coords_in_f32_range, coords_ok, to32. intros H.
    rewrite Forall_forall in *. intros pt Hpt. apply in_map_iff in Hpt as (pt0 & <- & Hpt0).
    specialize (H pt0 Hpt0). rewrite Forall_forall in *. intros c Hc. apply in_map_iff in Hc as (c0 & <- & Hc0).
    destruct (H c0 Hc0) as (_ & _ & F). unfold f32_valid. destruct (f64_to_f32 c0); try discriminate; reflexivity.
  Qed.

  (* Ok for every schedule, with the range: C03_rcb_total + C03_one_part_per_point *)
  Lemma rcb_collect : forall fuel sched D k tol pts ws p0,
    (0 < D)%nat -> length ws = length p0 -> length pts = length p0 ->
    Forall (fun pt => length pt = D) pts -> RcbBox.coords_in_f32_range pts ->
    Z.of_nat fuel > 2 ^ 33 ->
    exists p, C03.rcb_impl fuel sched D k tol pts ws p0 = Ok p
              /\ length p = length pts /\ Forall (fun i => (i < 2 ^ N.of_nat k)%N) p.
  Proof.
    intros fuel sched D k tol pts ws p0 HD Hlw Hlp Hshape Hin Hf.
    pose proof (in_range_coords_ok pts Hin) as Hok.
    destruct (C03.C03_rcb_total fuel sched D k tol pts ws p0 HD Hlw Hlp Hshape Hin Hf) as [p Hp].
    exists p. split; [exact Hp|].
    destruct (C03.C03_one_part_per_point fuel sched D k tol pts ws p0 p Hok Hp) as [Hl Hr]. split; [exact Hl|].
    destruct pts as [|pt0 pts']; [|apply Hr; discriminate].
    destruct p; [constructor|discriminate].
  Qed.
End RcbC.

(* ------------------------------------------------- HilbertCurve, ZCurve *)
Module SfcC.
  Import Coupe.Model.SfcPart Coupe.Gen.SfcGen.
  Open Scope nat_scope.

  Definition in_range (k : nat) (n : nat) (p : list N) : Prop :=
    length p = n /\ Forall (fun x => (x < N.of_nat k)%N) p.

  Section Hilbert.
    (* one development for both dimensions: [tol], [maxo] are the constants of the
       instance, [Hmono] is C09_hilbert_2d resp. C09_hilbert_3d *)
    Variable tol : spec_float.
    Variable maxo : N.
    Notation hp := (hilbert_partition tol maxo).
    Variable M : list (N * N) -> Prop.      (* the monotonicity clause, not needed here *)
    Hypothesis Hmono : forall order fuel idx ws k p0 p,
      p0 <> [] -> length idx = length p0 -> hp order fuel idx ws k p0 = Ok p ->
      (order <= maxo)%N /\ k >= 1 /\ length p = length p0
      /\ M (combine idx p) /\ Forall (fun x => (x < N.of_nat k)%N) p.

    (* an Ok result has the range property (the empty input included: the entry
       point returns the empty array) *)
    Lemma hilbert_ok_range order fuel idx ws k p0 p :
      length idx = length p0 -> hp order fuel idx ws k p0 = Ok p -> in_range k (length p0) p.
    Proof.
      intros HL H. destruct p0 as [|x0 p0'].
      - unfold hilbert_partition in H. destruct (maxo <? order)%N; [discriminate|].
        injection H as <-. split; [reflexivity|constructor].
      - assert (Hne : x0 :: p0' <> []) by discriminate.
        destruct (Hmono order fuel idx ws k (x0 :: p0') p Hne HL H) as (_ & _ & A & _ & B). split; assumption.
    Qed.

    (* an accepted order is never answered by an error.  C09_hilbert_no_panic says:
       Ok, OutOfFuel, or InvalidOrder WITH THE LIMIT IT WAS CALLED WITH; the call
       does not depend on the limit as long as the order passes it, so calling it
       with two different passing limits excludes the error *)
    Lemma hilbert_limit_irrelevant m1 m2 order fuel idx ws k p0 :
      (order <= m1)%N -> (order <= m2)%N ->
      hilbert_partition tol m1 order fuel idx ws k p0 = hilbert_partition tol m2 order fuel idx ws k p0.
    Proof.
      intros H1 H2. unfold hilbert_partition.
      destruct (N.ltb_spec m1 order) as [C|_]; [lia|]. destruct (N.ltb_spec m2 order) as [C|_]; [lia|]. reflexivity.
    Qed.

    Lemma hilbert_no_error order fuel idx ws k p0 e :
      length idx = length p0 -> 1 <= k -> (order <= maxo)%N -> hp order fuel idx ws k p0 <> Err e.
    Proof.
      intros HL Hk Ho H.
      destruct (C09.C09_hilbert_no_panic tol maxo order fuel idx ws k p0 HL Hk) as [[[p E]|E]|E];
        try (rewrite E in H; discriminate).
      pose proof (hilbert_limit_irrelevant maxo (maxo + 1)%N order fuel idx ws k p0 Ho ltac:(lia)) as Q.
      destruct (C09.C09_hilbert_no_panic tol (maxo + 1)%N order fuel idx ws k p0 HL Hk) as [[[p E2]|E2]|E2];
        rewrite <- Q, E in E2; try discriminate.
      injection E2 as E2. lia.
    Qed.

    Lemma hilbert_collect : forall order fuel idx ws k p0,
      length idx = length p0 -> 1 <= k -> (order <= maxo)%N ->
      ((exists p, hp order fuel idx ws k p0 = Ok p /\ in_range k (length p0) p)
       \/ hp order fuel idx ws k p0 = OutOfFuel)
      /\ (Forall (fun x => (x < 2 ^ 64)%N) idx -> k <= 2 -> 66 <= fuel ->
          exists p, hp order fuel idx ws k p0 = Ok p /\ in_range k (length p0) p).
    Proof.
      intros order fuel idx ws k p0 HL Hk Ho. split.
      - destruct (C09.C09_hilbert_no_panic tol maxo order fuel idx ws k p0 HL Hk) as [[[p E]|E]|E].
        + left. exists p. split; [exact E|]. exact (hilbert_ok_range _ _ _ _ _ _ _ HL E).
        + right. exact E.
        + exfalso. exact (hilbert_no_error _ _ _ _ _ _ _ HL Hk Ho E).
      - intros HB Hk2 Hf.
        destruct (C09.C09_hilbert_returns_partial tol maxo order fuel idx ws k p0 HL HB (conj Hk Hk2) Hf) as [[p E]|E].
        + exists p. split; [exact E|]. exact (hilbert_ok_range _ _ _ _ _ _ _ HL E).
        + exfalso. exact (hilbert_no_error _ _ _ _ _ _ _ HL Hk Ho E).
    Qed.
  End Hilbert.

  Lemma hilbert_collect_2d : forall order fuel idx ws k p0,
    length idx = length p0 -> 1 <= k -> (order <= hilbert_max_order_2d)%N ->
    ((exists p, C09.hilbert_impl_2d order fuel idx ws k p0 = Ok p /\ in_range k (length p0) p)
     \/ C09.hilbert_impl_2d order fuel idx ws k p0 = OutOfFuel)
    /\ (Forall (fun x => (x < 2 ^ 64)%N) idx -> k <= 2 -> 66 <= fuel ->
        exists p, C09.hilbert_impl_2d order fuel idx ws k p0 = Ok p /\ in_range k (length p0) p).
  Proof. exact (hilbert_collect _ _ _ C09.C09_hilbert_2d). Qed.

  Lemma hilbert_collect_3d : forall order fuel idx ws k p0,
    length idx = length p0 -> 1 <= k -> (order <= hilbert_max_order_3d)%N ->
    ((exists p, C09.hilbert_impl_3d order fuel idx ws k p0 = Ok p /\ in_range k (length p0) p)
     \/ C09.hilbert_impl_3d order fuel idx ws k p0 = OutOfFuel)
    /\ (Forall (fun x => (x < 2 ^ 64)%N) idx -> k <= 2 -> 66 <= fuel ->
        exists p, C09.hilbert_impl_3d order fuel idx ws k p0 = Ok p /\ in_range k (length p0) p).
  Proof. exact (hilbert_collect _ _ _ C09.C09_hilbert_3d). Qed.

  (* ZCurve: for every quadrant function and every sort oracle *)
  Lemma zcurve_collect_2d : forall q sorter order k n p0,
    ZCurveProofs.sort_contract sorter -> (forall path x, (q path x < 4)%N) ->
    length p0 = n -> order <= zcurve_max_order_2d -> 1 <= k ->
    exists p, C09.zcurve_impl_2d q sorter order k n p0 = Ok p /\ in_range k n p.
  Proof.
    intros q sorter order k n p0 Hs Hq Hl Ho Hk.
    destruct (C09.C09_zcurve_runs_2d q sorter order k n p0 Hs Hq Hl Ho Hk) as (p & E & Lp & _).
    exists p. split; [exact E|]. split; [exact Lp|].
    pose proof (C09.C09_zcurve_ids_lt 4 zcurve_max_order_2d q sorter order k n p0 p ltac:(lia) Hs Hq Hl Ho Hk E) as R.
    rewrite Forall_forall in *. intros x Hx. specialize (R x Hx). lia.
  Qed.

  Lemma zcurve_collect_3d : forall q sorter order k n p0,
    ZCurveProofs.sort_contract sorter -> (forall path x, (q path x < 8)%N) ->
    length p0 = n -> order <= zcurve_max_order_3d -> 1 <= k ->
    exists p, C09.zcurve_impl_3d q sorter order k n p0 = Ok p /\ in_range k n p.
  Proof.
    intros q sorter order k n p0 Hs Hq Hl Ho Hk.
    destruct (C09.C09_zcurve_runs_3d q sorter order k n p0 Hs Hq Hl Ho Hk) as (p & E & Lp & _).
    exists p. split; [exact E|]. split; [exact Lp|].
    pose proof (C09.C09_zcurve_ids_lt 8 zcurve_max_order_3d q sorter order k n p0 p ltac:(lia) Hs Hq Hl Ho Hk E) as R.
    rewrite Forall_forall in *. intros x Hx. specialize (R x Hx). lia.
  Qed.
End SfcC.

(* ------------------------------------------------------------ MultiJagged *)
Module MjC.
  Import Coq.QArith.QArith.
  Import Coupe.Model.MultiJagged Coupe.Proofs.MultiJaggedProofs Coupe.Proofs.MultiJaggedTotal.
  (* MultiJaggedProofs / MultiJaggedTotal: root_ok, sorter_ok, ord_ok, notneg, mono_cuts only *)
  Open Scope N_scope.

  (* every arithmetic (binary64 included): IF the model returns, every element
     has an id below part_count *)
  Lemma mj_range : forall (A : arith) (D npts : nat) (wts : list (num A)) sorter blk cxlt root ord (k : N) (m : nat) p0 p,
    root_ok root -> sorter_ok sorter cxlt -> ord_ok ord (N.to_nat k) ->
    1 <= k -> k < 2 ^ 60 -> (1 <= m)%nat -> length p0 = npts ->
    multi_jagged A D npts wts sorter blk root ord k m p0 = Ok p ->
    length p = npts /\ Forall (fun x => x < k) p.
  Proof.
    intros A D npts wts sorter blk cxlt root ord k m p0 p Hr Hs Ho Hk1 Hk2 Hm Hl H.
    destruct (C11.C11_ids_in_range_and_jagged A D npts wts sorter blk cxlt root ord k m p0 p Hr Hs Ho Hk1 Hk2 Hm Hl H)
      as (A1 & A2 & _).
    split; assumption.
  Qed.

  (* exact arithmetic: it does return (no panic site reachable; the model has no loop on fuel) *)
  Lemma mj_collect_exact : forall D npts (wq : list Q) sorter blk cxlt root ord (k : N) (m : nat) p0,
    root_ok root -> sorter_ok sorter cxlt -> ord_ok ord (N.to_nat k) ->
    1 <= k -> k < 2 ^ 60 -> (1 <= m)%nat -> (1 <= D)%nat ->
    Forall (Qle 0) wq -> length wq = npts -> length p0 = npts ->
    exists p, multi_jagged QA D npts wq sorter blk root ord k m p0 = Ok p
              /\ length p = npts /\ Forall (fun x => x < k) p.
  Proof.
    intros D npts wq sorter blk cxlt root ord k m p0 Hr Hs Ho Hk1 Hk2 Hm HD Hw Hlw Hl.
    destruct (C11.C11_exact_total D npts wq sorter blk cxlt root ord k m p0 Hr Hs Hk1 Hk2 Hm HD Hw Hlw Hl) as [p E].
    exists p. split; [exact E|].
    exact (mj_range QA D npts wq sorter blk cxlt root ord k m p0 p Hr Hs Ho Hk1 Hk2 Hm Hl E).
  Qed.

  (* every arithmetic, inside the contract: the model returns Ok or stops at panic
     site 4 or 5; never an error value, never out of fuel *)
  Lemma mj_panic_sites : forall (A : arith) D npts (wts : list (num A)) sorter blk cxlt root ord (k : N) (m : nat) p0,
    root_ok root -> sorter_ok sorter cxlt -> 1 <= k -> k < 2 ^ 60 -> (1 <= m)%nat -> (1 <= D)%nat ->
    length wts = npts -> length p0 = npts ->
    (forall e, multi_jagged A D npts wts sorter blk root ord k m p0 <> Err e)
    /\ multi_jagged A D npts wts sorter blk root ord k m p0 <> OutOfFuel
    /\ (forall s, multi_jagged A D npts wts sorter blk root ord k m p0 = Panic s -> s = 4 \/ s = 5).
  Proof.
    intros A D npts wts sorter blk cxlt root ord k m p0 Hr Hs Hk1 Hk2 Hm HD Hlw Hl.
    pose proof (C11.C11_panic_sites_any_arithmetic A D npts wts sorter blk cxlt root ord k m p0 Hr Hs Hk1 Hk2 Hm HD Hlw Hl) as O.
    split; [|split].
    - intros e E. rewrite E in O. exact O.
    - intros E. rewrite E in O. exact O.
    - exact (C11.C11_panic_sites_4_5_only A D npts wts sorter blk cxlt root ord k m p0 Hr Hs Hk1 Hk2 Hm HD Hlw Hl).
  Qed.

  (* binary64, either Ulps epsilon: Ok with the range, given non-decreasing cuts *)
  Lemma mj_collect_f64 : forall eps D npts wts sorter blk cxlt root ord (k : N) (m : nat) p0,
    root_ok root -> sorter_ok sorter cxlt -> ord_ok ord (N.to_nat k) ->
    1 <= k -> k < 2 ^ 60 -> (1 <= m)%nat -> (1 <= D)%nat ->
    length wts = npts -> length p0 = npts -> Forall notneg wts ->
    mono_cuts (F64eps eps) npts wts blk ->
    exists p, multi_jagged (F64eps eps) D npts wts sorter blk root ord k m p0 = Ok p
              /\ length p = npts /\ Forall (fun x => x < k) p.
  Proof.
    intros eps D npts wts sorter blk cxlt root ord k m p0 Hr Hs Ho Hk1 Hk2 Hm HD Hlw Hl Hnn Hmono.
    destruct (C11.C11_f64_total_of_monotone_cuts_partial eps D npts wts sorter blk cxlt root ord k m p0
                Hr Hs Hk1 Hk2 Hm HD Hlw Hl Hnn Hmono) as [p E].
    exists p. split; [exact E|].
    exact (mj_range (F64eps eps) D npts wts sorter blk cxlt root ord k m p0 p Hr Hs Ho Hk1 Hk2 Hm Hl E).
  Qed.

  (* binary64 as the code computes it (ULPs epsilon 0), integer-valued weights with total <= 2^53:
     the model returns, with every id below part_count -- no premise about the arithmetic *)
  Lemma mj_collect_f64_integer : forall D (zs : list Z) sorter blk cxlt root ord (k : N) (m : nat) p0,
    root_ok root -> sorter_ok sorter cxlt -> ord_ok ord (N.to_nat k) ->
    1 <= k -> k < 2 ^ 60 -> (1 <= m)%nat -> (1 <= D)%nat ->
    Forall (fun z => (0 <= z)%Z) zs -> (Coupe.Lib.Prelude.sumZ zs <= 2 ^ 53)%Z -> length p0 = length zs ->
    exists p, multi_jagged F64 D (length zs) (map (fun z => Coupe.Lib.SFloat.f64_of_Z z) zs) sorter blk root ord k m p0 = Ok p
              /\ length p = length zs /\ Forall (fun x => x < k) p.
  Proof.
    intros D zs sorter blk cxlt root ord k m p0 Hr Hs Ho Hk1 Hk2 Hm HD Hnn Hsum Hl.
    destruct (C11.C11_f64_total D zs sorter blk cxlt root ord k m p0 Hr Hs Hk1 Hk2 Hm HD Hnn Hsum Hl) as [p E].
    exists p. split; [exact E|].
    exact (mj_range F64 D (length zs) _ sorter blk cxlt root ord k m p0 p Hr Hs Ho Hk1 Hk2 Hm Hl E).
  Qed.
End MjC.

(* ------------------------------------------------- Greedy, KarmarkarKarp *)
Module NumC.
  Import Coupe.Model.NumPart Coupe.Model.Greedy Coupe.Model.Kk Coupe.Proofs.NumPartLemmas.  (* NumPartLemmas: descZ, wts only *)
  Open Scope Z_scope.

  Lemma greedy_collect : forall ws k p0, length ws = length p0 -> (1 <= k)%nat ->
    exists p, greedy ws k p0 = Ok p /\ length p = length p0 /\ Forall (fun x => (x < N.of_nat k)%N) p.
  Proof.
    intros ws k p0 Hl Hk. destruct (proj1 (C12.C12_greedy_total ws k p0) Hl) as (p & E & L & R).
    exists p. split; [exact E|]. split; [exact L|exact (R Hk)].
  Qed.

  Lemma kk_collect : forall srt, (forall l, Permutation (srt l) l) -> (forall l, descZ (wts (srt l))) ->
    forall ws k p0, Forall (fun w => 0 <= w) ws -> (1 <= k)%nat -> length ws = length p0 ->
    exists p, kk_partition srt ws k p0 = Ok p /\ length p = length p0 /\ Forall (fun x => (x < N.of_nat k)%N) p.
  Proof.
    intros srt H1 H2 ws k p0 Hnn Hk Hl.
    destruct (C12.C12_kk srt H1 H2 ws k p0 Hnn Hk Hl) as (p & E & L & R & _).
    exists p. split; [exact E|]. split; assumption.
  Qed.
End NumC.

(* ------------------------------------------------- CompleteKarmarkarKarp *)
Module CkkC.
  Import Coupe.Model.Ckk.
  Open Scope Z_scope.

  (* Ok => two-way ids for every element; the only error is NotFound; never a
     panic, never out of fuel *)
  Lemma ckk_collect : forall ws tol p0,
    Forall (fun w => 0 <= w) ws -> ws <> [] -> tol_int (sumZ ws) tol <> None -> length ws = length p0 ->
    (exists p, C13.ckk_impl ws tol p0 = Ok p /\ length p = length ws /\ Forall (fun x => (x < 2)%N) p)
    \/ C13.ckk_impl ws tol p0 = Err NotFound.
  Proof.
    intros ws tol p0 Hnn Hne Htol Hlen.
    destruct (C13.ckk_impl ws tol p0) as [p|e|s|] eqn:E.
    - left. exists p. destruct (C13.C13_sound ws tol p0 p Hnn Hne E) as [t [_ [_ [Hl [Htw _]]]]].
      repeat split; auto. unfold two_way in Htw. rewrite Forall_forall in *. intros x Hx.
      specialize (Htw x Hx). lia.
    - right. f_equal.
      (* EXCEPTION to the maintenance rule: that NotFound is the ONLY error value is
         not a property theorem of C13; it is read off the model through
         CkkProofs.ckk_inv (if this breaks: weaken the conclusion to [exists e, Err e]) *)
      unfold C13.ckk_impl in E.
      destruct (Coupe.Proofs.CkkProofs.ckk_inv _ _ _ _ _ E Hne) as [[_ C]|[_ [[C _]|[t [_ HR]]]]]; try congruence.
      destruct (ckk_rec _ _ _ t []) as [[[last stps]|]|]; try congruence.
      destruct (Nat.ltb last (length p0)); [|discriminate].
      exfalso. clear -HR. revert HR. generalize (set_nth p0 last 0%N).
      induction stps as [|s stps IH]; cbn; intros q HR; [discriminate|].
      destruct (nth_opt q (sa s)); [|discriminate].
      destruct (Nat.ltb (sb s) (length q)); [|discriminate].
      destruct (separate s); [destruct (n <=? 1)%N; [|discriminate]|]; eapply IH; eauto.
    - exfalso. exact (C13.C13_no_panic ws tol p0 s Hnn Htol E).
    - exfalso. exact (C13.C13_terminates ws tol p0 E).
  Qed.
End CkkC.

(* --------------------------------------------------------------- Grid::rcb *)
Module GridC.
  Import Coupe.Model.GridRcb Coupe.Proofs.GridRcbTree Coupe.Proofs.GridRcbMedian Coupe.Proofs.GridRcbFloat.
  (* GridRcbTree / Median / Float: wf_grid, thr_ok_b, total_ok only *)
  Open Scope Z_scope.

  Definition in_range (k : nat) (n : nat) (ids : list N) : Prop :=
    length ids = n /\ Forall (fun q => (q < 2 ^ N.of_nat k)%N) ids.

  (* axiom-free, with the float facts about the two thresholds as a premise *)
  Lemma grid_collect : forall fuel T fw ds ws k,
    wf_grid ds ws -> Forall (fun s => (1 <= s)%nat) ds -> Forall (fun w => 0 <= w) ws ->
    (forall t, 0 <= t <= sumZ ws -> thr_ok_b fw C10.tol t = true) ->
    Forall (fun s => (s < 2 ^ fuel)%nat) ds ->
    exists ids, C10.gridrcb_impl fuel T fw ds ws k (glen ds) = Ok ids /\ in_range k (glen ds) ids.
  Proof.
    intros fuel T fw ds ws k Hwf Hs Hnn Hthr Hf.
    destruct (C10.C10_gridrcb_boxes fuel T fw ds ws k Hwf Hs Hnn Hthr Hf) as (ids & E & (L & R & _) & _).
    exists ids. split; [exact E|]. split; assumption.
  Qed.

  (* the totals [total_ok] covers: the threshold facts are theorems (Flocq) *)
  Lemma grid_collect_all : forall fuel T fw ds ws k,
    wf_grid ds ws -> Forall (fun s => (1 <= s)%nat) ds -> Forall (fun w => 0 <= w) ws ->
    total_ok fw (sumZ ws) ->
    Forall (fun s => (s < 2 ^ fuel)%nat) ds ->
    exists ids, C10.gridrcb_impl fuel T fw ds ws k (glen ds) = Ok ids /\ in_range k (glen ds) ids.
  Proof.
    intros fuel T fw ds ws k Hwf Hs Hnn Hsum Hf.
    destruct (C10.C10_gridrcb_boxes_all fuel T fw ds ws k Hwf Hs Hnn Hsum Hf) as (ids & E & (L & R & _) & _).
    exists ids. split; [exact E|]. split; assumption.
  Qed.

  Lemma grid_collect_2d : forall fuel T fw w h ws k,
    (1 <= w)%nat -> (1 <= h)%nat -> length ws = (w * h)%nat -> Forall (fun x => 0 <= x) ws -> total_ok fw (sumZ ws) ->
    (w < 2 ^ fuel)%nat -> (h < 2 ^ fuel)%nat ->
    exists ids, C10.gridrcb_impl fuel T fw [w; h] ws k (w * h) = Ok ids /\ in_range k (w * h) ids.
  Proof.
    intros fuel T fw w h ws k Hw Hh Hl Hnn Hsum Hfw Hfh.
    assert (G : glen [w; h] = (w * h)%nat) by (cbn [glen fold_right]; lia).
    rewrite <- G. apply grid_collect_all;
      [split; [left; reflexivity|rewrite G; exact Hl]|repeat constructor; assumption|exact Hnn|exact Hsum
      |repeat constructor; assumption].
  Qed.

  Lemma grid_collect_3d : forall fuel T fw w h d ws k,
    (1 <= w)%nat -> (1 <= h)%nat -> (1 <= d)%nat -> length ws = (w * h * d)%nat ->
    Forall (fun x => 0 <= x) ws -> total_ok fw (sumZ ws) ->
    (w < 2 ^ fuel)%nat -> (h < 2 ^ fuel)%nat -> (d < 2 ^ fuel)%nat ->
    exists ids, C10.gridrcb_impl fuel T fw [w; h; d] ws k (w * h * d) = Ok ids /\ in_range k (w * h * d) ids.
  Proof.
    intros fuel T fw w h d ws k Hw Hh Hd Hl Hnn Hsum Hfw Hfh Hfd.
    assert (G : glen [w; h; d] = (w * h * d)%nat) by (cbn [glen fold_right]; lia).
    rewrite <- G. apply grid_collect_all;
      [split; [right; reflexivity|rewrite G; exact Hl]|repeat constructor; assumption|exact Hnn|exact Hsum
      |repeat constructor; assumption].
  Qed.
End GridC.

(* C01, collected: for every partition-creating algorithm the statement of C01
   about THAT algorithm's model, derived from the theorems of the algorithm's
   own development (C03, C09, C10, C11, C12, C13).  Nothing new is proved about
   the algorithms here: every lemma is a projection of existing theorems plus a
   few lines of glue (lengths, the empty input, the bounding box of a
   well-shaped point set).  One Module per algorithm, so that the developments
   are imported side by side without name clashes; the models are instantiated
   with the generated constants exactly as Properties/C03, C09, C10, C13 do. *)
From Coupe Require Import Lib.Prelude Lib.SFloat.
From Coq Require Import Floats.SpecFloat Permutation.
From Coq Require QArith.QArith.
(* loaded here, imported only inside the Module of the algorithm they belong to *)
From Coupe Require Model.Rcb Gen.RcbGen Proofs.SFOrder Proofs.RcbProofs Proofs.RcbInst Proofs.RcbTotal.
From Coupe Require Lib.Sorting Model.SfcPart Proofs.SortingProofs Proofs.SfcProofs Proofs.ZCurveProofs
  Proofs.WqTermProofs Gen.SfcGen.
From Coupe Require Model.MultiJagged Proofs.MultiJaggedProofs Proofs.MultiJaggedExact.
From Coupe Require Model.NumPart Model.Greedy Model.Kk Proofs.NumPartLemmas Proofs.GreedyProofs Proofs.KkProofs.
From Coupe Require Model.Ckk Proofs.CkkProofs Gen.CkkGen.
From Coupe Require Model.GridRcb Gen.GridRcbGen Run.RunC10 Proofs.GridRcbMedian Proofs.GridRcbTree
  Proofs.GridRcbChecker Proofs.GridRcbFloat Proofs.GridRcbMain.

(* ------------------------------------------------------------------ Rcb / Rib *)
Module RcbC.
  Import Coupe.Model.Rcb Coupe.Gen.RcbGen Coupe.Proofs.SFOrder Coupe.Proofs.RcbProofs
         Coupe.Proofs.RcbInst Coupe.Proofs.RcbTotal.
  Open Scope Z_scope.

  (* as in Properties/C03.v, C04.v *)
  Definition rcb_variant : variant := mkvariant rcb_old_rules rcb_by_coord rcb_probe_max rcb_safe_mid.
  Definition rcb_impl := rcb rcb_variant.

  Definition good_pair (good : spec_float -> bool) (b : spec_float * spec_float) : Prop :=
    good (fst b) = true /\ good (snd b) = true.

  Lemma column_total a : forall pts, Forall (fun pt : list spec_float => (a < length pt)%nat) pts ->
    exists c, column a pts = Some c.
  Proof.
    induction 1 as [|pt t Hpt _ [c IH]]; cbn [column]; [eexists; reflexivity|].
    destruct (nth_opt_lt pt a Hpt) as [x Hx]. rewrite Hx, IH. eexists; reflexivity.
  Qed.

  Lemma bbox32_total : forall D a pts, Forall (fun pt : list spec_float => (a + D <= length pt)%nat) pts ->
    exists bb, bbox32 D a pts = Some bb /\ length bb = D.
  Proof.
    induction D as [|D IH]; intros a pts H; cbn [bbox32]; [exists []; split; reflexivity|].
    destruct (column_total a pts) as [c Hc].
    { rewrite Forall_forall in *. intros pt Hpt. specialize (H pt Hpt). lia. }
    destruct (IH (S a) pts) as (r & Hr & Hl).
    { rewrite Forall_forall in *. intros pt Hpt. specialize (H pt Hpt). lia. }
    rewrite Hc, Hr. destruct (bbox_axis f64_max_value f64_min_value c) as [mn mx].
    eexists. split; [reflexivity|]. cbn [length]. rewrite Hl. reflexivity.
  Qed.

  (* what is proved without any hypothesis on the float operations: whenever
     the model returns Ok, every point has an id below 2^iter_count *)
  Lemma rcb_range : forall fuel sched D k tol pts ws p0 p,
    coords_ok pts -> rcb_impl fuel sched D k tol pts ws p0 = Ok p ->
    length p = length pts /\ (pts <> [] -> Forall (fun i => (i < 2 ^ N.of_nat k)%N) p).
  Proof. exact (rcb_one_part_per_point rcb_variant). Qed.

  (* ... and with the rank embedding of RcbTotal as an explicit premise: Ok,
     for every schedule *)
  Lemma rcb_collect : forall (good : spec_float -> bool) (rank : spec_float -> Z) (rlo rhi : Z),
    (forall a b, good a = true -> good b = true -> good (f32_mid (v_safe_mid rcb_variant) a b) = true) ->
    (forall x y, good x = true -> good y = true -> flt x y = true -> rank x < rank y) ->
    (forall x, good x = true -> rlo <= rank x <= rhi) ->
    forall fuel sched D k tol pts ws p0,
    (0 < D)%nat -> Forall (fun pt => length pt = D) pts -> coords_ok pts ->
    length ws = length p0 -> length pts = length p0 ->
    (forall bb, bbox32 D 0 pts = Some bb -> Forall (good_pair good) bb) ->
    (1 <= fuel)%nat -> Z.of_nat fuel > rhi - rlo ->
    exists p, rcb_impl fuel sched D k tol pts ws p0 = Ok p
              /\ length p = length pts /\ Forall (fun i => (i < 2 ^ N.of_nat k)%N) p.
  Proof.
    intros good rank rlo rhi Hmid Hmono Hbnd fuel sched D k tol pts ws p0 HD Hshape Hok Hlw Hlp Hbox Hf1 Hf2.
    assert (Hex : exists p, rcb_impl fuel sched D k tol pts ws p0 = Ok p).
    { unfold rcb_impl, rcb. rewrite Hlw, Hlp, !Nat.eqb_refl. cbn [negb].
      destruct pts as [|pt0 pts']; [eexists; reflexivity|]. cbv iota. set (pts := pt0 :: pts') in *.
      destruct (bbox32_total D 0 pts) as (bb & Hbb & Hlbb).
      { rewrite Forall_forall in *. intros pt Hpt. rewrite (Hshape pt Hpt). lia. }
      rewrite Hbb. specialize (Hbox bb Hbb).
      assert (Hlen : length pts = length ws) by lia.
      change (v_old rcb_variant) with false.
      apply (rcb_core_total spec_float flt fle (f32_mid (v_safe_mid rcb_variant)) f32_sub f32_add f32_zero f32_inf
               (tol_test tol) (v_by_coord rcb_variant) (v_probe_max rcb_variant) f32v
               flt_irrefl flt_negtrans fle_flt good rank rlo rhi Hmid Hmono Hbnd); auto.
      - rewrite Forall_forall. intros it Hit.
        assert (Hc : In (co it) (to32 pts)) by (rewrite <- (mk_items_co pts ws 0%N Hlen); apply in_map, Hit).
        split.
        + unfold to32 in Hc. apply in_map_iff in Hc as (pt & <- & Hpt). rewrite map_length.
          rewrite Forall_forall in Hshape. exact (Hshape pt Hpt).
        + unfold vitem. unfold coords_ok in Hok. rewrite Forall_forall in Hok. exact (Hok _ Hc).
      - rewrite mk_items_ix by exact Hlen. rewrite Hlp. reflexivity.
      - unfold pts. destruct ws; [cbn in Hlen; discriminate|]. cbn. discriminate. }
    destruct Hex as [p Hp]. exists p. split; [exact Hp|].
    destruct (rcb_range _ _ _ _ _ _ _ _ _ Hok Hp) as [Hl Hr]. split; [exact Hl|].
    destruct pts as [|pt0 pts']; [|apply Hr; discriminate].
    destruct p; [constructor|discriminate].
  Qed.
End RcbC.

(* ------------------------------------------------- HilbertCurve, ZCurve *)
Module SfcC.
  Import Coupe.Lib.Sorting Coupe.Model.SfcPart Coupe.Proofs.SortingProofs Coupe.Proofs.SfcProofs
         Coupe.Proofs.ZCurveProofs Coupe.Proofs.WqTermProofs Coupe.Gen.SfcGen.
  Open Scope nat_scope.

  (* as in Properties/C09.v *)
  Definition hilbert_impl_2d := hilbert_partition (f64_of_bits hilbert_split_tolerance_bits) hilbert_max_order_2d.
  Definition hilbert_impl_3d := hilbert_partition (f64_of_bits hilbert_split_tolerance_bits) hilbert_max_order_3d.
  Definition zcurve_impl_2d := zcurve zcurve_chunk_guard 4 zcurve_max_order_2d.
  Definition zcurve_impl_3d := zcurve zcurve_chunk_guard 8 zcurve_max_order_3d.

  Definition in_range (k : nat) (n : nat) (p : list N) : Prop :=
    length p = n /\ Forall (fun x => (x < N.of_nat k)%N) p.

  (* an Ok result has the range property (the empty input included) *)
  Lemma hilbert_ok_range tol maxo order fuel idx ws k p0 p :
    length idx = length p0 -> hilbert_partition tol maxo order fuel idx ws k p0 = Ok p ->
    in_range k (length p0) p.
  Proof.
    intros HL H. destruct p0 as [|x0 p0'].
    - unfold hilbert_partition in H. destruct (maxo <? order)%N; [discriminate|].
      injection H as <-. split; [reflexivity|constructor].
    - assert (Hne : x0 :: p0' <> []) by discriminate.
      destruct (hilbert_partition_monotone tol maxo order fuel idx ws k (x0 :: p0') p Hne HL H)
        as (_ & _ & A & _ & B). split; assumption.
  Qed.

  (* an accepted order is never answered by an error *)
  Lemma hilbert_no_error tol maxo order fuel idx ws k p0 e :
    length idx = length p0 -> 1 <= k -> (order <= maxo)%N ->
    hilbert_partition tol maxo order fuel idx ws k p0 <> Err e.
  Proof.
    intros HL Hk Ho H. unfold hilbert_partition in H.
    destruct (N.ltb_spec maxo order) as [C|_]; [lia|].
    destruct p0 as [|x0 p0']; [discriminate|].
    assert (Hne : idx <> []) by (destruct idx; [discriminate|congruence]).
    destruct (weighted_quantiles_no_panic tol fuel idx ws k Hne Hk) as [[splits E]|E]; rewrite E in H; cbn [bind] in H;
      [|discriminate].
    destruct (assign_parts_total splits idx) as [ids E2]. rewrite E2 in H. discriminate.
  Qed.

  (* PARTIAL: no panic and the range for every part count; termination of the
     quantile search only for part_count <= 2 *)
  Lemma hilbert_collect tol maxo : forall order fuel idx ws k p0,
    length idx = length p0 -> 1 <= k -> (order <= maxo)%N ->
    ((exists p, hilbert_partition tol maxo order fuel idx ws k p0 = Ok p /\ in_range k (length p0) p)
     \/ hilbert_partition tol maxo order fuel idx ws k p0 = OutOfFuel)
    /\ (Forall (fun x => (x < 2 ^ 64)%N) idx -> k <= 2 -> 66 <= fuel ->
        exists p, hilbert_partition tol maxo order fuel idx ws k p0 = Ok p /\ in_range k (length p0) p).
  Proof.
    intros order fuel idx ws k p0 HL Hk Ho. split.
    - destruct (hilbert_partition_no_panic tol maxo order fuel idx ws k p0 HL Hk) as [[[p E]|E]|E].
      + left. exists p. split; [exact E|]. exact (hilbert_ok_range _ _ _ _ _ _ _ _ _ HL E).
      + right. exact E.
      + exfalso. exact (hilbert_no_error _ _ _ _ _ _ _ _ _ HL Hk Ho E).
    - intros HB Hk2 Hf.
      destruct (hilbert_partition_terminates_partial tol maxo order fuel idx ws k p0 HL HB (conj Hk Hk2) Hf) as [[p E]|E].
      + exists p. split; [exact E|]. exact (hilbert_ok_range _ _ _ _ _ _ _ _ _ HL E).
      + exfalso. exact (hilbert_no_error _ _ _ _ _ _ _ _ _ HL Hk Ho E).
  Qed.

  (* ZCurve: for every quadrant function and every sort oracle *)
  Lemma zcurve_collect nq maxo : forall q sorter order k n p0,
    1 <= nq -> sort_contract sorter -> (forall path x, (q path x < N.of_nat nq)%N) ->
    length p0 = n -> order <= maxo -> 1 <= k ->
    exists p, zcurve true nq maxo q sorter order k n p0 = Ok p /\ in_range k n p.
  Proof.
    intros q sorter order k n p0 Hnq Hs Hq Hl Ho Hk.
    destruct (zcurve_runs nq maxo q sorter order k n p0 Hnq Hs Hq Hl Ho Hk) as (p & E & Lp & _).
    exists p. split; [exact E|]. split; [exact Lp|].
    pose proof (zcurve_ids_lt nq maxo q sorter order k n p0 p Hnq Hs Hq Hl Ho Hk E) as R.
    rewrite Forall_forall in *. intros x Hx. specialize (R x Hx). lia.
  Qed.

  Lemma zcurve_collect_2d : forall q sorter order k n p0,
    sort_contract sorter -> (forall path x, (q path x < 4)%N) ->
    length p0 = n -> order <= zcurve_max_order_2d -> 1 <= k ->
    exists p, zcurve_impl_2d q sorter order k n p0 = Ok p /\ in_range k n p.
  Proof. intros q sorter order k n p0 Hs Hq. apply (zcurve_collect 4 zcurve_max_order_2d); auto; lia. Qed.

  Lemma zcurve_collect_3d : forall q sorter order k n p0,
    sort_contract sorter -> (forall path x, (q path x < 8)%N) ->
    length p0 = n -> order <= zcurve_max_order_3d -> 1 <= k ->
    exists p, zcurve_impl_3d q sorter order k n p0 = Ok p /\ in_range k n p.
  Proof. intros q sorter order k n p0 Hs Hq. apply (zcurve_collect 8 zcurve_max_order_3d); auto; lia. Qed.
End SfcC.

(* ------------------------------------------------------------ MultiJagged *)
Module MjC.
  Import Coq.QArith.QArith.
  Import Coupe.Model.MultiJagged Coupe.Proofs.MultiJaggedProofs Coupe.Proofs.MultiJaggedExact.
  Open Scope N_scope.

  (* every arithmetic (binary64 included): IF the model returns, every element
     has an id below part_count *)
  Lemma mj_range : forall (A : arith) (D npts : nat) (wts : list (num A)) sorter blk cxlt root ord (k : N) (m : nat) p0 p,
    root_ok root -> sorter_ok sorter cxlt -> ord_ok ord (N.to_nat k) ->
    1 <= k -> k < 2 ^ 60 -> (1 <= m)%nat -> length p0 = npts ->
    multi_jagged A D npts wts sorter blk root ord k m p0 = Ok p ->
    length p = npts /\ Forall (fun x => x < k) p.
  Proof.
    intros A D npts wts sorter blk cxlt root ord k m p0 p Hr Hs Ho Hk1 Hk2 Hm Hl H.
    destruct (mj_structure A D npts wts sorter blk cxlt root ord k m p0 p Hr Hs Ho Hk1 Hk2 Hm Hl H) as (A1 & A2 & _).
    split; assumption.
  Qed.

  (* exact arithmetic: it does return (no panic site reachable; the model has no loop on fuel) *)
  Lemma mj_collect_exact : forall D npts (wq : list Q) sorter blk cxlt root ord (k : N) (m : nat) p0,
    root_ok root -> sorter_ok sorter cxlt -> ord_ok ord (N.to_nat k) ->
    1 <= k -> k < 2 ^ 60 -> (1 <= m)%nat -> (1 <= D)%nat ->
    Forall (Qle 0) wq -> length wq = npts -> length p0 = npts ->
    exists p, multi_jagged QA D npts wq sorter blk root ord k m p0 = Ok p
              /\ length p = npts /\ Forall (fun x => x < k) p.
  Proof.
    intros D npts wq sorter blk cxlt root ord k m p0 Hr Hs Ho Hk1 Hk2 Hm HD Hw Hlw Hl.
    destruct (mj_exact_total D npts wq sorter blk cxlt root ord k m p0 Hr Hs Hk1 Hk2 Hm HD Hw Hlw Hl) as [p E].
    exists p. split; [exact E|].
    exact (mj_range QA D npts wq sorter blk cxlt root ord k m p0 p Hr Hs Ho Hk1 Hk2 Hm Hl E).
  Qed.
End MjC.

(* ------------------------------------------------- Greedy, KarmarkarKarp *)
Module NumC.
  Import Coupe.Model.NumPart Coupe.Model.Greedy Coupe.Model.Kk
         Coupe.Proofs.NumPartLemmas Coupe.Proofs.GreedyProofs Coupe.Proofs.KkProofs.
  Open Scope Z_scope.

  Lemma greedy_collect : forall ws k p0, length ws = length p0 -> (1 <= k)%nat ->
    exists p, greedy ws k p0 = Ok p /\ length p = length p0 /\ Forall (fun x => (x < N.of_nat k)%N) p.
  Proof.
    intros ws k p0 Hl Hk. destruct (proj1 (greedy_total ws k p0) Hl) as (p & E & L & R).
    exists p. split; [exact E|]. split; [exact L|exact (R Hk)].
  Qed.

  Lemma kk_collect : forall srt, (forall l, Permutation (srt l) l) -> (forall l, descZ (wts (srt l))) ->
    forall ws k p0, Forall (fun w => 0 <= w) ws -> (1 <= k)%nat -> length ws = length p0 ->
    exists p, kk_partition srt ws k p0 = Ok p /\ length p = length p0 /\ Forall (fun x => (x < N.of_nat k)%N) p.
  Proof.
    intros srt H1 H2 ws k p0 Hnn Hk Hl.
    destruct (kk_partition_spec srt H1 H2 ws k p0 Hnn Hk Hl) as (p & E & L & R & _).
    exists p. split; [exact E|]. split; assumption.
  Qed.
End NumC.

(* ------------------------------------------------- CompleteKarmarkarKarp *)
Module CkkC.
  Import Coupe.Model.Ckk Coupe.Proofs.CkkProofs Coupe.Gen.CkkGen.
  Open Scope Z_scope.

  Definition ckk_impl := ckk ckk_sum_branch_separate.

  (* Ok => two-way ids for every element; the only error is NotFound; never a
     panic, never out of fuel (formerly proved inline in Properties/C01.v) *)
  Lemma ckk_collect : forall ws tol p0,
    Forall (fun w => 0 <= w) ws -> ws <> [] -> tol_int (sumZ ws) tol <> None -> length ws = length p0 ->
    (exists p, ckk_impl ws tol p0 = Ok p /\ length p = length ws /\ Forall (fun x => (x < 2)%N) p)
    \/ ckk_impl ws tol p0 = Err NotFound.
  Proof.
    unfold ckk_impl. intros ws tol p0 Hnn Hne Htol Hlen.
    destruct (ckk ckk_sum_branch_separate ws tol p0) as [p|e|s|] eqn:E.
    - left. exists p. destruct (ckk_sound ws tol p0 p Hnn Hne E) as [t [_ [_ [Hl [Htw _]]]]].
      repeat split; auto. unfold two_way in Htw. rewrite Forall_forall in *. intros x Hx.
      specialize (Htw x Hx). lia.
    - right. destruct (ckk_inv _ _ _ _ _ E Hne) as [[_ C]|[_ [[C _]|[t [_ HR]]]]]; try congruence.
      destruct (ckk_rec _ _ _ t []) as [[[last stps]|]|]; try congruence.
      destruct (Nat.ltb last (length p0)); [|discriminate].
      exfalso. clear -HR. revert HR. generalize (set_nth p0 last 0%N).
      induction stps as [|s stps IH]; cbn; intros q HR; [discriminate|].
      destruct (nth_opt q (sa s)); [|discriminate].
      destruct (Nat.ltb (sb s) (length q)); [|discriminate].
      destruct (separate s); [destruct (n <=? 1)%N; [|discriminate]|]; eapply IH; eauto.
    - exfalso. exact (ckk_no_panic ws tol p0 s Hnn Htol E).
    - exfalso. exact (ckk_terminates _ ws tol p0 E).
  Qed.
End CkkC.

(* --------------------------------------------------------------- Grid::rcb *)
Module GridC.
  Import Coupe.Model.GridRcb Coupe.Gen.GridRcbGen Coupe.Run.RunC10
         Coupe.Proofs.GridRcbMedian Coupe.Proofs.GridRcbTree Coupe.Proofs.GridRcbChecker
         Coupe.Proofs.GridRcbFloat Coupe.Proofs.GridRcbMain.
  Open Scope Z_scope.

  (* as in Properties/C10.v *)
  Definition gridrcb_impl := grid_rcb cfg_impl.
  Definition tol := tol_bits cfg_impl.

  Lemma literals : cfg_ok cfg_impl.
  Proof. exact (conj (le_n 2) (conj eq_refl (conj eq_refl (conj eq_refl (conj (le_n 2) (le_S _ _ (le_n 2))))))). Qed.

  Definition in_range (k : nat) (n : nat) (ids : list N) : Prop :=
    length ids = n /\ Forall (fun q => (q < 2 ^ N.of_nat k)%N) ids.

  (* axiom-free, with the float facts about the two thresholds as a premise *)
  Lemma grid_collect : forall fuel T fw ds ws k,
    wf_grid ds ws -> Forall (fun s => (1 <= s)%nat) ds -> Forall (fun w => 0 <= w) ws ->
    (forall t, 0 <= t <= sumZ ws -> thr_ok_b fw tol t = true) ->
    Forall (fun s => (s < 2 ^ fuel)%nat) ds ->
    exists ids, gridrcb_impl fuel T fw ds ws k (glen ds) = Ok ids /\ in_range k (glen ds) ids.
  Proof.
    intros fuel T fw ds ws k Hwf Hs Hnn Hthr Hf.
    destruct (gridrcb_boxes cfg_impl literals fuel T fw ds ws k Hwf Hs Hnn Hthr Hf) as (ids & E & (L & R & _) & _).
    exists ids. split; [exact E|]. split; assumption.
  Qed.

  (* total weight below 2^46: the threshold facts are theorems (Flocq) *)
  Lemma grid_collect_all : forall fuel T fw ds ws k,
    wf_grid ds ws -> Forall (fun s => (1 <= s)%nat) ds -> Forall (fun w => 0 <= w) ws ->
    sumZ ws < 2 ^ 46 ->
    Forall (fun s => (s < 2 ^ fuel)%nat) ds ->
    exists ids, gridrcb_impl fuel T fw ds ws k (glen ds) = Ok ids /\ in_range k (glen ds) ids.
  Proof.
    intros fuel T fw ds ws k Hwf Hs Hnn Hsum Hf.
    destruct (gridrcb_boxes_all cfg_impl literals eq_refl fuel T fw ds ws k Hwf Hs Hnn Hsum Hf) as (ids & E & (L & R & _) & _).
    exists ids. split; [exact E|]. split; assumption.
  Qed.

  Lemma grid_collect_2d : forall fuel T fw w h ws k,
    (1 <= w)%nat -> (1 <= h)%nat -> length ws = (w * h)%nat -> Forall (fun x => 0 <= x) ws -> sumZ ws < 2 ^ 46 ->
    (w < 2 ^ fuel)%nat -> (h < 2 ^ fuel)%nat ->
    exists ids, gridrcb_impl fuel T fw [w; h] ws k (w * h) = Ok ids /\ in_range k (w * h) ids.
  Proof.
    intros fuel T fw w h ws k Hw Hh Hl Hnn Hsum Hfw Hfh.
    assert (G : glen [w; h] = (w * h)%nat) by (cbn [glen fold_right]; lia).
    rewrite <- G. apply grid_collect_all;
      [split; [left; reflexivity|rewrite G; exact Hl]|repeat constructor; assumption|exact Hnn|exact Hsum
      |repeat constructor; assumption].
  Qed.

  Lemma grid_collect_3d : forall fuel T fw w h d ws k,
    (1 <= w)%nat -> (1 <= h)%nat -> (1 <= d)%nat -> length ws = (w * h * d)%nat ->
    Forall (fun x => 0 <= x) ws -> sumZ ws < 2 ^ 46 ->
    (w < 2 ^ fuel)%nat -> (h < 2 ^ fuel)%nat -> (d < 2 ^ fuel)%nat ->
    exists ids, gridrcb_impl fuel T fw [w; h; d] ws k (w * h * d) = Ok ids /\ in_range k (w * h * d) ids.
  Proof.
    intros fuel T fw w h d ws k Hw Hh Hd Hl Hnn Hsum Hfw Hfh Hfd.
    assert (G : glen [w; h; d] = (w * h * d)%nat) by (cbn [glen fold_right]; lia).
    rewrite <- G. apply grid_collect_all;
      [split; [right; reflexivity|rewrite G; exact Hl]|repeat constructor; assumption|exact Hnn|exact Hsum
      |repeat constructor; assumption].
  Qed.
End GridC.

(* C06, collected: the algorithm-level schedule-independence statements that the
   per-algorithm developments contain (C18 dual graph, C16 part loads, C11
   MultiJagged, C09 ZCurve / HilbertCurve), derived from the PROPERTY THEOREMS
   of their Properties/Cxx.v by name, or that follow from their lemmas with a
   few lines of glue (C04: Rcb's split fold).

   Maintenance rule (as in C01Collect.v): theorems [Cxx_...] of the other
   Properties files, definitions of Model/*.v, the predicates those theorems
   are stated with; no lemma from the Proofs/*.v of another development.  The
   single exception is the Module RcbF (marked EXCEPTION): the fold lemma
   behind C04 is not a property theorem of C04.
   One Module per development (Lib.Rayon, Model.Rcb and Model.Metrics each have
   their own split tree and [par_fold]/[par_sum]). *)
From Coupe Require Import Lib.Prelude Lib.SFloat.
From Coq Require Import Floats.SpecFloat Permutation.
From Coupe Require Properties.C18 Properties.C16 Properties.C09.
From Coupe Require Model.Dual Model.Metrics Model.SfcPart Proofs.SfcProofs Proofs.ZCurveProofs Proofs.ZCheckProofs.
From Coupe Require Model.Rcb Proofs.SFOrder Proofs.RcbBalance Proofs.RcbBalInst.

(* ------------------------------------------------------- the tools' dual graph *)
Module DualC.
  Import Coupe.Model.Dual.

  (* any two orders of the row writes and of the copies give the same CSR matrix *)
  Lemma dual_two_schedules : forall s1 t1 s2 t2 m,
    (forall ws, Permutation ws (s1 ws)) -> (forall ts, Permutation ts (t1 ts)) ->
    (forall ws, Permutation ws (s2 ws)) -> (forall ts, Permutation ts (t2 ts)) ->
    wf_mesh m = true -> dual_sched s1 t1 m = dual_sched s2 t2 m.
  Proof.
    intros s1 t1 s2 t2 m H1 H2 H3 H4 Hm.
    rewrite (C18.C18_dual_sched_indep s1 t1 m H1 H2 Hm), (C18.C18_dual_sched_indep s2 t2 m H3 H4 Hm). reflexivity.
  Qed.
End DualC.

(* --------------------------------------- compute_parts_load, imbalance, sums *)
Module MetricsC.
  Import Coupe.Model.Metrics.
  Open Scope Z_scope.

  Lemma par_sum_two_trees : forall t1 t2 xs, par_sum t1 xs = par_sum t2 xs.
  Proof. intros. rewrite !C16.C16_par_sum_indep. reflexivity. Qed.

  (* every input, in-range ids or not (an id >= num_parts makes both runs panic alike) *)
  Lemma parts_load_two_trees : forall t1 t2 k p ws, (0 < k)%nat ->
    compute_parts_load t1 k p ws = compute_parts_load t2 k p ws.
  Proof.
    intros t1 t2 k p ws Hk.
    destruct (Forall_Exists_dec (fun q => (q < k)%nat) (fun q => lt_dec q k) p) as [Hall|Hex].
    - rewrite !C16.C16_loads_def by assumption. reflexivity.
    - apply Exists_exists in Hex as (q & Hin & Hq).
      rewrite (C16.C16_loads_out_of_range t1 k p ws q Hin), (C16.C16_loads_out_of_range t2 k p ws q Hin) by lia. reflexivity.
  Qed.

  Lemma imbalance_two_trees : forall t1 t2 k p ws,
    (0 < k)%nat -> Forall (fun q => (q < k)%nat) p -> length p = length ws ->
    imbalance t1 k p ws = imbalance t2 k p ws /\ max_imbalance t1 k p ws = max_imbalance t2 k p ws.
  Proof.
    intros t1 t2 k p ws Hk Hp Hl. split.
    - rewrite !C16.C16_imbalance_def by assumption. reflexivity.
    - rewrite !C16.C16_max_imbalance_def by assumption. reflexivity.
  Qed.
End MetricsC.

(* ------------------------------------------------------- Rcb's split fold *)
(* EXCEPTION to the maintenance rule: RcbBalance.par_fold_PF (what the fold/reduce
   returns for every split tree) is an internal lemma of the C04 development,
   together with the order facts of SFOrder / RcbBalInst.  If a refactoring of
   C04 breaks this Module, only C06_rcb_fold_*_partial depend on it.

   The whole-algorithm statement (forall s1 s2, rcb_impl fuel s1 .. = rcb_impl
   fuel s2 ..) is the property theorem C03.C03_rcb_sched_indep, used directly by
   C06_rcb_sched_indep in Properties/C06.v; the fold lemma below is kept as an
   ingredient that says what ONE fold returns. *)
Module RcbF.
  Import Coupe.Model.Rcb Coupe.Proofs.SFOrder Coupe.Proofs.RcbBalance Coupe.Proofs.RcbBalInst.
  Open Scope Z_scope.

  Section Fold.
    Variable C : Type.
    Variable ltb : C -> C -> bool.
    Variable dist : C -> C -> C.
    Variables zero inf : C.
    Variable valid : C -> bool.
    Hypothesis lt_irrefl : forall x, valid x = true -> ltb x x = false.
    Hypothesis lt_negtrans : forall x y z, valid x = true -> valid y = true -> valid z = true ->
      ltb x y = true -> ltb x z = true \/ ltb z y = true.
    Hypothesis lt_trans : forall x y z, valid x = true -> valid y = true -> valid z = true ->
      ltb x y = true -> ltb y z = true -> ltb x z = true.
    Hypothesis inf_valid : valid inf = true.

    (* the fold/reduce of par_rcb_split at HEAD (pivot by coordinate) *)
    Notation pfold := (par_fold C ltb dist zero inf true).

    (* two values neither of which is below the other cut every list alike *)
    Lemma equiv_same_cut d1 d2 : valid d1 = true -> valid d2 = true ->
      ltb d1 d2 = false -> ltb d2 d1 = false ->
      forall y, valid y = true -> ltb y d1 = ltb y d2.
    Proof.
      intros V1 V2 A B y Vy. destruct (ltb y d1) eqn:E1, (ltb y d2) eqn:E2; try reflexivity; exfalso.
      - destruct (lt_negtrans y d1 d2 Vy V1 V2 E1) as [Q|Q]; congruence.
      - destruct (lt_negtrans y d2 d1 Vy V2 V1 E2) as [Q|Q]; congruence.
    Qed.

    (* what two schedules of the same fold agree on: the weight left of the
       target (exactly), whether there is a point on the right, and the pivot
       up to "neither coordinate below the other" -- so the split sets that
       reorder_split builds from the pivot's coordinate are the same *)
    Definition fold_agree (t : C) (xs : list (keyed C)) (a1 a2 : acc C) : Prop :=
      let '(_, w1, n1, d1) := a1 in
      let '(_, w2, n2, d2) := a2 in
      w1 = Wl C ltb t xs /\ w2 = Wl C ltb t xs
      /\ (n1 = None <-> n2 = None)
      /\ ltb d1 d2 = false /\ ltb d2 d1 = false
      /\ filter (fun y : keyed C => ltb (fst y) d1) xs = filter (fun y : keyed C => ltb (fst y) d2) xs
      /\ (forall i, n1 = Some i -> exists e, nth_opt xs i = Some e /\ fst e = d1 /\ ltb d1 t = false
                                   /\ forall y, In y xs -> ltb (fst y) t = false -> ltb (fst y) d1 = false)
      /\ (forall i, n2 = Some i -> exists e, nth_opt xs i = Some e /\ fst e = d2 /\ ltb d2 t = false
                                   /\ forall y, In y xs -> ltb (fst y) t = false -> ltb (fst y) d2 = false).

    Theorem fold_two_schedules : forall t s1 s2 xs,
      valid t = true -> Forall (fun x : keyed C => valid (fst x) = true) xs ->
      fold_agree t xs (pfold t s1 0%nat xs) (pfold t s2 0%nat xs).
    Proof.
      intros t s1 s2 xs Ht Hv.
      pose proof (par_fold_PF C ltb dist dist zero inf valid lt_irrefl lt_negtrans lt_trans inf_valid t Ht s1 0%nat xs Hv) as P1.
      pose proof (par_fold_PF C ltb dist dist zero inf valid lt_irrefl lt_negtrans lt_trans inf_valid t Ht s2 0%nat xs Hv) as P2.
      destruct (pfold t s1 0%nat xs) as [[[c1 w1] n1] d1]. destruct (pfold t s2 0%nat xs) as [[[c2 w2] n2] d2].
      unfold PF in P1, P2. unfold fold_agree.
      destruct P1 as (W1 & V1 & N1), P2 as (W2 & V2 & N2).
      assert (Hvy : forall y, In y xs -> valid (fst y) = true) by (rewrite Forall_forall in Hv; exact Hv).
      assert (Core : (n1 = None <-> n2 = None) /\ ltb d1 d2 = false /\ ltb d2 d1 = false).
      { destruct n1 as [i1|], n2 as [i2|].
        - destruct N1 as (e1 & _ & He1 & K1 & R1 & _ & M1), N2 as (e2 & _ & He2 & K2 & R2 & _ & M2).
          split; [split; discriminate|]. split.
          + rewrite <- K1. apply M2; [eapply nth_opt_In; exact He1|rewrite K1; exact R1].
          + rewrite <- K2. apply M1; [eapply nth_opt_In; exact He2|rewrite K2; exact R2].
        - exfalso. destruct N1 as (e1 & _ & He1 & K1 & R1 & F1 & _), N2 as (_ & A2).
          destruct (A2 e1 (nth_opt_In _ _ _ He1)) as [Q|Q]; rewrite K1 in Q; congruence.
        - exfalso. destruct N2 as (e2 & _ & He2 & K2 & R2 & F2 & _), N1 as (_ & A1).
          destruct (A1 e2 (nth_opt_In _ _ _ He2)) as [Q|Q]; rewrite K2 in Q; congruence.
        - destruct N1 as (-> & _), N2 as (-> & _). split; [tauto|]. split; apply lt_irrefl, inf_valid. }
      destruct Core as (Cn & C12 & C21).
      split; [exact W1|]. split; [exact W2|]. split; [exact Cn|]. split; [exact C12|]. split; [exact C21|].
      split.
      { apply filter_ext_in. intros y Hy. apply equiv_same_cut; auto. }
      split.
      - intros i ->. destruct N1 as (e1 & _ & He1 & K1 & R1 & _ & M1). rewrite Nat.sub_0_r in He1.
        exists e1. repeat split; assumption.
      - intros i ->. destruct N2 as (e2 & _ & He2 & K2 & R2 & _ & M2). rewrite Nat.sub_0_r in He2.
        exists e2. repeat split; assumption.
    Qed.
  End Fold.

  (* the binary32 instance (coordinates that are not NaN) *)
  Theorem fold_two_schedules32 : forall t s1 s2 (xs : list (keyed spec_float)),
    f32v t = true -> Forall (fun x : keyed spec_float => f32v (fst x) = true) xs ->
    fold_agree spec_float flt t xs
      (par_fold spec_float flt f32_sub f32_zero f32_inf true t s1 0%nat xs)
      (par_fold spec_float flt f32_sub f32_zero f32_inf true t s2 0%nat xs).
  Proof.
    exact (fold_two_schedules spec_float flt f32_sub f32_zero f32_inf f32v
             flt_irrefl flt_negtrans flt_trans inf_valid32).
  Qed.
End RcbF.

(* ------------------------------------------------------------------ ZCurve *)
Module ZC.
  Import Coupe.Model.SfcPart Coupe.Proofs.ZCurveProofs Coupe.Proofs.ZCheckProofs.   (* sort_contract, zcurve_property only *)
  Open Scope nat_scope.

  (* two sort oracles (two outcomes of par_sort_unstable_by_key on ties): both
     runs return, and both outputs are runs of the curve of the prescribed
     sizes over the SAME cell codes *)
  Lemma zcurve_two_sorters : forall nq maxo q s1 s2 order k n p0,
    1 <= nq -> sort_contract s1 -> sort_contract s2 -> (forall path x, (q path x < N.of_nat nq)%N) ->
    length p0 = n -> order <= maxo -> 1 <= k ->
    exists p1 p2, zcurve true nq maxo q s1 order k n p0 = Ok p1
               /\ zcurve true nq maxo q s2 order k n p0 = Ok p2
               /\ zcurve_property (map (zcode q order []) (seq 0 n)) p1 k
               /\ zcurve_property (map (zcode q order []) (seq 0 n)) p2 k.
  Proof.
    intros nq maxo q s1 s2 order k n p0 Hnq H1 H2 Hq Hl Ho Hk.
    destruct (C09.C09_zcurve_has_property nq maxo q s1 order k n p0 Hnq H1 Hq Hl Ho Hk) as (p1 & E1 & P1).
    destruct (C09.C09_zcurve_has_property nq maxo q s2 order k n p0 Hnq H2 Hq Hl Ho Hk) as (p2 & E2 & P2).
    exists p1, p2. repeat split; assumption.
  Qed.
End ZC.

(* ------------------------------------------------------------ HilbertCurve *)
Module HilC.
  Import Coupe.Model.SfcPart Coupe.Proofs.SfcProofs.   (* mono_pairs only *)

  (* for EVERY split vector the id assignment returns, and is monotone along the curve *)
  Lemma hilbert_assign_any_splits : forall (splits idx : list N),
    exists ids, assign_parts splits idx = Ok ids
      /\ length ids = length idx
      /\ mono_pairs (combine idx ids)
      /\ Forall (fun p => (p <= N.of_nat (length splits))%N) ids.
  Proof.
    intros splits idx. destruct (C09.C09_hilbert_assign_total splits idx) as [ids E].
    exists ids. split; [exact E|]. exact (C09.C09_hilbert_monotone splits idx ids E).
  Qed.
End HilC.

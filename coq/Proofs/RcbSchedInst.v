(* Schedule independence of Rcb at binary32 (C06): instance of Proofs/RcbSched.v. *)
From Coupe Require Import Lib.Prelude Lib.SFloat Model.Rcb Proofs.SFOrder Proofs.RcbProofs
  Proofs.RcbInst Proofs.RcbSched.
From Coq Require Import Floats.SpecFloat Permutation.
Open Scope Z_scope.

Lemma inf_valid32' : f32v f32_inf = true.
Proof. reflexivity. Qed.

(* `m <= a` does not distinguish two non-NaN values neither of which is below
   the other (equal numbers, or zeros of different sign), whatever m is *)
Lemma fle_equiv m a b : f32v a = true -> f32v b = true ->
  flt a b = false -> flt b a = false -> fle m a = fle m b.
Proof.
  unfold f32v. intros Va Vb H1 H2. apply negb_true_iff in Va, Vb.
  assert (K : key a = key b).
  { destruct (lexlt_total (key a) (key b)) as [Q|[Q|Q]]; [| |exact Q]; exfalso.
    - apply (flt_key a b Va Vb) in Q. congruence.
    - apply (flt_key b a Vb Va) in Q. congruence. }
  destruct (is_nan m) eqn:Nm.
  - destruct m; try discriminate. destruct a, b; reflexivity.
  - pose proof (fle_key m a Nm Va) as Fa. pose proof (fle_key m b Nm Vb) as Fb. rewrite K in Fa.
    destruct (fle m a), (fle m b); try reflexivity; exfalso.
    + assert (Q : true = true) by reflexivity. apply Fa in Q. apply Fb in Q. discriminate.
    + assert (Q : true = true) by reflexivity. apply Fb in Q. apply Fa in Q. discriminate.
Qed.

(* C06 for Rcb: for every variant of the search with the repaired stop rules
   and the pivot chosen by coordinate (the current source), every midpoint
   expression, tolerance and fuel, and ANY two schedules (one split tree per
   fold: node and loop iteration), the two runs return the SAME result -- the
   same id for every point, or the same error.  Weights are exact integers;
   the binary32 images of the coordinates are numbers (not NaN).
   Rib = the same function on the rotated points. *)
Theorem rcb_sched_indep : forall v fuel s1 s2 D k tol pts ws p0,
  v_old v = false -> v_by_coord v = true -> coords_ok pts ->
  rcb v fuel s1 D k tol pts ws p0 = rcb v fuel s2 D k tol pts ws p0.
Proof.
  intros v fuel s1 s2 D k tol pts ws p0 Hold Hbc Hok. unfold rcb.
  destruct (Nat.eqb (length ws) (length p0)) eqn:E1; cbn [negb]; [|reflexivity].
  destruct (Nat.eqb (length pts) (length p0)) eqn:E2; cbn [negb]; [|reflexivity].
  apply Nat.eqb_eq in E1, E2.
  destruct pts as [|pt0 pts']; [reflexivity|]. set (pts := pt0 :: pts') in *.
  destruct (bbox32 (v_clamp v) D 0 pts) as [bb|]; [|reflexivity].
  rewrite Hold, Hbc.
  assert (Hlen : length pts = length ws) by lia.
  apply (rcb_core_sched_indep spec_float flt fle (f32_mid (v_safe_mid v)) f32_sub f32_add f32_zero f32_inf
           (tol_test tol) (v_probe_max v) f32v flt_irrefl flt_negtrans flt_trans fle_flt inf_valid32' fle_equiv).
  - rewrite Forall_forall. intros it Hit. unfold vitem.
    assert (Hc : In (co it) (to32c (v_clamp v) pts)) by (rewrite <- (mk_items_co (v_clamp v) pts ws 0%N Hlen); apply in_map, Hit).
    pose proof (coords_okc (v_clamp v) pts Hok) as Hok'. rewrite Forall_forall in Hok'. exact (Hok' _ Hc).
  - rewrite mk_items_ix by exact Hlen. apply seq_NoDup.
Qed.

(* The facts about the two f64 thresholds of weighted_median that the balance
   statement needs (thr_ok_b), PROVED for the TOLERANCE literal of the current
   source: for i64 weights and every total 0 <= T < 2^46; for f64 weights
   z * 2^-k (k <= 1000) and every total z with 0 <= z < 2^53.

   Coq's SpecFloat operations (used by the executable model) are linked to
   Flocq's BinarySingleNaN operations (binary_round_aux_equiv etc., as in
   Flocq.IEEE754.PrimFloat), whose correctness theorems give the real-number
   meaning:  lo = round(T/2 * fl(1-TOL)),  hi = round(T/2 * fl(1+TOL)), with
   T/2 exact.  From round's monotonicity and the relative error bound 2^-53:
     0 <= lo <= T/2 <= hi,   lo >= T/2 * c99 * (1 - 2^-53),   hi <= T/2 * c101 * (1 + 2^-53)
   and the integer facts follow (for T < 2^46 the float error is below 1/200 unit).
   This file (and what depends on it) uses the axioms of Coq's classical real
   numbers through Flocq; nothing else in the C10 development does. *)
From Coq Require Import ZArith Reals Lia Lra Psatz Floats.SpecFloat.
From Flocq Require Import Core Relative BinarySingleNaN.
From Coupe Require Import Lib.Prelude Lib.SFloat Model.GridRcb Proofs.GridRcbMedian Gen.GridRcbGen.
Open Scope R_scope.

Notation prec := 53%Z.
Notation emax := 1024%Z.
#[local] Instance Hprec : FLX.Prec_gt_0 prec := eq_refl _.
#[local] Instance Hmax : Prec_lt_emax prec emax := eq_refl _.
Notation bf := (binary_float prec emax).
Notation rnd := (round radix2 (SpecFloat.fexp prec emax) (round_mode mode_NE)).

(* Coq's SpecFloat rounding = Flocq's rounding in mode NE (these four lemmas
   are those of Flocq.IEEE754.PrimFloat, restated here so that the primitive
   float library and its axioms are not loaded) *)
Lemma round_nearest_even_equiv s m l :
  round_nearest_even m l = choice_mode mode_NE s m l.
Proof.
  case l; [reflexivity|intro c].
  case c; [ | reflexivity..].
  now simpl; unfold Round.cond_incr; case Z.even.
Qed.

Lemma binary_round_aux_equiv sx mx ex lx :
  SpecFloat.binary_round_aux prec emax sx mx ex lx
  = binary_round_aux prec emax mode_NE sx mx ex lx.
Proof.
  unfold SpecFloat.binary_round_aux, binary_round_aux.
  set (mrse' := shr_fexp _ _ _).
  case mrse'; intros mrs' e'; simpl.
  now rewrite (round_nearest_even_equiv sx).
Qed.

Lemma binary_round_equiv s m e :
  SpecFloat.binary_round prec emax s m e = binary_round prec emax mode_NE s m e.
Proof.
  unfold SpecFloat.binary_round, binary_round, shl_align_fexp.
  set (mez := shl_align _ _ _); case mez as [mz ez].
  apply binary_round_aux_equiv.
Qed.

Lemma binary_normalize_equiv m e szero :
  SpecFloat.binary_normalize prec emax m e szero
  = B2SF (binary_normalize prec emax Hprec Hmax mode_NE m e szero).
Proof.
  case m as [ | p | p].
  - now simpl.
  - simpl; rewrite B2SF_SF2B; apply binary_round_equiv.
  - simpl; rewrite B2SF_SF2B; apply binary_round_equiv.
Qed.

(* value of a finite non-negative float and its integer conversions *)
Lemma pos_div_bounds (m k : Z) : (0 < k)%Z ->
  IZR (m / 2 ^ k) <= IZR m * / IZR (2 ^ k) < IZR (m / 2 ^ k) + 1.
Proof.
  intros Hk.
  assert (Hp : (0 < 2 ^ k)%Z) by (apply Z.pow_pos_nonneg; lia).
  pose proof (Z.div_mod m (2 ^ k) ltac:(lia)) as Hdm.
  pose proof (Z.mod_pos_bound m (2 ^ k) Hp) as Hr.
  set (q := (m / 2 ^ k)%Z) in *. set (r := (m mod 2 ^ k)%Z) in *.
  assert (HP : 0 < IZR (2 ^ k)) by (apply IZR_lt; exact Hp).
  assert (Hm : IZR m = IZR (2 ^ k) * IZR q + IZR r) by (rewrite Hdm, plus_IZR, mult_IZR; reflexivity).
  assert (Hr0 : 0 <= IZR r) by (apply IZR_le; lia).
  assert (Hr1 : IZR r < IZR (2 ^ k)) by (apply IZR_lt; lia).
  rewrite Hm. split.
  - apply Rmult_le_reg_r with (IZR (2 ^ k)); [exact HP|]. field_simplify; lra.
  - apply Rmult_lt_reg_r with (IZR (2 ^ k)); [exact HP|]. field_simplify; lra.
Qed.

Lemma bpow_neg_Z (k : Z) : (0 < k)%Z -> bpow radix2 (- k) = / IZR (2 ^ k).
Proof. intros Hk. rewrite bpow_opp. f_equal. rewrite <- IZR_Zpower by lia. reflexivity. Qed.

Lemma bpow_nonneg_Z (e : Z) : (0 <= e)%Z -> bpow radix2 e = IZR (2 ^ e).
Proof. intros He. rewrite <- IZR_Zpower by lia. reflexivity. Qed.

Lemma nonneg_shape (L : bf) : BinarySingleNaN.is_finite L = true -> 0 <= B2R L ->
  (exists s, L = B754_zero s) \/ (exists m e H, L = B754_finite false m e H).
Proof.
  destruct L as [s|s| |s m e H]; intros Hf Hr; try discriminate; [left; eauto|].
  destruct s; [|right; eauto]. exfalso.
  unfold B2R in Hr. cbn [cond_Zopp] in Hr.
  pose proof (F2R_lt_0 radix2 (Float radix2 (Z.opp (Zpos m)) e) ltac:(cbn; lia)). lra.
Qed.

(* x * 2^k for a finite non-negative float x, as an exact scaled mantissa *)
Lemma scaled_value (m : positive) (e k : Z) H :
  B2R (@B754_finite prec emax false m e H) * bpow radix2 k = IZR (Z.pos m) * bpow radix2 (e + k).
Proof. unfold B2R, F2R. cbn [cond_Zopp Fnum Fexp]. rewrite bpow_plus. ring. Qed.

Lemma floor_cmp_spec (L : bf) (k : Z) : BinarySingleNaN.is_finite L = true -> 0 <= B2R L ->
  IZR (floor_cmp k (B2SF L)) <= B2R L * bpow radix2 k < IZR (floor_cmp k (B2SF L)) + 1.
Proof.
  intros Hf Hr. destruct (nonneg_shape L Hf Hr) as [(s & ->)|(m & e & H & ->)].
  - cbn. lra.
  - rewrite scaled_value. cbn [B2SF floor_cmp]. set (e' := (e + k)%Z).
    destruct (Z.leb_spec 0 e') as [He|He].
    + rewrite mult_IZR, bpow_nonneg_Z by lia. lra.
    + assert (Hb : bpow radix2 e' = / IZR (2 ^ (- e'))) by (rewrite <- bpow_neg_Z by lia; f_equal; lia).
      rewrite Hb. apply pos_div_bounds. lia.
Qed.

Lemma ceil_cmp_spec (L : bf) (k : Z) : BinarySingleNaN.is_finite L = true -> 0 <= B2R L ->
  IZR (ceil_cmp k (B2SF L)) - 1 < B2R L * bpow radix2 k <= IZR (ceil_cmp k (B2SF L)).
Proof.
  intros Hf Hr. destruct (nonneg_shape L Hf Hr) as [(s & ->)|(m & e & H & ->)].
  - cbn. lra.
  - rewrite scaled_value. cbn [B2SF ceil_cmp]. set (e' := (e + k)%Z).
    destruct (Z.leb_spec 0 e') as [He|He].
    + rewrite mult_IZR, bpow_nonneg_Z by lia. lra.
    + assert (Hb' : bpow radix2 e' = / IZR (2 ^ (- e'))) by (rewrite <- bpow_neg_Z by lia; f_equal; lia).
      rewrite Hb'.
      pose proof (pos_div_bounds (- Z.pos m) (- e') ltac:(lia)) as Hb.
      rewrite !opp_IZR in *. lra.
Qed.

Lemma sat_i64_spec (L : bf) : BinarySingleNaN.is_finite L = true -> 0 <= B2R L < IZR (2 ^ 63) ->
  IZR (sat_i64 (B2SF L)) <= B2R L < IZR (sat_i64 (B2SF L)) + 1.
Proof.
  intros Hf Hr.
  pose proof (floor_cmp_spec L 0 Hf ltac:(lra)) as Hb. cbn [bpow] in Hb. rewrite Rmult_1_r in Hb.
  assert (Hfl : sat_i64 (B2SF L) = floor_cmp 0 (B2SF L)); [|rewrite Hfl; exact Hb].
  assert (H0 : (-1 < floor_cmp 0 (B2SF L))%Z) by (apply lt_IZR; rewrite <- (Rplus_0_r (IZR (-1))); change (IZR (-1)) with (-1); lra).
  assert (H1 : (floor_cmp 0 (B2SF L) < 2 ^ 63)%Z) by (apply lt_IZR; lra).
  destruct (nonneg_shape L Hf ltac:(lra)) as [(s & ->)|(m & e & H & ->)]; [reflexivity|].
  cbn [B2SF floor_cmp] in *. unfold sat_i64. cbn [trunc_Z]. rewrite Z.add_0_r in *.
  change (2 ^ 63)%Z with 9223372036854775808%Z in *.
  destruct (0 <=? e)%Z; lia.
Qed.

(* ---------- the operations ---------- *)
Lemma SFmul_B (x y : bf) : SFmul prec emax (B2SF x) (B2SF y) = B2SF (Bmult mode_NE x y).
Proof.
  destruct x as [sx|sx| |sx mx ex Bx]; destruct y as [sy|sy| |sy my ey By]; try reflexivity.
  simpl. rewrite B2SF_SF2B. apply binary_round_aux_equiv.
Qed.

Lemma SFdiv_B (x y : bf) : SFdiv prec emax (B2SF x) (B2SF y) = B2SF (Bdiv mode_NE x y).
Proof.
  destruct x as [sx|sx| |sx mx ex Bx]; destruct y as [sy|sy| |sy my ey By]; try reflexivity.
  simpl. rewrite B2SF_SF2B.
  set (melz := SFdiv_core_binary _ _ _ _ _ _).
  case melz as [[mz ez] lz].
  apply binary_round_aux_equiv.
Qed.

Lemma of_Z_B z : f64_of_Z z = B2SF (binary_normalize prec emax Hprec Hmax mode_NE z 0 false).
Proof. unfold of_Z. apply binary_normalize_equiv. Qed.

Lemma fmt_scaled (T e : Z) : (Z.abs T < 2 ^ 53)%Z -> (-1074 <= e)%Z ->
  generic_format radix2 (SpecFloat.fexp prec emax) (IZR T * bpow radix2 e).
Proof.
  intros HT He. change (SpecFloat.fexp prec emax) with (FLT_exp (-1074) prec).
  apply generic_format_FLT. exists (Float radix2 T e); auto.
Qed.

Lemma round_lt_emax z : Rabs z <= bpow radix2 1000 -> Rabs (rnd z) < bpow radix2 emax.
Proof.
  intros Hz. apply Rle_lt_trans with (bpow radix2 1000).
  - apply abs_round_le_generic; auto with typeclass_instances.
    + apply fexp_correct. reflexivity.
    + apply generic_format_bpow. cbv. discriminate.
  - apply bpow_lt. lia.
Qed.

Definition TWO : bf := @B754_finite prec emax false 4503599627370496 (-51) eq_refl.
Definition C99 : bf := @B754_finite prec emax false 8917127262193582 (-53) eq_refl.
Definition C101 : bf := @B754_finite prec emax false 4548635623644201 (-52) eq_refl.
Lemma TWO_ok : B2SF TWO = f64_of_Z 2. Proof. vm_compute. reflexivity. Qed.
Lemma C99_ok : B2SF C99 = f64_sub (f64_of_Z 1) (f64_of_bits gridrcb_tolerance_bits).
Proof. vm_compute. reflexivity. Qed.
Lemma C101_ok : B2SF C101 = f64_add (f64_of_Z 1) (f64_of_bits gridrcb_tolerance_bits).
Proof. vm_compute. reflexivity. Qed.

Lemma B2R_TWO : B2R TWO = 2.
Proof.
  unfold TWO, B2R, F2R. cbn [cond_Zopp Fnum Fexp].
  change (-51)%Z with (- (51))%Z. rewrite bpow_neg_Z by lia.
  change (2 ^ 51)%Z with 2251799813685248%Z. lra.
Qed.
Lemma B2R_C99 : B2R C99 = 8917127262193582 / 9007199254740992.
Proof.
  unfold C99, B2R, F2R. cbn [cond_Zopp Fnum Fexp].
  change (-53)%Z with (- (53))%Z. rewrite bpow_neg_Z by lia.
  change (2 ^ 53)%Z with 9007199254740992%Z. lra.
Qed.
Lemma B2R_C101 : B2R C101 = 4548635623644201 / 4503599627370496.
Proof.
  unfold C101, B2R, F2R. cbn [cond_Zopp Fnum Fexp].
  change (-52)%Z with (- (52))%Z. rewrite bpow_neg_Z by lia.
  change (2 ^ 52)%Z with 4503599627370496%Z. lra.
Qed.

Section Chain.
  Variable T : Z.
  Variable k : nat.             (* the total weight is T * 2^-k *)
  Hypothesis HT : (0 <= T < 2 ^ 53)%Z.
  Hypothesis Hk : (k <= 1000)%nat.
  Let K := Z.of_nat k.
  Let t := IZR T * bpow radix2 (- K).

  Let HTR : 0 <= IZR T < IZR (2 ^ 53).
  Proof. split; [apply IZR_le|apply IZR_lt]; lia. Qed.

  Let Hs : 0 < bpow radix2 (- K) <= 1.
  Proof.
    split; [apply bpow_gt_0|]. change 1 with (bpow radix2 0). apply bpow_le. unfold K. lia.
  Qed.

  Lemma t_bounds : 0 <= t <= IZR (2 ^ 53).
  Proof.
    unfold t. split; [apply Rmult_le_pos; lra|].
    apply Rle_trans with (IZR T * 1); [apply Rmult_le_compat_l; lra|lra].
  Qed.

  Definition X : bf := binary_normalize prec emax Hprec Hmax mode_NE T (- K) false.

  Lemma IZR_le_bpow1000 z : Rabs z <= IZR (2 ^ 54) -> Rabs z <= bpow radix2 1000.
  Proof.
    intros H. apply Rle_trans with (1 := H). rewrite <- bpow_nonneg_Z by lia. apply bpow_le. lia.
  Qed.

  Lemma X_ok : B2R X = t /\ BinarySingleNaN.is_finite X = true.
  Proof.
    pose proof (binary_normalize_correct prec emax Hprec Hmax mode_NE T (- K) false) as H.
    cbv zeta in H. fold X in H.
    assert (Hx : F2R (Float radix2 T (- K)) = t) by reflexivity.
    rewrite Hx in H.
    assert (Hg : rnd t = t).
    { apply round_generic; auto with typeclass_instances. apply fmt_scaled; unfold K; lia. }
    rewrite Hg in H. rewrite Rlt_bool_true in H.
    - destruct H as (H1 & H2 & _). auto.
    - rewrite <- Hg. apply round_lt_emax. apply IZR_le_bpow1000.
      pose proof t_bounds. rewrite Rabs_pos_eq by lra. apply Rle_trans with (IZR (2 ^ 53)); [lra|]. apply IZR_le. lia.
  Qed.

  Definition IDEAL : bf := Bdiv mode_NE X TWO.

  Lemma half_fmt : rnd (t / 2) = t / 2.
  Proof.
    apply round_generic; auto with typeclass_instances.
    replace (t / 2) with (IZR T * bpow radix2 (- K - 1)).
    - apply fmt_scaled; unfold K; lia.
    - unfold t. replace (- K - 1)%Z with (- K + (-1))%Z by lia. rewrite bpow_plus.
      change (bpow radix2 (-1)) with (/ 2). field.
  Qed.

  Lemma IDEAL_ok : B2R IDEAL = t / 2 /\ BinarySingleNaN.is_finite IDEAL = true.
  Proof.
    destruct X_ok as (HX & HXf).
    pose proof (Bdiv_correct prec emax Hprec Hmax mode_NE X TWO ltac:(rewrite B2R_TWO; lra)) as H.
    fold IDEAL in H. rewrite HX, B2R_TWO in H.
    rewrite half_fmt in H. rewrite Rlt_bool_true in H.
    - destruct H as (H1 & H2 & _). rewrite HXf in H2. auto.
    - rewrite <- half_fmt. apply round_lt_emax. apply IZR_le_bpow1000.
      pose proof t_bounds. rewrite Rabs_pos_eq by lra. apply Rle_trans with (IZR (2 ^ 53)); [lra|]. apply IZR_le. lia.
  Qed.

  Lemma mul_ok (C : bf) : BinarySingleNaN.is_finite C = true -> 0 <= B2R C <= 2 ->
    B2R (Bmult mode_NE IDEAL C) = rnd (t / 2 * B2R C)
    /\ BinarySingleNaN.is_finite (Bmult mode_NE IDEAL C) = true.
  Proof.
    intros HCf HC. destruct IDEAL_ok as (HI & HIf).
    pose proof (Bmult_correct prec emax Hprec Hmax mode_NE IDEAL C) as H.
    rewrite HI in H. rewrite Rlt_bool_true in H.
    - destruct H as (H1 & H2 & _). rewrite HIf, HCf in H2. auto.
    - apply round_lt_emax. apply IZR_le_bpow1000. pose proof t_bounds as Htb.
      assert (0 <= t / 2 * B2R C) by (apply Rmult_le_pos; lra).
      rewrite Rabs_pos_eq by lra.
      apply Rle_trans with (IZR (2 ^ 53) / 2 * 2); [|change (2 ^ 53)%Z with 9007199254740992%Z; change (2 ^ 54)%Z with 18014398509481984%Z; lra].
      apply Rmult_le_compat; lra.
  Qed.

  Definition LO : bf := Bmult mode_NE IDEAL C99.
  Definition HI : bf := Bmult mode_NE IDEAL C101.

  Notation u := (/ 9007199254740992).
  Notation c99 := (8917127262193582 / 9007199254740992).
  Notation c101 := (4548635623644201 / 4503599627370496).

  Lemma rel_err x : bpow radix2 (-1022) <= x ->
    x * (1 - u) <= rnd x <= x * (1 + u).
  Proof.
    intros Hx. assert (Hx0 : 0 < x) by (apply Rlt_le_trans with (2 := Hx); apply bpow_gt_0).
    pose proof (relative_error_N_FLT radix2 (-1074) prec ltac:(lia) (fun z => negb (Z.even z)) x) as H.
    change (round radix2 (FLT_exp (-1074) prec) (Znearest (fun z => negb (Z.even z))) x) with (rnd x) in H.
    assert (Hb : bpow radix2 (-1074 + prec - 1) <= Rabs x) by (rewrite Rabs_pos_eq by lra; exact Hx).
    specialize (H Hb). rewrite (Rabs_pos_eq x) in H by lra.
    assert (Hu : / 2 * bpow radix2 (- prec + 1) = u).
    { change (- prec + 1)%Z with (- (52))%Z. rewrite bpow_neg_Z by lia.
      change (2 ^ 52)%Z with 4503599627370496%Z. lra. }
    rewrite Hu in H. apply Rabs_le_inv in H. lra.
  Qed.

  (* a positive total is at least 2^-k, far inside the normal range *)
  Lemma t_normal : (1 <= T)%Z -> bpow radix2 (-1020) <= t / 4.
  Proof.
    intros H1. assert (1 <= IZR T) by (apply (IZR_le 1); lia).
    apply Rle_trans with (bpow radix2 (- K) / 4).
    - replace (bpow radix2 (- K) / 4) with (bpow radix2 (- K - 2)).
      + apply bpow_le. unfold K. lia.
      + replace (- K - 2)%Z with (- K + (-2))%Z by lia. rewrite bpow_plus.
        change (bpow radix2 (-2)) with (/ 4). field.
    - unfold t. pose proof Hs. apply Rmult_le_compat_r; [lra|]. rewrite <- (Rmult_1_l (bpow radix2 (- K))) at 1.
      apply Rmult_le_compat_r; lra.
  Qed.

  Lemma LO_ok : BinarySingleNaN.is_finite LO = true /\
    0 <= B2R LO <= t / 2 /\ t / 2 * c99 * (1 - u) <= B2R LO.
  Proof.
    destruct (mul_ok C99 eq_refl ltac:(rewrite B2R_C99; lra)) as (Hv & Hf).
    fold LO in Hv, Hf. rewrite B2R_C99 in Hv.
    split; [exact Hf|]. rewrite Hv. pose proof t_bounds as Htb.
    split; [split|].
    - rewrite <- (round_0 radix2 (SpecFloat.fexp prec emax) (round_mode mode_NE)).
      apply round_le; auto with typeclass_instances. apply fexp_correct; reflexivity. nra.
    - rewrite <- half_fmt at 2. apply round_le; auto with typeclass_instances. apply fexp_correct; reflexivity. nra.
    - destruct (Z.eq_dec T 0) as [E|E].
      + assert (t = 0) by (unfold t; rewrite E; lra).
        replace (t / 2 * c99) with 0 by lra. rewrite round_0; auto with typeclass_instances. lra.
      + apply rel_err. pose proof (t_normal ltac:(lia)) as Hn.
        apply Rle_trans with (bpow radix2 (-1020)); [apply bpow_le; lia|]. lra.
  Qed.

  Lemma HI_ok : BinarySingleNaN.is_finite HI = true /\
    t / 2 <= B2R HI /\ B2R HI <= t / 2 * c101 * (1 + u).
  Proof.
    destruct (mul_ok C101 eq_refl ltac:(rewrite B2R_C101; lra)) as (Hv & Hf).
    fold HI in Hv, Hf. rewrite B2R_C101 in Hv.
    split; [exact Hf|]. rewrite Hv. pose proof t_bounds as Htb.
    split.
    - rewrite <- half_fmt at 1. apply round_le; auto with typeclass_instances. apply fexp_correct; reflexivity. nra.
    - destruct (Z.eq_dec T 0) as [E|E].
      + assert (t = 0) by (unfold t; rewrite E; lra).
        replace (t / 2 * c101) with 0 by lra. rewrite round_0; auto with typeclass_instances. lra.
      + apply rel_err. pose proof (t_normal ltac:(lia)) as Hn.
        apply Rle_trans with (bpow radix2 (-1020)); [apply bpow_le; lia|]. lra.
  Qed.

  (* the same in units of 2^-k: lo' = lo * 2^k etc., against the integer total *)
  Lemma scaled_ok :
    let lo' := B2R LO * bpow radix2 K in
    let hi' := B2R HI * bpow radix2 K in
    0 <= lo' <= IZR T / 2 /\ IZR T / 2 <= hi' /\
    IZR T / 2 * c99 * (1 - u) <= lo' /\ hi' <= IZR T / 2 * c101 * (1 + u).
  Proof.
    intros lo' hi'. destruct LO_ok as (_ & (Hl0 & Hl1) & Hl2). destruct HI_ok as (_ & Hh1 & Hh2).
    assert (Hsk : 0 < bpow radix2 K) by apply bpow_gt_0.
    assert (Hts : t * bpow radix2 K = IZR T).
    { unfold t. rewrite Rmult_assoc, <- bpow_plus. replace (- K + K)%Z with 0%Z by lia. cbn [bpow]. lra. }
    unfold lo', hi'. set (s := bpow radix2 K) in *.
    assert (E1 : IZR T / 2 = t / 2 * s) by (rewrite <- Hts; field).
    assert (E2 : IZR T / 2 * c99 * (1 - u) = t / 2 * c99 * (1 - u) * s) by (rewrite <- Hts; field).
    assert (E3 : IZR T / 2 * c101 * (1 + u) = t / 2 * c101 * (1 + u) * s) by (rewrite <- Hts; field).
    repeat split.
    - apply Rmult_le_pos; lra.
    - rewrite E1. apply Rmult_le_compat_r; lra.
    - rewrite E1. apply Rmult_le_compat_r; lra.
    - rewrite E2. apply Rmult_le_compat_r; lra.
    - rewrite E3. apply Rmult_le_compat_r; lra.
  Qed.
End Chain.

Lemma thresholds_B fw T :
  thresholds fw gridrcb_tolerance_bits T =
  match fw with
  | F64 k => (ceil_cmp (Z.of_nat k) (B2SF (LO T k)), floor_cmp (Z.of_nat k) (B2SF (HI T k)))
  | I64 => (sat_i64 (B2SF (LO T 0)), sat_i64 (B2SF (HI T 0)))
  end.
Proof.
  unfold thresholds. rewrite <- TWO_ok, <- C99_ok, <- C101_ok.
  assert (Ht : total_f64 fw T = B2SF (X T (match fw with I64 => 0%nat | F64 k => k end))).
  { destruct fw; unfold total_f64, X; [rewrite of_Z_B; reflexivity|apply binary_normalize_equiv]. }
  rewrite Ht. unfold fdiv, fmul. rewrite SFdiv_B. rewrite !SFmul_B. destruct fw; reflexivity.
Qed.

Ltac z_of_r := apply lt_IZR; repeat rewrite ?plus_IZR, ?minus_IZR, ?mult_IZR, ?opp_IZR.
Ltac z_of_r_le := apply le_IZR; repeat rewrite ?plus_IZR, ?minus_IZR, ?mult_IZR, ?opp_IZR.

(* i64 weights: one unit of slack absorbs the truncation; the float error stays
   below 1/200 unit for totals below 2^46 *)
Lemma thr_ok_flocq_i64_small T : (0 <= T < 2 ^ 46)%Z -> thr_ok_b I64 gridrcb_tolerance_bits T = true.
Proof.
  intros HT. assert (HT53 : (0 <= T < 2 ^ 53)%Z) by lia.
  unfold thr_ok_b. rewrite (thresholds_B I64 T).
  destruct (LO_ok T 0 HT53 ltac:(lia)) as (Hlf & (Hl0 & Hl1) & Hl2).
  destruct (HI_ok T 0 HT53 ltac:(lia)) as (Hhf & Hh1 & Hh2).
  cbn [Z.of_nat Z.opp bpow] in *. rewrite Rmult_1_r in *.
  assert (Ht : 0 <= IZR T < 70368744177664)
    by (split; [apply (IZR_le 0)|apply (IZR_lt _ 70368744177664)]; lia).
  set (t := IZR T) in *.
  set (lo := B2R (LO T 0)) in *. set (hi := B2R (HI T 0)) in *.
  assert (H62 : IZR (2 ^ 63) = 9223372036854775808) by reflexivity.
  pose proof (sat_i64_spec (LO T 0) Hlf ltac:(fold lo; rewrite H62; lra)) as Ha.
  pose proof (sat_i64_spec (HI T 0) Hhf ltac:(fold hi; rewrite H62; lra)) as Hb.
  fold lo in Ha. fold hi in Hb.
  set (a := sat_i64 (B2SF (LO T 0))) in *. set (b := sat_i64 (B2SF (HI T 0))) in *.
  assert (F1 : (-1 < b)%Z) by (z_of_r; change (IZR (-1)) with (-1); lra).
  assert (F2 : (a < b + 2)%Z) by (z_of_r; lra).
  assert (F3 : (2 * a < T + 2)%Z) by (z_of_r; fold t; lra).
  assert (F4 : (T < 2 * b + 2)%Z) by (z_of_r; fold t; lra).
  assert (F5 : (99 * T - 201 < 200 * a)%Z) by (z_of_r; fold t; lra).
  assert (F6 : (200 * b < 101 * T + 201)%Z) by (z_of_r; fold t; lra).
  unfold band_ok_b. destruct (Z.ltb_spec T (2 ^ 46)) as [_|]; [|lia].
  rewrite !andb_true_iff, !Z.leb_le. lia.
Qed.

(* ---------- i64 totals from 2^46 up to 2^63 ----------
   `total as f64` is no longer exact above 2^53 and the float error of the two
   thresholds (three roundings, each 2^-53 relative, plus the error of
   fl(1 -+ TOLERANCE)) exceeds 1/200 unit: the "+1 unit" no longer absorbs it.
   What holds is 1% * (1 + 2^-40) + 1 unit. *)
Lemma le_bpow1000' z : Rabs z <= IZR (2 ^ 70) -> Rabs z <= bpow radix2 1000.
Proof.
  intros H. apply Rle_trans with (1 := H). rewrite <- bpow_nonneg_Z by lia. apply bpow_le. lia.
Qed.

Lemma norm_fin T : Rabs (IZR T) <= IZR (2 ^ 69) ->
  B2R (X T 0) = rnd (IZR T) /\ BinarySingleNaN.is_finite (X T 0) = true.
Proof.
  intros Hb.
  pose proof (binary_normalize_correct prec emax Hprec Hmax mode_NE T 0 false) as H.
  cbv zeta in H. change (binary_normalize prec emax Hprec Hmax mode_NE T 0 false) with (X T 0) in H.
  assert (Hx : F2R (Float radix2 T 0) = IZR T) by (unfold F2R; cbn [Fnum Fexp bpow]; lra).
  rewrite Hx in H. rewrite Rlt_bool_true in H.
  - destruct H as (H1 & H2 & _). auto.
  - apply round_lt_emax. apply le_bpow1000'. apply Rle_trans with (1 := Hb). apply IZR_le. lia.
Qed.

Lemma div2_fin (A : bf) : BinarySingleNaN.is_finite A = true -> Rabs (B2R A) <= IZR (2 ^ 70) ->
  B2R (Bdiv mode_NE A TWO) = rnd (B2R A / 2) /\ BinarySingleNaN.is_finite (Bdiv mode_NE A TWO) = true.
Proof.
  intros Hf Hb.
  pose proof (Bdiv_correct prec emax Hprec Hmax mode_NE A TWO ltac:(rewrite B2R_TWO; lra)) as H.
  rewrite B2R_TWO in H. rewrite Rlt_bool_true in H.
  - destruct H as (H1 & H2 & _). rewrite Hf in H2. auto.
  - apply round_lt_emax. apply le_bpow1000'. unfold Rdiv. rewrite Rabs_mult.
    rewrite (Rabs_pos_eq (/ 2)) by lra. pose proof (Rabs_pos (B2R A)). lra.
Qed.

Lemma mult_fin (A C : bf) : BinarySingleNaN.is_finite A = true -> BinarySingleNaN.is_finite C = true ->
  Rabs (B2R A * B2R C) <= IZR (2 ^ 70) ->
  B2R (Bmult mode_NE A C) = rnd (B2R A * B2R C) /\ BinarySingleNaN.is_finite (Bmult mode_NE A C) = true.
Proof.
  intros Hf Hc Hb.
  pose proof (Bmult_correct prec emax Hprec Hmax mode_NE A C) as H. rewrite Rlt_bool_true in H.
  - destruct H as (H1 & H2 & _). rewrite Hf, Hc in H2. auto.
  - apply round_lt_emax. apply le_bpow1000'. exact Hb.
Qed.

Lemma bpow_m1022_small x : / 4 <= x -> bpow radix2 (-1022) <= x.
Proof.
  intros H. apply Rle_trans with (bpow radix2 (-2)); [apply bpow_le; lia|].
  change (bpow radix2 (-2)) with (/ 4). exact H.
Qed.

Section Big.
  Variable T : Z.
  Hypothesis HT : (1 <= T < 2 ^ 63)%Z.
  Notation u := (/ 9007199254740992).
  Notation c99 := (8917127262193582 / 9007199254740992).
  Notation c101 := (4548635623644201 / 4503599627370496).
  Let t := IZR T.
  Let Ht : 1 <= t < 9223372036854775808.
  Proof. unfold t. split; [apply (IZR_le 1)|apply (IZR_lt _ 9223372036854775808)]; lia. Qed.

  (* lo, hi within (1 -+ u)^3 of t/2 * c99, t/2 * c101 *)
  Lemma big_ok :
    BinarySingleNaN.is_finite (LO T 0) = true /\ BinarySingleNaN.is_finite (HI T 0) = true /\
    t / 2 * c99 * ((1 - u) * (1 - u) * (1 - u)) <= B2R (LO T 0) <= t / 2 * c99 * ((1 + u) * (1 + u) * (1 + u)) /\
    t / 2 * c101 * ((1 - u) * (1 - u) * (1 - u)) <= B2R (HI T 0) <= t / 2 * c101 * ((1 + u) * (1 + u) * (1 + u)).
  Proof.
    assert (H69 : IZR (2 ^ 69) = 590295810358705651712) by reflexivity.
    assert (H70 : IZR (2 ^ 70) = 1180591620717411303424) by reflexivity.
    destruct (norm_fin T ltac:(fold t; rewrite Rabs_pos_eq by lra; rewrite H69; lra)) as (Hx & Hxf).
    fold t in Hx. pose proof (rel_err 0%nat ltac:(lia) t ltac:(apply bpow_m1022_small; lra)) as Ex.
    set (x := B2R (X T 0)) in *. rewrite <- Hx in Ex.
    destruct (div2_fin (X T 0) Hxf ltac:(fold x; rewrite Rabs_pos_eq by lra; rewrite H70; lra)) as (Hi & Hif).
    fold (IDEAL T 0) in Hi, Hif. fold x in Hi.
    pose proof (rel_err 0%nat ltac:(lia) (x / 2) ltac:(apply bpow_m1022_small; lra)) as Ei.
    set (i := B2R (IDEAL T 0)) in *. rewrite <- Hi in Ei.
    assert (Hi0 : 0 <= i) by lra.
    destruct (mult_fin (IDEAL T 0) C99 Hif eq_refl
                ltac:(fold i; rewrite B2R_C99; rewrite Rabs_pos_eq by nra; rewrite H70; nra)) as (Hl & Hlf).
    destruct (mult_fin (IDEAL T 0) C101 Hif eq_refl
                ltac:(fold i; rewrite B2R_C101; rewrite Rabs_pos_eq by nra; rewrite H70; nra)) as (Hh & Hhf).
    fold (LO T 0) in Hl, Hlf. fold (HI T 0) in Hh, Hhf. fold i in Hl, Hh.
    rewrite B2R_C99 in Hl. rewrite B2R_C101 in Hh.
    pose proof (rel_err 0%nat ltac:(lia) (i * c99) ltac:(apply bpow_m1022_small; lra)) as El.
    pose proof (rel_err 0%nat ltac:(lia) (i * c101) ltac:(apply bpow_m1022_small; lra)) as Eh.
    rewrite <- Hl in El. rewrite <- Hh in Eh.
    split; [exact Hlf|]. split; [exact Hhf|].
    set (lo := B2R (LO T 0)) in *. set (hi := B2R (HI T 0)) in *.
    (* chain the three relative errors: all linear with constant coefficients *)
    assert (A1 : t * (1 - u) / 2 * (1 - u) <= i) by lra.
    assert (A2 : i <= t * (1 + u) / 2 * (1 + u)) by lra.
    split; split; lra.
  Qed.

  Lemma thr_ok_big : (2 ^ 46 <= T)%Z -> thr_ok_b I64 gridrcb_tolerance_bits T = true.
  Proof.
    intros H46. unfold thr_ok_b. rewrite (thresholds_B I64 T).
    destruct big_ok as (Hlf & Hhf & (Hl1 & Hl2) & (Hh1 & Hh2)).
    set (lo := B2R (LO T 0)) in *. set (hi := B2R (HI T 0)) in *.
    assert (H63 : IZR (2 ^ 63) = 9223372036854775808) by reflexivity.
    pose proof (sat_i64_spec (LO T 0) Hlf ltac:(fold lo; rewrite H63; lra)) as Ha.
    pose proof (sat_i64_spec (HI T 0) Hhf ltac:(fold hi; rewrite H63; lra)) as Hb.
    fold lo in Ha. fold hi in Hb.
    set (a := sat_i64 (B2SF (LO T 0))) in *. set (b := sat_i64 (B2SF (HI T 0))) in *.
    assert (F1 : (-1 < b)%Z) by (z_of_r; change (IZR (-1)) with (-1); lra).
    assert (F2 : (a < b + 2)%Z) by (z_of_r; lra).
    assert (F3 : (2 * a < T + 2)%Z) by (z_of_r; fold t; lra).
    assert (F4 : (T < 2 * b + 2)%Z) by (z_of_r; fold t; lra).
    assert (F5 : (1099511627776 * (100 * (T - 2 * a)) < 1099511627777 * T + 1099511627776 * 200 + 1)%Z)
      by (z_of_r; fold t; lra).
    assert (F6 : (1099511627776 * (100 * (2 * b - T)) < 1099511627777 * T + 1099511627776 * 200 + 1)%Z)
      by (z_of_r; fold t; lra).
    unfold band_ok_b. destruct (Z.ltb_spec T (2 ^ 46)) as [|_]; [lia|].
    change (2 ^ 40)%Z with 1099511627776%Z.
    rewrite !andb_true_iff, !Z.leb_le. lia.
  Qed.
End Big.

(* i64 weights, every total below 2^63 (the clause is the strict "1% + 1 unit"
   below 2^46 and "1% * (1 + 2^-40) + 1 unit" from 2^46 on: band_i64) *)
Theorem thr_ok_flocq_i64 T : (0 <= T < 2 ^ 63)%Z -> thr_ok_b I64 gridrcb_tolerance_bits T = true.
Proof.
  intros HT. destruct (Z.ltb_spec T (2 ^ 46)) as [Hs|Hb].
  - apply thr_ok_flocq_i64_small. lia.
  - apply thr_ok_big; lia.
Qed.
(* f64 weights z * 2^-k: no unit; the thresholds are within a relative 2^-40
   (in fact 2^-46) of 0.99 / 1.01 times half the total, for every total below 2^53 *)
Theorem thr_ok_flocq_f64 k T : (k <= 1000)%nat -> (0 <= T < 2 ^ 53)%Z ->
  thr_ok_b (F64 k) gridrcb_tolerance_bits T = true.
Proof.
  intros Hk HT.
  unfold thr_ok_b. rewrite (thresholds_B (F64 k) T).
  destruct (LO_ok T k HT Hk) as (Hlf & (Hl0 & _) & _).
  destruct (HI_ok T k HT Hk) as (Hhf & Hh1 & _).
  pose proof (t_bounds T k HT Hk) as Htb.
  destruct (scaled_ok T k HT Hk) as ((Hs0 & Hs1) & Hs2 & Hs3 & Hs4).
  pose proof (ceil_cmp_spec (LO T k) (Z.of_nat k) Hlf Hl0) as Ha.
  pose proof (floor_cmp_spec (HI T k) (Z.of_nat k) Hhf ltac:(lra)) as Hb.
  assert (Ht : 0 <= IZR T < 9007199254740992)
    by (split; [apply (IZR_le 0)|apply (IZR_lt _ 9007199254740992)]; lia).
  set (t := IZR T) in *.
  set (lo := B2R (LO T k) * bpow radix2 (Z.of_nat k)) in *.
  set (hi := B2R (HI T k) * bpow radix2 (Z.of_nat k)) in *.
  set (a := ceil_cmp (Z.of_nat k) (B2SF (LO T k))) in *.
  set (b := floor_cmp (Z.of_nat k) (B2SF (HI T k))) in *.
  assert (F1 : (-1 < b)%Z) by (z_of_r; change (IZR (-1)) with (-1); lra).
  assert (F2 : (a < b + 2)%Z) by (z_of_r; lra).
  assert (F3 : (2 * a < T + 2)%Z) by (z_of_r; fold t; lra).
  assert (F4 : (T < 2 * b + 2)%Z) by (z_of_r; fold t; lra).
  assert (F5 : (1099511627776 * (100 * (T - 2 * a)) <= 1099511627777 * T)%Z)
    by (z_of_r_le; fold t; lra).
  assert (F6 : (1099511627776 * (100 * (2 * b - T)) <= 1099511627777 * T)%Z)
    by (z_of_r_le; fold t; lra).
  unfold band_ok_b. change (2 ^ 40)%Z with 1099511627776%Z.
  rewrite !andb_true_iff, !Z.leb_le. lia.
Qed.

(* ---------- Grid::rcb without the hypothesis on the thresholds ---------- *)
From Coupe Require Import Proofs.GridRcbTree Proofs.GridRcbChecker Proofs.GridRcbMain.

(* the totals covered for a weight type *)
Definition total_ok (fw : wty) (tot : Z) : Prop :=
  match fw with
  | I64 => (tot < 2 ^ 63)%Z
  | F64 k => (k <= 1000)%nat /\ (tot < 2 ^ 53)%Z
  end.

Lemma thr_ok_flocq fw t tot : total_ok fw tot -> (0 <= t <= tot)%Z ->
  thr_ok_b fw gridrcb_tolerance_bits t = true.
Proof.
  destruct fw as [|k]; cbn [total_ok].
  - intros H Ht. apply thr_ok_flocq_i64. lia.
  - intros (Hk & H) Ht. apply thr_ok_flocq_f64; [exact Hk|lia].
Qed.

Lemma gridrcb_boxes_all c : cfg_ok c -> tol_bits c = gridrcb_tolerance_bits ->
  forall fuel T fw ds ws k,
  wf_grid ds ws -> Forall (fun s => (1 <= s)%nat) ds -> Forall (fun w => (0 <= w)%Z) ws ->
  total_ok fw (sumZ ws) ->
  Forall (fun s => (s < 2 ^ fuel)%nat) ds ->
  exists ids, grid_rcb c fuel T fw ds ws k (glen ds) = Ok ids
              /\ C10_spec (bal_strong fw) (start_of c ds) ds ws k ids
              /\ C10_spec (bal_prop fw) (start_of c ds) ds ws k ids.
Proof.
  intros Hc Htol fuel T fw ds ws k Hwf Hs Hnn Hsum Hf.
  apply gridrcb_boxes; auto.
  intros t Ht. rewrite Htol. eapply thr_ok_flocq; eauto.
Qed.

(* termination of the median search without the hypothesis on the thresholds *)
Lemma median_terminates_all c : cfg_ok c -> tol_bits c = gridrcb_tolerance_bits ->
  forall (T fuel : nat) fw ws tot,
  ws <> [] -> (0 <= tot)%Z -> total_ok fw tot -> (Nat.log2 (length ws) + 1 <= fuel)%nat ->
  exists p w, weighted_median c fuel T fw ws tot = Ok (p, w).
Proof.
  intros Hc Htol T fuel fw ws tot Hne Htot Hok Hf.
  apply median_terminates_log2; auto. rewrite Htol. apply (thr_ok_flocq fw tot tot Hok). lia.
Qed.

(* the balance reading of a returned cut, for f64 weights z * 2^-k and i64 weights alike *)
Lemma median_balanced_all c : tol_bits c = gridrcb_tolerance_bits ->
  forall fuel T fw ws tot p w,
  ws <> [] -> tot = sumZ ws -> (0 <= tot)%Z -> total_ok fw tot ->
  weighted_median c fuel T fw ws tot = Ok (p, w) ->
  w = pre ws p /\ exists s, nth_opt ws p = Some s /\
  (band_of fw tot w \/ (2 * w < tot <= 2 * (w + s))%Z).
Proof.
  intros Htol fuel T fw ws tot p w Hne Htot H0 Hok Hm.
  apply (median_balanced c fuel T fw ws tot p w Hne Htot H0); auto.
  rewrite Htol. apply (thr_ok_flocq fw tot tot Hok). lia.
Qed.

(* IEEE-754 facts behind segment_to_segment, proved with Flocq 4.1
   (BinarySingleNaN): SpecFloat's subtraction / multiplication / comparison on
   valid binary64 values are Flocq's Bminus / Bmult / Bleb, hence monotone
   roundings of the real operations; the saturating cast is monotone.
   These lemmas use the real-number axioms of Coq's standard library
   (named in the trusted base of C08). *)
From Coq Require Import ZArith Reals Lia Lra Bool Floats.SpecFloat.
From Flocq Require Import Core BinarySingleNaN PrimFloat.
From Coupe Require Import Lib.SFloat Model.Hilbert.

Local Open Scope R_scope.

Local Instance Hp : Prec_gt_0 53 := eq_refl.
Local Instance Hm : Prec_lt_emax 53 1024 := eq_refl.
Local Notation bf := (binary_float 53 1024).
Local Notation validb := (valid_binary 53 1024).
Local Notation rnd := (round radix2 (SpecFloat.fexp 53 1024) ZnearestE).
Local Notation M := (bpow radix2 1024).
Local Notation finB := (@BinarySingleNaN.is_finite 53 1024).
Local Notation nanB := (@BinarySingleNaN.is_nan 53 1024).

(* ---------------------------------------------------------------- links *)
Lemma sub_link (x y : bf) : f64_sub (B2SF x) (B2SF y) = B2SF (Bminus mode_NE x y).
Proof.
  destruct x as [sx|sx| |sx mx ex Bx], y as [sy|sy| |sy my ey By];
    try reflexivity; try (cbn; destruct (Bool.eqb _ _); reflexivity).
  cbn. unfold Zminus. rewrite <- cond_Zopp_negb.
  apply (binary_normalize_equiv).
Qed.

Lemma mul_link (x y : bf) : f64_mul (B2SF x) (B2SF y) = B2SF (Bmult mode_NE x y).
Proof.
  destruct x as [sx|sx| |sx mx ex Bx], y as [sy|sy| |sy my ey By]; try reflexivity.
  cbn. rewrite B2SF_SF2B. apply binary_round_aux_equiv.
Qed.

Lemma fle_link (x y : bf) : fle (B2SF x) (B2SF y) = Bleb x y.
Proof. reflexivity. Qed.

(* --------------------------------------------- extended-real valuation *)
Definition val (x : bf) : R :=
  match x with
  | B754_infinity false => M
  | B754_infinity true => - M
  | _ => B2R x
  end.

Lemma M_pos : 0 < M.
Proof. apply bpow_gt_0. Qed.

Lemma val_finite x : finB x = true -> val x = B2R x /\ - M < B2R x < M.
Proof.
  intros Hf. split; [destruct x as [s|[|]| |s m e B]; try discriminate; reflexivity|].
  pose proof (abs_B2R_lt_emax 53 1024 x) as H. apply Rabs_lt_inv in H. lra.
Qed.

Lemma val_range x : - M <= val x <= M.
Proof.
  pose proof M_pos.
  destruct x as [s|[|]| |s m e B]; cbn [val]; try (cbn; lra).
  pose proof (abs_B2R_lt_emax 53 1024 (B754_finite s m e B)) as H1. apply Rabs_lt_inv in H1. lra.
Qed.

Lemma Bleb_val x y : nanB x = false -> nanB y = false ->
  Bleb x y = Rle_bool (val x) (val y).
Proof.
  intros Nx Ny. pose proof M_pos as MP.
  destruct (finB x) eqn:Fx, (finB y) eqn:Fy.
  - rewrite Bleb_correct by assumption.
    destruct (val_finite x Fx) as [-> _], (val_finite y Fy) as [-> _]. reflexivity.
  - destruct y as [s|[|]| |s m e B]; try discriminate.
    + (* y = -inf, x finite *)
      destruct (val_finite x Fx) as [Vx Bx]. rewrite Vx. cbn [val].
      rewrite Rle_bool_false by lra.
      destruct x as [sx|sx| |sx mx ex Bx']; try discriminate; reflexivity.
    + destruct (val_finite x Fx) as [Vx Bx]. rewrite Vx. cbn [val].
      rewrite Rle_bool_true by lra.
      destruct x as [sx|sx| |sx mx ex Bx']; try discriminate; reflexivity.
  - destruct x as [s|[|]| |s m e B]; try discriminate.
    + destruct (val_finite y Fy) as [Vy By]. rewrite Vy. cbn [val].
      rewrite Rle_bool_true by lra.
      destruct y as [sy|sy| |sy my ey By']; try discriminate; reflexivity.
    + destruct (val_finite y Fy) as [Vy By]. rewrite Vy. cbn [val].
      rewrite Rle_bool_false by lra.
      destruct y as [sy|sy| |sy my ey By']; try discriminate; reflexivity.
  - destruct x as [s|[|]| |s m e B]; try discriminate;
    destruct y as [s'|[|]| |s' m' e' B']; try discriminate; cbn [val];
      (rewrite Rle_bool_true by lra; reflexivity) || (rewrite Rle_bool_false by lra; reflexivity).
Qed.

Lemma Bleb_true_val x y : nanB x = false -> nanB y = false ->
  Bleb x y = true <-> val x <= val y.
Proof.
  intros Nx Ny. rewrite Bleb_val by assumption. split.
  - intros H. destruct (Rle_bool_spec (val x) (val y)); [assumption|discriminate].
  - apply Rle_bool_true.
Qed.

(* ------------------------------------------------ clamp o round is monotone *)
Definition clampR (r : R) : R := Rmax (- M) (Rmin M r).

Lemma clampR_mono a b : a <= b -> clampR a <= clampR b.
Proof.
  intros H. unfold clampR. apply Rle_max_compat_l, Rle_min_compat_l. assumption.
Qed.
Lemma clampR_id r : - M < r < M -> clampR r = r.
Proof. intros H. unfold clampR. rewrite Rmin_right, Rmax_right by lra. reflexivity. Qed.
Lemma clampR_hi r : M <= r -> clampR r = M.
Proof. intros H. pose proof M_pos. unfold clampR. rewrite Rmin_left, Rmax_right by lra. reflexivity. Qed.
Lemma clampR_lo r : r <= - M -> clampR r = - M.
Proof. intros H. pose proof M_pos. unfold clampR. rewrite Rmin_right, Rmax_left by lra. reflexivity. Qed.

Lemma rnd_mono a b : a <= b -> rnd a <= rnd b.
Proof. intros H. apply round_le; [apply fexp_correct; reflexivity | apply valid_rnd_N | assumption]. Qed.
Lemma rnd_0 : rnd 0 = 0.
Proof. apply round_0. apply valid_rnd_N. Qed.

Lemma Bsign_false_nonneg (x : bf) : Bsign x = false -> 0 <= B2R x.
Proof.
  destruct x as [s|s| |s m e B]; cbn; intros H; try lra.
  subst s. apply F2R_ge_0. cbn. lia.
Qed.
Lemma Bsign_true_nonpos (x : bf) : Bsign x = true -> B2R x <= 0.
Proof.
  destruct x as [s|s| |s m e B]; cbn; intros H; try lra.
  subst s. apply F2R_le_0. cbn. lia.
Qed.

Lemma fin_not_nan (x : bf) : finB x = true -> nanB x = false.
Proof. destruct x; cbn; congruence. Qed.

Lemma of_B2SF_inf (z : bf) s : B2SF z = S754_infinity s -> z = B754_infinity s.
Proof. destruct z; cbn; intros H; try discriminate. inversion H. reflexivity. Qed.

(* x - y, finite operands: never NaN; value = clamp (round (x - y)) *)
Lemma val_minus (x y : bf) : finB x = true -> finB y = true ->
  nanB (Bminus mode_NE x y) = false /\
  val (Bminus mode_NE x y) = clampR (rnd (B2R x - B2R y)).
Proof.
  intros Fx Fy. pose proof (Bminus_correct 53 1024 Hp Hm mode_NE x y Fx Fy) as H.
  cbn [round_mode] in H. pose proof M_pos as MP.
  destruct (Rlt_bool_spec (Rabs (rnd (B2R x - B2R y))) M) as [Hlt | Hge].
  - destruct H as [H1 [H2 _]]. split; [apply fin_not_nan; assumption|].
    destruct (val_finite _ H2) as [V _]. rewrite V, H1.
    symmetry. apply clampR_id. apply Rabs_lt_inv. assumption.
  - destruct H as [H1 H2]. cbn in H1. apply of_B2SF_inf in H1. rewrite H1. split; [reflexivity|].
    destruct (Bsign x) eqn:Sx.
    + assert (Sy : Bsign y = false) by (destruct (Bsign y); [discriminate | reflexivity]).
      pose proof (Bsign_true_nonpos x Sx). pose proof (Bsign_false_nonneg y Sy).
      assert (R0 : rnd (B2R x - B2R y) <= 0) by (rewrite <- rnd_0; apply rnd_mono; lra).
      rewrite Rabs_left1 in Hge by assumption. cbn [val].
      symmetry. apply clampR_lo. lra.
    + assert (Sy : Bsign y = true) by (destruct (Bsign y); [reflexivity | discriminate]).
      pose proof (Bsign_false_nonneg x Sx). pose proof (Bsign_true_nonpos y Sy).
      assert (R0 : 0 <= rnd (B2R x - B2R y)) by (rewrite <- rnd_0; apply rnd_mono; lra).
      rewrite Rabs_pos_eq in Hge by assumption. cbn [val].
      symmetry. apply clampR_hi. lra.
Qed.

(* f * a, finite operands *)
Lemma val_mult (x y : bf) : finB x = true -> finB y = true ->
  nanB (Bmult mode_NE x y) = false /\
  val (Bmult mode_NE x y) = clampR (rnd (B2R x * B2R y)).
Proof.
  intros Fx Fy. pose proof (Bmult_correct 53 1024 Hp Hm mode_NE x y) as H.
  cbn [round_mode] in H. pose proof M_pos as MP.
  destruct (Rlt_bool_spec (Rabs (rnd (B2R x * B2R y))) M) as [Hlt | Hge].
  - destruct H as [H1 [H2 _]]. rewrite Fx, Fy in H2. cbn in H2.
    split; [apply fin_not_nan; assumption|].
    destruct (val_finite _ H2) as [V _]. rewrite V, H1.
    symmetry. apply clampR_id. apply Rabs_lt_inv. assumption.
  - cbn in H. apply of_B2SF_inf in H. rewrite H. split; [reflexivity|].
    destruct (Bsign x) eqn:Sx, (Bsign y) eqn:Sy; cbn [xorb val].
    + pose proof (Bsign_true_nonpos x Sx). pose proof (Bsign_true_nonpos y Sy).
      assert (R0 : 0 <= rnd (B2R x * B2R y)) by (rewrite <- rnd_0; apply rnd_mono; nra).
      rewrite Rabs_pos_eq in Hge by assumption. symmetry. apply clampR_hi. lra.
    + pose proof (Bsign_true_nonpos x Sx). pose proof (Bsign_false_nonneg y Sy).
      assert (R0 : rnd (B2R x * B2R y) <= 0) by (rewrite <- rnd_0; apply rnd_mono; nra).
      rewrite Rabs_left1 in Hge by assumption. symmetry. apply clampR_lo. lra.
    + pose proof (Bsign_false_nonneg x Sx). pose proof (Bsign_true_nonpos y Sy).
      assert (R0 : rnd (B2R x * B2R y) <= 0) by (rewrite <- rnd_0; apply rnd_mono; nra).
      rewrite Rabs_left1 in Hge by assumption. symmetry. apply clampR_lo. lra.
    + pose proof (Bsign_false_nonneg x Sx). pose proof (Bsign_false_nonneg y Sy).
      assert (R0 : 0 <= rnd (B2R x * B2R y)) by (rewrite <- rnd_0; apply rnd_mono; nra).
      rewrite Rabs_pos_eq in Hge by assumption. symmetry. apply clampR_hi. lra.
Qed.

(* ------------------------------------------------------- the `as u64` cast *)
Definition castR (r : R) : N :=
  let z := Ztrunc r in
  if (z <? 0)%Z then 0%N else if (2 ^ 64 <=? z)%Z then (2 ^ 64 - 1)%N else Z.to_N z.

Lemma castR_mono a b : a <= b -> (castR a <= castR b)%N.
Proof.
  intros H. apply Ztrunc_le in H. unfold castR.
  destruct (Z.ltb_spec (Ztrunc a) 0), (Z.ltb_spec (Ztrunc b) 0),
    (Z.leb_spec (2 ^ 64) (Ztrunc a)), (Z.leb_spec (2 ^ 64) (Ztrunc b)); lia.
Qed.

Lemma Ztrunc_pos_F2R m e :
  Ztrunc (F2R (Float radix2 (Zpos m) e)) = if (0 <=? e)%Z then (Zpos m * 2 ^ e)%Z else (Zpos m / 2 ^ (- e))%Z.
Proof.
  assert (P : 0 <= F2R (Float radix2 (Zpos m) e)) by (apply F2R_ge_0; cbn; lia).
  rewrite Ztrunc_floor by assumption. unfold F2R. cbn [Fnum Fexp].
  destruct (Z.leb_spec 0 e) as [He | He].
  - rewrite <- IZR_Zpower by assumption. rewrite <- mult_IZR. apply Zfloor_IZR.
  - replace e with (- (- e))%Z at 1 by lia. rewrite bpow_opp.
    rewrite <- IZR_Zpower by lia.
    change (IZR (Zpos m) * / IZR (radix2 ^ (- e))) with (IZR (Zpos m) / IZR (radix2 ^ (- e))).
    apply Zfloor_div. apply Z.pow_nonzero; [discriminate | lia].
Qed.

Lemma trunc_link (x : bf) : finB x = true -> trunc_Z (B2SF x) = Some (Ztrunc (B2R x)).
Proof.
  destruct x as [s|s| |s m e B]; try discriminate; intros _.
  - cbn. rewrite Ztrunc_IZR. reflexivity.
  - cbn [B2SF trunc_Z B2R]. rewrite F2R_cond_Zopp. f_equal.
    destruct s; cbn [cond_Ropp].
    + rewrite Ztrunc_opp, Ztrunc_pos_F2R. reflexivity.
    + rewrite Ztrunc_pos_F2R. reflexivity.
Qed.

Lemma Ztrunc_M : Ztrunc M = (2 ^ 1024)%Z.
Proof. rewrite <- (IZR_Zpower radix2 1024) by lia. apply Ztrunc_IZR. Qed.

Lemma cast_link (x : bf) : nanB x = false -> cast_u64 (B2SF x) = castR (val x).
Proof.
  intros Nx. destruct x as [s|[|]| |s m e B]; try discriminate.
  - cbn. unfold castR. rewrite Ztrunc_IZR. reflexivity.
  - cbn [B2SF cast_u64 val]. unfold castR. rewrite Ztrunc_opp, Ztrunc_M. reflexivity.
  - cbn [B2SF cast_u64 val]. unfold castR. rewrite Ztrunc_M. reflexivity.
  - assert (F : finB (B754_finite s m e B) = true) by reflexivity.
    pose proof (trunc_link _ F) as T. cbn [B2SF] in T.
    cbn [B2SF cast_u64 val]. rewrite T. unfold castR. reflexivity.
Qed.

(* ------------------------------------------- multiplication by f >= 0 *)
Lemma mult_zero_cast s (x : bf) : cast_u64 (B2SF (Bmult mode_NE (B754_zero s) x)) = 0%N.
Proof. destruct x; reflexivity. Qed.

Lemma val_lt_M_cases (x : bf) : nanB x = false ->
  x = B754_infinity false \/ x = B754_infinity true \/ finB x = true.
Proof. destruct x as [s|[|]| |s m e B]; cbn; auto; discriminate. Qed.

Lemma pos_mult_mono mf ef Bf (x y : bf) :
  let f := B754_finite false mf ef Bf in
  nanB x = false -> nanB y = false -> val x <= val y ->
  nanB (Bmult mode_NE f x) = false /\ nanB (Bmult mode_NE f y) = false /\
  val (Bmult mode_NE f x) <= val (Bmult mode_NE f y).
Proof.
  intros f Nx Ny Hxy. pose proof M_pos as MP.
  assert (Ff : finB f = true) by reflexivity.
  assert (Pf : 0 < B2R f) by (apply F2R_gt_0; cbn; lia).
  destruct (val_lt_M_cases x Nx) as [Ex | [Ex | Fx]], (val_lt_M_cases y Ny) as [Ey | [Ey | Fy]]; subst.
  - repeat split; try reflexivity. lra.
  - cbn [val] in Hxy. lra.
  - destruct (val_finite y Fy) as [Vy By]. cbn [val] in Hxy. lra.
  - repeat split; try reflexivity. cbn. lra.
  - repeat split; try reflexivity. lra.
  - destruct (val_mult f y Ff Fy) as [N V]. repeat split; try assumption.
    cbn [Bmult xorb val]. apply (val_range (Bmult mode_NE f y)).
  - destruct (val_mult f x Ff Fx) as [N V]. repeat split; try assumption.
    cbn [Bmult xorb val]. apply (val_range (Bmult mode_NE f x)).
  - destruct (val_finite x Fx) as [Vx Bx]. cbn [val] in Hxy. lra.
  - destruct (val_mult f x Ff Fx) as [N1 V1], (val_mult f y Ff Fy) as [N2 V2].
    repeat split; try assumption. rewrite V1, V2.
    apply clampR_mono, rnd_mono.
    destruct (val_finite x Fx) as [Vx _], (val_finite y Fy) as [Vy _]. rewrite Vx, Vy in Hxy.
    apply Rmult_le_compat_l; lra.
Qed.

(* v |-> (f * (v - m)) as u64 is monotone, for every finite f >= 0 *)
Lemma cell_mono_B (f a b m : bf) :
  finB f = true -> Bsign f = false -> finB a = true -> finB b = true -> finB m = true ->
  Bleb a b = true ->
  (cast_u64 (B2SF (Bmult mode_NE f (Bminus mode_NE a m))) <=
   cast_u64 (B2SF (Bmult mode_NE f (Bminus mode_NE b m))))%N.
Proof.
  intros Ff Sf Fa Fb Fm Hab.
  destruct (val_minus a m Fa Fm) as [NA VA], (val_minus b m Fb Fm) as [NB VB].
  apply Bleb_true_val in Hab; try (apply fin_not_nan; assumption).
  destruct (val_finite a Fa) as [Va _], (val_finite b Fb) as [Vb _]. rewrite Va, Vb in Hab.
  assert (HAB : val (Bminus mode_NE a m) <= val (Bminus mode_NE b m)).
  { rewrite VA, VB. apply clampR_mono, rnd_mono. lra. }
  destruct f as [s|s| |s mf ef Bf]; try discriminate.
  - rewrite !mult_zero_cast. reflexivity.
  - cbn in Sf. subst s.
    destruct (pos_mult_mono mf ef Bf _ _ NA NB HAB) as [N1 [N2 V]].
    rewrite !cast_link by assumption. apply castR_mono. assumption.
Qed.

Lemma f64_mul_comm x y : f64_mul x y = f64_mul y x.
Proof.
  destruct x as [sx|sx| |sx mx ex], y as [sy|sy| |sy my ey]; cbn;
    rewrite ?(xorb_comm sx sy); try reflexivity.
  rewrite Pos.mul_comm, Z.add_comm. reflexivity.
Qed.

Lemma castR_lt r k : (0 <= k <= 63)%Z -> r < IZR (2 ^ k) -> (castR r <= 2 ^ Z.to_N k - 1)%N.
Proof.
  intros Hk Hr. unfold castR.
  assert (P : (0 < 2 ^ k)%Z) by (apply Z.pow_pos_nonneg; lia).
  assert (E : (2 ^ Z.to_N k)%N = Z.to_N (2 ^ k)).
  { apply N2Z.inj. rewrite N2Z.inj_pow, !Z2N.id by lia. reflexivity. }
  destruct (Z.ltb_spec (Ztrunc r) 0) as [Hneg | Hpos]; [lia|].
  assert (T : (Ztrunc r < 2 ^ k)%Z).
  { destruct (Rle_or_lt 0 r) as [R0 | R0].
    - rewrite Ztrunc_floor by assumption. apply lt_IZR.
      apply Rle_lt_trans with r; [apply Zfloor_lb | assumption].
    - rewrite Ztrunc_ceil by lra.
      assert (Zceil r <= 0)%Z by (apply Zceil_glb; simpl; lra). lia. }
  assert (K : (2 ^ k <= 2 ^ 63)%Z) by (apply Z.pow_le_mono_r; lia).
  destruct (Z.leb_spec (2 ^ 64) (Ztrunc r)) as [Hbig | _]; [lia|].
  rewrite E. lia.
Qed.

(* if the scaled width stays below n = 2^k, every cell of a value <= max is <= 2^k - 1 *)
Lemma cell_range_B (f a w n : bf) (k : Z) :
  finB f = true -> Bsign f = false -> nanB a = false -> nanB w = false -> val a <= val w ->
  finB n = true -> B2R n = IZR (2 ^ k) -> (0 <= k <= 63)%Z ->
  Bleb n (Bmult mode_NE f w) = false ->
  (cast_u64 (B2SF (Bmult mode_NE f a)) <= 2 ^ Z.to_N k - 1)%N.
Proof.
  intros Ff Sf Na Nw Haw Fn Vn Hk Hle.
  destruct f as [s|s| |s mf ef Bf]; try discriminate.
  - rewrite mult_zero_cast. lia.
  - cbn in Sf. subst s.
    destruct (pos_mult_mono mf ef Bf _ _ Na Nw Haw) as [N1 [N2 V]].
    rewrite cast_link by assumption.
    apply N.le_trans with (castR (val (Bmult mode_NE (B754_finite false mf ef Bf) w))).
    + apply castR_mono. assumption.
    + apply castR_lt; [assumption|].
      rewrite Bleb_val in Hle by (try assumption; apply fin_not_nan; assumption).
      destruct (val_finite n Fn) as [Vn' _]. rewrite Vn', Vn in Hle.
      destruct (Rle_bool_spec (IZR (2 ^ k)) (val (Bmult mode_NE (B754_finite false mf ef Bf) w))); [discriminate | assumption].
Qed.

(* ------------------------------------------------ SpecFloat-level statements *)
Lemma fin_SF2B x (H : validb x = true) : finB (SF2B x H) = SFloat.is_finite x.
Proof. destruct x; reflexivity. Qed.
Lemma sign_SF2B x (H : validb x = true) : Bsign (SF2B x H) = sign_of x.
Proof. destruct x; reflexivity. Qed.

Theorem sf_cell_mono (f a b m : spec_float) :
  validb f = true -> validb a = true -> validb b = true -> validb m = true ->
  SFloat.is_finite f = true -> sign_of f = false ->
  SFloat.is_finite a = true -> SFloat.is_finite b = true -> SFloat.is_finite m = true ->
  fle a b = true ->
  (cast_u64 (f64_mul f (f64_sub a m)) <= cast_u64 (f64_mul f (f64_sub b m)))%N.
Proof.
  intros Vf Va Vb Vm Ff Sf Fa Fb Fm Hab.
  rewrite <- (B2SF_SF2B 53 1024 f Vf), <- (B2SF_SF2B 53 1024 a Va), <- (B2SF_SF2B 53 1024 b Vb),
    <- (B2SF_SF2B 53 1024 m Vm) in *.
  rewrite !sub_link, !mul_link. rewrite fle_link in Hab.
  apply cell_mono_B; rewrite ?fin_SF2B, ?sign_SF2B, ?B2SF_SF2B in *; assumption.
Qed.

Theorem sf_cell_range (f v mn mx n : spec_float) (k : Z) :
  validb f = true -> validb v = true -> validb mn = true -> validb mx = true -> validb n = true ->
  SFloat.is_finite f = true -> sign_of f = false ->
  SFloat.is_finite v = true -> SFloat.is_finite mn = true -> SFloat.is_finite mx = true ->
  SFloat.is_finite n = true -> SF2R radix2 n = IZR (2 ^ k) -> (0 <= k <= 63)%Z ->
  fle v mx = true ->
  fle n (f64_mul (f64_sub mx mn) f) = false ->
  (cast_u64 (f64_mul f (f64_sub v mn)) <= 2 ^ Z.to_N k - 1)%N.
Proof.
  intros Vf Vv Vmn Vmx Vn Ff Sf Fv Fmn Fmx Fn Rn Hk Hv Hexit.
  rewrite f64_mul_comm in Hexit.
  set (Bf := SF2B f Vf). set (Bv := SF2B v Vv). set (Bmn := SF2B mn Vmn).
  set (Bmx := SF2B mx Vmx). set (Bn := SF2B n Vn).
  assert (Ff' : finB Bf = true) by (unfold Bf; rewrite fin_SF2B; assumption).
  assert (Sf' : Bsign Bf = false) by (unfold Bf; rewrite sign_SF2B; assumption).
  assert (Fv' : finB Bv = true) by (unfold Bv; rewrite fin_SF2B; assumption).
  assert (Fmn' : finB Bmn = true) by (unfold Bmn; rewrite fin_SF2B; assumption).
  assert (Fmx' : finB Bmx = true) by (unfold Bmx; rewrite fin_SF2B; assumption).
  assert (Fn' : finB Bn = true) by (unfold Bn; rewrite fin_SF2B; assumption).
  assert (Ef : f = B2SF Bf) by (symmetry; apply B2SF_SF2B).
  assert (Ev : v = B2SF Bv) by (symmetry; apply B2SF_SF2B).
  assert (Emn : mn = B2SF Bmn) by (symmetry; apply B2SF_SF2B).
  assert (Emx : mx = B2SF Bmx) by (symmetry; apply B2SF_SF2B).
  assert (En : n = B2SF Bn) by (symmetry; apply B2SF_SF2B).
  assert (Rn' : B2R Bn = IZR (2 ^ k)) by (unfold Bn; rewrite B2R_SF2B; assumption).
  clearbody Bf Bv Bmn Bmx Bn. subst f v mn mx n.
  rewrite !sub_link, !mul_link in *. rewrite fle_link in Hv, Hexit.
  destruct (val_minus Bv Bmn Fv' Fmn') as [NA VA], (val_minus Bmx Bmn Fmx' Fmn') as [NW VW].
  apply (cell_range_B Bf _ (Bminus mode_NE Bmx Bmn) Bn k); try assumption.
  rewrite VA, VW. apply clampR_mono, rnd_mono.
  apply Bleb_true_val in Hv; try (apply fin_not_nan; assumption).
  destruct (val_finite Bv Fv') as [E1 _], (val_finite Bmx Fmx') as [E2 _]. rewrite E1, E2 in Hv. lra.
Qed.

(* ArcSwap: every schedule is finite.
   Measure, lexicographic:
   P = 2 * (edge cut + W) + [some worker of the current pass has moved a vertex]
       (W = total absolute edge weight, so P >= 0): decreases at every store
       (the applied gain is >= 1) and at the end of every pass that moved;
   M = sum over the workers of mu(w) = remaining scan work + |cut stack| * A0max
       + rank(pc): decreases at every access that is not a store.  The pushes of
       the post-move re-evaluation are paid for in advance by the rank of the
       re-evaluation states, which are entered right after a store. *)
From Coupe Require Import Lib.Prelude Model.ArcSwap Proofs.ArcSwapCut Proofs.ArcSwapProto
  Proofs.ArcSwapAcct.
Open Scope Z_scope.

Section WithW.
Context {W : wops}.


Definition len {A} (l : list A) : Z := Z.of_nat (length l).

Lemma len_nonneg {A} (l : list A) : 0 <= len l.
Proof. unfold len. lia. Qed.
Lemma len_cons {A} (x : A) l : len (x :: l) = 1 + len l.
Proof. unfold len. cbn [length]. lia. Qed.
Lemma len_nil {A} : len (@nil A) = 0.
Proof. reflexivity. Qed.

Section Term.
Variable cf : config.
Let g := cf_g cf.
Let k := cf_k cf.

Definition deg (v : nat) : Z := len (row g v).
Definition K : Z := Z.of_nat k.
(* an attempt up to and including its unlock: cas, lock reads, own part, gain reads, store, unlock *)
Definition A0 (v : nat) : Z := 4 + (1 + K) * deg v.
Definition A0max : Z := 4 + sumZ (map A0 (seq 0 (length g))).
(* re-evaluation of one neighbour: its part, its gain reads, and the attempt its push may cost *)
Definition Rn (nb : nat) : Z := 1 + K * deg nb.
Definition re (todo : list (nat * Z)) : Z := sumZ (map (fun e => Rn (fst e) + A0max) todo).
(* scanning one chunk vertex: own part, neighbour parts, and the attempt its push may cost *)
Definition Sc (c : nat) : Z := 1 + deg c + A0max.
Definition scan_rest (w : worker) : Z := sumZ (map Sc (seq (S (w_cur w)) (w_end w - S (w_cur w)))).

Definition rank (cur : nat) (p : pc) : Z :=
  match p with
  | PScanOwn => Sc cur
  | PScanNbr _ todo => len todo + A0max
  | PCas v => A0 v
  | PChk v todo => len todo + 3 + K * deg v
  | POwn v => 3 + K * deg v
  | PGain v _ _ rest _ todo _ => len todo + len rest * deg v + 2
  | PStore _ _ _ _ => 2
  | PUnlock v UMoved => 1 + re (row g v)
  | PUnlock _ _ => 1
  | PReNbr _ todo => re todo
  | PReGain _ todo nb _ _ rest _ todo2 _ => len todo2 + len rest * deg nb + A0max + re todo
  | PDone => 0
  end.

Definition mu (w : worker) : Z := scan_rest w + len (w_cut w) * A0max + rank (w_cur w) (w_pc w).

Lemma deg_nonneg v : 0 <= deg v. Proof. apply len_nonneg. Qed.
Lemma K_nonneg : 0 <= K. Proof. unfold K. lia. Qed.
Lemma A0_ge4 v : 4 <= A0 v.
Proof. unfold A0. pose proof (deg_nonneg v). pose proof K_nonneg. nia. Qed.

Lemma sumZ_nonneg l : Forall (fun x => 0 <= x) l -> 0 <= sumZ l.
Proof. induction 1; [cbn; lia|]. change (sumZ (?a :: ?l)) with (a + sumZ l). lia. Qed.

Lemma sumZ_ge_member l x : Forall (fun y => 0 <= y) l -> In x l -> x <= sumZ l.
Proof.
  induction 1 as [|y l Hy Hl IH]; intros Hin; [destruct Hin|].
  change (sumZ (?a :: ?l)) with (a + sumZ l). pose proof (sumZ_nonneg _ Hl).
  destruct Hin as [->|Hin]; [lia|]. specialize (IH Hin). lia.
Qed.

Lemma A0_le_max v : A0 v <= A0max.
Proof.
  unfold A0max. set (l := map A0 (seq 0 (length g))).
  assert (Hl : Forall (fun y => 0 <= y) l).
  { apply Forall_forall. intros y Hy. apply in_map_iff in Hy as (u & <- & _). pose proof (A0_ge4 u). lia. }
  destruct (Nat.lt_ge_cases v (length g)) as [L|L].
  - assert (In (A0 v) l) by (apply in_map, in_seq; lia). pose proof (sumZ_ge_member _ _ Hl H). lia.
  - unfold A0, deg. unfold row. rewrite nth_overflow by exact L. rewrite len_nil.
    pose proof (sumZ_nonneg _ Hl). lia.
Qed.
Lemma A0max_ge4 : 4 <= A0max.
Proof. pose proof (A0_ge4 O). pose proof (A0_le_max O). lia. Qed.

Lemma re_nonneg todo : 0 <= re todo.
Proof.
  unfold re. apply sumZ_nonneg, Forall_forall. intros y Hy. apply in_map_iff in Hy as (e & <- & _).
  unfold Rn. pose proof (deg_nonneg (fst e)). pose proof K_nonneg. pose proof A0max_ge4. nia.
Qed.
Lemma re_cons e todo : re (e :: todo) = Rn (fst e) + A0max + re todo.
Proof. reflexivity. Qed.

Lemma scan_rest_nonneg w : 0 <= scan_rest w.
Proof.
  unfold scan_rest. apply sumZ_nonneg, Forall_forall. intros y Hy. apply in_map_iff in Hy as (c & <- & _).
  unfold Sc. pose proof (deg_nonneg c). pose proof A0max_ge4. lia.
Qed.

Lemma rank_nonneg cur p : 0 <= rank cur p.
Proof.
  pose proof A0max_ge4. pose proof K_nonneg.
  destruct p as [ | ip todo | v | v todo | v | v ip tg rest acc todo best | v ip tg gn | v r
                | v todo | v todo nb np tg rest acc todo2 best | ]; cbn [rank].
  - unfold Sc. pose proof (deg_nonneg cur). lia.
  - pose proof (len_nonneg todo). lia.
  - pose proof (A0_ge4 v). lia.
  - pose proof (len_nonneg todo). pose proof (deg_nonneg v). nia.
  - pose proof (deg_nonneg v). nia.
  - pose proof (len_nonneg todo). pose proof (len_nonneg rest). pose proof (deg_nonneg v). nia.
  - lia.
  - destruct r; pose proof (re_nonneg (row g v)); lia.
  - apply re_nonneg.
  - pose proof (len_nonneg rest). pose proof (len_nonneg todo2). pose proof (deg_nonneg nb).
    pose proof (re_nonneg todo). nia.
  - lia.
Qed.

Lemma mu_nonneg w : 0 <= mu w.
Proof.
  unfold mu. pose proof (scan_rest_nonneg w). pose proof (rank_nonneg (w_cur w) (w_pc w)).
  pose proof (len_nonneg (w_cut w)). pose proof A0max_ge4. nia.
Qed.

(* ---- the helper transitions ---- *)

Lemma mu_scan_next w : mu (scan_next w) = scan_rest w + len (w_cut w) * A0max.
Proof.
  unfold mu, scan_next, scan_rest. cbn [w_cur w_end w_cut w_pc].
  destruct (Nat.ltb_spec (S (w_cur w)) (w_end w)) as [L|L]; cbn [rank].
  - replace (w_end w - S (w_cur w))%nat with (S (w_end w - S (S (w_cur w))))%nat by lia.
    cbn [seq map]. change (sumZ (?a :: ?l)) with (a + sumZ l). lia.
  - replace (w_end w - S (S (w_cur w)))%nat with O by lia.
    replace (w_end w - S (w_cur w))%nat with O by lia. cbn. lia.
Qed.

Lemma mu_enter w : mu (enter_make_move w) <= scan_rest w + len (w_cut w) * A0max.
Proof.
  unfold enter_make_move. destruct (w_cut w) as [|v rest] eqn:E.
  - rewrite mu_scan_next, E. lia.
  - unfold mu, scan_rest. cbn [w_cur w_end w_cut w_pc rank]. rewrite len_cons.
    pose proof (A0_le_max v). lia.
Qed.

Lemma scan_rest_set_pc w p : scan_rest (set_pc w p) = scan_rest w. Proof. reflexivity. Qed.
Lemma scan_rest_set_md w m : scan_rest (set_md w m) = scan_rest w. Proof. reflexivity. Qed.
Lemma scan_rest_set_cut w c : scan_rest (set_cut w c) = scan_rest w. Proof. reflexivity. Qed.

Lemma mu_re_start w v todo : mu (re_start w v todo) <= scan_rest w + len (w_cut w) * A0max + re todo.
Proof.
  unfold re_start. destruct todo as [|e todo].
  - pose proof (mu_enter w). change (re []) with 0. lia.
  - unfold mu. cbn [set_pc w_cur w_cut w_pc rank]. rewrite scan_rest_set_pc. lia.
Qed.

Lemma filter_len_le {A} (f : A -> bool) l : (length (filter f l) <= length l)%nat.
Proof. induction l as [|a l IH]; cbn [filter length]; [lia|]. destruct (f a); cbn [length]; lia. Qed.

Lemma targets_len ip : len (targets k ip) <= K.
Proof.
  unfold targets, len, K. pose proof (filter_len_le (fun t => negb (Nat.eqb t ip)) (seq 0 k)) as H.
  rewrite seq_length in H. lia.
Qed.

Lemma mu_set_pc w p : mu (set_pc w p) = scan_rest w + len (w_cut w) * A0max + rank (w_cur w) p.
Proof. reflexivity. Qed.
Lemma mu_unfold w p : w_pc w = p -> mu w = scan_rest w + len (w_cut w) * A0max + rank (w_cur w) p.
Proof. intros <-. reflexivity. Qed.

Lemma decide_mu tmax w v ip b w' : decide cf tmax w v ip b = Some w' ->
  mu w' <= scan_rest w + len (w_cut w) * A0max + 2.
Proof.
  unfold decide. destruct b as [bt bg]. destruct (bg <=? 0).
  - intros [= <-]. rewrite mu_set_pc. cbn [set_md w_cut w_cur rank]. rewrite scan_rest_set_md. lia.
  - destruct (nth_opt (cf_vw cf) v), (nth_opt (w_pw w) bt), (nth_opt tmax bt); try discriminate.
    destruct (w_ltb _ _); intros [= <-]; rewrite mu_set_pc; cbn [set_md w_cut w_cur rank];
      rewrite ?scan_rest_set_md; lia.
Qed.

(* every access that is not a store strictly lowers the worker's measure *)
Lemma wstep_mu tmax locks part w locks' part' w' :
  wstep cf tmax locks part w = Some (locks', part', w') -> is_store (w_pc w) = false -> mu w' < mu w.
Proof.
  intros H Hns. unfold wstep in H.
  pose proof A0max_ge4 as HA. pose proof K_nonneg as HK.
  destruct (w_pc w) as [ | ip todo | v | v todo | v | v ip tg rest acc todo best | v ip tg gn | v r
                        | v todo | v todo nb np tg rest acc todo2 best | ] eqn:Hpc;
    rewrite (mu_unfold w _ Hpc); cbn [rank]; try discriminate.
  - (* PScanOwn *)
    destruct (nth_opt part (w_cur w)); [|discriminate]. fold g in H.
    destruct (row g (w_cur w)) as [|e r] eqn:Er; injection H as <- <- <-.
    + rewrite mu_scan_next. unfold Sc. pose proof (deg_nonneg (w_cur w)). lia.
    + rewrite mu_set_pc. cbn [rank]. unfold Sc, deg. rewrite Er. lia.
  - (* PScanNbr *)
    destruct todo as [|[u ew] todo]; [discriminate|]. rewrite len_cons. pose proof (len_nonneg todo).
    destruct (nth_opt part u); [|discriminate].
    destruct (negb _).
    + injection H as <- <- <-.
      unfold enter_make_move. cbn [set_cut w_cut]. rewrite (mu_unfold _ (PCas (w_cur w))) by reflexivity.
      cbn [w_cut w_cur rank]. pose proof (A0_le_max (w_cur w)).
      change (scan_rest _) with (scan_rest w) at 1. lia.
    + destruct todo as [|e2 todo]; injection H as <- <- <-.
      * rewrite mu_scan_next. lia.
      * rewrite mu_set_pc. cbn [rank]. lia.
  - (* PCas *)
    pose proof (A0_ge4 v).
    destruct (nth_opt locks v) as [[|]|]; [| |discriminate]; injection H as <- <- <-.
    + pose proof (mu_enter (set_md w (md_lock (w_md w)))) as He.
      rewrite scan_rest_set_md in He. cbn [set_md w_cut] in He. lia.
    + rewrite mu_set_pc. fold g. unfold A0, deg. destruct (row g v) as [|e r] eqn:Er; cbn [rank].
      * unfold deg. rewrite Er, len_nil. lia.
      * unfold deg. rewrite Er. lia.
  - (* PChk *)
    destruct todo as [|[u ew] todo]; [discriminate|]. rewrite len_cons. pose proof (len_nonneg todo).
    pose proof (deg_nonneg v).
    destruct (nth_opt locks u) as [[|]|]; [| |discriminate]; injection H as <- <- <-; rewrite mu_set_pc.
    + cbn [set_md w_cut w_cur rank]. rewrite scan_rest_set_md. nia.
    + destruct todo as [|e2 todo]; cbn [rank]; lia.
  - (* POwn *)
    pose proof (deg_nonneg v).
    destruct (nth_opt part v) as [ip|]; [|discriminate].
    pose proof (targets_len ip) as Ht. fold k in H.
    destruct (targets k ip) as [|tg rest]; [discriminate|]. rewrite len_cons in Ht. pose proof (len_nonneg rest).
    fold g in H. destruct (row g v) as [|e r] eqn:Er; injection H as <- <- <-; rewrite mu_set_pc.
    + cbn [set_md w_cut w_cur rank]. rewrite scan_rest_set_md. nia.
    + cbn [rank]. unfold deg in *. rewrite Er in *. nia.
  - (* PGain *)
    destruct todo as [|[u ew] todo]; [discriminate|]. rewrite len_cons. pose proof (len_nonneg todo).
    pose proof (deg_nonneg v). pose proof (len_nonneg rest).
    destruct (nth_opt part u); [|discriminate].
    destruct todo as [|e2 todo].
    + destruct rest as [|tg' rest'].
      * destruct (decide _ _ _ _ _ _) as [wd|] eqn:Hd; [|discriminate]. injection H as <- <- <-.
        apply decide_mu in Hd. repeat rewrite len_nil. lia.
      * injection H as <- <- <-. rewrite mu_set_pc. cbn [rank]. fold g. rewrite len_cons, len_nil.
        fold (deg v). pose proof (len_nonneg rest'). nia.
    + injection H as <- <- <-. rewrite mu_set_pc. cbn [rank]. lia.
  - (* PUnlock *)
    destruct (Nat.ltb_spec v (length locks)); [|discriminate]. injection H as <- <- <-.
    fold g. destruct r.
    + pose proof (mu_enter w). lia.
    + pose proof (mu_enter w). lia.
    + pose proof (mu_re_start w v (row g v)). lia.
  - (* PReNbr *)
    destruct todo as [|[nb ew] todo]; [discriminate|]. rewrite re_cons. cbn [fst].
    pose proof (re_nonneg todo). pose proof (deg_nonneg nb). unfold Rn.
    destruct (nth_opt part nb) as [np|]; [|discriminate].
    pose proof (targets_len np) as Ht. fold k in H.
    destruct (targets k np) as [|tg rest]; [discriminate|]. rewrite len_cons in Ht. pose proof (len_nonneg rest).
    fold g in H. destruct (row g nb) as [|e r] eqn:Er; injection H as <- <- <-.
    + pose proof (mu_re_start w v todo). nia.
    + rewrite mu_set_pc. cbn [rank]. unfold deg in *. rewrite Er in *. nia.
  - (* PReGain *)
    destruct todo2 as [|[u ew] todo2]; [discriminate|]. rewrite len_cons. pose proof (len_nonneg todo2).
    pose proof (deg_nonneg nb). pose proof (len_nonneg rest). pose proof (re_nonneg todo).
    destruct (nth_opt part u); [|discriminate].
    destruct todo2 as [|e2 todo2].
    + destruct rest as [|tg' rest']; injection H as <- <- <-.
      * repeat rewrite len_nil. destruct (0 <? _).
        -- pose proof (mu_re_start (set_cut w (nb :: w_cut w)) v todo) as Hr.
           rewrite scan_rest_set_cut in Hr. cbn [set_cut w_cut] in Hr. rewrite len_cons in Hr. lia.
        -- pose proof (mu_re_start w v todo). lia.
      * rewrite mu_set_pc. cbn [rank]. fold g. rewrite len_cons, len_nil.
        fold (deg nb). pose proof (len_nonneg rest'). nia.
    + injection H as <- <- <-. rewrite mu_set_pc. cbn [rank]. lia.
Qed.
End Term.

(* ------------------------------------------------------ the global measure *)

Definition Wtot (g : graph) : Z := sumZ (map (fun r => sumZ (map (fun e => Z.abs (snd e)) r)) g).

Lemma cut_row_lower p v r : - sumZ (map (fun e => Z.abs (snd e)) r) <= cut_row p v r.
Proof.
  unfold cut_row. induction r as [|e r IH]; cbn [map]; [cbn; lia|].
  change (sumZ (?a :: ?l)) with (a + sumZ l). destruct (_ && _); lia.
Qed.

Lemma sum_rows (F : list (nat * Z) -> Z) (g : graph) :
  sumZ (map (fun v => F (row g v)) (seq 0 (length g))) = sumZ (map F g).
Proof.
  unfold row. induction g as [|r g IH]; [reflexivity|].
  cbn [length seq map nth]. change (sumZ (?a :: ?l)) with (a + sumZ l).
  rewrite <- seq_shift, map_map. cbn [nth]. rewrite IH. reflexivity.
Qed.

Lemma cut_lower g p : - Wtot g <= cut g p.
Proof.
  unfold cut, Wtot. rewrite <- (sum_rows (fun r => sumZ (map (fun e => Z.abs (snd e)) r)) g).
  induction (seq 0 (length g)) as [|v l IH]; cbn [map]; [cbn; lia|].
  change (sumZ (?a :: ?l)) with (a + sumZ l). pose proof (cut_row_lower p v (row g v)). lia.
Qed.

Section Global.
Variable cf : config.
Let g := cf_g cf.
Hypothesis nbrs_sym : forall v u, In u (nbrs g v) -> In v (nbrs g u).
Hypothesis wt_sym : forall a b, wt g a b = wt g b a.
Hypothesis in_range : forall a u, In u (nbrs g a) -> (u < length g)%nat.
Variable p0 : list nat.
Hypothesis len_p0 : length p0 = length g.

Definition moved_flag (ws : list worker) : Z := if 0 <? sum_gain ws then 1 else 0.
Definition Pm (st : gstate) : Z := 2 * (cut g (g_part st) + Wtot g) + moved_flag (g_ws st).
Definition Mm (st : gstate) : Z := sumZ (map (mu cf) (g_ws st)).

Lemma Pm_nonneg st : 0 <= Pm st.
Proof. unfold Pm, moved_flag. pose proof (cut_lower g (g_part st)). destruct (_ <? _); lia. Qed.
Lemma Mm_nonneg st : 0 <= Mm st.
Proof.
  unfold Mm. induction (g_ws st) as [|w ws IH]; cbn [map]; [cbn; lia|].
  change (sumZ (?a :: ?l)) with (a + sumZ l). pose proof (mu_nonneg cf w). lia.
Qed.

(* the measure decreases at every step *)
Lemma step_measure st t st' : ginv cf p0 st -> step cf st t = Some st' ->
  Pm st' < Pm st \/ (Pm st' = Pm st /\ Mm st' < Mm st).
Proof.
  intros Hinv H. unfold step in H.
  destruct (g_fin st); [discriminate|].
  destruct (nth_opt (g_ws st) t) as [w|] eqn:Hw; [|discriminate].
  destruct (wstep cf _ _ _ w) as [[[locks' part'] w']|] eqn:Hstep; [|discriminate].
  pose proof (wstep_ginv cf nbrs_sym wt_sym in_range p0 len_p0 _ _ _ _ _ _ Hinv Hw Hstep) as Hinv1.
  set (st1 := mkG locks' part' (set_nth (g_ws st) t w') (g_pw st) (g_tmax st) (g_md st) false) in *.
  (* the accounting identity in both states gives the cut delta *)
  pose proof (gi_acct _ _ _ Hinv) as A0'. pose proof (gi_acct _ _ _ Hinv1) as A1. fold g in A0', A1.
  cbn [st1 g_part g_ws g_md] in A1.
  destruct (gi_pos _ _ _ Hinv) as [_ Hpos]. pose proof (sum_gain_nonneg _ Hpos) as Hsg.
  assert (Hsum : sum_gain (set_nth (g_ws st) t w') = sum_gain (g_ws st) - wgain w + wgain w').
  { unfold sum_gain. apply sumZ_map_set_nth. exact Hw. }
  assert (HM : Mm st1 = Mm st - mu cf w + mu cf w').
  { unfold Mm, st1. cbn [g_ws]. apply sumZ_map_set_nth. exact Hw. }
  assert (Hstep1 : Pm st1 < Pm st \/ (Pm st1 = Pm st /\ Mm st1 < Mm st /\ is_store (w_pc w) = false)).
  { destruct (is_store (w_pc w)) eqn:Hst.
    - left. destruct (w_pc w) as [ | | | | | | v ip tg gn | | | | ] eqn:Hpc; try discriminate Hst.
      destruct (wstep_store _ _ _ _ _ _ _ _ _ _ _ _ Hstep Hpc) as (_ & _ & Hg' & _).
      pose proof (gi_gain _ _ _ Hinv _ _ Hw) as Hgw. unfold gain_ok in Hgw. rewrite Hpc in Hgw.
      destruct Hgw as (_ & _ & _ & _ & _ & Hgpos).
      unfold Pm, moved_flag, st1. cbn [g_part g_ws].
      destruct (Z.ltb_spec 0 (sum_gain (set_nth (g_ws st) t w'))); destruct (0 <? sum_gain (g_ws st)); lia.
    - right. destruct (wstep_nonstore _ _ _ _ _ _ _ _ Hstep Hst) as (-> & Hg' & _ & _).
      pose proof (wstep_mu cf _ _ _ _ _ _ _ Hstep Hst) as Hmu.
      split; [|split; [lia|reflexivity]].
      unfold Pm, moved_flag, st1. cbn [g_part g_ws]. rewrite Hsum, Hg'.
      replace (sum_gain (g_ws st) - wgain w + wgain w) with (sum_gain (g_ws st)) by lia. reflexivity. }
  cbn [g_ws] in H. change (mkG locks' part' (set_nth (g_ws st) t w') (g_pw st) (g_tmax st) (g_md st) false) with st1 in H.
  clearbody st1.
  destruct (all_done (g_ws st1)) eqn:Hd.
  - (* the pass ends *)
    unfold end_pass in H. destruct (pass_md_gain (g_ws st1)) as [Eg _]. rewrite Eg in H.
    destruct (gi_pos _ _ _ Hinv1) as [_ Hpos1]. pose proof (sum_gain_nonneg _ Hpos1) as Hsg1.
    destruct (Z.eqb_spec (sum_gain (g_ws st1)) 0) as [E0|N0].
    + injection H as <-.
      match goal with |- Pm ?s < _ \/ _ =>
        assert (HP : Pm s = Pm st1) by (unfold Pm, moved_flag; cbn [g_part g_ws]; rewrite E0; reflexivity);
        assert (HMs : Mm s = 0) by reflexivity
      end.
      rewrite HP, HMs. pose proof (Mm_nonneg st1).
      destruct Hstep1 as [L|(E & L & _)]; [left; exact L|right]. split; [exact E|lia].
    + destruct (thread_max cf _) as [tm|]; [|discriminate]. injection H as <-. left.
      destruct (init_workers_sums cf (pw_merge (cf_tc cf) (pw_sum (cf_k cf) (g_ws st1)) (g_pw st1))) as [S1 _].
      match goal with |- Pm ?s < _ =>
        assert (HP : Pm s < Pm st1) by
          (unfold Pm, moved_flag; cbn [g_part g_ws]; rewrite S1;
           destruct (Z.ltb_spec 0 (sum_gain (g_ws st1))); [cbn; lia|lia])
      end.
      destruct Hstep1 as [L|(E & _)]; lia.
  - injection H as <-. destruct Hstep1 as [L|(E & L & _)]; [left; exact L|right; split; assumption].
Qed.

Definition step_rel (st' st : gstate) : Prop := exists t, step cf st t = Some st'.

(* every schedule from a state satisfying the invariant is finite *)
Theorem ginv_acc st : ginv cf p0 st -> Acc step_rel st.
Proof.
  assert (H : forall p m st, ginv cf p0 st -> Z.to_nat (Pm st) = p -> Z.to_nat (Mm st) = m -> Acc step_rel st).
  { induction p as [p IHp] using lt_wf_ind. induction m as [m IHm] using lt_wf_ind.
    intros st0 Hinv Hp Hm. constructor. intros st' [t Hs].
    pose proof (step_ginv cf nbrs_sym wt_sym in_range p0 len_p0 _ _ _ Hinv Hs) as Hinv'.
    pose proof (Pm_nonneg st0). pose proof (Pm_nonneg st'). pose proof (Mm_nonneg st0). pose proof (Mm_nonneg st').
    destruct (step_measure _ _ _ Hinv Hs) as [L|[E L]].
    - apply (IHp (Z.to_nat (Pm st'))) with (m := Z.to_nat (Mm st')); auto. lia.
    - apply (IHm (Z.to_nat (Mm st'))); auto; lia. }
  intros Hinv. eapply H; eauto.
Qed.
End Global.

End WithW.

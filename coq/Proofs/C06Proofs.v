(* C06: the all-equal checker is exact; canonical renaming. *)
From Coupe Require Import Lib.Prelude Lib.Report Run.RunC06.

Lemma list_eqbN_spec a b : list_eqb N.eqb a b = true <-> a = b.
Proof.
  revert b; induction a as [|x a IH]; intros [|y b]; cbn [list_eqb]; split; intros H;
    try reflexivity; try discriminate.
  - apply andb_true_iff in H as [H1 H2]. apply N.eqb_eq in H1. apply IH in H2. congruence.
  - injection H as -> ->. apply andb_true_iff. split; [apply N.eqb_refl|now apply IH].
Qed.

Lemma all_same_spec outs :
  all_same outs = true <-> (forall o1 o2, In o1 outs -> In o2 outs -> o1 = o2).
Proof.
  destruct outs as [|o rest]; cbn [all_same].
  - split; [intros _ ? ? []|reflexivity].
  - rewrite forallb_forall. split.
    + intros H o1 o2 H1 H2.
      assert (E : forall x, In x (o :: rest) -> x = o).
      { intros x [<-|Hx]; [reflexivity|]. symmetry. apply list_eqbN_spec. now apply H. }
      rewrite (E o1 H1), (E o2 H2). reflexivity.
    + intros H x Hx. apply list_eqbN_spec. apply H; [left; reflexivity|right; exact Hx].
Qed.

(* C06: the all-equal checker is exact; canonical renaming. *)
From Coupe Require Import Lib.Prelude Lib.Report Run.RunC06.

Lemma list_eqbN_spec a b : list_eqb N.eqb a b = true <-> a = b.
Proof.
  revert b; induction a as [|x a IH]; intros [|y b]; cbn [list_eqb]; split; intros H;
    try reflexivity; try discriminate.
  - apply andb_true_iff in H as [H1 H2]. apply N.eqb_eq in H1. apply IH in H2. congruence.
  - injection H as -> ->. apply andb_true_iff. split; [apply N.eqb_refl|now apply IH].
Qed.

Lemma all_same_spec outs :
  all_same outs = true <-> (forall o1 o2, In o1 outs -> In o2 outs -> o1 = o2).
Proof.
  destruct outs as [|o rest]; cbn [all_same].
  - split; [intros _ ? ? []|reflexivity].
  - rewrite forallb_forall. split.
    + intros H o1 o2 H1 H2.
      assert (E : forall x, In x (o :: rest) -> x = o).
      { intros x [<-|Hx]; [reflexivity|]. symmetry. apply list_eqbN_spec. now apply H. }
      rewrite (E o1 H1), (E o2 H2). reflexivity.
    + intros H x Hx. apply list_eqbN_spec. apply H; [left; reflexivity|right; exact Hx].
Qed.

(* ---------- canonical renaming: canon p = canon q iff p and q are equal up to a
   renaming of part ids (same kernel: positions carry equal ids in p exactly
   when they do in q) ---------- *)

Fixpoint fmap (m : list (N * N)) (next : N) (p : list N) : list (N * N) * N :=
  match p with
  | [] => (m, next)
  | x :: t =>
    match lookup m x with
    | Some _ => fmap m next t
    | None => fmap ((x, next) :: m) (next + 1) t
    end
  end.

Definition wf (m : list (N * N)) (next : N) : Prop :=
  (forall k v, lookup m k = Some v -> (v < next)%N) /\
  (forall k1 k2 v, lookup m k1 = Some v -> lookup m k2 = Some v -> k1 = k2).

Definition getv (M : list (N * N)) (x : N) : N := match lookup M x with Some v => v | None => 0%N end.

Lemma lookup_cons k v m x :
  lookup ((k, v) :: m) x = if (k =? x)%N then Some v else lookup m x.
Proof. reflexivity. Qed.

Lemma fmap_spec : forall p m next, wf m next ->
  wf (fst (fmap m next p)) (snd (fmap m next p)) /\
  (forall k v, lookup m k = Some v -> lookup (fst (fmap m next p)) k = Some v) /\
  (forall x, In x p -> exists v, lookup (fst (fmap m next p)) x = Some v) /\
  canon_aux m next p = map (getv (fst (fmap m next p))) p.
Proof.
  induction p as [|x t IH]; intros m next Hwf; cbn [fmap canon_aux map fst snd].
  - repeat split; try apply Hwf; auto. intros x [].
  - destruct (lookup m x) as [v|] eqn:E.
    + destruct (IH m next Hwf) as [H1 [H2 [H3 H4]]]. repeat split; auto; try apply H1.
      * intros y [<-|Hy]; [exists v; now apply H2|now apply H3].
      * unfold getv at 1. rewrite (H2 _ _ E). f_equal. exact H4.
    + assert (Hwf' : wf ((x, next) :: m) (next + 1)).
      { destruct Hwf as [Hlt Hinj]. split.
        - intros k v. rewrite lookup_cons. destruct (N.eqb_spec x k).
          + intros [= <-]. lia.
          + intros Hk. specialize (Hlt _ _ Hk). lia.
        - intros k1 k2 v. rewrite !lookup_cons.
          destruct (N.eqb_spec x k1), (N.eqb_spec x k2); subst; auto.
          + intros [= <-] Hk. specialize (Hlt _ _ Hk). lia.
          + intros Hk [= <-]. specialize (Hlt _ _ Hk). lia.
          + apply Hinj. }
      destruct (IH _ _ Hwf') as [H1 [H2 [H3 H4]]].
      assert (Hx : lookup (fst (fmap ((x, next) :: m) (next + 1) t)) x = Some next).
      { apply H2. rewrite lookup_cons, N.eqb_refl. reflexivity. }
      repeat split; auto; try apply H1.
      * intros k v Hk. apply H2. rewrite lookup_cons. destruct (N.eqb_spec x k); [subst; congruence|exact Hk].
      * intros y [<-|Hy]; [eauto|now apply H3].
      * unfold getv at 1. rewrite Hx. f_equal. exact H4.
Qed.

Lemma nth_opt_map {A B} (f : A -> B) l i :
  nth_opt (map f l) i = match nth_opt l i with Some x => Some (f x) | None => None end.
Proof. revert i; induction l as [|x l IH]; intros [|i]; cbn; auto. Qed.

Lemma canon_is_injective_renaming p :
  exists f : N -> N, canon p = map f p /\ (forall x y, In x p -> In y p -> f x = f y -> x = y).
Proof.
  assert (Hwf : wf [] 0) by (split; intros; discriminate).
  destruct (fmap_spec p [] 0%N Hwf) as [[_ Hinj] [_ [Hdef Hc]]].
  exists (getv (fst (fmap [] 0%N p))). split; [exact Hc|].
  intros x y Hx Hy. unfold getv.
  destruct (Hdef x Hx) as [vx Ex], (Hdef y Hy) as [vy Ey]. rewrite Ex, Ey.
  intros ->. eapply Hinj; eauto.
Qed.

(* two outputs with the same canonical form induce the same partition of the
   index set: positions i, j are in one part of p exactly when they are in one
   part of q *)
Theorem canon_same_kernel p q : canon p = canon q ->
  length p = length q /\
  forall i j x y x' y', nth_opt p i = Some x -> nth_opt p j = Some y ->
                        nth_opt q i = Some x' -> nth_opt q j = Some y' ->
                        (x = y <-> x' = y').
Proof.
  intros E.
  destruct (canon_is_injective_renaming p) as [f [Hf If]].
  destruct (canon_is_injective_renaming q) as [g [Hg Ig]].
  rewrite Hf, Hg in E. split.
  - apply (f_equal (@length N)) in E. now rewrite !map_length in E.
  - intros i j x y x' y' Hi Hj Hi' Hj'.
    assert (Ei : f x = g x').
    { apply (f_equal (fun l => nth_opt l i)) in E. rewrite !nth_opt_map, Hi, Hi' in E. congruence. }
    assert (Ej : f y = g y').
    { apply (f_equal (fun l => nth_opt l j)) in E. rewrite !nth_opt_map, Hj, Hj' in E. congruence. }
    split; intros ->.
    + apply Ig; [eapply nth_opt_In; eauto|eapply nth_opt_In; eauto|congruence].
    + apply If; [eapply nth_opt_In; eauto|eapply nth_opt_In; eauto|congruence].
Qed.

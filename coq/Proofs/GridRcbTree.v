(* Proofs about the recursion of Model/GridRcb.v: box sums and slab sums,
   the axis_weights loops compute the slab sums, recurse builds a TreeOK tree
   whose cuts satisfy the balance clause, part_of gives path codes. *)
From Coupe Require Import Lib.Prelude Lib.SFloat Model.GridRcb Proofs.GridRcbMedian.
Open Scope nat_scope.

(* ---------- finite sums ---------- *)

Definition Sum (l : list nat) (g : nat -> Z) : Z := sumZ (map g l).

Lemma Sum_nil g : Sum [] g = 0%Z. Proof. reflexivity. Qed.
Lemma Sum_cons a l g : Sum (a :: l) g = (g a + Sum l g)%Z. Proof. reflexivity. Qed.
Lemma Sum_app l1 l2 g : Sum (l1 ++ l2) g = (Sum l1 g + Sum l2 g)%Z.
Proof. unfold Sum. rewrite map_app, sumZ_app. reflexivity. Qed.
Lemma Sum_one a g : Sum [a] g = g a. Proof. unfold Sum. cbn. lia. Qed.

Lemma Sum_ext l g h : (forall a, In a l -> g a = h a) -> Sum l g = Sum l h.
Proof.
  induction l as [|a t IH]; intros H; [reflexivity|].
  rewrite !Sum_cons. rewrite (H a) by now left. rewrite IH; [reflexivity|].
  intros b Hb. apply H. now right.
Qed.

Lemma Sum_plus l g h : Sum l (fun a => g a + h a)%Z = (Sum l g + Sum l h)%Z.
Proof. induction l as [|a t IH]; [reflexivity|]. rewrite !Sum_cons, IH. lia. Qed.

Lemma Sum_zero l : Sum l (fun _ => 0%Z) = 0%Z.
Proof. induction l as [|a t IH]; [reflexivity|]. rewrite Sum_cons, IH. lia. Qed.

Lemma Sum_swap l1 l2 (g : nat -> nat -> Z) :
  Sum l1 (fun a => Sum l2 (fun b => g a b)) = Sum l2 (fun b => Sum l1 (fun a => g a b)).
Proof.
  induction l1 as [|a t IH].
  - cbn [Sum map sumZ fold_right]. symmetry. apply Sum_zero.
  - rewrite Sum_cons, IH. rewrite <- Sum_plus. apply Sum_ext. intros b _. rewrite Sum_cons. reflexivity.
Qed.

Lemma Sum_nonneg l g : (forall a, In a l -> (0 <= g a)%Z) -> (0 <= Sum l g)%Z.
Proof.
  induction l as [|a t IH]; intros H; [cbn; lia|].
  rewrite Sum_cons. assert (0 <= g a)%Z by (apply H; now left).
  assert (0 <= Sum t g)%Z by (apply IH; intros b Hb; apply H; now right). lia.
Qed.

Lemma Sum_shift off n g : Sum (seq off n) g = Sum (seq 0 n) (fun x => g (off + x)).
Proof.
  revert off g; induction n as [|n IH]; intros off g; [reflexivity|].
  cbn [seq]. rewrite !Sum_cons. rewrite Nat.add_0_r. f_equal.
  rewrite (IH (S off) g), (IH 1 (fun x => g (off + x))). apply Sum_ext. intros a _. f_equal. lia.
Qed.

(* ---------- box sums ---------- *)

Lemma box_sum_cons off n r f :
  box_sum ((off, n) :: r) f = Sum (seq off n) (fun x => box_sum r (fun p => f (x :: p))).
Proof. reflexivity. Qed.

Lemma box_sum_ext sub : forall f g, (forall p, f p = g p) -> box_sum sub f = box_sum sub g.
Proof.
  induction sub as [|[off n] r IH]; intros f g H; [apply H|].
  rewrite !box_sum_cons. apply Sum_ext. intros x _. apply IH. intros p. apply H.
Qed.

Lemma box_sum_nonneg sub : forall f, (forall p, (0 <= f p)%Z) -> (0 <= box_sum sub f)%Z.
Proof.
  induction sub as [|[off n] r IH]; intros f H; [apply H|].
  rewrite box_sum_cons. apply Sum_nonneg. intros x _. apply IH. intros p. apply H.
Qed.

Lemma set_nth_set_nth {A} (l : list A) c v v' : set_nth (set_nth l c v) c v' = set_nth l c v'.
Proof. revert c; induction l as [|x t IH]; intros [|c]; cbn [set_nth]; auto. f_equal. apply IH. Qed.

Lemma set_nth_same {A} (l : list A) c v : nth_opt l c = Some v -> set_nth l c v = l.
Proof.
  revert c; induction l as [|x t IH]; intros [|c]; cbn [set_nth nth_opt]; intros H; try discriminate.
  - injection H as ->. reflexivity.
  - f_equal. apply IH. exact H.
Qed.

(* splitting the range of axis c *)
Lemma box_sum_split sub : forall c f off n1 n2,
  nth_opt sub c = Some (off, n1 + n2) ->
  box_sum sub f = (box_sum (set_nth sub c (off, n1)) f + box_sum (set_nth sub c ((off + n1)%nat, n2)) f)%Z.
Proof.
  induction sub as [|[o n] r IH]; intros c f off n1 n2 H; [destruct c; discriminate|].
  destruct c as [|c]; cbn [nth_opt set_nth] in *.
  - injection H as -> ->. rewrite !box_sum_cons. rewrite seq_app, Sum_app. reflexivity.
  - rewrite !box_sum_cons. rewrite <- Sum_plus. apply Sum_ext. intros x _.
    apply IH. exact H.
Qed.

Lemma box_sum_empty sub : forall c f off, nth_opt sub c = Some (off, 0) -> box_sum sub f = 0%Z.
Proof.
  induction sub as [|[o n] r IH]; intros c f off H; [destruct c; discriminate|].
  destruct c as [|c]; cbn [nth_opt] in H.
  - injection H as -> ->. reflexivity.
  - rewrite box_sum_cons. rewrite <- (Sum_zero (seq o n)). apply Sum_ext. intros x _. eapply IH. exact H.
Qed.

(* a box is the disjoint union of its slabs along any axis: prefix form *)
Lemma box_sum_prefix sub c f off size : nth_opt sub c = Some (off, size) ->
  forall j, j <= size ->
  box_sum (set_nth sub c (off, j)) f = Sum (seq off j) (slab f sub c).
Proof.
  intros H. induction j as [|j IH]; intros Hj.
  - rewrite Sum_nil. apply (box_sum_empty _ c f off). apply nth_opt_set_nth_same.
    apply nth_opt_Some in H. exact H.
  - rewrite seq_S, Sum_app, Sum_one, <- IH by lia.
    rewrite (box_sum_split (set_nth sub c (off, S j)) c f off j 1).
    + rewrite !set_nth_set_nth. reflexivity.
    + rewrite nth_opt_set_nth_same by (apply nth_opt_Some in H; exact H). f_equal. f_equal. lia.
Qed.

Lemma box_sum_slabs sub c f off size : nth_opt sub c = Some (off, size) ->
  box_sum sub f = Sum (seq off size) (slab f sub c).
Proof.
  intros H. rewrite <- (box_sum_prefix sub c f off size H size (le_n _)).
  rewrite set_nth_same; auto.
Qed.

Lemma pre_map_slab f sub c off size j : j <= size ->
  pre (map (slab f sub c) (seq off size)) j = Sum (seq off j) (slab f sub c).
Proof.
  intros Hj. unfold pre, Sum. rewrite firstn_map. f_equal. f_equal.
  replace size with (j + (size - j)) by lia. rewrite seq_app, firstn_app, seq_length.
  rewrite Nat.sub_diag, firstn_O, app_nil_r. apply firstn_all2. rewrite seq_length. lia.
Qed.

(* ---------- result-monad helpers ---------- *)

Lemma sum_res_ok {A} (f : A -> res Z) (g : A -> Z) l :
  (forall a, In a l -> f a = Ok (g a)) -> sum_res f l = Ok (sumZ (map g l)).
Proof.
  induction l as [|a t IH]; intros H; [reflexivity|].
  cbn [sum_res map]. rewrite (H a) by now left. cbn [bind].
  rewrite IH by (intros b Hb; apply H; now right). reflexivity.
Qed.

Lemma map_res_ok {A B} (f : A -> res B) (g : A -> B) l :
  (forall a, In a l -> f a = Ok (g a)) -> map_res f l = Ok (map g l).
Proof.
  induction l as [|a t IH]; intros H; [reflexivity|].
  cbn [map_res map]. rewrite (H a) by now left. cbn [bind].
  rewrite IH by (intros b Hb; apply H; now right). reflexivity.
Qed.

Lemma map_res_inv {A B} (f : A -> res B) l r :
  map_res f l = Ok r ->
  length r = length l /\
  forall i a, nth_opt l i = Some a -> exists b, f a = Ok b /\ nth_opt r i = Some b.
Proof.
  revert r; induction l as [|a t IH]; intros r H; cbn [map_res] in H.
  - injection H as <-. split; [reflexivity|]. intros [|i] a0 Hn; discriminate.
  - destruct (f a) as [b| | |] eqn:Ef; cbn [bind] in H; try discriminate.
    destruct (map_res f t) as [r'| | |] eqn:Er; cbn [bind] in H; try discriminate.
    injection H as <-. destruct (IH r' eq_refl) as (Hl & Hn). split; [cbn; lia|].
    intros [|i] a0 Ha; cbn [nth_opt] in *.
    + injection Ha as <-. eauto.
    + apply Hn. exact Ha.
Qed.

(* ---------- the grid ---------- *)

(* the box lies inside the grid, one (offset,size) pair per side *)
Definition sub_ok (ds : list nat) (sub : subgrid) : Prop :=
  Forall2 (fun s os => fst os + snd os <= s) ds sub.

Lemma sub_ok_length ds sub : sub_ok ds sub -> length sub = length ds.
Proof. unfold sub_ok. induction 1; cbn [length]; auto. Qed.

Lemma sub_ok_full ds : sub_ok ds (into_subgrid ds).
Proof. unfold sub_ok, into_subgrid. induction ds; cbn; constructor; cbn; auto. Qed.

Lemma sub_ok_set ds sub c off size o' s' :
  sub_ok ds sub -> nth_opt sub c = Some (off, size) -> o' + s' <= off + size ->
  sub_ok ds (set_nth sub c (o', s')).
Proof.
  unfold sub_ok. intros H. revert c. induction H as [|s [o n] ds' sub' Hh Ht IH]; intros c Hn Hle.
  - destruct c; discriminate.
  - destruct c as [|c]; cbn [nth_opt set_nth] in *.
    + injection Hn as -> ->. constructor; auto. cbn [fst snd] in *. lia.
    + constructor; auto.
Qed.

Definition wf_grid (ds : list nat) (ws : list Z) : Prop :=
  (length ds = 2 \/ length ds = 3) /\ length ws = glen ds.

Lemma wat_ok2 w h ws x y : length ws = glen [w; h] -> x < w -> y < h ->
  exists v, wat [w; h] ws [x; y] = Ok v /\ nth_opt ws (x + w * y) = Some v.
Proof.
  intros Hl Hx Hy. unfold wat. cbn [index_of bind].
  assert (Hi : x + w * y < length ws) by (rewrite Hl; cbn [glen fold_right]; nia).
  destruct (nth_opt_lt ws _ Hi) as (v & Hv). rewrite Hv. eauto.
Qed.

Lemma wat_ok3 w h d ws x y z : length ws = glen [w; h; d] -> x < w -> y < h -> z < d ->
  exists v, wat [w; h; d] ws [x; y; z] = Ok v /\ nth_opt ws (x + w * (y + h * z)) = Some v.
Proof.
  intros Hl Hx Hy Hz. unfold wat. cbn [index_of bind].
  assert (Hi : x + w * (y + h * z) < length ws).
  { rewrite Hl. cbn [glen fold_right]. assert (y + h * z < h * d) by nia. nia. }
  destruct (nth_opt_lt ws _ Hi) as (v & Hv). rewrite Hv. eauto.
Qed.

Lemma wat_wfun ds ws pos v : wat ds ws pos = Ok v -> wat ds ws pos = Ok (wfun ds ws pos).
Proof. intros H. unfold wfun. rewrite H. reflexivity. Qed.

Lemma in_seq_lt off n x : In x (seq off n) -> off <= x < off + n.
Proof. intros H. apply in_seq in H. lia. Qed.

(* the loop nests of recurse_2d / recurse_3d compute the slab sums of the box *)
Lemma axis_weights_slabs ds ws sub c off size :
  wf_grid ds ws -> sub_ok ds sub -> nth_opt sub c = Some (off, size) ->
  axis_weights ds ws sub c = Ok (map (slab (wfun ds ws) sub c) (seq off size)).
Proof.
  intros (HD & Hlen) Hsub Hc.
  destruct HD as [HD|HD].
  - (* 2-D *)
    destruct ds as [|w [|h [|? ?]]]; try discriminate.
    inversion Hsub as [|? [o0 n0] ? ? H0 Hsub']; subst.
    inversion Hsub' as [|? [o1 n1] ? ? H1 Hsub'']; subst. inversion Hsub''; subst.
    cbn [fst snd] in *.
    unfold axis_weights, axis. cbn [nth_opt bind].
    assert (Hw : forall x y, In x (seq o0 n0) -> In y (seq o1 n1) ->
                 wat [w; h] ws [x; y] = Ok (wfun [w; h] ws [x; y])).
    { intros x y Hx Hy. apply in_seq_lt in Hx. apply in_seq_lt in Hy.
      destruct (wat_ok2 w h ws x y Hlen) as (v & Hv & _); try lia. eapply wat_wfun; eauto. }
    destruct c as [|[|c]]; cbn [nth_opt] in Hc; try discriminate; injection Hc as <- <-; cbn [Nat.eqb].
    + apply map_res_ok. intros x Hx.
      rewrite (sum_res_ok _ (fun y => wfun [w; h] ws [x; y])) by (intros y Hy; apply Hw; auto).
      f_equal. unfold slab. cbn [set_nth]. rewrite box_sum_cons. cbn [seq]. rewrite Sum_one.
      rewrite box_sum_cons. unfold Sum. f_equal.
    + apply map_res_ok. intros y Hy.
      rewrite (sum_res_ok _ (fun x => wfun [w; h] ws [x; y])) by (intros x Hx; apply Hw; auto).
      f_equal. unfold slab. cbn [set_nth]. rewrite box_sum_cons. unfold Sum at 1. f_equal.
      apply map_ext. intros x. rewrite box_sum_cons. cbn [seq]. rewrite Sum_one. reflexivity.
  - (* 3-D *)
    destruct ds as [|w [|h [|d [|? ?]]]]; try discriminate.
    inversion Hsub as [|? [o0 n0] ? ? H0 Hsub']; subst.
    inversion Hsub' as [|? [o1 n1] ? ? H1 Hsub'']; subst.
    inversion Hsub'' as [|? [o2 n2] ? ? H2 Hsub''']; subst. inversion Hsub'''; subst.
    cbn [fst snd] in *.
    unfold axis_weights, axis. cbn [nth_opt bind].
    assert (Hw : forall x y z, In x (seq o0 n0) -> In y (seq o1 n1) -> In z (seq o2 n2) ->
                 wat [w; h; d] ws [x; y; z] = Ok (wfun [w; h; d] ws [x; y; z])).
    { intros x y z Hx Hy Hz. apply in_seq_lt in Hx. apply in_seq_lt in Hy. apply in_seq_lt in Hz.
      destruct (wat_ok3 w h d ws x y z Hlen) as (v & Hv & _); try lia. eapply wat_wfun; eauto. }
    destruct c as [|[|[|c]]]; cbn [nth_opt] in Hc; try discriminate; injection Hc as <- <-; cbn [Nat.eqb].
    + apply map_res_ok. intros x Hx.
      rewrite (sum_res_ok _ (fun y => Sum (seq o2 n2) (fun z => wfun [w; h; d] ws [x; y; z]))).
      2:{ intros y Hy. apply sum_res_ok. intros z Hz. apply Hw; auto. }
      f_equal. unfold slab. cbn [set_nth]. rewrite box_sum_cons. cbn [seq]. rewrite Sum_one.
      reflexivity.
    + apply map_res_ok. intros y Hy.
      rewrite (sum_res_ok _ (fun z => Sum (seq o0 n0) (fun x => wfun [w; h; d] ws [x; y; z]))).
      2:{ intros z Hz. apply sum_res_ok. intros x Hx. apply Hw; auto. }
      f_equal. unfold slab. cbn [set_nth]. rewrite box_sum_cons.
      change (sumZ (map ?g ?l)) with (Sum l g). rewrite Sum_swap.
      apply Sum_ext. intros x _. rewrite box_sum_cons. cbn [seq]. rewrite Sum_one.
      rewrite box_sum_cons. reflexivity.
    + apply map_res_ok. intros z Hz.
      rewrite (sum_res_ok _ (fun x => Sum (seq o1 n1) (fun y => wfun [w; h; d] ws [x; y; z]))).
      2:{ intros x Hx. apply sum_res_ok. intros y Hy. apply Hw; auto. }
      f_equal. unfold slab. cbn [set_nth]. rewrite box_sum_cons.
      refine (Sum_ext (seq o0 n0) _ _ _). intros x _. rewrite box_sum_cons. apply Sum_ext. intros y _.
      rewrite box_sum_cons. cbn [seq]. rewrite Sum_one. reflexivity.
Qed.

(* ---------- recurse builds a balanced bisection tree ---------- *)

Lemma nth_opt_map_seq {B} (g : nat -> B) n : forall off p, p < n ->
  nth_opt (map g (seq off n)) p = Some (g (off + p)).
Proof.
  induction n as [|n IH]; intros off p Hp; [lia|].
  cbn [seq map]. destruct p as [|p]; cbn [nth_opt].
  - f_equal. f_equal. lia.
  - rewrite IH by lia. f_equal. f_equal. lia.
Qed.

Lemma nth_opt_in {A} (l : list A) i x : nth_opt l i = Some x -> In x l.
Proof.
  revert i; induction l as [|y t IH]; intros [|i] H; cbn [nth_opt] in H; try discriminate.
  - injection H as ->. now left.
  - right. eapply IH; eauto.
Qed.

Lemma wfun_nonneg ds ws : Forall (fun w => (0 <= w)%Z) ws -> forall pos, (0 <= wfun ds ws pos)%Z.
Proof.
  intros Hnn pos. unfold wfun, wat. destruct (index_of ds pos) as [i| | |]; cbn [bind]; try lia.
  destruct (nth_opt ws i) as [w|] eqn:E; try lia.
  rewrite Forall_forall in Hnn. apply Hnn. eapply nth_opt_in; eauto.
Qed.

Lemma nth_opt_Forall2 {A B} (R : A -> B -> Prop) la lb c b :
  Forall2 R la lb -> nth_opt lb c = Some b -> exists a, nth_opt la c = Some a /\ R a b.
Proof.
  intros H. revert c. induction H as [|x y la' lb' Hxy Ht IH]; intros c Hc; [destruct c; discriminate|].
  destruct c as [|c]; cbn [nth_opt] in *.
  - injection Hc as ->. eauto.
  - apply IH. exact Hc.
Qed.

Section Recurse.
  Variables (c : cfg) (fuel T : nat) (fw : wty) (ds : list nat) (ws : list Z) (W : Z).
  Hypothesis Hwf : wf_grid ds ws.
  Hypothesis Hnn : Forall (fun w => (0 <= w)%Z) ws.
  Hypothesis Hcc : 2 <= min_chunks c.
  Hypothesis Hcs : min_chunk_size c = 1.
  Hypothesis Hthr : forall t, (0 <= t <= W)%Z -> thr_ok_b fw (tol_bits c) t = true.
  Hypothesis Hfuel : Forall (fun s => s < 2 ^ fuel) ds.

  Let f := wfun ds ws.
  Let D := length ds.

  Lemma recurse_ok : forall k sub tot coord,
    sub_ok ds sub -> coord < D -> tot = box_sum sub f -> (tot <= W)%Z ->
    exists t, recurse c fuel T fw ds ws sub tot k coord = Ok t
              /\ TreeOK D f (bal_strong fw) k coord sub t.
  Proof.
    induction k as [|k IH]; intros sub tot coord Hsub Hco Htot HW.
    - assert (Hl := sub_ok_length _ _ Hsub).
      destruct (nth_opt_lt sub coord ltac:(fold D in Hl; lia)) as ((off & size) & Hn).
      cbn [recurse]. rewrite Hn. eexists. split; [reflexivity|]. constructor.
    - assert (Hl := sub_ok_length _ _ Hsub).
      destruct (nth_opt_lt sub coord ltac:(fold D in Hl; lia)) as ((off & size) & Hn).
      cbn [recurse]. rewrite Hn.
      destruct (Nat.eqb_spec size 0) as [->|Hsz].
      { eexists. split; [reflexivity|]. eapply T_leaf_empty. exact Hn. }
      rewrite (axis_weights_slabs ds ws sub coord off size Hwf Hsub Hn). cbn [bind]. fold f.
      set (aw := map (slab f sub coord) (seq off size)).
      assert (Hawl : length aw = size) by (unfold aw; rewrite map_length, seq_length; reflexivity).
      assert (Hawne : aw <> []) by (intros E; rewrite E in Hawl; cbn in Hawl; lia).
      assert (Hsum : tot = sumZ aw).
      { rewrite Htot. rewrite (box_sum_slabs sub coord f off size Hn). reflexivity. }
      assert (Hf0 : forall p, (0 <= f p)%Z) by (apply wfun_nonneg; exact Hnn).
      assert (Htot0 : (0 <= tot)%Z) by (rewrite Htot; apply box_sum_nonneg; exact Hf0).
      destruct (thresholds fw (tol_bits c) tot) as [mn mx] eqn:Ethr.
      pose proof (Hthr tot ltac:(lia)) as Hok.
      destruct (thr_ok_b_spec _ _ _ _ _ Ethr Hok) as ((H0 & H1 & _) & _).
      (* the side bounds the axis length *)
      destruct (nth_opt_Forall2 _ _ _ _ _ Hsub Hn) as (s & Hs & Hle). cbn [fst snd] in Hle.
      assert (Hsf : s < 2 ^ fuel).
      { rewrite Forall_forall in Hfuel. apply Hfuel. eapply nth_opt_in; eauto. }
      destruct (weighted_median_total c fuel T fw aw tot mn mx Ethr H0 H1 Hawne Hcc Hcs ltac:(lia))
        as (p & w & Hmed).
      rewrite Hmed. cbn [bind].
      pose proof (weighted_median_spec c fuel T fw aw tot mn mx p w Ethr H0 H1 Hawne Hmed) as Hpost.
      destruct (median_post_balanced fw (tol_bits c) aw tot mn mx p w Ethr Hok Hsum Htot0 Hpost)
        as (sr & Hsr & Hbal).
      destruct Hpost as (Hp & Hw & _). rewrite Hawl in Hp.
      unfold aw in Hsr. rewrite nth_opt_map_seq in Hsr by exact Hp. injection Hsr as <-.
      unfold aw in Hw. rewrite pre_map_slab in Hw by lia.
      rewrite <- (box_sum_prefix sub coord f off size Hn p ltac:(lia)) in Hw.
      destruct (Nat.ltb_spec (p + off) off) as [|_]; [lia|].
      replace (p + off - off) with p by lia.
      destruct (Nat.ltb_spec size p) as [|_]; [lia|]. cbn [orb].
      (* the two halves *)
      pose proof (box_sum_split sub coord f off p (size - p)
                    ltac:(rewrite Hn; f_equal; f_equal; lia)) as Hsplit.
      assert (Hhi0 : (0 <= box_sum (set_nth sub coord ((off + p)%nat, (size - p)%nat)) f)%Z)
        by (apply box_sum_nonneg; exact Hf0).
      assert (Hlo0 : (0 <= w)%Z) by (rewrite Hw; apply box_sum_nonneg; exact Hf0).
      assert (Hnc : S coord mod length ds < D).
      { apply Nat.mod_upper_bound. fold D. lia. }
      destruct (IH (set_nth sub coord (off, p)) w (S coord mod length ds)) as (l & Hl1 & Hl2); auto.
      { eapply sub_ok_set; eauto. lia. }
      { lia. }
      destruct (IH (set_nth sub coord (p + off, size - p)) (tot - w)%Z (S coord mod length ds))
        as (r & Hr1 & Hr2); auto.
      { eapply sub_ok_set; eauto. lia. }
      { replace (p + off) with (off + p) by lia. lia. }
      { lia. }
      rewrite Hl1, Hr1. cbn [bind]. eexists. split; [reflexivity|].
      eapply (T_node D f (bal_strong fw) k coord sub off size (p + off) l r Hn Hsz); try lia.
      + unfold node_bal. replace (p + off - off) with p by lia.
        rewrite <- Hw, <- Htot. replace (p + off) with (off + p) by lia. exact Hbal.
      + replace (p + off - off) with p by lia. exact Hl2.
      + replace (p + off - off) with p by lia. exact Hr2.
  Qed.
End Recurse.

(* ---------- part_of ---------- *)

Lemma part_of_total D t : forall pos coord id, 0 < D -> length pos = D -> coord < D ->
  exists q, part_of D t pos coord id = Ok q.
Proof.
  induction t as [|p l IHl r IHr]; intros pos coord id HD Hlen Hc; cbn [part_of]; [eauto|].
  destruct (nth_opt_lt pos coord ltac:(lia)) as (x & Hx). rewrite Hx.
  assert (S coord mod D < D) by (apply Nat.mod_upper_bound; lia).
  destruct (Nat.ltb x p); [apply IHl|apply IHr]; auto.
Qed.

(* ids are path codes: below (id+1) * 2^depth *)
Lemma part_of_bound D f bal k c sub t : TreeOK D f bal k c sub t ->
  forall pos coord id q, part_of D t pos coord id = Ok q -> (q < (id + 1) * 2 ^ N.of_nat k)%N.
Proof.
  induction 1 as [c sub|d c sub off Hn|d c sub off size p l r Hn Hsz Hp Hb Hl IHl Hr IHr];
    intros pos coord id q Hq; cbn [part_of] in Hq.
  - injection Hq as <-. cbn. lia.
  - injection Hq as <-. assert (0 < 2 ^ N.of_nat d)%N by (apply N.neq_0_lt_0, N.pow_nonzero; lia). nia.
  - rewrite Nat2N.inj_succ, N.pow_succ_r'.
    destruct (nth_opt pos coord) as [x|]; [|discriminate].
    destruct (Nat.ltb x p).
    + apply IHl in Hq. nia.
    + apply IHr in Hq. nia.
Qed.

(* ---------- position_of / index_of ---------- *)

Lemma position_of_ok ds i : (length ds = 2 \/ length ds = 3) -> Forall (fun s => 1 <= s) ds ->
  i < glen ds ->
  exists pos, position_of ds i = Ok pos /\ in_box (into_subgrid ds) pos /\ index_of ds pos = Ok i
              /\ length pos = length ds.
Proof.
  intros [HD|HD] Hs Hi.
  - destruct ds as [|w [|h [|? ?]]]; try discriminate.
    inversion Hs as [|? ? Hw Hs']; subst. inversion Hs' as [|? ? Hh _]; subst.
    cbn [glen fold_right] in Hi. rewrite Nat.mul_1_r in Hi.
    eexists. split; [reflexivity|].
    assert (i mod w < w) by (apply Nat.mod_upper_bound; lia).
    assert (i / w < h) by (apply Nat.div_lt_upper_bound; lia).
    split; [|split; [|reflexivity]].
    + unfold in_box, into_subgrid. cbn [map]. repeat constructor; cbn [fst snd]; lia.
    + cbn [index_of]. f_equal. pose proof (Nat.div_mod i w ltac:(lia)). lia.
  - destruct ds as [|w [|h [|d [|? ?]]]]; try discriminate.
    inversion Hs as [|? ? Hw Hs']; subst. inversion Hs' as [|? ? Hh Hs'']; subst.
    inversion Hs'' as [|? ? Hd _]; subst.
    cbn [glen fold_right] in Hi. rewrite Nat.mul_1_r in Hi.
    eexists. split; [reflexivity|].
    assert (i mod w < w) by (apply Nat.mod_upper_bound; lia).
    assert (i / w < h * d) by (apply Nat.div_lt_upper_bound; lia).
    assert ((i / w) mod h < h) by (apply Nat.mod_upper_bound; lia).
    assert (i / w / h < d) by (apply Nat.div_lt_upper_bound; lia).
    split; [|split; [|reflexivity]].
    + unfold in_box, into_subgrid. cbn [map]. repeat constructor; cbn [fst snd]; lia.
    + cbn [index_of]. f_equal. pose proof (Nat.div_mod i w ltac:(lia)).
      pose proof (Nat.div_mod (i / w) h ltac:(lia)). nia.
Qed.

(* ---------- the total weight is the weight of the whole grid ---------- *)

Lemma sumZ_nth (l : list Z) : sumZ l = Sum (seq 0 (length l)) (fun i => nth i l 0%Z).
Proof.
  induction l as [|x t IH]; [reflexivity|].
  cbn [length seq]. rewrite Sum_cons, sumZ_cons. cbn [nth]. f_equal.
  rewrite IH, (Sum_shift 1). apply Sum_ext. intros a _. reflexivity.
Qed.

Lemma sum_rows (g : nat -> Z) w h :
  Sum (seq 0 (w * h)) g = Sum (seq 0 h) (fun y => Sum (seq 0 w) (fun x => g (x + w * y))).
Proof.
  induction h as [|h IH].
  - rewrite Nat.mul_0_r. reflexivity.
  - rewrite Nat.mul_succ_r, seq_app, Sum_app, IH, seq_S, Sum_app, Sum_one. f_equal.
    cbn [Nat.add]. rewrite Sum_shift. apply Sum_ext. intros x _. f_equal. lia.
Qed.

Lemma nth_opt_nth (l : list Z) i v : nth_opt l i = Some v -> nth i l 0%Z = v.
Proof.
  revert i; induction l as [|x t IH]; intros [|i] H; cbn [nth_opt nth] in *; try discriminate.
  - injection H as ->. reflexivity.
  - apply IH. exact H.
Qed.

Lemma total_is_box_sum ds ws : wf_grid ds ws ->
  sumZ ws = box_sum (into_subgrid ds) (wfun ds ws).
Proof.
  intros ([HD|HD] & Hlen).
  - destruct ds as [|w [|h [|? ?]]]; try discriminate.
    rewrite sumZ_nth, Hlen. cbn [glen fold_right]. rewrite Nat.mul_1_r, sum_rows, Sum_swap.
    unfold into_subgrid. cbn [map]. rewrite box_sum_cons. apply Sum_ext. intros x Hx.
    rewrite box_sum_cons. apply Sum_ext. intros y Hy. cbn [box_sum].
    apply in_seq_lt in Hx. apply in_seq_lt in Hy.
    destruct (wat_ok2 w h ws x y Hlen) as (v & Hv & Hn); try lia.
    unfold wfun. rewrite Hv. apply nth_opt_nth. exact Hn.
  - destruct ds as [|w [|h [|d [|? ?]]]]; try discriminate.
    rewrite sumZ_nth, Hlen. cbn [glen fold_right]. rewrite Nat.mul_1_r, sum_rows, Sum_swap.
    unfold into_subgrid. cbn [map]. rewrite box_sum_cons. apply Sum_ext. intros x Hx.
    rewrite (sum_rows (fun r => nth (x + w * r) ws 0%Z) h d), Sum_swap.
    rewrite box_sum_cons. apply Sum_ext. intros y Hy.
    rewrite box_sum_cons. apply Sum_ext. intros z Hz. cbn [box_sum].
    apply in_seq_lt in Hx. apply in_seq_lt in Hy. apply in_seq_lt in Hz.
    destruct (wat_ok3 w h d ws x y z Hlen) as (v & Hv & Hn); try lia.
    unfold wfun. rewrite Hv. apply nth_opt_nth. exact Hn.
Qed.

(* ---------- Grid::rcb ---------- *)

Definition start_of (c : cfg) (ds : list nat) : nat :=
  if Nat.eqb (length ds) 2 then start_rec2 c else start_rec3 c.

Definition cfg_ok (c : cfg) : Prop :=
  2 <= min_chunks c /\ min_chunk_size c = 1
  /\ start_rec2 c = start_po2 c /\ start_rec3 c = start_po3 c
  /\ start_rec2 c < 2 /\ start_rec3 c < 3.

Lemma nth_opt_seq n : forall off i, i < n -> nth_opt (seq off n) i = Some (off + i).
Proof.
  induction n as [|n IH]; intros off i Hi; [lia|].
  cbn [seq]. destruct i as [|i]; cbn [nth_opt]; [f_equal; lia|].
  rewrite IH by lia. f_equal. lia.
Qed.

Theorem grid_rcb_ok c fuel T fw ds ws k :
  cfg_ok c -> wf_grid ds ws -> Forall (fun s => 1 <= s) ds ->
  Forall (fun w => (0 <= w)%Z) ws ->
  (forall t, (0 <= t <= sumZ ws)%Z -> thr_ok_b fw (tol_bits c) t = true) ->
  Forall (fun s => s < 2 ^ fuel) ds ->
  exists ids, grid_rcb c fuel T fw ds ws k (glen ds) = Ok ids
              /\ C10_spec (bal_strong fw) (start_of c ds) ds ws k ids.
Proof.
  intros (Hcc & Hcs & He2 & He3 & Hs2 & Hs3) Hwf Hsides Hnn Hthr Hfuel.
  pose proof Hwf as (HD & Hlen).
  unfold grid_rcb.
  assert (Hex : existsb (Nat.eqb 0) ds = false).
  { apply not_true_is_false. intros E. apply existsb_exists in E as (s & Hin & Es).
    apply Nat.eqb_eq in Es. subst s. rewrite Forall_forall in Hsides. apply Hsides in Hin. lia. }
  rewrite Hex.
  set (s := start_of c ds).
  assert (Hst : (match length ds with
                 | 2 => Some (start_rec2 c, start_po2 c)
                 | 3 => Some (start_rec3 c, start_po3 c)
                 | _ => None end) = Some (s, s) /\ s < length ds).
  { unfold s, start_of. destruct HD as [HD|HD]; rewrite HD; cbn [Nat.eqb]; split; try lia.
    - rewrite <- He2. reflexivity.
    - rewrite <- He3. reflexivity. }
  destruct Hst as (Hst & Hslt). rewrite Hst.
  destruct (recurse_ok c fuel T fw ds ws (sumZ ws) Hwf Hnn Hcc Hcs Hthr Hfuel k
              (into_subgrid ds) (sumZ ws) s (sub_ok_full ds) Hslt
              (total_is_box_sum ds ws Hwf) ltac:(lia)) as (t & Ht & Htree).
  rewrite Ht. cbn [bind].
  assert (HD0 : 0 < length ds) by lia.
  (* every cell gets an id *)
  assert (Hcell : forall i, i < glen ds -> exists pos q,
             position_of ds i = Ok pos /\ in_box (into_subgrid ds) pos /\ index_of ds pos = Ok i
             /\ part_of (length ds) t pos s 0%N = Ok q).
  { intros i Hi. destruct (position_of_ok ds i HD Hsides Hi) as (pos & Hp & Hb & Hix & Hpl).
    destruct (part_of_total (length ds) t pos s 0%N HD0 Hpl Hslt) as (q & Hq).
    exists pos, q. auto. }
  destruct (map_res (fun i => bind (position_of ds i) (fun pos => part_of (length ds) t pos s 0%N))
                    (seq 0 (glen ds))) as [ids| | |] eqn:Emap.
  2-4: exfalso.
  2-4: assert (Hall : forall i, In i (seq 0 (glen ds)) ->
          exists q, bind (position_of ds i) (fun pos => part_of (length ds) t pos s 0%N) = Ok q)
    by (intros i Hi; apply in_seq_lt in Hi; destruct (Hcell i ltac:(lia)) as (pos & q & Hp & _ & _ & Hq);
        exists q; rewrite Hp; exact Hq).
  2-4: clear - Emap Hall; revert Emap Hall; generalize (seq 0 (glen ds)); intros l;
    induction l as [|a l' IH]; intros Emap Hall; cbn [map_res] in Emap; [discriminate|];
    destruct (Hall a ltac:(now left)) as (q & Hq); rewrite Hq in Emap; cbn [bind] in Emap;
    destruct (map_res _ l') eqn:E'; cbn [bind] in Emap; try discriminate;
    apply IH; auto; intros i Hi; apply Hall; now right.
  exists ids. split; [reflexivity|].
  destruct (map_res_inv _ _ _ Emap) as (Hl & Hnth). rewrite seq_length in Hl.
  unfold C10_spec. split; [exact Hl|]. split.
  - (* ids below 2^k *)
    apply Forall_forall. intros q Hin.
    apply In_nth_error in Hin as (i & Hi).
    assert (Hil : i < glen ds) by (rewrite <- Hl; apply nth_error_Some; congruence).
    destruct (Hnth i i) as (q' & Hq' & Hn'); [rewrite nth_opt_seq; auto|].
    destruct (Hcell i Hil) as (pos & q'' & Hp & _ & _ & Hq''). rewrite Hp in Hq'. cbn [bind] in Hq'.
    assert (q' = q).
    { clear - Hn' Hi. revert i Hn' Hi. induction ids as [|y t' IH]; intros [|i] H1 H2;
        cbn [nth_opt nth_error] in *; try discriminate; [congruence|eauto]. }
    subst q'. apply (part_of_bound _ _ _ _ _ _ _ Htree) in Hq'. lia.
  - exists t. split; [exact Htree|].
    intros i Hi. destruct (Hcell i Hi) as (pos & q & Hp & Hb & Hix & Hq).
    exists pos, q. repeat split; auto.
    destruct (Hnth i i) as (q' & Hq' & Hn'); [rewrite nth_opt_seq; auto|].
    rewrite Hp in Hq'. cbn [bind] in Hq'. congruence.
Qed.

(* ArcSwap, stage 3: the weight caps (integer weights).
   Every worker keeps its thread-local copy of a part weight below
   max(weight at pass start, thread_max); thread_max leaves each of the
   [thread_count] workers at most a 1/thread_count share of the headroom, and
   the true load is the pass-start weight plus the workers' deltas.  Hence at
   every reachable state every part weighs at most max(input weight, cap). *)
From Coupe Require Import Lib.Prelude Model.ArcSwap Proofs.ArcSwapCut Proofs.ArcSwapProto Proofs.ArcSwapAcct.
Open Scope Z_scope.

Definition nz (l : list Z) (q : nat) : Z := nth q l 0.

Lemma nz_nth_opt l q x : nth_opt l q = Some x -> nz l q = x.
Proof.
  unfold nz. revert q. induction l as [|y l IH]; intros [|q]; cbn; intros H; try discriminate.
  - now injection H. - now apply IH.
Qed.

Lemma nz_set_nth l i x q : (i < length l)%nat -> nz (set_nth l i x) q = if Nat.eqb q i then x else nz l q.
Proof.
  unfold nz. revert i q. induction l as [|y l IH]; intros i q Hi; [cbn in Hi; lia|].
  destruct i as [|i], q as [|q]; cbn [set_nth nth Nat.eqb]; try reflexivity.
  apply IH. cbn in Hi. lia.
Qed.

Lemma load_set_nth vw p v x q wv : nth_opt vw v = Some wv -> (v < length p)%nat ->
  load vw (set_nth p v x) q
  = load vw p q - (if Nat.eqb (pid p v) q then wv else 0) + (if Nat.eqb x q then wv else 0).
Proof.
  unfold pid. revert p v. induction vw as [|w vw IH]; intros p v Hv Hl; [destruct v; discriminate|].
  destruct p as [|y p]; [cbn in Hl; lia|].
  destruct v as [|v]; cbn [nth_opt set_nth load nth] in *.
  - injection Hv as ->. destruct (Nat.eqb y q), (Nat.eqb x q); lia.
  - cbn [length] in Hl. rewrite (IH p v Hv) by lia. lia.
Qed.

Lemma sum_le_bound {A} (f : A -> Z) B l : Forall (fun a => f a <= B) l -> sumZ (map f l) <= Z.of_nat (length l) * B.
Proof.
  induction 1 as [|a l Ha _ IH]; [cbn; lia|].
  cbn [map length]. change (sumZ (?a :: ?l)) with (a + sumZ l). lia.
Qed.

Lemma vec_add_spec a b k : length a = k -> length b = k ->
  length (vec_add a b) = k /\ forall q, nz (vec_add a b) q = nz a q + nz b q.
Proof.
  revert b k. induction a as [|x a IH]; intros [|y b] k Ha Hb; cbn in *; try (subst; discriminate).
  - split; [assumption|]. intros q. unfold nz. destruct q; reflexivity.
  - destruct k as [|k]; [discriminate|]. destruct (IH b k) as [L N]; try lia.
    split; [cbn; lia|]. intros [|q]; [reflexivity|]. apply N.
Qed.

Lemma nz_repeat0 k q : nz (repeat 0 k) q = 0.
Proof. unfold nz. revert q. induction k as [|k IH]; intros [|q]; cbn; auto. Qed.

Lemma pw_sum_spec k ws : Forall (fun w => length (w_pw w) = k) ws ->
  length (pw_sum k ws) = k /\ forall q, nz (pw_sum k ws) q = sumZ (map (fun w => nz (w_pw w) q) ws).
Proof.
  unfold pw_sum. induction 1 as [|w ws Hw _ [L N]]; cbn [fold_right map].
  - split; [apply repeat_length|]. intros q. rewrite nz_repeat0. reflexivity.
  - destruct (vec_add_spec _ _ k L Hw) as [L' N']. split; [exact L'|].
    intros q. rewrite N', N. change (sumZ (?a :: ?l)) with (a + sumZ l). lia.
Qed.

Lemma pw_merge_spec tc s pw k : length s = k -> length pw = k ->
  length (pw_merge tc s pw) = k /\ forall q, (q < k)%nat -> nz (pw_merge tc s pw) q = nz s q - (Z.of_nat tc - 1) * nz pw q.
Proof.
  revert pw k. induction s as [|x s IH]; intros [|y pw] k Hs Hp; cbn in *; try (subst; discriminate).
  - split; [assumption|]. intros q Hq. lia.
  - destruct k as [|k]; [discriminate|]. destruct (IH pw k) as [L N]; try lia.
    split; [cbn; lia|]. intros [|q] Hq; [reflexivity|]. apply N. lia.
Qed.

Lemma thread_max_spec cf pw tm : thread_max cf pw = Some tm ->
  length tm = length pw /\
  forall q, (q < length pw)%nat -> exists h, cf_hr cf (cf_cap cf - nz pw q) (cf_tc cf) = Some h /\ nz tm q = nz pw q + h.
Proof.
  revert tm. induction pw as [|x pw IH]; intros tm H; cbn [thread_max] in H.
  - injection H as <-. split; [reflexivity|]. cbn. intros; lia.
  - destruct (cf_hr cf _ _) as [h|] eqn:Eh; [|discriminate].
    destruct (thread_max cf pw) as [r|]; [|discriminate]. injection H as <-.
    destruct (IH r eq_refl) as [L N]. split; [cbn; lia|].
    intros [|q] Hq; [exists h; auto|]. apply N. cbn in Hq. lia.
Qed.

Lemma nz_loads vw p k q : (q < k)%nat -> nz (loads vw p k) q = load vw p q.
Proof.
  intros Hq. unfold nz, loads.
  rewrite (nth_indep _ 0 (load vw p O)) by (rewrite map_length, seq_length; exact Hq).
  rewrite map_nth, seq_nth by exact Hq. reflexivity.
Qed.

(* on i64 weights the loads of the machine are the loads of the specification *)
Lemma wload_Z vw p q : wload vw p q = load vw p q.
Proof.
  revert p. induction vw as [|w vw IH]; intros [|x p]; cbn [wload load]; try reflexivity.
  rewrite IH. reflexivity.
Qed.
Lemma wloads_Z vw p k : wloads vw p k = loads vw p k.
Proof. unfold wloads, loads. apply map_ext. intros q. apply wload_Z. Qed.

Lemma load_bounds vw p q : Forall (fun x => 0 <= x) vw -> 0 <= load vw p q <= sumZ vw.
Proof.
  intros H. revert p. induction H as [|w vw Hw _ IH]; intros p; [cbn; lia|].
  change (sumZ (w :: vw)) with (w + sumZ vw). destruct p as [|x p]; cbn [load].
  - pose proof (IH []). destruct vw; cbn [load] in *; lia.
  - specialize (IH p). destruct (Nat.eqb x q); lia.
Qed.

Section Caps.
Variable cf : config.
Let g := cf_g cf.
Let k := cf_k cf.
Let vw := cf_vw cf.
Let tc := cf_tc cf.
Hypothesis nbrs_sym : forall v u, In u (nbrs g v) -> In v (nbrs g u).
Hypothesis wt_sym : forall a b, wt g a b = wt g b a.
Hypothesis in_range : forall a u, In u (nbrs g a) -> (u < length g)%nat.
Hypothesis vw_nonneg : Forall (fun x => 0 <= x) vw.
(* what the caps need from the headroom division: never more than a 1/tc share, never a
   positive share of a negative headroom *)
(* what the caps need from the headroom division, on the operands that arise (cap minus the load
   of a part): never more than a 1/tc share plus [slack] in total, never a positive share of a
   negative headroom.  slack = 0 for the exact quotient; slack > 0 accounts for the f64 roundings above 2^53 *)
Variable slack : Z.
Hypothesis slack_nonneg : 0 <= slack.
Hypothesis hr_spec : forall d h, cf_cap cf - sumZ vw <= d <= cf_cap cf -> cf_hr cf d tc = Some h ->
  (0 <= d -> 0 <= h /\ Z.of_nat tc * h <= d + slack) /\ (d <= 0 -> h <= 0).
Variable p0 : list nat.
Hypothesis len_p0 : length p0 = length g.
Hypothesis ids_p0 : Forall (fun x => (x < k)%nat) p0.

Definition cap_ok (tmax : list Z) (w : worker) : Prop :=
  match w_pc w with
  | PStore v ip tg gn => exists wv, nth_opt vw v = Some wv /\ wv + nz (w_pw w) tg <= nz tmax tg
  | _ => True
  end.

Lemma wstep_cap_ok tmax locks part w locks' part' w' :
  wstep cf tmax locks part w = Some (locks', part', w') -> cap_ok tmax w'.
Proof.
  intros H.
  assert (Hnot : is_store (w_pc w') = false -> cap_ok tmax w').
  { unfold cap_ok. destruct (w_pc w'); cbn; intros; auto; discriminate. }
  destruct (w_pc w) as [ | ip todo | v | v todo | v | v ip tg rest acc todo best | v ip tg gn | v r
                        | v todo | v todo nb np tg rest acc todo2 best | ] eqn:Hpc.
  6: { unfold wstep in H. rewrite Hpc in H.
    destruct todo as [|[u ew] todo]; [discriminate|].
    destruct (nth_opt part u) as [pu|]; [|discriminate].
    destruct todo as [|e2 todo]; [|injection H as <- <- <-; apply Hnot; reflexivity].
    destruct rest as [|tg' rest']; [|injection H as <- <- <-; apply Hnot; reflexivity].
    destruct (decide _ _ _ _ _ _) as [wd|] eqn:Hd; [|discriminate]. injection H as <- <- <-.
    destruct (upd_best _ _ _) as [bt bg].
    apply decide_spec in Hd as (_ & _ & Hpw & [Hu | (Hs & _ & wv & pwt & mx & E1 & E2 & E3 & Hle)]).
    - apply Hnot. now rewrite Hu.
    - unfold cap_ok. rewrite Hs. exists wv. split; [exact E1|].
      rewrite Hpw. apply nz_nth_opt in E2, E3. cbn in Hle. apply Z.ltb_ge in Hle. lia. }
  all: apply Hnot.
  all: wstep_inv H; try discriminate.
  all: injection H as <- <- <-; cbn [set_pc w_pc is_store]; auto.
  all: try solve [match goal with |- is_store (w_pc ?x) = false =>
         assert (E : is_eval (w_pc x) = false) by (apply scan_next_loc || apply enter_loc || apply re_start_loc);
         destruct (w_pc x); cbn in *; auto; discriminate end].
Qed.

Definition sum_d (q : nat) (pw : list Z) (ws : list worker) : Z :=
  sumZ (map (fun w => nz (w_pw w) q - nz pw q) ws).

Record cinv (st : gstate) : Prop := {
  ci_lpw : length (g_pw st) = k;
  ci_tmax : g_fin st = false -> thread_max cf (g_pw st) = Some (g_tmax st);
  ci_lw : Forall (fun w => length (w_pw w) = k) (g_ws st);
  ci_cap : Forall (cap_ok (g_tmax st)) (g_ws st);
  ci_loc : Forall (fun w => forall q, (q < k)%nat ->
             nz (w_pw w) q <= Z.max (nz (g_pw st) q) (nz (g_tmax st) q)) (g_ws st);
  ci_load : forall q, (q < k)%nat -> load vw (g_part st) q = nz (g_pw st) q + sum_d q (g_pw st) (g_ws st);
  ci_nw : g_fin st = false -> length (g_ws st) = tc;
  ci_fin : g_fin st = true -> g_ws st = [];
  ci_range : forall q, (q < k)%nat -> 0 <= nz (g_pw st) q <= sumZ vw;
  ci_bound : forall q, (q < k)%nat -> nz (g_pw st) q <= Z.max (load vw p0 q) (cf_cap cf + slack)
}.

(* the conclusion: every part is below max(input weight, cap) *)
Lemma cinv_caps st : cinv st -> forall q, (q < k)%nat ->
  load vw (g_part st) q <= Z.max (load vw p0 q) (cf_cap cf + slack).
Proof.
  intros [Hlpw Htm Hlw Hcap Hloc Hload Hnw Hfin Hrg Hb] q Hq.
  rewrite (Hload q Hq). specialize (Hb q Hq).
  destruct (g_fin st) eqn:Ef.
  - rewrite (Hfin eq_refl). unfold sum_d. cbn. lia.
  - specialize (Htm eq_refl). specialize (Hnw eq_refl).
    destruct (thread_max_spec _ _ _ Htm) as [_ Hspec].
    destruct (Hspec q) as (h & Hh & Hnz); [rewrite Hlpw; exact Hq|].
    assert (Hrange : cf_cap cf - sumZ vw <= cf_cap cf - nz (g_pw st) q <= cf_cap cf) by (specialize (Hrg q Hq); lia).
    destruct (hr_spec _ _ Hrange Hh) as [Hp Hn].
    assert (Hd : sum_d q (g_pw st) (g_ws st) <= Z.of_nat (length (g_ws st)) * Z.max 0 h).
    { unfold sum_d. apply sum_le_bound. eapply Forall_impl; [|exact Hloc].
      intros w Hw. cbn beta in Hw. specialize (Hw q Hq). lia. }
    rewrite Hnw in Hd.
    destruct (Z.le_ge_cases 0 (cf_cap cf - nz (g_pw st) q)) as [C|C].
    + destruct (Hp C) as [H1 H2]. rewrite Z.max_r in Hd by lia. lia.
    + specialize (Hn C). rewrite Z.max_l in Hd by lia. lia.
Qed.

Lemma Forall_set_nth_inv {A} (P : A -> Prop) l t y x : Forall P l -> nth_opt l t = Some x -> P y -> Forall P (set_nth l t y).
Proof. intros. now apply Forall_set_nth. Qed.

Lemma wstep_cinv st t w locks' part' w' :
  g_fin st = false -> cinv st -> ginv cf p0 st -> nth_opt (g_ws st) t = Some w ->
  wstep cf (g_tmax st) (g_locks st) (g_part st) w = Some (locks', part', w') ->
  cinv (mkG locks' part' (set_nth (g_ws st) t w') (g_pw st) (g_tmax st) (g_md st) false).
Proof.
  intros Hnf [Hlpw Htm Hlw Hcap Hloc Hload Hnw Hfin Hrg Hb] Hg Hw Hstep.
  pose proof (wstep_cap_ok _ _ _ _ _ _ _ Hstep) as Hcap'.
  pose proof (Forall_nth_opt _ _ _ _ Hlw Hw) as Hlen_w. cbn beta in Hlen_w.
  pose proof (Forall_nth_opt _ _ _ _ Hloc Hw) as Hloc_w. cbn beta in Hloc_w.
  destruct (is_store (w_pc w)) eqn:Hst.
  - destruct (w_pc w) as [ | | | | | | v ip tg gn | | | | ] eqn:Hpc; try discriminate Hst.
    destruct (wstep_store _ _ _ _ _ _ _ _ _ _ _ _ Hstep Hpc)
      as (-> & Hv & _ & _ & Hpc' & wv & a & b & Ewv & Ea & Eb & Epw).
    cbn [w_sub w_add wops_Z] in Eb, Epw.
    pose proof (gi_gain _ _ _ Hg _ _ Hw) as Hgw. unfold gain_ok in Hgw. rewrite Hpc in Hgw.
    destruct Hgw as (Hip & _ & Htg & Htk & _ & _).
    pose proof (Forall_nth_opt _ _ _ _ Hcap Hw) as Hcw. unfold cap_ok in Hcw. rewrite Hpc in Hcw.
    destruct Hcw as (wv' & Ewv' & Hle). fold vw in Ewv. rewrite Ewv in Ewv'. injection Ewv' as <-.
    assert (Hwv : 0 <= wv) by (eapply (Forall_nth_opt _ _ _ _ vw_nonneg); eauto).
    assert (Hipk : (ip < k)%nat).
    { apply nth_opt_Some in Ea. now rewrite Hlen_w in Ea. }
    assert (Hl1 : length (set_nth (w_pw w) ip (a - wv)) = k) by now rewrite set_nth_length.
    assert (Ea' : nz (w_pw w) ip = a) by now apply nz_nth_opt.
    assert (Eb' : nz (w_pw w) tg = b).
    { apply nz_nth_opt in Eb. rewrite nz_set_nth in Eb by (rewrite Hlen_w; exact Hipk).
      apply Nat.eqb_neq in Htg. now rewrite Htg in Eb. }
    assert (Hnz : forall q, nz (w_pw w') q = nz (w_pw w) q
                    - (if Nat.eqb ip q then wv else 0) + (if Nat.eqb tg q then wv else 0)).
    { intros q. rewrite Epw, nz_set_nth by (rewrite Hl1; exact Htk).
      rewrite nz_set_nth by (rewrite Hlen_w; exact Hipk).
      rewrite (Nat.eqb_sym tg q), (Nat.eqb_sym ip q).
      destruct (Nat.eqb_spec q tg) as [E1|N1]; destruct (Nat.eqb_spec q ip) as [E2|N2]; subst; try lia; congruence. }
    split; cbn [g_locks g_part g_ws g_md g_pw g_tmax g_fin]; auto.
    + apply Forall_set_nth; auto. cbn beta. rewrite Epw, set_nth_length. exact Hl1.
    + apply Forall_set_nth; auto.
    + apply Forall_set_nth; auto. cbn beta. intros q Hq. rewrite Hnz. specialize (Hloc_w q Hq).
      destruct (Nat.eqb_spec ip q) as [E2|N2]; destruct (Nat.eqb_spec tg q) as [E1|N1]; try lia; try congruence.
      subst q. lia.
    + intros q Hq. rewrite (load_set_nth _ _ _ _ _ _ Ewv Hv), (Hload q Hq). unfold sum_d.
      rewrite (sumZ_map_set_nth _ _ _ _ _ Hw). rewrite Hnz, Hip. lia.
    + intros _. rewrite set_nth_length. auto.
    + discriminate.
  - destruct (wstep_nonstore _ _ _ _ _ _ _ _ Hstep Hst) as (-> & _ & _ & Epw).
    split; cbn [g_locks g_part g_ws g_md g_pw g_tmax g_fin]; auto.
    + apply Forall_set_nth; auto. cbn beta. now rewrite Epw.
    + apply Forall_set_nth; auto.
    + apply Forall_set_nth; auto. cbn beta. now rewrite Epw.
    + intros q Hq. rewrite (Hload q Hq). unfold sum_d. rewrite (sumZ_map_set_nth _ _ _ _ _ Hw), Epw. lia.
    + intros _. rewrite set_nth_length. auto.
    + discriminate.
Qed.

Lemma sum_d_const q pw ws : Forall (fun w => w_pw w = pw) ws -> sum_d q pw ws = 0.
Proof.
  unfold sum_d. induction 1 as [|w ws Hw _ IH]; [reflexivity|].
  cbn [map]. change (sumZ (?a :: ?l)) with (a + sumZ l). rewrite IH, Hw. lia.
Qed.

Lemma init_workers_Forall (P : worker -> Prop) pw :
  (forall w, w_pc w = PScanOwn -> w_md w = md_zero -> w_pw w = pw -> P w) -> Forall P (init_workers cf pw).
Proof.
  intros H. apply Forall_forall. intros w Hin.
  apply In_nth_error in Hin as [i Hi]. unfold init_workers in Hi.
  rewrite nth_error_map in Hi. destruct (nth_error _ i); cbn in Hi; [|discriminate].
  injection Hi as <-. apply H; reflexivity.
Qed.

Lemma sum_d_split q pw ws :
  sum_d q pw ws = sumZ (map (fun w => nz (w_pw w) q) ws) - Z.of_nat (length ws) * nz pw q.
Proof.
  unfold sum_d. induction ws as [|w ws IH]; [cbn; lia|].
  cbn [map length]. change (sumZ (?a :: ?l)) with (a + sumZ l). rewrite IH. lia.
Qed.

(* what the merge computes at the end of a pass: the true loads *)
Lemma merged_pw_loads st : g_fin st = false -> cinv st ->
  length (pw_merge (cf_tc cf) (pw_sum (cf_k cf) (g_ws st)) (g_pw st)) = k /\
  forall q, (q < k)%nat ->
    nz (pw_merge (cf_tc cf) (pw_sum (cf_k cf) (g_ws st)) (g_pw st)) q = load vw (g_part st) q.
Proof.
  intros Hnf [Hlpw Htm Hlw Hcap Hloc Hload Hnw Hfin Hrg Hb].
  destruct (pw_sum_spec k _ Hlw) as [Ls Ns].
  destruct (pw_merge_spec (cf_tc cf) _ _ k Ls Hlpw) as [Lm Nm].
  split; [exact Lm|].
  intros q Hq. change (pw_sum (cf_k cf) (g_ws st)) with (pw_sum k (g_ws st)).
  rewrite (Nm q Hq), Ns, (Hload q Hq), sum_d_split, (Hnw Hnf). fold tc. lia.
Qed.

Lemma end_pass_cinv st st' : g_fin st = false -> cinv st -> end_pass cf st = Some st' -> cinv st'.
Proof.
  intros Hnf Hc H. pose proof (cinv_caps _ Hc) as Hcaps.
  destruct Hc as [Hlpw Htm Hlw Hcap Hloc Hload Hnw Hfin Hrg Hb].
  unfold end_pass in H.
  set (pw' := pw_merge (cf_tc cf) (pw_sum (cf_k cf) (g_ws st)) (g_pw st)) in *.
  destruct (pw_sum_spec k _ Hlw) as [Ls Ns].
  destruct (pw_merge_spec (cf_tc cf) _ _ k Ls Hlpw) as [Lm Nm].
  change (pw_merge (cf_tc cf) (pw_sum k (g_ws st)) (g_pw st)) with pw' in Lm, Nm.
  assert (Hpw' : forall q, (q < k)%nat -> nz pw' q = load vw (g_part st) q).
  { intros q Hq. rewrite (Nm q Hq), Ns, (Hload q Hq), sum_d_split, (Hnw Hnf). fold tc. lia. }
  assert (Hb' : forall q, (q < k)%nat -> nz pw' q <= Z.max (load vw p0 q) (cf_cap cf + slack)).
  { intros q Hq. rewrite (Hpw' q Hq). now apply Hcaps. }
  assert (Hrg' : forall q, (q < k)%nat -> 0 <= nz pw' q <= sumZ vw).
  { intros q Hq. rewrite (Hpw' q Hq). now apply load_bounds. }
  destruct (_ =? 0).
  - injection H as <-. split; cbn [g_locks g_part g_ws g_md g_pw g_tmax g_fin]; auto; try discriminate.
    intros q Hq. rewrite (Hpw' q Hq). unfold sum_d. cbn. lia.
  - destruct (thread_max cf pw') as [tm|] eqn:Et; [|discriminate]. injection H as <-.
    split; cbn [g_locks g_part g_ws g_md g_pw g_tmax g_fin]; auto; try discriminate.
    + apply init_workers_Forall. intros w _ _ ->. exact Lm.
    + apply init_workers_Forall. intros w Hpc _ _. unfold cap_ok. now rewrite Hpc.
    + apply init_workers_Forall. intros w _ _ -> q Hq. lia.
    + intros q Hq. rewrite sum_d_const; [rewrite (Hpw' q Hq); lia|].
      apply init_workers_Forall. auto.
    + intros _. unfold init_workers. now rewrite map_length, seq_length.
Qed.

Lemma step_cinv st t st' : cinv st -> ginv cf p0 st -> step cf st t = Some st' -> cinv st'.
Proof.
  intros Hc Hg H. unfold step in H.
  destruct (g_fin st) eqn:Hnf; [discriminate|].
  destruct (nth_opt (g_ws st) t) as [w|] eqn:Hw; [|discriminate].
  destruct (wstep cf _ _ _ w) as [[[locks' part'] w']|] eqn:Hstep; [|discriminate].
  pose proof (wstep_cinv _ _ _ _ _ _ Hnf Hc Hg Hw Hstep) as Hc'.
  destruct (all_done _).
  - eapply end_pass_cinv; [|exact Hc'|exact H]. reflexivity.
  - now injection H as <-.
Qed.

Lemma init_cinv st0 : init_state cf p0 = Some st0 -> cinv st0.
Proof.
  unfold init_state. rewrite wloads_Z. fold vw k.
  destruct (thread_max cf (loads vw p0 k)) as [tm|] eqn:Et; [|discriminate]. intros [= <-].
  assert (Ll : length (loads vw p0 k) = k) by (unfold loads; now rewrite map_length, seq_length).
  split; cbn [g_locks g_part g_ws g_md g_pw g_tmax g_fin]; auto; try discriminate.
  - apply init_workers_Forall. intros w _ _ ->. exact Ll.
  - apply init_workers_Forall. intros w Hpc _ _. unfold cap_ok. now rewrite Hpc.
  - apply init_workers_Forall. intros w _ _ -> q Hq. lia.
  - intros q Hq. rewrite sum_d_const; [rewrite nz_loads by exact Hq; lia|].
    apply init_workers_Forall. auto.
  - intros _. unfold init_workers. now rewrite map_length, seq_length.
  - intros q Hq. rewrite nz_loads by exact Hq. now apply load_bounds.
  - intros q Hq. rewrite nz_loads by exact Hq. lia.
Qed.

(* both invariants along any schedule *)
Lemma run_inv sch : forall st st', ginv cf p0 st -> cinv st -> run cf st sch = Some st' ->
  ginv cf p0 st' /\ cinv st'.
Proof.
  induction sch as [|t sch IH]; intros st st' Hg Hc H; cbn [run] in H.
  - injection H as <-. auto.
  - destruct (step cf st t) as [st1|] eqn:Hs; [|discriminate].
    eapply IH; [| |exact H].
    + eapply step_ginv; eauto.
    + eapply step_cinv; eauto.
Qed.
End Caps.

(* Proofs about Model/Greedy.v: Greedy is an LPT run, LPT's multiset of loads
   does not depend on which lightest part is chosen, ids are below the part
   count, no panic, checker correctness. *)
From Coupe Require Import Lib.Prelude Model.NumPart Model.Greedy Proofs.NumPartLemmas.
From Coq Require Import Permutation.
Open Scope Z_scope.

(* ---------- the scan is an LPT run ---------- *)

Lemma greedy_loop_lpt : forall its pw p p' pw',
  greedy_loop its pw p = Ok (p', pw') -> lpt_run (wts its) pw pw'.
Proof.
  induction its as [|[w id] t IH]; intros pw p p' pw' H; cbn [greedy_loop wts map fst] in *.
  - injection H as <- <-. constructor.
  - destruct (argmin_last pw) as [m|] eqn:Em; [|discriminate].
    destruct (Nat.ltb id (length p)); [|discriminate].
    destruct (argmin_last_spec _ _ Em) as [lm [Hlm Hmin]]. rewrite Hlm in H.
    eapply lpt_give; eauto.
Qed.

(* lengths, written ids, untouched ids *)
Lemma greedy_loop_facts : forall its pw p p' pw',
  greedy_loop its pw p = Ok (p', pw') ->
  length p' = length p /\ length pw' = length pw
  /\ (forall i, In i (ids its) -> exists x, nth_opt p' i = Some x /\ (x < N.of_nat (length pw))%N)
  /\ (forall i, ~ In i (ids its) -> nth_opt p' i = nth_opt p i).
Proof.
  induction its as [|[w id] t IH]; intros pw p p' pw' H; cbn [greedy_loop ids map snd] in *.
  - injection H as <- <-. repeat split; auto. intros i [].
  - destruct (argmin_last pw) as [m|] eqn:Em; [|discriminate].
    destruct (Nat.ltb id (length p)) eqn:Eid; [|discriminate]. apply Nat.ltb_lt in Eid.
    destruct (argmin_last_spec _ _ Em) as [lm [Hlm _]]. rewrite Hlm in H.
    apply IH in H as [L1 [L2 [Hin Hout]]]. rewrite set_nth_length in L1. rewrite set_nth_length in L2.
    fold (ids t) in *.
    repeat split; auto.
    + intros i Hi. rewrite set_nth_length in Hin.
      destruct (in_dec Nat.eq_dec i (ids t)) as [Ht|Ht]; [now apply Hin|].
      destruct Hi as [<-|Hi]; [|contradiction].
      rewrite (Hout _ Ht), nth_opt_set_nth_same by exact Eid.
      eexists; split; eauto. apply nth_opt_Some in Hlm. lia.
    + intros i Hi. assert (Hne : id <> i) by (intro; apply Hi; left; auto).
      assert (Hnt : ~ In i (ids t)) by (intro; apply Hi; right; auto).
      rewrite Hout by exact Hnt. apply nth_opt_set_nth_other. exact Hne.
Qed.

(* the accumulated part weights are the loads of the ids written so far *)
Lemma greedy_loop_loads : forall its pw p p' pw',
  NoDup (ids its) -> greedy_loop its pw p = Ok (p', pw') ->
  forall q lq, nth_opt pw q = Some lq -> nth_opt pw' q = Some (lq + vsum p' (N.of_nat q) its).
Proof.
  induction its as [|[w id] t IH]; intros pw p p' pw' Hnd H q lq Hq; cbn [greedy_loop ids map snd vsum] in *.
  - injection H as <- <-. rewrite Hq. f_equal. lia.
  - destruct (argmin_last pw) as [m|] eqn:Em; [|discriminate].
    destruct (Nat.ltb id (length p)) eqn:Eid; [|discriminate]. apply Nat.ltb_lt in Eid.
    destruct (argmin_last_spec _ _ Em) as [lm [Hlm _]]. rewrite Hlm in H.
    inversion Hnd as [|? ? Hid Hnd']; subst. fold (ids t) in *.
    destruct (greedy_loop_facts _ _ _ _ _ H) as [_ [_ [_ Hout]]].
    rewrite (Hout _ Hid), nth_opt_set_nth_same by exact Eid.
    destruct (Nat.eq_dec q m) as [->|Hne].
    + rewrite Hlm in Hq. injection Hq as ->.
      rewrite (IH _ _ _ _ Hnd' H m (lq + w)).
      2:{ apply nth_opt_set_nth_same. eapply nth_opt_Some; eauto. }
      rewrite N.eqb_refl. f_equal. lia.
    + rewrite (IH _ _ _ _ Hnd' H q lq) by (rewrite nth_opt_set_nth_other; auto).
      destruct (N.eqb_spec (N.of_nat m) (N.of_nat q)); [lia|]. f_equal.
Qed.

(* no panic: the scan always succeeds when the ids are in range and there is a part *)
Lemma greedy_loop_ok : forall its pw p,
  pw <> [] -> (forall i, In i (ids its) -> (i < length p)%nat) ->
  exists r, greedy_loop its pw p = Ok r.
Proof.
  induction its as [|[w id] t IH]; intros pw p Hne Hr; cbn [greedy_loop ids map snd] in *.
  - eexists; reflexivity.
  - destruct (argmin_last_some pw Hne) as [m Em]. rewrite Em.
    assert (Eid : (id < length p)%nat) by (apply Hr; now left).
    apply Nat.ltb_lt in Eid as Eid'. rewrite Eid'.
    destruct (argmin_last_spec _ _ Em) as [lm [Hlm _]]. rewrite Hlm.
    apply IH.
    + intro C. apply (f_equal (@length Z)) in C. rewrite set_nth_length in C.
      destruct pw; [congruence|discriminate].
    + intros i Hi. rewrite set_nth_length. apply Hr. now right.
Qed.

(* ---------- LPT: the multiset of loads does not depend on the choices ---------- *)

Lemma min_of_perm (L1 L2 : list Z) a b :
  Permutation L1 L2 -> In a L1 -> (forall x, In x L1 -> a <= x) -> In b L2 -> (forall x, In x L2 -> b <= x) -> a = b.
Proof.
  intros P Ha Hma Hb Hmb.
  assert (a <= b) by (apply Hma; apply (Permutation_in _ (Permutation_sym P)); auto).
  assert (b <= a) by (apply Hmb; apply (Permutation_in _ P); auto).
  lia.
Qed.

Theorem lpt_run_choice_independent : forall ws L1 L1' L2 L2',
  lpt_run ws L1 L1' -> lpt_run ws L2 L2' -> Permutation L1 L2 -> Permutation L1' L2'.
Proof.
  induction ws as [|w ws IH]; intros L1 L1' L2 L2' R1 R2 P.
  - inversion R1; subst. inversion R2; subst. exact P.
  - inversion R1 as [|? ? ? i li ? Hi Hmi R1']; subst.
    inversion R2 as [|? ? ? j lj ? Hj Hmj R2']; subst.
    assert (li = lj).
    { eapply (min_of_perm L1 L2); eauto using nth_opt_In. }
    subst lj.
    destruct (set_nth_perm L1 i li (li + w) Hi) as [r1 [P1 Q1]].
    destruct (set_nth_perm L2 j li (li + w) Hj) as [r2 [P2 Q2]].
    eapply IH; eauto. rewrite Q1, Q2. constructor.
    apply (Permutation_cons_inv (a := li)). rewrite <- P1, <- P2. exact P.
Qed.

(* the canonical run is a run *)
Lemma lpt_first_run : forall ws L, L <> [] -> lpt_run ws L (lpt_first ws L).
Proof.
  induction ws as [|w ws IH]; intros L Hne; cbn [lpt_first]; [constructor|].
  destruct L as [|x t]; [congruence|].
  destruct (argmin_first_aux_spec t [x] 0%nat x eq_refl) as [lm [Hlm Hmin]].
  { intros y [<-|[]]. lia. }
  cbn [app length] in Hlm, Hmin. cbn [argmin_first]. rewrite Hlm.
  eapply lpt_give; eauto. apply IH.
  intro C. apply (f_equal (@length Z)) in C. rewrite set_nth_length in C. discriminate.
Qed.

Lemma lpt_is_any_run ws k L : (1 <= k)%nat ->
  lpt_run (sortZ_desc ws) (repeat 0 k) L -> Permutation L (lpt ws k).
Proof.
  intros Hk R. eapply lpt_run_choice_independent; [exact R| |reflexivity].
  apply lpt_first_run. destruct k; [lia|discriminate].
Qed.

(* ---------- the theorems ---------- *)

Lemma forallb_ids_below k p :
  ids_below k p = true <-> Forall (fun x => (x < N.of_nat k)%N) p.
Proof.
  unfold ids_below. rewrite forallb_forall, Forall_forall.
  split; intros H x Hx; specialize (H x Hx); [now apply N.ltb_lt|now apply N.ltb_lt].
Qed.

Lemma nth_opt_all {A} (P : A -> Prop) (l : list A) :
  (forall i, (i < length l)%nat -> exists x, nth_opt l i = Some x /\ P x) -> Forall P l.
Proof.
  induction l as [|y t IH]; intros H; constructor.
  - destruct (H 0%nat) as [x [Hx Px]]; [cbn; lia|]. cbn in Hx. now injection Hx as ->.
  - apply IH. intros i Hi. apply (H (S i)). cbn; lia.
Qed.

(* Greedy with at least two parts: what the scan computes *)
Lemma greedy_inv ws k p0 p : (2 <= k)%nat -> greedy ws k p0 = Ok p ->
  length ws = length p0 /\ exists pw,
    greedy_loop (sort_items_desc (items_of ws)) (repeat 0 k) p0 = Ok (p, pw).
Proof.
  unfold greedy. intros Hk H.
  destruct (Nat.eqb (length ws) (length p0)) eqn:E; cbn [negb] in H; [|discriminate].
  apply Nat.eqb_eq in E. split; auto.
  replace (Nat.ltb k 2) with false in H by (symmetry; apply Nat.ltb_ge; lia).
  destruct (greedy_loop _ _ _) as [[p' pw]| | |]; cbn [bind fst] in H; try discriminate.
  injection H as ->. eauto.
Qed.

Theorem greedy_is_lpt : forall ws k p0 p, (2 <= k)%nat -> greedy ws k p0 = Ok p ->
  length p = length ws /\ length p = length p0
  /\ Forall (fun x => (x < N.of_nat k)%N) p
  /\ lpt_run (sortZ_desc ws) (repeat 0 k) (loads ws p k)
  /\ forall L, lpt_run (sortZ_desc ws) (repeat 0 k) L -> Permutation (loads ws p k) L.
Proof.
  intros ws k p0 p Hk H. destruct (greedy_inv _ _ _ _ Hk H) as [Hlen [pw HL]].
  destruct (sorted_items_facts ws) as [Hnd [Hw [Hids [_ Hperm]]]].
  set (its := sort_items_desc (items_of ws)) in *.
  destruct (greedy_loop_facts _ _ _ _ _ HL) as [L1 [L2 [Hin _]]]. rewrite repeat_length in *.
  assert (Hpw : pw = loads ws p k).
  { apply nth_opt_ext. intros q. destruct (Nat.lt_ge_cases q k) as [Hq|Hq].
    - rewrite (greedy_loop_loads _ _ _ _ _ Hnd HL q 0) by (now apply nth_opt_repeat).
      rewrite nth_opt_loads by exact Hq. f_equal.
      rewrite (vsum_perm _ _ _ _ Hperm), vsum_items by lia. lia.
    - rewrite !nth_opt_None; auto; [rewrite loads_length|]; lia. }
  assert (Hrun : lpt_run (sortZ_desc ws) (repeat 0 k) (loads ws p k)).
  { rewrite <- Hw, <- Hpw. eapply greedy_loop_lpt; eauto. }
  repeat split; try lia; auto.
  - apply nth_opt_all. intros i Hi. apply Hin, Hids. lia.
  - intros L R. eapply lpt_run_choice_independent; eauto.
Qed.

Corollary greedy_is_lpt_canonical : forall ws k p0 p, (2 <= k)%nat -> greedy ws k p0 = Ok p ->
  Permutation (loads ws p k) (lpt ws k).
Proof.
  intros ws k p0 p Hk H. destruct (greedy_is_lpt _ _ _ _ Hk H) as [_ [_ [_ [R _]]]].
  apply lpt_is_any_run; auto. lia.
Qed.

(* no panic, no error other than the length mismatch; a total function (no fuel) *)
Theorem greedy_total : forall ws k p0,
  (length ws = length p0 -> exists p, greedy ws k p0 = Ok p /\ length p = length p0
        /\ ((1 <= k)%nat -> Forall (fun x => (x < N.of_nat k)%N) p))
  /\ (length ws <> length p0 -> greedy ws k p0 = Err (InputLenMismatch (length p0) (length ws))).
Proof.
  intros ws k p0. unfold greedy. split; intros Hlen.
  - apply Nat.eqb_eq in Hlen as E. rewrite E. cbn [negb].
    destruct (Nat.ltb k 2) eqn:Ek.
    + eexists. split; [reflexivity|]. split; [apply map_length|].
      intros Hk. apply Forall_forall. intros x Hx. apply in_map_iff in Hx as [_ [<- _]]. lia.
    + apply Nat.ltb_ge in Ek.
      destruct (sorted_items_facts ws) as [_ [_ [Hids _]]].
      destruct (greedy_loop_ok (sort_items_desc (items_of ws)) (repeat 0 k) p0) as [[p pw] Hr].
      { destruct k; [lia|discriminate]. }
      { intros i Hi. rewrite <- Hlen. now apply Hids. }
      assert (HG : greedy ws k p0 = Ok p).
      { unfold greedy. rewrite E. cbn [negb]. replace (Nat.ltb k 2) with false by (symmetry; apply Nat.ltb_ge; lia).
        rewrite Hr. reflexivity. }
      destruct (greedy_is_lpt _ _ _ _ Ek HG) as [_ [L2 [F _]]].
      rewrite Hr. cbn [bind fst]. eexists. split; [reflexivity|]. split; auto.
  - apply Nat.eqb_neq in Hlen. rewrite Hlen. reflexivity.
Qed.

(* ---------- the checker decides the property ---------- *)

Theorem check_greedy_ok ws k p :
  check_greedy ws k p = true <->
  (length p = length ws /\ Forall (fun x => (x < N.of_nat k)%N) p /\ Permutation (loads ws p k) (lpt ws k)).
Proof.
  unfold check_greedy. rewrite !andb_true_iff, Nat.eqb_eq, forallb_ids_below, same_multiset_iff. tauto.
Qed.

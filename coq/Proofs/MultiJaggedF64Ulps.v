(* The ULP comparison of approx (epsilon 0.0, 4 ULPs) is convex on non-negative
   binary64 values: if t <= t' <= s and ulps_eq(t, s) then ulps_eq(t', s).
   Two ingredients: the bit pattern of a non-negative finite binary64 value is
   monotone in the value; and |t - s| <= 0.0 (the epsilon test) forces t = s,
   because a difference of two binary64 numbers is a multiple of 2^-1074 and
   does not round to zero unless it is zero. *)
From Coq Require Import ZArith Reals Lia Lra Bool List Floats.SpecFloat.
From Flocq Require Import Core Digits BinarySingleNaN.
From Coupe Require Import Lib.Prelude Lib.SFloat Model.MultiJagged Proofs.F64AddExact Proofs.F64RoundFacts Proofs.MultiJaggedF64Mono.
Open Scope R_scope.

#[local] Existing Instance F64AddExact.Hprec.
#[local] Existing Instance F64AddExact.Hmax.
Notation B2SF := (@BinarySingleNaN.B2SF 53 1024).
Notation B2R := (@BinarySingleNaN.B2R 53 1024).
Notation is_finite := (@BinarySingleNaN.is_finite 53 1024).
Notation Bsign := (@BinarySingleNaN.Bsign 53 1024).
Notation bf := (BinarySingleNaN.binary_float 53 1024).

(* ---- canonical mantissas ---- *)
Lemma canon_small m e : bounded 53 1024 m e = true -> (Z.pos m < 2 ^ 52)%Z -> e = (-1074)%Z.
Proof.
  unfold bounded, canonical_mantissa. intros H Hm. apply andb_true_iff in H as [H1 _].
  apply Zeq_bool_eq in H1. rewrite Zpos_digits2_pos in H1.
  assert (Hd : (Zdigits radix2 (Z.pos m) <= 52)%Z) by (apply Zdigits_le_Zpower; cbn; lia).
  unfold SpecFloat.fexp, emin in H1. lia.
Qed.

(* the position of a non-negative finite value among the bit patterns *)
Definition codeB (X : bf) : Z :=
  match X with B754_finite _ m e _ => (e + 1074) * 2 ^ 52 + Z.pos m | _ => 0 end%Z.

Lemma bits_code (X : bf) : is_finite X = true -> Bsign X = false -> Z.of_N (f64_to_bits (B2SF X)) = codeB X.
Proof.
  destruct X as [s|s| |s m e B]; cbn [BinarySingleNaN.is_finite BinarySingleNaN.Bsign]; intros Hf Hs; try discriminate; subst.
  - reflexivity.
  - cbn [BinarySingleNaN.B2SF codeB]. unfold to_bits.
    pose proof (bounded_bounds m e B) as [Hm He].
    change (Z.log2 1024 + 1)%Z with 11%Z. change (53 - 1)%Z with 52%Z. cbv zeta.
    destruct (Z.ltb_spec (Z.pos m) (2 ^ 52)) as [Hlt|Hge].
    + rewrite (canon_small m e B Hlt). rewrite Z2N.id by lia. lia.
    + rewrite Z2N.id by nia. lia.
Qed.

Lemma code_mono_struct (X Y : bf) : is_finite X = true -> is_finite Y = true -> Bsign X = false -> Bsign Y = false ->
  SFltb (B2SF Y) (B2SF X) = false -> (codeB X <= codeB Y)%Z.
Proof.
  destruct X as [sx|sx| |sx mx ex Bx], Y as [sy|sy| |sy my ey By];
    cbn [BinarySingleNaN.is_finite BinarySingleNaN.Bsign]; intros Fx Fy Sx Sy; try discriminate; subst;
    cbn [BinarySingleNaN.B2SF codeB]; unfold SFltb, SFcompare.
  - intros _. pose proof (bounded_bounds my ey By). nia.
  - discriminate.
  - pose proof (bounded_bounds mx ex Bx) as [Hmx Hex]. pose proof (bounded_bounds my ey By) as [Hmy Hey].
    destruct (Z.compare_spec ey ex) as [E|L|G]; intros H; try discriminate.
    + subst. change (Pos.compare_cont Eq my mx) with (my ?= mx)%positive in H.
      destruct (Pos.compare_spec my mx) as [E'|L'|G']; try discriminate; [subst; lia|nia].
    + assert (Hn : (2 ^ 52 <= Z.pos my)%Z).
      { destruct (Z.le_gt_cases (2 ^ 52) (Z.pos my)) as [?|Hs]; [assumption|].
        pose proof (canon_small my ey By ltac:(lia)). lia. }
      nia.
Qed.

Lemma code_mono (X Y : bf) : is_finite X = true -> is_finite Y = true -> Bsign X = false -> Bsign Y = false ->
  B2R X <= B2R Y -> (codeB X <= codeB Y)%Z.
Proof.
  intros Fx Fy Sx Sy H. apply code_mono_struct; auto. apply ltb_false_of_le; auto.
Qed.

(* ---- |t - s| <= 0.0 forces t = s ---- *)
Lemma eta_multiple (X : bf) : is_finite X = true -> exists k : Z, B2R X = IZR k * bpow radix2 (-1074).
Proof.
  destruct X as [s|s| |s m e B]; cbn [BinarySingleNaN.is_finite]; intros H; try discriminate.
  - exists 0%Z. cbn. lra.
  - pose proof (bounded_bounds m e B) as [_ He]. exists (cond_Zopp s (Z.pos m) * 2 ^ (e + 1074))%Z.
    cbn [BinarySingleNaN.B2R]. unfold F2R. cbn [Fnum Fexp]. rewrite mult_IZR, (IZR_Zpower radix2) by lia.
    rewrite Rmult_assoc, <- bpow_plus. f_equal. f_equal. lia.
Qed.

Lemma nonneg_B2R (X : bf) : is_finite X = true -> Bsign X = false -> 0 <= B2R X.
Proof.
  destruct X as [s|s| |s m e B]; cbn; intros H1 H2; try discriminate; [lra|]. subst. apply F2R_ge_0. cbn. lia.
Qed.

Lemma test1_eq (X S : bf) : is_finite X = true -> is_finite S = true -> Bsign X = false -> Bsign S = false ->
  B2R X <= B2R S ->
  fle (fabs (f64_sub (B2SF X) (B2SF S))) (f64_of_Z 0) = true -> B2R X = B2R S.
Proof.
  intros Fx Fs Sx Ss Hle H. rewrite (F64RoundFacts.sub_link X S) in H.
  destruct (minus_spec X S Fx Fs (nonneg_B2R X Fx Sx) (nonneg_B2R S Fs Ss)) as [C1 [C2 _]].
  set (Zb := Bminus mode_NE X S) in *.
  assert (Hz : B2R Zb = 0).
  { destruct Zb as [s|s| |s m e B]; cbn in C2; try discriminate. reflexivity. }
  rewrite Hz in C1. destruct (Rle_lt_or_eq_dec _ _ Hle) as [Hlt|E]; [|exact E]. exfalso.
  destruct (eta_multiple X Fx) as [kx Ex]. destruct (eta_multiple S Fs) as [ks Es].
  set (eta := bpow radix2 (-1074)) in *. assert (Heta : 0 < eta) by apply bpow_gt_0.
  assert (Hk : (kx < ks)%Z).
  { apply lt_IZR. rewrite Ex, Es in Hlt. apply Rmult_lt_reg_r in Hlt; assumption. }
  assert (Hd : B2R X - B2R S <= - eta).
  { rewrite Ex, Es. assert (IZR kx - IZR ks <= -1) by (rewrite <- minus_IZR; apply (IZR_le _ (-1)); lia). nra. }
  assert (Hr : rnd64 (B2R X - B2R S) <= - eta).
  { rewrite <- (rnd_id (- eta)).
    - apply rnd_mono. exact Hd.
    - apply generic_format_opp. apply generic_format_bpow. cbn. lia. }
  lra.
Qed.

(* ---- convexity ---- *)
Lemma sign_of_B2SF (X : bf) : is_finite X = true -> Bsign X = false -> sign_of (B2SF X) = Some false.
Proof. destruct X as [s|s| |s m e B]; cbn; intros H1 H2; try discriminate; subst; reflexivity. Qed.

Theorem ulps_convex_f64_holds : ulps_convex_f64.
Proof.
  intros t t' a [X [<- [Hn Hs]]] [X' [<- [Hn' Hs']]] Hle Ha Hlt Hu.
  destruct (inj_spec a Ha) as [Ea [Ra [Fa Sa]]]. rewrite Ea in *. set (S := NZ a) in *. unfold flt in Hlt.
  destruct (T_cases X' Hn' Hs') as [Fx'|EX']; [|subst X'; cbn [BinarySingleNaN.B2SF] in Hlt; rewrite (lt_fin_inf _ Fa) in Hlt; discriminate].
  apply ltb_false_le in Hlt; auto.
  destruct Hle as [X0 [X0' [E0 [E0' Hd]]]]. apply B2SF_inj in E0. apply B2SF_inj in E0'. subst X0 X0'.
  destruct Hd as [EX'|[Fx [_ Hxx']]]; [subst X'; discriminate|].
  assert (C1 : (codeB X <= codeB X')%Z) by (apply code_mono; auto).
  assert (C2 : (codeB X' <= codeB S)%Z) by (apply code_mono; auto).
  unfold f64_ulps_eq in *.
  destruct (fle (fabs (f64_sub (B2SF X') (B2SF S))) (f64_of_Z 0)); [reflexivity|].
  rewrite (sign_of_B2SF X' Fx' Hs'), (sign_of_B2SF S Fa Sa). cbn [Bool.eqb].
  rewrite (bits_code X' Fx' Hs'), (bits_code S Fa Sa).
  destruct (fle (fabs (f64_sub (B2SF X) (B2SF S))) (f64_of_Z 0)) eqn:E1.
  - apply test1_eq in E1; auto; [|lra].
    assert (EX : X' = S) by (apply B2R_Bsign_inj; auto; [lra|congruence]).
    rewrite EX, Z.sub_diag. reflexivity.
  - rewrite (sign_of_B2SF X Fx Hs), (sign_of_B2SF S Fa Sa) in Hu. cbn [Bool.eqb] in Hu.
    rewrite (bits_code X Fx Hs), (bits_code S Fa Sa) in Hu. apply Z.leb_le in Hu. apply Z.leb_le. lia.
Qed.

(* ================= binary64, integer-valued weights: mono_cuts and no panic ================= *)
From Coupe Require Import Proofs.MultiJaggedProofs Proofs.MultiJaggedTotal.

Theorem f64_mono_cuts_integer (zs : list Z) blk :
  Forall (fun z => (0 <= z)%Z) zs -> (sumZ zs <= 2 ^ 53)%Z ->
  mono_cuts MultiJagged.F64 (length zs) (map f64_of_Z zs) blk.
Proof. intros Hz Hs. exact (f64_mono_cuts_of_convexity ulps_convex_f64_holds zs blk Hz Hs). Qed.

Lemma notneg_of_Z z : (0 <= z <= 2 ^ 53)%Z -> notneg (f64_of_Z z).
Proof.
  intros Hz. destruct (inj_spec z Hz) as [E [_ [F S]]]. rewrite E.
  destruct (NZ z) as [s|s| |s m e B]; cbn in *; try discriminate; subst; exact I.
Qed.

Lemma In_le_sumZ (zs : list Z) z : Forall (fun z => (0 <= z)%Z) zs -> In z zs -> (z <= sumZ zs)%Z.
Proof.
  induction 1 as [|x t Hx Ht IH]; intros Hin; [destruct Hin|]. unfold sumZ in *. cbn [fold_right].
  assert (Hn : (0 <= fold_right Z.add 0 t)%Z) by (clear - Ht; induction Ht; cbn [fold_right]; lia).
  destruct Hin as [<-|Hin]; [lia|]. specialize (IH Hin). lia.
Qed.

(* MultiJagged at binary64 (the code as it is: Ulps epsilon 0.0) never panics on
   integer-valued non-negative weights whose total is at most 2^53 *)
Theorem mj_f64_total_integer D (zs : list Z) sorter blk cxlt root ord (k : N) (m : nat) p0 :
  root_ok root -> sorter_ok sorter cxlt -> (1 <= k)%N -> (k < 2 ^ 60)%N -> (1 <= m)%nat -> (1 <= D)%nat ->
  Forall (fun z => (0 <= z)%Z) zs -> (sumZ zs <= 2 ^ 53)%Z -> length p0 = length zs ->
  exists p, multi_jagged MultiJagged.F64 D (length zs) (map f64_of_Z zs) sorter blk root ord k m p0 = Ok p.
Proof.
  intros Hr Hs Hk Hb Hm HD Hz Hsum Hlp.
  apply (mj_f64_total_of_monotone_cuts (f64_of_Z 0) D (length zs) (map f64_of_Z zs) sorter blk cxlt root ord k m p0
           Hr Hs Hk Hb Hm HD (map_length _ _) Hlp).
  - rewrite Forall_forall. intros x Hx. apply in_map_iff in Hx as [z [<- Hin]]. apply notneg_of_Z.
    pose proof (In_le_sumZ zs z Hz Hin). rewrite Forall_forall in Hz. specialize (Hz z Hin). lia.
  - apply f64_mono_cuts_integer; assumption.
Qed.

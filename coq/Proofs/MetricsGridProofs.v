(* Proofs about the Grid topology of Model/Metrics.v (2D and 3D: the only grids
   coupe can construct, Grid::new_2d / new_3d):
   - index_of / position_of are inverse bijections between [0, len) and the box;
   - u is yielded by the neighbour iterator of v iff the positions differ by
     exactly one on exactly one axis, both in range; the relation is symmetric
     and the iterator yields no duplicate;
   - hence the Grid's edge cut is the lattice cut. *)
From Coupe Require Import Lib.Prelude Lib.Csr Model.Metrics Proofs.MetricsCutProofs Proofs.MetricsLambdaProofs.
Open Scope nat_scope.

(* --------------------------------------------------- the iterator, per axis *)

Lemma neighbor_step_even dims pos a c s :
  nth_opt pos a = Some c -> nth_opt dims a = Some s ->
  neighbor_step dims pos (2 * a)
  = if Nat.eqb c 0 then None
    else if Nat.leb s (c - 1) then None else Some (index_of dims (set_nth pos a (c - 1))).
Proof.
  intros Hc Hs. unfold neighbor_step.
  rewrite (Nat.mul_comm 2 a), Nat.div_mul, Nat.mod_mul by lia. rewrite Hc, Hs.
  cbn [Nat.eqb]. destruct (Nat.eqb c 0); reflexivity.
Qed.

Lemma neighbor_step_odd dims pos a c s :
  nth_opt pos a = Some c -> nth_opt dims a = Some s ->
  neighbor_step dims pos (2 * a + 1)
  = if Nat.leb s (c + 1) then None else Some (index_of dims (set_nth pos a (c + 1))).
Proof.
  intros Hc Hs. unfold neighbor_step.
  rewrite (Nat.mul_comm 2 a), Nat.div_add_l by lia.
  replace (a * 2 + 1) with (1 + a * 2) by lia. rewrite Nat.mod_add by lia.
  change (1 / 2) with 0. change (1 mod 2) with 1. rewrite Nat.add_0_r, Hc, Hs.
  cbn [Nat.eqb]. reflexivity.
Qed.

(* ------------------------------------------------------------ adjacency *)

Lemma list_eqb_nat_eq a b : list_eqb_nat a b = true <-> a = b.
Proof.
  revert b. induction a as [|x a IH]; intros [|y b]; cbn [list_eqb_nat]; try (split; [discriminate|congruence]).
  - split; reflexivity.
  - rewrite andb_true_iff, Nat.eqb_eq, IH. split; [intros [-> ->]; reflexivity|intros H; inversion H; auto].
Qed.

Lemma list_eqb_nat_sym a b : list_eqb_nat a b = list_eqb_nat b a.
Proof.
  revert b. induction a as [|x a IH]; intros [|y b]; cbn [list_eqb_nat]; try reflexivity.
  rewrite IH, Nat.eqb_sym. reflexivity.
Qed.

Lemma adjacent_pos_sym a b : adjacent_pos a b = adjacent_pos b a.
Proof.
  revert b. induction a as [|x a IH]; intros [|y b]; cbn [adjacent_pos]; try reflexivity.
  rewrite IH, (list_eqb_nat_sym a b), (Nat.eqb_sym x y), (orb_comm (Nat.eqb (x + 1) y)). reflexivity.
Qed.

Lemma adjacent_1d x x' :
  adjacent_pos [x] [x'] = true <-> (x + 1 = x' \/ x' + 1 = x).
Proof.
  cbn [adjacent_pos list_eqb_nat]. rewrite andb_false_r, andb_true_r, orb_false_l, orb_true_iff, !Nat.eqb_eq.
  reflexivity.
Qed.

Lemma adjacent_cons x a y b :
  adjacent_pos (x :: a) (y :: b) = true
  <-> (x = y /\ adjacent_pos a b = true) \/ ((x + 1 = y \/ y + 1 = x) /\ a = b).
Proof.
  cbn [adjacent_pos]. rewrite orb_true_iff, !andb_true_iff, orb_true_iff, !Nat.eqb_eq, list_eqb_nat_eq.
  reflexivity.
Qed.

(* ------------------------------------------------------------------- 2D *)

Lemma pos_index_2d w x y : x < w -> (x + w * y) mod w = x /\ (x + w * y) / w = y.
Proof.
  intros H. rewrite (Nat.mul_comm w y). split.
  - rewrite Nat.mod_add by lia. apply Nat.mod_small. exact H.
  - rewrite Nat.div_add by lia. rewrite Nat.div_small by exact H. reflexivity.
Qed.

Lemma index_bound_2d w h x y : x < w -> y < h -> x + w * y < w * h.
Proof. intros Hx Hy. nia. Qed.

Lemma div_mod_bound w h i : 0 < w -> i < w * h -> i mod w < w /\ i / w < h /\ i = i mod w + w * (i / w).
Proof.
  intros Hw Hi. split; [apply Nat.mod_upper_bound; lia|]. split.
  - apply Nat.div_lt_upper_bound; lia.
  - pose proof (Nat.div_mod_eq i w). lia.
Qed.

Theorem grid_index_bij_2d w h :
  0 < w -> 0 < h ->
  (forall i, i < grid_len [w; h] ->
     index_of [w; h] (position_of [w; h] i) = i
     /\ exists x y, position_of [w; h] i = [x; y] /\ x < w /\ y < h)
  /\ (forall x y, x < w -> y < h ->
     index_of [w; h] [x; y] < grid_len [w; h]
     /\ position_of [w; h] (index_of [w; h] [x; y]) = [x; y]).
Proof.
  intros Hw Hh. unfold grid_len. cbn [fold_right]. rewrite Nat.mul_1_r. split.
  - intros i Hi. destruct (div_mod_bound w h i Hw Hi) as [H1 [H2 H3]].
    cbn [position_of index_of]. split; [lia|]. eauto.
  - intros x y Hx Hy. cbn [position_of index_of].
    destruct (pos_index_2d w x y Hx) as [-> ->]. split; [apply index_bound_2d; assumption|reflexivity].
Qed.

Definition nb2 (w h x y : nat) : list nat :=
  (if Nat.eqb x 0 then [] else [x - 1 + w * y]) ++
  (if Nat.leb w (x + 1) then [] else [x + 1 + w * y]) ++
  (if Nat.eqb y 0 then [] else [x + w * (y - 1)]) ++
  (if Nat.leb h (y + 1) then [] else [x + w * (y + 1)]).

Lemma grid_neighbors_2d w h v :
  v mod w < w -> v / w < h -> grid_neighbors [w; h] v = nb2 w h (v mod w) (v / w).
Proof.
  intros Hx Hy. unfold grid_neighbors. cbn [position_of length].
  change (seq 0 (2 * 2)) with [2 * 0; 2 * 0 + 1; 2 * 1; 2 * 1 + 1]. cbn [map].
  set (x := v mod w) in *. set (y := v / w) in *.
  rewrite (neighbor_step_even [w; h] [x; y] 0 x w eq_refl eq_refl).
  rewrite (neighbor_step_odd [w; h] [x; y] 0 x w eq_refl eq_refl).
  rewrite (neighbor_step_even [w; h] [x; y] 1 y h eq_refl eq_refl).
  rewrite (neighbor_step_odd [w; h] [x; y] 1 y h eq_refl eq_refl).
  cbn [set_nth index_of]. unfold nb2.
  destruct (Nat.eqb_spec x 0), (Nat.leb_spec w (x + 1)), (Nat.eqb_spec y 0), (Nat.leb_spec h (y + 1));
    repeat match goal with |- context [Nat.leb ?a ?b] => destruct (Nat.leb_spec a b) end;
    try lia; reflexivity.
Qed.

Lemma adjacent_2d x y x' y' :
  adjacent_pos [x; y] [x'; y'] = true
  <-> (x = x' /\ (y + 1 = y' \/ y' + 1 = y)) \/ ((x + 1 = x' \/ x' + 1 = x) /\ y = y').
Proof.
  rewrite adjacent_cons, adjacent_1d. split.
  - intros [[H1 H2]|[H1 H2]]; [left; auto|right; split; [exact H1|congruence]].
  - intros [[H1 H2]|[H1 H2]]; [left; auto|right; split; [exact H1|congruence]].
Qed.

Lemma in_nb2 w h x y u :
  In u (nb2 w h x y) <->
  (x <> 0 /\ u = x - 1 + w * y) \/ (x + 1 < w /\ u = x + 1 + w * y)
  \/ (y <> 0 /\ u = x + w * (y - 1)) \/ (y + 1 < h /\ u = x + w * (y + 1)).
Proof.
  unfold nb2. rewrite !in_app_iff.
  destruct (Nat.eqb_spec x 0), (Nat.leb_spec w (x + 1)), (Nat.eqb_spec y 0), (Nat.leb_spec h (y + 1));
    cbn [In]; intuition lia.
Qed.

Theorem grid_neighbors_spec_2d w h v u :
  0 < w -> 0 < h -> v < grid_len [w; h] ->
  (In u (grid_neighbors [w; h] v)
   <-> u < grid_len [w; h] /\ adjacent_pos (position_of [w; h] v) (position_of [w; h] u) = true).
Proof.
  intros Hw Hh. unfold grid_len. cbn [fold_right]. rewrite Nat.mul_1_r. intros Hv.
  destruct (div_mod_bound w h v Hw Hv) as [Hx [Hy Ev]].
  rewrite grid_neighbors_2d by assumption. cbn [position_of].
  set (x := v mod w) in *. set (y := v / w) in *. rewrite in_nb2. split.
  - intros [[H ->]|[[H ->]|[[H ->]|[H ->]]]].
    + destruct (pos_index_2d w (x - 1) y) as [-> ->]; [lia|].
      split; [apply index_bound_2d; lia|]. apply adjacent_2d. lia.
    + destruct (pos_index_2d w (x + 1) y) as [-> ->]; [lia|].
      split; [apply index_bound_2d; lia|]. apply adjacent_2d. lia.
    + destruct (pos_index_2d w x (y - 1)) as [-> ->]; [lia|].
      split; [apply index_bound_2d; lia|]. apply adjacent_2d. lia.
    + destruct (pos_index_2d w x (y + 1)) as [-> ->]; [lia|].
      split; [apply index_bound_2d; lia|]. apply adjacent_2d. lia.
  - intros [Hu Hadj]. destruct (div_mod_bound w h u Hw Hu) as [Hx' [Hy' Eu]].
    set (x' := u mod w) in *. set (y' := u / w) in *.
    apply adjacent_2d in Hadj. rewrite Eu.
    destruct Hadj as [[E [E2|E2]]|[[E|E] E2]].
    + right; right; right. split; [lia|]. rewrite <- E, <- E2. reflexivity.
    + right; right; left. split; [lia|]. rewrite <- E. replace (y - 1) with y' by lia. reflexivity.
    + right; left. split; [lia|]. rewrite <- E, <- E2. reflexivity.
    + left. split; [lia|]. rewrite <- E2. replace (x - 1) with x' by lia. reflexivity.
Qed.

Lemma nb2_nodup w h x y : x < w -> y < h -> NoDup (nb2 w h x y).
Proof.
  intros Hx Hy. unfold nb2.
  destruct (Nat.eqb_spec x 0), (Nat.leb_spec w (x + 1)), (Nat.eqb_spec y 0), (Nat.leb_spec h (y + 1));
    cbn [app]; repeat constructor; cbn [In]; try tauto;
    repeat match goal with |- ~ _ => intros Hc end;
    repeat match goal with H : _ \/ _ |- _ => destruct H as [H|H] end; try contradiction; nia.
Qed.

Theorem grid_neighbors_nodup_2d w h v :
  0 < w -> 0 < h -> v < grid_len [w; h] -> NoDup (grid_neighbors [w; h] v).
Proof.
  intros Hw Hh. unfold grid_len. cbn [fold_right]. rewrite Nat.mul_1_r. intros Hv.
  destruct (div_mod_bound w h v Hw Hv) as [Hx [Hy _]].
  rewrite grid_neighbors_2d by assumption. apply nb2_nodup; assumption.
Qed.

(* ------------------------------------------------------------------- 3D *)
(* x + w*(y + h*z): a 2D index in [w; h*d] whose second coordinate is a 2D index in [h; d] *)

Definition nb3 (w h d x y z : nat) : list nat :=
  (if Nat.eqb x 0 then [] else [x - 1 + w * (y + h * z)]) ++
  (if Nat.leb w (x + 1) then [] else [x + 1 + w * (y + h * z)]) ++
  (if Nat.eqb y 0 then [] else [x + w * (y - 1 + h * z)]) ++
  (if Nat.leb h (y + 1) then [] else [x + w * (y + 1 + h * z)]) ++
  (if Nat.eqb z 0 then [] else [x + w * (y + h * (z - 1))]) ++
  (if Nat.leb d (z + 1) then [] else [x + w * (y + h * (z + 1))]).

Lemma grid_neighbors_3d w h d v :
  v mod w < w -> (v / w) mod h < h -> v / w / h < d ->
  grid_neighbors [w; h; d] v = nb3 w h d (v mod w) ((v / w) mod h) (v / w / h).
Proof.
  intros Hx Hy Hz. unfold grid_neighbors. cbn [position_of length].
  change (seq 0 (2 * 3)) with [2 * 0; 2 * 0 + 1; 2 * 1; 2 * 1 + 1; 2 * 2; 2 * 2 + 1]. cbn [map].
  set (x := v mod w) in *. set (y := (v / w) mod h) in *. set (z := v / w / h) in *.
  rewrite (neighbor_step_even [w; h; d] [x; y; z] 0 x w eq_refl eq_refl).
  rewrite (neighbor_step_odd [w; h; d] [x; y; z] 0 x w eq_refl eq_refl).
  rewrite (neighbor_step_even [w; h; d] [x; y; z] 1 y h eq_refl eq_refl).
  rewrite (neighbor_step_odd [w; h; d] [x; y; z] 1 y h eq_refl eq_refl).
  rewrite (neighbor_step_even [w; h; d] [x; y; z] 2 z d eq_refl eq_refl).
  rewrite (neighbor_step_odd [w; h; d] [x; y; z] 2 z d eq_refl eq_refl).
  cbn [set_nth index_of]. unfold nb3.
  destruct (Nat.eqb_spec x 0), (Nat.leb_spec w (x + 1)), (Nat.eqb_spec y 0), (Nat.leb_spec h (y + 1)),
           (Nat.eqb_spec z 0), (Nat.leb_spec d (z + 1));
    repeat match goal with |- context [Nat.leb ?a ?b] => destruct (Nat.leb_spec a b) end;
    try lia; try reflexivity.
Qed.

Lemma div_mod_bound_3d w h d i :
  0 < w -> 0 < h -> i < w * (h * d) ->
  i mod w < w /\ (i / w) mod h < h /\ i / w / h < d
  /\ i = i mod w + w * ((i / w) mod h + h * (i / w / h)).
Proof.
  intros Hw Hh Hi.
  destruct (div_mod_bound w (h * d) i Hw Hi) as [H1 [H2 H3]].
  destruct (div_mod_bound h d (i / w) Hh H2) as [H4 [H5 H6]].
  repeat split; try assumption. rewrite <- H6. exact H3.
Qed.

Lemma pos_index_3d w h x y z :
  x < w -> y < h ->
  (x + w * (y + h * z)) mod w = x /\ ((x + w * (y + h * z)) / w) mod h = y
  /\ (x + w * (y + h * z)) / w / h = z.
Proof.
  intros Hx Hy. destruct (pos_index_2d w x (y + h * z) Hx) as [E1 E2].
  destruct (pos_index_2d h y z Hy) as [E3 E4]. rewrite E1, E2, E3, E4. auto.
Qed.

Lemma index_bound_3d w h d x y z : x < w -> y < h -> z < d -> x + w * (y + h * z) < w * (h * d).
Proof.
  intros Hx Hy Hz. apply index_bound_2d; [exact Hx|]. apply index_bound_2d; assumption.
Qed.

Theorem grid_index_bij_3d w h d :
  0 < w -> 0 < h -> 0 < d ->
  (forall i, i < grid_len [w; h; d] ->
     index_of [w; h; d] (position_of [w; h; d] i) = i
     /\ exists x y z, position_of [w; h; d] i = [x; y; z] /\ x < w /\ y < h /\ z < d)
  /\ (forall x y z, x < w -> y < h -> z < d ->
     index_of [w; h; d] [x; y; z] < grid_len [w; h; d]
     /\ position_of [w; h; d] (index_of [w; h; d] [x; y; z]) = [x; y; z]).
Proof.
  intros Hw Hh Hd. unfold grid_len. cbn [fold_right]. rewrite Nat.mul_1_r. split.
  - intros i Hi. destruct (div_mod_bound_3d w h d i Hw Hh Hi) as [H1 [H2 [H3 H4]]].
    cbn [position_of index_of]. split; [lia|]. do 3 eexists. split; [reflexivity|]. auto.
  - intros x y z Hx Hy Hz. cbn [position_of index_of].
    destruct (pos_index_3d w h x y z Hx Hy) as [-> [-> ->]].
    split; [apply index_bound_3d; assumption|reflexivity].
Qed.

Lemma adjacent_3d x y z x' y' z' :
  adjacent_pos [x; y; z] [x'; y'; z'] = true
  <-> (x = x' /\ y = y' /\ (z + 1 = z' \/ z' + 1 = z))
   \/ (x = x' /\ (y + 1 = y' \/ y' + 1 = y) /\ z = z')
   \/ ((x + 1 = x' \/ x' + 1 = x) /\ y = y' /\ z = z').
Proof.
  rewrite adjacent_cons, adjacent_2d. split.
  - intros [[H1 [[H2 H3]|[H2 H3]]]|[H1 H2]]; [left; auto|right; left; auto|].
    right; right. inversion H2. auto.
  - intros [[H1 [H2 H3]]|[[H1 [H2 H3]]|[H1 [H2 H3]]]]; [left; auto|left; auto|].
    right. split; [exact H1|congruence].
Qed.

Lemma in_nb3 w h d x y z u :
  In u (nb3 w h d x y z) <->
  (x <> 0 /\ u = x - 1 + w * (y + h * z)) \/ (x + 1 < w /\ u = x + 1 + w * (y + h * z))
  \/ (y <> 0 /\ u = x + w * (y - 1 + h * z)) \/ (y + 1 < h /\ u = x + w * (y + 1 + h * z))
  \/ (z <> 0 /\ u = x + w * (y + h * (z - 1))) \/ (z + 1 < d /\ u = x + w * (y + h * (z + 1))).
Proof.
  unfold nb3. rewrite !in_app_iff.
  destruct (Nat.eqb_spec x 0), (Nat.leb_spec w (x + 1)), (Nat.eqb_spec y 0), (Nat.leb_spec h (y + 1)),
           (Nat.eqb_spec z 0), (Nat.leb_spec d (z + 1));
    cbn [In]; intuition lia.
Qed.

Theorem grid_neighbors_spec_3d w h d v u :
  0 < w -> 0 < h -> 0 < d -> v < grid_len [w; h; d] ->
  (In u (grid_neighbors [w; h; d] v)
   <-> u < grid_len [w; h; d]
       /\ adjacent_pos (position_of [w; h; d] v) (position_of [w; h; d] u) = true).
Proof.
  intros Hw Hh Hd. unfold grid_len. cbn [fold_right]. rewrite Nat.mul_1_r. intros Hv.
  destruct (div_mod_bound_3d w h d v Hw Hh Hv) as [Hx [Hy [Hz Ev]]].
  rewrite grid_neighbors_3d by assumption. cbn [position_of].
  set (x := v mod w) in *. set (y := (v / w) mod h) in *. set (z := v / w / h) in *.
  rewrite in_nb3. split.
  - intros [[H ->]|[[H ->]|[[H ->]|[[H ->]|[[H ->]|[H ->]]]]]].
    + destruct (pos_index_3d w h (x - 1) y z) as [-> [-> ->]]; try lia.
      split; [apply index_bound_3d; lia|]. apply adjacent_3d. lia.
    + destruct (pos_index_3d w h (x + 1) y z) as [-> [-> ->]]; try lia.
      split; [apply index_bound_3d; lia|]. apply adjacent_3d. lia.
    + destruct (pos_index_3d w h x (y - 1) z) as [-> [-> ->]]; try lia.
      split; [apply index_bound_3d; lia|]. apply adjacent_3d. lia.
    + destruct (pos_index_3d w h x (y + 1) z) as [-> [-> ->]]; try lia.
      split; [apply index_bound_3d; lia|]. apply adjacent_3d. lia.
    + destruct (pos_index_3d w h x y (z - 1)) as [-> [-> ->]]; try lia.
      split; [apply index_bound_3d; lia|]. apply adjacent_3d. lia.
    + destruct (pos_index_3d w h x y (z + 1)) as [-> [-> ->]]; try lia.
      split; [apply index_bound_3d; lia|]. apply adjacent_3d. lia.
  - intros [Hu Hadj]. destruct (div_mod_bound_3d w h d u Hw Hh Hu) as [Hx' [Hy' [Hz' Eu]]].
    set (x' := u mod w) in *. set (y' := (u / w) mod h) in *. set (z' := u / w / h) in *.
    apply adjacent_3d in Hadj. rewrite Eu.
    destruct Hadj as [[E1 [E2 [E3|E3]]]|[[E1 [[E2|E2] E3]]|[[E1|E1] [E2 E3]]]].
    + do 5 right. split; [lia|]. rewrite <- E1, <- E2, <- E3. reflexivity.
    + do 4 right; left. split; [lia|]. rewrite <- E1, <- E2. replace (z - 1) with z' by lia. reflexivity.
    + do 3 right; left. split; [lia|]. rewrite <- E1, <- E2, <- E3. reflexivity.
    + do 2 right; left. split; [lia|]. rewrite <- E1, <- E3. replace (y - 1) with y' by lia. reflexivity.
    + right; left. split; [lia|]. rewrite <- E1, <- E2, <- E3. reflexivity.
    + left. split; [lia|]. rewrite <- E2, <- E3. replace (x - 1) with x' by lia. reflexivity.
Qed.

(* the candidates are pairwise distinct: their positions differ *)
Lemma index_inj_3d w h x y z x' y' z' :
  x < w -> y < h -> x' < w -> y' < h ->
  x + w * (y + h * z) = x' + w * (y' + h * z') -> x = x' /\ y = y' /\ z = z'.
Proof.
  intros Hx Hy Hx' Hy' E.
  destruct (pos_index_3d w h x y z Hx Hy) as [A1 [A2 A3]].
  destruct (pos_index_3d w h x' y' z' Hx' Hy') as [B1 [B2 B3]].
  rewrite E in A1, A2, A3. split; [congruence|split; congruence].
Qed.

Lemma nb3_nodup w h d x y z : x < w -> y < h -> z < d -> NoDup (nb3 w h d x y z).
Proof.
  intros Hx Hy Hz. unfold nb3.
  destruct (Nat.eqb_spec x 0), (Nat.leb_spec w (x + 1)), (Nat.eqb_spec y 0), (Nat.leb_spec h (y + 1)),
           (Nat.eqb_spec z 0), (Nat.leb_spec d (z + 1));
    cbn [app]; repeat constructor; cbn [In]; try tauto;
    repeat match goal with |- ~ _ => intros Hc end;
    repeat match goal with H : _ \/ _ |- _ => destruct H as [H|H] end; try contradiction;
    match goal with H : _ = _ |- _ => apply index_inj_3d in H; lia end.
Qed.

Theorem grid_neighbors_nodup_3d w h d v :
  0 < w -> 0 < h -> 0 < d -> v < grid_len [w; h; d] -> NoDup (grid_neighbors [w; h; d] v).
Proof.
  intros Hw Hh Hd. unfold grid_len. cbn [fold_right]. rewrite Nat.mul_1_r. intros Hv.
  destruct (div_mod_bound_3d w h d v Hw Hh Hv) as [Hx [Hy [Hz _]]].
  rewrite grid_neighbors_3d by assumption. apply nb3_nodup; assumption.
Qed.

(* ------------------------------------- from the neighbour relation to the cut *)

Open Scope Z_scope.

Section GridCut.
  Variable dims : list nat.
  Let n := grid_len dims.
  Hypothesis Hspec : forall v u, (v < n)%nat ->
    (In u (grid_neighbors dims v)
     <-> (u < n)%nat /\ adjacent_pos (position_of dims v) (position_of dims u) = true).
  Hypothesis Hnodup : forall v, (v < n)%nat -> NoDup (grid_neighbors dims v).

  Lemma grid_rows_length : length (grid_rows dims) = n.
  Proof. unfold grid_rows. rewrite map_length, seq_length. reflexivity. Qed.

  Lemma grid_row_of v : (v < n)%nat ->
    row_of (grid_rows dims) v = map (fun u => (u, 1)) (grid_neighbors dims v).
  Proof.
    intros Hv. unfold row_of, grid_rows.
    rewrite (nth_indep _ [] ((fun v => map (fun u => (u, 1)) (grid_neighbors dims v)) 0%nat))
      by (rewrite map_length, seq_length; exact Hv).
    rewrite (map_nth (fun v => map (fun u : nat => (u, 1)) (grid_neighbors dims v)) (seq 0 (grid_len dims)) 0%nat v).
    rewrite seq_nth by exact Hv. reflexivity.
  Qed.

  Lemma row_weight_ones (l : list nat) u :
    NoDup l -> row_weight (map (fun x => (x, 1)) l) u = if existsb (Nat.eqb u) l then 1 else 0.
  Proof.
    induction l as [|x l IH]; intros Hnd; [reflexivity|].
    inversion Hnd as [|? ? Hx Hl]; subst. cbn [map existsb]. rewrite row_weight_cons, IH by exact Hl.
    rewrite (Nat.eqb_sym u x). destruct (Nat.eqb_spec x u) as [->|Hne]; cbn [orb]; [|lia].
    destruct (existsb (Nat.eqb u) l) eqn:E; [|lia].
    exfalso. apply Hx. apply existsb_exists in E as [y [Hy E]]. apply Nat.eqb_eq in E. subst. exact Hy.
  Qed.

  Lemma grid_weight v u : (v < n)%nat -> (u < n)%nat ->
    weight (grid_rows dims) v u
    = if adjacent_pos (position_of dims v) (position_of dims u) then 1 else 0.
  Proof.
    intros Hv Hu. unfold weight. rewrite grid_row_of by exact Hv.
    rewrite row_weight_ones by (apply Hnodup; exact Hv).
    destruct (existsb (Nat.eqb u) (grid_neighbors dims v)) eqn:E.
    - apply existsb_exists in E as [y [Hy E]]. apply Nat.eqb_eq in E. subst y.
      apply Hspec in Hy as [_ ->]; [reflexivity|exact Hv].
    - destruct (adjacent_pos (position_of dims v) (position_of dims u)) eqn:A; [|reflexivity].
      exfalso. assert (Hin : In u (grid_neighbors dims v)) by (apply Hspec; auto).
      apply not_true_iff_false in E. apply E. apply existsb_exists. exists u. split; [exact Hin|apply Nat.eqb_refl].
  Qed.

  Lemma grid_wf : wf_graph (grid_rows dims).
  Proof.
    unfold wf_graph. rewrite grid_rows_length. unfold grid_rows.
    rewrite Forall_forall. intros r Hr. apply in_map_iff in Hr as [v [<- Hv]]. apply in_seq in Hv.
    rewrite Forall_forall. intros e He. apply in_map_iff in He as [u [<- Hu]]. cbn [fst].
    apply Hspec in Hu; [tauto|lia].
  Qed.

  Lemma grid_weight_out_l v u : (n <= v)%nat -> weight (grid_rows dims) v u = 0.
  Proof.
    intros Hv. unfold weight, row_of. rewrite nth_overflow by (rewrite grid_rows_length; exact Hv). reflexivity.
  Qed.

  Lemma grid_weight_out_r v u : (v < n)%nat -> (n <= u)%nat -> weight (grid_rows dims) v u = 0.
  Proof.
    intros Hv Hu. unfold weight. rewrite grid_row_of by exact Hv.
    rewrite row_weight_ones by (apply Hnodup; exact Hv).
    destruct (existsb (Nat.eqb u) (grid_neighbors dims v)) eqn:E; [|reflexivity].
    apply existsb_exists in E as [y [Hy E]]. apply Nat.eqb_eq in E. subst y.
    apply Hspec in Hy; [lia|exact Hv].
  Qed.

  Lemma grid_symmetric : symmetric (grid_rows dims).
  Proof.
    intros u v.
    destruct (Nat.lt_ge_cases u n) as [Hu|Hu], (Nat.lt_ge_cases v n) as [Hv|Hv].
    - rewrite !grid_weight by assumption. rewrite adjacent_pos_sym. reflexivity.
    - rewrite grid_weight_out_r, grid_weight_out_l by assumption. reflexivity.
    - rewrite grid_weight_out_l, grid_weight_out_r by assumption. reflexivity.
    - rewrite !grid_weight_out_l by assumption. reflexivity.
  Qed.

  (* the neighbour relation is symmetric *)
  Lemma grid_neighbors_sym u v : (u < n)%nat -> (v < n)%nat ->
    (In u (grid_neighbors dims v) <-> In v (grid_neighbors dims u)).
  Proof.
    intros Hu Hv. rewrite !Hspec by assumption. rewrite adjacent_pos_sym. tauto.
  Qed.

  Theorem grid_cut_lattice p : (n <= length p)%nat ->
    grid_edge_cut dims p = Ok (lattice_cut dims p).
  Proof.
    intros Hp. unfold grid_edge_cut.
    rewrite cut_def; [|apply grid_wf|rewrite grid_rows_length; exact Hp|apply grid_symmetric].
    f_equal. unfold cut_pairs, lattice_cut. rewrite grid_rows_length. fold n.
    apply sum_range_ext. intros u Hu. apply sum_range_ext. intros v Hv.
    rewrite grid_weight by lia.
    destruct (adjacent_pos (position_of dims u) (position_of dims v)); lia.
  Qed.
End GridCut.

Theorem grid_cut_is_lattice_cut_2d w h p :
  (0 < w)%nat -> (0 < h)%nat -> (grid_len [w; h] <= length p)%nat ->
  grid_edge_cut [w; h] p = Ok (lattice_cut [w; h] p).
Proof.
  intros Hw Hh. apply grid_cut_lattice.
  - intros v u Hv. apply grid_neighbors_spec_2d; assumption.
  - intros v Hv. apply grid_neighbors_nodup_2d; assumption.
Qed.

Theorem grid_cut_is_lattice_cut_3d w h d p :
  (0 < w)%nat -> (0 < h)%nat -> (0 < d)%nat -> (grid_len [w; h; d] <= length p)%nat ->
  grid_edge_cut [w; h; d] p = Ok (lattice_cut [w; h; d] p).
Proof.
  intros Hw Hh Hd. apply grid_cut_lattice.
  - intros v u Hv. apply grid_neighbors_spec_3d; assumption.
  - intros v Hv. apply grid_neighbors_nodup_3d; assumption.
Qed.

Theorem grid_neighbors_sym_2d w h u v :
  (0 < w)%nat -> (0 < h)%nat -> (u < grid_len [w; h])%nat -> (v < grid_len [w; h])%nat ->
  (In u (grid_neighbors [w; h] v) <-> In v (grid_neighbors [w; h] u)).
Proof.
  intros Hw Hh. apply grid_neighbors_sym. intros a b Ha. apply grid_neighbors_spec_2d; assumption.
Qed.

Theorem grid_neighbors_sym_3d w h d u v :
  (0 < w)%nat -> (0 < h)%nat -> (0 < d)%nat ->
  (u < grid_len [w; h; d])%nat -> (v < grid_len [w; h; d])%nat ->
  (In u (grid_neighbors [w; h; d] v) <-> In v (grid_neighbors [w; h; d] u)).
Proof.
  intros Hw Hh Hd. apply grid_neighbors_sym. intros a b Ha. apply grid_neighbors_spec_3d; assumption.
Qed.

(* lambda cut of a Grid = the definition on the lattice graph (whose rows are
   characterised by grid_neighbors_spec) *)
Theorem grid_lambda_def_2d w h p ws k :
  (0 < w)%nat -> (0 < h)%nat -> (grid_len [w; h] <= length p)%nat -> length ws = grid_len [w; h] ->
  Forall (fun q => (q < k)%nat) p ->
  grid_lambda_cut [w; h] p ws = Ok (lambda_def k (grid_rows [w; h]) p ws).
Proof.
  intros Hw Hh Hp Hws Hk. unfold grid_lambda_cut. apply lambda_cut_def; try assumption.
  - apply grid_wf. intros v u Hv. apply grid_neighbors_spec_2d; assumption.
  - rewrite grid_rows_length. exact Hp.
  - rewrite grid_rows_length. exact Hws.
Qed.

Theorem grid_lambda_def_3d w h d p ws k :
  (0 < w)%nat -> (0 < h)%nat -> (0 < d)%nat ->
  (grid_len [w; h; d] <= length p)%nat -> length ws = grid_len [w; h; d] ->
  Forall (fun q => (q < k)%nat) p ->
  grid_lambda_cut [w; h; d] p ws = Ok (lambda_def k (grid_rows [w; h; d]) p ws).
Proof.
  intros Hw Hh Hd Hp Hws Hk. unfold grid_lambda_cut. apply lambda_cut_def; try assumption.
  - apply grid_wf. intros v u Hv. apply grid_neighbors_spec_3d; assumption.
  - rewrite grid_rows_length. exact Hp.
  - rewrite grid_rows_length. exact Hws.
Qed.

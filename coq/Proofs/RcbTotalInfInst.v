(* Totality of rcb for EVERY finite f64 coordinate set (binary32 images in
   binary32 with +-inf, never NaN): instance of Proofs/RcbTotalInf.v. *)
From Coq Require Import ZArith Lia Bool List Floats.SpecFloat.
From Flocq Require Import Core BinarySingleNaN.
From Coupe Require Import Lib.Prelude Lib.SFloat Model.Rcb Proofs.SFOrder Proofs.RcbProofs
  Proofs.RcbInst Proofs.RcbTotal Proofs.RcbTotalInf Proofs.F32Rank Proofs.F32Flocq Proofs.RcbBox Proofs.RcbTotalInst.
Import ListNotations.
Open Scope Z_scope.

(* canonical binary32 values that are not NaN: finite ones and the two infinities *)
Definition good32 (x : spec_float) : bool := valid_binary 24 128 x && negb (is_nan x).

Definition rank32i (x : spec_float) : Z :=
  match x with
  | S754_infinity true => - (2 ^ 32 + 1)
  | S754_infinity false => 2 ^ 32 + 1
  | _ => rank32 x
  end.

Lemma good32_fin x : good32 x = true -> SFloat.is_finite x = true -> f32_fin x = true.
Proof. unfold good32, f32_fin. intros H F. apply andb_true_iff in H. destruct H as [V _]. rewrite V, F. reflexivity. Qed.

Lemma rank32i_bounds x : good32 x = true -> - (2 ^ 32 + 1) <= rank32i x <= 2 ^ 32 + 1.
Proof.
  intros H. destruct x as [s|s| |s m e].
  - cbn. lia.
  - destruct s; cbn; lia.
  - cbn. lia.
  - pose proof (rank32_bounds _ (good32_fin _ H eq_refl)). cbn [rank32i]. lia.
Qed.

Lemma rank32i_mono x y : good32 x = true -> good32 y = true -> flt x y = true -> rank32i x < rank32i y.
Proof.
  intros Hx Hy H.
  destruct (SFloat.is_finite x) eqn:Fx, (SFloat.is_finite y) eqn:Fy.
  - pose proof (rank32_mono x y (good32_fin x Hx Fx) (good32_fin y Hy Fy) H).
    destruct x, y; try discriminate; exact H0.
  - (* y infinite *)
    pose proof (rank32_bounds x (good32_fin x Hx Fx)) as B.
    destruct y as [|sy| |]; try discriminate.
    destruct sy; [|destruct x; try discriminate; cbn [rank32i]; lia].
    exfalso. destruct x as [s|s| |s m e]; try discriminate; cbn in H; try discriminate; destruct s; discriminate.
  - pose proof (rank32_bounds y (good32_fin y Hy Fy)) as B.
    destruct x as [|sx| |]; try discriminate.
    destruct sx; [destruct y; try discriminate; cbn [rank32i]; lia|].
    exfalso. destruct y as [s|s| |s m e]; try discriminate; cbn in H; try discriminate; destruct s; discriminate.
  - destruct x as [|sx| |], y as [|sy| |]; try discriminate. destruct sx, sy; cbn in *; try discriminate; lia.
Qed.

(* the midpoint of two canonical values is canonical; when it compares
   strictly above its first argument it is not NaN *)
Lemma mid_good32 a b : good32 a = true -> good32 b = true ->
  flt a (f32_mid true a b) = true -> flt (f32_mid true a b) b = true -> good32 (f32_mid true a b) = true.
Proof.
  unfold good32. intros Ha Hb H1 _. apply andb_true_iff in Ha, Hb. destruct Ha as [Va _], Hb as [Vb _].
  apply andb_true_iff. split.
  - rewrite <- (B2SF_SF2B 24 128 a Va), <- (B2SF_SF2B 24 128 b Vb).
    unfold f32_mid. rewrite <- TWO_ok, !div_link, add_link. apply valid_binary_B2SF.
  - destruct (f32_mid true a b); try reflexivity. destruct a; discriminate.
Qed.

(* `x as f32` of a finite f64 value: a canonical binary32 value or an infinity, never NaN *)
Lemma to32_good c : SFloat.is_finite c = true -> good32 (f64_to_f32 c) = true.
Proof.
  intros F. unfold good32. rewrite f64_to_f32_valid. cbn [andb].
  destruct c as [s|s| |s m e]; try discriminate; [reflexivity|].
  unfold f64_to_f32. rewrite binary_round_equiv.
  pose proof (binary_round_correct 24 128 Hprec Hmax mode_NE s m e) as [_ H]. cbv zeta in H.
  destruct (Rlt_bool _ _) in H.
  - destruct H as (_ & Hf & _). destruct (binary_round 24 128 mode_NE s m e); try discriminate; reflexivity.
  - rewrite H. reflexivity.
Qed.

Definition coords_finite_f64 (pts : list (list spec_float)) : Prop :=
  Forall (fun p => Forall (fun c => SFloat.is_finite c = true) p) pts.

Lemma finite_coords_ok pts : coords_finite_f64 pts -> coords_ok pts.
Proof.
  unfold coords_finite_f64, coords_ok, to32. intros H. rewrite Forall_forall in *. intros p32 Hp.
  apply in_map_iff in Hp. destruct Hp as (p & <- & Hp). specialize (H p Hp).
  rewrite Forall_forall in *. intros c32 Hc. apply in_map_iff in Hc. destruct Hc as (c & <- & Hc).
  pose proof (to32_good c (H c Hc)) as G. unfold good32 in G. apply andb_true_iff in G. exact (proj2 G).
Qed.

(* the fold of one axis returns two of (initial values, column elements) *)
Lemma bbox_axis_finite : forall col mn mx,
  Forall (fun c => SFloat.is_finite c = true) col -> SFloat.is_finite mn = true -> SFloat.is_finite mx = true ->
  SFloat.is_finite (fst (bbox_axis mn mx col)) = true /\ SFloat.is_finite (snd (bbox_axis mn mx col)) = true.
Proof.
  induction col as [|v t IH]; intros mn mx Hc Hmn Hmx; cbn [bbox_axis]; [split; assumption|].
  inversion Hc; subst. apply IH; [assumption| |].
  - destruct (flt v mn); assumption.
  - destruct (flt mx v); assumption.
Qed.

Lemma bbox32_good : forall D a pts,
  (forall p, In p pts -> (a + D <= length p)%nat) -> coords_finite_f64 pts ->
  exists bb, bbox32 false D a pts = Some bb /\ length bb = D
    /\ Forall (fun b : spec_float * spec_float => good32 (fst b) = true /\ good32 (snd b) = true) bb.
Proof.
  induction D as [|D IH]; intros a pts Hshape Hf; cbn [bbox32].
  - exists []. repeat split; constructor.
  - destruct (column_total a pts) as [col Hcol]; [intros p Hp; specialize (Hshape p Hp); lia|]. rewrite Hcol.
    destruct (IH (S a) pts) as (r & Hr & Hl & Hg); [intros p Hp; specialize (Hshape p Hp); lia|exact Hf|]. rewrite Hr.
    destruct (column_spec a pts col Hcol) as [_ Cout].
    assert (Hcf : Forall (fun c => SFloat.is_finite c = true) col).
    { rewrite Forall_forall. intros c Hc. destruct (Cout c Hc) as (p & Hp & Hn).
      unfold coords_finite_f64 in Hf. rewrite Forall_forall in Hf. specialize (Hf p Hp).
      rewrite Forall_forall in Hf. apply Hf. eapply nth_opt_In; exact Hn. }
    destruct (bbox_axis_finite col f64_max_value f64_min_value Hcf eq_refl eq_refl) as [F1 F2].
    destruct (bbox_axis f64_max_value f64_min_value col) as [lo hi]. cbn [fst snd] in F1, F2.
    eexists. split; [reflexivity|]. split; [cbn [length]; f_equal; exact Hl|].
    constructor; [|exact Hg]. cbn [fst snd]. unfold cast32. split; apply to32_good; assumption.
Qed.

(* Totality for every finite f64 coordinate set: no panic, no OutOfFuel, for the
   stop rules at HEAD with the last probe at max and the overflow-free
   midpoint, every schedule and tolerance *)
Theorem rcb_total_finite_f64_unclamped : forall v fuel sched D k tol pts ws p0,
  v_old v = false -> v_probe_max v = true -> v_safe_mid v = true -> v_clamp v = false ->
  (0 < D)%nat -> length ws = length p0 -> length pts = length p0 ->
  Forall (fun p => length p = D) pts -> coords_finite_f64 pts ->
  Z.of_nat fuel > 2 ^ 34 ->
  exists p, rcb v fuel sched D k tol pts ws p0 = Ok p.
Proof.
  intros v fuel sched D k tol pts ws p0 Hold Hpm Hsafe Hcl HD E1 E2 HDl Hfin Hfuel. unfold rcb.
  rewrite E1, E2, !Nat.eqb_refl, Hcl. cbn [negb].
  destruct pts as [|pt0 pts']; [eexists; reflexivity|]. set (pts := pt0 :: pts') in *.
  destruct (bbox32_good D 0%nat pts) as (bb & Ebb & Hlb & Hgb).
  { intros p Hp. rewrite Forall_forall in HDl. rewrite (HDl p Hp). lia. }
  { exact Hfin. }
  rewrite Ebb, Hold, Hpm, Hsafe.
  assert (Hlen : length pts = length ws) by lia.
  pose proof (finite_coords_ok pts Hfin) as Hok.
  apply (rcb_core_total_inf spec_float flt fle (f32_mid true) f32_sub f32_add f32_zero f32_inf (tol_test tol)
           (v_by_coord v) f32v flt_irrefl flt_negtrans fle_flt
           good32 rank32i (- (2 ^ 32 + 1)) (2 ^ 32 + 1) mid_good32 rank32i_mono rank32i_bounds).
  - exact HD.
  - exact Hlb.
  - rewrite Forall_forall. intros it Hit. destruct (mk_items_len false pts ws 0%N it Hlen Hit) as (p & Hp & Hco).
    split.
    + rewrite Hco, map_length. rewrite Forall_forall in HDl. apply HDl, Hp.
    + unfold vitem. unfold coords_ok in Hok. rewrite Forall_forall in Hok. apply Hok.
      rewrite Hco. unfold to32. apply in_map, Hp.
  - exact Hgb.
  - rewrite mk_items_ix by exact Hlen. rewrite E2. reflexivity.
  - unfold pts. destruct ws; [cbn in Hlen; discriminate|]. cbn. discriminate.
  - assert (0 < Z.of_nat fuel) by lia. lia.
  - lia.
Qed.

(* ---------- with the clamped cast every image is finite ---------- *)
Lemma finite_valid64_finite pts : coords_finite_valid64 pts -> coords_finite_f64 pts.
Proof.
  unfold coords_finite_valid64, coords_finite_f64. intros H. rewrite Forall_forall in *. intros p Hp. specialize (H p Hp).
  rewrite Forall_forall in *. intros c Hc. exact (proj2 (H c Hc)).
Qed.

Lemma bbox32_fin_clamped : forall D a pts,
  (forall p, In p pts -> (a + D <= length p)%nat) -> coords_finite_f64 pts ->
  exists bb, bbox32 true D a pts = Some bb /\ length bb = D
    /\ Forall (fun b : spec_float * spec_float => f32_fin (fst b) = true /\ f32_fin (snd b) = true) bb.
Proof.
  induction D as [|D IH]; intros a pts Hshape Hf; cbn [bbox32].
  - exists []. repeat split; constructor.
  - destruct (column_total a pts) as [col Hcol]; [intros p Hp; specialize (Hshape p Hp); lia|]. rewrite Hcol.
    destruct (IH (S a) pts) as (r & Hr & Hl & Hg); [intros p Hp; specialize (Hshape p Hp); lia|exact Hf|]. rewrite Hr.
    destruct (column_spec a pts col Hcol) as [_ Cout].
    assert (Hcf : Forall (fun c => SFloat.is_finite c = true) col).
    { rewrite Forall_forall. intros c Hc. destruct (Cout c Hc) as (p & Hp & Hn).
      unfold coords_finite_f64 in Hf. rewrite Forall_forall in Hf. specialize (Hf p Hp).
      rewrite Forall_forall in Hf. apply Hf. eapply nth_opt_In; exact Hn. }
    destruct (bbox_axis_finite col f64_max_value f64_min_value Hcf eq_refl eq_refl) as [F1 F2].
    destruct (bbox_axis f64_max_value f64_min_value col) as [lo hi]. cbn [fst snd] in F1, F2.
    eexists. split; [reflexivity|]. split; [cbn [length]; f_equal; exact Hl|].
    constructor; [|exact Hg]. cbn [fst snd]. split; [exact (proj1 (cast_true_real lo F1))|exact (proj1 (cast_true_real hi F2))].
Qed.

Theorem rcb_total_finite_f64_clamped : forall v fuel sched D k tol pts ws p0,
  v_old v = false -> v_safe_mid v = true -> v_clamp v = true ->
  (0 < D)%nat -> length ws = length p0 -> length pts = length p0 ->
  Forall (fun p => length p = D) pts -> coords_finite_f64 pts ->
  Z.of_nat fuel > 2 ^ 33 ->
  exists p, rcb v fuel sched D k tol pts ws p0 = Ok p.
Proof.
  intros v fuel sched D k tol pts ws p0 Hold Hsafe Hcl HD E1 E2 HDl Hfin Hfuel. unfold rcb.
  rewrite E1, E2, !Nat.eqb_refl, Hcl. cbn [negb].
  destruct pts as [|pt0 pts']; [eexists; reflexivity|]. set (pts := pt0 :: pts') in *.
  destruct (bbox32_fin_clamped D 0%nat pts) as (bb & Ebb & Hlb & Hgb).
  { intros p Hp. rewrite Forall_forall in HDl. rewrite (HDl p Hp). lia. }
  { exact Hfin. }
  rewrite Ebb, Hold, Hsafe.
  assert (Hlen : length pts = length ws) by lia.
  pose proof (finite_coords_ok pts Hfin) as Hok.
  apply (rcb_core_total spec_float flt fle (f32_mid true) f32_sub f32_add f32_zero f32_inf (tol_test tol)
           (v_by_coord v) (v_probe_max v) f32v flt_irrefl flt_negtrans fle_flt
           f32_fin rank32 (- 2 ^ 32) (2 ^ 32) mid_fin32 rank32_mono rank32_bounds).
  - exact HD.
  - exact Hlb.
  - rewrite Forall_forall. intros it Hit. destruct (mk_items_len true pts ws 0%N it Hlen Hit) as (p & Hp & Hco).
    split.
    + rewrite Hco, map_length. rewrite Forall_forall in HDl. apply HDl, Hp.
    + unfold vitem. pose proof (coords_okc true pts Hok) as Hok'. rewrite Forall_forall in Hok'. apply Hok'.
      rewrite Hco. unfold to32c. apply in_map, Hp.
  - exact Hgb.
  - rewrite mk_items_ix by exact Hlen. rewrite E2. reflexivity.
  - unfold pts. destruct ws; [cbn in Hlen; discriminate|]. cbn. discriminate.
  - assert (0 < Z.of_nat fuel) by lia. lia.
  - lia.
Qed.

(* totality for every finite f64 coordinate set, whichever cast the variant uses, together with what the Ok result is: one
   id per point, every id below 2^iter_count *)
Theorem rcb_total_finite_f64_ids : forall v fuel sched D k tol pts ws p0,
  v_old v = false -> v_probe_max v = true -> v_safe_mid v = true ->
  (0 < D)%nat -> length ws = length p0 -> length pts = length p0 ->
  Forall (fun p => length p = D) pts -> coords_finite_f64 pts ->
  Z.of_nat fuel > 2 ^ 34 ->
  exists p, rcb v fuel sched D k tol pts ws p0 = Ok p
            /\ length p = length pts /\ Forall (fun i => (i < 2 ^ N.of_nat k)%N) p.
Proof.
  intros v fuel sched D k tol pts ws p0 Hold Hpm Hsafe HD E1 E2 Hs Hfin Hfuel.
  assert (Hex : exists p, rcb v fuel sched D k tol pts ws p0 = Ok p).
  { destruct (v_clamp v) eqn:Hcl.
    - apply rcb_total_finite_f64_clamped; try assumption. lia.
    - apply rcb_total_finite_f64_unclamped; assumption. }
  destruct Hex as [p Hp]. exists p. split; [exact Hp|].
  destruct (rcb_bisect_tree v _ _ _ _ _ _ _ _ _ (finite_coords_ok pts Hfin) Hp) as (Hl & _ & Hr).
  split; [exact Hl|]. destruct pts as [|pt0 t]; [destruct p; [constructor|discriminate]|apply Hr; discriminate].
Qed.

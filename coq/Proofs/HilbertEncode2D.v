(* encode_2d_slow and the LUT-driven encode_2d compute the index of the 2-D
   curve (state machine digit2/next2) — including the 12-bit chunking, the
   zero-padded last chunk and the u64 wraps.  [encode_2d_pinned_refuted] keeps
   the witness that the pinned final expression loses the top bits at order 32. *)
From Coupe Require Import Lib.Prelude Model.Hilbert Gen.HilbertTables
  Proofs.HilbertCurve Proofs.HilbertCert Proofs.HilbertInst.
Open Scope N_scope.

(* ------------------------------------------------------------ bit lemmas *)
Lemma land_low_mul a b k : b < 2 ^ k -> N.land (a * 2 ^ k) b = 0.
Proof.
  intros Hb. apply N.bits_inj; intro j. rewrite N.land_spec, N.bits_0.
  destruct (N.lt_ge_cases j k) as [Hj | Hj].
  - rewrite N.mul_pow2_bits_low by assumption. reflexivity.
  - rewrite <- (N.mod_small b (2 ^ k)) by assumption.
    rewrite N.mod_pow2_bits_high by assumption. apply andb_false_r.
Qed.

Lemma lor_add a b k : b < 2 ^ k -> N.lor (a * 2 ^ k) b = a * 2 ^ k + b.
Proof.
  intros Hb. pose proof (land_low_mul a b k Hb) as L.
  rewrite <- N.lxor_lor by assumption. symmetry. apply N.add_nocarry_lxor. assumption.
Qed.

Lemma lor_add_4096 a b : b < 4096 -> N.lor (a * 4096) b = a * 4096 + b.
Proof. intros H. exact (lor_add a b 12 H). Qed.

Lemma wrap64_mod x : wrap64 x = x mod 2 ^ 64.
Proof. unfold wrap64. change ones64 with (N.ones 64). apply N.land_ones. Qed.
Lemma wrap16_mod x : wrap16 x = x mod 2 ^ 16.
Proof. unfold wrap16. change ones16 with (N.ones 16). apply N.land_ones. Qed.
Lemma wrap64_small x : x < 2 ^ 64 -> wrap64 x = x.
Proof. intros H. rewrite wrap64_mod. apply N.mod_small. assumption. Qed.
Lemma wrap16_small x : x < 2 ^ 16 -> wrap16 x = x.
Proof. intros H. rewrite wrap16_mod. apply N.mod_small. assumption. Qed.
Lemma land_fff x : N.land x 0xfff = x mod 4096.
Proof. change 0xfff with (N.ones 12). rewrite N.land_ones. reflexivity. Qed.
Lemma land_3 x : N.land x 3 = x mod 4.
Proof. change 3 with (N.ones 2). rewrite N.land_ones. reflexivity. Qed.

Lemma pow4_2 k : 4 ^ k = 2 ^ (2 * k).
Proof. rewrite N.pow_mul_r. reflexivity. Qed.
Lemma pow4_pos k : 0 < 4 ^ k.
Proof. apply N.neq_0_lt_0, N.pow_nonzero; lia. Qed.
Lemma pow4_S (m : nat) : 4 ^ N.of_nat (S m) = 4 * 4 ^ N.of_nat m.
Proof. rewrite Nat2N.inj_succ, N.pow_succ_r'. reflexivity. Qed.
Lemma pow4_le (a b : nat) : (a <= b)%nat -> 4 ^ N.of_nat a <= 4 ^ N.of_nat b.
Proof. intros H. apply N.pow_le_mono_r; lia. Qed.
Lemma pow4_32 : 4 ^ N.of_nat 32 = 2 ^ 64.
Proof. reflexivity. Qed.

(* finite facts, by evaluation over the whole index range *)
Lemma forallb_range n f : forallb f (range n) = true -> forall i, i < n -> f i = true.
Proof. intros H i Hi. rewrite forallb_forall in H. apply H, in_range. assumption. Qed.

Lemma tab2_ok c q : c < 4 -> q < 4 ->
  tab2 base_pattern c q = Some (digit2 c q) /\ tab2 configuration c q = Some (next2 c q).
Proof.
  intros Hc Hq.
  assert (F : forallb (fun c => forallb (fun q =>
            match tab2 base_pattern c q, tab2 configuration c q with
            | Some b, Some n => (b =? digit2 c q) && (n =? next2 c q)
            | _, _ => false
            end) (range 4)) (range 4) = true) by (vm_compute; reflexivity).
  pose proof (forallb_range _ _ (forallb_range _ _ F c Hc) q Hq) as G. cbv beta in G.
  destruct (tab2 base_pattern c q), (tab2 configuration c q); try discriminate.
  apply andb_prop in G. destruct G as [G1 G2]. apply N.eqb_eq in G1. apply N.eqb_eq in G2. subst. auto.
Qed.

Lemma land_f000 c low : c < 4 -> low < 4096 -> N.land (c * 4096 + low) 0xf000 = c * 4096.
Proof.
  intros Hc Hlow. rewrite <- lor_add_4096 by assumption.
  rewrite N.land_lor_distr_l.
  change 0xf000 with (15 * 2 ^ 12). change 4096 with (2 ^ 12).
  rewrite (N.land_comm low), (land_low_mul 15 low 12) by assumption. rewrite N.lor_0_r.
  rewrite <- !N.shiftl_mul_pow2, <- N.shiftl_land. f_equal.
  change 15 with (N.ones 4). rewrite N.land_ones. apply N.mod_small. cbn. lia.
Qed.

(* ------------------------------------------------------- encode_2d_slow *)
Notation enc_2 := (enc 2 digit2 next2).
Notation st_2 := (st 2 next2).

Lemma enc2_lt4 n s z : s < 4 -> enc_2 n s z < 4 ^ N.of_nat n.
Proof. intros Hs. rewrite <- Qp2. apply (cert_enc_lt _ _ _ _ cert2). assumption. Qed.
Lemma st2_lt n s z : s < 4 -> st_2 n s z < 4.
Proof. intros Hs. apply (cert_st_closed _ _ _ _ cert2). assumption. Qed.

Lemma quadrant_qd (i : nat) z : N.land (N.shiftr z (2 * N.of_nat i)) 3 = qd 2 i z.
Proof. rewrite land_3, N.shiftr_div_pow2. reflexivity. Qed.

Lemma slow_loop_spec (i : nat) : forall (k : nat) z h c,
  c < 4 -> h < 4 ^ N.of_nat k -> (k + i <= 32)%nat ->
  slow_loop i z h c = Ok (h * 4 ^ N.of_nat i + enc_2 i c z, st_2 i c z).
Proof.
  induction i as [|i' IH]; intros k z h c Hc Hh Hk.
  - cbn [slow_loop enc st]. change (4 ^ N.of_nat 0) with 1. f_equal. f_equal. lia.
  - cbn [slow_loop]. cbv zeta.
    destruct (N.leb_spec 64 (2 * N.of_nat i')) as [Hsh | Hsh]; [lia|].
    rewrite quadrant_qd.
    pose proof (qd_lt 2 i' z) as Hq. change (2 ^ 2) with 4 in Hq.
    destruct (tab2_ok c _ Hc Hq) as [T1 T2]. rewrite T1, T2.
    pose proof (cert_state _ _ _ _ cert2 c Hc) as [Cq _]. destruct (Cq _ Hq) as [Hn [Hd _]].
    change (2 ^ 2) with 4 in Hd.
    assert (Hh4 : h * 4 < 4 ^ N.of_nat (S k)) by (rewrite pow4_S; lia).
    assert (H64 : h * 4 < 2 ^ 64).
    { rewrite <- pow4_32. eapply N.lt_le_trans; [exact Hh4 | apply pow4_le; lia]. }
    rewrite N.shiftl_mul_pow2. change (2 ^ 2) with 4.
    rewrite wrap64_small by assumption.
    change 4 with (2 ^ 2) at 1. rewrite lor_add by (change (2 ^ 2) with 4; assumption).
    change (2 ^ 2) with 4.
    rewrite (IH (S k)) by (try assumption; try lia; rewrite pow4_S; lia).
    cbn [enc st]. rewrite Qp2, pow4_S. f_equal. f_equal. lia.
Qed.

Theorem encode_2d_slow_spec (n : nat) z c : (n <= 32)%nat -> c < 4 ->
  encode_2d_slow z n c = Ok (enc_2 n c z, st_2 n c z).
Proof.
  intros Hn Hc. unfold encode_2d_slow.
  rewrite (slow_loop_spec n 0) by (try assumption; try lia; cbn; lia).
  f_equal.
Qed.

(* --------------------------------------------------------------- the LUT *)
Lemma lut2_get_spec c ch : c < 4 -> ch < 4096 ->
  lut2_get (c * 4096 + ch) = Ok (st_2 6 c ch * 4096 + enc_2 6 c ch).
Proof.
  intros Hc Hch. unfold lut2_get.
  destruct (N.ltb_spec (c * 4096 + ch) lut2_len) as [_ | Hge]; [| unfold lut2_len in Hge; lia].
  destruct (N.ltb_spec (c * 4096 + ch) lut2_built) as [_ | Hge]; [| unfold lut2_built in Hge; lia].
  unfold lut2_entry. change lut2_chunk_bits with 12. change lut2_order with 6%nat.
  rewrite land_fff, N.shiftr_div_pow2. change (2 ^ 12) with 4096.
  replace ((c * 4096 + ch) mod 4096) with ch
    by (apply N.mod_unique with (q := c); lia).
  replace ((c * 4096 + ch) / 4096) with c
    by (apply N.div_unique with (r := ch); lia).
  rewrite encode_2d_slow_spec by (try assumption; lia).
  pose proof (enc2_lt4 6 c ch Hc) as He. change (4 ^ N.of_nat 6) with 4096 in He.
  pose proof (st2_lt 6 c ch Hc) as Hs.
  rewrite N.shiftl_mul_pow2. change (2 ^ 12) with 4096.
  rewrite !wrap16_small by (change (2 ^ 16) with 65536; lia).
  change 4096 with (2 ^ 12). rewrite lor_add by assumption. reflexivity.
Qed.

(* -------------------------------------------------------- the chunk loop *)
Lemma chunk_of_shift z (r : nat) : (6 < r)%nat ->
  N.land (N.shiftr z (Z.to_N (2 * Z.of_nat r - 12))) 0xfff = (z / 4 ^ N.of_nat (r - 6)) mod 4096.
Proof.
  intros Hr. rewrite land_fff, N.shiftr_div_pow2. f_equal. f_equal.
  rewrite pow4_2. f_equal. lia.
Qed.

Lemma enc2_app n m s z :
  enc_2 (n + m) s z = enc_2 n s (z / 4 ^ N.of_nat m) * 4 ^ N.of_nat m + enc_2 m (st_2 n s (z / 4 ^ N.of_nat m)) z.
Proof. rewrite enc_app, Qp2. reflexivity. Qed.

Lemma enc2_mod n s z : enc_2 n s (z mod 4 ^ N.of_nat n) = enc_2 n s z.
Proof. rewrite <- Qp2. symmetry. apply enc_mod. Qed.
Lemma st2_mod n s z : st_2 n s (z mod 4 ^ N.of_nat n) = st_2 n s z.
Proof. rewrite <- Qp2. symmetry. apply st_mod. Qed.

Lemma e2_loop_exit fuel z cfg h sh : (sh <= 0)%Z -> e2_loop fuel z cfg h sh = Ok (cfg, h, sh).
Proof.
  intros Hsh. assert (E : (0 <? sh)%Z = false) by (apply Z.ltb_ge; assumption).
  destruct fuel; cbn [e2_loop]; rewrite E; reflexivity.
Qed.

(* last chunk: r <= 6 levels remain, zero-padded to 6 *)
Lemma e2_last (r k : nat) z c low h :
  (r <= 6)%nat -> c < 4 -> low < 4096 -> h < 4 ^ N.of_nat k -> (k + r <= 32)%nat ->
  e2_final true z (c * 4096 + low, h, (2 * Z.of_nat r - 12)%Z) = Ok (h * 4 ^ N.of_nat r + enc_2 r c z).
Proof.
  intros Hr6 Hc Hlow Hh Hk.
      cbn [e2_final]. cbv zeta.
      replace (Z.to_N (- (2 * Z.of_nat r - 12))) with (2 * N.of_nat (6 - r)) by lia.
      replace (Z.to_N (12 + (2 * Z.of_nat r - 12))) with (2 * N.of_nat r) by lia.
      rewrite (land_f000 c low) by assumption.
      rewrite land_fff, wrap64_mod, N.shiftl_mul_pow2, <- pow4_2.
      (* ((z * 4^(6-r)) mod 2^64) mod 4096 = (z mod 4^r) * 4^(6-r) *)
      set (p := 4 ^ N.of_nat (6 - r)). set (pr := 4 ^ N.of_nat r).
      assert (Pp : 0 < p) by apply pow4_pos. assert (Ppr : 0 < pr) by apply pow4_pos.
      assert (E4096 : 4096 = pr * p).
      { unfold p, pr. rewrite <- N.pow_add_r. replace (N.of_nat r + N.of_nat (6 - r)) with 6 by lia. reflexivity. }
      assert (Echunk : ((z * p) mod 2 ^ 64) mod 4096 = (z mod pr) * p).
      { change (2 ^ 64) with (4096 * 2 ^ 52). rewrite N.mod_mul_r by (cbn; lia).
        rewrite (N.mul_comm 4096), N.mod_add by lia. rewrite N.mod_mod by lia.
        rewrite E4096, (N.mul_comm pr p), (N.mul_comm z p), N.mul_mod_distr_l by lia. lia. }
      rewrite Echunk.
      assert (Hw : (z mod pr) * p < 4096).
      { rewrite E4096. apply N.mul_lt_mono_pos_r; [assumption | apply N.mod_lt; lia]. }
      rewrite wrap16_small by (change (2 ^ 16) with 65536; lia).
      change 4096 with (2 ^ 12) at 1. rewrite lor_add by (change (2 ^ 12) with 4096; assumption).
      change (2 ^ 12) with 4096.
      rewrite lut2_get_spec by assumption.
      set (w := (z mod pr) * p) in *.
      pose proof (enc2_lt4 6 c w Hc) as He. change (4 ^ N.of_nat 6) with 4096 in He.
      rewrite land_fff.
      replace ((st_2 6 c w * 4096 + enc_2 6 c w) mod 4096) with (enc_2 6 c w)
        by (apply N.mod_unique with (q := st_2 6 c w); lia).
      (* enc 6 c w = enc r c z * p + (a remainder below p) *)
      replace 6%nat with (r + (6 - r))%nat at 1 by lia.
      rewrite enc2_app. fold p.
      replace (w / p) with (z mod pr) by (unfold w; rewrite N.div_mul by lia; reflexivity).
      unfold pr at 1. rewrite enc2_mod.
      pose proof (enc2_lt4 (6 - r) (st_2 r c (z mod pr)) w (st2_lt r c _ Hc)) as Hrem. fold p in Hrem.
      rewrite N.shiftr_div_pow2, <- pow4_2. fold p.
      replace ((enc_2 r c z * p + enc_2 (6 - r) (st_2 r c (z mod pr)) w) / p) with (enc_2 r c z)
        by (apply N.div_unique with (r := enc_2 (6 - r) (st_2 r c (z mod pr)) w); lia).
      rewrite N.shiftl_mul_pow2, <- pow4_2. fold pr.
      assert (H64 : h * pr < 2 ^ 64).
      { rewrite <- pow4_32. apply N.lt_le_trans with (4 ^ N.of_nat k * pr).
        - apply N.mul_lt_mono_pos_r; assumption.
        - unfold pr. rewrite <- N.pow_add_r, <- Nat2N.inj_add. apply pow4_le. lia. }
      rewrite wrap64_small by assumption.
      pose proof (enc2_lt4 r c z Hc) as Her. fold pr in Her.
      unfold pr. rewrite pow4_2. rewrite lor_add by (rewrite <- pow4_2; assumption). reflexivity.
Qed.

(* the loop followed by the final chunk, from any intermediate state:
   r levels remain, c is the current state, h the index of the levels done *)
Lemma e2_tail (fuel : nat) : forall (r k : nat) z c low h,
  (r <= fuel)%nat -> c < 4 -> low < 4096 -> h < 4 ^ N.of_nat k -> (k + r <= 32)%nat ->
  bind (e2_loop fuel z (c * 4096 + low) h (2 * Z.of_nat r - 12)) (e2_final true z)
  = Ok (h * 4 ^ N.of_nat r + enc_2 r c z).
Proof.
  induction fuel as [|f IH]; intros r k z c low h Hf Hc Hlow Hh Hk.
  - rewrite e2_loop_exit by lia. cbn [bind]. apply (e2_last r k); try assumption; lia.
  - destruct (le_lt_dec r 6) as [Hr6 | Hr6].
    + rewrite e2_loop_exit by lia. cbn [bind]. apply (e2_last r k); assumption.
    + (* a full chunk: the 6 top levels of the r remaining ones *)
      assert (Hsh : (0 <? 2 * Z.of_nat r - 12)%Z = true) by (apply Z.ltb_lt; lia).
      cbn [e2_loop]. rewrite Hsh.
      destruct (Z.leb_spec 64 (2 * Z.of_nat r - 12)) as [Hbig | _]; [lia|].
      cbv zeta. rewrite chunk_of_shift by assumption.
      set (zt := z / 4 ^ N.of_nat (r - 6)).
      set (ch := zt mod 4096).
      assert (Hch : ch < 4096) by (apply N.mod_lt; lia).
      assert (Eenc : enc_2 6 c ch = enc_2 6 c zt) by (apply (enc2_mod 6)).
      assert (Est : st_2 6 c ch = st_2 6 c zt) by (apply (st2_mod 6)).
      rewrite (land_f000 c low) by assumption.
      rewrite wrap16_small by (change (2 ^ 16) with 65536; lia).
      rewrite lor_add_4096 by assumption.
      rewrite lut2_get_spec by assumption.
      rewrite Eenc, Est.
      pose proof (enc2_lt4 6 c zt Hc) as He. change (4 ^ N.of_nat 6) with 4096 in He.
      pose proof (st2_lt 6 c zt Hc) as Hs.
      rewrite land_fff.
      replace ((st_2 6 c zt * 4096 + enc_2 6 c zt) mod 4096) with (enc_2 6 c zt)
        by (apply N.mod_unique with (q := st_2 6 c zt); lia).
      rewrite N.shiftl_mul_pow2. change (2 ^ 12) with 4096.
      assert (Hh6 : h * 4096 + enc_2 6 c zt < 4 ^ N.of_nat (k + 6)).
      { rewrite Nat2N.inj_add, N.pow_add_r. change (4 ^ N.of_nat 6) with 4096. nia. }
      assert (H64 : h * 4096 < 2 ^ 64).
      { rewrite <- pow4_32.
        eapply N.le_lt_trans; [| eapply N.lt_le_trans; [exact Hh6 | apply pow4_le; lia]]. lia. }
      rewrite wrap64_small by assumption.
      rewrite lor_add_4096 by assumption.
      replace (2 * Z.of_nat r - 12 - 12)%Z with (2 * Z.of_nat (r - 6) - 12)%Z by lia.
      rewrite (IH (r - 6)%nat (k + 6)%nat) by (try assumption; lia).
      f_equal. replace r with (6 + (r - 6))%nat at 3 4 by lia.
      rewrite enc2_app. fold zt.
      rewrite (Nat2N.inj_add 6 (r - 6)), N.pow_add_r. change (4 ^ N.of_nat 6) with 4096. lia.
Qed.

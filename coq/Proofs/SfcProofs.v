(* Proofs about Model/SfcPart.v (HilbertCurve half; the ZCurve half is in
   Proofs/ZCurveProofs.v). *)
From Coupe Require Import Lib.Prelude Lib.SFloat Lib.Sorting Model.SfcPart Proofs.SortingProofs.
From Coq Require Import Floats.SpecFloat.
Open Scope nat_scope.

(* ------------------------------------------------------------------ *)
(* partition_indexed: part id = binary search of the curve index       *)
(* ------------------------------------------------------------------ *)

(* what the property says about (curve index, part id) pairs *)
Definition mono_pairs (l : list (N * N)) : Prop :=
  forall a b, In a l -> In b l ->
    ((fst a < fst b)%N -> (snd a <= snd b)%N) /\ (fst a = fst b -> snd a = snd b).

Definition part_of (splits : list N) (i p : N) : Prop :=
  exists m, bsearch_idx splits i = Ok m /\ p = N.of_nat m.

Lemma assign_parts_total splits idx : exists ids, assign_parts splits idx = Ok ids.
Proof.
  induction idx as [|i t [r IH]]; [eexists; reflexivity|].
  destruct (bsearch_le_len splits i) as [m [Hm _]].
  cbn [assign_parts]. rewrite Hm. cbn [bind]. rewrite IH. cbn [bind]. eexists; reflexivity.
Qed.

Lemma assign_parts_spec splits : forall idx ids,
  assign_parts splits idx = Ok ids -> Forall2 (part_of splits) idx ids.
Proof.
  induction idx as [|i t IH]; intros ids H; cbn [assign_parts] in H.
  - injection H as <-. constructor.
  - destruct (bsearch_idx splits i) as [m| | |] eqn:Hm; cbn [bind] in H; try discriminate.
    destruct (assign_parts splits t) as [r| | |] eqn:Hr; cbn [bind] in H; try discriminate.
    injection H as <-. constructor; [exists m; auto|apply IH; reflexivity].
Qed.

Lemma Forall2_combine_in {A B} (R : A -> B -> Prop) : forall l1 l2,
  Forall2 R l1 l2 -> forall a b, In (a, b) (combine l1 l2) -> R a b.
Proof.
  induction 1 as [|x y l1 l2 Hxy HF IH]; intros a b Hin; cbn [combine] in Hin; [destruct Hin|].
  destruct Hin as [E|Hin]; [injection E as <- <-; exact Hxy|apply IH, Hin].
Qed.

Lemma Forall2_length' {A B} (R : A -> B -> Prop) l1 l2 : Forall2 R l1 l2 -> length l1 = length l2.
Proof. induction 1; cbn [length]; congruence. Qed.

Lemma Forall2_Forall_r {A B} (R : A -> B -> Prop) (P : B -> Prop) l1 l2 :
  (forall a b, R a b -> P b) -> Forall2 R l1 l2 -> Forall P l2.
Proof. intros HP. induction 1; constructor; eauto. Qed.

(* THE theorem of the Hilbert half: for EVERY split vector (sorted or not) the
   part id is a monotone function of the curve index *)
Theorem hilbert_monotone : forall (splits idx ids : list N),
  assign_parts splits idx = Ok ids ->
  length ids = length idx
  /\ mono_pairs (combine idx ids)
  /\ Forall (fun p => (p <= N.of_nat (length splits))%N) ids.
Proof.
  intros splits idx ids H. apply assign_parts_spec in H.
  split; [symmetry; eapply Forall2_length'; eauto|]. split.
  - intros [i1 p1] [i2 p2] H1 H2. cbn [fst snd].
    destruct (Forall2_combine_in _ _ _ H _ _ H1) as [m1 [B1 ->]].
    destruct (Forall2_combine_in _ _ _ H _ _ H2) as [m2 [B2 ->]].
    split.
    + intros Hlt. destruct (bsearch_mono splits i1 i2) as [j1 [j2 [J1 [J2 Hle]]]]; [lia|].
      rewrite B1 in J1. rewrite B2 in J2. injection J1 as <-. injection J2 as <-. lia.
    + intros ->. rewrite B1 in B2. injection B2 as <-. reflexivity.
  - eapply Forall2_Forall_r; [|exact H]. intros i p [m [B ->]].
    destruct (bsearch_le_len splits i) as [m' [B' Hle]]. rewrite B in B'. injection B' as <-. lia.
Qed.

(* ---- the checker decides the property ---- *)

Lemma mono_pair_ok a b :
  mono_pair a b = true <->
  (((fst a < fst b)%N -> (snd a <= snd b)%N) /\ (fst a = fst b -> snd a = snd b)).
Proof.
  unfold mono_pair. rewrite andb_true_iff.
  destruct (N.ltb_spec (fst a) (fst b)) as [L|L], (N.eqb_spec (fst a) (fst b)) as [E|E];
    rewrite ?N.leb_le, ?N.eqb_eq; intuition (try lia; try congruence).
Qed.

Theorem check_monotone_ok idx parts :
  check_monotone idx parts = true <-> (length idx = length parts /\ mono_pairs (combine idx parts)).
Proof.
  unfold check_monotone, mono_pairs. rewrite andb_true_iff, Nat.eqb_eq, forallb_forall.
  split; intros [HL H]; (split; [exact HL|]).
  - intros a b Ha Hb. apply mono_pair_ok. specialize (H a Ha). rewrite forallb_forall in H. auto.
  - intros a Ha. apply forallb_forall. intros b Hb. apply mono_pair_ok. auto.
Qed.

(* ------------------------------------------------------------------ *)
(* weighted_quantiles: one split per part boundary                      *)
(* ------------------------------------------------------------------ *)

Lemma update_splits_length tol n positions pws total : forall ss p lefts r c,
  length ss <= length lefts ->
  update_splits tol n positions pws total p ss lefts = Ok (r, c) -> length r = length ss.
Proof.
  induction ss as [|s st IH]; intros p lefts r c HL H.
  - cbn [update_splits] in H. injection H as <- <-. reflexivity.
  - destruct lefts as [|l lt]; [cbn [length] in HL; lia|].
    cbn [update_splits] in H.
    destruct (update_split tol n positions pws total p s l) as [[s' b]| | |]; cbn [bind] in H; try discriminate.
    destruct (update_splits tol n positions pws total (S p) st lt) as [[r' c']| | |] eqn:E; cbn [bind] in H; try discriminate.
    injection H as <- <-. cbn [length] in *. f_equal. eapply IH; [|exact E]. lia.
Qed.

Lemma part_weights_of_length positions : forall pts ws acc r,
  part_weights_of positions pts ws acc = Ok r -> length r = length acc.
Proof.
  induction pts as [|p pt IH]; intros ws acc r H; cbn [part_weights_of] in H.
  - injection H as <-. reflexivity.
  - destruct ws as [|w wt]; [injection H as <-; reflexivity|].
    destruct (bsearch_pc_idx positions p) as [s| | |]; cbn [bind] in H; try discriminate.
    destruct (nth_opt acc s) as [x|]; [|discriminate].
    apply IH in H. rewrite H. apply set_nth_length.
Qed.

Lemma prefix_sums_length : forall l acc, length (prefix_sums acc l) = length l.
Proof. induction l as [|x t IH]; intros acc; cbn [prefix_sums length]; [reflexivity|f_equal; apply IH]. Qed.

Lemma wq_round_length tol n pts ws ss r c :
  length ss <= n -> wq_round tol n pts ws ss = Ok (r, c) -> length r = length ss.
Proof.
  intros HL H. unfold wq_round in H.
  destruct (part_weights_of (map s_pos ss) pts ws (repeat fzero n)) as [pws| | |] eqn:E; cbn [bind] in H; try discriminate.
  apply part_weights_of_length in E. rewrite repeat_length in E.
  eapply update_splits_length; [|exact H]. rewrite prefix_sums_length. lia.
Qed.

Lemma wq_loop_length tol n pts ws : forall fuel ss todo r,
  length ss <= n -> wq_loop tol fuel n pts ws ss todo = Ok r -> length r = length ss.
Proof.
  induction fuel as [|f IH]; intros ss todo r HL H; destruct todo as [|t]; cbn [wq_loop] in H;
    try (injection H as <-; reflexivity); try discriminate.
  destruct (wq_round tol n pts ws ss) as [[ss' c]| | |] eqn:E; cbn [bind] in H; try discriminate.
  pose proof (wq_round_length _ _ _ _ _ _ _ HL E) as HL'.
  apply IH in H; [congruence|lia].
Qed.

(* `weighted_quantiles(.., n)` returns exactly n - 1 positions (whenever it returns) *)
Theorem weighted_quantiles_length tol fuel pts ws n splits :
  weighted_quantiles tol fuel pts ws n = Ok splits -> n >= 1 /\ length splits = n - 1.
Proof.
  unfold weighted_quantiles. destruct n as [|n']; [discriminate|].
  destruct (min_list pts) as [mn|]; [|discriminate].
  destruct (max_list pts) as [mx|]; [|discriminate].
  intros H.
  destruct (wq_loop tol fuel (S n') pts ws (init_splits mn mx (S n')) (length (init_splits mn mx (S n')))) as [ss'| | |] eqn:E;
    cbn [bind] in H; try discriminate.
  injection H as <-. split; [lia|].
  apply wq_loop_length in E.
  - rewrite map_length, E. unfold init_splits. rewrite map_length, seq_length. reflexivity.
  - unfold init_splits. rewrite map_length, seq_length. lia.
Qed.

Lemma write_zip_same_length : forall p0 ids, length p0 = length ids -> write_zip p0 ids = ids.
Proof.
  induction p0 as [|x t IH]; intros [|y u] HL; cbn [length] in HL; try lia; cbn [write_zip]; [reflexivity|].
  f_equal. apply IH. lia.
Qed.

(* HilbertCurve::partition as a whole, for every run that returns: the order
   was accepted, there is one split per part boundary, ids are below
   part_count and monotone along the curve.  (Termination of the quantile
   loop is NOT proved: the statement is about runs that return [Ok].) *)
Theorem hilbert_partition_monotone tol maxo order fuel idx ws k p0 p :
  p0 <> [] -> length idx = length p0 ->
  hilbert_partition tol maxo order fuel idx ws k p0 = Ok p ->
  (order <= maxo)%N /\ k >= 1
  /\ length p = length p0
  /\ mono_pairs (combine idx p)
  /\ Forall (fun x => (x < N.of_nat k)%N) p.
Proof.
  intros Hne HL H. unfold hilbert_partition in H.
  destruct (N.ltb_spec maxo order) as [Hlt|Hle]; [discriminate|].
  assert (H' : bind (weighted_quantiles tol fuel idx ws k) (fun splits =>
                bind (assign_parts splits idx) (fun ids => Ok (write_zip p0 ids))) = Ok p)
    by (destruct p0; [congruence|exact H]).
  clear H. rename H' into H.
  destruct (weighted_quantiles tol fuel idx ws k) as [splits| | |] eqn:EW; cbn [bind] in H; try discriminate.
  destruct (assign_parts splits idx) as [ids| | |] eqn:EA; cbn [bind] in H; try discriminate.
  injection H as <-.
  apply weighted_quantiles_length in EW. destruct EW as [Hk HS].
  destruct (hilbert_monotone _ _ _ EA) as [HLi [HM HB]].
  rewrite write_zip_same_length by congruence.
  split; [exact Hle|]. split; [exact Hk|]. split; [congruence|]. split; [exact HM|].
  eapply Forall_impl; [|exact HB]. cbn beta. intros a Ha. lia.
Qed.

(* the early exits *)
Theorem hilbert_partition_invalid_order tol maxo order fuel idx ws k p0 :
  (maxo < order)%N -> hilbert_partition tol maxo order fuel idx ws k p0 = Err (InvalidOrder maxo order).
Proof. intros H. unfold hilbert_partition. destruct (N.ltb_spec maxo order); [reflexivity|lia]. Qed.

(* the only panics of the model inside the contract would be index errors of
   the quantile search; none is reachable: *)
Theorem assign_parts_no_panic splits idx : exists ids, assign_parts splits idx = Ok ids.
Proof. apply assign_parts_total. Qed.

(* ------------------------------------------------------------------ *)
(* weighted_quantiles never panics (it returns or runs out of fuel)     *)
(* ------------------------------------------------------------------ *)

Definition no_panic {A} (r : res A) : Prop := (exists a, r = Ok a) \/ r = OutOfFuel.

Lemma part_weights_of_ok positions : forall pts ws acc,
  length acc = S (length positions) -> exists r, part_weights_of positions pts ws acc = Ok r.
Proof.
  induction pts as [|p pt IH]; intros ws acc HL; cbn [part_weights_of]; [eexists; reflexivity|].
  destruct ws as [|w wt]; [eexists; reflexivity|].
  destruct (bsearch_pc_le_len positions p) as [s [Hs Hle]]. rewrite Hs. cbn [bind].
  destruct (nth_opt_lt acc s) as [x Hx]; [lia|]. rewrite Hx.
  apply IH. rewrite set_nth_length. exact HL.
Qed.

Lemma scan_up_ok eps positions pws expected : forall qs pw mn mx,
  Forall (fun q => q < length pws /\ q < length positions) qs ->
  exists r, scan_up eps positions pws expected qs pw mn mx = Ok r.
Proof.
  induction qs as [|q qt IH]; intros pw mn mx HF; cbn [scan_up]; [eexists; reflexivity|].
  inversion HF as [|? ? [H1 H2] HT]; subst.
  destruct (nth_opt_lt pws q H1) as [w Hw]. destruct (nth_opt_lt positions q H2) as [sq Hsq].
  rewrite Hw, Hsq.
  destruct (abs_diff_eq eps (f64_add pw w) expected); [eexists; reflexivity|].
  destruct (flt expected (f64_add pw w)); [eexists; reflexivity|].
  destruct (flt (f64_add pw w) expected); apply IH; exact HT.
Qed.

Lemma scan_down_ok eps positions pws expected : forall qs pw mn mx,
  Forall (fun q => S q < length pws /\ q < length positions) qs ->
  exists r, scan_down eps positions pws expected qs pw mn mx = Ok r.
Proof.
  induction qs as [|q qt IH]; intros pw mn mx HF; cbn [scan_down]; [eexists; reflexivity|].
  inversion HF as [|? ? [H1 H2] HT]; subst.
  destruct (nth_opt_lt pws (S q) H1) as [w Hw]. destruct (nth_opt_lt positions q H2) as [sq Hsq].
  rewrite Hw, Hsq.
  destruct (abs_diff_eq eps (f64_sub pw w) expected); [eexists; reflexivity|].
  destruct (flt (f64_sub pw w) expected); [eexists; reflexivity|].
  destruct (flt expected (f64_sub pw w)); apply IH; exact HT.
Qed.

Lemma update_split_ok tol n positions pws total p s left :
  length positions = n - 1 -> length pws = n -> p < n - 1 ->
  exists r, update_split tol n positions pws total p s left = Ok r.
Proof.
  intros HP HW Hp. unfold update_split.
  destruct (s_settled s); [eexists; reflexivity|].
  destruct (flt _ tol); [eexists; reflexivity|].
  match goal with |- exists r, bind ?X _ = _ => assert (HX : exists mm, X = Ok mm) end.
  { destruct (flt _ _).
    - apply scan_up_ok. rewrite Forall_forall. intros q Hq. apply in_seq in Hq. lia.
    - apply scan_down_ok. rewrite Forall_forall. intros q Hq. apply in_rev in Hq. apply in_seq in Hq. lia. }
  destruct HX as [[mn mx] ->]. cbn [bind].
  destruct (s_pos s =? avg_u64 mn mx)%N; eexists; reflexivity.
Qed.

Lemma update_splits_ok tol n positions pws total : forall ss p lefts,
  length positions = n - 1 -> length pws = n -> p + length ss = n - 1 ->
  exists r, update_splits tol n positions pws total p ss lefts = Ok r.
Proof.
  induction ss as [|s st IH]; intros p lefts HP HW Hp; cbn [update_splits]; [eexists; reflexivity|].
  destruct lefts as [|l lt]; [eexists; reflexivity|].
  cbn [length] in Hp.
  destruct (update_split_ok tol n positions pws total p s l HP HW) as [[s' b] ->]; [lia|]. cbn [bind].
  destruct (IH (S p) lt HP HW) as [[r c] ->]; [lia|]. cbn [bind]. eexists; reflexivity.
Qed.

Lemma wq_round_ok tol n pts ws ss :
  1 <= n -> length ss = n - 1 -> exists r c, wq_round tol n pts ws ss = Ok (r, c) /\ length r = length ss.
Proof.
  intros Hn HL. unfold wq_round.
  destruct (part_weights_of_ok (map s_pos ss) pts ws (repeat fzero n)) as [pws E].
  { rewrite repeat_length, map_length. lia. }
  rewrite E. cbn [bind].
  pose proof (part_weights_of_length _ _ _ _ _ E) as HW. rewrite repeat_length in HW.
  destruct (update_splits_ok tol n (map s_pos ss) pws (fold_left f64_add pws fnegzero) ss 0 (prefix_sums fzero pws))
    as [[r c] E2]; try lia.
  { rewrite map_length. exact HL. }
  exists r, c. split; [exact E2|]. eapply update_splits_length; [|exact E2]. rewrite prefix_sums_length. lia.
Qed.

Lemma wq_loop_no_panic tol n pts ws : 1 <= n -> forall fuel ss todo,
  length ss = n - 1 -> no_panic (wq_loop tol fuel n pts ws ss todo).
Proof.
  intros Hn. induction fuel as [|f IH]; intros ss todo HL; destruct todo as [|t]; cbn [wq_loop];
    try (left; eexists; reflexivity); try (right; reflexivity).
  destruct (wq_round_ok tol n pts ws ss Hn HL) as [r [c [E L]]]. rewrite E. cbn [bind].
  apply IH. congruence.
Qed.

(* inside the contract (at least one point, part_count >= 1) the quantile
   search has no reachable panic: every index it uses is in range *)
Theorem weighted_quantiles_no_panic tol fuel pts ws n :
  pts <> [] -> 1 <= n -> no_panic (weighted_quantiles tol fuel pts ws n).
Proof.
  intros Hp Hn. unfold weighted_quantiles. destruct n as [|n']; [lia|].
  destruct pts as [|x t]; [congruence|]. cbn [min_list max_list].
  set (ss := init_splits _ _ _).
  assert (HL : length ss = S n' - 1) by (unfold ss, init_splits; rewrite map_length, seq_length; reflexivity).
  destruct (wq_loop_no_panic tol (S n') (x :: t) ws Hn fuel ss (length ss) HL) as [[r ->]| ->]; cbn [bind].
  - left. eexists; reflexivity.
  - right. reflexivity.
Qed.

Theorem hilbert_partition_no_panic tol maxo order fuel idx ws k p0 :
  length idx = length p0 -> 1 <= k ->
  no_panic (hilbert_partition tol maxo order fuel idx ws k p0)
  \/ hilbert_partition tol maxo order fuel idx ws k p0 = Err (InvalidOrder maxo order).
Proof.
  intros HL Hk. unfold hilbert_partition.
  destruct (maxo <? order)%N; [right; reflexivity|]. left.
  destruct p0 as [|x0 p0']; [left; eexists; reflexivity|].
  assert (Hne : idx <> []) by (destruct idx; [discriminate|congruence]).
  destruct (weighted_quantiles_no_panic tol fuel idx ws k Hne Hk) as [[splits ->]| ->]; cbn [bind].
  - destruct (assign_parts_total splits idx) as [ids ->]. cbn [bind]. left. eexists; reflexivity.
  - right. reflexivity.
Qed.

(* "each part is one interval of the curve": a point whose index lies between
   the indices of two points of part j is itself in part j *)
Corollary mono_pairs_intervals (l : list (N * N)) : mono_pairs l ->
  forall a b c, In a l -> In b l -> In c l ->
    (fst a <= fst c)%N -> (fst c <= fst b)%N -> snd a = snd b -> snd c = snd a.
Proof.
  intros H a b c Ha Hb Hc H1 H2 E.
  destruct (H a c Ha Hc) as [L1 E1]. destruct (H c b Hc Hb) as [L2 E2].
  destruct (N.eq_dec (fst a) (fst c)) as [Eq|Ne]; [symmetry; apply E1, Eq|].
  destruct (N.eq_dec (fst c) (fst b)) as [Eq2|Ne2]; [rewrite (E2 Eq2); symmetry; exact E|].
  assert ((snd a <= snd c)%N) by (apply L1; lia).
  assert ((snd c <= snd b)%N) by (apply L2; lia). lia.
Qed.

(* the definitions of the current source ARE the flag-parametric ones at the generated flag *)
Lemma update_splits_is_g tol n positions pws total : forall ss p lefts,
  update_splits tol n positions pws total p ss lefts
  = update_splits_g Gen.SfcGen.hilbert_eps_scaled tol n positions pws total p ss lefts.
Proof. induction ss as [|s st IH]; intros p lefts; cbn [update_splits update_splits_g]; [reflexivity|].
  destruct lefts; [reflexivity|]. change (update_split tol n positions pws total p s s0) with
    (update_split_g Gen.SfcGen.hilbert_eps_scaled tol n positions pws total p s s0).
  destruct (update_split_g _ tol n positions pws total p s s0) as [[s' b]| | |]; cbn [bind]; try reflexivity.
  rewrite IH. reflexivity.
Qed.

Lemma wq_loop_is_g tol n pts ws : forall fuel ss todo,
  wq_loop tol fuel n pts ws ss todo = wq_loop_g Gen.SfcGen.hilbert_eps_scaled tol fuel n pts ws ss todo.
Proof.
  induction fuel as [|f IH]; intros ss todo; destruct todo; cbn [wq_loop wq_loop_g]; try reflexivity.
  unfold wq_round, wq_round_g.
  destruct (part_weights_of (map s_pos ss) pts ws (repeat fzero n)) as [pws| | |]; cbn [bind]; try reflexivity.
  rewrite update_splits_is_g.
  destruct (update_splits_g _ tol n (map s_pos ss) pws (fold_left f64_add pws fnegzero) 0 ss (prefix_sums fzero pws)) as [[ss' c]| | |];
    cbn [bind]; try reflexivity. apply IH.
Qed.

Theorem weighted_quantiles_is_g tol fuel pts ws n :
  weighted_quantiles tol fuel pts ws n = weighted_quantiles_g Gen.SfcGen.hilbert_eps_scaled tol fuel pts ws n.
Proof.
  unfold weighted_quantiles, weighted_quantiles_g. destruct n; [reflexivity|].
  destruct (min_list pts); [|reflexivity]. destruct (max_list pts); [|reflexivity].
  rewrite wq_loop_is_g. reflexivity.
Qed.

Theorem hilbert_partition_is_g tol maxo order fuel idx ws k p0 :
  hilbert_partition tol maxo order fuel idx ws k p0
  = hilbert_partition_g Gen.SfcGen.hilbert_eps_scaled tol maxo order fuel idx ws k p0.
Proof.
  unfold hilbert_partition, hilbert_partition_g. destruct (maxo <? order)%N; [reflexivity|].
  destruct p0; [reflexivity|]. rewrite weighted_quantiles_is_g. reflexivity.
Qed.

(* ---- fuel is only a bound: a run that returns with some fuel returns the same
   result with any larger amount (so "Ok with fuel F" on a case means that the
   unbounded `while` loop terminates on it with that result) ---- *)
Lemma wq_loop_fuel_mono tol n pts ws : forall fuel fuel' ss todo r,
  wq_loop tol fuel n pts ws ss todo = Ok r -> fuel <= fuel' -> wq_loop tol fuel' n pts ws ss todo = Ok r.
Proof.
  induction fuel as [|f IH]; intros fuel' ss todo r H Hle; destruct todo as [|t]; cbn [wq_loop] in H.
  - destruct fuel'; exact H.
  - discriminate.
  - destruct fuel'; exact H.
  - destruct fuel' as [|f']; [lia|]. cbn [wq_loop].
    destruct (wq_round tol n pts ws ss) as [[ss' c]| | |]; cbn [bind] in *; try discriminate.
    apply IH; [exact H|lia].
Qed.

Theorem weighted_quantiles_fuel_mono tol fuel fuel' pts ws n r :
  weighted_quantiles tol fuel pts ws n = Ok r -> fuel <= fuel' -> weighted_quantiles tol fuel' pts ws n = Ok r.
Proof.
  unfold weighted_quantiles. destruct n; [discriminate|].
  destruct (min_list pts); [|discriminate]. destruct (max_list pts); [|discriminate].
  intros H Hle.
  destruct (wq_loop tol fuel (S n) pts ws (init_splits n0 n1 (S n)) (length (init_splits n0 n1 (S n)))) as [ss'| | |] eqn:E;
    cbn [bind] in H; try discriminate.
  rewrite (wq_loop_fuel_mono _ _ _ _ _ _ _ _ _ E Hle). exact H.
Qed.

Theorem hilbert_partition_fuel_mono tol maxo order fuel fuel' idx ws k p0 r :
  hilbert_partition tol maxo order fuel idx ws k p0 = Ok r -> fuel <= fuel' ->
  hilbert_partition tol maxo order fuel' idx ws k p0 = Ok r.
Proof.
  unfold hilbert_partition. destruct (maxo <? order)%N; [discriminate|]. destruct p0; [auto|].
  intros H Hle.
  destruct (weighted_quantiles tol fuel idx ws k) as [splits| | |] eqn:E; cbn [bind] in H; try discriminate.
  rewrite (weighted_quantiles_fuel_mono _ _ _ _ _ _ _ E Hle). exact H.
Qed.

(* Proofs about the cut functions of Model/Metrics.v:
   - the sprs specialisation equals the generic default method on sorted rows
     (edge_cut), and unconditionally (lambda_cut);
   - edge_cut = sum over the strictly lower triangle, for every graph; = sum over
     unordered pairs joining different parts for symmetric graphs;
   - lambda_cut = sum over vertices of weight x number of foreign parts in the
     neighbourhood;
   - rayon's tree-shaped `sum()` equals the sequential sum. *)
From Coupe Require Import Lib.Prelude Lib.Csr Model.Metrics.
From Coq Require Import Sorting.Sorted Permutation.
Open Scope Z_scope.

(* ------------------------------------------------------------- res helpers *)

Lemma traverse_ok {A B} (f : A -> res B) (h : A -> B) l :
  (forall x, In x l -> f x = Ok (h x)) -> traverse f l = Ok (map h l).
Proof.
  induction l as [|x t IH]; intros H; [reflexivity|].
  cbn [traverse map]. rewrite (H x (or_introl eq_refl)). cbn [bind].
  rewrite IH by (intros y Hy; apply H; right; exact Hy). reflexivity.
Qed.

Lemma sum_res_ok {A} (f : A -> res Z) (h : A -> Z) l :
  (forall x, In x l -> f x = Ok (h x)) -> sum_res f l = Ok (sumZ (map h l)).
Proof. intros H. unfold sum_res. rewrite (traverse_ok f h l H). reflexivity. Qed.

Lemma part_at_ok p v : (v < length p)%nat -> part_at p v = Ok (pt p v).
Proof.
  unfold part_at, pt. revert v. induction p as [|x t IH]; intros [|v] H; cbn in *; try lia; auto.
  apply IH. lia.
Qed.

Lemma part_at_panic p v : (length p <= v)%nat -> part_at p v = Panic 1.
Proof.
  unfold part_at. revert v. induction p as [|x t IH]; intros [|v] H; cbn in *; try lia; auto.
  apply IH. lia.
Qed.

(* a traversal whose only failure mode is `Panic 1` *)
Definition ok_or_panic1 {A} (r : res A) : Prop := (exists a, r = Ok a) \/ r = Panic 1.

Lemma traverse_panic1 {A B} (f : A -> res B) l :
  (forall x, In x l -> ok_or_panic1 (f x)) -> ok_or_panic1 (traverse f l).
Proof.
  induction l as [|x t IH]; intros H; [left; eexists; reflexivity|].
  cbn [traverse]. destruct (H x (or_introl eq_refl)) as [[a ->]| ->]; [|right; reflexivity].
  cbn [bind]. destruct (IH (fun y Hy => H y (or_intror Hy))) as [[ys ->]| ->].
  - left. eexists. reflexivity.
  - right. reflexivity.
Qed.

Lemma traverse_some_panic {A B} (f : A -> res B) l x :
  (forall y, In y l -> ok_or_panic1 (f y)) -> In x l -> f x = Panic 1 -> traverse f l = Panic 1.
Proof.
  induction l as [|y t IH]; intros H Hin Hx; [destruct Hin|].
  cbn [traverse]. destruct Hin as [->|Hin].
  - rewrite Hx. reflexivity.
  - destruct (H y (or_introl eq_refl)) as [[a ->]| ->]; [|reflexivity].
    cbn [bind]. rewrite IH; auto. intros z Hz. apply H. right. exact Hz.
Qed.

Lemma sum_res_panic1 {A} (f : A -> res Z) l :
  (forall x, In x l -> ok_or_panic1 (f x)) -> ok_or_panic1 (sum_res f l).
Proof.
  intros H. unfold sum_res. destruct (traverse_panic1 f l H) as [[ys ->]| ->].
  - left. eexists. reflexivity.
  - right. reflexivity.
Qed.

Lemma sum_res_some_panic {A} (f : A -> res Z) l x :
  (forall y, In y l -> ok_or_panic1 (f y)) -> In x l -> f x = Panic 1 -> sum_res f l = Panic 1.
Proof. intros H Hin Hx. unfold sum_res. rewrite (traverse_some_panic f l x H Hin Hx). reflexivity. Qed.

(* ------------------------------------------------------ indexed, row sums *)

Lemma indexed_in {A} (l : list A) v r : In (v, r) (indexed l) -> nth_opt l v = Some r.
Proof.
  unfold indexed. intros H.
  assert (G : forall (l : list A) s, In (v, r) (combine (seq s (length l)) l) ->
              (s <= v)%nat /\ nth_opt l (v - s) = Some r).
  { clear. induction l as [|x t IH]; intros s H; [destruct H|].
    cbn [length seq combine] in H. destruct H as [H|H].
    - inversion H; subst. split; [lia|]. replace (v - v)%nat with 0%nat by lia. reflexivity.
    - apply IH in H as [H1 H2]. split; [lia|].
      replace (v - s)%nat with (S (v - S s)) by lia. exact H2. }
  apply G in H as [_ H]. rewrite Nat.sub_0_r in H. exact H.
Qed.

(* sum over the indexed rows = sum over the index range *)
Lemma sum_indexed (g : graph) (F : nat -> row -> Z) :
  sumZ (map (fun vr : nat * row => F (fst vr) (snd vr)) (indexed g))
  = sum_range 0 (length g) (fun v => F v (row_of g v)).
Proof.
  unfold indexed, sum_range.
  assert (G : forall (t pre : list row),
     sumZ (map (fun vr : nat * row => F (fst vr) (snd vr)) (combine (seq (length pre) (length t)) t))
     = sumZ (map (fun v => F v (row_of (pre ++ t) v)) (seq (length pre) (length t)))).
  { induction t as [|r t IH]; intros pre; [reflexivity|].
    cbn [length seq combine map]. rewrite !sumZ_cons. f_equal.
    - cbn [fst snd]. unfold row_of. rewrite app_nth2 by lia. rewrite Nat.sub_diag. reflexivity.
    - specialize (IH (pre ++ [r])). rewrite app_length in IH. cbn [length] in IH.
      rewrite Nat.add_1_r in IH. rewrite <- app_assoc in IH. exact IH. }
  exact (G g []).
Qed.

(* a sum over the entries of a row, regrouped by neighbour index below [m] *)
Lemma row_sum_by_index (r : row) (m : nat) (c : nat -> Z) :
  sumZ (map (fun e : nat * Z => if Nat.ltb (fst e) m then c (fst e) * snd e else 0) r)
  = sum_range 0 m (fun u => c u * row_weight r u).
Proof.
  induction r as [|[u x] r IH].
  - cbn [map]. unfold sumZ at 1. cbn [fold_right].
    rewrite (sum_range_ext _ _ _ (fun _ => 0)); [rewrite sum_range_zero; reflexivity|].
    intros i _. rewrite row_weight_nil. lia.
  - cbn [map]. rewrite sumZ_cons, IH. cbn [fst snd].
    rewrite (sum_range_ext 0 m (fun u0 => c u0 * row_weight ((u, x) :: r) u0)
               (fun u0 => (if Nat.eqb u0 u then c u * x else 0) + c u0 * row_weight r u0)).
    + rewrite sum_range_add, sum_range_indicator. reflexivity.
    + intros i _. rewrite row_weight_cons. rewrite (Nat.eqb_sym u i).
      destruct (Nat.eqb_spec i u) as [->|]; lia.
Qed.

(* ------------------------------------------------- edge_cut = definition *)

Section InRange.
  Variables (g : graph) (p : list nat).
  Hypothesis Hwf : wf_graph g.
  Hypothesis Hlen : (length g <= length p)%nat.

  Lemma row_entries_in_range v r e :
    nth_opt g v = Some r -> In e r -> (fst e < length p)%nat.
  Proof.
    intros Hr He. unfold wf_graph in Hwf. rewrite Forall_forall in Hwf.
    assert (Hin : In r g).
    { clear - Hr. revert v Hr. induction g as [|x t IH]; intros [|v] H; cbn in H; try discriminate.
      - left. congruence.
      - right. eapply IH. exact H. }
    specialize (Hwf r Hin). rewrite Forall_forall in Hwf. specialize (Hwf e He). lia.
  Qed.

  Definition gen_term (v : nat) (e : nat * Z) : Z :=
    if negb (Nat.eqb (pt p v) (pt p (fst e))) && Nat.ltb (fst e) v then snd e else 0.

  Lemma cut_vertex_generic_ok v r :
    In (v, r) (indexed g) ->
    cut_vertex_generic p (v, r) = Ok (sumZ (map (gen_term v) r)).
  Proof.
    intros Hin. apply indexed_in in Hin.
    pose proof (nth_opt_Some _ _ _ Hin) as Hv.
    unfold cut_vertex_generic. rewrite part_at_ok by lia. cbn [bind].
    apply sum_res_ok. intros e He. unfold cut_entry.
    rewrite part_at_ok by (eapply row_entries_in_range; eauto). reflexivity.
  Qed.

  Lemma gen_term_sum v r :
    sumZ (map (gen_term v) r) = sum_range 0 v (fun u => crosses p u v * row_weight r u).
  Proof.
    rewrite <- (row_sum_by_index r v (fun u => crosses p u v)).
    f_equal. apply map_ext. intros [u x]. unfold gen_term, crosses. cbn [fst snd].
    rewrite (Nat.eqb_sym (pt p v) (pt p u)).
    destruct (Nat.eqb (pt p u) (pt p v)), (Nat.ltb u v); cbn [negb andb]; lia.
  Qed.

  (* what the generic code computes, for every graph: the strictly lower triangle *)
  Lemma edge_cut_lower : edge_cut g p = Ok (cut_lower g p).
  Proof.
    unfold edge_cut.
    rewrite (sum_res_ok _ (fun vr => sumZ (map (gen_term (fst vr)) (snd vr)))).
    - f_equal. etransitivity; [exact (sum_indexed g (fun v r => sumZ (map (gen_term v) r)))|].
      unfold cut_lower. apply sum_range_ext. intros v _. rewrite gen_term_sum. reflexivity.
    - intros [v r] Hin. apply cut_vertex_generic_ok. exact Hin.
  Qed.

  Definition sprs_term (v : nat) (e : nat * Z) : Z :=
    if negb (Nat.eqb (pt p v) (pt p (fst e))) then snd e else 0.

  Lemma cut_vertex_sprs_ok v r :
    In (v, r) (indexed g) ->
    cut_vertex_sprs p (v, r)
    = Ok (sumZ (map (sprs_term v) (take_while (fun e : nat * Z => Nat.ltb (fst e) v) r))).
  Proof.
    intros Hin. apply indexed_in in Hin.
    pose proof (nth_opt_Some _ _ _ Hin) as Hv.
    unfold cut_vertex_sprs. rewrite part_at_ok by lia. cbn [bind].
    apply sum_res_ok. intros e He. unfold sprs_entry.
    assert (He' : In e r).
    { clear - He. induction r as [|y t IH]; cbn [take_while] in He; [destruct He|].
      destruct (Nat.ltb (fst y) v); [|destruct He]. destruct He as [->|He]; [left|right]; auto. }
    rewrite part_at_ok by (eapply row_entries_in_range; eauto). reflexivity.
  Qed.
End InRange.

(* on a sorted row, stopping at the first index >= v loses nothing *)
Lemma take_while_sorted_sum (p : list nat) v (r : row) :
  StronglySorted le (map fst r) ->
  sumZ (map (sprs_term p v) (take_while (fun e : nat * Z => Nat.ltb (fst e) v) r))
  = sumZ (map (gen_term p v) r).
Proof.
  induction r as [|e r IH]; intros Hs; [reflexivity|].
  cbn [map] in Hs. inversion Hs as [|? ? Hs' Hall]; subst.
  cbn [take_while map]. unfold gen_term at 1.
  destruct (Nat.ltb_spec (fst e) v) as [Hlt|Hge].
  - cbn [map]. rewrite !sumZ_cons, IH by exact Hs'. unfold sprs_term at 1.
    rewrite andb_true_r. reflexivity.
  - rewrite andb_false_r. cbn [map]. unfold sumZ at 1. cbn [fold_right].
    (* every later index is >= fst e >= v *)
    assert (Z0 : sumZ (map (gen_term p v) r) = 0).
    { clear IH Hs Hs'. induction r as [|y t IHt]; [reflexivity|].
      cbn [map] in Hall. inversion Hall; subst. cbn [map]. rewrite sumZ_cons, IHt by assumption.
      unfold gen_term. destruct (Nat.ltb_spec (fst y) v); [lia|]. rewrite andb_false_r. reflexivity. }
    rewrite sumZ_cons, Z0. reflexivity.
Qed.

Lemma row_sorted_of g v r : rows_sorted g -> nth_opt g v = Some r -> StronglySorted le (map fst r).
Proof.
  unfold rows_sorted. rewrite Forall_forall. intros H Hr. apply H.
  clear - Hr. revert v Hr. induction g as [|x t IH]; intros [|v] H; cbn in H; try discriminate.
  - left. congruence.
  - right. eapply IH. exact H.
Qed.

Lemma sprs_edge_cut_lower g p :
  wf_graph g -> (length g <= length p)%nat -> rows_sorted g ->
  sprs_edge_cut g p = Ok (cut_lower g p).
Proof.
  intros Hwf Hlen Hs. rewrite <- (edge_cut_lower g p Hwf Hlen).
  unfold sprs_edge_cut, edge_cut.
  rewrite (sum_res_ok _ (fun vr => sumZ (map (gen_term p (fst vr)) (snd vr)))).
  - rewrite (sum_res_ok (cut_vertex_generic p) (fun vr => sumZ (map (gen_term p (fst vr)) (snd vr)))).
    + reflexivity.
    + intros [v r] Hin. apply (cut_vertex_generic_ok g p Hwf Hlen). exact Hin.
  - intros [v r] Hin. rewrite (cut_vertex_sprs_ok g p Hwf Hlen v r Hin). cbn [fst snd].
    rewrite take_while_sorted_sum; [reflexivity|].
    eapply row_sorted_of; [exact Hs|]. apply indexed_in. exact Hin.
Qed.

(* partition too short: both implementations panic at `partition[vertex]` *)
Lemma cut_entry_panic1 p pv v e : ok_or_panic1 (cut_entry p pv v e).
Proof.
  unfold cut_entry, part_at. destruct (nth_opt p (fst e)); cbn [bind]; [left; eexists; reflexivity|right; reflexivity].
Qed.
Lemma sprs_entry_panic1 p pv e : ok_or_panic1 (sprs_entry p pv e).
Proof.
  unfold sprs_entry, part_at. destruct (nth_opt p (fst e)); cbn [bind]; [left; eexists; reflexivity|right; reflexivity].
Qed.
Lemma cut_vertex_generic_panic1 p vr : ok_or_panic1 (cut_vertex_generic p vr).
Proof.
  destruct vr as [v r]. unfold cut_vertex_generic, part_at. destruct (nth_opt p v); cbn [bind]; [|right; reflexivity].
  apply sum_res_panic1. intros e _. apply cut_entry_panic1.
Qed.
Lemma cut_vertex_sprs_panic1 p vr : ok_or_panic1 (cut_vertex_sprs p vr).
Proof.
  destruct vr as [v r]. unfold cut_vertex_sprs, part_at. destruct (nth_opt p v); cbn [bind]; [|right; reflexivity].
  apply sum_res_panic1. intros e _. apply sprs_entry_panic1.
Qed.

Lemma indexed_has {A} (l : list A) v : (v < length l)%nat -> exists r, In (v, r) (indexed l).
Proof.
  intros Hv. destruct (nth_opt_lt l v Hv) as [r Hr]. exists r.
  unfold indexed.
  assert (G : forall (l : list A) s, nth_opt l (v - s) = Some r -> (s <= v)%nat ->
              In (v, r) (combine (seq s (length l)) l)).
  { clear. induction l as [|x t IH]; intros s H Hs; [cbn in H; discriminate|].
    cbn [length seq combine]. destruct (Nat.eq_dec s v) as [->|Hne].
    - left. rewrite Nat.sub_diag in H. cbn in H. congruence.
    - right. replace (v - s)%nat with (S (v - S s)) in H by lia. cbn [nth_opt] in H. apply IH; [exact H|lia]. }
  apply G; [rewrite Nat.sub_0_r; exact Hr|lia].
Qed.

Lemma edge_cut_short g p : (length p < length g)%nat -> edge_cut g p = Panic 1.
Proof.
  intros H. destruct (indexed_has g (length p) H) as [r Hr].
  unfold edge_cut. eapply sum_res_some_panic; [intros y _; apply cut_vertex_generic_panic1|exact Hr|].
  unfold cut_vertex_generic. rewrite part_at_panic by lia. reflexivity.
Qed.
Lemma sprs_edge_cut_short g p : (length p < length g)%nat -> sprs_edge_cut g p = Panic 1.
Proof.
  intros H. destruct (indexed_has g (length p) H) as [r Hr].
  unfold sprs_edge_cut. eapply sum_res_some_panic; [intros y _; apply cut_vertex_sprs_panic1|exact Hr|].
  unfold cut_vertex_sprs. rewrite part_at_panic by lia. reflexivity.
Qed.

(* THE SPECIALISATION EQUALS THE GENERIC METHOD, for every partition array *)
Theorem csr_cut_eq_generic g p :
  wf_graph g -> rows_sorted g -> sprs_edge_cut g p = edge_cut g p.
Proof.
  intros Hwf Hs. destruct (Nat.le_gt_cases (length g) (length p)) as [Hlen|Hlen].
  - rewrite sprs_edge_cut_lower, edge_cut_lower by assumption. reflexivity.
  - rewrite sprs_edge_cut_short, edge_cut_short by assumption. reflexivity.
Qed.

Theorem csr_lambda_eq_generic g p ws : sprs_lambda_cut g p ws = lambda_cut g p ws.
Proof. reflexivity. Qed.

(* symmetric graph: lower triangle = unordered pairs *)
Lemma crosses_sym p u v : crosses p u v = crosses p v u.
Proof. unfold crosses. rewrite Nat.eqb_sym. reflexivity. Qed.

Lemma cut_lower_pairs g p : symmetric g -> cut_lower g p = cut_pairs g p.
Proof.
  intros Hsym. unfold cut_lower, cut_pairs.
  rewrite (sum_triangle_swap (length g) (fun u v => crosses p u v * weight g v u)).
  apply sum_range_ext. intros u _. apply sum_range_ext. intros v _. rewrite (Hsym v u). reflexivity.
Qed.

Theorem cut_lower_def g p :
  wf_graph g -> (length g <= length p)%nat -> edge_cut g p = Ok (cut_lower g p).
Proof. exact (edge_cut_lower g p). Qed.

Theorem cut_def g p :
  wf_graph g -> (length g <= length p)%nat -> symmetric g -> edge_cut g p = Ok (cut_pairs g p).
Proof. intros Hwf Hlen Hsym. rewrite edge_cut_lower by assumption. rewrite cut_lower_pairs by assumption. reflexivity. Qed.

Theorem sprs_cut_def g p :
  wf_graph g -> (length g <= length p)%nat -> rows_sorted g -> symmetric g ->
  sprs_edge_cut g p = Ok (cut_pairs g p).
Proof. intros Hwf Hlen Hs Hsym. rewrite csr_cut_eq_generic by assumption. apply cut_def; assumption. Qed.

(* rayon: a sum over any split tree is the sequential sum *)
Theorem par_sum_indep t xs : par_sum t xs = sumZ xs.
Proof.
  revert xs. induction t as [|k l IHl r IHr]; intros xs; [reflexivity|].
  cbn [par_sum]. rewrite IHl, IHr, <- sumZ_app, firstn_skipn. reflexivity.
Qed.

(* Proofs about Model/Kk.v.
   Part 1: kk_bipart ends with load0 - load1 = residue (the differencing
   residue of the weights), writes a two-way partition, never panics.
   Part 2: k-way kk, for every weight-descending sort of the merged row:
   ids below k, no panic, enough fuel, and max load - min load <= largest
   weight (each row's spread never exceeds the spreads of the two rows it
   was made from; the loads are the last row plus a constant).
   Part 3: the entry point and the checker. *)
From Coupe Require Import Lib.Prelude Model.NumPart Model.Kk Proofs.NumPartLemmas.
From Coq Require Import Permutation.
Open Scope Z_scope.

(* ====================================================================== *)
(* Part 1: kk_bipart                                                       *)
(* ====================================================================== *)

(* signed weight of the items: part 0 counts positively, any other id negatively *)
Fixpoint Dl (p : list N) (l : list item) : Z :=
  match l with
  | [] => 0
  | (v, i) :: t =>
    (match nth_opt p i with Some x => if (x =? 0)%N then v else - v | None => 0 end) + Dl p t
  end.

Lemma Dl_perm p l l' : Permutation l l' -> Dl p l = Dl p l'.
Proof. induction 1 as [|[v i] l l' _ IH|[v i] [w j] l|]; cbn [Dl]; try lia. Qed.

Lemma Dl_ext p p' l : (forall i, In i (ids l) -> nth_opt p i = nth_opt p' i) -> Dl p l = Dl p' l.
Proof.
  induction l as [|[v i] t IH]; cbn [Dl ids map snd]; intros H; auto.
  rewrite (H i) by (now left). rewrite IH; auto. intros j Hj. apply H. now right.
Qed.

Definition two_way_on (p : list N) (l : list nat) : Prop :=
  forall i, In i l -> exists x, nth_opt p i = Some x /\ (x <= 1)%N.

Lemma Dl_vsum p l : two_way_on p (ids l) -> Dl p l = vsum p 0 l - vsum p 1 l.
Proof.
  induction l as [|[v i] t IH]; cbn [Dl vsum ids map snd]; intros H; auto.
  destruct (H i (or_introl eq_refl)) as [x [Hx Hx1]]. rewrite Hx.
  rewrite IH by (intros j Hj; apply H; now right).
  destruct (N.eqb_spec x 0), (N.eqb_spec x 1); lia.
Qed.

Lemma kk2_back_app p s1 s2 : kk2_back p (s1 ++ s2) = bind (kk2_back p s1) (fun q => kk2_back q s2).
Proof.
  revert p; induction s1 as [|[a b] t IH]; intros p; cbn [app kk2_back bind]; auto.
  destruct (nth_opt p a) as [pa|]; cbn [bind]; auto.
  destruct (pa <=? 1)%N; cbn [bind]; auto.
  destruct (Nat.ltb b (length p)); cbn [bind]; auto.
Qed.

(* the forward loop and the back-tracking, together *)
Lemma kk2_loop_sound : forall fuel h opp hf opp',
  NoDup (ids h) -> kk2_loop fuel h opp = Some (hf, opp') ->
  exists new, opp' = new ++ opp /\ (length hf <= 1)%nat /\ (h <> [] -> hf <> [])
    /\ (forall i, In i (ids hf) -> In i (ids h))
    /\ forall p0, (forall i, In i (ids h) -> (i < length p0)%nat) -> two_way_on p0 (ids hf) ->
       exists p', kk2_back p0 new = Ok p' /\ length p' = length p0
         /\ two_way_on p' (ids h) /\ Dl p' h = Dl p0 hf
         /\ (forall i, ~ In i (ids h) -> nth_opt p' i = nth_opt p0 i).
Proof.
  assert (DONE : forall h opp, (length h <= 1)%nat ->
    exists new : list (nat * nat), opp = new ++ opp /\ (length h <= 1)%nat /\ (h <> [] -> h <> [])
    /\ (forall i, In i (ids h) -> In i (ids h))
    /\ forall p0, (forall i, In i (ids h) -> (i < length p0)%nat) -> two_way_on p0 (ids h) ->
       exists p', kk2_back p0 new = Ok p' /\ length p' = length p0
         /\ two_way_on p' (ids h) /\ Dl p' h = Dl p0 h
         /\ (forall i, ~ In i (ids h) -> nth_opt p' i = nth_opt p0 i)).
  { intros h opp Hl. exists []. repeat split; auto.
    intros p0 _ Htw. exists p0. repeat split; auto. }
  induction fuel as [|f IH]; intros h opp hf opp' Hnd H.
  - destruct h as [|a [|b t]]; cbn in H; try discriminate; injection H as <- <-; apply DONE; cbn; lia.
  - destruct h as [|[aw ai] [|[bw bi] t]]; cbn [kk2_loop] in H.
    + injection H as <- <-. apply DONE; cbn; lia.
    + injection H as <- <-. apply DONE; cbn; lia.
    + cbn [fst snd] in H. cbn [ids map snd] in Hnd. fold (ids t) in Hnd.
      inversion Hnd as [|? ? Ha Hnd']; subst. inversion Hnd' as [|? ? Hb Hndt]; subst.
      assert (Hab : ai <> bi) by (intro; subst; apply Ha; left; reflexivity).
      assert (Hat : ~ In ai (ids t)) by (intro; apply Ha; right; assumption).
      set (h1 := insert_desc (aw - bw, ai) t) in *.
      assert (P1 : Permutation (ids h1) (ai :: ids t)) by apply ids_insert.
      assert (ND1 : NoDup (ids h1)).
      { eapply Permutation_NoDup; [symmetry; exact P1|]. constructor; auto. }
      destruct (IH _ _ _ _ ND1 H) as [new1 [-> [Hlen [Hne [Hsub HS]]]]].
      exists (new1 ++ [(ai, bi)]). split; [rewrite <- app_assoc; reflexivity|].
      split; [exact Hlen|]. split.
      { intros _. apply Hne. unfold h1. intro C. pose proof (insert_desc_length (aw - bw, ai) t) as L.
        rewrite C in L. discriminate. }
      split.
      { intros i Hi. apply Hsub in Hi. apply (Permutation_in _ P1) in Hi. cbn [ids map snd]. fold (ids t).
        destruct Hi as [<-|Hi]; [now left|right; now right]. }
      intros p0 Hr Htw.
      destruct (HS p0) as [q [Hq [Hlq [Htq [HD Hout]]]]]; auto.
      { intros i Hi. apply Hr. apply (Permutation_in _ P1) in Hi. cbn [ids map snd]. fold (ids t).
        destruct Hi as [<-|Hi]; [now left|right; now right]. }
      rewrite kk2_back_app, Hq. cbn [bind kk2_back].
      destruct (Htq ai) as [pa [Hpa Hpa1]]; [apply (Permutation_in _ (Permutation_sym P1)); now left|].
      rewrite Hpa. apply N.leb_le in Hpa1 as Hpa1'. rewrite Hpa1'.
      assert (Hbi : (bi < length q)%nat) by (rewrite Hlq; apply Hr; cbn; auto).
      apply Nat.ltb_lt in Hbi as Hbi'. rewrite Hbi'.
      exists (set_nth q bi (1 - pa)%N). split; [reflexivity|]. split; [now rewrite set_nth_length|].
      split; [|split].
      * intros i Hi. cbn [ids map snd] in Hi. fold (ids t) in Hi.
        destruct (Nat.eq_dec i bi) as [->|Hne'].
        -- rewrite nth_opt_set_nth_same by exact Hbi. eexists; split; eauto. lia.
        -- rewrite nth_opt_set_nth_other by auto. apply Htq.
           apply (Permutation_in _ (Permutation_sym P1)). destruct Hi as [<-|[<-|Hi]]; [now left|congruence|now right].
      * cbn [Dl]. rewrite nth_opt_set_nth_same by exact Hbi.
        rewrite (nth_opt_set_nth_other _ bi ai) by auto. rewrite Hpa.
        rewrite (Dl_ext _ q t).
        2:{ intros j Hj. apply nth_opt_set_nth_other. intro; subst; contradiction. }
        rewrite <- HD. unfold h1. rewrite (Dl_perm _ _ _ (insert_desc_perm (aw - bw, ai) t)).
        cbn [Dl]. rewrite Hpa.
        destruct (N.eqb_spec pa 0), (N.eqb_spec (1 - pa) 0); lia.
      * intros i Hi. cbn [ids map snd] in Hi. fold (ids t) in Hi.
        rewrite nth_opt_set_nth_other by (intro; subst; apply Hi; right; left; auto).
        apply Hout. intro C. apply (Permutation_in _ P1) in C. apply Hi. destruct C as [<-|C]; [now left|right; now right].
Qed.

Lemma kk2_loop_fuel : forall fuel h opp, (length h <= S fuel)%nat -> kk2_loop fuel h opp <> None.
Proof.
  induction fuel as [|f IH]; intros h opp Hl.
  - destruct h as [|a [|b t]]; cbn in *; try discriminate. lia.
  - destruct h as [|a [|b t]]; cbn [kk2_loop]; try discriminate.
    apply IH. rewrite insert_desc_length. cbn in Hl. lia.
Qed.

(* the forward loop computes the differencing residue of the weights *)
Lemma kk2_loop_residue : forall fuel h opp hf opp',
  descZ (wts h) -> kk2_loop fuel h opp = Some (hf, opp') ->
  residue_loop fuel (wts h) = match hf with [(w, _)] => w | _ => 0 end.
Proof.
  induction fuel as [|f IH]; intros h opp hf opp' Hd H.
  - destruct h as [|[aw ai] [|[bw bi] t]]; cbn in H; try discriminate; injection H as <- <-; reflexivity.
  - destruct h as [|[aw ai] [|[bw bi] t]]; cbn [kk2_loop] in H.
    + injection H as <- <-. reflexivity.
    + injection H as <- <-. reflexivity.
    + cbn [wts map fst residue_loop]. fold (wts t). cbn [fst snd] in H.
      destruct Hd as [_ [_ Hdt]]. fold (wts t) in Hdt.
      assert (Hd1 : descZ (wts (insert_desc (aw - bw, ai) t))).
      { rewrite wts_insert by exact Hdt. now apply insertZ_desc. }
      rewrite <- (IH _ _ _ _ Hd1 H).
      rewrite wts_insert by exact Hdt. reflexivity.
Qed.

Lemma residue_loop_nonneg : forall fuel l,
  descZ l -> (2 <= length l <= S fuel)%nat -> 0 <= residue_loop fuel l.
Proof.
  induction fuel as [|f IH]; intros l Hd Hl.
  - destruct l as [|a [|b t]]; cbn in *; lia.
  - destruct l as [|a [|b t]]; cbn [length] in Hl; try lia. cbn [residue_loop].
    destruct Hd as [Ha [Hb Ht]].
    destruct t as [|c t'].
    + specialize (Ha b (or_introl eq_refl)). destruct f; cbn; lia.
    + apply IH; [now apply insertZ_desc|].
      rewrite (Permutation_length (insertZ_perm (a - b) (c :: t'))). cbn [length] in *. lia.
Qed.

Lemma residue_nonneg ws : (2 <= length ws)%nat -> 0 <= residue ws.
Proof.
  intros H. unfold residue. apply residue_loop_nonneg; [apply sortZ_descZ|].
  rewrite (Permutation_length (sortZ_perm ws)). lia.
Qed.

Definition two_way (p : list N) : Prop := Forall (fun x => (x <= 1)%N) p.

Lemma nth_opt_all {A} (P : A -> Prop) (l : list A) :
  (forall i, (i < length l)%nat -> exists x, nth_opt l i = Some x /\ P x) -> Forall P l.
Proof.
  induction l as [|y t IH]; intros H; constructor.
  - destruct (H 0%nat) as [x [Hx Px]]; [cbn; lia|]. cbn in Hx. now injection Hx as ->.
  - apply IH. intros i Hi. apply (H (S i)). cbn; lia.
Qed.

Theorem kk_bipart_spec : forall ws p0, length ws = length p0 -> (1 <= length ws)%nat ->
  exists p, kk_bipart ws p0 = Ok p /\ length p = length p0 /\ two_way p
    /\ load ws p 0 - load ws p 1 = residue ws.
Proof.
  intros ws p0 Hlen Hn. unfold kk_bipart.
  destruct (sorted_items_facts ws) as [Hnd [Hw [Hids [Hll Hperm]]]].
  set (h := sort_items_desc (items_of ws)) in *.
  destruct (kk2_loop (length ws) h []) as [[hf opp']|] eqn:E.
  2:{ exfalso. revert E. apply kk2_loop_fuel. lia. }
  destruct (kk2_loop_sound _ _ _ _ _ Hnd E) as [new [-> [Hl1 [Hne [Hsub HS]]]]].
  rewrite app_nil_r in *.
  assert (Hres : residue ws = match hf with [(w, _)] => w | _ => 0 end).
  { unfold residue. rewrite <- Hw. eapply kk2_loop_residue; eauto. rewrite Hw. apply sortZ_descZ. }
  destruct hf as [|[lw last] [|? ?]]; [exfalso; apply Hne; auto; intro C; rewrite C in Hll; cbn in Hll; lia| |cbn in Hl1; lia].
  assert (Hlast : (last < length p0)%nat).
  { rewrite <- Hlen. apply Hids, Hsub. now left. }
  apply Nat.ltb_lt in Hlast as Hlast'. rewrite Hlast'.
  destruct (HS (set_nth p0 last 0%N)) as [p [Hp [Hlp [Htw [HD _]]]]].
  - intros i Hi. rewrite set_nth_length, <- Hlen. now apply Hids.
  - intros i [<-|[]]. rewrite nth_opt_set_nth_same by exact Hlast. eexists; split; eauto. lia.
  - rewrite set_nth_length in Hlp. exists p. split; [exact Hp|]. split; [exact Hlp|]. split.
    + apply nth_opt_all. intros i Hi. apply Htw, Hids. lia.
    + rewrite Hres. cbn [Dl] in HD. rewrite nth_opt_set_nth_same in HD by exact Hlast. rewrite N.eqb_refl in HD.
      rewrite <- !vsum_items by lia.
      rewrite <- !(vsum_perm _ _ _ _ Hperm). fold h.
      rewrite <- Dl_vsum by exact Htw. lia.
Qed.

(* Proofs about Model/Kk.v.
   Part 1: kk_bipart ends with load0 - load1 = residue (the differencing
   residue of the weights), writes a two-way partition, never panics.
   Part 2: k-way kk, for every weight-descending sort of the merged row:
   ids below k, no panic, enough fuel, and max load - min load <= largest
   weight (each row's spread never exceeds the spreads of the two rows it
   was made from; the loads are the last row plus a constant).
   Part 3: the entry point and the checker. *)
From Coupe Require Import Lib.Prelude Model.NumPart Model.Kk Proofs.NumPartLemmas.
From Coq Require Import Permutation.
Open Scope Z_scope.

(* ====================================================================== *)
(* Part 1: kk_bipart                                                       *)
(* ====================================================================== *)

(* signed weight of the items: part 0 counts positively, any other id negatively *)
Fixpoint Dl (p : list N) (l : list item) : Z :=
  match l with
  | [] => 0
  | (v, i) :: t =>
    (match nth_opt p i with Some x => if (x =? 0)%N then v else - v | None => 0 end) + Dl p t
  end.

Lemma Dl_perm p l l' : Permutation l l' -> Dl p l = Dl p l'.
Proof. induction 1 as [|[v i] l l' _ IH|[v i] [w j] l|]; cbn [Dl]; try lia. Qed.

Lemma Dl_ext p p' l : (forall i, In i (ids l) -> nth_opt p i = nth_opt p' i) -> Dl p l = Dl p' l.
Proof.
  induction l as [|[v i] t IH]; cbn [Dl ids map snd]; intros H; auto.
  rewrite (H i) by (now left). rewrite IH; auto. intros j Hj. apply H. now right.
Qed.

Definition two_way_on (p : list N) (l : list nat) : Prop :=
  forall i, In i l -> exists x, nth_opt p i = Some x /\ (x <= 1)%N.

Lemma Dl_vsum p l : two_way_on p (ids l) -> Dl p l = vsum p 0 l - vsum p 1 l.
Proof.
  induction l as [|[v i] t IH]; cbn [Dl vsum ids map snd]; intros H; auto.
  destruct (H i (or_introl eq_refl)) as [x [Hx Hx1]]. rewrite Hx.
  rewrite IH by (intros j Hj; apply H; now right).
  destruct (N.eqb_spec x 0), (N.eqb_spec x 1); lia.
Qed.

Lemma kk2_back_app p s1 s2 : kk2_back p (s1 ++ s2) = bind (kk2_back p s1) (fun q => kk2_back q s2).
Proof.
  revert p; induction s1 as [|[a b] t IH]; intros p; cbn [app kk2_back bind]; auto.
  destruct (nth_opt p a) as [pa|]; cbn [bind]; auto.
  destruct (pa <=? 1)%N; cbn [bind]; auto.
  destruct (Nat.ltb b (length p)); cbn [bind]; auto.
Qed.

(* the forward loop and the back-tracking, together *)
Lemma kk2_loop_sound : forall fuel h opp hf opp',
  NoDup (ids h) -> kk2_loop fuel h opp = Some (hf, opp') ->
  exists new, opp' = new ++ opp /\ (length hf <= 1)%nat /\ (h <> [] -> hf <> [])
    /\ (forall i, In i (ids hf) -> In i (ids h))
    /\ forall p0, (forall i, In i (ids h) -> (i < length p0)%nat) -> two_way_on p0 (ids hf) ->
       exists p', kk2_back p0 new = Ok p' /\ length p' = length p0
         /\ two_way_on p' (ids h) /\ Dl p' h = Dl p0 hf
         /\ (forall i, ~ In i (ids h) -> nth_opt p' i = nth_opt p0 i).
Proof.
  assert (DONE : forall h opp, (length h <= 1)%nat ->
    exists new : list (nat * nat), opp = new ++ opp /\ (length h <= 1)%nat /\ (h <> [] -> h <> [])
    /\ (forall i, In i (ids h) -> In i (ids h))
    /\ forall p0, (forall i, In i (ids h) -> (i < length p0)%nat) -> two_way_on p0 (ids h) ->
       exists p', kk2_back p0 new = Ok p' /\ length p' = length p0
         /\ two_way_on p' (ids h) /\ Dl p' h = Dl p0 h
         /\ (forall i, ~ In i (ids h) -> nth_opt p' i = nth_opt p0 i)).
  { intros h opp Hl. exists []. repeat split; auto.
    intros p0 _ Htw. exists p0. repeat split; auto. }
  induction fuel as [|f IH]; intros h opp hf opp' Hnd H.
  - destruct h as [|a [|b t]]; cbn in H; try discriminate; injection H as <- <-; apply DONE; cbn; lia.
  - destruct h as [|[aw ai] [|[bw bi] t]]; cbn [kk2_loop] in H.
    + injection H as <- <-. apply DONE; cbn; lia.
    + injection H as <- <-. apply DONE; cbn; lia.
    + cbn [fst snd] in H. cbn [ids map snd] in Hnd. fold (ids t) in Hnd.
      inversion Hnd as [|? ? Ha Hnd']; subst. inversion Hnd' as [|? ? Hb Hndt]; subst.
      assert (Hab : ai <> bi) by (intro; subst; apply Ha; left; reflexivity).
      assert (Hat : ~ In ai (ids t)) by (intro; apply Ha; right; assumption).
      set (h1 := insert_desc (aw - bw, ai) t) in *.
      assert (P1 : Permutation (ids h1) (ai :: ids t)) by apply ids_insert.
      assert (ND1 : NoDup (ids h1)).
      { eapply Permutation_NoDup; [symmetry; exact P1|]. constructor; auto. }
      destruct (IH _ _ _ _ ND1 H) as [new1 [-> [Hlen [Hne [Hsub HS]]]]].
      exists (new1 ++ [(ai, bi)]). split; [rewrite <- app_assoc; reflexivity|].
      split; [exact Hlen|]. split.
      { intros _. apply Hne. unfold h1. intro C. pose proof (insert_desc_length (aw - bw, ai) t) as L.
        rewrite C in L. discriminate. }
      split.
      { intros i Hi. apply Hsub in Hi. apply (Permutation_in _ P1) in Hi. cbn [ids map snd]. fold (ids t).
        destruct Hi as [<-|Hi]; [now left|right; now right]. }
      intros p0 Hr Htw.
      destruct (HS p0) as [q [Hq [Hlq [Htq [HD Hout]]]]]; auto.
      { intros i Hi. apply Hr. apply (Permutation_in _ P1) in Hi. cbn [ids map snd]. fold (ids t).
        destruct Hi as [<-|Hi]; [now left|right; now right]. }
      rewrite kk2_back_app, Hq. cbn [bind kk2_back].
      destruct (Htq ai) as [pa [Hpa Hpa1]]; [apply (Permutation_in _ (Permutation_sym P1)); now left|].
      rewrite Hpa. apply N.leb_le in Hpa1 as Hpa1'. rewrite Hpa1'.
      assert (Hbi : (bi < length q)%nat) by (rewrite Hlq; apply Hr; cbn; auto).
      apply Nat.ltb_lt in Hbi as Hbi'. rewrite Hbi'.
      exists (set_nth q bi (1 - pa)%N). split; [reflexivity|]. split; [now rewrite set_nth_length|].
      split; [|split].
      * intros i Hi. cbn [ids map snd] in Hi. fold (ids t) in Hi.
        destruct (Nat.eq_dec i bi) as [->|Hne'].
        -- rewrite nth_opt_set_nth_same by exact Hbi. eexists; split; eauto. lia.
        -- rewrite nth_opt_set_nth_other by auto. apply Htq.
           apply (Permutation_in _ (Permutation_sym P1)). destruct Hi as [<-|[<-|Hi]]; [now left|congruence|now right].
      * cbn [Dl]. rewrite nth_opt_set_nth_same by exact Hbi.
        rewrite (nth_opt_set_nth_other _ bi ai) by auto. rewrite Hpa.
        rewrite (Dl_ext _ q t).
        2:{ intros j Hj. apply nth_opt_set_nth_other. intro; subst; contradiction. }
        rewrite <- HD. unfold h1. rewrite (Dl_perm _ _ _ (insert_desc_perm (aw - bw, ai) t)).
        cbn [Dl]. rewrite Hpa.
        destruct (N.eqb_spec pa 0), (N.eqb_spec (1 - pa) 0); lia.
      * intros i Hi. cbn [ids map snd] in Hi. fold (ids t) in Hi.
        rewrite nth_opt_set_nth_other by (intro; subst; apply Hi; right; left; auto).
        apply Hout. intro C. apply (Permutation_in _ P1) in C. apply Hi. destruct C as [<-|C]; [now left|right; now right].
Qed.

Lemma kk2_loop_fuel : forall fuel h opp, (length h <= S fuel)%nat -> kk2_loop fuel h opp <> None.
Proof.
  induction fuel as [|f IH]; intros h opp Hl.
  - destruct h as [|a [|b t]]; cbn in *; try discriminate. lia.
  - destruct h as [|a [|b t]]; cbn [kk2_loop]; try discriminate.
    apply IH. rewrite insert_desc_length. cbn in Hl. lia.
Qed.

(* the forward loop computes the differencing residue of the weights *)
Lemma kk2_loop_residue : forall fuel h opp hf opp',
  descZ (wts h) -> kk2_loop fuel h opp = Some (hf, opp') ->
  residue_loop fuel (wts h) = match hf with [(w, _)] => w | _ => 0 end.
Proof.
  induction fuel as [|f IH]; intros h opp hf opp' Hd H.
  - destruct h as [|[aw ai] [|[bw bi] t]]; cbn in H; try discriminate; injection H as <- <-; reflexivity.
  - destruct h as [|[aw ai] [|[bw bi] t]]; cbn [kk2_loop] in H.
    + injection H as <- <-. reflexivity.
    + injection H as <- <-. reflexivity.
    + cbn [wts map fst residue_loop]. fold (wts t). cbn [fst snd] in H.
      destruct Hd as [_ [_ Hdt]]. fold (wts t) in Hdt.
      assert (Hd1 : descZ (wts (insert_desc (aw - bw, ai) t))).
      { rewrite wts_insert by exact Hdt. now apply insertZ_desc. }
      rewrite <- (IH _ _ _ _ Hd1 H).
      rewrite wts_insert by exact Hdt. reflexivity.
Qed.

Lemma residue_loop_nonneg : forall fuel l,
  descZ l -> (2 <= length l <= S fuel)%nat -> 0 <= residue_loop fuel l.
Proof.
  induction fuel as [|f IH]; intros l Hd Hl.
  - destruct l as [|a [|b t]]; cbn in *; lia.
  - destruct l as [|a [|b t]]; cbn [length] in Hl; try lia. cbn [residue_loop].
    destruct Hd as [Ha [Hb Ht]].
    destruct t as [|c t'].
    + specialize (Ha b (or_introl eq_refl)). destruct f; cbn; lia.
    + apply IH; [now apply insertZ_desc|].
      rewrite (Permutation_length (insertZ_perm (a - b) (c :: t'))). cbn [length] in *. lia.
Qed.

Lemma residue_nonneg ws : (2 <= length ws)%nat -> 0 <= residue ws.
Proof.
  intros H. unfold residue. apply residue_loop_nonneg; [apply sortZ_descZ|].
  rewrite (Permutation_length (sortZ_perm ws)). lia.
Qed.

Definition two_way (p : list N) : Prop := Forall (fun x => (x <= 1)%N) p.

Lemma nth_opt_all {A} (P : A -> Prop) (l : list A) :
  (forall i, (i < length l)%nat -> exists x, nth_opt l i = Some x /\ P x) -> Forall P l.
Proof.
  induction l as [|y t IH]; intros H; constructor.
  - destruct (H 0%nat) as [x [Hx Px]]; [cbn; lia|]. cbn in Hx. now injection Hx as ->.
  - apply IH. intros i Hi. apply (H (S i)). cbn; lia.
Qed.

Theorem kk_bipart_spec : forall ws p0, length ws = length p0 -> (1 <= length ws)%nat ->
  exists p, kk_bipart ws p0 = Ok p /\ length p = length p0 /\ two_way p
    /\ load ws p 0 - load ws p 1 = residue ws.
Proof.
  intros ws p0 Hlen Hn. unfold kk_bipart.
  destruct (sorted_items_facts ws) as [Hnd [Hw [Hids [Hll Hperm]]]].
  set (h := sort_items_desc (items_of ws)) in *.
  destruct (kk2_loop (length ws) h []) as [[hf opp']|] eqn:E.
  2:{ exfalso. revert E. apply kk2_loop_fuel. lia. }
  destruct (kk2_loop_sound _ _ _ _ _ Hnd E) as [new [-> [Hl1 [Hne [Hsub HS]]]]].
  rewrite app_nil_r in *.
  assert (Hres : residue ws = match hf with [(w, _)] => w | _ => 0 end).
  { unfold residue. rewrite <- Hw. eapply kk2_loop_residue; eauto. rewrite Hw. apply sortZ_descZ. }
  destruct hf as [|[lw last] [|? ?]]; [exfalso; apply Hne; auto; intro C; rewrite C in Hll; cbn in Hll; lia| |cbn in Hl1; lia].
  assert (Hlast : (last < length p0)%nat).
  { rewrite <- Hlen. apply Hids, Hsub. now left. }
  apply Nat.ltb_lt in Hlast as Hlast'. rewrite Hlast'.
  destruct (HS (set_nth p0 last 0%N)) as [p [Hp [Hlp [Htw [HD _]]]]].
  - intros i Hi. rewrite set_nth_length, <- Hlen. now apply Hids.
  - intros i [<-|[]]. rewrite nth_opt_set_nth_same by exact Hlast. eexists; split; eauto. lia.
  - rewrite set_nth_length in Hlp. exists p. split; [exact Hp|]. split; [exact Hlp|]. split.
    + apply nth_opt_all. intros i Hi. apply Htw, Hids. lia.
    + rewrite Hres. cbn [Dl] in HD. rewrite nth_opt_set_nth_same in HD by exact Hlast. rewrite N.eqb_refl in HD.
      rewrite <- !vsum_items by lia.
      rewrite <- !(vsum_perm _ _ _ _ Hperm). fold h.
      rewrite <- Dl_vsum by exact Htw. lia.
Qed.

(* ====================================================================== *)
(* Part 2: k-way kk                                                        *)
(* ====================================================================== *)

(* number of ids of [l] that the array [p] sends to part [q] *)
Fixpoint cnti (p : list N) (q : N) (l : list nat) : Z :=
  match l with
  | [] => 0
  | i :: t => (match nth_opt p i with Some x => if (x =? q)%N then 1 else 0 | None => 0 end) + cnti p q t
  end.

Lemma cnti_perm p q l l' : Permutation l l' -> cnti p q l = cnti p q l'.
Proof. induction 1; cbn [cnti]; try lia. Qed.

Lemma cnti_ext p p' q l : (forall i, In i l -> nth_opt p i = nth_opt p' i) -> cnti p q l = cnti p' q l.
Proof.
  induction l as [|i t IH]; cbn [cnti]; intros H; auto.
  rewrite (H i) by (now left). rewrite IH; auto. intros j Hj. apply H. now right.
Qed.

Lemma vsum_app p q l1 l2 : vsum p q (l1 ++ l2) = vsum p q l1 + vsum p q l2.
Proof. induction l1 as [|[w i] t IH]; cbn [app vsum]; [reflexivity|rewrite IH; lia]. Qed.

Lemma vsum_shift p q c l :
  vsum p q (map (fun x : item => (fst x - c, snd x)) l) = vsum p q l - c * cnti p q (ids l).
Proof.
  induction l as [|[w i] t IH]; cbn [map vsum ids cnti fst snd]; [lia|].
  fold (ids t). rewrite IH. destruct (nth_opt p i) as [x|]; [destruct (x =? q)%N|]; lia.
Qed.

Lemma vsum_zero p q l : (forall x, In x l -> fst x = 0) -> vsum p q l = 0.
Proof.
  induction l as [|[w i] t IH]; cbn [vsum]; intros H; auto.
  rewrite IH by (intros x Hx; apply H; now right).
  assert (w = 0) by (apply (H (w, i)); now left). subst.
  destruct (nth_opt p i) as [x|]; [destruct (x =? q)%N|]; lia.
Qed.

Lemma ids_concat (H : list row) : ids (concat H) = concat (map ids H).
Proof. unfold ids. apply concat_map. Qed.

Lemma perm_concat {A} (l l' : list (list A)) : Permutation l l' -> Permutation (concat l) (concat l').
Proof.
  induction 1; cbn [concat]; auto.
  - now apply Permutation_app_head.
  - rewrite !app_assoc. apply Permutation_app_tail, Permutation_app_comm.
  - etransitivity; eauto.
Qed.

Lemma NoDup_app_intro {A} (l1 l2 : list A) :
  NoDup l1 -> NoDup l2 -> (forall x, In x l1 -> ~ In x l2) -> NoDup (l1 ++ l2).
Proof.
  induction l1 as [|x t IH]; intros H1 H2 Hd; cbn [app]; auto.
  inversion H1; subst. constructor.
  - intro C. apply in_app_or in C as [C|C]; [contradiction|]. apply (Hd x); [now left|exact C].
  - apply IH; auto. intros y Hy. apply Hd. now right.
Qed.

Lemma NoDup_app_elim {A} (l1 l2 : list A) :
  NoDup (l1 ++ l2) -> NoDup l1 /\ NoDup l2 /\ (forall x, In x l1 -> ~ In x l2).
Proof.
  induction l1 as [|x t IH]; cbn [app]; intros H.
  - repeat split; auto. constructor.
  - inversion H as [|? ? Hx Ht]; subst. destruct (IH Ht) as [N1 [N2 Hd]]. repeat split; auto.
    + constructor; auto. intro C. apply Hx. apply in_or_app. now left.
    + intros y [<-|Hy]; [intro C; apply Hx; apply in_or_app; now right|now apply Hd].
Qed.

Lemma combine_fst {A B} (a : list A) (c : list B) : length a = length c -> map fst (combine a c) = a.
Proof. revert c; induction a as [|x a IH]; intros [|y c] H; cbn in *; try lia; auto. f_equal. apply IH. lia. Qed.
Lemma combine_snd {A B} (a : list A) (c : list B) : length a = length c -> map snd (combine a c) = c.
Proof. revert c; induction a as [|x a IH]; intros [|y c] H; cbn in *; try lia; auto. f_equal. apply IH. lia. Qed.

(* `parts[b] = parts[a]` over the tuples of one step *)
Lemma kk_apply_spec : forall ts P,
  (forall a b, In (a, b) ts -> (a < length P)%nat /\ (b < length P)%nat) ->
  NoDup (map snd ts) -> (forall a, In a (map fst ts) -> ~ In a (map snd ts)) ->
  exists P', kk_apply ts P = Ok P' /\ length P' = length P
    /\ (forall a b, In (a, b) ts -> nth_opt P' b = nth_opt P a)
    /\ (forall i, ~ In i (map snd ts) -> nth_opt P' i = nth_opt P i)
    /\ (forall Q : N -> Prop, Forall Q P -> Forall Q P').
Proof.
  induction ts as [|[a b] t IH]; intros P Hr Hnd Hdis; cbn [kk_apply].
  - exists P. repeat split; auto. intros a b [].
  - destruct (Hr a b (or_introl eq_refl)) as [Ha Hb].
    destruct (nth_opt_lt P a Ha) as [pa Hpa]. rewrite Hpa.
    apply Nat.ltb_lt in Hb as Hb'. rewrite Hb'.
    cbn [map fst snd] in Hnd, Hdis. inversion Hnd as [|? ? Hbt Hnd']; subst.
    destruct (IH (set_nth P b pa)) as [P' [HP' [Hl [Hcp [Hout HQ]]]]].
    + intros a' b' H'. rewrite set_nth_length. apply Hr. now right.
    + exact Hnd'.
    + intros a' Ha' C. apply (Hdis a'); [now right|now right].
    + rewrite set_nth_length in Hl. exists P'. split; [exact HP'|]. split; [exact Hl|]. split; [|split].
      * intros a' b' [E|H'].
        -- injection E as <- <-. rewrite (Hout b Hbt), nth_opt_set_nth_same by exact Hb. now rewrite Hpa.
        -- rewrite (Hcp _ _ H'). apply nth_opt_set_nth_other.
           intro; subst. apply (Hdis a'); [right; apply (in_map fst _ _ H')|now left].
      * intros i Hi. rewrite Hout by (intro; apply Hi; now right).
        apply nth_opt_set_nth_other. intro; subst; apply Hi; now left.
      * intros Q HQP. apply HQ. apply Forall_set_nth; auto.
        rewrite Forall_forall in HQP. apply HQP. eapply nth_opt_In; eauto.
Qed.

Lemma zip_vsum P P' q : forall z : list (item * item),
  (forall x y, In (x, y) z -> nth_opt P' (snd y) = nth_opt P (snd x)) ->
  vsum P q (map (fun ab => (fst (fst ab) + fst (snd ab), snd (fst ab))) z)
  = vsum P q (map fst z) + vsum P' q (map snd z).
Proof.
  induction z as [|[[wa ia] [wb ib]] z IH]; intros H; cbn [map vsum fst snd]; [lia|].
  rewrite IH by (intros x y Hxy; apply H; now right).
  pose proof (H (wa, ia) (wb, ib) (or_introl eq_refl)) as E. cbn [snd] in E. rewrite E.
  destruct (nth_opt P ia) as [x|]; [destruct (x =? q)%N|]; lia.
Qed.

Lemma zip_cnti P P' q : forall z : list (item * item),
  (forall x y, In (x, y) z -> nth_opt P' (snd y) = nth_opt P (snd x)) ->
  cnti P' q (ids (map snd z)) = cnti P q (ids (map fst z)).
Proof.
  induction z as [|[[wa ia] [wb ib]] z IH]; intros H; cbn [map cnti ids fst snd]; [lia|].
  fold (ids (map snd z)). fold (ids (map fst z)).
  rewrite IH by (intros x y Hxy; apply H; now right).
  pose proof (H (wa, ia) (wb, ib) (or_introl eq_refl)) as E. cbn [snd] in E. rewrite E. reflexivity.
Qed.

(* ---------- spreads ---------- *)

Definition spread_le (B : Z) (l : list Z) : Prop := forall x y, In x l -> In y l -> x - y <= B.

Fixpoint ascZ (l : list Z) : Prop :=
  match l with
  | [] => True
  | x :: t => (forall y, In y t -> x <= y) /\ ascZ t
  end.

Lemma ascZ_snoc l x : ascZ l -> (forall y, In y l -> y <= x) -> ascZ (l ++ [x]).
Proof.
  induction l as [|z t IH]; cbn [app ascZ]; intros Ha Hx.
  - split; auto. intros y [].
  - destruct Ha as [Hz Ht]. split.
    + intros y Hy. apply in_app_or in Hy as [Hy|[<-|[]]]; auto. apply Hx. now left.
    + apply IH; auto. intros y Hy. apply Hx. now right.
Qed.

Lemma descZ_rev_asc l : descZ l -> ascZ (rev l).
Proof.
  induction l as [|x t IH]; cbn [rev descZ]; auto. intros [Hx Ht].
  apply ascZ_snoc; auto. intros y Hy. apply Hx. now apply in_rev.
Qed.

(* pairing a non-increasing row with a non-decreasing one does not widen the spread *)
Lemma zip_spread B : forall a c : list item, 0 <= B ->
  descZ (wts a) -> ascZ (wts c) -> spread_le B (wts a) -> spread_le B (wts c) ->
  spread_le B (map (fun ab => fst (fst ab) + fst (snd ab)) (combine a c)).
Proof.
  induction a as [|[wa ia] a IH]; intros [|[wc ic] c] HB Hda Hac Hsa Hsc; cbn [combine map];
    [intros x y Hx; destruct Hx | intros x y Hx; destruct Hx | intros x y Hx; destruct Hx |].
  cbn [wts map fst descZ ascZ] in *. fold (wts a) in *. fold (wts c) in *.
  destruct Hda as [Ha Hda]. destruct Hac as [Hc Hac].
  assert (Hsa' : spread_le B (wts a)) by (intros x y Hx Hy; apply Hsa; now right).
  assert (Hsc' : spread_le B (wts c)) by (intros x y Hx Hy; apply Hsc; now right).
  specialize (IH c HB Hda Hac Hsa' Hsc').
  assert (MEM : forall x, In x (map (fun ab : item * item => fst (fst ab) + fst (snd ab)) (combine a c)) ->
                exists u v, In u (wts a) /\ In v (wts c) /\ x = u + v).
  { intros x Hx. apply in_map_iff in Hx as [[ua uc] [<- Hin]].
    exists (fst ua), (fst uc). repeat split.
    - apply in_map. eapply in_combine_l; eauto.
    - apply in_map. eapply in_combine_r; eauto. }
  intros x y [<-|Hx] [<-|Hy]; cbn [fst snd].
  - lia.
  - destruct (MEM _ Hy) as [u [v [Hu [Hv ->]]]].
    specialize (Ha u Hu). specialize (Hc v Hv).
    assert (wa - u <= B) by (apply Hsa; [now left|now right]). lia.
  - destruct (MEM _ Hx) as [u [v [Hu [Hv ->]]]].
    specialize (Ha u Hu). specialize (Hc v Hv).
    assert (v - wc <= B) by (apply Hsc; [now right|now left]). lia.
  - now apply IH.
Qed.

Lemma spread_perm B l l' : Permutation l l' -> spread_le B l -> spread_le B l'.
Proof.
  intros P H x y Hx Hy. apply H; eapply Permutation_in; try apply Permutation_sym; eauto.
Qed.

Lemma spread_shift B c l : spread_le B l -> spread_le B (map (fun w => w - c) l).
Proof.
  intros H x y Hx Hy. apply in_map_iff in Hx as [x' [<- Hx]]. apply in_map_iff in Hy as [y' [<- Hy]].
  specialize (H x' y' Hx Hy). lia.
Qed.

Lemma descZ_shift c l : descZ l -> descZ (map (fun w => w - c) l).
Proof.
  induction l as [|x t IH]; cbn [map descZ]; auto. intros [Hx Ht]. split; auto.
  intros y Hy. apply in_map_iff in Hy as [y' [<- Hy]]. specialize (Hx y' Hy). lia.
Qed.

Lemma last_opt_some {A} (l : list A) : l <> [] -> exists x, last_opt l = Some x.
Proof.
  induction l as [|x t IH]; [congruence|]. intros _. destruct t as [|y t'].
  - exists x. reflexivity.
  - destruct IH as [z Hz]; [congruence|]. exists z. exact Hz.
Qed.

Lemma insert_row_perm e m : Permutation (insert_row e m) (e :: m).
Proof.
  induction m as [|x t IH]; cbn [insert_row]; auto.
  destruct (ltb_row x e); auto. rewrite IH. apply perm_swap.
Qed.

Lemma sort_rows_perm m : Permutation (sort_rows_desc m) m.
Proof. induction m as [|x t IH]; cbn; auto. rewrite insert_row_perm. constructor. exact IH. Qed.

Section KWayProofs.
  Variable srt : list item -> list item.
  Hypothesis srt_perm : forall l, Permutation (srt l) l.
  Hypothesis srt_desc : forall l, descZ (wts (srt l)).
  Variables (k M : nat) (B : Z).
  Hypothesis k_pos : (1 <= k)%nat.
  Hypothesis B_nonneg : 0 <= B.

  Definition row_ok (r : row) : Prop := length r = k /\ descZ (wts r) /\ spread_le B (wts r).
  Definition all_ids (H : list row) : list nat := concat (map ids H).
  Definition Inv (H : list row) : Prop :=
    NoDup (all_ids H) /\ (forall i, In i (all_ids H) -> (i < M)%nat) /\ Forall row_ok H.
  (* the array sends the ids of every row onto the parts 0..k-1, one each *)
  Definition good (P : list N) (H : list row) : Prop :=
    forall r, In r H -> forall q, (q < k)%nat -> cnti P (N.of_nat q) (ids r) = 1.
  Definition vload (P : list N) (q : N) (H : list row) : Z := vsum P q (concat H).

  Lemma all_ids_perm H H' : Permutation H H' -> Permutation (all_ids H) (all_ids H').
  Proof. intros P. unfold all_ids. apply perm_concat. now apply Permutation_map. Qed.

  Lemma Inv_perm H H' : Permutation H H' -> Inv H -> Inv H'.
  Proof.
    intros P [I1 [I2 I3]]. pose proof (all_ids_perm _ _ P) as Pa. repeat split.
    - eapply Permutation_NoDup; eauto.
    - intros i Hi. apply I2. eapply Permutation_in; [apply Permutation_sym; exact Pa|exact Hi].
    - rewrite Forall_forall in *. intros r Hr. apply I3. eapply Permutation_in; [apply Permutation_sym; exact P|exact Hr].
  Qed.

  Lemma good_perm P H H' : Permutation H H' -> good P H -> good P H'.
  Proof. intros Pm G r Hr. apply G. eapply Permutation_in; [apply Permutation_sym; exact Pm|exact Hr]. Qed.

  Lemma vload_perm P q H H' : Permutation H H' -> vload P q H = vload P q H'.
  Proof. intros Pm. unfold vload. apply vsum_perm. now apply perm_concat. Qed.

  Lemma merge_facts a b tuples e : length a = k -> length b = k ->
    kk_merge srt a b = Some (tuples, e) ->
    let z := combine a (rev b) in
    exists e1 c, tuples = map (fun ab : item * item => (snd (fst ab), snd (snd ab))) z
      /\ Permutation e1 (map (fun ab : item * item => (fst (fst ab) + fst (snd ab), snd (fst ab))) z)
      /\ descZ (wts e1) /\ e = map (fun x : item => (fst x - c, snd x)) e1
      /\ map fst z = a /\ map snd z = rev b.
  Proof.
    intros La Lb Hm z. unfold kk_merge in Hm. fold z in Hm.
    destruct (last_opt _) as [lst|] eqn:El; [|discriminate]. injection Hm as <- <-.
    eexists _, (fst lst). split; [reflexivity|]. split; [apply srt_perm|]. split; [apply srt_desc|].
    split; [reflexivity|]. unfold z. split; [apply combine_fst|apply combine_snd]; rewrite rev_length; lia.
  Qed.

  Lemma merge_some a b : length a = k -> length b = k -> exists te, kk_merge srt a b = Some te.
  Proof.
    intros La Lb. unfold kk_merge.
    match goal with |- context [last_opt ?x] => destruct (last_opt_some x) as [lst Hl] end.
    - intro C. match type of C with srt ?e0 = [] => pose proof (Permutation_length (srt_perm e0)) as L end.
      rewrite C in L. rewrite map_length, combine_length, rev_length in L. cbn in L. lia.
    - rewrite Hl. eexists; reflexivity.
  Qed.

  Lemma ids_shift c (l : list item) : ids (map (fun x : item => (fst x - c, snd x)) l) = ids l.
  Proof. unfold ids. rewrite map_map. reflexivity. Qed.
  Lemma wts_shift c (l : list item) : wts (map (fun x : item => (fst x - c, snd x)) l) = map (fun w => w - c) (wts l).
  Proof. unfold wts. rewrite !map_map. reflexivity. Qed.
  Lemma ids_e0 (z : list (item * item)) :
    ids (map (fun ab : item * item => (fst (fst ab) + fst (snd ab), snd (fst ab))) z) = ids (map fst z).
  Proof. unfold ids. rewrite !map_map. reflexivity. Qed.
  Lemma wts_e0 (z : list (item * item)) :
    wts (map (fun ab : item * item => (fst (fst ab) + fst (snd ab), snd (fst ab))) z)
    = map (fun ab => fst (fst ab) + fst (snd ab)) z.
  Proof. unfold wts. rewrite !map_map. reflexivity. Qed.

  (* forward: one step keeps the invariant *)
  Lemma merge_fwd a b t tuples e : Inv (a :: b :: t) -> kk_merge srt a b = Some (tuples, e) ->
    Inv (e :: t) /\ Permutation (ids e) (ids a).
  Proof.
    intros [I1 [I2 I3]] Hm.
    pose proof (Forall_inv I3) as [La [Da Sa]]. pose proof (Forall_inv_tail I3) as I3'.
    pose proof (Forall_inv I3') as [Lb [Db Sb]]. pose proof (Forall_inv_tail I3') as I3t.
    destruct (merge_facts _ _ _ _ La Lb Hm) as [e1 [c [_ [Pe [De [-> [Zf Zs]]]]]]].
    set (z := combine a (rev b)) in *.
    assert (Pid : Permutation (ids (map (fun x : item => (fst x - c, snd x)) e1)) (ids a)).
    { rewrite ids_shift. unfold ids at 1. rewrite (Permutation_map snd Pe). fold (ids (map (fun ab : item * item => (fst (fst ab) + fst (snd ab), snd (fst ab))) z)).
      rewrite ids_e0, Zf. reflexivity. }
    split; [|exact Pid].
    unfold all_ids in I1, I2. cbn [map concat] in I1, I2.
    repeat split.
    - unfold all_ids. cbn [map concat].
      apply NoDup_app_elim in I1 as [Na [Nbt Dab]]. apply NoDup_app_elim in Nbt as [Nb [Nt Dbt]].
      apply NoDup_app_intro; auto.
      + eapply Permutation_NoDup; [apply Permutation_sym; exact Pid|exact Na].
      + intros i Hi C. apply (Permutation_in _ Pid) in Hi. apply (Dab i Hi). apply in_or_app. now right.
    - unfold all_ids. cbn [map concat]. intros i Hi. apply I2. apply in_app_or in Hi as [Hi|Hi].
      + apply in_or_app. left. now apply (Permutation_in _ Pid).
      + apply in_or_app. right. apply in_or_app. now right.
    - constructor; [|exact I3t]. split; [|split].
      + pose proof (Permutation_length Pe) as Le. unfold z, item in *.
        rewrite map_length in *. rewrite combine_length, rev_length in Le. lia.
      + rewrite wts_shift. now apply descZ_shift.
      + rewrite wts_shift. apply spread_shift.
        eapply spread_perm; [apply Permutation_sym, (Permutation_map fst Pe)|].
        fold (wts (map (fun ab : item * item => (fst (fst ab) + fst (snd ab), snd (fst ab))) z)).
        rewrite wts_e0. unfold z. apply zip_spread; auto.
        * unfold wts. rewrite map_rev. now apply descZ_rev_asc.
        * unfold wts. rewrite map_rev. intros x y Hx Hy. apply Sb; now apply in_rev.
  Qed.

  (* backward: undoing one step on the parts array *)
  Lemma merge_back a b t tuples e P : Inv (a :: b :: t) -> kk_merge srt a b = Some (tuples, e) ->
    length P = M -> good P (e :: t) ->
    exists P' c, kk_apply tuples P = Ok P' /\ length P' = M /\ good P' (a :: b :: t)
      /\ (forall q, (q < k)%nat -> vload P' (N.of_nat q) (a :: b :: t) = vload P (N.of_nat q) (e :: t) + c)
      /\ (forall Q : N -> Prop, Forall Q P -> Forall Q P').
  Proof.
    intros [I1 [I2 I3]] Hm HL G.
    pose proof (Forall_inv I3) as [La [Da Sa]]. pose proof (Forall_inv_tail I3) as I3'.
    pose proof (Forall_inv I3') as [Lb [Db Sb]]. pose proof (Forall_inv_tail I3') as I3t.
    destruct (merge_facts _ _ _ _ La Lb Hm) as [e1 [c [-> [Pe [De [-> [Zf Zs]]]]]]].
    set (z := combine a (rev b)) in *.
    set (e0 := map (fun ab : item * item => (fst (fst ab) + fst (snd ab), snd (fst ab))) z) in *.
    unfold all_ids in I1, I2. cbn [map concat] in I1, I2.
    apply NoDup_app_elim in I1 as [Na [Nbt Dab]]. apply NoDup_app_elim in Nbt as [Nb [Nt Dbt]].
    assert (Tf : map fst (map (fun ab : item * item => (snd (fst ab), snd (snd ab))) z) = ids a).
    { transitivity (ids (map fst z)); [unfold ids; rewrite !map_map; reflexivity|now rewrite Zf]. }
    assert (Ts : map snd (map (fun ab : item * item => (snd (fst ab), snd (snd ab))) z) = ids (rev b)).
    { transitivity (ids (map snd z)); [unfold ids; rewrite !map_map; reflexivity|now rewrite Zs]. }
    assert (Prb : Permutation (ids (rev b)) (ids b)).
    { unfold ids. apply Permutation_map, Permutation_sym, Permutation_rev. }
    destruct (kk_apply_spec (map (fun ab : item * item => (snd (fst ab), snd (snd ab))) z) P) as [P' [HP' [HL' [Hcp [Hout HQ]]]]].
    - intros ia ib Hin. rewrite HL.
      split; apply I2.
      + apply in_or_app. left. rewrite <- Tf. apply (in_map fst _ _ Hin).
      + apply in_or_app. right. apply in_or_app. left. apply (Permutation_in _ Prb). rewrite <- Ts. apply (in_map snd _ _ Hin).
    - rewrite Ts. eapply Permutation_NoDup; [apply Permutation_sym; exact Prb|exact Nb].
    - rewrite Tf, Ts. intros i Hi C. apply (Dab i Hi). apply in_or_app. left. now apply (Permutation_in _ Prb).
    - rewrite Ts in Hout.
      assert (Hz : forall x y : item, In (x, y) z -> nth_opt P' (snd y) = nth_opt P (snd x)).
      { intros x y Hxy. apply Hcp. apply (in_map (fun ab : item * item => (snd (fst ab), snd (snd ab))) _ _ Hxy). }
      assert (Aa : forall i, In i (ids a) -> nth_opt P' i = nth_opt P i).
      { intros i Hi. apply Hout. intro C. apply (Dab i Hi). apply in_or_app. left. now apply (Permutation_in _ Prb). }
      assert (At : forall i, In i (concat (map ids t)) -> nth_opt P' i = nth_opt P i).
      { intros i Hi. apply Hout. intro C. apply (Permutation_in _ Prb) in C. now apply (Dbt i C). }
      assert (Pid : Permutation (ids (map (fun x : item => (fst x - c, snd x)) e1)) (ids a)).
      { rewrite ids_shift. unfold ids at 1. rewrite (Permutation_map snd Pe). fold (ids e0).
        unfold e0. rewrite ids_e0, Zf. reflexivity. }
      assert (Ge : forall q, (q < k)%nat -> cnti P (N.of_nat q) (ids a) = 1).
      { intros q Hq. rewrite <- (cnti_perm _ _ _ _ Pid). apply G; [now left|exact Hq]. }
      exists P', c. split; [exact HP'|]. split; [lia|]. split; [|split].
      + intros r [<-|[<-|Hr]] q Hq.
        * rewrite (cnti_ext P' P) by exact Aa. now apply Ge.
        * rewrite <- (cnti_perm _ _ _ _ Prb). rewrite <- Zs. rewrite (zip_cnti P P' _ z Hz). rewrite Zf. now apply Ge.
        * rewrite (cnti_ext P' P).
          -- apply G; [now right|exact Hq].
          -- intros i Hi. apply At. apply in_concat. exists (ids r). split; [now apply in_map|exact Hi].
      + intros q Hq. unfold vload. cbn [concat]. rewrite !vsum_app.
        rewrite (vsum_ext P' P _ a) by exact Aa.
        rewrite (vsum_ext P' P _ (concat t)) by (intros i Hi; apply At; now rewrite <- ids_concat).
        rewrite (vsum_perm P' _ b (rev b)) by apply Permutation_rev.
        rewrite vsum_shift. rewrite (vsum_perm P _ e1 e0 Pe).
        unfold e0. rewrite (zip_vsum P P' _ z Hz). rewrite Zf, Zs.
        rewrite <- (ids_shift c e1), (cnti_perm _ _ _ _ Pid), (Ge q Hq). lia.
      + exact HQ.
  Qed.

  Lemma kk_back_app s1 s2 P : kk_back (s1 ++ s2) P = bind (kk_back s1 P) (kk_back s2).
  Proof.
    revert P; induction s1 as [|ts t IH]; intros P; cbn [app kk_back bind]; auto.
    destruct (kk_apply ts P) as [P1| | |]; cbn [bind]; auto.
  Qed.

  (* the loop and the back-tracking, together *)
  Lemma kk_loop_sound : forall fuel H opp, Inv H -> (length H <= S fuel)%nat ->
    exists Hf new, kk_loop srt fuel H opp = Ok (Hf, new ++ opp) /\ Inv Hf /\ (length Hf <= 1)%nat
      /\ (H <> [] -> Hf <> [])
      /\ forall P, length P = M -> good P Hf ->
         exists P' c, kk_back new P = Ok P' /\ length P' = M /\ good P' H
           /\ (forall q, (q < k)%nat -> vload P' (N.of_nat q) H = vload P (N.of_nat q) Hf + c)
           /\ (forall Q : N -> Prop, Forall Q P -> Forall Q P').
  Proof.
    assert (DONE : forall fuel H opp, Inv H -> (length H <= 1)%nat -> kk_loop srt fuel H opp = Ok (H, opp) ->
      exists Hf new, kk_loop srt fuel H opp = Ok (Hf, new ++ opp) /\ Inv Hf /\ (length Hf <= 1)%nat
      /\ (H <> [] -> Hf <> [])
      /\ forall P, length P = M -> good P Hf ->
         exists P' c, kk_back new P = Ok P' /\ length P' = M /\ good P' H
           /\ (forall q, (q < k)%nat -> vload P' (N.of_nat q) H = vload P (N.of_nat q) Hf + c)
           /\ (forall Q : N -> Prop, Forall Q P -> Forall Q P')).
    { intros fuel H opp I L E. exists H, []. split; [exact E|]. split; [exact I|]. split; [exact L|]. split; [auto|].
      intros P HL G. exists P, 0. split; [reflexivity|]. split; [exact HL|]. split; [exact G|].
      split; [intros q _; lia|auto]. }
    induction fuel as [|f IH]; intros H opp I L.
    - destruct H as [|a [|b t]]; cbn [length] in L; try lia; apply DONE; auto; cbn; lia.
    - destruct H as [|a [|b t]]; [apply DONE; auto; cbn; lia|apply DONE; auto; cbn; lia|].
      cbn [kk_loop].
      destruct I as [I1 [I2 I3]].
      pose proof (Forall_inv I3) as [La _]. pose proof (Forall_inv (Forall_inv_tail I3)) as [Lb _].
      destruct (merge_some a b La Lb) as [[tuples e] Hm]. rewrite Hm.
      destruct (merge_fwd a b t tuples e (conj I1 (conj I2 I3)) Hm) as [Ie _].
      pose proof (insert_row_perm e t) as Pr.
      assert (I' : Inv (insert_row e t)) by (eapply Inv_perm; [apply Permutation_sym; exact Pr|exact Ie]).
      destruct (IH (insert_row e t) (tuples :: opp) I') as [Hf [new1 [E [If [Lf [Ne HS]]]]]].
      { rewrite (Permutation_length Pr). cbn [length] in *. lia. }
      exists Hf, (new1 ++ [tuples]). rewrite <- app_assoc. cbn [app].
      split; [exact E|]. split; [exact If|]. split; [exact Lf|]. split.
      { intros _. apply Ne. intro C. apply (f_equal (@length row)) in C. rewrite (Permutation_length Pr) in C. discriminate. }
      intros P HL G. destruct (HS P HL G) as [P1 [c1 [B1 [L1 [G1 [V1 Q1]]]]]].
      destruct (merge_back a b t tuples e P1 (conj I1 (conj I2 I3)) Hm L1) as [P2 [c2 [B2 [L2 [G2 [V2 Q2]]]]]].
      { eapply good_perm; [exact Pr|exact G1]. }
      exists P2, (c1 + c2). rewrite kk_back_app, B1. cbn [bind kk_back]. rewrite B2. cbn [bind].
      split; [reflexivity|]. split; [exact L2|]. split; [exact G2|]. split.
      + intros q Hq. rewrite (V2 q Hq), <- (vload_perm P1 _ _ _ Pr), (V1 q Hq). lia.
      + intros Q HQ. apply Q2, Q1, HQ.
  Qed.

  (* `parts[w.1] = i` over the last row *)
  Lemma kk_init_spec : forall (r : row) i parts,
    NoDup (ids r) -> (forall id, In id (ids r) -> (id < length parts)%nat) ->
    exists P, kk_init_parts i r parts = Ok P /\ length P = length parts
      /\ (forall j, ~ In j (ids r) -> nth_opt P j = nth_opt parts j)
      /\ (forall q, ((i <= q < i + length r)%nat ->
                     cnti P (N.of_nat q) (ids r) = 1 /\ exists wq, In wq (wts r) /\ vsum P (N.of_nat q) r = wq)
                 /\ (~ (i <= q < i + length r)%nat -> cnti P (N.of_nat q) (ids r) = 0 /\ vsum P (N.of_nat q) r = 0))
      /\ (forall Q : N -> Prop, (forall q, (i <= q < i + length r)%nat -> Q (N.of_nat q)) -> Forall Q parts -> Forall Q P).
  Proof.
    induction r as [|[w id] t IH]; intros i parts Hnd Hr; cbn [kk_init_parts].
    - exists parts. repeat split; auto; cbn in *; lia.
    - cbn [ids map snd] in Hnd, Hr. fold (ids t) in *. inversion Hnd as [|? ? Hid Hnd']; subst.
      assert (Hlt : (id < length parts)%nat) by (apply Hr; now left).
      apply Nat.ltb_lt in Hlt as Hlt'. rewrite Hlt'.
      destruct (IH (S i) (set_nth parts id (N.of_nat i)) Hnd') as [P [HP [HL [Hout [Hq HQ]]]]].
      { intros j Hj. rewrite set_nth_length. apply Hr. now right. }
      rewrite set_nth_length in HL.
      assert (Pid : nth_opt P id = Some (N.of_nat i)).
      { rewrite (Hout id Hid). now apply nth_opt_set_nth_same. }
      exists P. split; [exact HP|]. split; [exact HL|]. split; [|split].
      + intros j Hj. cbn [ids map snd] in Hj. fold (ids t) in Hj.
        rewrite Hout by (intro; apply Hj; now right).
        apply nth_opt_set_nth_other. intro; subst; apply Hj; now left.
      + intros q. cbn [ids map snd cnti vsum wts fst length]. fold (ids t). fold (wts t). rewrite Pid.
        destruct (Hq q) as [Hin Hout'].
        destruct (N.eqb_spec (N.of_nat i) (N.of_nat q)) as [E|E].
        * assert (i = q) by lia. subst q.
          destruct Hout' as [C0 V0]; [lia|]. rewrite C0, V0. split.
          -- intros _. split; [lia|]. exists w. split; [now left|lia].
          -- intros C. lia.
        * split.
          -- intros Hrange. destruct Hin as [C1 [wq [Hwq V1]]]; [lia|]. rewrite C1, V1.
             split; [lia|]. exists wq. split; [now right|lia].
          -- intros Hrange. destruct Hout' as [C0 V0]; [lia|]. rewrite C0, V0. lia.
      + intros Q HQr HQp. apply HQ.
        * intros q Hq'. apply HQr. cbn [length]. lia.
        * apply Forall_set_nth; auto. apply HQr. cbn [length]. lia.
  Qed.
End KWayProofs.

(* ====================================================================== *)
(* Part 3: initial rows, the k-way theorem, the entry point, the checker   *)
(* ====================================================================== *)

(* the execution instance of the sort satisfies the contract *)
Lemma wts_insert_stable x l : wts (insert_stable x l) = insertZ (fst x) (wts l).
Proof.
  induction l as [|y t IH]; cbn [insert_stable wts map insertZ]; auto.
  destruct (fst y <? fst x); cbn [map]; auto. fold (wts (insert_stable x t)). fold (wts t). now rewrite IH.
Qed.
Lemma insert_stable_perm x l : Permutation (insert_stable x l) (x :: l).
Proof.
  induction l as [|y t IH]; cbn [insert_stable]; auto.
  destruct (fst y <? fst x); auto. rewrite IH. apply perm_swap.
Qed.
Lemma sort_stable_perm l : Permutation (sort_stable_desc l) l.
Proof.
  unfold sort_stable_desc.
  assert (G : forall acc, Permutation (fold_left (fun acc x => insert_stable x acc) l acc) (l ++ acc)).
  { induction l as [|x t IH]; intros acc; cbn [fold_left app]; auto.
    rewrite IH, insert_stable_perm. apply Permutation_sym, Permutation_middle. }
  rewrite G, app_nil_r. reflexivity.
Qed.
Lemma sort_stable_desc_ok l : descZ (wts (sort_stable_desc l)).
Proof.
  unfold sort_stable_desc.
  assert (G : forall acc, descZ (wts acc) -> descZ (wts (fold_left (fun acc x => insert_stable x acc) l acc))).
  { induction l as [|x t IH]; intros acc Hd; cbn [fold_left]; auto.
    apply IH. rewrite wts_insert_stable. now apply insertZ_desc. }
  apply G. exact I.
Qed.

(* ---------- the initial rows ---------- *)

Definition row0 (n k : nat) (it : item) : row :=
  (fst it, snd it) :: map (fun p => (0, (n * p + snd it)%nat)) (seq 1 (k - 1)).

Lemma mk_row_row0 n k w id : (1 <= k)%nat -> mk_row n k w id = Some (row0 n k (w, id)).
Proof.
  intros Hk. unfold mk_row, row0. destruct k as [|k]; [lia|]. cbn [seq map fst snd].
  replace (S k - 1)%nat with k by lia. rewrite Nat.mul_0_r. reflexivity.
Qed.

Lemma mk_rows_row0 n k its : (1 <= k)%nat -> mk_rows n k its = Some (map (row0 n k) its).
Proof.
  intros Hk. induction its as [|[w id] t IH]; cbn [mk_rows map]; auto.
  rewrite mk_row_row0, IH by exact Hk. reflexivity.
Qed.

Lemma ids_row0 n k it : (1 <= k)%nat -> ids (row0 n k it) = map (fun p => (n * p + snd it)%nat) (seq 0 k).
Proof.
  intros Hk. unfold row0, ids. destruct k as [|k]; [lia|]. cbn [seq map snd].
  replace (S k - 1)%nat with k by lia. rewrite Nat.mul_0_r, map_map. reflexivity.
Qed.

Lemma NoDup_map_inj {A B} (f : A -> B) l :
  (forall x y, In x l -> In y l -> f x = f y -> x = y) -> NoDup l -> NoDup (map f l).
Proof.
  induction l as [|x t IH]; intros Hinj Hnd; cbn [map]; [constructor|].
  inversion Hnd as [|? ? Hx Ht]; subst. constructor.
  - intro C. apply in_map_iff in C as [y [E Hy]]. apply Hx.
    rewrite (Hinj x y); auto; [now left|now right].
  - apply IH; auto. intros a b Ha Hb. apply Hinj; now right.
Qed.

Lemma NoDup_concat_map {A B} (g : A -> list B) l :
  NoDup l -> (forall x, In x l -> NoDup (g x)) ->
  (forall x y i, In x l -> In y l -> In i (g x) -> In i (g y) -> x = y) ->
  NoDup (concat (map g l)).
Proof.
  induction l as [|x t IH]; intros Hnd Hin Hdis; cbn [map concat]; [constructor|].
  inversion Hnd as [|? ? Hx Ht]; subst.
  apply NoDup_app_intro.
  - apply Hin. now left.
  - apply IH; auto.
    + intros y Hy. apply Hin. now right.
    + intros a b i Ha Hb. apply Hdis; now right.
  - intros i Hi C. apply in_concat in C as [l' [Hl' Hil']]. apply in_map_iff in Hl' as [y [<- Hy]].
    apply Hx. rewrite (Hdis x y i); auto; [now left|now right].
Qed.

Lemma all_ids_rows0 n k its : (1 <= k)%nat ->
  all_ids (map (row0 n k) its) = concat (map (fun id => map (fun p => (n * p + id)%nat) (seq 0 k)) (ids its)).
Proof.
  intros Hk. unfold all_ids, ids at 2. rewrite !map_map. f_equal.
  apply map_ext. intros it. now apply ids_row0.
Qed.

Lemma descZ_zeros {A} (l : list A) : descZ (map (fun _ => 0) l).
Proof.
  induction l as [|x t IH]; cbn [map descZ]; auto. split; auto.
  intros y Hy. apply in_map_iff in Hy as [_ [<- _]]. lia.
Qed.

Lemma rows0_Inv ws k : (1 <= k)%nat -> Forall (fun w => 0 <= w) ws ->
  Inv k (k * length ws) (maxl ws) (map (row0 (length ws) k) (items_of ws)).
Proof.
  intros Hk Hnn. set (n := length ws). unfold Inv.
  rewrite all_ids_rows0 by exact Hk. rewrite ids_items. fold n. split; [|split].
  - apply NoDup_concat_map.
    + apply seq_NoDup.
    + intros id Hid. apply in_seq in Hid. apply NoDup_map_inj; [|apply seq_NoDup].
      intros x y Hx Hy E. apply in_seq in Hx, Hy. nia.
    + intros x y i Hx Hy Hix Hiy. apply in_seq in Hx, Hy.
      apply in_map_iff in Hix as [p1 [E1 _]]. apply in_map_iff in Hiy as [p2 [E2 _]].
      destruct (Nat.lt_trichotomy p1 p2) as [L|[->|L]]; [exfalso|lia|exfalso].
      * assert (n * (p1 + 1) <= n * p2)%nat by (apply Nat.mul_le_mono_l; lia). lia.
      * assert (n * (p2 + 1) <= n * p1)%nat by (apply Nat.mul_le_mono_l; lia). lia.
  - intros i Hi. apply in_concat in Hi as [l [Hl Hil]]. apply in_map_iff in Hl as [id [<- Hid]].
    apply in_map_iff in Hil as [p [<- Hp]]. apply in_seq in Hid, Hp. nia.
  - apply Forall_forall. intros r Hr. apply in_map_iff in Hr as [[w id] [<- Hit]].
    assert (Hw : In w ws).
    { apply (in_map fst) in Hit. fold (wts (items_of ws)) in Hit. now rewrite wts_items in Hit. }
    assert (Hw0 : 0 <= w) by (rewrite Forall_forall in Hnn; auto).
    assert (HwB : w <= maxl ws) by (now apply maxl_ge).
    unfold row_ok, row0. cbn [fst snd]. split; [|split].
    + cbn [length]. rewrite map_length, seq_length. lia.
    + cbn [wts map fst]. rewrite map_map. cbn [fst]. cbn [descZ]. split; [|apply descZ_zeros].
      intros y Hy. apply in_map_iff in Hy as [_ [<- _]]. exact Hw0.
    + cbn [wts map fst]. rewrite map_map. cbn [fst].
      intros x y [<-|Hx] [<-|Hy]; try (apply in_map_iff in Hx as [_ [<- _]]); try (apply in_map_iff in Hy as [_ [<- _]]); lia.
Qed.

Lemma rows0_vload n k P q its : vload P q (map (row0 n k) its) = vsum P q its.
Proof.
  unfold vload. induction its as [|[w id] t IH]; cbn [map concat vsum]; auto.
  rewrite vsum_app, IH. unfold row0. cbn [fst snd vsum].
  rewrite (vsum_zero P q (map _ _)); [lia|].
  intros x Hx. apply in_map_iff in Hx as [p [<- _]]. reflexivity.
Qed.

Lemma nth_opt_firstn {A} (l : list A) n i : (i < n)%nat -> nth_opt (firstn n l) i = nth_opt l i.
Proof.
  revert n i; induction l as [|x t IH]; intros [|n] [|i] H; cbn; auto; try lia. apply IH. lia.
Qed.
Lemma In_firstn {A} (l : list A) n x : In x (firstn n l) -> In x l.
Proof.
  revert n; induction l as [|y t IH]; intros [|n]; cbn [firstn In]; try tauto.
  intros [->|H]; [now left|right; eapply IH; eauto].
Qed.

Lemma In_loads ws p k x : In x (loads ws p k) -> exists q, (q < k)%nat /\ x = load ws p (N.of_nat q).
Proof.
  unfold loads. intros H. apply in_map_iff in H as [q [<- Hq]]. apply in_seq in Hq. exists q. split; [lia|reflexivity].
Qed.

Lemma maxl_nonneg ws : Forall (fun w => 0 <= w) ws -> 0 <= maxl ws.
Proof.
  intros H. destruct ws as [|w t]; [cbn; lia|].
  rewrite Forall_forall in H. apply H, maxl_in. discriminate.
Qed.

(* ---------- the k-way theorem ---------- *)

Theorem kk_spec : forall srt, (forall l, Permutation (srt l) l) -> (forall l, descZ (wts (srt l))) ->
  forall ws k p0, Forall (fun w => 0 <= w) ws -> (1 <= k)%nat ->
  length ws = length p0 -> (1 <= length ws)%nat ->
  exists p, kk srt ws k p0 = Ok p /\ length p = length p0
    /\ Forall (fun x => (x < N.of_nat k)%N) p
    /\ gap (loads ws p k) <= maxl ws.
Proof.
  intros srt Hsp Hsd ws k p0 Hnn Hk Hlen Hn.
  pose proof (maxl_nonneg ws Hnn) as HB.
  unfold kk. set (n := length ws) in *. set (M := (k * n)%nat). set (B := maxl ws) in *.
  rewrite mk_rows_row0 by exact Hk.
  set (rows0 := map (row0 n k) (items_of ws)).
  pose proof (sort_rows_perm rows0) as Pr.
  assert (I0 : Inv k M B (sort_rows_desc rows0)).
  { eapply Inv_perm; [apply Permutation_sym; exact Pr|]. apply rows0_Inv; auto. }
  destruct (kk_loop_sound srt Hsp Hsd k M B Hk HB n (sort_rows_desc rows0) [] I0) as [Hf [new [E [If [Lf [Ne HS]]]]]].
  { rewrite (Permutation_length Pr). unfold rows0. rewrite map_length, items_length. fold n. lia. }
  rewrite app_nil_r in E. rewrite E. cbn [bind fst snd].
  destruct Hf as [|last [|? ?]]; [exfalso; apply Ne; auto| |cbn in Lf; lia].
  { intro C. apply (f_equal (@length row)) in C. rewrite (Permutation_length Pr) in C.
    unfold rows0 in C. rewrite map_length, items_length in C. fold n in C. cbn in C. lia. }
  destruct If as [N1 [R1 F1]]. unfold all_ids in N1, R1. cbn [map concat] in N1, R1. rewrite app_nil_r in N1, R1.
  pose proof (Forall_inv F1) as [Ll [_ Sl]].
  destruct (kk_init_spec k Hk last 0%nat (repeat 0%N M) N1) as [Pi [HPi [LPi [_ [Hq HQi]]]]].
  { intros id Hid. rewrite repeat_length. now apply R1. }
  rewrite HPi. cbn [bind]. rewrite repeat_length in LPi.
  destruct (HS Pi LPi) as [P' [c [HB' [LP' [_ [V Q']]]]]].
  { intros r [<-|[]] q Hq'. apply (Hq q). lia. }
  rewrite HB'. cbn [bind].
  assert (Lout : length (firstn (length p0) P') = length p0).
  { rewrite firstn_length, LP'. unfold M. rewrite <- Hlen. fold n. nia. }
  rewrite Lout, Nat.eqb_refl. eexists. split; [reflexivity|]. split; [exact Lout|]. split.
  - apply Forall_forall. intros x Hx. apply In_firstn in Hx.
    assert (F : Forall (fun x => (x < N.of_nat k)%N) P').
    { apply Q', HQi.
      - intros q Hq'. lia.
      - apply Forall_forall. intros y Hy. apply repeat_spec in Hy. subst. lia. }
    rewrite Forall_forall in F. auto.
  - set (out := firstn (length p0) P').
    assert (LD : forall q, (q < k)%nat -> exists wq, In wq (wts last) /\ load ws out (N.of_nat q) = wq + c).
    { intros q Hq'. destruct (proj1 (Hq q)) as [_ [wq [Hwq Vq]]]; [lia|].
      exists wq. split; [exact Hwq|].
      rewrite <- vsum_items by (unfold out; lia).
      rewrite (vsum_ext out P').
      2:{ intros i Hi. rewrite ids_items in Hi. apply in_seq in Hi. unfold out. apply nth_opt_firstn. lia. }
      rewrite <- (rows0_vload n k). fold rows0.
      rewrite <- (vload_perm _ _ _ _ Pr), (V q Hq'). unfold vload. cbn [concat]. rewrite app_nil_r. lia. }
    assert (Hne : loads ws out k <> []).
    { intro C. apply (f_equal (@length Z)) in C. rewrite loads_length in C. cbn in C. lia. }
    destruct (In_loads _ _ _ _ (maxl_in _ Hne)) as [q1 [Hq1 E1]].
    destruct (In_loads _ _ _ _ (minl_in _ Hne)) as [q2 [Hq2 E2]].
    destruct (LD q1 Hq1) as [w1 [Hw1 L1]]. destruct (LD q2 Hq2) as [w2 [Hw2 L2]].
    unfold gap. rewrite E1, E2, L1, L2. specialize (Sl w1 w2 Hw1 Hw2). fold B. lia.
Qed.

(* ---------- residue bounds ---------- *)

Lemma residue_loop_bound : forall fuel l b, descZ l -> Forall (fun w => 0 <= w) l ->
  (forall x, In x l -> x <= b) -> 0 <= b -> 0 <= residue_loop fuel l <= b.
Proof.
  induction fuel as [|f IH]; intros l b Hd Hnn Hb Hb0.
  - destruct l as [|x [|y t]]; cbn [residue_loop]; try lia.
    inversion Hnn; subst. specialize (Hb x (or_introl eq_refl)). lia.
  - destruct l as [|x [|y t]]; cbn [residue_loop]; try lia.
    + inversion Hnn; subst. specialize (Hb x (or_introl eq_refl)). lia.
    + destruct Hd as [Hx [Hy Ht]].
      inversion Hnn as [|? ? Hx0 Hnn']; subst. inversion Hnn' as [|? ? Hy0 Hnt]; subst.
      pose proof (Hx y (or_introl eq_refl)) as Hyx. pose proof (Hb x (or_introl eq_refl)) as Hxb.
      apply IH; auto.
      * now apply insertZ_desc.
      * apply Forall_forall. intros z Hz. apply (Permutation_in _ (insertZ_perm (x - y) t)) in Hz.
        destruct Hz as [<-|Hz]; [lia|]. rewrite Forall_forall in Hnt. auto.
      * intros z Hz. apply (Permutation_in _ (insertZ_perm (x - y) t)) in Hz.
        destruct Hz as [<-|Hz]; [lia|]. apply Hb. right. now right.
Qed.

Lemma residue_bound ws : Forall (fun w => 0 <= w) ws -> 0 <= residue ws <= maxl ws.
Proof.
  intros Hnn. unfold residue. apply residue_loop_bound.
  - apply sortZ_descZ.
  - apply Forall_forall. intros x Hx. apply (Permutation_in _ (sortZ_perm ws)) in Hx.
    rewrite Forall_forall in Hnn. auto.
  - intros x Hx. apply (Permutation_in _ (sortZ_perm ws)) in Hx. now apply maxl_ge.
  - now apply maxl_nonneg.
Qed.

(* ---------- the entry point ---------- *)

Lemma load_zeros ws (p0 : list N) q : length ws = length p0 ->
  load ws (map (fun _ => 0%N) p0) q = if (0 =? q)%N then sumZ ws else 0.
Proof.
  revert p0; induction ws as [|w ws IH]; intros [|x p0] H; cbn [length] in H; try lia; cbn [map load].
  - destruct (0 =? q)%N; reflexivity.
  - rewrite IH by lia. rewrite sumZ_cons. destruct (0 =? q)%N; lia.
Qed.

Theorem kk_partition_spec : forall srt, (forall l, Permutation (srt l) l) -> (forall l, descZ (wts (srt l))) ->
  forall ws k p0, Forall (fun w => 0 <= w) ws -> (1 <= k)%nat -> length ws = length p0 ->
  exists p, kk_partition srt ws k p0 = Ok p /\ length p = length p0
    /\ Forall (fun x => (x < N.of_nat k)%N) p
    /\ ((2 <= k)%nat -> gap (loads ws p k) <= maxl ws)
    /\ (k = 2%nat -> Z.abs (load ws p 0 - load ws p 1) = residue ws).
Proof.
  intros srt Hsp Hsd ws k p0 Hnn Hk Hlen. unfold kk_partition.
  apply Nat.eqb_eq in Hlen as E. rewrite E. cbn [negb]. clear E.
  destruct (Nat.ltb k 2 || Nat.ltb (length p0) 2) eqn:Et.
  - (* trivial partition: a single part, or fewer than two weights *)
    eexists. split; [reflexivity|]. split; [apply map_length|]. split; [|split].
    + apply Forall_forall. intros x Hx. apply in_map_iff in Hx as [_ [<- _]]. lia.
    + intros Hk2. apply orb_true_iff in Et as [Et|Et]; [apply Nat.ltb_lt in Et; lia|]. apply Nat.ltb_lt in Et.
      assert (Hs : sumZ ws = maxl ws).
      { destruct ws as [|w [|? ?]]; cbn in *; try lia. }
      assert (Hne : loads ws (map (fun _ : N => 0%N) p0) k <> []).
      { intro C. apply (f_equal (@length Z)) in C. rewrite loads_length in C. cbn in C. lia. }
      pose proof (maxl_nonneg ws Hnn) as HB.
      unfold gap.
      assert (maxl (loads ws (map (fun _ : N => 0%N) p0) k) <= maxl ws).
      { apply maxl_le_bound; auto. intros x Hx. apply In_loads in Hx as [q [_ ->]].
        rewrite load_zeros by exact Hlen. destruct (0 =? N.of_nat q)%N; lia. }
      assert (0 <= minl (loads ws (map (fun _ : N => 0%N) p0) k)).
      { apply minl_ge_bound; auto. intros x Hx. apply In_loads in Hx as [q [_ ->]].
        rewrite load_zeros by exact Hlen. destruct (0 =? N.of_nat q)%N; lia. }
      lia.
    + intros ->. apply orb_true_iff in Et as [Et|Et]; apply Nat.ltb_lt in Et; [lia|].
      rewrite !load_zeros by exact Hlen.
      change ((0 =? 0)%N) with true. change ((0 =? 1)%N) with false. cbv iota.
      destruct ws as [|w [|? ?]]; cbn [length] in *; try lia; unfold residue; cbn; [lia|].
      inversion Hnn; subst. lia.
  - apply orb_false_iff in Et as [Ek En]. apply Nat.ltb_ge in Ek, En.
    destruct (Nat.eqb_spec k 2) as [->|Hk3].
    + destruct (kk_bipart_spec ws p0 Hlen) as [p [Hp [Lp [Tw HD]]]]; [lia|].
      pose proof (residue_bound ws Hnn) as HR.
      exists p. split; [exact Hp|]. split; [exact Lp|]. split; [|split].
      * unfold two_way in Tw. rewrite Forall_forall in *. intros x Hx. specialize (Tw x Hx). lia.
      * intros _. unfold gap, loads. cbn [seq map maxl minl]. change (N.of_nat 0) with 0%N. change (N.of_nat 1) with 1%N. lia.
      * intros _. lia.
    + destruct (kk_spec srt Hsp Hsd ws k p0 Hnn Hk Hlen) as [p [Hp [Lp [Fp Gp]]]]; [lia|].
      exists p. split; [exact Hp|]. split; [exact Lp|]. split; [exact Fp|]. split; [auto|]. intros ->. congruence.
Qed.

Theorem kk_partition_mismatch : forall srt ws k p0, length ws <> length p0 ->
  kk_partition srt ws k p0 = Err (InputLenMismatch (length p0) (length ws)).
Proof. intros srt ws k p0 H. unfold kk_partition. apply Nat.eqb_neq in H. rewrite H. reflexivity. Qed.

(* ---------- the checker decides the property ---------- *)

Lemma forallb_ids_below k p :
  ids_below k p = true <-> Forall (fun x => (x < N.of_nat k)%N) p.
Proof.
  unfold ids_below. rewrite forallb_forall, Forall_forall.
  split; intros H x Hx; specialize (H x Hx); now apply N.ltb_lt.
Qed.

Theorem check_kk_ok ws k p :
  check_kk ws k p = true <->
  (length p = length ws /\ Forall (fun x => (x < N.of_nat k)%N) p
   /\ (k = 2%nat -> Z.abs (load ws p 0 - load ws p 1) = residue ws)
   /\ gap (loads ws p k) <= maxl ws).
Proof.
  unfold check_kk. rewrite !andb_true_iff, Nat.eqb_eq, forallb_ids_below, Z.leb_le.
  destruct (Nat.eqb_spec k 2) as [->|Hk].
  - rewrite Z.eqb_eq. tauto.
  - split; [intros [[[H1 H2] _] H4]|intros [H1 [H2 [_ H4]]]]; repeat split; auto. intros; contradiction.
Qed.

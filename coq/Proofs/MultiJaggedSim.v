(* Two arithmetics whose operations preserve a relation R and whose tests agree
   on related numbers drive the model to the same result.  Instance: the
   normalised fractions [QAred] used to execute the exact model in the runs
   against the plain rationals [QA] the balance theorem is about. *)
From Coq Require Import Permutation QArith Lqa.
From Coupe Require Import Lib.Prelude Lib.SFloat Model.MultiJagged Proofs.MultiJaggedProofs.

Definition res_rel {X Y} (Rr : X -> Y -> Prop) (r1 : res X) (r2 : res Y) : Prop :=
  match r1, r2 with
  | Ok a, Ok b => Rr a b
  | Panic s, Panic t => s = t
  | Err e1, Err e2 => e1 = e2
  | OutOfFuel, OutOfFuel => True
  | _, _ => False
  end.

Lemma res_rel_bind {X Y X' Y'} (Rr : X -> Y -> Prop) (Rr' : X' -> Y' -> Prop) r1 r2 f1 f2 :
  res_rel Rr r1 r2 -> (forall a b, Rr a b -> res_rel Rr' (f1 a) (f2 b)) ->
  res_rel Rr' (bind r1 f1) (bind r2 f2).
Proof. destruct r1, r2; cbn [res_rel bind]; intros H Hf; try contradiction; auto. Qed.

Lemma res_rel_eq {X} (r1 r2 : res X) : res_rel eq r1 r2 -> r1 = r2.
Proof. destruct r1, r2; cbn [res_rel]; intros H; try contradiction; congruence. Qed.

Lemma Forall2_firstn {X Y} (R : X -> Y -> Prop) n l1 l2 : Forall2 R l1 l2 -> Forall2 R (firstn n l1) (firstn n l2).
Proof. intros H. revert n. induction H; intros [|n]; cbn [firstn]; constructor; auto. Qed.

Lemma Forall2_skipn {X Y} (R : X -> Y -> Prop) n l1 l2 : Forall2 R l1 l2 -> Forall2 R (skipn n l1) (skipn n l2).
Proof. intros H. revert n. induction H; intros [|n]; cbn [skipn]; try constructor; auto. Qed.

Lemma Forall2_rev' {X Y} (R : X -> Y -> Prop) l1 l2 : Forall2 R l1 l2 -> Forall2 R (rev l1) (rev l2).
Proof. induction 1; cbn [rev]; [constructor|]. apply Forall2_app; [assumption|constructor; [assumption|constructor]]. Qed.

Section Sim.
  Variables A1 A2 : arith.
  Variable R : num A1 -> num A2 -> Prop.

  Record sim : Prop := {
    s_zero : R (a_zero A1) (a_zero A2);
    s_add : forall a b c d, R a b -> R c d -> R (a_add A1 a c) (a_add A2 b d);
    s_mul : forall a b c d, R a b -> R c d -> R (a_mul A1 a c) (a_mul A2 b d);
    s_div : forall a b c d, R a b -> R c d -> R (a_div A1 a c) (a_div A2 b d);
    s_ofN : forall n, R (a_ofN A1 n) (a_ofN A2 n);
    s_lt : forall a b c d, R a b -> R c d -> a_lt A1 a c = a_lt A2 b d;
    s_ulps : forall a b c d, R a b -> R c d -> a_ulps A1 a c = a_ulps A2 b d
  }.
  Hypothesis HS : sim.

  Inductive scheme_rel : scheme (num A1) -> scheme (num A2) -> Prop :=
  | SR_none ns m1 m2 : Forall2 R m1 m2 -> scheme_rel (SNode ns m1 None) (SNode ns m2 None)
  | SR_some ns m1 m2 c1 c2 : Forall2 R m1 m2 -> Forall2 scheme_rel c1 c2 ->
      scheme_rel (SNode ns m1 (Some c1)) (SNode ns m2 (Some c2)).

  (* ---- scheme ---- *)
  Lemma modifiers_rel nreg nfat sreg sfat :
    Forall2 R (compute_modifiers A1 nreg nfat sreg sfat) (compute_modifiers A2 nreg nfat sreg sfat).
  Proof.
    unfold compute_modifiers. apply Forall2_app; apply Forall2_repeat; apply (s_div HS); apply (s_ofN HS).
  Qed.

  Lemma partition_scheme_rel root : forall m n,
    res_rel scheme_rel (partition_scheme A1 root n m) (partition_scheme A2 root n m).
  Proof.
    induction m as [|m IH]; intros n; cbn [partition_scheme].
    - destruct (root n 0%nat =? 0)%N; [reflexivity|]. destruct (2 ^ 60 <=? root n 0%nat)%N; [reflexivity|].
      destruct (n mod root n 0%nat =? 0)%N; [|reflexivity]. cbn [res_rel]. constructor. apply modifiers_rel.
    - destruct (root n (S m) =? 0)%N; [reflexivity|]. destruct (2 ^ 60 <=? root n (S m))%N; [reflexivity|].
      eapply res_rel_bind with (Rr := Forall2 scheme_rel).
      + destruct (n mod root n (S m) =? 0)%N; [constructor|].
        eapply res_rel_bind; [apply IH|]. intros a b Hab. cbn [res_rel]. apply Forall2_repeat; exact Hab.
      + intros f1 f2 Hf. eapply res_rel_bind; [apply IH|]. intros a b Hab. cbn [res_rel].
        constructor; [apply modifiers_rel|]. apply Forall2_app; [exact Hf|apply Forall2_repeat; exact Hab].
  Qed.

  (* ---- compute_split_positions ---- *)
  Lemma nth_opt_rel w1 w2 i : Forall2 R w1 w2 ->
    match nth_opt w1 i, nth_opt w2 i with Some a, Some b => R a b | None, None => True | _, _ => False end.
  Proof. intros H. revert i. induction H; intros [|i]; cbn [nth_opt]; cbv iota; auto. apply IHForall2. Qed.

  Lemma gather_rel w1 w2 perm : Forall2 R w1 w2 -> res_rel (Forall2 R) (gather A1 w1 perm) (gather A2 w2 perm).
  Proof.
    intros H. induction perm as [|i t IH]; cbn [gather]; [constructor|].
    pose proof (nth_opt_rel w1 w2 i H) as Hn. destruct (nth_opt w1 i), (nth_opt w2 i); try contradiction; [|reflexivity].
    eapply res_rel_bind; [exact IH|]. intros a b Hab. cbn [res_rel]. constructor; assumption.
  Qed.

  Lemma fold_add_rel l1 l2 : Forall2 R l1 l2 -> forall a b, R a b -> R (fold_left (a_add A1) l1 a) (fold_left (a_add A2) l2 b).
  Proof. induction 1; intros a b Hab; cbn [fold_left]; [exact Hab|]. apply IHForall2. apply (s_add HS); assumption. Qed.

  Lemma sum_list_rel l1 l2 : Forall2 R l1 l2 -> R (sum_list A1 l1) (sum_list A2 l2).
  Proof. intros H. unfold sum_list. apply fold_add_rel; [exact H|apply (s_zero HS)]. Qed.

  Lemma split_last_rel m1 m2 : Forall2 R m1 m2 ->
    match split_last m1, split_last m2 with Some a, Some b => Forall2 R a b | None, None => True | _, _ => False end.
  Proof.
    induction 1 as [|x y t1 t2 Hxy Ht IH]; cbn [split_last]; [exact I|].
    destruct Ht as [|x' y' t1' t2' Hx' Ht']; [constructor|].
    destruct (split_last (x' :: t1')), (split_last (y' :: t2')); try contradiction; [|exact I].
    constructor; assumption.
  Qed.

  Lemma thresholds_rel m1 m2 : Forall2 R m1 m2 -> forall t1 t2 c1 c2, R t1 t2 -> R c1 c2 ->
    Forall2 R (thresholds A1 t1 c1 m1) (thresholds A2 t2 c2 m2).
  Proof.
    induction 1 as [|x y l1 l2 Hxy Hl IH]; intros t1 t2 c1 c2 Ht Hc; cbn [thresholds]; [constructor|].
    cbv zeta. assert (Hn : R (a_add A1 c1 (a_mul A1 t1 x)) (a_add A2 c2 (a_mul A2 t2 y))).
    { apply (s_add HS); [exact Hc|]. apply (s_mul HS); assumption. }
    constructor; [exact Hn|]. apply IH; assumption.
  Qed.

  Definition blk_rel (b1 : nat * num A1) (b2 : nat * num A2) : Prop := fst b1 = fst b2 /\ R (snd b1) (snd b2).

  Lemma blocks_rel bs : forall start l1 l2, Forall2 R l1 l2 ->
    Forall2 blk_rel (blocks_of A1 bs start l1) (blocks_of A2 bs start l2).
  Proof.
    induction bs as [|b bs IH]; intros start l1 l2 H; cbn [blocks_of].
    - destruct H; [constructor|]. constructor; [|constructor]. split; [reflexivity|].
      apply sum_list_rel. constructor; assumption.
    - destruct H as [|x y t1 t2 Hxy Ht]; [constructor|].
      destruct (Nat.eqb b 0); [apply IH; constructor; assumption|].
      constructor.
      + split; [reflexivity|]. apply sum_list_rel. apply Forall2_firstn. constructor; assumption.
      + apply IH. apply Forall2_skipn. constructor; assumption.
  Qed.

  Lemma take_until_rel len : forall s1 s2, Forall2 blk_rel s1 s2 -> forall c1 c2 t1 t2, R c1 c2 -> R t1 t2 ->
    let '(lo1, ca1, cw1, r1) := take_until A1 s1 c1 t1 len in
    let '(lo2, ca2, cw2, r2) := take_until A2 s2 c2 t2 len in
    lo1 = lo2 /\ R ca1 ca2 /\ R cw1 cw2 /\ Forall2 blk_rel r1 r2.
  Proof.
    induction 1 as [|[lo1 x] [lo2 y] r1 r2 [Hlo Hxy] Hr IH]; intros c1 c2 t1 t2 Hc Ht; cbn [take_until].
    - repeat split; try assumption. constructor.
    - cbn [fst snd] in *. subst lo2. cbv zeta.
      assert (Hn : R (a_add A1 c1 x) (a_add A2 c2 y)) by (apply (s_add HS); assumption).
      rewrite (s_lt HS _ _ _ _ Ht Hn). destruct (a_lt A2 t2 (a_add A2 c2 y)).
      + repeat split; assumption.
      + apply IH; assumption.
  Qed.

  Lemma outer_rel len : forall th1 th2, Forall2 R th1 th2 -> forall s1 s2 c1 c2 r1 r2,
    Forall2 blk_rel s1 s2 -> R c1 c2 -> Forall2 blk_rel r1 r2 ->
    res_rel (Forall2 blk_rel) (outer A1 th1 s1 c1 len r1) (outer A2 th2 s2 c2 len r2).
  Proof.
    induction 1 as [|t1 t2 th1 th2 Ht Hth IH]; intros s1 s2 c1 c2 r1 r2 Hs Hc Hr; cbn [outer].
    - cbn [res_rel]. apply Forall2_rev'. exact Hr.
    - rewrite (s_lt HS _ _ _ _ Ht Hc). destruct (a_lt A2 t2 c2).
      + destruct Hr as [|l1 l2 r1' r2' Hl Hr']; [reflexivity|]. apply IH; try assumption.
        constructor; [exact Hl|]. constructor; assumption.
      + pose proof (take_until_rel len s1 s2 Hs c1 c2 t1 t2 Hc Ht) as Htu.
        destruct (take_until A1 s1 c1 t1 len) as [[[lo1 ca1] cw1] rest1].
        destruct (take_until A2 s2 c2 t2 len) as [[[lo2 ca2] cw2] rest2].
        destruct Htu as [E1 [E2 [E3 E4]]]. apply IH; try assumption.
        constructor; [split; assumption|exact Hr].
  Qed.

  Lemma refine_rel : forall l1 l2, Forall2 R l1 l2 -> forall idx s1 s2 t1 t2, R s1 s2 -> R t1 t2 ->
    refine A1 l1 idx s1 t1 = refine A2 l2 idx s2 t2.
  Proof.
    induction 1 as [|x y l1 l2 Hxy Hl IH]; intros idx s1 s2 t1 t2 Hs Ht; cbn [refine]; [reflexivity|].
    cbv zeta. assert (Hn : R (a_add A1 s1 x) (a_add A2 s2 y)) by (apply (s_add HS); assumption).
    rewrite (s_lt HS _ _ _ _ Hn Ht), (s_ulps HS _ _ _ _ Ht Hn).
    destruct (a_lt A2 (a_add A2 s2 y) t2 || a_ulps A2 t2 (a_add A2 s2 y)); [|reflexivity].
    apply IH; assumption.
  Qed.

  Lemma csp_core_rel wl1 wl2 th1 th2 bs : Forall2 R wl1 wl2 -> Forall2 R th1 th2 ->
    res_rel eq (csp_core A1 wl1 th1 bs) (csp_core A2 wl2 th2 bs).
  Proof.
    intros Hw Ht. unfold csp_core. rewrite (Forall2_len _ _ _ Hw).
    eapply res_rel_bind.
    - apply outer_rel; [exact Ht|apply blocks_rel; exact Hw|apply (s_zero HS)|constructor].
    - intros r1 r2 Hr. cbn [res_rel]. clear - HS Hr Ht Hw. revert th1 th2 Ht.
      induction Hr as [|[i1 x] [i2 y] r1 r2 [Hi Hxy] Hr IH]; intros th1 th2 Ht; [reflexivity|].
      destruct Ht as [|t1 t2 th1 th2 Ht Hth]; [reflexivity|]. cbn [combine map fst snd] in *. subst i2.
      f_equal; [|apply IH; exact Hth].
      apply refine_rel; try assumption. apply Forall2_skipn. exact Hw.
  Qed.

  Lemma csp_rel w1 w2 perm m1 m2 bs : Forall2 R w1 w2 -> Forall2 R m1 m2 ->
    csp A1 w1 perm m1 bs = csp A2 w2 perm m2 bs.
  Proof.
    intros Hw Hm. apply res_rel_eq. unfold csp.
    pose proof (split_last_rel m1 m2 Hm) as Hs.
    destruct (split_last m1), (split_last m2); try contradiction; [|reflexivity].
    eapply res_rel_bind; [apply gather_rel; exact Hw|]. intros wl1 wl2 Hwl.
    apply csp_core_rel; [exact Hwl|]. apply thresholds_rel; [exact Hs|apply sum_list_rel; exact Hwl|apply (s_zero HS)].
  Qed.

  (* ---- recursion ---- *)
  Section Rec.
    Variable D npts : nat.
    Variable w1 : list (num A1).
    Variable w2 : list (num A2).
    Hypothesis Hw : Forall2 R w1 w2.
    Variable sorter : nat -> list nat -> list nat.
    Variable blk : list nat -> list nat.

    Lemma mj_rec_rel : forall s1 s2, scheme_rel s1 s2 -> forall a perm,
      mj_rec A1 D npts w1 sorter blk s1 a perm = mj_rec A2 D npts w2 sorter blk s2 a perm.
    Proof.
      induction s1 as [ns m1 n1 IH] using scheme_ind2. intros s2 Hrel a perm.
      inversion Hrel as [ns' m1' m2 Hm|ns' m1' m2 c1 c2 Hm Hc]; subst; rewrite !mj_rec_eq.
      - destruct (ns =? 0)%N; [reflexivity|]. destruct (_ && _); [reflexivity|]. cbv zeta.
        rewrite (csp_rel w1 w2 _ m1 m2 _ Hw Hm). reflexivity.
      - destruct (ns =? 0)%N; [reflexivity|]. destruct (_ && _); [reflexivity|]. cbv zeta.
        rewrite (csp_rel w1 w2 _ m1 m2 _ Hw Hm).
        destruct (csp A2 w2 (sorter a perm) m2 (blk (sorter a perm))) as [pos| | |]; cbn [bind]; try reflexivity.
        destruct (split_many (sorter a perm) pos 0) as [subs| | |]; cbn [bind]; try reflexivity.
        specialize (IH c1 eq_refl). clear - IH Hc. revert subs.
        induction Hc as [|x y t1 t2 Hxy Ht IHc]; intros subs; destruct subs as [|s subs]; cbn [go_ch]; try reflexivity.
        inversion IH as [|? ? Px Pt]; subst. destruct (Nat.eqb D 0); [reflexivity|].
        rewrite (Px y Hxy). destruct (mj_rec A2 D npts w2 sorter blk y (S a mod D) s); cbn [bind]; try reflexivity.
        rewrite (IHc Pt). reflexivity.
    Qed.

    Lemma multi_jagged_rel root ord k m p0 :
      multi_jagged A1 D npts w1 sorter blk root ord k m p0 = multi_jagged A2 D npts w2 sorter blk root ord k m p0.
    Proof.
      unfold multi_jagged. pose proof (partition_scheme_rel root m k) as Hs.
      destruct (partition_scheme A1 root k m), (partition_scheme A2 root k m); cbn [res_rel] in Hs; try contradiction;
        cbn [bind]; try congruence.
      unfold mj_with_scheme. rewrite (mj_rec_rel _ _ Hs). reflexivity.
    Qed.
  End Rec.
End Sim.

(* ---- normalised fractions against plain rationals ---- *)
Lemma sim_QAred_QA : sim QAred QA Qeq.
Proof.
  constructor; cbn [QAred QA a_zero a_add a_mul a_div a_ofN a_lt a_ulps num].
  - reflexivity.
  - intros a b c d H1 H2. rewrite Qred_correct, H1, H2. reflexivity.
  - intros a b c d H1 H2. rewrite Qred_correct, H1, H2. reflexivity.
  - intros a b c d H1 H2. rewrite Qred_correct, H1, H2. reflexivity.
  - reflexivity.
  - intros a b c d H1 H2. f_equal.
    destruct (Qle_bool c a) eqn:E1, (Qle_bool d b) eqn:E2; try reflexivity.
    + apply Qle_bool_iff in E1. rewrite H1, H2 in E1. apply Qle_bool_iff in E1. congruence.
    + apply Qle_bool_iff in E2. rewrite <- H1, <- H2 in E2. apply Qle_bool_iff in E2. congruence.
  - intros a b c d H1 H2.
    destruct (Qeq_bool a c) eqn:E1, (Qeq_bool b d) eqn:E2; try reflexivity.
    + apply Qeq_bool_iff in E1. rewrite H1, H2 in E1. apply Qeq_bool_iff in E1. congruence.
    + apply Qeq_bool_iff in E2. rewrite <- H1, <- H2 in E2. apply Qeq_bool_iff in E2. congruence.
Qed.

Lemma Forall2_Qeq_refl l : Forall2 Qeq l l.
Proof. induction l; constructor; [reflexivity|assumption]. Qed.

(* the exact model as executed in the runs is the exact model of the theorems *)
Theorem multi_jagged_QAred D npts (wq : list Q) sorter blk root ord k m p0 :
  multi_jagged QAred D npts wq sorter blk root ord k m p0 = multi_jagged QA D npts wq sorter blk root ord k m p0.
Proof. apply (multi_jagged_rel QAred QA Qeq sim_QAred_QA). apply Forall2_Qeq_refl. Qed.

(* ArcSwap: the f64 per-thread share is the exact integer quotient.
   `W::from_f64((max_part_weight - pw).to_f64().unwrap() / thread_count as f64).unwrap()` for
   W = i64, i.e. [headroom_f64 d tc] of Model/ArcSwap.v, equals [Some (d quot tc)] for every
   |d| < 2^53 and 1 <= tc <= 2^53:  both conversions are exact, the IEEE quotient is the
   correctly rounded d/tc (Flocq: Bdiv_correct), and rounding cannot carry a non-integer d/tc up
   to the next integer q+1, because its distance to q+1 is at least 1/tc while the rounding
   error is at most 2^-53 * |d/tc| < 1/tc.
   This file uses the real-number axioms of Coq's standard library through Flocq (named in the
   trusted base of C05). *)
From Coq Require Import ZArith Reals Lia Lra Psatz Bool Floats.SpecFloat.
From Flocq Require Import Core Ulp Relative BinarySingleNaN.
From Coupe Require Import Lib.Prelude Lib.SFloat Model.ArcSwap.

Local Open Scope R_scope.

Local Notation prec := 53%Z.
Local Notation emax := 1024%Z.
#[local] Instance Hprec : FLX.Prec_gt_0 prec := eq_refl _.
#[local] Instance Hmax : Prec_lt_emax prec emax := eq_refl _.
Local Notation bf := (binary_float prec emax).
Local Notation fexp64 := (SpecFloat.fexp prec emax).
Local Notation F64 := (generic_format radix2 fexp64).
Local Notation rnd := (round radix2 fexp64 ZnearestE).
Local Notation finB := (@BinarySingleNaN.is_finite prec emax).

(* ---------- SpecFloat's rounding = Flocq's rounding in mode NE, at binary64
   (as in Proofs/F32Flocq.v at binary32) ---------- *)
Lemma round_nearest_even_equiv s m l :
  round_nearest_even m l = choice_mode mode_NE s m l.
Proof.
  case l; [reflexivity|intro c].
  case c; [ | reflexivity..].
  now simpl; unfold Round.cond_incr; case Z.even.
Qed.

Lemma binary_round_aux_equiv sx mx ex lx :
  SpecFloat.binary_round_aux prec emax sx mx ex lx
  = binary_round_aux prec emax mode_NE sx mx ex lx.
Proof.
  unfold SpecFloat.binary_round_aux, binary_round_aux.
  set (mrse' := shr_fexp _ _ _).
  case mrse'; intros mrs' e'; simpl.
  now rewrite (round_nearest_even_equiv sx).
Qed.

Lemma binary_round_equiv s m e :
  SpecFloat.binary_round prec emax s m e = binary_round prec emax mode_NE s m e.
Proof.
  unfold SpecFloat.binary_round, binary_round, shl_align_fexp.
  set (mez := shl_align _ _ _); case mez as [mz ez].
  apply binary_round_aux_equiv.
Qed.

Lemma binary_normalize_equiv m e szero :
  SpecFloat.binary_normalize prec emax m e szero
  = B2SF (binary_normalize prec emax Hprec Hmax mode_NE m e szero).
Proof.
  case m as [ | p | p].
  - now simpl.
  - simpl; rewrite B2SF_SF2B; apply binary_round_equiv.
  - simpl; rewrite B2SF_SF2B; apply binary_round_equiv.
Qed.

Lemma div_link (x y : bf) : f64_div (B2SF x) (B2SF y) = B2SF (Bdiv mode_NE x y).
Proof.
  destruct x as [sx|sx| |sx mx ex Bx]; destruct y as [sy|sy| |sy my ey By]; try reflexivity.
  simpl. rewrite B2SF_SF2B.
  set (melz := SFdiv_core_binary _ _ _ _ _ _).
  case melz as [[mz ez] lz].
  apply binary_round_aux_equiv.
Qed.

(* ---------- basic facts about the format ---------- *)
Lemma fexp64_FLT : fexp64 = FLT_exp (-1074) prec.
Proof. reflexivity. Qed.

Lemma valid64 : Valid_exp fexp64.
Proof. apply fexp_correct. reflexivity. Qed.

Lemma rnd_mono a b : a <= b -> rnd a <= rnd b.
Proof. apply round_le; auto with typeclass_instances. apply valid64. Qed.
Lemma rnd_id a : F64 a -> rnd a = a.
Proof. apply round_generic; auto with typeclass_instances. Qed.

(* integers up to 2^53 in absolute value are binary64 numbers *)
Lemma int_format z : (Z.abs z <= 2 ^ 53)%Z -> F64 (IZR z).
Proof.
  intros Hz. rewrite fexp64_FLT. apply generic_format_FLT.
  destruct (Z.eq_dec (Z.abs z) (2 ^ 53)) as [E|N].
  - exists (Float radix2 (Z.sgn z) 53).
    + unfold F2R. cbn [Fnum Fexp]. change (bpow radix2 53) with (IZR (2 ^ 53)).
      rewrite <- mult_IZR. f_equal. rewrite <- E. destruct z; cbn [Z.sgn Z.abs]; lia.
    + cbn [Fnum]. change (2 ^ prec)%Z with 9007199254740992%Z. destruct z; cbn; lia.
    + cbn. lia.
  - exists (Float radix2 z 0).
    + unfold F2R. cbn [Fnum Fexp]. cbn. lra.
    + cbn [Fnum]. change (radix2 ^ prec)%Z with (2 ^ 53)%Z. lia.
    + cbn. lia.
Qed.

(* ---------- the conversions `as f64` of the two integers ---------- *)
Definition BofZ (z : Z) : bf := binary_normalize prec emax Hprec Hmax mode_NE z 0 false.

Lemma BofZ_link z : f64_of_Z z = B2SF (BofZ z).
Proof. unfold of_Z, BofZ. apply binary_normalize_equiv. Qed.

Lemma bpow_emax_big : IZR (2 ^ 53) < bpow radix2 emax.
Proof. change (IZR (2 ^ 53)) with (bpow radix2 53). apply bpow_lt. lia. Qed.

Lemma BofZ_correct z : (Z.abs z <= 2 ^ 53)%Z -> B2R (BofZ z) = IZR z /\ finB (BofZ z) = true.
Proof.
  intros Hz. pose proof (binary_normalize_correct prec emax Hprec Hmax mode_NE z 0 false) as H.
  cbv zeta in H. fold (BofZ z) in H.
  assert (E : F2R (Float radix2 z 0) = IZR z) by (unfold F2R; cbn; lra).
  rewrite E in H. change (round_mode mode_NE) with ZnearestE in H.
  rewrite (rnd_id _ (int_format z Hz)) in H.
  rewrite Rlt_bool_true in H.
  - tauto.
  - rewrite <- abs_IZR. apply Rle_lt_trans with (IZR (2 ^ 53)); [apply IZR_le; exact Hz|apply bpow_emax_big].
Qed.

(* ---------- truncation toward zero of a finite value ---------- *)
Lemma trunc_Z_finite s m e :
  trunc_Z (S754_finite s m e) = Some (Ztrunc (F2R (Float radix2 (cond_Zopp s (Zpos m)) e))).
Proof.
  unfold trunc_Z. f_equal.
  assert (Hm : F2R (Float radix2 (cond_Zopp s (Zpos m)) e) = cond_Ropp s (F2R (Float radix2 (Zpos m) e))).
  { destruct s; cbn [cond_Zopp cond_Ropp]; [|reflexivity]. change (Z.neg m) with (- Z.pos m)%Z. apply F2R_Zopp. }
  rewrite Hm.
  assert (Hpos : 0 <= F2R (Float radix2 (Zpos m) e)) by (apply F2R_ge_0; cbn; lia).
  assert (Hmag : Ztrunc (F2R (Float radix2 (Zpos m) e))
                 = if (0 <=? e)%Z then (Zpos m * 2 ^ e)%Z else (Zpos m / 2 ^ (- e))%Z).
  { rewrite Ztrunc_floor by exact Hpos. unfold F2R. cbn [Fnum Fexp].
    destruct (Z.leb_spec 0 e) as [He|He].
    - rewrite <- IZR_Zpower by exact He. change (radix_val radix2) with 2%Z.
      rewrite <- mult_IZR. apply Zfloor_IZR.
    - replace e with (- (- e))%Z at 1 by lia. rewrite bpow_opp.
      assert (Hp : bpow radix2 (- e) = IZR (2 ^ (- e))).
      { rewrite <- IZR_Zpower by lia. reflexivity. }
      rewrite Hp. apply Zfloor_div. apply Z.pow_nonzero; lia. }
  destruct s; cbn [cond_Ropp].
  - rewrite Ztrunc_opp, Hmag. reflexivity.
  - rewrite Hmag. reflexivity.
Qed.

Lemma trunc_Z_B2SF (x : bf) : finB x = true -> trunc_Z (B2SF x) = Some (Ztrunc (B2R x)).
Proof.
  destruct x as [s|s| |s m e B]; cbn [BinarySingleNaN.is_finite]; try discriminate; intros _.
  - cbn [B2SF trunc_Z B2R]. now rewrite Ztrunc_IZR.
  - cbn [B2SF B2R]. apply trunc_Z_finite.
Qed.

(* ---------- the real-number core ---------- *)
Lemma pow53 : IZR (2 ^ 53) = bpow radix2 53.
Proof. reflexivity. Qed.

(* rounding a quotient of integers never reaches the next integer *)
Lemma trunc_round_quot_nonneg d tc : (0 <= d < 2 ^ 53)%Z -> (1 <= tc <= 2 ^ 53)%Z ->
  Ztrunc (rnd (IZR d / IZR tc)) = (d / tc)%Z.
Proof.
  intros Hd Htc.
  set (q := (d / tc)%Z). set (r := (d mod tc)%Z).
  assert (Hdiv : d = (tc * q + r)%Z) by (unfold q, r; apply Z.div_mod; lia).
  assert (Hr : (0 <= r < tc)%Z) by (unfold r; apply Z.mod_pos_bound; lia).
  assert (Hq0 : (0 <= q)%Z) by (unfold q; apply Z.div_pos; lia).
  assert (Hq1 : (q <= d)%Z) by (unfold q; apply Z.div_le_upper_bound; nia).
  assert (Htc_pos : 0 < IZR tc) by (apply IZR_lt; lia).
  set (x := IZR d / IZR tc).
  assert (Hx : x = IZR q + IZR r / IZR tc).
  { unfold x. rewrite Hdiv, plus_IZR, mult_IZR. field. lra. }
  assert (Hr0 : 0 <= IZR r) by (apply IZR_le; lia).
  assert (Hrt : IZR r < IZR tc) by (apply IZR_lt; lia).
  assert (Hlo : IZR q <= x).
  { rewrite Hx. assert (0 <= IZR r / IZR tc) by (apply Rmult_le_pos; [lra|left; now apply Rinv_0_lt_compat]). lra. }
  assert (Hhi : x < IZR (q + 1)).
  { rewrite Hx, plus_IZR. assert (IZR r / IZR tc < 1).
    { apply Rmult_lt_reg_r with (IZR tc); [lra|]. unfold Rdiv. rewrite Rmult_assoc, Rinv_l by lra. lra. }
    lra. }
  assert (Fq : F64 (IZR q)) by (apply int_format; lia).
  assert (Fq1 : F64 (IZR (q + 1))) by (apply int_format; lia).
  assert (Rlo : IZR q <= rnd x) by (rewrite <- (rnd_id _ Fq); now apply rnd_mono).
  assert (Rhi : rnd x <= IZR (q + 1)) by (rewrite <- (rnd_id _ Fq1); apply rnd_mono; lra).
  assert (Rnn : 0 <= rnd x) by (apply Rle_trans with (IZR q); [apply IZR_le; lia|exact Rlo]).
  rewrite Ztrunc_floor by exact Rnn. apply Zfloor_imp. split; [exact Rlo|].
  destruct (Z.eq_dec r 0) as [E0|N0].
  - (* exact quotient *)
    assert (Ex : x = IZR q) by (rewrite Hx, E0; unfold Rdiv; lra).
    rewrite Ex, (rnd_id _ Fq), plus_IZR. lra.
  - (* otherwise the rounding error is too small to reach q + 1 *)
    destruct (Rle_lt_or_eq_dec _ _ Rhi) as [L|E]; [exact L|exfalso].
    assert (Hd1 : (1 <= d)%Z) by nia.
    assert (Hxpos : 0 < x) by (unfold x; apply Rdiv_lt_0_compat; [apply IZR_lt; lia|exact Htc_pos]).
    assert (Hnorm : bpow radix2 (-1074 + prec - 1) <= Rabs x).
    { rewrite Rabs_pos_eq by lra.
      apply Rle_trans with (/ IZR tc).
      - apply Rle_trans with (/ IZR (2 ^ 53)).
        + rewrite pow53, <- bpow_opp. apply bpow_le. lia.
        + apply Rinv_le; [exact Htc_pos|apply IZR_le; lia].
      - unfold x, Rdiv. rewrite <- (Rmult_1_l (/ IZR tc)) at 1.
        apply Rmult_le_compat_r; [left; now apply Rinv_0_lt_compat|apply IZR_le; lia]. }
    pose proof (relative_error_N_FLT radix2 (-1074) prec eq_refl (fun n => negb (Z.even n)) x Hnorm) as Herr.
    change (round radix2 (FLT_exp (-1074) prec) (Znearest (fun n => negb (Z.even n))) x) with (rnd x) in Herr.
    rewrite E in Herr. rewrite (Rabs_pos_eq x) in Herr by lra.
    rewrite Rabs_pos_eq in Herr by lra.
    (* distance to q+1 is at least 1/tc *)
    assert (Hdist : / IZR tc <= IZR (q + 1) - x).
    { rewrite Hx, plus_IZR.
      assert (IZR r <= IZR tc - 1) by (rewrite <- minus_IZR; apply IZR_le; lia).
      assert (Hi : IZR r / IZR tc <= (IZR tc - 1) / IZR tc).
      { unfold Rdiv. apply Rmult_le_compat_r; [left; now apply Rinv_0_lt_compat|assumption]. }
      assert ((IZR tc - 1) / IZR tc = 1 - / IZR tc) by (field; lra). lra. }
    (* the relative error bound is below 1/tc *)
    assert (Hsmall : / 2 * bpow radix2 (- prec + 1) * x < / IZR tc).
    { assert (Hb : / 2 * bpow radix2 (- prec + 1) = / IZR (2 ^ 53)).
      { rewrite pow53. change (- prec + 1)%Z with (- (52))%Z. rewrite bpow_opp.
        change (bpow radix2 53) with (IZR (2 ^ 53)). change (bpow radix2 52) with (IZR (2 ^ 52)).
        change (2 ^ 53)%Z with (2 * 2 ^ 52)%Z. rewrite mult_IZR.
        field. apply not_0_IZR. lia. }
      rewrite Hb. unfold x, Rdiv. rewrite <- Rmult_assoc.
      rewrite <- (Rmult_1_l (/ IZR tc)) at 2.
      apply Rmult_lt_compat_r; [now apply Rinv_0_lt_compat|].
      assert (Hp : 0 < IZR (2 ^ 53)) by (apply IZR_lt; lia).
      apply Rmult_lt_reg_l with (IZR (2 ^ 53)); [exact Hp|].
      rewrite <- Rmult_assoc, Rinv_r, Rmult_1_l, Rmult_1_r by lra. apply IZR_lt. lia. }
    lra.
Qed.

Lemma trunc_round_quot d tc : (Z.abs d < 2 ^ 53)%Z -> (1 <= tc <= 2 ^ 53)%Z ->
  Ztrunc (rnd (IZR d / IZR tc)) = Z.quot d tc.
Proof.
  intros Hd Htc. destruct (Z.le_gt_cases 0 d) as [Hp|Hn].
  - rewrite trunc_round_quot_nonneg by lia. symmetry. apply Z.quot_div_nonneg; lia.
  - replace d with (- (- d))%Z by lia. rewrite opp_IZR.
    replace (- IZR (- d) / IZR tc) with (- (IZR (- d) / IZR tc)) by (unfold Rdiv; lra).
    rewrite round_NE_opp, Ztrunc_opp, trunc_round_quot_nonneg by lia.
    rewrite Z.quot_opp_l by lia. f_equal. symmetry. apply Z.quot_div_nonneg; lia.
Qed.

(* ---------- the share of arc_swap ---------- *)
Theorem headroom_f64_exact d tc : (Z.abs d < 2 ^ 53)%Z -> (1 <= Z.of_nat tc <= 2 ^ 53)%Z ->
  headroom_f64 d tc = Some (Z.quot d (Z.of_nat tc)).
Proof.
  intros Hd Htc. unfold headroom_f64.
  destruct (BofZ_correct d) as [Rd Fd]; [lia|].
  destruct (BofZ_correct (Z.of_nat tc)) as [Rt Ft]; [lia|].
  rewrite (BofZ_link d), (BofZ_link (Z.of_nat tc)), div_link.
  assert (Hne : B2R (BofZ (Z.of_nat tc)) <> 0) by (rewrite Rt; apply not_0_IZR; lia).
  pose proof (Bdiv_correct prec emax Hprec Hmax mode_NE (BofZ d) (BofZ (Z.of_nat tc)) Hne) as H.
  rewrite Rd, Rt in H. change (round_mode mode_NE) with ZnearestE in H.
  (* the rounded quotient is bounded by 2^53: no overflow *)
  assert (Hb : Rabs (rnd (IZR d / IZR (Z.of_nat tc))) <= IZR (2 ^ 53)).
  { apply abs_round_le_generic; auto with typeclass_instances.
    - apply valid64.
    - apply int_format. cbn. lia.
    - unfold Rdiv. rewrite Rabs_mult, <- abs_IZR.
      assert (H1 : 1 <= IZR (Z.of_nat tc)) by (apply IZR_le; lia).
      rewrite Rabs_inv. rewrite (Rabs_pos_eq (IZR (Z.of_nat tc))) by lra.
      assert (Hi : / IZR (Z.of_nat tc) <= 1) by (rewrite <- Rinv_1; apply Rinv_le; lra).
      assert (Ha : 0 <= IZR (Z.abs d) <= IZR (2 ^ 53)) by (split; apply IZR_le; lia).
      assert (Hi0 : 0 < / IZR (Z.of_nat tc)) by (apply Rinv_0_lt_compat; lra).
      nra. }
  rewrite Rlt_bool_true in H by (apply Rle_lt_trans with (IZR (2 ^ 53)); [exact Hb|apply bpow_emax_big]).
  destruct H as (HR & HF & _). rewrite Fd in HF.
  rewrite (trunc_Z_B2SF _ HF), HR, trunc_round_quot by lia.
  assert (Hq : (Z.abs (Z.quot d (Z.of_nat tc)) <= Z.abs d)%Z).
  { rewrite <- Z.quot_abs by lia. apply Z.quot_le_upper_bound; try lia.
    rewrite (Z.abs_eq (Z.of_nat tc)) by lia. nia. }
  unfold in_i64.
  destruct (Z.leb_spec (- 2 ^ 63) (Z.quot d (Z.of_nat tc))); destruct (Z.ltb_spec (Z.quot d (Z.of_nat tc)) (2 ^ 63));
    cbn [andb]; try reflexivity; lia.
Qed.

(* ================================================================================ *)
(* ALL i64 operands: the share may exceed the exact quotient, but only by the two    *)
(* roundings (of `d as f64` and of the division): tc * share <= d * (1 + 2^-51).    *)
(* ================================================================================ *)

Lemma rnd_0 : rnd 0 = 0.
Proof. apply round_0. auto with typeclass_instances. Qed.

Lemma pow64_format : F64 (IZR (2 ^ 64)).
Proof.
  rewrite fexp64_FLT. apply generic_format_FLT. exists (Float radix2 1 64).
  - unfold F2R. cbn [Fnum Fexp]. change (bpow radix2 64) with (IZR (2 ^ 64)). lra.
  - cbn. lia.
  - cbn. lia.
Qed.

Lemma pow64_lt_emax : IZR (2 ^ 64) < bpow radix2 emax.
Proof. change (IZR (2 ^ 64)) with (bpow radix2 64). apply bpow_lt. lia. Qed.

Lemma rnd_abs_le64 x : Rabs x <= IZR (2 ^ 64) -> Rabs (rnd x) <= IZR (2 ^ 64).
Proof.
  intros H. apply abs_round_le_generic; auto with typeclass_instances.
  - apply valid64.
  - apply pow64_format.
Qed.

(* `d as f64` for any |d| <= 2^64: the correctly rounded value, finite *)
Lemma BofZ_round z : (Z.abs z <= 2 ^ 64)%Z -> B2R (BofZ z) = rnd (IZR z) /\ finB (BofZ z) = true.
Proof.
  intros Hz. pose proof (binary_normalize_correct prec emax Hprec Hmax mode_NE z 0 false) as H.
  cbv zeta in H. fold (BofZ z) in H.
  assert (E : F2R (Float radix2 z 0) = IZR z) by (unfold F2R; cbn; lra).
  rewrite E in H. change (round_mode mode_NE) with ZnearestE in H.
  rewrite Rlt_bool_true in H; [tauto|].
  apply Rle_lt_trans with (IZR (2 ^ 64)); [|apply pow64_lt_emax].
  apply rnd_abs_le64. rewrite <- abs_IZR. apply IZR_le. exact Hz.
Qed.

Definition u53 : R := / 2 * bpow radix2 (- prec + 1).

Lemma u53_val : u53 = / IZR (2 ^ 53).
Proof.
  unfold u53. change (- prec + 1)%Z with (- (52))%Z. rewrite bpow_opp.
  change (bpow radix2 52) with (IZR (2 ^ 52)). change (2 ^ 53)%Z with (2 * 2 ^ 52)%Z. rewrite mult_IZR.
  field. apply not_0_IZR. lia.
Qed.

(* relative error of rounding a value that is 0 or at least 2^-1022 *)
Lemma rnd_rel_up x : 0 <= x -> (x = 0 \/ bpow radix2 (-1022) <= x) -> 0 <= rnd x <= x * (1 + u53).
Proof.
  intros Hx [->|Hn].
  - rewrite rnd_0. lra.
  - split.
    + rewrite <- rnd_0. apply rnd_mono. exact Hx.
    + assert (Hnorm : bpow radix2 (-1074 + prec - 1) <= Rabs x) by (rewrite Rabs_pos_eq by lra; exact Hn).
      pose proof (relative_error_N_FLT radix2 (-1074) prec eq_refl (fun n => negb (Z.even n)) x Hnorm) as Herr.
      change (round radix2 (FLT_exp (-1074) prec) (Znearest (fun n => negb (Z.even n))) x) with (rnd x) in Herr.
      rewrite (Rabs_pos_eq x) in Herr by lra. fold u53 in Herr.
      apply Rabs_le_inv in Herr. lra.
Qed.

Theorem headroom_f64_bounds d tc h : (Z.abs d <= 2 ^ 64)%Z -> (1 <= Z.of_nat tc <= 2 ^ 53)%Z ->
  headroom_f64 d tc = Some h ->
  ((0 <= d)%Z -> (0 <= h)%Z /\ (Z.of_nat tc * h * 2 ^ 51 <= d * (2 ^ 51 + 1))%Z) /\
  ((d <= 0)%Z -> (h <= 0)%Z).
Proof.
  intros Hd Htc. unfold headroom_f64.
  destruct (BofZ_round d Hd) as [Rd Fd].
  destruct (BofZ_correct (Z.of_nat tc)) as [Rt Ft]; [lia|].
  rewrite (BofZ_link d), (BofZ_link (Z.of_nat tc)), div_link.
  assert (Hne : B2R (BofZ (Z.of_nat tc)) <> 0) by (rewrite Rt; apply not_0_IZR; lia).
  pose proof (Bdiv_correct prec emax Hprec Hmax mode_NE (BofZ d) (BofZ (Z.of_nat tc)) Hne) as H.
  rewrite Rd, Rt in H. change (round_mode mode_NE) with ZnearestE in H.
  set (x := rnd (IZR d)) in *. set (T := IZR (Z.of_nat tc)) in *.
  assert (HT1 : 1 <= T) by (apply IZR_le; lia).
  assert (HTi : 0 < / T <= 1).
  { split; [apply Rinv_0_lt_compat; lra|]. rewrite <- Rinv_1. apply Rinv_le; lra. }
  assert (Hx64 : Rabs x <= IZR (2 ^ 64)).
  { apply rnd_abs_le64. rewrite <- abs_IZR. apply IZR_le. exact Hd. }
  assert (Hq64 : Rabs (x / T) <= IZR (2 ^ 64)).
  { unfold Rdiv. rewrite Rabs_mult, (Rabs_pos_eq (/ T)) by lra.
    pose proof (Rabs_pos x). nra. }
  rewrite Rlt_bool_true in H
    by (apply Rle_lt_trans with (IZR (2 ^ 64)); [apply rnd_abs_le64; exact Hq64|apply pow64_lt_emax]).
  destruct H as (HR & HF & _). rewrite Fd in HF.
  rewrite (trunc_Z_B2SF _ HF), HR.
  set (y := rnd (x / T)) in *.
  destruct (in_i64 (Ztrunc y)); [|discriminate]. intros [= <-].
  split.
  - intros Hd0.
    assert (Hd0R : 0 <= IZR d) by (apply IZR_le; exact Hd0).
    (* first rounding *)
    assert (Hx : 0 <= x <= IZR d * (1 + u53)).
    { apply rnd_rel_up; [exact Hd0R|].
      destruct (Z.eq_dec d 0) as [->|Nd]; [now left|right].
      apply Rle_trans with 1; [|apply IZR_le; lia].
      change 1 with (bpow radix2 0). apply bpow_le. lia. }
    (* second rounding *)
    assert (Hq0 : 0 <= x / T) by (unfold Rdiv; nra).
    assert (Hy : 0 <= y <= x / T * (1 + u53)).
    { apply rnd_rel_up; [exact Hq0|].
      destruct (Req_dec x 0) as [E0|N0]; [left; rewrite E0; unfold Rdiv; lra|right].
      (* x is a non-zero rounded non-negative integer: x >= 1 *)
      assert (Hx1 : 1 <= x).
      { assert (Hd1 : (1 <= d)%Z).
        { destruct (Z.eq_dec d 0) as [->|]; [|lia]. exfalso. apply N0. unfold x. apply rnd_0. }
        unfold x. rewrite <- (rnd_id 1) by (apply (int_format 1); cbn; lia).
        apply rnd_mono. apply IZR_le. exact Hd1. }
      apply Rle_trans with (/ IZR (2 ^ 53)).
      - rewrite pow53, <- bpow_opp. apply bpow_le. lia.
      - apply Rle_trans with (/ T).
        + apply Rinv_le; [lra|]. unfold T. apply IZR_le. lia.
        + unfold Rdiv. rewrite <- (Rmult_1_l (/ T)) at 1. apply Rmult_le_compat_r; lra. }
    rewrite Ztrunc_floor by lra.
    assert (Hfl : IZR (Zfloor y) <= y) by apply Zfloor_lb.
    split.
    + apply Zfloor_lub. lra.
    + (* T * floor y <= T * y <= x (1+u) <= d (1+u)^2 <= d (1 + 2^-51) *)
      apply le_IZR. rewrite !mult_IZR, plus_IZR. fold T.
      assert (Hu : 0 < u53 /\ (1 + u53) * (1 + u53) <= 1 + / IZR (2 ^ 51)).
      { rewrite u53_val. change (2 ^ 53)%Z with (4 * 2 ^ 51)%Z. rewrite mult_IZR.
        assert (Hp : 1 <= IZR (2 ^ 51)) by (apply IZR_le; lia).
        assert (Hi : 0 < / IZR (2 ^ 51) <= 1).
        { split; [apply Rinv_0_lt_compat; lra|rewrite <- Rinv_1; apply Rinv_le; lra]. }
        rewrite Rinv_mult. split; [lra|nra]. }
      assert (Hp51 : 0 < IZR (2 ^ 51)) by (apply IZR_lt; lia).
      assert (HTy : T * y <= x * (1 + u53)).
      { destruct Hy as [_ Hy]. apply Rmult_le_compat_l with (r := T) in Hy; [|lra].
        replace (T * (x / T * (1 + u53))) with (x * (1 + u53)) in Hy by (field; lra). exact Hy. }
      assert (Hchain : T * IZR (Zfloor y) <= IZR d * (1 + / IZR (2 ^ 51))).
      { apply Rle_trans with (T * y); [apply Rmult_le_compat_l; lra|].
        apply Rle_trans with (x * (1 + u53)); [exact HTy|].
        apply Rle_trans with (IZR d * (1 + u53) * (1 + u53)); [apply Rmult_le_compat_r; lra|].
        rewrite Rmult_assoc. apply Rmult_le_compat_l; lra. }
      apply Rmult_le_compat_r with (r := IZR (2 ^ 51)) in Hchain; [|lra].
      replace (IZR d * (1 + / IZR (2 ^ 51)) * IZR (2 ^ 51)) with (IZR d * (IZR (2 ^ 51) + 1)) in Hchain by (field; lra).
      exact Hchain.
  - intros Hd0.
    assert (Hx : x <= 0) by (unfold x; rewrite <- rnd_0; apply rnd_mono; apply IZR_le; exact Hd0).
    assert (Hq0 : x / T <= 0) by (unfold Rdiv; nra).
    assert (Hy : y <= 0) by (unfold y; rewrite <- rnd_0; apply rnd_mono; exact Hq0).
    replace y with (- (- y)) by lra. rewrite Ztrunc_opp, Ztrunc_floor by lra.
    assert (0 <= Zfloor (- y))%Z by (apply Zfloor_lub; lra). lia.
Qed.

(* the conversion back to i64 succeeds as long as |d| <= 2^63 - 1024 (the largest binary64 number
   below 2^63): the share never panics on such operands *)
Lemma big_format : F64 (IZR (2 ^ 63 - 1024)).
Proof.
  rewrite fexp64_FLT. apply generic_format_FLT. exists (Float radix2 (2 ^ 53 - 1) 10).
  - unfold F2R. cbn [Fnum Fexp]. change (bpow radix2 10) with (IZR (2 ^ 10)).
    rewrite <- mult_IZR. f_equal.
  - cbn. lia.
  - cbn. lia.
Qed.

Theorem headroom_f64_some d tc : (Z.abs d <= 2 ^ 63 - 1024)%Z -> (1 <= Z.of_nat tc <= 2 ^ 53)%Z ->
  exists h, headroom_f64 d tc = Some h.
Proof.
  intros Hd Htc. unfold headroom_f64.
  destruct (BofZ_round d ltac:(lia)) as [Rd Fd].
  destruct (BofZ_correct (Z.of_nat tc)) as [Rt Ft]; [lia|].
  rewrite (BofZ_link d), (BofZ_link (Z.of_nat tc)), div_link.
  assert (Hne : B2R (BofZ (Z.of_nat tc)) <> 0) by (rewrite Rt; apply not_0_IZR; lia).
  pose proof (Bdiv_correct prec emax Hprec Hmax mode_NE (BofZ d) (BofZ (Z.of_nat tc)) Hne) as H.
  rewrite Rd, Rt in H. change (round_mode mode_NE) with ZnearestE in H.
  set (x := rnd (IZR d)) in *. set (T := IZR (Z.of_nat tc)) in *.
  assert (HT1 : 1 <= T) by (apply IZR_le; lia).
  assert (HTi : 0 < / T <= 1).
  { split; [apply Rinv_0_lt_compat; lra|]. rewrite <- Rinv_1. apply Rinv_le; lra. }
  set (M := IZR (2 ^ 63 - 1024)).
  assert (HM : 0 <= M) by (apply IZR_le; lia).
  assert (Hx : Rabs x <= M).
  { apply abs_round_le_generic; auto with typeclass_instances; [apply valid64|apply big_format|].
    rewrite <- abs_IZR. apply IZR_le. exact Hd. }
  assert (Hq : Rabs (x / T) <= M).
  { unfold Rdiv. rewrite Rabs_mult, (Rabs_pos_eq (/ T)) by lra. pose proof (Rabs_pos x). nra. }
  assert (Hy : Rabs (rnd (x / T)) <= M).
  { apply abs_round_le_generic; auto with typeclass_instances; [apply valid64|apply big_format]. }
  rewrite Rlt_bool_true in H.
  2:{ apply Rle_lt_trans with M; [exact Hy|]. apply Rlt_trans with (IZR (2 ^ 64)); [apply IZR_lt; lia|apply pow64_lt_emax]. }
  destruct H as (HR & HF & _). rewrite Fd in HF.
  rewrite (trunc_Z_B2SF _ HF), HR.
  set (y := rnd (x / T)) in *.
  assert (Hz : (Z.abs (Ztrunc y) <= 2 ^ 63 - 1024)%Z).
  { apply le_IZR. rewrite abs_IZR. fold M.
    apply Rle_trans with (Rabs y); [|exact Hy].
    destruct (Rle_or_lt 0 y) as [P|N].
    - rewrite Ztrunc_floor by exact P. pose proof (Zfloor_lb y).
      assert (0 <= IZR (Zfloor y)) by (apply IZR_le, Zfloor_lub; lra).
      rewrite !Rabs_pos_eq by lra. lra.
    - rewrite Ztrunc_ceil by lra. pose proof (Zceil_ub y).
      assert (IZR (Zceil y) <= 0) by (apply IZR_le, Zceil_glb; lra).
      rewrite !Rabs_left1 by lra. lra. }
  unfold in_i64.
  destruct (Z.leb_spec (- 2 ^ 63) (Ztrunc y)); destruct (Z.ltb_spec (Ztrunc y) (2 ^ 63)); cbn [andb]; eauto; lia.
Qed.

(* ================================================================================ *)
(* W = f64: the per-thread budget `pw + (max - pw) / tc` on integer-valued weights.   *)
(* Its integer part is pw + (max - pw) quot tc as long as tc * (pw + 3 d + 1) < 2^53; *)
(* at magnitude 2^52 it is not (Proofs/ArcSwapF64.v: f64w_caps_refuted).              *)
(* ================================================================================ *)

Lemma add_link (x y : bf) : f64_add (B2SF x) (B2SF y) = B2SF (Bplus mode_NE x y).
Proof.
  destruct x as [sx|sx| |sx mx ex Bx], y as [sy|sy| |sy my ey By];
    try reflexivity; try (cbn; destruct (Bool.eqb _ _); reflexivity).
  cbn. apply binary_normalize_equiv.
Qed.

Theorem f64w_budget_exact x d tc :
  (0 <= x)%Z -> (0 <= d)%Z -> (1 <= Z.of_nat tc)%Z -> (Z.of_nat tc * (x + 3 * d + 1) < 2 ^ 53)%Z ->
  trunc_Z (f64_add (f64_of_Z x) (f64_div (f64_of_Z d) (f64_of_Z (Z.of_nat tc)))) = Some (x + d / Z.of_nat tc)%Z.
Proof.
  intros Hx Hd Htc Hsmall.
  set (t := Z.of_nat tc) in *.
  assert (Hxb : (Z.abs x <= 2 ^ 53)%Z) by nia.
  assert (Hdb : (Z.abs d <= 2 ^ 53)%Z) by nia.
  assert (Htb : (Z.abs t <= 2 ^ 53)%Z) by nia.
  destruct (BofZ_correct x Hxb) as [Rx Fx].
  destruct (BofZ_correct d Hdb) as [Rd Fd].
  destruct (BofZ_correct t Htb) as [Rt Ft].
  rewrite (BofZ_link x), (BofZ_link d), (BofZ_link t), div_link.
  assert (Hne : B2R (BofZ t) <> 0) by (rewrite Rt; apply not_0_IZR; lia).
  pose proof (Bdiv_correct prec emax Hprec Hmax mode_NE (BofZ d) (BofZ t) Hne) as H.
  rewrite Rd, Rt in H. change (round_mode mode_NE) with ZnearestE in H.
  set (T := IZR t) in *.
  assert (HT1 : 1 <= T) by (apply IZR_le; lia).
  assert (HTi : 0 < / T <= 1).
  { split; [apply Rinv_0_lt_compat; lra|]. rewrite <- Rinv_1. apply Rinv_le; lra. }
  assert (Hd0 : 0 <= IZR d) by (apply IZR_le; lia).
  assert (Hx0 : 0 <= IZR x) by (apply IZR_le; lia).
  assert (Hq0 : 0 <= IZR d / T) by (unfold Rdiv; nra).
  assert (Hq64 : Rabs (IZR d / T) <= IZR (2 ^ 64)).
  { rewrite Rabs_pos_eq by lra. apply Rle_trans with (IZR d); [unfold Rdiv; nra|]. apply IZR_le. lia. }
  rewrite Rlt_bool_true in H
    by (apply Rle_lt_trans with (IZR (2 ^ 64)); [apply rnd_abs_le64; exact Hq64|apply pow64_lt_emax]).
  destruct H as (HRq & HFq & _). rewrite Fd in HFq.
  set (Q := Bdiv mode_NE (BofZ d) (BofZ t)) in *.
  set (y := rnd (IZR d / T)) in *.
  (* the quotient: q <= y <= d/T (1+u) *)
  set (q := (d / t)%Z). set (r := (d mod t)%Z).
  assert (Hdiv : d = (t * q + r)%Z) by (unfold q, r; apply Z.div_mod; lia).
  assert (Hr : (0 <= r < t)%Z) by (unfold r; apply Z.mod_pos_bound; lia).
  assert (Hqn : (0 <= q)%Z) by (unfold q; apply Z.div_pos; lia).
  assert (Hqd : (q <= d)%Z) by (unfold q; apply Z.div_le_upper_bound; nia).
  assert (Hdq : IZR d / T = IZR q + IZR r / T).
  { rewrite Hdiv, plus_IZR, mult_IZR. fold T. field. lra. }
  assert (Hr0 : 0 <= IZR r <= T - 1) by (split; [apply IZR_le; lia|unfold T; rewrite <- minus_IZR; apply IZR_le; lia]).
  assert (Hy : IZR q <= y <= IZR d / T * (1 + u53)).
  { split.
    - unfold y. rewrite <- (rnd_id (IZR q)) by (apply int_format; lia). apply rnd_mono.
      rewrite Hdq. assert (0 <= IZR r / T) by (unfold Rdiv; nra). lra.
    - apply rnd_rel_up; [exact Hq0|].
      destruct (Z.eq_dec d 0) as [E0|N0]; [left; rewrite E0; unfold Rdiv; lra|right].
      apply Rle_trans with (/ IZR (2 ^ 53)); [rewrite pow53, <- bpow_opp; apply bpow_le; lia|].
      apply Rle_trans with (/ T); [apply Rinv_le; [lra|unfold T; apply IZR_le; lia]|].
      unfold Rdiv. rewrite <- (Rmult_1_l (/ T)) at 1. apply Rmult_le_compat_r; [lra|apply IZR_le; lia]. }
  (* the sum *)
  rewrite add_link.
  pose proof (Bplus_correct prec emax Hprec Hmax mode_NE (BofZ x) Q Fx HFq) as HS.
  rewrite Rx, HRq in HS. change (round_mode mode_NE) with ZnearestE in HS. fold y in HS.
  set (s := IZR x + y) in *.
  assert (Hu : 0 < u53 <= 1) by (rewrite u53_val; split; [apply Rinv_0_lt_compat; apply IZR_lt; lia|
                                   rewrite <- Rinv_1; apply Rinv_le; [lra|apply IZR_le; lia]]).
  assert (Hs0 : 0 <= s) by (unfold s; assert (0 <= IZR q) by (apply IZR_le; lia); lra).
  assert (Hdle : IZR d / T <= IZR d) by (unfold Rdiv; nra).
  assert (Hs64 : Rabs s <= IZR (2 ^ 64)).
  { rewrite Rabs_pos_eq by lra. unfold s.
    assert (IZR x + 2 * IZR d <= IZR (2 ^ 53)).
    { rewrite <- (mult_IZR 2), <- plus_IZR. apply IZR_le. nia. }
    assert (IZR (2 ^ 53) <= IZR (2 ^ 64)) by (apply IZR_le; lia). nra. }
  rewrite Rlt_bool_true in HS
    by (apply Rle_lt_trans with (IZR (2 ^ 64)); [apply rnd_abs_le64; exact Hs64|apply pow64_lt_emax]).
  destruct HS as (HRs & HFs & _).
  rewrite (trunc_Z_B2SF _ HFs), HRs. f_equal.
  (* floor (rnd s) = x + q *)
  assert (Hlo : IZR (x + q) <= rnd s).
  { rewrite <- (rnd_id (IZR (x + q))) by (apply int_format; nia). apply rnd_mono.
    unfold s. rewrite plus_IZR. lra. }
  assert (Hup : rnd s <= s * (1 + u53)).
  { apply rnd_rel_up; [exact Hs0|].
    destruct (Req_dec s 0) as [E0|N0]; [now left|right].
    (* s is 0 or at least 2^-53 / t ... it is at least min(1, d/T) > 2^-1022 *)
    destruct (Z.eq_dec x 0) as [Ex|Nx].
    - (* s = y, a rounded value: itself in format and non-zero *)
      assert (Es : s = y) by (unfold s; rewrite Ex; lra).
      rewrite Es. destruct (Z.eq_dec d 0) as [Ed|Nd].
      + exfalso. apply N0. rewrite Es. unfold y. rewrite Ed. unfold Rdiv. rewrite Rmult_0_l. apply rnd_0.
      + apply Rle_trans with (rnd (/ IZR (2 ^ 53))).
        * rewrite pow53, <- bpow_opp, rnd_id by (apply generic_format_bpow; cbn; lia). apply bpow_le. lia.
        * apply rnd_mono. apply Rle_trans with (/ T); [apply Rinv_le; [lra|unfold T; apply IZR_le; lia]|].
          unfold Rdiv. rewrite <- (Rmult_1_l (/ T)) at 1. apply Rmult_le_compat_r; [lra|apply IZR_le; lia].
    - apply Rle_trans with 1; [change 1 with (bpow radix2 0); apply bpow_le; lia|].
      unfold s. assert (1 <= IZR x) by (apply IZR_le; lia). assert (0 <= IZR q) by (apply IZR_le; lia). lra. }
  assert (Hlt : rnd s < IZR (x + q + 1)).
  { apply Rle_lt_trans with (s * (1 + u53)); [exact Hup|].
    rewrite !plus_IZR.
    (* s <= x + q + (T-1)/T + u d/T ; s (1+u) < x + q + 1  <=  u (d/T + s) < 1/T *)
    assert (Hs_le : s <= IZR x + IZR q + (T - 1) / T + u53 * (IZR d / T)).
    { unfold s. destruct Hy as [_ Hy]. rewrite Hdq in Hy at 1.
      assert (IZR r / T <= (T - 1) / T) by (unfold Rdiv; apply Rmult_le_compat_r; lra). nra. }
    assert (Hone : (T - 1) / T = 1 - / T) by (field; lra).
    assert (Hs_le2 : s <= IZR x + 2 * IZR d + 1).
    { assert (IZR q <= IZR d) by (apply IZR_le; lia).
      assert (u53 * (IZR d / T) <= IZR d).
      { apply Rle_trans with (1 * (IZR d / T)); [apply Rmult_le_compat_r; lra|lra]. }
      assert ((T - 1) / T <= 1) by (rewrite Hone; lra).
      lra. }
    assert (Hkey : u53 * (IZR d + (IZR x + 2 * IZR d + 1)) < / T).
    { rewrite u53_val.
      replace (IZR d + (IZR x + 2 * IZR d + 1)) with (IZR (x + 3 * d + 1)) by (rewrite !plus_IZR, mult_IZR; lra).
      set (Nn := IZR (x + 3 * d + 1)). set (P := IZR (2 ^ 53)).
      assert (Hp : 0 < P) by (apply IZR_lt; lia).
      assert (HTN : T * Nn < P) by (unfold T, Nn, P; rewrite <- mult_IZR; apply IZR_lt; exact Hsmall).
      assert (HN0 : 0 <= Nn) by (apply IZR_le; lia).
      apply Rmult_lt_reg_r with (T * P); [nra|].
      replace (/ P * Nn * (T * P)) with (T * Nn) by (field; lra).
      replace (/ T * (T * P)) with P by (field; lra). exact HTN. }
    assert (u53 * (IZR d / T) <= u53 * IZR d) by nra.
    nra. }
  assert (Hnn : 0 <= rnd s) by (apply Rle_trans with (IZR (x + q)); [apply IZR_le; lia|exact Hlo]).
  rewrite Ztrunc_floor by exact Hnn. apply Zfloor_imp. split; [exact Hlo|exact Hlt].
Qed.

(* The pdep-based bit interleavings of encode_2d / encode_3d are the Morton
   codes il2 / il3 (instances of pdep_spec for the masks read from the source). *)
From Coupe Require Import Lib.Prelude Model.Hilbert Gen.HilbertTables
  Proofs.HilbertCurve Proofs.HilbertCert Proofs.HilbertInst Proofs.HilbertEncode2D Proofs.HilbertPdep.
Open Scope N_scope.

Lemma bit_high x n i : x < 2 ^ n -> n <= i -> N.testbit x i = false.
Proof.
  intros Hx Hi. rewrite <- (N.mod_small x (2 ^ n)) by assumption.
  apply N.mod_pow2_bits_high. assumption.
Qed.

Lemma b2n_bit0 b : N.testbit (N.b2n b) 0 = b.
Proof. destruct b; reflexivity. Qed.

(* ================================================================== 2-D *)
Lemma il2_bits n : forall x y j,
  N.testbit (il2 n x y) j =
  if j <? 2 * N.of_nat n then (if N.even j then N.testbit y (j / 2) else N.testbit x (j / 2)) else false.
Proof.
  induction n as [|m IH]; intros x y j.
  - cbn [il2]. rewrite N.bits_0. destruct (N.ltb_spec j (2 * N.of_nat 0)); [lia | reflexivity].
  - rewrite il2_S. pose proof (il2_lt m x y) as Hl. rewrite pow4_2 in *.
    rewrite <- lor_add by assumption. rewrite N.lor_spec, IH.
    rewrite !bitn_testbit.
    destruct (N.ltb_spec j (2 * N.of_nat m)) as [Hlo | Hhi].
    + rewrite N.mul_pow2_bits_low by assumption.
      destruct (N.ltb_spec j (2 * N.of_nat (S m))); [reflexivity | lia].
    + rewrite N.mul_pow2_bits_high by assumption. rewrite orb_false_r.
      set (i := j - 2 * N.of_nat m).
      assert (Hj : j = i + N.of_nat m * 2) by lia.
      assert (Ev : N.even j = N.even i) by (rewrite Hj, (N.mul_comm (N.of_nat m) 2); apply N.even_add_mul_2).
      assert (Dv : j / 2 = i / 2 + N.of_nat m) by (rewrite Hj; apply N.div_add; lia).
      rewrite Ev, Dv.
      destruct (N.eq_dec i 0) as [E0 | E0]; [| destruct (N.eq_dec i 1) as [E1 | E1]].
      * rewrite E0 in *. destruct (N.ltb_spec j (2 * N.of_nat (S m))); [| lia].
        change (N.even 0) with true. change (0 / 2) with 0. rewrite N.add_0_l.
        destruct (N.testbit x (N.of_nat m)), (N.testbit y (N.of_nat m)); reflexivity.
      * rewrite E1 in *. destruct (N.ltb_spec j (2 * N.of_nat (S m))); [| lia].
        change (N.even 1) with false. change (1 / 2) with 0. rewrite N.add_0_l.
        destruct (N.testbit x (N.of_nat m)), (N.testbit y (N.of_nat m)); reflexivity.
      * destruct (N.ltb_spec j (2 * N.of_nat (S m))); [lia |].
        apply (bit_high _ 2); [| lia].
        destruct (N.testbit x (N.of_nat m)), (N.testbit y (N.of_nat m)); cbn; lia.
Qed.

Lemma mask2_facts :
  mask_of pdep2_x < 2 ^ 64 /\ mask_of pdep2_y < 2 ^ 64 /\
  forall j, j < 64 ->
    N.testbit (mask_of pdep2_x) j = N.odd j /\ (N.odd j = true -> rank (mask_of pdep2_x) j = j / 2) /\
    N.testbit (mask_of pdep2_y) j = N.even j /\ (N.even j = true -> rank (mask_of pdep2_y) j = j / 2).
Proof.
  split; [vm_compute; reflexivity|]. split; [vm_compute; reflexivity|].
  assert (F : forallb (fun j =>
     Bool.eqb (N.testbit (mask_of pdep2_x) j) (N.odd j) && (negb (N.odd j) || (rank (mask_of pdep2_x) j =? j / 2))
     && Bool.eqb (N.testbit (mask_of pdep2_y) j) (N.even j) && (negb (N.even j) || (rank (mask_of pdep2_y) j =? j / 2)))
     (range 64) = true) by (vm_compute; reflexivity).
  intros j Hj. pose proof (forallb_range _ _ F j Hj) as G. cbv beta in G.
  apply andb_prop in G. destruct G as [G G4]. apply andb_prop in G. destruct G as [G G3].
  apply andb_prop in G. destruct G as [G1 G2].
  apply Bool.eqb_prop in G1. apply Bool.eqb_prop in G3.
  repeat split; try assumption.
  - intros Ho. rewrite Ho in G2. cbn in G2. apply N.eqb_eq. assumption.
  - intros He. rewrite He in G4. cbn in G4. apply N.eqb_eq. assumption.
Qed.

Theorem interleave2_spec (n : nat) x y : (n <= 32)%nat -> x < 2 ^ N.of_nat n -> y < 2 ^ N.of_nat n ->
  interleave2 x y = il2 n x y.
Proof.
  intros Hn Hx Hy. destruct mask2_facts as [Mx [My MF]].
  unfold interleave2. apply N.bits_inj; intro j.
  rewrite N.lor_spec, !pdep_spec, il2_bits by assumption.
  destruct (N.lt_ge_cases j 64) as [Hj | Hj].
  - destruct (MF j Hj) as [T1 [R1 [T2 R2]]]. rewrite T1, T2. rewrite <- N.negb_even in *.
    destruct (N.even j) eqn:Ev; cbn [negb andb orb] in *.
    + rewrite R2 by reflexivity.
      destruct (N.ltb_spec j (2 * N.of_nat n)) as [Hlt | Hge]; [reflexivity|].
      apply (bit_high y (N.of_nat n)); [assumption|].
      apply N.div_le_lower_bound; lia.
    + rewrite R1 by reflexivity. rewrite orb_false_r.
      destruct (N.ltb_spec j (2 * N.of_nat n)) as [Hlt | Hge]; [reflexivity|].
      apply (bit_high x (N.of_nat n)); [assumption|].
      apply N.div_le_lower_bound; lia.
  - rewrite (bit_high _ 64 j Mx Hj), (bit_high _ 64 j My Hj). cbn [andb orb].
    destruct (N.ltb_spec j (2 * N.of_nat n)); [lia | reflexivity].
Qed.

(* ------------------------------------------------ encode_2d = the 2-D curve *)
Theorem encode_2d_gen_spec (n : nat) x y : (n <= 32)%nat -> x < 2 ^ N.of_nat n -> y < 2 ^ N.of_nat n ->
  encode_2d_gen true x y (N.of_nat n) = Ok (enc2 n 0 x y).
Proof.
  intros Hn Hx Hy. unfold encode_2d_gen.
  destruct (N.ltb_spec (N.of_nat n) 64) as [_|]; [|lia].
  destruct (N.ltb_spec x (2 ^ N.of_nat n)) as [_|]; [|lia].
  destruct (N.ltb_spec y (2 ^ N.of_nat n)) as [_|]; [|lia].
  cbn [negb orb]. cbv zeta.
  replace (2 * Z.of_N (N.of_nat n) - 12)%Z with (2 * Z.of_nat n - 12)%Z by lia.
  assert (T : bind (e2_loop 64 (interleave2 x y) (0 * 4096 + 0) 0 (2 * Z.of_nat n - 12)) (e2_final true (interleave2 x y))
              = Ok (0 * 4 ^ N.of_nat n + enc 2 digit2 next2 n 0 (interleave2 x y))).
  { apply (e2_tail 64 n 0); try lia; change (4 ^ N.of_nat 0) with 1; lia. }
  change (0 * 4096 + 0) with 0 in T. rewrite T.
  rewrite N.mul_0_l, N.add_0_l. unfold enc2. rewrite (interleave2_spec n) by assumption. reflexivity.
Qed.

(* the table-driven encoder agrees with the slow one (this is the statement
   that was false at orders 31 and 32 before the repair) *)
Theorem encode_2d_eq_slow_gen (n : nat) x y : (n <= 32)%nat -> x < 2 ^ N.of_nat n -> y < 2 ^ N.of_nat n ->
  exists c, encode_2d_slow (interleave2 x y) n 0 = Ok (enc2 n 0 x y, c)
            /\ encode_2d_gen true x y (N.of_nat n) = Ok (enc2 n 0 x y).
Proof.
  intros Hn Hx Hy. eexists. split.
  - rewrite encode_2d_slow_spec by lia. unfold enc2. rewrite (interleave2_spec n) by assumption. reflexivity.
  - apply encode_2d_gen_spec; assumption.
Qed.

(* the pinned final expression `((hilbert << 12) | chunk) >> -shift` drops the
   top 8 bits at order 32 (and 31): not the curve, not injective *)
Lemma encode_2d_pinned_refuted :
  exists x y, x < 2 ^ 32 /\ y < 2 ^ 32 /\
    encode_2d_gen false x y 32 <> Ok (enc2 32 0 x y) /\
    exists x' y', x' < 2 ^ 32 /\ y' < 2 ^ 32 /\ (x, y) <> (x', y') /\
      encode_2d_gen false x y 32 = encode_2d_gen false x' y' 32.
Proof.
  exists 268435456, 0. split; [reflexivity|]. split; [reflexivity|]. split.
  - vm_compute. discriminate.
  - exists 0, 0. split; [reflexivity|]. split; [reflexivity|]. split; [discriminate|].
    vm_compute. reflexivity.
Qed.

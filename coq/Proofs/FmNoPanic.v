(* FiducciaMattheyses reaches no panic site inside the usage contract, for every oracle
   (companion of Proofs/FmProofs.v). *)
From Coupe Require Import Lib.Prelude Lib.SFloat Lib.Graph Model.Fm Proofs.FmProofs.
Open Scope Z_scope.

Section NoPanic.
Variables (cfg : fm_cfg) (g : graph) (ws : list Z) (n : nat) (mpg cap : Z) (p_in : list N).
Hypothesis Hwf : wf_graph g n.
Hypothesis Hsym : symmetric g.
Hypothesis Hnsl : no_self_loop g.
Hypothesis Hnn : nonneg_edges g.
Hypothesis Hsorted : rows_sorted g.
Hypothesis Hws : length ws = n.
Hypothesis Hwpos : Forall (fun w => 0 <= w) ws.
Hypothesis Hmpg0 : 0 <= mpg.
Hypothesis Hmpg : forall v, row_weight (rowof g v) <= mpg.
Hypothesis Hpin : length p_in = n.

Lemma gain_in_range pf v : - mpg <= row_gain pf v (rowof g v) <= mpg.
Proof.
  pose proof (row_gain_bound pf v (rowof g v) (rowof_nonneg g v Hnn)). pose proof (Hmpg v). lia.
Qed.

Lemma idx_in_range gn : - mpg <= gn <= mpg -> tbl_idx mpg gn = Some gn.
Proof. apply tbl_idx_ok. Qed.

(* ---- init_tables ---- *)
Lemma init_tables_some p : length p = n -> forall pv g1 p1 rows t,
  g = g1 ++ rows -> p = p1 ++ pv -> length g1 = length p1 ->
  exists v2g t', init_tables p mpg (length p1) rows pv t = Some (v2g, t').
Proof.
  intros Lp. induction pv as [|x pv IH]; intros g1 p1 rows t Eg Epp Ll; cbn [init_tables]; [eauto|].
  assert (Lg : length g = n) by (destruct Hwf; assumption).
  assert (Lrows : length rows = length (x :: pv)).
  { apply (f_equal (@length _)) in Eg. apply (f_equal (@length _)) in Epp. rewrite app_length in Eg, Epp. lia. }
  destruct rows as [|r rows]; [discriminate|].
  assert (Er : rowof g (length p1) = r).
  { unfold rowof. rewrite Eg, app_nth2 by lia. rewrite Ll, Nat.sub_diag. reflexivity. }
  assert (Ex : pfun p (length p1) = x).
  { unfold pfun. rewrite Epp, app_nth2 by lia. rewrite Nat.sub_diag. reflexivity. }
  rewrite <- Ex. rewrite <- Er.
  rewrite row_gain_chk_ok by (rewrite Lp; apply rowof_wf; exact Hwf).
  rewrite (idx_in_range _ (gain_in_range (pfun p) (length p1))).
  rewrite tbl_upd_ok.
  replace (S (length p1)) with (length (p1 ++ [x])) by (rewrite app_length; cbn [length]; lia).
  match goal with |- context [init_tables _ _ _ _ _ ?t1] =>
    destruct (IH (g1 ++ [r]) (p1 ++ [x]) rows t1) as [l [t2 E2]] end.
  - rewrite <- app_assoc; exact Eg.
  - rewrite <- app_assoc; exact Epp.
  - rewrite !app_length; cbn [length]; lia.
  - rewrite E2. eauto.
Qed.

(* ---- find_top ---- *)
Lemma feas_some p pw v : length p = n -> two_way p -> (v < n)%nat -> feas ws p pw cap v <> None.
Proof.
  intros Lp T Hv. unfold feas.
  destruct (nth_opt_lt ws v ltac:(lia)) as [w ->]. destruct (nth_opt_lt p v ltac:(lia)) as [x Ex]. rewrite Ex.
  unfold other. replace (x <=? 1)%N with true by (symmetry; apply N.leb_le; eapply two_way_nth; eauto). discriminate.
Qed.

Lemma bucket_min_some p pw : length p = n -> two_way p -> forall b best,
  (forall v, In v b -> (v < n)%nat) -> bucket_min ws p pw cap b best <> None.
Proof.
  intros Lp T. induction b as [|v b IH]; intros best Hb; cbn [bucket_min]; [discriminate|].
  pose proof (feas_some p pw v Lp T (Hb v (or_introl eq_refl))) as F.
  destruct (feas ws p pw cap v) as [[t|]|]; [| |congruence]; apply IH; intros u Hu; apply Hb; right; exact Hu.
Qed.

Lemma find_top_some p pw : length p = n -> two_way p -> forall bs,
  (forall gn b v, In (gn, b) bs -> In v b -> (v < n)%nat) -> find_top ws p pw cap bs <> None.
Proof.
  intros Lp T. induction bs as [|[gn b] bs IH]; intros Hb; cbn [find_top]; [discriminate|].
  pose proof (bucket_min_some p pw Lp T b None (fun v Hv => Hb gn b v (or_introl eq_refl) Hv)) as F.
  destruct (bucket_min ws p pw cap b None) as [[m|]|]; [discriminate| |congruence].
  apply IH. intros gn' b' v Hin Hv. eapply Hb; [right; exact Hin|exact Hv].
Qed.

Lemma buckets_desc_members (t : table) gn b : tsorted t -> In (gn, b) (buckets_desc mpg t) -> b = tget t gn.
Proof. intros S Hin. unfold buckets_desc in Hin. symmetry. apply tsorted_In_tget; assumption. Qed.

(* ---- the neighbour loop ---- *)
Lemma wt_row_nonneg r u : Forall (fun e => 0 <= snd e) r -> 0 <= wt_row r u.
Proof.
  intros F. unfold wt_row. induction F as [|e t He Ht IH]; [unfold sumZ; cbn; lia|].
  cbn [map]. rewrite sumZ_cons. destruct (Nat.eqb _ _); lia.
Qed.

Lemma upd_nbrs_some p' init : length p' = n -> forall r v2g t,
  Forall (fun e => (fst e < n)%nat) r -> Forall (fun e => 0 <= snd e) r ->
  length v2g = n ->
  (forall u x, nth_opt v2g u = Some (Some x) ->
     - mpg <= x <= mpg /\ - mpg <= x + (if (pfun p' u =? init)%N then 2 else -2) * wt_row r u <= mpg) ->
  upd_nbrs mpg p' init r v2g t <> None.
Proof.
  intros Lp'. induction r as [|[u0 w] r IH]; intros v2g t Fr Fw Lv Hb; cbn [upd_nbrs]; [discriminate|].
  pose proof (Forall_inv Fr) as Hu0. pose proof (Forall_inv_tail Fr) as Fr'.
  pose proof (Forall_inv Fw) as Hw. pose proof (Forall_inv_tail Fw) as Fw'. cbn [fst snd] in Hu0, Hw.
  destruct (nth_opt_lt v2g u0 ltac:(lia)) as [o Eo]. rewrite Eo.
  destruct o as [old|].
  - destruct (nth_opt_lt p' u0 ltac:(lia)) as [pu Ep]. rewrite Ep.
    destruct (Hb u0 old Eo) as [B1 B2]. rewrite wt_row_cons, Nat.eqb_refl in B2.
    rewrite (pfun_nth_opt _ _ _ Ep) in B2.
    pose proof (wt_row_nonneg r u0 Fw') as W0.
    set (new := if (pu =? init)%N then old + 2 * w else old - 2 * w).
    assert (Bn : - mpg <= new <= mpg) by (unfold new; destruct (pu =? init)%N; lia).
    rewrite (idx_in_range old B1), tbl_upd_ok. rewrite (idx_in_range new Bn), tbl_upd_ok.
    apply IH; auto.
    + now rewrite set_nth_length.
    + intros u x Hx. destruct (Nat.eq_dec u0 u) as [->|Hne].
      * rewrite nth_opt_set_nth_same in Hx by lia. inversion Hx; subst x.
        split; [exact Bn|]. rewrite (pfun_nth_opt _ _ _ Ep). unfold new. destruct (pu =? init)%N; lia.
      * rewrite nth_opt_set_nth_other in Hx by exact Hne. destruct (Hb u x Hx) as [C1 C2].
        rewrite wt_row_cons in C2. replace (Nat.eqb u0 u) with false in C2 by (symmetry; apply Nat.eqb_neq; exact Hne).
        split; [exact C1|]. lia.
  - apply IH; auto. intros u x Hx. destruct (Hb u x Hx) as [C1 C2]. split; [exact C1|].
    rewrite wt_row_cons in C2. destruct (Nat.eqb_spec u0 u) as [->|Hne]; [congruence|]. lia.
Qed.

(* the gain of another free vertex after v has moved *)
Lemma gain_after_move p v init u : length p = n -> two_way p -> nth_opt p v = Some init -> (v < n)%nat -> u <> v ->
  row_gain (pfun p) u (rowof g u)
  + (if (pfun (set_nth p v (1 - init)%N) u =? init)%N then 2 else -2) * wt_row (rowof g v) u
  = row_gain (pfun (set_nth p v (1 - init)%N)) u (rowof g u).
Proof.
  intros Lp T2 Ep Hvn Hne. set (tgt := (1 - init)%N).
  assert (Li : (init <= 1)%N) by (eapply two_way_nth; eauto).
  assert (Pv : pfun p v = init) by (apply pfun_nth_opt; exact Ep).
  rewrite (row_gain_ext (pfun (set_nth p v tgt)) (upd (pfun p) v tgt) u)
    by (intros y; apply pfun_set_nth; rewrite Lp; exact Hvn).
  rewrite (row_gain_upd g n _ v tgt u Hwf Hvn Hne). f_equal.
  assert (Pu : pfun (set_nth p v tgt) u = pfun p u).
  { rewrite pfun_set_nth by (rewrite Lp; exact Hvn). apply upd_other. exact Hne. }
  rewrite Pu, Pv. fold (wt g v u). rewrite (Hsym v u).
  pose proof (two_way_pfun p u T2) as Lu.
  destruct (N.eqb_spec (pfun p u) init) as [E|E].
  - rewrite E. rewrite N.eqb_refl. destruct (N.eqb_spec tgt init) as [E2|E2]; [unfold tgt in E2; lia|]. lia.
  - destruct (N.eqb_spec tgt (pfun p u)) as [E2|E2]; [|unfold tgt in E2; lia].
    destruct (N.eqb_spec init (pfun p u)) as [E3|E3]; [congruence|]. lia.
Qed.

(* ---- one move ---- *)
Lemma do_move_no_panic pstart best0 dbg st move_num v gn mint gv s : length pstart = n ->
  inv g ws n cap p_in pstart best0 st ->
  choice_ok ws st mpg cap gn mint v gv = true ->
  do_move dbg g ws mpg st move_num v gn <> Panic s.
Proof.
  intros Lps I Hc.
  destruct (choice_ok_facts g ws n mpg cap Hwpos p_in pstart best0 st gn mint v gv I Hc)
    as [Hvg [w [init [Ew [Ep [Li [Hw0 [Hfe Hvn]]]]]]]].
  pose proof (i_len _ _ _ _ _ _ _ _ I) as Lp. pose proof (i_two _ _ _ _ _ _ _ _ I) as T2.
  unfold do_move. rewrite Ep, Ew.
  assert (Lg : length g = n) by (destruct Hwf; assumption).
  destruct (nth_opt_lt g v ltac:(lia)) as [r Er]. rewrite Er. pose proof (rowof_nth_opt g v r Er) as Er'.
  unfold other. replace (init <=? 1)%N with true by (symmetry; apply N.leb_le; exact Li).
  pose proof (i_gain _ _ _ _ _ _ _ _ I v gn Hvg) as Eg.
  assert (Bg : - mpg <= gn <= mpg) by (rewrite Eg; apply gain_in_range).
  rewrite (idx_in_range gn Bg), tbl_upd_ok.
  assert (Hcut : s_cur st - gn = edge_cut_sprs g (set_nth (s_p st) v (1 - init)%N)).
  { rewrite edge_cut_sprs_eq by exact Hsorted.
    assert (Pv : pfun (s_p st) v = init) by (apply pfun_nth_opt; exact Ep).
    rewrite <- Pv. rewrite edge_cut_flip; try assumption; try (rewrite Lp; assumption).
    rewrite (i_cur _ _ _ _ _ _ _ _ I). f_equal. exact Eg. }
  rewrite Hcut, Z.eqb_refl, andb_false_r.
  match goal with |- context [upd_nbrs ?a ?b ?c ?d ?e ?f] => destruct (upd_nbrs a b c d e f) as [[v2g' t2]|] eqn:Eu end;
    [discriminate|].
  exfalso. revert Eu. apply upd_nbrs_some.
  - rewrite set_nth_length. exact Lp.
  - rewrite <- Er'. apply rowof_wf. exact Hwf.
  - rewrite <- Er'. apply rowof_nonneg. exact Hnn.
  - rewrite set_nth_length. apply (i_v2g_len _ _ _ _ _ _ _ _ I).
  - intros u x Hx. destruct (Nat.eq_dec v u) as [->|Hne].
    + rewrite nth_opt_set_nth_same in Hx by (rewrite (i_v2g_len _ _ _ _ _ _ _ _ I); exact Hvn). discriminate.
    + rewrite nth_opt_set_nth_other in Hx by exact Hne.
      pose proof (i_gain _ _ _ _ _ _ _ _ I u x Hx) as Ex. rewrite Ex. split; [apply gain_in_range|].
      rewrite <- Er'. rewrite (gain_after_move (s_p st) v init u Lp T2 Ep Hvn ltac:(congruence)).
      apply gain_in_range.
Qed.

(* ---- the move loop, the pass loop, the entry point ---- *)
Lemma fm_moves_no_panic pstart best0 s : length pstart = n -> forall fuel move_num st orc,
  inv g ws n cap p_in pstart best0 st -> length (s_hist st) = move_num ->
  fm_moves cfg g ws mpg cap fuel move_num st orc <> Panic s.
Proof.
  intros Lps. induction fuel as [|f IH]; intros move_num st orc I Hmn; cbn [fm_moves]; [discriminate|].
  destruct (match fm_max_moves cfg with Some m => (m <=? N.of_nat move_num)%N | None => false end); [discriminate|].
  destruct (find_top ws (s_p st) (s_pw st) cap (buckets_desc mpg (s_g2v st))) as [[[gn mint]|]|] eqn:Ef; try discriminate.
  2:{ exfalso. revert Ef. apply find_top_some; [apply (i_len _ _ _ _ _ _ _ _ I)|apply (i_two _ _ _ _ _ _ _ _ I)|].
      intros gn b v Hin Hv. apply buckets_desc_members in Hin; [|apply (i_sorted _ _ _ _ _ _ _ _ I)]. subst b.
      apply (i_bucket _ _ _ _ _ _ _ _ I) in Hv. apply nth_opt_Some in Hv.
      rewrite (i_v2g_len _ _ _ _ _ _ _ _ I) in Hv. exact Hv. }
  destruct ((gn <=? 0) && (fm_max_bad cfg <=? s_nbad st)%N); [discriminate|].
  destruct orc as [|[v gv] orc']; [discriminate|].
  destruct (choice_ok ws st mpg cap gn mint v gv) eqn:Hc; [|discriminate].
  match goal with |- context [do_move _ _ _ _ ?x _ _ _] => set (st1 := x) in * end.
  assert (I1 : inv g ws n cap p_in pstart best0 st1) by (apply inv_set_nbad; exact I).
  assert (Hc1 : choice_ok ws st1 mpg cap gn mint v gv = true) by exact Hc.
  destruct (do_move (fm_dbg cfg) g ws mpg st1 move_num v gn) as [st2|e|s'|] eqn:Ed; try discriminate.
  - destruct (do_move_inv g ws n mpg cap Hwf Hsym Hnsl Hws Hwpos p_in pstart best0 Lps _ st1 move_num v gn mint gv st2
                I1 Hmn Hc1 Ed) as [I2 [L2 _]].
    apply IH; assumption.
  - exfalso. revert Ed. apply (do_move_no_panic pstart best0 _ st1 move_num v gn mint gv s' Lps I1 Hc1).
Qed.

Lemma fm_passes_no_panic s : forall fuel pass p pw best mpp rpp orc,
  pinv cfg g ws n cap p_in p pw best mpp rpp pass ->
  fm_passes cfg g ws mpg cap fuel pass p pw best mpp rpp orc <> Panic s.
Proof.
  induction fuel as [|f IH]; intros pass p pw best mpp rpp orc Q; cbn [fm_passes]; [discriminate|].
  destruct (match fm_max_passes cfg with Some m => (m <=? pass)%N | None => false end) eqn:Hlim; [discriminate|].
  destruct orc as [|[rc moves] orc']; [discriminate|].
  destruct (negb (rc =? best)); [discriminate|].
  pose proof (q_len _ _ _ _ _ _ _ _ _ _ _ _ Q) as Lp.
  destruct (init_tables_some p Lp p [] [] g [] eq_refl eq_refl eq_refl) as [v2g [t Hi]].
  cbn [length] in Hi. rewrite Hi.
  assert (I0 : inv g ws n cap p_in p best
                 {| s_p := p; s_pw := pw; s_v2g := v2g; s_g2v := t; s_cur := best; s_best := best;
                    s_bestmove := None; s_nbad := 0%N; s_hist := [] |}).
  { rewrite (q_pw _ _ _ _ _ _ _ _ _ _ _ _ Q).
    apply (pass_start g ws n mpg cap Hwf Hsym Hnsl Hnn Hsorted Hws Hmpg p_in p best Lp p v2g t Lp
             (q_two _ _ _ _ _ _ _ _ _ _ _ _ Q) (q_cap _ _ _ _ _ _ _ _ _ _ _ _ Q) eq_refl
             (q_best _ _ _ _ _ _ _ _ _ _ _ _ Q) Hi). }
  destruct (fm_moves cfg g ws mpg cap (S (length p)) 0 _ moves) as [[st|c]| |s'|] eqn:Hm; try discriminate.
  - assert (Hm0 : forall m : N, fm_max_moves cfg = Some m -> (N.of_nat 0 <= m)%N) by (intros m _; lia).
    destruct (fm_moves_inv g ws n mpg cap Hwf Hsym Hnsl Hws Hwpos p_in p best Lp cfg _ 0%nat _ _ st I0 eq_refl Hm0 Hm)
      as [I _].
    destruct (pass_end g ws n cap Hwf Hws p_in p best Lp st I) as [Er _].
    fold (rewind_to st). rewrite Er.
    assert (Er2 : rewind ws (s_p st) (s_pw st)
                    (skipn (match s_bestmove st with Some m => S m | None => O end) (s_hist st))
                  = Some (undo (s_p st) (skipn (rewind_to st) (s_hist st)),
                          (load ws (undo (s_p st) (skipn (rewind_to st) (s_hist st))) 0,
                           load ws (undo (s_p st) (skipn (rewind_to st) (s_hist st))) 1))) by exact Er.
    destruct (pass_step cfg g ws n mpg cap p_in Hwf Hsym Hnsl Hnn Hsorted Hws Hwpos Hmpg Hpin
                _ _ _ _ _ _ _ _ _ _ _ _ Q Hlim Hi Hm Er2) as [Q' _].
    destruct (best <=? s_best st); [discriminate|]. apply IH. exact Q'.
  - exfalso. revert Hm. apply (fm_moves_no_panic p best s' Lp); [exact I0|reflexivity].
Qed.
End NoPanic.

(* inside the contract, when the cap converts to i64, no execution reaches a panic site *)
Theorem fm_no_panic cfg fuel g ws p0 orc cap s : fm_contract g ws p0 ->
  fm_cap (fm_max_imb cfg) (load ws p0 0, load ws p0 1) = Some cap ->
  fm cfg fuel g ws p0 orc <> Panic s.
Proof.
  intros C Hcap. destruct p0 as [|x0 p0'].
  - unfold fm. destruct (negb _); [discriminate|]. destruct (negb _); [discriminate|]. destruct orc; discriminate.
  - destruct (fm_unfold cfg fuel g ws (x0 :: p0') orc C ltac:(discriminate)) as [[e E]|[[E Ec0]|[cap' [mpg [Ec [Lw [M0 [M1 [E Q]]]]]]]]].
    + rewrite E. discriminate.
    + congruence.
    + rewrite E. destruct C as [Hwf [Hso [Hsy [Hns [Hnn Hwp]]]]].
      apply (fm_passes_no_panic cfg g ws (length (x0 :: p0')) mpg cap' (x0 :: p0') Hwf Hsy Hns Hnn Hso Lw Hwp M1 eq_refl).
      exact Q.
Qed.

(* ============================ an admissible oracle exists for every input *)

Lemma bucket_min_witness ws p pw cap : forall b best m,
  bucket_min ws p pw cap b best = Some (Some m) ->
  best = Some m \/ exists v, In v b /\ feas ws p pw cap v = Some (Some m).
Proof.
  induction b as [|v b IH]; intros best m H; cbn [bucket_min] in H.
  - inversion H. left; reflexivity.
  - destruct (feas ws p pw cap v) as [[t|]|] eqn:F; [| |discriminate].
    + apply IH in H. destruct H as [H|[u [Hu Fu]]]; [|right; exists u; split; [right; exact Hu|exact Fu]].
      destruct best as [m0|].
      * destruct (t <? m0); [inversion H; subst; right; exists v; split; [left; reflexivity|exact F]|left; exact H].
      * inversion H; subst. right. exists v. split; [left; reflexivity|exact F].
    + apply IH in H. destruct H as [H|[u [Hu Fu]]]; [left; exact H|right; exists u; split; [right; exact Hu|exact Fu]].
Qed.

Lemma find_top_witness ws p pw cap : forall bs gn m,
  find_top ws p pw cap bs = Some (Some (gn, m)) ->
  exists b v, In (gn, b) bs /\ In v b /\ feas ws p pw cap v = Some (Some m).
Proof.
  induction bs as [|[g0 b] bs IH]; intros gn m H; cbn [find_top] in H; [discriminate|].
  destruct (bucket_min ws p pw cap b None) as [[m0|]|] eqn:B; [| |discriminate].
  - inversion H; subst. apply bucket_min_witness in B. destruct B as [B|[v [Hv F]]]; [discriminate|].
    exists b, v. split; [left; reflexivity|]. split; assumption.
  - apply IH in H. destruct H as [b' [v [Hin [Hv F]]]]. exists b', v. split; [right; exact Hin|]. split; assumption.
Qed.

Lemma do_move_ok_or_panic dbg g ws mpg st mn v gn :
  (exists st', do_move dbg g ws mpg st mn v gn = Ok st') \/ (exists s, do_move dbg g ws mpg st mn v gn = Panic s).
Proof.
  unfold do_move.
  repeat match goal with
         | |- context [match ?x with _ => _ end] => destruct x
         | |- context [if ?x then _ else _] => destruct x
         end; eauto.
Qed.

Section Exists.
Variables (cfg : fm_cfg) (g : graph) (ws : list Z) (n : nat) (mpg cap : Z) (p_in : list N).
Hypothesis Hwf : wf_graph g n.
Hypothesis Hsym : symmetric g.
Hypothesis Hnsl : no_self_loop g.
Hypothesis Hnn : nonneg_edges g.
Hypothesis Hsorted : rows_sorted g.
Hypothesis Hws : length ws = n.
Hypothesis Hwpos : Forall (fun w => 0 <= w) ws.
Hypothesis Hmpg0 : 0 <= mpg.
Hypothesis Hmpg : forall v, row_weight (rowof g v) <= mpg.
Hypothesis Hpin : length p_in = n.

(* whenever the code makes a move, some choice passes the oracle test *)
Lemma choice_exists pstart best0 st gn mint : inv g ws n cap p_in pstart best0 st ->
  find_top ws (s_p st) (s_pw st) cap (buckets_desc mpg (s_g2v st)) = Some (Some (gn, mint)) ->
  exists v, choice_ok ws st mpg cap gn mint v gn = true.
Proof.
  intros I H. apply find_top_witness in H. destruct H as [b [v [Hin [Hv F]]]].
  apply (buckets_desc_members mpg) in Hin; [|apply (i_sorted _ _ _ _ _ _ _ _ I)]. subst b.
  pose proof (i_bucket _ _ _ _ _ _ _ _ I _ _ Hv) as Hg. pose proof (i_gain _ _ _ _ _ _ _ _ I _ _ Hg) as Eg.
  exists v. unfold choice_ok. rewrite Z.eqb_refl, F, Z.eqb_refl. cbn [andb]. rewrite andb_true_r.
  rewrite tbl_idx_ok by (rewrite Eg; apply (gain_in_range g ws n mpg p_in Hnn Hws Hmpg Hpin)).
  apply existsb_exists. exists v. split; [exact Hv|apply Nat.eqb_refl].
Qed.

Lemma fm_moves_exists pstart best0 : length pstart = n -> forall fuel mn st,
  inv g ws n cap p_in pstart best0 st -> length (s_hist st) = mn -> (n < fuel + mn)%nat ->
  exists orc st', fm_moves cfg g ws mpg cap fuel mn st orc = Ok (MvOk st').
Proof.
  intros Lps. induction fuel as [|f IH]; intros mn st I Hmn Hf.
  - pose proof (hist_short g ws n cap p_in Hws Hpin pstart best0 st I). lia.
  - cbn [fm_moves].
    destruct (match fm_max_moves cfg with Some m => (m <=? N.of_nat mn)%N | None => false end); [exists [], st; reflexivity|].
    destruct (find_top ws (s_p st) (s_pw st) cap (buckets_desc mpg (s_g2v st))) as [[[gn mint]|]|] eqn:Ef.
    3:{ exfalso. revert Ef. apply (find_top_some ws n cap p_in Hws Hpin); [apply (i_len _ _ _ _ _ _ _ _ I)|apply (i_two _ _ _ _ _ _ _ _ I)|].
        intros gn b v Hin Hv. apply buckets_desc_members in Hin; [|apply (i_sorted _ _ _ _ _ _ _ _ I)]. subst b.
        apply (i_bucket _ _ _ _ _ _ _ _ I) in Hv. apply nth_opt_Some in Hv.
        rewrite (i_v2g_len _ _ _ _ _ _ _ _ I) in Hv. exact Hv. }
    2:{ exists [], st; reflexivity. }
    destruct ((gn <=? 0) && (fm_max_bad cfg <=? s_nbad st)%N); [exists [], st; reflexivity|].
    destruct (choice_exists pstart best0 st gn mint I Ef) as [v Hc].
    set (st1 := with_nbad st (if gn <=? 0 then (s_nbad st + 1)%N else 0%N)).
    assert (I1 : inv g ws n cap p_in pstart best0 st1) by (apply inv_set_nbad; exact I).
    assert (Hc1 : choice_ok ws st1 mpg cap gn mint v gn = true) by exact Hc.
    destruct (do_move_ok_or_panic (fm_dbg cfg) g ws mpg st1 mn v gn) as [[st2 Ed]|[s Ed]].
    + destruct (do_move_inv g ws n mpg cap Hwf Hsym Hnsl Hws Hwpos p_in pstart best0 Lps _ st1 mn v gn mint gn st2
                  I1 Hmn Hc1 Ed) as [I2 [L2 _]].
      destruct (IH (S mn) st2 I2 L2 ltac:(lia)) as [orc' [st' E']].
      exists ((v, gn) :: orc'), st'. rewrite Hc. fold st1. unfold with_nbad in st1. fold st1. rewrite Ed. exact E'.
    + exfalso. revert Ed.
      apply (do_move_no_panic g ws n mpg cap p_in Hwf Hsym Hnsl Hnn Hsorted Hws Hwpos Hmpg Hpin pstart best0 _ st1 mn v gn mint gn s Lps I1 Hc1).
Qed.

Lemma fm_passes_exists : forall fuel pass p pw best mpp rpp,
  pinv cfg g ws n cap p_in p pw best mpp rpp pass -> (Z.to_nat best < fuel)%nat ->
  exists orc p' mpp' rpp', fm_passes cfg g ws mpg cap fuel pass p pw best mpp rpp orc = Ok (FmOk p' mpp' rpp').
Proof.
  induction fuel as [|f IH]; intros pass p pw best mpp rpp Q Hf; [lia|]. cbn [fm_passes].
  destruct (match fm_max_passes cfg with Some m => (m <=? pass)%N | None => false end) eqn:Hlim.
  { exists [], p, mpp, rpp. reflexivity. }
  pose proof (q_len _ _ _ _ _ _ _ _ _ _ _ _ Q) as Lp.
  destruct (init_tables_some g ws n mpg p_in Hwf Hnn Hws Hmpg Hpin p Lp p [] [] g [] eq_refl eq_refl eq_refl) as [v2g [t Hi]].
  cbn [length] in Hi.
  assert (I0 : inv g ws n cap p_in p best
                 {| s_p := p; s_pw := pw; s_v2g := v2g; s_g2v := t; s_cur := best; s_best := best;
                    s_bestmove := None; s_nbad := 0%N; s_hist := [] |}).
  { rewrite (q_pw _ _ _ _ _ _ _ _ _ _ _ _ Q).
    apply (pass_start g ws n mpg cap Hwf Hsym Hnsl Hnn Hsorted Hws Hmpg p_in p best Lp p v2g t Lp
             (q_two _ _ _ _ _ _ _ _ _ _ _ _ Q) (q_cap _ _ _ _ _ _ _ _ _ _ _ _ Q) eq_refl
             (q_best _ _ _ _ _ _ _ _ _ _ _ _ Q) Hi). }
  destruct (fm_moves_exists p best Lp (S (length p)) 0%nat _ I0 eq_refl ltac:(lia)) as [moves [st Hm]].
  assert (Hm0 : forall m : N, fm_max_moves cfg = Some m -> (N.of_nat 0 <= m)%N) by (intros m _; lia).
  destruct (fm_moves_inv g ws n mpg cap Hwf Hsym Hnsl Hws Hwpos p_in p best Lp cfg _ 0%nat _ _ st I0 eq_refl Hm0 Hm)
    as [I _].
  destruct (pass_end g ws n cap Hwf Hws p_in p best Lp st I) as [Er _].
  assert (Er2 : rewind ws (s_p st) (s_pw st)
                  (skipn (match s_bestmove st with Some m => S m | None => O end) (s_hist st))
                = Some (undo (s_p st) (skipn (rewind_to st) (s_hist st)),
                        (load ws (undo (s_p st) (skipn (rewind_to st) (s_hist st))) 0,
                         load ws (undo (s_p st) (skipn (rewind_to st) (s_hist st))) 1))) by exact Er.
  destruct (pass_step cfg g ws n mpg cap p_in Hwf Hsym Hnsl Hnn Hsorted Hws Hwpos Hmpg Hpin
              _ _ _ _ _ _ _ _ _ _ _ _ Q Hlim Hi Hm Er2) as [Q' _].
  destruct (Z.leb_spec best (s_best st)) as [Le|Lt].
  - eexists [(best, moves)], _, _, _. rewrite Z.eqb_refl. cbn [negb]. rewrite Hi, Hm, Er2.
    replace (best <=? s_best st) with true by (symmetry; apply Z.leb_le; exact Le). reflexivity.
  - assert (0 <= s_best st).
    { rewrite (q_best _ _ _ _ _ _ _ _ _ _ _ _ Q'). apply edge_cut_nonneg. exact Hnn. }
    destruct (IH _ _ _ _ _ _ Q' ltac:(lia)) as [orc' [p' [mpp' [rpp' E']]]].
    exists ((best, moves) :: orc'), p', mpp', rpp'. rewrite Z.eqb_refl. cbn [negb]. rewrite Hi, Hm, Er2.
    replace (best <=? s_best st) with false by (symmetry; apply Z.leb_gt; exact Lt). exact E'.
Qed.
End Exists.

(* past the entry checks, for every oracle at once *)
Lemma fm_unfold_all cfg fuel g ws p0 cap : fm_contract g ws p0 -> p0 <> [] ->
  length ws = length p0 -> two_way p0 ->
  fm_cap (fm_max_imb cfg) (load ws p0 0, load ws p0 1) = Some cap ->
  exists mpg, 0 <= mpg /\ (forall v, row_weight (rowof g v) <= mpg) /\
    (forall orc, fm cfg fuel g ws p0 orc
       = fm_passes cfg g ws mpg cap fuel 0%N p0 (load ws p0 0, load ws p0 1) (edge_cut_sprs g p0) [] [] orc) /\
    pinv cfg g ws (length p0) cap p0 p0 (load ws p0 0, load ws p0 1) (edge_cut_sprs g p0) [] [] 0%N.
Proof.
  intros [Hwf [Hso [Hsy [Hns [Hnn Hwp]]]]] Hne Lw T2 Hcap.
  assert (Lg : length g = length p0) by (destruct Hwf; assumption).
  destruct (max_gain g) as [mpg|] eqn:Em.
  2:{ destruct g; [destruct p0; [congruence|discriminate]|discriminate]. }
  destruct (max_gain_spec g mpg Hnn Em) as [M0 M1].
  exists mpg. split; [exact M0|]. split; [exact M1|]. split.
  - intros orc. unfold fm. rewrite Lw, Nat.eqb_refl. cbn [negb]. rewrite <- Lw.
    rewrite Lw, <- Lg, Nat.eqb_refl. cbn [negb].
    destruct p0 as [|x0 p0']; [congruence|].
    replace (existsb (fun x => (1 <? x)%N) (x0 :: p0')) with false.
    + rewrite Hcap, Em. destruct (Z.ltb_spec mpg 0); [lia|reflexivity].
    + symmetry. apply not_true_is_false. intros Ex. apply existsb_exists in Ex. destruct Ex as [x [Hx Lx]].
      unfold two_way in T2. rewrite Forall_forall in T2. apply T2 in Hx. apply N.ltb_lt in Lx. lia.
  - constructor; auto.
    + apply edge_cut_sprs_eq. exact Hso.
    + intros q Hq. lia.
    + rewrite edge_cut_sprs_eq by exact Hso. lia.
    + intros m _. lia.
    + rewrite hamming_refl. cbn. lia.
Qed.

(* non-vacuity for EVERY input of the contract: some oracle is accepted to the end *)
Theorem fm_execution_exists cfg g ws p0 cap : fm_contract g ws p0 ->
  length ws = length p0 -> two_way p0 ->
  fm_cap (fm_max_imb cfg) (load ws p0 0, load ws p0 1) = Some cap ->
  exists orc p mpp rpp, fm cfg (fm_fuel g p0) g ws p0 orc = Ok (FmOk p mpp rpp).
Proof.
  intros C Lw T2 Hcap. destruct p0 as [|x0 p0'].
  - exists [], [], [], []. destruct ws; [|discriminate]. destruct C as [[Lg _] _]. destruct g; [|discriminate]. reflexivity.
  - destruct (fm_unfold_all cfg (fm_fuel g (x0 :: p0')) g ws (x0 :: p0') cap C ltac:(discriminate) Lw T2 Hcap)
      as [mpg [M0 [M1 [E Q]]]].
    destruct C as [Hwf [Hso [Hsy [Hns [Hnn Hwp]]]]].
    destruct (fm_passes_exists cfg g ws (length (x0 :: p0')) mpg cap (x0 :: p0') Hwf Hsy Hns Hnn Hso Lw Hwp M1 eq_refl
                (fm_fuel g (x0 :: p0')) _ _ _ _ _ _ Q ltac:(unfold fm_fuel; lia)) as [orc [p [mpp [rpp E']]]].
    exists orc, p, mpp, rpp. rewrite E. exact E'.
Qed.

(* Facts about the box arithmetic of Model/ZGeom.v.
   - the f64 comparison of SpecFloat is a strict order on non-NaN values
     (an order embedding into triples of integers);
   - region_sub_contains: if the box contains the point and the tolerance of
     `contains` is effective at the midlines (c - eps < c < c + eps, true for
     |c| < 32), the sub-box of the quadrant that `region` returns contains
     the point;  hence the model's own codes pass the cell checker;
   - the cell checker decides its specification. *)
From Coupe Require Import Lib.Prelude Lib.SFloat Model.ZGeom.
From Coq Require Import Floats.SpecFloat.
Open Scope Z_scope.

(* ---- SFltb is a strict order on non-NaN floats ---- *)

Definition fkey (x : spec_float) : option (Z * Z * Z) :=
  match x with
  | S754_nan => None
  | S754_infinity true => Some (-2, 0, 0)
  | S754_infinity false => Some (2, 0, 0)
  | S754_zero _ => Some (0, 0, 0)
  | S754_finite true m e => Some (-1, - e, - Zpos m)
  | S754_finite false m e => Some (1, e, Zpos m)
  end.

Definition lex3_lt (a b : Z * Z * Z) : Prop :=
  let '(a1, a2, a3) := a in let '(b1, b2, b3) := b in
  a1 < b1 \/ (a1 = b1 /\ (a2 < b2 \/ (a2 = b2 /\ a3 < b3))).

Ltac fk :=
  split;
  [ let H := fresh "H" in
    intros H; cbn in H;
    first [ discriminate H
          | do 2 eexists; split; [reflexivity|split; [reflexivity|cbn; lia]] ]
  | let ka := fresh "ka" in let kb := fresh "kb" in
    let Ha := fresh "Ha" in let Hb := fresh "Hb" in let H := fresh "H" in
    intros [ka [kb [Ha [Hb H]]]];
    first [ discriminate Ha | discriminate Hb
          | injection Ha as <-; injection Hb as <-; cbn in H;
            first [ reflexivity | exfalso; lia ] ] ].

Lemma flt_key a b :
  flt a b = true <-> exists ka kb, fkey a = Some ka /\ fkey b = Some kb /\ lex3_lt ka kb.
Proof.
  unfold flt, SFltb, SFcompare.
  destruct a as [sa|sa| |sa ma ea], b as [sb|sb| |sb mb eb];
    try destruct sa; try destruct sb; cbn [fkey];
    try change (Pcompare ma mb Eq) with (Pos.compare ma mb);
    try (destruct (Z.compare_spec ea eb) as [E|E|E];
         [destruct (Pos.compare_spec ma mb) as [F|F|F]| |]);
    fk.
Qed.

Lemma flt_trans a b c : flt a b = true -> flt b c = true -> flt a c = true.
Proof.
  intros H1 H2. apply flt_key in H1. apply flt_key in H2. apply flt_key.
  destruct H1 as [ka [kb [Ha [Hb L1]]]]. destruct H2 as [kb' [kc [Hb' [Hc L2]]]].
  rewrite Hb in Hb'. injection Hb' as <-. exists ka, kc. repeat split; auto.
  destruct ka as [[a1 a2] a3], kb as [[b1 b2] b3], kc as [[c1 c2] c3]. cbn in *. lia.
Qed.

(* x <= c < d  (x, c not NaN) *)
Lemma fnlt_lt_trans x c d kx :
  fkey x = Some kx -> flt c x = false -> flt c d = true -> flt x d = true.
Proof.
  intros Hx H1 H2. apply flt_key in H2. destruct H2 as [kc [kd [Hc [Hd L]]]].
  apply flt_key. exists kx, kd. repeat split; auto.
  assert (N1 : ~ lex3_lt kc kx).
  { intros C. assert (flt c x = true) by (apply flt_key; exists kc, kx; auto). congruence. }
  destruct kx as [[x1 x2] x3], kc as [[c1 c2] c3], kd as [[d1 d2] d3]. cbn in *. lia.
Qed.

Lemma flt_key_l a b : flt a b = true -> exists ka, fkey a = Some ka.
Proof. intros H. apply flt_key in H. destruct H as [ka [_ [Ha _]]]. eauto. Qed.

(* ---- the sub-box of the quadrant that [region] returns contains the point ---- *)
Open Scope nat_scope.

Lemma sub_axis_contains mm x :
  contains1 mm x = true -> eps_effective (center1 mm) = true ->
  contains1 (if flt (center1 mm) x then (center1 mm, snd mm) else (fst mm, center1 mm)) x = true.
Proof.
  unfold contains1, eps_effective. intros H E.
  apply andb_true_iff in H. destruct H as [H1 H2].
  apply andb_true_iff in E. destruct E as [E1 E2].
  destruct (flt (center1 mm) x) eqn:Ec; cbn [fst snd]; apply andb_true_iff; split; auto.
  - eapply flt_trans; eauto.
  - destruct (flt_key_l _ _ H1) as [kx Hx]. eapply fnlt_lt_trans; eauto.
Qed.

Lemma region_bits_double : forall b p w, region_bits b p (2 * w) = (2 * region_bits b p w)%N.
Proof.
  induction b as [|mm b IH]; intros [|x p] w; cbn [region_bits]; try lia.
  rewrite IH. destruct (flt (center1 mm) x); lia.
Qed.

Lemma sub_aabb_region_contains : forall b p,
  contains b p = true -> forallb eps_effective (center b) = true ->
  contains (sub_aabb b (region_bits b p 1)) p = true.
Proof.
  induction b as [|mm b IH]; intros [|x p] H E; cbn [sub_aabb contains region_bits center map forallb] in *; try reflexivity.
  apply andb_true_iff in H. destruct H as [H1 H2].
  apply andb_true_iff in E. destruct E as [E1 E2].
  rewrite region_bits_double.
  pose proof (sub_axis_contains mm x H1 E1) as S.
  destruct (flt (center1 mm) x).
  - replace (N.odd (1 + 2 * region_bits b p 1)) with true by (destruct (region_bits b p 1); reflexivity).
    replace (N.div2 (1 + 2 * region_bits b p 1)) with (region_bits b p 1) by (destruct (region_bits b p 1); reflexivity).
    rewrite S. cbn [andb]. apply IH; assumption.
  - replace (N.odd (0 + 2 * region_bits b p 1)) with false by (destruct (region_bits b p 1); reflexivity).
    replace (N.div2 (0 + 2 * region_bits b p 1)) with (region_bits b p 1) by (destruct (region_bits b p 1); reflexivity).
    rewrite S. cbn [andb]. apply IH; assumption.
Qed.

(* `region(p) = Some q  ->  sub_aabb(q).contains(p)` for the code's midpoint,
   wherever the tolerance of `contains` is effective at the midlines *)
Theorem region_sub_contains b p q :
  forallb eps_effective (center b) = true ->
  region b p = Some q -> contains (sub_aabb b q) p = true.
Proof.
  unfold region. intros E H. destruct (contains b p) eqn:C; [|discriminate].
  injection H as <-. apply sub_aabb_region_contains; assumption.
Qed.


(* ---- the model's own quadrants pass the cell checker ---- *)

Lemma region_bits_mult : forall b p w,
  exists k, region_bits b p w = (w * k)%N /\ (k < 2 ^ N.of_nat (length b))%N.
Proof.
  induction b as [|mm b IH]; intros [|x p] w; cbn [region_bits length];
    try (exists 0%N; split; [lia|apply N.neq_0_lt_0, N.pow_nonzero; discriminate]).
  rewrite Nat2N.inj_succ, N.pow_succ_r'.
  destruct (IH p (2 * w)%N) as [k [E L]]. rewrite E.
  destruct (flt (center1 mm) x); [exists (1 + 2 * k)%N|exists (2 * k)%N]; split; lia.
Qed.

Lemma region_bits_lt b p w : (0 < w)%N -> (region_bits b p w < w * 2 ^ N.of_nat (length b))%N.
Proof.
  intros Hw. destruct (region_bits_mult b p w) as [k [-> L]]. apply N.mul_lt_mono_pos_l; assumption.
Qed.

Lemma sub_aabb_length : forall b r, length (sub_aabb b r) = length b.
Proof. induction b as [|mm b IH]; intros r; cbn [sub_aabb length]; [reflexivity|rewrite IH; reflexivity]. Qed.

Theorem geo_codes_in_cells : forall order b p,
  contains b p = true -> cells_contain (2 ^ N.of_nat (length b)) (geo_codes order b p) b p = true.
Proof.
  induction order as [|o IH]; intros b p C; cbn [geo_codes cells_contain]; rewrite C; cbn [andb]; [reflexivity|].
  destruct (forallb eps_effective (center b)) eqn:E; [|reflexivity].
  unfold region. rewrite C.
  pose proof (region_bits_lt b p 1 ltac:(lia)) as L. rewrite N.mul_1_l in L.
  apply andb_true_iff. split; [apply N.ltb_lt; exact L|].
  rewrite <- (sub_aabb_length b (region_bits b p 1)). apply IH.
  apply sub_aabb_region_contains; assumption.
Qed.

(* ---- the cell checker decides its specification ---- *)

(* every cell along the quadrants [codes] contains the point, as long as the
   tolerance is effective at the midlines of the level *)
Fixpoint cells_spec (nq : N) (codes : list N) (b : box) (p : fpoint) : Prop :=
  contains b p = true /\
  match codes with
  | [] => True
  | r :: ct =>
    forallb eps_effective (center b) = true -> (r < nq)%N /\ cells_spec nq ct (sub_aabb b r) p
  end.

Lemma cells_contain_ok nq : forall codes b p,
  cells_contain nq codes b p = true <-> cells_spec nq codes b p.
Proof.
  induction codes as [|r ct IH]; intros b p; cbn [cells_contain cells_spec].
  - rewrite andb_true_r. tauto.
  - rewrite andb_true_iff. destruct (forallb eps_effective (center b)).
    + rewrite andb_true_iff, N.ltb_lt, IH. tauto.
    + split; [intros [C _]; split; [exact C|discriminate]|tauto].
Qed.

Definition cells_property (nq : N) (b : box) (pts : list fpoint) (codes : list (list N)) : Prop :=
  length pts = length codes /\
  forall p c, In (p, c) (combine pts codes) -> contains b p = true -> cells_spec nq c b p.

Theorem check_cells_ok nq b pts codes :
  check_cells nq b pts codes = true <-> cells_property nq b pts codes.
Proof.
  unfold check_cells, cells_property. rewrite andb_true_iff, Nat.eqb_eq, forallb_forall. split.
  - intros [HL H]. split; [exact HL|]. intros p c Hin C. specialize (H (p, c) Hin). cbn [fst snd] in H.
    rewrite C in H. apply cells_contain_ok, H.
  - intros [HL H]. split; [exact HL|]. intros [p c] Hin. cbn [fst snd].
    destruct (contains b p) eqn:C; [|reflexivity]. apply cells_contain_ok, H; assumption.
Qed.

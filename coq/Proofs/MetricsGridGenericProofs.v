(* Grid<D> index arithmetic for EVERY dimension D (Model/Metrics.v, src/cartesian/mod.rs):
   the generic branches of position_of / index_of -- the mixed-radix loops
   `for (s, p) in size.zip(&mut pos) { *p = i % s; i = i / s }` and
   `scan(1, |prefix, (s, p)| { a = prefix * p; prefix *= s; Some(a) }).sum()` --
   are inverse bijections between [0, len) and the box, for any list of positive
   sides; and the hand-specialised 2D / 3D fast paths of the two functions compute
   exactly what the generic loops compute on every in-range argument.  Hence
   index_of / position_of are inverse bijections for every D, not only for the two
   constructors Grid::new_2d / new_3d (MetricsGridProofs.v proves those directly). *)
From Coupe Require Import Lib.Prelude Lib.Csr Model.Metrics Proofs.MetricsCutProofs Proofs.MetricsLambdaProofs Proofs.MetricsGridProofs.
Open Scope nat_scope.

(* the box: one coordinate per side, each below its side *)
Definition in_box_gen (dims pos : list nat) : Prop := Forall2 lt pos dims.
Definition sides_pos (dims : list nat) : Prop := Forall (fun s => 0 < s) dims.

Lemma index_loop_scale dims : forall pos p, index_loop p dims pos = p * index_loop 1 dims pos.
Proof.
  induction dims as [|s dt IH]; intros [|x pt] p; cbn [index_loop]; try lia.
  rewrite (IH pt (p * s)), (IH pt (1 * s)). nia.
Qed.

Lemma index_loop_cons s dt x pt :
  index_loop 1 (s :: dt) (x :: pt) = x + s * index_loop 1 dt pt.
Proof. cbn [index_loop]. rewrite (index_loop_scale dt pt (1 * s)). lia. Qed.

Lemma grid_len_cons s t : grid_len (s :: t) = s * grid_len t.
Proof. reflexivity. Qed.

Lemma position_loop_length dims : forall i, length (position_loop dims i) = length dims.
Proof. induction dims as [|s t IH]; intros i; cbn [position_loop length]; [reflexivity|]. now rewrite IH. Qed.

(* index_of (position_of i) = i, and the position is in the box *)
Lemma index_position_loop dims :
  sides_pos dims -> forall i, i < grid_len dims ->
  index_loop 1 dims (position_loop dims i) = i /\ in_box_gen dims (position_loop dims i).
Proof.
  unfold sides_pos, in_box_gen.
  induction dims as [|s t IH]; intros Hpos i Hi.
  - cbn in Hi. cbn [position_loop index_loop]. split; [lia | constructor].
  - inversion Hpos as [|s' t' Hs Ht]; subst.
    rewrite grid_len_cons in Hi. cbn [position_loop]. rewrite index_loop_cons.
    assert (Hq : i / s < grid_len t) by (apply Nat.div_lt_upper_bound; lia).
    destruct (IH Ht (i / s) Hq) as [E B]. rewrite E. split.
    + pose proof (Nat.div_mod_eq i s). lia.
    + constructor; [apply Nat.mod_upper_bound; lia | exact B].
Qed.

(* position_of (index_of pos) = pos, and the index is a cell *)
Lemma position_index_loop dims :
  forall pos, in_box_gen dims pos ->
  index_loop 1 dims pos < grid_len dims /\ position_loop dims (index_loop 1 dims pos) = pos.
Proof.
  unfold in_box_gen.
  induction dims as [|s t IH]; intros pos Hb.
  - inversion Hb; subst. cbn. split; [lia | reflexivity].
  - inversion Hb as [|x s' pt t' Hx Hr]; subst.
    destruct (IH pt Hr) as [L E].
    rewrite index_loop_cons, grid_len_cons. cbn [position_loop].
    set (r := index_loop 1 t pt) in *.
    assert (Hm : (x + s * r) mod s = x) by (symmetry; apply (Nat.mod_unique _ s r x); lia).
    assert (Hd : (x + s * r) / s = r) by (symmetry; apply (Nat.div_unique _ s r x); lia).
    rewrite Hm, Hd, E. split; [nia | reflexivity].
Qed.

(* the specialised fast paths compute what the generic loops compute *)
Lemma position_of_is_loop dims i :
  sides_pos dims -> i < grid_len dims -> position_of dims i = position_loop dims i.
Proof.
  unfold sides_pos. intros Hpos Hi.
  destruct dims as [|w [|h [|d [|e t]]]]; try reflexivity.
  - (* 2D *)
    inversion Hpos as [|? ? Hw Hpos']; subst. inversion Hpos' as [|? ? Hh _]; subst.
    unfold grid_len in Hi. cbn [fold_right] in Hi.
    cbn [position_of position_loop].
    assert (i / w < h) by (apply Nat.div_lt_upper_bound; lia).
    rewrite (Nat.mod_small (i / w) h) by assumption. reflexivity.
  - (* 3D *)
    inversion Hpos as [|? ? Hw Hpos']; subst. inversion Hpos' as [|? ? Hh Hpos'']; subst.
    inversion Hpos'' as [|? ? Hd _]; subst.
    unfold grid_len in Hi. cbn [fold_right] in Hi.
    cbn [position_of position_loop].
    assert (i / w < h * d) by (apply Nat.div_lt_upper_bound; lia).
    assert (i / w / h < d) by (apply Nat.div_lt_upper_bound; lia).
    rewrite (Nat.mod_small (i / w / h) d) by assumption. reflexivity.
Qed.

Lemma index_of_is_loop dims pos :
  length pos = length dims -> index_of dims pos = index_loop 1 dims pos.
Proof.
  intros Hl.
  destruct dims as [|w [|h [|d [|e t]]]];
    destruct pos as [|x [|y [|z [|u pt]]]]; try discriminate Hl; try reflexivity.
  - cbn [index_of index_loop]. lia.
  - cbn [index_of index_loop]. nia.
Qed.

Lemma in_box_gen_length dims pos : in_box_gen dims pos -> length pos = length dims.
Proof. unfold in_box_gen. induction 1; cbn [length]; congruence. Qed.

(* Grid<D>::index_of and Grid<D>::position_of are inverse bijections for every D *)
Theorem grid_index_bij_generic dims :
  sides_pos dims ->
  (forall i, i < grid_len dims ->
     index_of dims (position_of dims i) = i /\ in_box_gen dims (position_of dims i))
  /\ (forall pos, in_box_gen dims pos ->
     index_of dims pos < grid_len dims /\ position_of dims (index_of dims pos) = pos).
Proof.
  intros Hpos. split.
  - intros i Hi. rewrite (position_of_is_loop dims i Hpos Hi).
    rewrite index_of_is_loop by apply position_loop_length.
    apply index_position_loop; assumption.
  - intros pos Hb. rewrite (index_of_is_loop dims pos (in_box_gen_length _ _ Hb)).
    destruct (position_index_loop dims pos Hb) as [L E]. split; [exact L|].
    rewrite (position_of_is_loop dims _ Hpos L). exact E.
Qed.

(* consequence: distinct cells have distinct positions, in any dimension *)
Corollary grid_position_injective dims i j :
  sides_pos dims -> i < grid_len dims -> j < grid_len dims ->
  position_of dims i = position_of dims j -> i = j.
Proof.
  intros Hpos Hi Hj E. destruct (grid_index_bij_generic dims Hpos) as [F _].
  destruct (F i Hi) as [Ei _]. destruct (F j Hj) as [Ej _]. rewrite <- Ei, <- Ej, E. reflexivity.
Qed.

(* non-vacuity: a 4-dimensional 2x3x4x5 grid (a shape the 2D/3D theorems do not reach) *)
Example grid_generic_nonvacuous :
  sides_pos [2; 3; 4; 5] /\ grid_len [2; 3; 4; 5] = 120
  /\ position_of [2; 3; 4; 5] 119 = [1; 2; 3; 4]
  /\ position_of [2; 3; 4; 5] 77 = [1; 2; 0; 3]
  /\ index_of [2; 3; 4; 5] [1; 2; 0; 3] = 77.
Proof. repeat split; try reflexivity. repeat constructor. Qed.

(* ------------------------------------------------ GridNeighbors, every dimension D *)

Lemma In_somes_map {A B} (f : A -> option B) (l : list A) (u : B) :
  In u (somes (map f l)) <-> exists i, In i l /\ f i = Some u.
Proof.
  induction l as [|x t IH]; cbn [map somes].
  - split; [intros [] | intros (i & [] & _)].
  - destruct (f x) as [b|] eqn:E.
    + cbn [In]. rewrite IH. split.
      * intros [-> | (i & Hi & Hf)]; [exists x; split; [left; reflexivity | exact E] | exists i; split; [right; exact Hi | exact Hf]].
      * intros (i & [-> | Hi] & Hf); [left; congruence | right; exists i; split; assumption].
    + rewrite IH. split.
      * intros (i & Hi & Hf). exists i. split; [right; exact Hi | exact Hf].
      * intros (i & [-> | Hi] & Hf); [congruence | exists i; split; assumption].
Qed.

(* a step of one along axis [a] from [pos]: the coordinate [c] there becomes [c'] *)
Definition axis_step (dims pos : list nat) (a c' : nat) : Prop :=
  exists c s, nth_opt pos a = Some c /\ nth_opt dims a = Some s
              /\ ((0 < c /\ c' = c - 1 /\ c' < s) \/ (c' = c + 1 /\ c' < s)).

Lemma in_box_gen_set_nth dims : forall pos a c' s,
  in_box_gen dims pos -> nth_opt dims a = Some s -> c' < s -> in_box_gen dims (set_nth pos a c').
Proof.
  unfold in_box_gen. induction dims as [|s0 t IH]; intros pos a c' s Hb Hs Hc.
  - destruct a; discriminate Hs.
  - inversion Hb as [|x s' pt t' Hx Hr]; subst. destruct a as [|a]; cbn [set_nth nth_opt] in *.
    + injection Hs as ->. constructor; assumption.
    + constructor; [assumption | eapply IH; eassumption].
Qed.

(* the iterator of Grid<D>::neighbors, for every D: u is yielded for the cell v iff u is the index
   of the position of v moved by exactly one along exactly one axis, staying inside the grid *)
Theorem grid_neighbors_spec_generic dims v u :
  sides_pos dims -> v < grid_len dims ->
  (In u (grid_neighbors dims v)
   <-> exists a c', axis_step dims (position_of dims v) a c'
                    /\ u = index_of dims (set_nth (position_of dims v) a c')).
Proof.
  intros Hpos Hv. unfold grid_neighbors. cbv zeta.
  destruct (grid_index_bij_generic dims Hpos) as [F _]. destruct (F v Hv) as [_ Hb].
  pose proof (in_box_gen_length _ _ Hb) as Hl.
  set (pos := position_of dims v) in *.
  rewrite In_somes_map. split.
  - intros (i & Hi & Hf). apply in_seq in Hi.
    assert (Ha : i / 2 < length dims) by (apply Nat.div_lt_upper_bound; lia).
    destruct (nth_opt_lt pos (i / 2)) as [c Hc]; [lia|].
    destruct (nth_opt_lt dims (i / 2) Ha) as [s Hs].
    pose proof (Nat.div_mod_eq i 2) as Hdm.
    assert (Hm : i mod 2 < 2) by (apply Nat.mod_upper_bound; lia).
    destruct (Nat.eq_dec (i mod 2) 0) as [E0|E1].
    + replace i with (2 * (i / 2)) in Hf by lia.
      rewrite (neighbor_step_even dims pos (i / 2) c s Hc Hs) in Hf.
      destruct (Nat.eqb c 0) eqn:Ec; [discriminate|]. apply Nat.eqb_neq in Ec.
      destruct (Nat.leb s (c - 1)) eqn:El; [discriminate|]. apply Nat.leb_gt in El.
      injection Hf as <-. exists (i / 2), (c - 1). split; [|reflexivity].
      exists c, s. repeat split; try assumption. left. repeat split; lia.
    + replace i with (2 * (i / 2) + 1) in Hf by lia.
      rewrite (neighbor_step_odd dims pos (i / 2) c s Hc Hs) in Hf.
      destruct (Nat.leb s (c + 1)) eqn:El; [discriminate|]. apply Nat.leb_gt in El.
      injection Hf as <-. exists (i / 2), (c + 1). split; [|reflexivity].
      exists c, s. repeat split; try assumption. right. split; [reflexivity | lia].
  - intros (a & c' & (c & s & Hc & Hs & Hstep) & ->).
    pose proof (nth_opt_Some _ _ _ Hs) as Ha.
    destruct Hstep as [(H0 & -> & Hlt) | (-> & Hlt)].
    + exists (2 * a). split; [apply in_seq; lia|].
      rewrite (neighbor_step_even dims pos a c s Hc Hs).
      destruct (Nat.eqb c 0) eqn:Ec; [apply Nat.eqb_eq in Ec; lia|].
      destruct (Nat.leb s (c - 1)) eqn:El; [apply Nat.leb_le in El; lia | reflexivity].
    + exists (2 * a + 1). split; [apply in_seq; lia|].
      rewrite (neighbor_step_odd dims pos a c s Hc Hs).
      destruct (Nat.leb s (c + 1)) eqn:El; [apply Nat.leb_le in El; lia | reflexivity].
Qed.

(* hence, for every D: every neighbour is a cell of the grid, and its position is the position of
   v with exactly one coordinate changed by exactly one *)
Theorem grid_neighbors_are_adjacent_cells dims v u :
  sides_pos dims -> v < grid_len dims -> In u (grid_neighbors dims v) ->
  u < grid_len dims
  /\ exists a c', axis_step dims (position_of dims v) a c'
                  /\ position_of dims u = set_nth (position_of dims v) a c'.
Proof.
  intros Hpos Hv Hin. apply (grid_neighbors_spec_generic dims v u Hpos Hv) in Hin.
  destruct Hin as (a & c' & Hstep & ->).
  destruct (grid_index_bij_generic dims Hpos) as [F G]. destruct (F v Hv) as [_ Hb].
  assert (Hb' : in_box_gen dims (set_nth (position_of dims v) a c')).
  { destruct Hstep as (c & s & _ & Hs & [(_ & _ & Hlt) | (_ & Hlt)]); eapply in_box_gen_set_nth; eassumption. }
  destruct (G _ Hb') as [L E]. split; [exact L|]. exists a, c'. split; [exact Hstep | exact E].
Qed.

(* and conversely every cell at one step along one axis is yielded *)
Theorem grid_adjacent_cells_are_neighbors dims v u a c' :
  sides_pos dims -> v < grid_len dims -> u < grid_len dims ->
  axis_step dims (position_of dims v) a c' ->
  position_of dims u = set_nth (position_of dims v) a c' ->
  In u (grid_neighbors dims v).
Proof.
  intros Hpos Hv Hu Hstep E. apply (grid_neighbors_spec_generic dims v u Hpos Hv).
  exists a, c'. split; [exact Hstep|]. rewrite <- E.
  destruct (grid_index_bij_generic dims Hpos) as [F _]. destruct (F u Hu) as [Eu _]. symmetry. exact Eu.
Qed.

(* no self loop, in any dimension *)
Corollary grid_neighbors_irreflexive dims v :
  sides_pos dims -> v < grid_len dims -> ~ In v (grid_neighbors dims v).
Proof.
  intros Hpos Hv Hin.
  destruct (grid_neighbors_are_adjacent_cells dims v v Hpos Hv Hin) as (_ & a & c' & (c & s & Hc & Hs & Hstep) & E).
  pose proof (nth_opt_Some _ _ _ Hc) as Ha.
  assert (H1 : nth_opt (position_of dims v) a = Some c') by (rewrite E at 1; apply nth_opt_set_nth_same; exact Ha).
  rewrite Hc in H1. injection H1 as H1. lia.
Qed.

Lemma set_nth_set_nth {A} (l : list A) : forall a x y, set_nth (set_nth l a x) a y = set_nth l a y.
Proof. induction l as [|h t IH]; intros [|a] x y; cbn [set_nth]; try reflexivity. now rewrite IH. Qed.

Lemma set_nth_same {A} (l : list A) : forall a x, nth_opt l a = Some x -> set_nth l a x = l.
Proof.
  induction l as [|h t IH]; intros [|a] x H; cbn [set_nth nth_opt] in *; try discriminate.
  - congruence.
  - now rewrite (IH a x H).
Qed.

Lemma in_box_gen_nth dims : forall pos a c s,
  in_box_gen dims pos -> nth_opt pos a = Some c -> nth_opt dims a = Some s -> c < s.
Proof.
  unfold in_box_gen. induction dims as [|s0 t IH]; intros pos a c s Hb Hc Hs.
  - destruct a; discriminate Hs.
  - inversion Hb as [|x s' pt t' Hx Hr]; subst. destruct a as [|a]; cbn [nth_opt] in *.
    + congruence.
    + eapply IH; eassumption.
Qed.

(* the neighbour relation is symmetric in every dimension *)
Theorem grid_neighbors_sym_generic dims v u :
  sides_pos dims -> v < grid_len dims -> In u (grid_neighbors dims v) ->
  u < grid_len dims /\ In v (grid_neighbors dims u).
Proof.
  intros Hpos Hv Hin.
  destruct (grid_neighbors_are_adjacent_cells dims v u Hpos Hv Hin) as (Hu & a & c' & (c & s & Hc & Hs & Hstep) & E).
  split; [exact Hu|].
  destruct (grid_index_bij_generic dims Hpos) as [F _]. destruct (F v Hv) as [_ Hb].
  pose proof (in_box_gen_nth dims _ a c s Hb Hc Hs) as Hcs.
  pose proof (nth_opt_Some _ _ _ Hc) as Ha.
  apply (grid_adjacent_cells_are_neighbors dims u v a c Hpos Hu Hv).
  - exists c', s. rewrite E. split; [apply nth_opt_set_nth_same; exact Ha|]. split; [exact Hs|].
    destruct Hstep as [(H0 & -> & Hlt) | (-> & Hlt)]; [right | left]; repeat split; lia.
  - rewrite E, set_nth_set_nth. symmetry. apply set_nth_same. exact Hc.
Qed.

Lemma NoDup_somes_map {A B} (f : A -> option B) (l : list A) :
  (forall i j u, In i l -> In j l -> f i = Some u -> f j = Some u -> i = j) ->
  NoDup l -> NoDup (somes (map f l)).
Proof.
  induction l as [|x t IH]; intros Hinj Hnd; cbn [map somes]; [constructor|].
  inversion Hnd as [|? ? Hx Ht]; subst.
  assert (IHt : NoDup (somes (map f t))).
  { apply IH; [|exact Ht]. intros i j u Hi Hj. apply Hinj; right; assumption. }
  destruct (f x) as [b|] eqn:E; [|exact IHt].
  constructor; [|exact IHt]. intros Hin. apply In_somes_map in Hin. destruct Hin as (i & Hi & Hf).
  assert (x = i) by (apply (Hinj x i b); [left; reflexivity | right; exact Hi | exact E | exact Hf]).
  subst. contradiction.
Qed.

(* what one item of the iterator is, in terms of its counter value *)
Lemma neighbor_step_inv dims pos i u :
  neighbor_step dims pos i = Some u ->
  exists c s c', nth_opt pos (i / 2) = Some c /\ nth_opt dims (i / 2) = Some s /\ c' < s
                 /\ u = index_of dims (set_nth pos (i / 2) c')
                 /\ ((i mod 2 = 0 /\ 0 < c /\ c' = c - 1) \/ (i mod 2 <> 0 /\ c' = c + 1)).
Proof.
  unfold neighbor_step. cbv zeta.
  destruct (nth_opt pos (i / 2)) as [c|]; [|discriminate].
  destruct (nth_opt dims (i / 2)) as [s|]; [|discriminate].
  destruct (Nat.eqb (i mod 2) 0) eqn:Ep.
  - apply Nat.eqb_eq in Ep. destruct (Nat.eqb c 0) eqn:Ec; [discriminate|]. apply Nat.eqb_neq in Ec.
    destruct (Nat.leb s (c - 1)) eqn:El; [discriminate|]. apply Nat.leb_gt in El.
    intros H. injection H as <-. exists c, s, (c - 1). repeat split; try assumption. left. repeat split; lia.
  - apply Nat.eqb_neq in Ep.
    destruct (Nat.leb s (c + 1)) eqn:El; [discriminate|]. apply Nat.leb_gt in El.
    intros H. injection H as <-. exists c, s, (c + 1). repeat split; try assumption. right. split; [exact Ep | reflexivity].
Qed.

(* the iterator yields no cell twice, in every dimension *)
Theorem grid_neighbors_nodup_generic dims v :
  sides_pos dims -> v < grid_len dims -> NoDup (grid_neighbors dims v).
Proof.
  intros Hpos Hv. unfold grid_neighbors. cbv zeta.
  destruct (grid_index_bij_generic dims Hpos) as [F G]. destruct (F v Hv) as [_ Hb].
  set (pos := position_of dims v) in *.
  apply NoDup_somes_map; [|apply seq_NoDup].
  intros i j u _ _ Hi Hj.
  destruct (neighbor_step_inv _ _ _ _ Hi) as (ci & si & ci' & Hci & Hsi & Hlti & Eui & Hdi).
  destruct (neighbor_step_inv _ _ _ _ Hj) as (cj & sj & cj' & Hcj & Hsj & Hltj & Euj & Hdj).
  assert (Hbi : in_box_gen dims (set_nth pos (i / 2) ci')) by (eapply in_box_gen_set_nth; eassumption).
  assert (Hbj : in_box_gen dims (set_nth pos (j / 2) cj')) by (eapply in_box_gen_set_nth; eassumption).
  assert (E : set_nth pos (i / 2) ci' = set_nth pos (j / 2) cj').
  { destruct (G _ Hbi) as [_ Ei]. destruct (G _ Hbj) as [_ Ej]. rewrite <- Ei, <- Ej, <- Eui, <- Euj. reflexivity. }
  pose proof (nth_opt_Some _ _ _ Hci) as Hai.
  assert (Hn : nth_opt (set_nth pos (i / 2) ci') (i / 2) = Some ci') by (apply nth_opt_set_nth_same; exact Hai).
  pose proof (Nat.div_mod_eq i 2) as Hdmi. pose proof (Nat.div_mod_eq j 2) as Hdmj.
  assert (i mod 2 < 2) by (apply Nat.mod_upper_bound; lia).
  assert (j mod 2 < 2) by (apply Nat.mod_upper_bound; lia).
  destruct (Nat.eq_dec (i / 2) (j / 2)) as [Ea|Na].
  - rewrite E, <- Ea, nth_opt_set_nth_same in Hn by exact Hai. injection Hn as Hn.
    rewrite <- Ea, Hci in Hcj. injection Hcj as <-. lia.
  - rewrite E, nth_opt_set_nth_other, Hci in Hn by (intros X; apply Na; symmetry; exact X).
    injection Hn as Hn. lia.
Qed.

(* [adjacent_pos] (the relation the lattice cut is defined with) = one step along one axis *)
Lemma adjacent_pos_iff p : forall q,
  adjacent_pos p q = true
  <-> exists a c c', nth_opt p a = Some c /\ (c + 1 = c' \/ c' + 1 = c) /\ q = set_nth p a c'.
Proof.
  induction p as [|x p' IH]; intros q.
  - cbn [adjacent_pos]. split; [discriminate|]. intros (a & c & c' & H & _). destruct a; discriminate H.
  - destruct q as [|y q'].
    + cbn [adjacent_pos]. split; [discriminate|]. intros (a & c & c' & _ & _ & H). destruct a; discriminate H.
    + cbn [adjacent_pos]. rewrite orb_true_iff, !andb_true_iff, orb_true_iff, !Nat.eqb_eq, list_eqb_nat_eq, IH. split.
      * intros [(-> & a & c & c' & Hc & Hd & ->) | (Hd & ->)].
        -- exists (S a), c, c'. cbn [nth_opt set_nth]. repeat split; assumption.
        -- exists 0, x, y. cbn [nth_opt set_nth]. repeat split; assumption.
      * intros (a & c & c' & Hc & Hd & E). destruct a as [|a]; cbn [nth_opt set_nth] in *.
        -- injection Hc as ->. injection E as -> ->. right. split; [exact Hd | reflexivity].
        -- injection E as -> ->. left. split; [reflexivity|]. exists a, c, c'. repeat split; assumption.
Qed.

(* the form of the 2D / 3D theorems, for every D *)
Theorem grid_neighbors_adjacent_pos_generic dims v u :
  sides_pos dims -> v < grid_len dims ->
  (In u (grid_neighbors dims v)
   <-> u < grid_len dims /\ adjacent_pos (position_of dims v) (position_of dims u) = true).
Proof.
  intros Hpos Hv. split.
  - intros Hin.
    destruct (grid_neighbors_are_adjacent_cells dims v u Hpos Hv Hin) as (Hu & a & c' & (c & s & Hc & Hs & Hstep) & E).
    split; [exact Hu|]. apply adjacent_pos_iff. exists a, c, c'. split; [exact Hc|]. split; [|exact E].
    destruct Hstep as [(H0 & -> & _) | (-> & _)]; lia.
  - intros (Hu & Hadj). apply adjacent_pos_iff in Hadj. destruct Hadj as (a & c & c' & Hc & Hd & E).
    destruct (grid_index_bij_generic dims Hpos) as [F _].
    destruct (F v Hv) as [_ Hbv]. destruct (F u Hu) as [_ Hbu].
    pose proof (nth_opt_Some _ _ _ Hc) as Ha.
    destruct (nth_opt_lt dims a) as [s Hs]; [rewrite <- (in_box_gen_length _ _ Hbv); exact Ha|].
    assert (Hc' : nth_opt (position_of dims u) a = Some c') by (rewrite E; apply nth_opt_set_nth_same; exact Ha).
    pose proof (in_box_gen_nth dims _ a c' s Hbu Hc' Hs) as Hlt.
    apply (grid_adjacent_cells_are_neighbors dims v u a c' Hpos Hv Hu); [|exact E].
    exists c, s. split; [exact Hc|]. split; [exact Hs|].
    destruct Hd as [Hd|Hd]; [right | left]; repeat split; lia.
Qed.

(* hence, for every D: the Grid's edge cut is the lattice cut, its lambda cut the definition *)
Theorem grid_cut_is_lattice_cut_generic dims p :
  sides_pos dims -> grid_len dims <= length p ->
  grid_edge_cut dims p = Ok (lattice_cut dims p).
Proof.
  intros Hpos. apply grid_cut_lattice.
  - intros v u Hv. apply grid_neighbors_adjacent_pos_generic; assumption.
  - intros v Hv. apply grid_neighbors_nodup_generic; assumption.
Qed.

Theorem grid_lambda_def_generic dims p ws k :
  sides_pos dims -> grid_len dims <= length p -> length ws = grid_len dims ->
  Forall (fun q => q < k) p ->
  grid_lambda_cut dims p ws = Ok (lambda_def k (grid_rows dims) p ws).
Proof.
  intros Hpos Hp Hws Hk. unfold grid_lambda_cut. apply lambda_cut_def; try assumption.
  - apply grid_wf. intros v u Hv. apply grid_neighbors_adjacent_pos_generic; assumption.
  - rewrite grid_rows_length. exact Hp.
  - rewrite grid_rows_length. exact Hws.
Qed.

Lemma somes_length {A} (l : list (option A)) : length (somes l) <= length l.
Proof. induction l as [|[x|] t IH]; cbn [somes length]; lia. Qed.

(* a cell has at most two neighbours per axis, whatever the input *)
Theorem grid_degree_bound dims v : length (grid_neighbors dims v) <= 2 * length dims.
Proof.
  unfold grid_neighbors. cbv zeta.
  eapply Nat.le_trans; [apply somes_length|]. rewrite map_length, seq_length. lia.
Qed.

Example grid_neighbors_generic_nonvacuous :
  grid_neighbors [2; 3; 4; 5] 77 = [76; 75; 83; 53; 101]
  /\ map (position_of [2; 3; 4; 5]) [76; 75; 83; 53; 101]
     = [[0; 2; 0; 3]; [1; 1; 0; 3]; [1; 2; 1; 3]; [1; 2; 0; 2]; [1; 2; 0; 4]].
Proof. vm_compute. split; reflexivity. Qed.

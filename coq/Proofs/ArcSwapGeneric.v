(* ArcSwap: the theorems that do not depend on the weight arithmetic, for ANY instance [W : wops]
   (i64: wops_Z; f64: wops_f64 of Model/ArcSwapF64.v): mutual exclusion, gain exactness, accounting,
   valid ids, move_count, no panic / no deadlock, termination, completion, and "an accepted trace
   is a schedule".  The proofs are those of Proofs/ArcSwapSafe.v over the generic lemmas; edge
   weights, gains and the cut are i64 whatever the vertex-weight type is, so the accounting is
   exact for every vertex-weight type. *)
From Coupe Require Import Lib.Prelude Model.ArcSwap Proofs.ArcSwapCut Proofs.ArcSwapProto
  Proofs.ArcSwapAcct Proofs.ArcSwapProgress Proofs.ArcSwapTerm Proofs.ArcSwapTrace Proofs.ArcSwapSafe.
Open Scope Z_scope.

Section WithW.
Context {W : wops}.

Section SafeW.
Variable cf : config.
Let g := cf_g cf.
Let k := cf_k cf.
Let vw := cf_vw cf.
Variable p0 : list nat.
Hypothesis Hg : graph_ok g.
Hypothesis len_p0 : length p0 = length g.
Hypothesis ids_p0 : Forall (fun x => (x < k)%nat) p0.

Lemma reach_ginv_w st0 sch st : init_state cf p0 = Some st0 -> run cf st0 sch = Some st -> ginv cf p0 st.
Proof.
  destruct Hg as [H1 H2 H3]. intros Hi Hr.
  eapply run_ginv; eauto. eapply init_ginv; eauto.
Qed.

Lemma ginv_mutex_w st : ginv cf p0 st -> no_adjacent_critical g st.
Proof.
  intros Hinv t t' w w' v u Hne Hw Hw' Hc Hc' Hadj.
  apply critical_phase in Hc, Hc'.
  exact (proto_mutex g (go_nbrs _ Hg) _ _ t t' w w' v u (gi_proto _ _ _ Hinv) Hw Hw' Hne Hc Hc' Hadj).
Qed.

(* stage 1 *)
Theorem arcswap_mutex_w st0 sch st :
  init_state cf p0 = Some st0 -> run cf st0 sch = Some st -> no_adjacent_critical g st.
Proof. intros Hi Hr. apply ginv_mutex_w. eapply reach_ginv_w; eauto. Qed.

(* stage 1: the gain about to be applied is the cut delta of the store, and is positive *)
Theorem arcswap_gain_exact_w st0 sch st t w v ip tg gn :
  init_state cf p0 = Some st0 -> run cf st0 sch = Some st ->
  nth_opt (g_ws st) t = Some w -> w_pc w = PStore v ip tg gn ->
  cut g (set_nth (g_part st) v tg) = cut g (g_part st) - gn /\ 0 < gn /\ pid (g_part st) v = ip /\ tg <> ip.
Proof.
  intros Hi Hr Hw Hpc. pose proof (reach_ginv_w _ _ _ Hi Hr) as Hinv.
  pose proof (gi_gain _ _ _ Hinv _ _ Hw) as Hgw. unfold gain_ok in Hgw. rewrite Hpc in Hgw.
  destruct Hgw as (Hip & Hvl & Htg & Htk & Hgn & Hpos).
  assert (Hcrit : wphase w = PhCrit v) by (unfold wphase; now rewrite Hpc).
  assert (Hv : (v < length g)%nat) by (unfold g; rewrite <- (gi_len _ _ _ Hinv); exact Hvl).
  repeat split; auto.
  rewrite (cut_store g (go_wt _ Hg) (go_range _ Hg) (g_part st) v tg Hvl Hv
             (proto_no_self_loop g _ _ t w v (gi_proto _ _ _ Hinv) Hw Hcrit)) by congruence.
  rewrite Hip. fold g in Hgn. rewrite <- Hgn. reflexivity.
Qed.

(* stage 2 *)
Theorem arcswap_accounting_w st0 sch st :
  init_state cf p0 = Some st0 -> run cf st0 sch = Some st ->
  cut g p0 - cut g (g_part st) = total_gain st /\ 0 <= total_gain st
  /\ length (g_part st) = length p0 /\ Forall (fun x => (x < k)%nat) (g_part st)
  /\ relabelled p0 (g_part st) <= total_moves st.
Proof.
  intros Hi Hr. destruct (reach_ginv_w _ _ _ Hi Hr) as [_ _ Hlen Hids Hacct [Hp1 Hp2] Hmoves].
  unfold total_gain, total_moves. repeat split; auto.
  - pose proof (sum_gain_nonneg _ Hp2). unfold sum_gain in *. change wgain with (fun w => md_gain (w_md w)) in *. lia.
  - rewrite Hlen. symmetry. exact len_p0.
Qed.

(* stage 3 *)
End SafeW.

Lemma replay_run_w cf tr : forall st st', replay cf st tr = Some st' -> run cf st (map e_task tr) = Some st'.
Proof.
  induction tr as [|e tr IH]; intros st st' H; cbn [replay map run] in *; [exact H|].
  destruct (nth_opt (g_ws st) (e_task e)); [|discriminate].
  destruct (next_access _ _ _) as [[[ka i] v]|]; [|discriminate].
  destruct (_ && _); [|discriminate].
  destruct (step cf st (e_task e)); [|discriminate]. auto.
Qed.

(* ------------------------------------------------- the certified checker *)

Definition active_w (w : worker) : bool := match w_pc w with PDone => false | _ => true end.
Fixpoint pick_from_w (ws : list worker) (n : nat) (cands : list nat) : option nat :=
  match cands with
  | [] => None
  | t :: r => match nth_opt ws t with
              | Some w => if active_w w then Some t else pick_from_w ws n r
              | None => pick_from_w ws n r
              end
  end.
(* round-robin over the active workers, starting after [last] *)
Fixpoint drive_w (cf : config) (fuel : nat) (last : nat) (st : gstate) (acc : list nat) : list nat * gstate :=
  match fuel with
  | O => (rev acc, st)
  | S f =>
    if g_fin st then (rev acc, st)
    else
      let tc := length (g_ws st) in
      match pick_from_w (g_ws st) tc (map (fun i => Nat.modulo (last + 1 + i) tc) (seq 0 tc)) with
      | None => (rev acc, st)
      | Some t => match step cf st t with
                  | Some st' => drive_w cf f t st' (t :: acc)
                  | None => (rev acc, st)
                  end
      end
  end.

(* --------------------------------------------- no panic, no deadlock *)

(* the side conditions on a configuration under which the machine cannot panic *)
Theorem arcswap_no_panic_w cf p0 : config_wf cf ->
  length p0 = length (cf_g cf) -> Forall (fun x => (x < cf_k cf)%nat) p0 ->
  init_state cf p0 <> None /\
  forall st0 sch st, init_state cf p0 = Some st0 -> run cf st0 sch = Some st -> g_fin st = false ->
    (forall t w, nth_opt (g_ws st) t = Some w -> w_pc w <> PDone -> step cf st t <> None)
    /\ exists t st', step cf st t = Some st'.
Proof.
  intros [H1 H2 H3 H4 H5 H6] Hl Hids. split.
  - unfold init_state. pose proof (thread_max_total cf H6 (wloads (cf_vw cf) p0 (cf_k cf))) as Ht.
    destruct (thread_max cf _); [discriminate|congruence].
  - intros st0 sch st Hi Hr Hnf.
    assert (Hp : pinv cf st).
    { eapply run_pinv; [.. | exact Hr]; eauto. eapply init_pinv; eauto. }
    split.
    + intros t w Hw Hnd. eapply step_no_panic; eauto.
    + eapply step_no_deadlock; eauto.
Qed.

Lemma acc_no_infinite_run_w cf st : Acc (step_rel cf) st ->
  forall f : nat -> nat, exists m, run cf st (map f (seq 0 m)) = None.
Proof.
  induction 1 as [st _ IH]. intros f.
  destruct (step cf st (f O)) as [st'|] eqn:Hs.
  - destruct (IH st' (ex_intro _ (f O) Hs) (fun i => f (S i))) as [m Hm].
    exists (S m). cbn [seq map run]. rewrite Hs, <- seq_shift, map_map. exact Hm.
  - exists 1%nat. cbn [seq map run]. now rewrite Hs.
Qed.

Theorem arcswap_terminates_w cf p0 : graph_ok (cf_g cf) -> length p0 = length (cf_g cf) ->
  Forall (fun x => (x < cf_k cf)%nat) p0 ->
  forall st0 sch st, init_state cf p0 = Some st0 -> run cf st0 sch = Some st ->
  Acc (step_rel cf) st /\ forall f : nat -> nat, exists m, run cf st (map f (seq 0 m)) = None.
Proof.
  intros Hg Hl Hids st0 sch st Hi Hr.
  pose proof (reach_ginv_w cf p0 Hg Hl Hids st0 sch st Hi Hr) as Hinv.
  destruct Hg as [H1 H2 H3].
  assert (A : Acc (step_rel cf) st) by (eapply ginv_acc; eauto).
  split; [exact A|]. now apply acc_no_infinite_run_w.
Qed.

(* with the side conditions of [config_wf]: from every reachable state the run can be completed,
   and every way of continuing it (always choosing a worker that is not done) ends with the outer
   loop exited *)
Theorem arcswap_completes_w cf p0 : graph_ok (cf_g cf) -> config_wf cf -> length p0 = length (cf_g cf) ->
  Forall (fun x => (x < cf_k cf)%nat) p0 ->
  forall st0 sch st, init_state cf p0 = Some st0 -> run cf st0 sch = Some st ->
  exists sch' st', run cf st sch' = Some st' /\ g_fin st' = true.
Proof.
  intros Hg Hwf Hl Hids st0 sch st Hi Hr.
  destruct (arcswap_terminates_w cf p0 Hg Hl Hids st0 sch st Hi Hr) as [A _].
  revert sch Hr. induction A as [st _ IH]. intros sch Hr.
  destruct (g_fin st) eqn:Hf.
  - exists [], st. split; [reflexivity|exact Hf].
  - destruct (arcswap_no_panic_w cf p0 Hwf Hl Hids) as [_ Hnp].
    destruct (Hnp st0 sch st Hi Hr Hf) as [_ (t & st1 & Hs)].
    assert (Hr1 : run cf st0 (sch ++ [t]) = Some st1).
    { clear - Hr Hs. revert st0 Hr. induction sch as [|a sch IHs]; intros st0 Hr; cbn [run app] in *.
      - injection Hr as ->. now rewrite Hs.
      - destruct (step cf st0 a); [|discriminate]. auto. }
    destruct (IH st1 (ex_intro _ t Hs) _ Hr1) as (sch' & st' & Hr' & Hf').
    exists (t :: sch'), st'. split; [|exact Hf']. cbn [run]. now rewrite Hs.
Qed.


End WithW.

(* The edge-cut_fn lemma behind ArcSwap's accounting (shared shape with FM / KL):
   moving one vertex changes the cut_fn by exactly minus its gain_fn (k-way).
   First part: abstract form over a symmetric weight function (ported from
   design-probes/CutMove.v).  Second part: the link with the list-based
   definitions of Model/ArcSwap.v ([cut] = Topology::edge_cut, [row_gain] =
   the sum ArcSwap computes from a vertex's adjacency row). *)
From Coupe Require Import Lib.Prelude Model.ArcSwap.
Open Scope Z_scope.

Section Cut.
Variable wt : nat -> nat -> Z.                 (* total weight of the edges between two vertices *)
Hypothesis wt_sym : forall u v, wt u v = wt v u.

Definition part := nat -> nat.
Definition upd (p : part) (x b : nat) : part := fun v => if Nat.eqb v x then b else p v.

Fixpoint sumn (n : nat) (f : nat -> Z) : Z :=
  match n with O => 0 | S m => sumn m f + f m end.

(* contribution of the pair (u,v) *)
Definition cross (p : part) (u v : nat) : Z := if Nat.eqb (p u) (p v) then 0 else wt v u.

(* Topology::edge_cut: sum over v of the neighbours u < v in another part *)
Fixpoint cut_fn (n : nat) (p : part) : Z :=
  match n with O => 0 | S m => cut_fn m p + sumn m (fun u => cross p u m) end.

(* gain_fn of moving x to part b, as ArcSwap / FM compute it from x's adjacency row, restricted to u < n *)
Definition gterm (p : part) (x b u : nat) : Z :=
  if Nat.eqb u x then 0
  else if Nat.eqb (p u) (p x) then - wt x u
  else if Nat.eqb (p u) b then wt x u else 0.
Definition gain_fn (n : nat) (p : part) (x b : nat) : Z := sumn n (gterm p x b).

Lemma sumn_ext n f g : (forall i, (i < n)%nat -> f i = g i) -> sumn n f = sumn n g.
Proof. induction n as [|m IH]; cbn; intros H; auto. rewrite IH, H; auto. Qed.

Lemma sumn_sub n f g : sumn n f - sumn n g = sumn n (fun i => f i - g i).
Proof. induction n as [|m IH]; cbn; lia. Qed.

(* a sum whose terms vanish except possibly at x *)
Lemma sumn_single n f x : (forall i, (i < n)%nat -> i <> x -> f i = 0) ->
  sumn n f = if Nat.ltb x n then f x else 0.
Proof.
  induction n as [|m IH]; cbn [sumn]; intros H.
  - destruct (Nat.ltb_spec x 0); [lia|reflexivity].
  - rewrite IH by (intros; apply H; lia).
    destruct (Nat.ltb_spec x m) as [L1|L1]; destruct (Nat.ltb_spec x (S m)) as [L2|L2]; try lia.
    + rewrite (H m) by lia. lia.
    + assert (x = m) by lia. subst. lia.
    + rewrite (H m) by lia. lia.
Qed.

Lemma upd_same p x b : upd p x b x = b.
Proof. unfold upd. now rewrite Nat.eqb_refl. Qed.
Lemma upd_other p x b v : v <> x -> upd p x b v = p v.
Proof. unfold upd. intros H. apply Nat.eqb_neq in H. now rewrite H. Qed.

Lemma cross_other p x b u v : u <> x -> v <> x -> cross (upd p x b) u v = cross p u v.
Proof. intros; unfold cross; now rewrite !upd_other. Qed.

Lemma cut_untouched : forall n p x b, (n <= x)%nat -> cut_fn n (upd p x b) = cut_fn n p.
Proof.
  induction n as [|m IH]; intros p x b H; [reflexivity|].
  cbn [cut_fn]. rewrite IH by lia. f_equal.
  apply sumn_ext; intros u Hu. apply cross_other; lia.
Qed.

(* the row of the moved vertex: every term may change *)
Lemma row_moved p x b : p x <> b ->
  sumn x (fun u => cross (upd p x b) u x) = sumn x (fun u => cross p u x) - sumn x (gterm p x b).
Proof.
  intros Hb. rewrite sumn_sub. apply sumn_ext; intros u Hu.
  unfold cross, gterm. rewrite upd_same, upd_other by lia.
  replace (Nat.eqb u x) with false by (symmetry; apply Nat.eqb_neq; lia).
  destruct (Nat.eqb_spec (p u) (p x)) as [E|E].
  - rewrite E. destruct (Nat.eqb_spec (p x) b); [contradiction|]. lia.
  - destruct (Nat.eqb_spec (p u) b); lia.
Qed.

(* the row of another vertex m > x: only the term u = x changes *)
Lemma row_other p x b m : (x < m)%nat -> p x <> b ->
  sumn m (fun u => cross (upd p x b) u m) = sumn m (fun u => cross p u m) - gterm p x b m.
Proof.
  intros Hx Hb.
  assert (E : sumn m (fun u => cross (upd p x b) u m) - sumn m (fun u => cross p u m) = - gterm p x b m).
  { rewrite sumn_sub. rewrite (sumn_single _ _ x).
    - replace (Nat.ltb x m) with true by (symmetry; apply Nat.ltb_lt; lia).
      unfold cross, gterm. rewrite upd_same, upd_other by lia.
      replace (Nat.eqb m x) with false by (symmetry; apply Nat.eqb_neq; lia).
      rewrite (wt_sym m x).
      destruct (Nat.eqb_spec (p m) (p x)) as [E|E].
      + rewrite <- E. rewrite Nat.eqb_refl.
        destruct (Nat.eqb_spec b (p m)); [congruence|]. lia.
      + destruct (Nat.eqb_spec (p x) (p m)); [congruence|].
        destruct (Nat.eqb_spec b (p m)), (Nat.eqb_spec (p m) b); try congruence; lia.
    - intros i Hi Hne. rewrite cross_other by lia. lia. }
  lia.
Qed.

Theorem cut_move : forall n p x b, (x < n)%nat -> p x <> b ->
  cut_fn n (upd p x b) = cut_fn n p - gain_fn n p x b.
Proof.
  induction n as [|m IH]; intros p x b Hx Hb; [lia|].
  cbn [cut_fn]. unfold gain_fn. cbn [sumn]. fold (gain_fn m p x b).
  destruct (Nat.eq_dec x m) as [->|Hne].
  - rewrite cut_untouched by lia. rewrite row_moved by assumption.
    unfold gain_fn. replace (gterm p m b m) with 0 by (unfold gterm; now rewrite Nat.eqb_refl). lia.
  - rewrite IH by (try assumption; lia). rewrite row_other by (try assumption; lia). lia.
Qed.

(* two-way corollary (FM, KL): flipping x changes the cut_fn by minus the FM gain_fn *)
Definition flip (p : part) (x : nat) : part := upd p x (1 - p x)%nat.
Corollary cut_flip n p x : (x < n)%nat -> (p x <= 1)%nat ->
  cut_fn n (flip p x) = cut_fn n p - gain_fn n p x (1 - p x)%nat.
Proof. intros Hx Hp. apply cut_move; auto. lia. Qed.
End Cut.

(* ------------------------------------------------------------------------ *)
(* Link with the list-based definitions of Model/ArcSwap.v                   *)
(* ------------------------------------------------------------------------ *)

(* the sum ArcSwap computes from the adjacency row of a vertex in part [ip] for target [tg] *)
Definition row_gain (p : list nat) (ip tg : nat) (r : list (nat * Z)) : Z :=
  sumZ (map (fun e => gain_term ip tg (pid p (fst e)) (snd e)) r).

Definition wtr (r : list (nat * Z)) (u : nat) : Z :=
  sumZ (map (fun e => if Nat.eqb (fst e) u then snd e else 0) r).

Lemma wt_wtr g v u : wt g v u = wtr (row g v) u.
Proof. reflexivity. Qed.

Lemma sumn_add n f h : sumn n (fun i => f i + h i) = sumn n f + sumn n h.
Proof. induction n as [|m IH]; cbn [sumn]; [reflexivity|]. rewrite IH. lia. Qed.

Lemma sumn_trunc n m f : (m <= n)%nat -> (forall u, (m <= u < n)%nat -> f u = 0) -> sumn n f = sumn m f.
Proof.
  induction n as [|k IH]; intros Hm Hz.
  - replace m with O by lia. reflexivity.
  - destruct (Nat.eq_dec m (S k)) as [->|Hne]; [reflexivity|].
    cbn [sumn]. rewrite IH by (try lia; intros; apply Hz; lia). rewrite (Hz k) by lia. lia.
Qed.

Lemma sumZ_seq_sumn f n : sumZ (map f (seq 0 n)) = sumn n f.
Proof.
  induction n as [|m IH]; [reflexivity|].
  rewrite seq_S, map_app, sumZ_app, IH. cbn. lia.
Qed.

Lemma wtr_notin r u : ~ In u (map fst r) -> wtr r u = 0.
Proof.
  unfold wtr. induction r as [|e r IH]; cbn [map sumZ fold_right In]; intros H; [reflexivity|].
  fold (sumZ (map (fun e0 => if Nat.eqb (fst e0) u then snd e0 else 0) r)).
  rewrite IH by tauto. destruct (Nat.eqb_spec (fst e) u); [exfalso; apply H; auto|lia].
Qed.

(* grouping the entries of a row by neighbour *)
Lemma sum_group (c : nat -> Z) r n : (forall e, In e r -> (fst e < n)%nat) ->
  sumZ (map (fun e => c (fst e) * snd e) r) = sumn n (fun u => c u * wtr r u).
Proof.
  induction r as [|e r IH]; intros Hr.
  - unfold wtr; cbn. clear Hr. induction n as [|m IHm]; cbn [sumn]; [reflexivity|]. rewrite <- IHm. lia.
  - cbn [map]. change (sumZ (?a :: ?l)) with (a + sumZ l). rewrite IH by (intros; apply Hr; right; assumption).
    transitivity (sumn n (fun u => (if Nat.eqb u (fst e) then c u * snd e else 0) + c u * wtr r u)).
    + rewrite sumn_add. f_equal. rewrite (sumn_single _ _ (fst e)).
      * assert (L : (fst e < n)%nat) by (apply Hr; left; reflexivity).
        apply Nat.ltb_lt in L. rewrite L. now rewrite Nat.eqb_refl.
      * intros i _ Hi. apply Nat.eqb_neq in Hi. now rewrite Hi.
    + apply sumn_ext. intros i _. unfold wtr. cbn [map]. change (sumZ (?a :: ?l)) with (a + sumZ l).
      rewrite (Nat.eqb_sym (fst e) i). destruct (Nat.eqb i (fst e)); lia.
Qed.

Lemma cut_fn_ext wt n p q : (forall i, (i < n)%nat -> p i = q i) -> cut_fn wt n p = cut_fn wt n q.
Proof.
  induction n as [|m IH]; intros H; [reflexivity|].
  cbn [cut_fn]. rewrite IH by (intros; apply H; lia). f_equal.
  apply sumn_ext. intros u Hu. unfold cross. rewrite !H by lia. reflexivity.
Qed.

Lemma pid_set_nth p v x i : (v < length p)%nat -> pid (set_nth p v x) i = upd (pid p) v x i.
Proof.
  unfold pid, upd. revert v i. induction p as [|y p IH]; intros v i Hv; [cbn in Hv; lia|].
  destruct v as [|v], i as [|i]; cbn [set_nth nth Nat.eqb]; try reflexivity.
  apply IH. cbn in Hv. lia.
Qed.

Section ListCut.
Variable g : graph.
Hypothesis wt_sym : forall a b, wt g a b = wt g b a.
Hypothesis in_range : forall a u, In u (nbrs g a) -> (u < length g)%nat.

Lemma row_in_range a e : In e (row g a) -> (fst e < length g)%nat.
Proof. intros H. apply (in_range a). unfold nbrs. now apply in_map. Qed.

Lemma cut_row_sumn p m : (m <= length g)%nat ->
  cut_row p m (row g m) = sumn m (fun u => cross (wt g) (pid p) u m).
Proof.
  intros Hm. unfold cut_row.
  set (c := fun u => if Nat.ltb u m && negb (Nat.eqb (pid p u) (pid p m)) then 1 else 0).
  transitivity (sumZ (map (fun e => c (fst e) * snd e) (row g m))).
  { f_equal. apply map_ext. intros e. unfold c. destruct (_ && _); lia. }
  rewrite (sum_group c _ (length g)) by apply row_in_range.
  rewrite (sumn_trunc _ m);
    [ | assumption | intros u Hu; unfold c; destruct (Nat.ltb_spec u m); [lia|cbn [andb]; lia] ].
  apply sumn_ext. intros u Hu. unfold c, cross. rewrite <- wt_wtr.
  apply Nat.ltb_lt in Hu. rewrite Hu. cbn [andb].
  destruct (Nat.eqb (pid p u) (pid p m)); cbn [negb]; lia.
Qed.

Lemma cut_is_cut_fn p : cut g p = cut_fn (wt g) (length g) (pid p).
Proof.
  unfold cut.
  assert (H : forall m, (m <= length g)%nat ->
     sumZ (map (fun v => cut_row p v (row g v)) (seq 0 m)) = cut_fn (wt g) m (pid p)).
  { induction m as [|m IH]; intros Hm; [reflexivity|].
    rewrite seq_S, map_app, sumZ_app, IH by lia. cbn [cut_fn Nat.add map].
    rewrite cut_row_sumn by lia. cbn. lia. }
  apply H. lia.
Qed.

Lemma row_gain_is_gain_fn p v tg : ~ In v (nbrs g v) ->
  row_gain p (pid p v) tg (row g v) = gain_fn (wt g) (length g) (pid p) v tg.
Proof.
  intros Hself. unfold row_gain, gain_fn.
  set (c := fun u => if Nat.eqb (pid p u) (pid p v) then -1 else if Nat.eqb (pid p u) tg then 1 else 0).
  transitivity (sumZ (map (fun e => c (fst e) * snd e) (row g v))).
  { f_equal. apply map_ext. intros e. unfold c, gain_term.
    destruct (Nat.eqb _ _); [lia|]. destruct (Nat.eqb _ _); lia. }
  rewrite (sum_group c _ (length g)) by apply row_in_range.
  apply sumn_ext. intros u Hu. unfold gterm, c. rewrite <- wt_wtr.
  destruct (Nat.eqb_spec u v) as [->|Hne].
  - rewrite wt_wtr, wtr_notin by exact Hself. lia.
  - destruct (Nat.eqb _ _); [lia|]. destruct (Nat.eqb _ _); lia.
Qed.

(* storing part [tg] at vertex [v] lowers the edge cut by the gain read from v's row *)
Theorem cut_store p v tg :
  (v < length p)%nat -> (v < length g)%nat -> ~ In v (nbrs g v) -> pid p v <> tg ->
  cut g (set_nth p v tg) = cut g p - row_gain p (pid p v) tg (row g v).
Proof.
  intros Hvp Hvg Hself Hne.
  rewrite !cut_is_cut_fn.
  rewrite (cut_fn_ext _ _ _ (upd (pid p) v tg)) by (intros; apply pid_set_nth; assumption).
  rewrite cut_move by (try exact wt_sym; assumption).
  now rewrite row_gain_is_gain_fn.
Qed.
End ListCut.

(* The edge-cut_fn lemma behind ArcSwap's accounting (shared shape with FM / KL):
   moving one vertex changes the cut_fn by exactly minus its gain_fn (k-way).
   First part: abstract form over a symmetric weight function (ported from
   design-probes/CutMove.v).  Second part: the link with the list-based
   definitions of Model/ArcSwap.v ([cut] = Topology::edge_cut, [row_gain] =
   the sum ArcSwap computes from a vertex's adjacency row). *)
From Coupe Require Import Lib.Prelude Model.ArcSwap.
Open Scope Z_scope.

Section Cut.
Variable wt : nat -> nat -> Z.                 (* total weight of the edges between two vertices *)
Hypothesis wt_sym : forall u v, wt u v = wt v u.

Definition part := nat -> nat.
Definition upd (p : part) (x b : nat) : part := fun v => if Nat.eqb v x then b else p v.

Fixpoint sumn (n : nat) (f : nat -> Z) : Z :=
  match n with O => 0 | S m => sumn m f + f m end.

(* contribution of the pair (u,v) *)
Definition cross (p : part) (u v : nat) : Z := if Nat.eqb (p u) (p v) then 0 else wt v u.

(* Topology::edge_cut: sum over v of the neighbours u < v in another part *)
Fixpoint cut_fn (n : nat) (p : part) : Z :=
  match n with O => 0 | S m => cut_fn m p + sumn m (fun u => cross p u m) end.

(* gain_fn of moving x to part b, as ArcSwap / FM compute it from x's adjacency row, restricted to u < n *)
Definition gterm (p : part) (x b u : nat) : Z :=
  if Nat.eqb u x then 0
  else if Nat.eqb (p u) (p x) then - wt x u
  else if Nat.eqb (p u) b then wt x u else 0.
Definition gain_fn (n : nat) (p : part) (x b : nat) : Z := sumn n (gterm p x b).

Lemma sumn_ext n f g : (forall i, (i < n)%nat -> f i = g i) -> sumn n f = sumn n g.
Proof. induction n as [|m IH]; cbn; intros H; auto. rewrite IH, H; auto. Qed.

Lemma sumn_sub n f g : sumn n f - sumn n g = sumn n (fun i => f i - g i).
Proof. induction n as [|m IH]; cbn; lia. Qed.

(* a sum whose terms vanish except possibly at x *)
Lemma sumn_single n f x : (forall i, (i < n)%nat -> i <> x -> f i = 0) ->
  sumn n f = if Nat.ltb x n then f x else 0.
Proof.
  induction n as [|m IH]; cbn [sumn]; intros H.
  - destruct (Nat.ltb_spec x 0); [lia|reflexivity].
  - rewrite IH by (intros; apply H; lia).
    destruct (Nat.ltb_spec x m) as [L1|L1]; destruct (Nat.ltb_spec x (S m)) as [L2|L2]; try lia.
    + rewrite (H m) by lia. lia.
    + assert (x = m) by lia. subst. lia.
    + rewrite (H m) by lia. lia.
Qed.

Lemma upd_same p x b : upd p x b x = b.
Proof. unfold upd. now rewrite Nat.eqb_refl. Qed.
Lemma upd_other p x b v : v <> x -> upd p x b v = p v.
Proof. unfold upd. intros H. apply Nat.eqb_neq in H. now rewrite H. Qed.

Lemma cross_other p x b u v : u <> x -> v <> x -> cross (upd p x b) u v = cross p u v.
Proof. intros; unfold cross; now rewrite !upd_other. Qed.

Lemma cut_untouched : forall n p x b, (n <= x)%nat -> cut_fn n (upd p x b) = cut_fn n p.
Proof.
  induction n as [|m IH]; intros p x b H; [reflexivity|].
  cbn [cut_fn]. rewrite IH by lia. f_equal.
  apply sumn_ext; intros u Hu. apply cross_other; lia.
Qed.

(* the row of the moved vertex: every term may change *)
Lemma row_moved p x b : p x <> b ->
  sumn x (fun u => cross (upd p x b) u x) = sumn x (fun u => cross p u x) - sumn x (gterm p x b).
Proof.
  intros Hb. rewrite sumn_sub. apply sumn_ext; intros u Hu.
  unfold cross, gterm. rewrite upd_same, upd_other by lia.
  replace (Nat.eqb u x) with false by (symmetry; apply Nat.eqb_neq; lia).
  destruct (Nat.eqb_spec (p u) (p x)) as [E|E].
  - rewrite E. destruct (Nat.eqb_spec (p x) b); [contradiction|]. lia.
  - destruct (Nat.eqb_spec (p u) b); lia.
Qed.

(* the row of another vertex m > x: only the term u = x changes *)
Lemma row_other p x b m : (x < m)%nat -> p x <> b ->
  sumn m (fun u => cross (upd p x b) u m) = sumn m (fun u => cross p u m) - gterm p x b m.
Proof.
  intros Hx Hb.
  assert (E : sumn m (fun u => cross (upd p x b) u m) - sumn m (fun u => cross p u m) = - gterm p x b m).
  { rewrite sumn_sub. rewrite (sumn_single _ _ x).
    - replace (Nat.ltb x m) with true by (symmetry; apply Nat.ltb_lt; lia).
      unfold cross, gterm. rewrite upd_same, upd_other by lia.
      replace (Nat.eqb m x) with false by (symmetry; apply Nat.eqb_neq; lia).
      rewrite (wt_sym m x).
      destruct (Nat.eqb_spec (p m) (p x)) as [E|E].
      + rewrite <- E. rewrite Nat.eqb_refl.
        destruct (Nat.eqb_spec b (p m)); [congruence|]. lia.
      + destruct (Nat.eqb_spec (p x) (p m)); [congruence|].
        destruct (Nat.eqb_spec b (p m)), (Nat.eqb_spec (p m) b); try congruence; lia.
    - intros i Hi Hne. rewrite cross_other by lia. lia. }
  lia.
Qed.

Theorem cut_move : forall n p x b, (x < n)%nat -> p x <> b ->
  cut_fn n (upd p x b) = cut_fn n p - gain_fn n p x b.
Proof.
  induction n as [|m IH]; intros p x b Hx Hb; [lia|].
  cbn [cut_fn]. unfold gain_fn. cbn [sumn]. fold (gain_fn m p x b).
  destruct (Nat.eq_dec x m) as [->|Hne].
  - rewrite cut_untouched by lia. rewrite row_moved by assumption.
    unfold gain_fn. replace (gterm p m b m) with 0 by (unfold gterm; now rewrite Nat.eqb_refl). lia.
  - rewrite IH by (try assumption; lia). rewrite row_other by (try assumption; lia). lia.
Qed.

(* two-way corollary (FM, KL): flipping x changes the cut_fn by minus the FM gain_fn *)
Definition flip (p : part) (x : nat) : part := upd p x (1 - p x)%nat.
Corollary cut_flip n p x : (x < n)%nat -> (p x <= 1)%nat ->
  cut_fn n (flip p x) = cut_fn n p - gain_fn n p x (1 - p x)%nat.
Proof. intros Hx Hp. apply cut_move; auto. lia. Qed.
End Cut.

(* ArcSwap: the f64 per-thread share may be replaced by the exact quotient.
   For non-negative integer weights with |cap| + total weight < 2^53, the machine that computes
   `thread_max` with the IEEE expression of arc_swap ([headroom_f64]) and the machine that uses
   the exact integer quotient ([headroom_quot]) have the same initial state and the same [run] on
   every schedule: the only operands of the share are cap - (load of a part), the loads stay in
   [0, total weight] (they are the true loads, stage 3), and on such operands the two shares agree
   (Proofs/ArcSwapFloat.v, Flocq).  Every theorem about the exact machine therefore holds of the
   f64 machine, and the premise [hr_ok] of the caps theorem is discharged.
   Uses the real-number axioms of Coq's standard library through Proofs/ArcSwapFloat.v. *)
From Coupe Require Import Lib.Prelude Lib.SFloat Model.ArcSwap Proofs.ArcSwapCut Proofs.ArcSwapProto
  Proofs.ArcSwapAcct Proofs.ArcSwapCaps Proofs.ArcSwapSafe Proofs.ArcSwapFloat.
Open Scope Z_scope.

Definition with_hr (cf : config) (hr : Z -> nat -> option Z) : config :=
  mkCfg (cf_g cf) (cf_vw cf) (cf_k cf) (cf_ipt cf) (cf_tc cf) (cf_cap cf) hr.

Lemma wstep_with_hr cf hr tmax l p w : wstep (with_hr cf hr) tmax l p w = wstep cf tmax l p w.
Proof. reflexivity. Qed.
Lemma init_workers_with_hr cf hr pw : init_workers (with_hr cf hr) pw = init_workers cf pw.
Proof. reflexivity. Qed.

Lemma config_of_with_hr hr hr' g vw p0 T cap :
  config_of hr' g vw p0 T cap = with_hr (config_of hr g vw p0 T cap) hr'.
Proof. unfold config_of. destruct (work_share (length p0) T). reflexivity. Qed.

Lemma thread_max_ext cf hr' pw :
  Forall (fun x => hr' (cf_cap cf - x) (cf_tc cf) = cf_hr cf (cf_cap cf - x) (cf_tc cf)) pw ->
  thread_max (with_hr cf hr') pw = thread_max cf pw.
Proof.
  induction 1 as [|x pw Hx _ IH]; [reflexivity|].
  cbn [thread_max with_hr cf_hr cf_cap cf_tc w_sub w_add wops_Z]. rewrite Hx.
  change (thread_max (with_hr cf hr') pw) with (thread_max (with_hr cf hr') pw) in IH.
  cbn [with_hr] in IH. rewrite IH. reflexivity.
Qed.

Lemma Forall_of_nz (P : Z -> Prop) l k : length l = k -> (forall q, (q < k)%nat -> P (nz l q)) -> Forall P l.
Proof.
  revert k. induction l as [|x l IH]; intros k Hl H; [constructor|].
  destruct k as [|k]; [discriminate|]. constructor.
  - apply (H O). lia.
  - apply (IH k); [cbn in Hl; lia|]. intros q Hq. apply (H (S q)). lia.
Qed.

Lemma headroom_quot_ok cf : cf_hr cf = headroom_quot -> hr_ok cf.
Proof.
  intros E d h. rewrite E. unfold headroom_quot. intros [= <-].
  set (n := Z.of_nat (cf_tc cf)). assert (Hn : 0 <= n) by (unfold n; lia).
  destruct (Z.eq_dec n 0) as [E0|N0].
  - rewrite E0. replace (d ÷ 0) with 0 by (destruct d; reflexivity). split; intros; lia.
  - split.
    + intros Hd. split; [apply Z.quot_pos; lia|]. pose proof (Z.mul_quot_le d n Hd N0). lia.
    + intros Hd. pose proof (Z.mul_quot_ge d n Hd N0). nia.
Qed.

(* two share functions that agree on the operands that arise give the same machine *)
Section Agree.
Variable cf : config.
Variable hr' : Z -> nat -> option Z.
Variable slack : Z.
Let g := cf_g cf.
Let k := cf_k cf.
Let vw := cf_vw cf.
Let cf' := with_hr cf hr'.
Variable p0 : list nat.
Hypothesis Hg : graph_ok g.
Hypothesis len_p0 : length p0 = length g.
Hypothesis ids_p0 : Forall (fun x => (x < k)%nat) p0.
Hypothesis vw_nonneg : Forall (fun x => 0 <= x) vw.
Hypothesis slack_nonneg : 0 <= slack.
Hypothesis Hon : hr_ok_on cf slack.
Hypothesis agree : forall x, 0 <= x <= sumZ vw ->
  hr' (cf_cap cf - x) (cf_tc cf) = cf_hr cf (cf_cap cf - x) (cf_tc cf).

Lemma thread_max_loads part : thread_max cf' (loads vw part k) = thread_max cf (loads vw part k).
Proof.
  apply thread_max_ext. apply (Forall_of_nz _ _ k).
  - unfold loads. now rewrite map_length, seq_length.
  - intros q Hq. rewrite nz_loads by exact Hq. apply agree. now apply load_bounds.
Qed.

Lemma init_eq : init_state cf' p0 = init_state cf p0.
Proof.
  unfold init_state. rewrite !wloads_Z. change (cf_vw cf') with vw. change (cf_k cf') with k.
  change (cf_vw cf) with vw. change (cf_k cf) with k.
  rewrite (thread_max_loads p0). reflexivity.
Qed.

Lemma end_pass_eq st : g_fin st = false -> cinv cf slack p0 st -> end_pass cf' st = end_pass cf st.
Proof.
  intros Hnf Hc. unfold end_pass.
  change (cf_tc cf') with (cf_tc cf). change (cf_k cf') with (cf_k cf).
  destruct (merged_pw_loads cf slack p0 len_p0 st Hnf Hc) as [Lm Nm].
  set (pw' := pw_merge (cf_tc cf) (pw_sum (cf_k cf) (g_ws st)) (g_pw st)) in *.
  assert (E : thread_max cf' pw' = thread_max cf pw').
  { apply thread_max_ext. apply (Forall_of_nz _ _ (cf_k cf) Lm).
    intros q Hq. rewrite (Nm q Hq). apply agree. now apply load_bounds. }
  rewrite E. reflexivity.
Qed.

Lemma step_eq st t : ginv cf p0 st -> cinv cf slack p0 st -> step cf' st t = step cf st t.
Proof.
  intros Hgi Hci. unfold step.
  destruct (g_fin st) eqn:Hnf; [reflexivity|].
  destruct (nth_opt (g_ws st) t) as [w|] eqn:Hw; [|reflexivity].
  change (wstep cf' (g_tmax st) (g_locks st) (g_part st) w) with (wstep cf (g_tmax st) (g_locks st) (g_part st) w).
  destruct (wstep cf _ _ _ w) as [[[locks' part'] w']|] eqn:Hstep; [|reflexivity].
  destruct (all_done _); [|reflexivity].
  apply end_pass_eq; [reflexivity|].
  exact (wstep_cinv cf vw_nonneg slack p0 len_p0 _ _ _ _ _ _ Hnf Hci Hgi Hw Hstep).
Qed.

Lemma run_eq sch : forall st, ginv cf p0 st -> cinv cf slack p0 st -> run cf' st sch = run cf st sch.
Proof.
  induction sch as [|t sch IH]; intros st Hgi Hci; [reflexivity|].
  cbn [run]. rewrite (step_eq st t Hgi Hci).
  destruct (step cf st t) as [st1|] eqn:Hs; [|reflexivity].
  destruct Hg as [G1 G2 G3]. apply IH.
  - eapply step_ginv; eauto.
  - eapply (step_cinv cf vw_nonneg slack slack_nonneg Hon); eauto.
Qed.

Theorem share_agree_irrelevant :
  init_state cf' p0 = init_state cf p0 /\
  forall st0 sch, init_state cf p0 = Some st0 -> run cf' st0 sch = run cf st0 sch.
Proof.
  split; [exact init_eq|]. intros st0 sch Hi. destruct Hg as [G1 G2 G3]. apply run_eq.
  - eapply init_ginv; eauto.
  - eapply init_cinv; eauto.
Qed.
End Agree.

(* below 2^53: the f64 share against the exact quotient *)
Section Share.
Variable cf : config.
Variable p0 : list nat.
Hypothesis Hquot : cf_hr cf = headroom_quot.
Hypothesis Hg : graph_ok (cf_g cf).
Hypothesis len_p0 : length p0 = length (cf_g cf).
Hypothesis ids_p0 : Forall (fun x => (x < cf_k cf)%nat) p0.
Hypothesis vw_nonneg : Forall (fun x => 0 <= x) (cf_vw cf).
Hypothesis tc_range : 1 <= Z.of_nat (cf_tc cf) <= 2 ^ 53.
Hypothesis small : Z.abs (cf_cap cf) + sumZ (cf_vw cf) < 2 ^ 53.

Theorem f64_share_irrelevant :
  init_state (with_hr cf headroom_f64) p0 = init_state cf p0 /\
  forall st0 sch, init_state cf p0 = Some st0 -> run (with_hr cf headroom_f64) st0 sch = run cf st0 sch.
Proof.
  apply (share_agree_irrelevant cf headroom_f64 0 p0 Hg len_p0 ids_p0 vw_nonneg ltac:(lia)).
  - intros d h _ Hh. destruct (headroom_quot_ok cf Hquot d h Hh) as [A B]. split; [|exact B].
    intros Hd. destruct (A Hd). split; lia.
  - intros x Hx. rewrite Hquot. unfold headroom_quot. apply headroom_f64_exact; lia.
Qed.
End Share.

(* ------------- arc_swap's own configuration with the f64 share of the code ------------- *)

Lemma work_share_tc_le n T : (1 <= n)%nat -> (1 <= T)%nat -> (1 <= snd (work_share n T) <= n)%nat.
Proof.
  intros Hn HT. unfold work_share. cbn [snd].
  set (m := Nat.min n T). assert (Hm : (1 <= m <= n)%nat) by (unfold m; lia).
  set (ipt := Nat.div (n + m - 1) m).
  assert (Hipt : (1 <= ipt)%nat) by (unfold ipt; apply Nat.div_le_lower_bound; lia).
  split.
  - apply Nat.div_le_lower_bound; lia.
  - apply Nat.div_le_upper_bound; [lia|]. nia.
Qed.

Theorem arcswap_safe_f64 g vw p0 T cap st0 sch st :
  graph_ok g -> length p0 = length g -> Forall (fun x => 0 <= x) vw ->
  (1 <= length g)%nat -> (1 <= T)%nat -> Z.of_nat (length g) <= 2 ^ 53 ->
  Z.abs cap + sumZ vw < 2 ^ 53 ->
  let cf := config_of headroom_f64 g vw p0 T cap in
  init_state cf p0 = Some st0 -> run cf st0 sch = Some st ->
  no_adjacent_critical g st
  /\ cut g p0 - cut g (g_part st) = total_gain st /\ 0 <= total_gain st
  /\ (forall q, (q < part_count p0)%nat -> load vw (g_part st) q <= Z.max (load vw p0 q) cap)
  /\ length (g_part st) = length p0 /\ Forall (fun x => (x < part_count p0)%nat) (g_part st)
  /\ relabelled p0 (g_part st) <= total_moves st
  /\ (g_fin st = true -> total_gain st = md_gain (g_md st) /\ total_moves st = md_moves (g_md st)).
Proof.
  intros Hg Hl Hvw Hn HT Hnb Hsmall cf Hi Hr.
  set (cq := config_of headroom_quot g vw p0 T cap).
  assert (Ecf : cf = with_hr cq headroom_f64) by apply config_of_with_hr.
  destruct (config_of_fields headroom_quot g vw p0 T cap) as (E1 & E2 & E3 & E4 & E5). fold cq in E1, E2, E3, E4, E5.
  assert (Etc : cf_tc cq = snd (work_share (length p0) T)).
  { unfold cq, config_of. destruct (work_share (length p0) T). reflexivity. }
  pose proof (work_share_tc_le (length p0) T) as Htc. rewrite Hl in Htc. specialize (Htc Hn HT).
  rewrite Hl in Etc.
  assert (Hgq : graph_ok (cf_g cq)) by now rewrite E1.
  assert (Hlq : length p0 = length (cf_g cq)) by now rewrite E1.
  assert (Hidq : Forall (fun x => (x < cf_k cq)%nat) p0) by (rewrite E3; apply part_count_bound).
  assert (Hvq : Forall (fun x => 0 <= x) (cf_vw cq)) by now rewrite E2.
  assert (Htq : 1 <= Z.of_nat (cf_tc cq) <= 2 ^ 53) by (rewrite Etc; lia).
  assert (Hsq : Z.abs (cf_cap cq) + sumZ (cf_vw cq) < 2 ^ 53) by now rewrite E4, E2.
  destruct (f64_share_irrelevant cq p0 E5 Hgq Hlq Hidq Hvq Htq Hsq) as [Ei Er].
  rewrite Ecf in Hi, Hr. rewrite Ei in Hi. rewrite (Er st0 sch Hi) in Hr.
  pose proof (arcswap_safe cq p0) as S. rewrite E1, E2, E3, E4 in S.
  apply (S Hg Hl (part_count_bound p0) Hvw (headroom_quot_ok cq E5) st0 sch st Hi Hr).
Qed.

(* ------ the share divided in W (exact quotient): the strict property for ALL integer inputs ------ *)

Theorem arcswap_caps_i64_all in_W g vw p0 T cap st0 sch st : in_W = true ->
  graph_ok g -> length p0 = length g -> Forall (fun x => 0 <= x) vw ->
  let cf := config_of (share_i64 in_W) g vw p0 T cap in
  init_state cf p0 = Some st0 -> run cf st0 sch = Some st ->
  no_adjacent_critical g st
  /\ cut g p0 - cut g (g_part st) = total_gain st /\ 0 <= total_gain st
  /\ (forall q, (q < part_count p0)%nat -> load vw (g_part st) q <= Z.max (load vw p0 q) cap)
  /\ length (g_part st) = length p0 /\ Forall (fun x => (x < part_count p0)%nat) (g_part st)
  /\ relabelled p0 (g_part st) <= total_moves st
  /\ (g_fin st = true -> total_gain st = md_gain (g_md st) /\ total_moves st = md_moves (g_md st)).
Proof.
  intros -> Hg Hl Hvw cf Hi Hr. cbn [share_i64] in cf.
  destruct (config_of_fields headroom_quot g vw p0 T cap) as (E1 & E2 & E3 & E4 & E5). fold cf in E1, E2, E3, E4, E5.
  pose proof (arcswap_safe cf p0) as S. rewrite E1, E2, E3, E4 in S.
  apply (S Hg Hl (part_count_bound p0) Hvw (headroom_quot_ok cf E5) st0 sch st Hi Hr).
Qed.

(* The premise of Proofs/SfcSchedProofs.v ([f64_add_exact_on_integers]) is a
   THEOREM about the binary64 addition the model executes
   (Proofs/F64AddExact.v, through Flocq): the schedule-independence results hold
   without it.  Depends on the axioms of Coq's classical reals (via Flocq). *)
From Coupe Require Import Lib.Prelude Lib.SFloat Lib.Sorting Lib.Rayon Model.SfcPart Model.SfcSched
  Proofs.SfcSchedProofs Proofs.F64AddExact.
From Coq Require Import ZArith Lia.
Open Scope Z_scope.

Theorem f64_add_exact_on_integers_holds : f64_add_exact_on_integers.
Proof. intros a b Ha Hb Hab. apply f64_add_exact; lia. Qed.

Theorem hilbert_sched_indep_proved ws : exact_sums ws ->
  forall ts1 ts2 tol maxo order fuel idx k p0,
  hilbert_partition_s ts1 tol maxo order fuel idx ws k p0
  = hilbert_partition_s ts2 tol maxo order fuel idx ws k p0.
Proof. exact (hilbert_sched_indep f64_add_exact_on_integers_holds ws). Qed.

Theorem hilbert_partition_s_seq_proved ts tol maxo order fuel idx zs k p0 :
  Forall (fun z => 0 <= z) zs -> sumZ zs <= 2 ^ 53 ->
  hilbert_partition_s ts tol maxo order fuel idx (map oz zs) k p0
  = hilbert_partition tol maxo order fuel idx (map oz zs) k p0.
Proof. exact (hilbert_partition_s_seq f64_add_exact_on_integers_holds ts tol maxo order fuel idx zs k p0). Qed.

Theorem part_weights_sched_seq_proved t positions n pts zs :
  Forall (fun z => 0 <= z) zs -> sumZ zs <= 2 ^ 53 ->
  part_weights_sched t positions n pts (map oz zs)
  = part_weights_of positions pts (map oz zs) (repeat fzero n).
Proof. exact (part_weights_sched_seq f64_add_exact_on_integers_holds t positions n pts zs). Qed.

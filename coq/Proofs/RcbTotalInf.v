(* Termination of the cut search and totality of rcb when the bounds and
   coordinates may be INFINITE (finite f64 coordinates beyond the binary32
   range: `as f32` gives +-inf).  Same argument as Proofs/RcbTotal.v with a
   weaker hypothesis on the midpoint: `min / 2.0 + max / 2.0` may be NaN (for
   min = -inf, max = +inf), but then neither `min < middle` nor `middle < max`
   holds, the interval counts as exhausted and the search returns after its
   last probe at max (the variant with [probe_max = true], the current
   source).  The loop continues only when `min < middle < max` held; the
   midpoint is then a representable non-NaN value, one bound moves to it and
   the rank distance strictly decreases. *)
From Coupe Require Import Lib.Prelude Lib.SFloat Model.Rcb Proofs.RcbProofs Proofs.RcbTotal.
From Coq Require Import Permutation.
Open Scope Z_scope.

Section TotalInf.
  Variable C : Type.
  Variables ltb leb : C -> C -> bool.
  Variable mid : C -> C -> C.
  Variables dist addc : C -> C -> C.
  Variables zero inf : C.
  Variable within_tol : Z -> Z -> bool.
  Variable by_coord : bool.
  Variable valid : C -> bool.
  Hypothesis lt_irrefl : forall x, valid x = true -> ltb x x = false.
  Hypothesis lt_negtrans : forall x y z, valid x = true -> valid y = true -> valid z = true ->
    ltb x y = true -> ltb x z = true \/ ltb z y = true.
  Hypothesis le_lt : forall x y, valid x = true -> valid y = true -> leb x y = negb (ltb y x).

  (* [good]: the representable values that are not NaN (infinities included);
     the midpoint of two of them is good WHENEVER it compares strictly between them *)
  Variable good : C -> bool.
  Variable rank : C -> Z.
  Variables rlo rhi : Z.
  Hypothesis mid_good_between : forall a b, good a = true -> good b = true ->
    ltb a (mid a b) = true -> ltb (mid a b) b = true -> good (mid a b) = true.
  Hypothesis rank_mono : forall x y, good x = true -> good y = true -> ltb x y = true -> rank x < rank y.
  Hypothesis rank_bounds : forall x, good x = true -> rlo <= rank x <= rhi.

  Notation keyed := (keyed C).
  Notation item := (item C).
  Notation par_fold := (par_fold C ltb dist zero inf by_coord).
  Notation search := (search C ltb leb mid dist addc zero inf within_tol false by_coord true).
  Notation rcb_rec := (rcb_rec C ltb leb mid dist addc zero inf within_tol false by_coord true).
  Notation rcb_core := (rcb_core C ltb leb mid dist addc zero inf within_tol false by_coord true).

  Definition pos_of (sr : split_res C) : C := match sr with SplitAt _ _ p _ => p | AllLeft p => p end.

  (* the search returns within [rank max - rank min + 1] iterations, with an
     in-range pivot index and a good cut position *)
  Lemma search_total_inf xs sum : forall fuel sch it mn mx prev,
    good mn = true -> good mx = true -> (1 <= fuel)%nat -> Z.of_nat fuel > rank mx - rank mn ->
    exists sr, search fuel sch it xs sum mn mx prev = Ok sr
      /\ match sr with SplitAt i _ _ _ => (i < length xs)%nat | AllLeft _ => True end
      /\ good (pos_of sr) = true.
  Proof.
    induction fuel as [|f IH]; intros sch it mn mx prev Hmn Hmx Hf Hr; [lia|].
    cbn [Rcb.search].
    set (m := mid mn mx).
    set (exh := negb (ltb mn m && ltb m mx)).
    set (t := if true && exh then mx else m).
    pose proof (par_fold_idx C ltb dist zero inf by_coord t (sch it) 0%nat xs) as Hidx.
    destruct (par_fold t (sch it) 0%nat xs) as [[[cnt wl] ni] nd]. cbn [idx_ok] in Hidx.
    assert (Hcont : exh = false -> good m = true /\ rank mn < rank m < rank mx /\ t = m).
    { intros E. unfold exh in E. apply negb_false_iff, andb_true_iff in E. destruct E as [E1 E2].
      assert (Hm : good m = true) by (apply mid_good_between; assumption).
      unfold t. replace exh with false by (unfold exh; rewrite E1, E2; reflexivity). cbn [andb].
      split; [exact Hm|]. split; [|reflexivity].
      split; apply rank_mono; assumption. }
    assert (Ht : good t = true).
    { unfold t. cbn [andb]. destruct exh eqn:E; [exact Hmx|]. apply (Hcont eq_refl). }
    destruct ni as [i|].
    - destruct (exh || (wl <? sum - wl) && leb mx (if by_coord then nd else addc t nd) || within_tol wl sum) eqn:Estop.
      + eexists. split; [reflexivity|]. split; [lia|exact Ht].
      + assert (E : exh = false) by (destruct exh; [discriminate|reflexivity]).
        destruct (Hcont E) as (Hm & Hrk & Et). rewrite Et.
        destruct (wl <? sum - wl); apply IH; try assumption; lia.
    - destruct exh eqn:E.
      + eexists. split; [reflexivity|]. split; [exact I|exact Hmx].
      + destruct (Hcont eq_refl) as (Hm & Hrk & Et). rewrite Et. apply IH; try assumption; lia.
  Qed.

  Lemma good_set_nth (bb : list (C * C)) a b :
    Forall (fun b => good (fst b) = true /\ good (snd b) = true) bb ->
    good (fst b) = true -> good (snd b) = true ->
    Forall (fun b => good (fst b) = true /\ good (snd b) = true) (set_nth bb a b).
  Proof.
    intros H G1 G2. revert a. induction H as [|b0 t Hb0 Ht IHt]; intros [|a]; cbn [set_nth]; constructor; auto.
  Qed.

  Lemma rcb_rec_total_inf : forall k fuel sched D its iter_id a sum bb,
    (a < D)%nat -> length bb = D -> Forall (wf_item C valid D) its ->
    Forall (fun b => good (fst b) = true /\ good (snd b) = true) bb ->
    (1 <= fuel)%nat -> Z.of_nat fuel > rhi - rlo ->
    exists asg, rcb_rec fuel sched D k its iter_id a sum bb = Ok asg.
  Proof.
    induction k as [|k IH]; intros fuel sched D its iter_id a sum bb Ha Hbb Hwf Hgood Hf1 Hf2.
    - destruct its; cbn [Rcb.rcb_rec]; eexists; reflexivity.
    - destruct its as [|it0 t]; [eexists; apply rcb_rec_nil|].
      set (its := it0 :: t) in *. cbn [Rcb.rcb_rec]. fold its.
      destruct (nth_opt_lt bb a) as [[mn mx] Eb]; [lia|]. rewrite Eb.
      destruct (keys_total C valid D a its Ha Hwf) as [xs Hk]. rewrite Hk.
      assert (Hg : good mn = true /\ good mx = true).
      { rewrite Forall_forall in Hgood. apply (Hgood (mn, mx)). eapply nth_opt_In; exact Eb. }
      destruct Hg as [Hgmn Hgmx].
      pose proof (rank_bounds mn Hgmn). pose proof (rank_bounds mx Hgmx).
      destruct (search_total_inf xs sum fuel (sched iter_id) 0%nat mn mx None Hgmn Hgmx Hf1) as (sr & Hsr & Hi & Hgp); [lia|].
      rewrite Hsr. cbn [bind].
      assert (Hv : Forall (vitem C valid) its).
      { rewrite Forall_forall in *. intros it Hit. apply (Hwf it Hit). }
      pose proof (vkey_of_keys C valid a its xs Hk Hv) as Hvx.
      destruct (keys_spec C a its xs Hk) as [Hm _].
      assert (Hsides : exists l r wl pos,
        (match sr with
         | AllLeft pos => Ok (xs, [], sum, pos)
         | SplitAt i wl pos _ => bind (reorder_split C ltb leb xs i) (fun lr => Ok (fst lr, snd lr, wl, pos))
         end) = Ok (l, r, wl, pos) /\ Permutation (l ++ r) xs /\ good pos = true).
      { destruct sr as [i wl pos why|pos]; cbn [pos_of] in Hgp.
        - destruct (reorder_split_scalar_spec C ltb leb valid lt_irrefl le_lt xs i Hvx Hi) as (p & l & r & _ & Hr & Hp & _).
          rewrite Hr. cbn [bind fst snd]. exists l, r, wl, pos. auto.
        - exists xs, [], sum, pos. split; [reflexivity|]. split; [rewrite app_nil_r; apply Permutation_refl|exact Hgp]. }
      destruct Hsides as (l & r & wl & pos & Hs & Hperm & Hgpos). rewrite Hs. cbn [bind].
      assert (Hsub : forall it, In it (map snd l) \/ In it (map snd r) -> In it its).
      { intros it Hit. rewrite <- Hm. eapply Permutation_in; [apply Permutation_map, Hperm|].
        rewrite map_app. apply in_or_app. exact Hit. }
      assert (Ha' : ((a + 1) mod D < D)%nat) by (apply Nat.mod_upper_bound; lia).
      destruct (IH fuel sched D (map snd l) (2 * iter_id + 1)%N ((a + 1) mod D)%nat wl (set_nth bb a (mn, pos))) as [L HL]; auto.
      { rewrite set_nth_length; exact Hbb. }
      { rewrite Forall_forall in *. intros it Hit. apply Hwf, Hsub. left; exact Hit. }
      { apply good_set_nth; assumption. }
      destruct (IH fuel sched D (map snd r) (2 * iter_id + 2)%N ((a + 1) mod D)%nat (sum - wl) (set_nth bb a (pos, mx))) as [R HR]; auto.
      { rewrite set_nth_length; exact Hbb. }
      { rewrite Forall_forall in *. intros it Hit. apply Hwf, Hsub. right; exact Hit. }
      { apply good_set_nth; assumption. }
      rewrite HL, HR. cbn [bind]. eexists; reflexivity.
  Qed.

  (* totality of rcb_core (no panic, no OutOfFuel) *)
  Theorem rcb_core_total_inf : forall fuel sched D k its sum bb p0,
    (0 < D)%nat -> length bb = D -> Forall (wf_item C valid D) its ->
    Forall (fun b => good (fst b) = true /\ good (snd b) = true) bb ->
    map ix its = seq 0 (length p0) -> its <> [] ->
    (1 <= fuel)%nat -> Z.of_nat fuel > rhi - rlo ->
    exists p, rcb_core fuel sched D k its sum bb p0 = Ok p.
  Proof.
    intros fuel sched D k its sum bb p0 HD Hbb Hwf Hgood Hix Hne Hf1 Hf2.
    destruct (rcb_rec_total_inf k fuel sched D its 0%N 0%nat sum bb HD Hbb Hwf Hgood Hf1 Hf2) as [asg Hrec].
    unfold Rcb.rcb_core. rewrite Hrec. cbn [bind]. rewrite (scatter_fast_eq C).
    assert (Hv : Forall (vitem C valid) its).
    { rewrite Forall_forall in *. intros it Hit. apply (Hwf it Hit). }
    destruct (rcb_rec_spec C ltb leb mid dist addc zero inf within_tol false by_coord true valid
                lt_irrefl lt_negtrans le_lt _ _ _ _ _ _ _ _ _ _ Hv Hrec) as (PL & _ & _).
    assert (Hsc : forall (t : list (item * N)) p, Forall (fun x => (ix (fst x) < length p)%nat) t ->
                    exists p', scatter C p t = Ok p' /\ length p' = length p).
    { induction t as [|[it id] t IHt]; intros p Ht; cbn [scatter]; [eexists; split; reflexivity|].
      inversion Ht as [|? ? H1 H2]; subst. cbn [fst] in H1. apply Nat.ltb_lt in H1. rewrite H1.
      destruct (IHt (set_nth p (ix it) id)) as (p' & A & B); [rewrite set_nth_length; exact H2|].
      exists p'. split; [exact A|rewrite B; apply set_nth_length]. }
    destruct (Hsc asg p0) as (p1 & Hp1 & Hl1).
    { rewrite Forall_forall. intros x Hx.
      assert (Hin : In (ix (fst x)) (map ix its)).
      { apply in_map. eapply Permutation_in; [exact PL|apply in_map, Hx]. }
      rewrite Hix in Hin. apply in_seq in Hin. lia. }
    rewrite Hp1. cbn [bind].
    destruct p1 as [|v vt]; [|eexists; reflexivity].
    exfalso. cbn in Hl1. destruct its as [|it0 t]; [congruence|]. cbn [map] in Hix.
    destruct (length p0); [discriminate|discriminate].
  Qed.
End TotalInf.

(* check_separated is a NECESSARY condition of the jagged hierarchy: if the ids
   form a JaggedTree of the scheme (for ANY assignment of parts to leaves), the
   checker answers true.  Its `false` on an implementation output is therefore
   a failing input of the property. *)
From Coq Require Import Permutation.
From Coupe Require Import Lib.Prelude Lib.SFloat Model.MultiJagged Proofs.MultiJaggedProofs.

Section SepProofs.
  Variable B : Type.
  Variable D : nat.
  Variable cxlt : nat -> nat -> nat -> bool.
  Variable idf : nat -> N.
  Notation JT := (JaggedTree B D cxlt idf).

  Lemma fold_pick_in (f : nat -> nat -> bool) : forall t x,
    In (fold_left (fun m y => if f m y then y else m) t x) (x :: t).
  Proof.
    induction t as [|y t IH]; intros x; cbn [fold_left]; [left; reflexivity|].
    destruct (f x y).
    - destruct (IH y) as [E|H]; [right; left; exact E|right; right; exact H].
    - destruct (IH x) as [E|H]; [left; exact E|right; right; exact H].
  Qed.

  Lemma rep_max_in a l x : rep_max cxlt a l = Some x -> In x l.
  Proof. destruct l as [|h t]; cbn [rep_max]; intros H; [discriminate|]. inversion H; subst. apply fold_pick_in. Qed.

  Lemma rep_min_in a l x : rep_min cxlt a l = Some x -> In x l.
  Proof.
    destruct l as [|h t]; cbn [rep_min]; intros H; [discriminate|]. inversion H; subst.
    apply (fold_pick_in (fun m y => cxlt a y m)).
  Qed.

  Lemma sch_depth_child ns (mods : list B) cs c : ns <> 0%N -> In c cs ->
    (sch_depth B c < sch_depth B (SNode ns mods (Some cs)))%nat.
  Proof.
    intros Hns Hin. cbn [sch_depth]. destruct (N.eqb_spec ns 0) as [?|_]; [contradiction|].
    apply Nat.lt_succ_r. induction cs as [|h t IH]; [destruct Hin|].
    destruct Hin as [<-|Hin]; [apply Nat.le_max_l|]. etransitivity; [apply IH; exact Hin|apply Nat.le_max_r].
  Qed.

  Lemma level_axes_mono a : forall d d' x, (d' <= d)%nat -> In x (level_axes D a d') -> In x (level_axes D a d).
  Proof.
    intros d. revert a. induction d as [|d IH]; intros a d' x Hle Hin.
    - assert (d' = 0%nat) by lia. subst. exact Hin.
    - destruct d' as [|d']; [destruct Hin|]. cbn [level_axes] in *. destruct Hin as [E|Hin]; [left; exact E|].
      right. eapply IH; [|exact Hin]. lia.
  Qed.

  Definition all_before (els : list nat) (a : nat) (i j : N) : Prop :=
    forall u v, In u els -> In v els -> idf u = i -> idf v = j -> cxlt a v u = false.

  Definition sep_spec (sch : scheme B) : Prop :=
    forall a els, JT sch a els ->
    forall x y, In x els -> In y els -> idf x <> idf y ->
    exists a', In a' (level_axes D a (sch_depth B sch)) /\
               (all_before els a' (idf x) (idf y) \/ all_before els a' (idf y) (idf x)).

  Lemma Forall2_In_r {X Y} (R : X -> Y -> Prop) l1 l2 y : Forall2 R l1 l2 -> In y l2 -> exists x, In x l1 /\ R x y.
  Proof.
    induction 1 as [|a b la lb Hab HF IH]; intros Hin; [destruct Hin|].
    destruct Hin as [<-|Hin]; [exists a; split; [left; reflexivity|exact Hab]|].
    destruct (IH Hin) as [x [Hx Hr]]. exists x. split; [right; exact Hx|exact Hr].
  Qed.

  Lemma sep_lemma : forall sch, sep_spec sch.
  Proof.
    induction sch as [ns mods next IH] using scheme_ind2. intros a els J x y Hx Hy Hne.
    inversion J as [mods' next' a' els' Hsame|ns' mods' children a' slabs Hns Hlen HF HO]; subst.
    - exfalso. apply Hne. apply Hsame; assumption.
    - apply in_concat in Hx as [s1 [Hs1 Hx1]]. apply in_concat in Hy as [s2 [Hs2 Hy2]].
      (* every element carrying the id of a slab's element lies in that slab *)
      assert (Hhome : forall s z u, In s slabs -> In z s -> In u (concat slabs) -> idf u = idf z -> In u s).
      { intros s z u Hs Hz Hu Eu. apply in_concat in Hu as [s3 [Hs3 Hu3]].
        destruct (ForallOrdPairs_In HO s s3 Hs Hs3) as [E|[Hb|Hb]]; [subst; exact Hu3| |].
        - destruct (Hb z u Hz Hu3) as [_ Hn]. congruence.
        - destruct (Hb u z Hu3 Hz) as [_ Hn]. congruence. }
      destruct (ForallOrdPairs_In HO s1 s2 Hs1 Hs2) as [E|[Hb|Hb]].
      + (* same slab: recurse *)
        subst s2. destruct (Forall2_In_r _ _ _ s1 HF Hs1) as [c [Hc Jc]].
        specialize (IH children eq_refl). rewrite Forall_forall in IH.
        destruct (IH c Hc _ _ Jc x y Hx1 Hy2 Hne) as [a'' [Ha'' Hd]].
        exists a''. split.
        * cbn [level_axes]. pose proof (sch_depth_child ns mods children c Hns Hc) as Hlt.
          destruct (sch_depth B (SNode ns mods (Some children))) as [|d] eqn:Ed; [lia|].
          cbn [level_axes]. right. eapply level_axes_mono; [|exact Ha'']. lia.
        * destruct Hd as [Hd|Hd]; [left|right]; intros u v Hu Hv Eu Ev; apply Hd; try assumption.
          -- apply (Hhome s1 x u Hs1 Hx1 Hu Eu).
          -- apply (Hhome s1 y v Hs1 Hy2 Hv Ev).
          -- apply (Hhome s1 y u Hs1 Hy2 Hu Eu).
          -- apply (Hhome s1 x v Hs1 Hx1 Hv Ev).
      + exists a. split.
        * cbn [sch_depth]. destruct (N.eqb_spec ns 0) as [?|_]; [contradiction|]. left; reflexivity.
        * left. intros u v Hu Hv Eu Ev.
          apply (Hb u v (Hhome s1 x u Hs1 Hx1 Hu Eu) (Hhome s2 y v Hs2 Hy2 Hv Ev)).
      + exists a. split.
        * cbn [sch_depth]. destruct (N.eqb_spec ns 0) as [?|_]; [contradiction|]. left; reflexivity.
        * right. intros u v Hu Hv Eu Ev.
          apply (Hb u v (Hhome s2 y u Hs2 Hy2 Hu Eu) (Hhome s1 x v Hs1 Hx1 Hv Ev)).
  Qed.

  Lemma before_b_true els a i j P Q :
    all_before els a i j -> (forall u, In u P -> In u els /\ idf u = i) -> (forall v, In v Q -> In v els /\ idf v = j) ->
    before_b cxlt a P Q = true.
  Proof.
    intros Hb HP HQ. unfold before_b.
    destruct (rep_max cxlt a P) as [x|] eqn:Ex; [|reflexivity]. destruct (rep_min cxlt a Q) as [y|] eqn:Ey; [|reflexivity].
    apply rep_max_in in Ex. apply rep_min_in in Ey. destruct (HP x Ex) as [X1 X2]. destruct (HQ y Ey) as [Y1 Y2].
    rewrite (Hb x y X1 Y1 X2 Y2). reflexivity.
  Qed.

  Lemma all_ord_pairs_intro {T} (f : T -> T -> bool) l :
    (forall i j a b, (i < j)%nat -> nth_error l i = Some a -> nth_error l j = Some b -> f a b = true) ->
    all_ord_pairs f l = true.
  Proof.
    induction l as [|x t IH]; intros H; [reflexivity|]. cbn [all_ord_pairs]. apply andb_true_iff. split.
    - apply forallb_forall. intros y Hy. apply In_nth_error in Hy as [j Hj]. apply (H 0%nat (S j)); [lia|reflexivity|exact Hj].
    - apply IH. intros i j a b Hlt Hi Hj. apply (H (S i) (S j)); [lia|exact Hi|exact Hj].
  Qed.

  (* the checker never rejects ids that form a jagged hierarchy of the scheme *)
  Theorem check_separated_complete sch els n k :
    JT sch 0 els -> (forall i, (i < n)%nat -> In i els) -> check_separated B D cxlt idf sch n k = true.
  Proof.
    intros J Hall. unfold check_separated. apply all_ord_pairs_intro. intros i j P Q Hlt Hi Hj.
    rewrite nth_error_map in Hi, Hj.
    destruct (nth_error (seq 0 k) i) as [bi|] eqn:Ei; [|discriminate].
    destruct (nth_error (seq 0 k) j) as [bj|] eqn:Ej; [|discriminate].
    cbn [option_map] in Hi, Hj. inversion Hi; inversion Hj; subst P Q. clear Hi Hj.
    assert (Hik : (i < k)%nat) by (rewrite <- (seq_length k 0); apply nth_error_Some; congruence).
    assert (Hjk : (j < k)%nat) by (rewrite <- (seq_length k 0); apply nth_error_Some; congruence).
    assert (Hbi : bi = i).
    { pose proof (nth_error_nth (seq 0 k) i 0%nat Ei) as E. rewrite seq_nth in E by exact Hik. lia. }
    assert (Hbj : bj = j).
    { pose proof (nth_error_nth (seq 0 k) j 0%nat Ej) as E. rewrite seq_nth in E by exact Hjk. lia. }
    subst bi bj.
    set (P := filter (fun x => (idf x =? N.of_nat i)%N) (seq 0 n)). set (Q := filter (fun x => (idf x =? N.of_nat j)%N) (seq 0 n)).
    assert (HP : forall u, In u P -> In u els /\ idf u = N.of_nat i).
    { intros u Hu. apply filter_In in Hu as [Hu E]. apply in_seq in Hu. split; [apply Hall; lia|apply N.eqb_eq; exact E]. }
    assert (HQ : forall v, In v Q -> In v els /\ idf v = N.of_nat j).
    { intros v Hv. apply filter_In in Hv as [Hv E]. apply in_seq in Hv. split; [apply Hall; lia|apply N.eqb_eq; exact E]. }
    unfold parts_separated. destruct P as [|x0 P'] eqn:EP; [reflexivity|]. destruct Q as [|y0 Q'] eqn:EQ; [reflexivity|].
    destruct (HP x0 (or_introl eq_refl)) as [X1 X2]. destruct (HQ y0 (or_introl eq_refl)) as [Y1 Y2].
    destruct (sep_lemma sch 0%nat els J x0 y0 X1 Y1 ltac:(rewrite X2, Y2; lia)) as [a' [Ha' Hd]].
    apply existsb_exists. exists a'. split; [exact Ha'|]. apply orb_true_iff. rewrite X2, Y2 in Hd.
    destruct Hd as [Hd|Hd]; [left|right]; eapply before_b_true; eassumption.
  Qed.
End SepProofs.

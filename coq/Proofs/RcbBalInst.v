(* The binary32 instance of the C04 results (Proofs/RcbBalance.v). *)
From Coupe Require Import Lib.Prelude Lib.SFloat Model.Rcb Proofs.SFOrder Proofs.RcbProofs
  Proofs.RcbInst Proofs.RcbBalance Proofs.F32Flocq Proofs.RcbBox.
From Coq Require Import Floats.SpecFloat Permutation.
Open Scope Z_scope.

Lemma f32_fin_finite x : f32_fin x = true -> is_finite x = true.
Proof. unfold f32_fin. intros H. apply andb_true_iff in H. tauto. Qed.
Lemma fin_valid32 x : f32_fin x = true -> f32v x = true.
Proof. intros H. apply f32_fin_finite in H. destruct x; cbn in *; try discriminate; reflexivity. Qed.
Lemma fin_inf32 x : f32_fin x = true -> flt x f32_inf = true.
Proof.
  intros H. apply f32_fin_finite in H.
  destruct x as [s|s| |s m e]; cbn in *; try discriminate; try reflexivity; destruct s; reflexivity.
Qed.
Lemma inf_valid32 : f32v f32_inf = true.
Proof. reflexivity. Qed.

(* The two facts about the midpoint expression the balance proof relies on,
   as a predicate; proved for binary32 `min / 2.0 + max / 2.0` in
   Proofs/F32Flocq.v (mid_fin32, mid_exhausted32). *)
Definition MidSpec (m : spec_float -> spec_float -> spec_float) : Prop :=
  (forall a b, f32_fin a = true -> f32_fin b = true -> f32_fin (m a b) = true)
  /\ (forall a b x, f32_fin a = true -> f32_fin b = true -> f32_fin x = true ->
        negb (flt a (m a b) && flt (m a b) b) = true -> flt a x = true -> flt x b = true -> False).

Theorem mid_spec32 : MidSpec (f32_mid true).
Proof. split; [exact mid_fin32|exact mid_exhausted32]. Qed.

(* the search at HEAD (repaired stop rules, pivot by coordinate, last probe at
   max, overflow-free midpoint) with the plain or the clamped cast; the
   current source clamps *)
Definition head_variant_c (cl : bool) : variant := mkvariant false true true true cl.
Definition head_variant : variant := head_variant_c true.

Definition contract_c (cl : bool) (pts : list (list spec_float)) (ws : list Z) : Prop :=
  Forall (fun pt => Forall (fun c => is_finite c = true) pt) (to32c cl pts) /\ Forall (fun w => 0 <= w) ws.
Definition contract := contract_c false.

Lemma clamp32_valid x : valid_binary 24 128 x = true -> valid_binary 24 128 (clamp32 x) = true.
Proof.
  intros H. unfold clamp32. destruct (flt x f32_min_value); [destruct (flt f32_max_value f32_min_value); reflexivity|].
  destruct (flt f32_max_value x); [reflexivity|exact H].
Qed.
Lemma cast32_valid cl x : valid_binary 24 128 (cast32 cl x) = true.
Proof. destruct cl; [apply clamp32_valid|]; apply f64_to_f32_valid. Qed.

Lemma mk_items_wt cl : forall pts ws i, length pts = length ws -> map wt (mk_items cl i pts ws) = ws.
Proof.
  induction pts as [|p t IH]; intros [|w ws] i H; cbn [mk_items map length] in *; try discriminate; try reflexivity.
  f_equal. apply IH. lia.
Qed.

Lemma box_ok_sound : forall bb a0 its, box_ok_from a0 bb its = true ->
  forall a mn mx, nth_opt bb a = Some (mn, mx) ->
    f32_fin mn = true /\ f32_fin mx = true
    /\ forall it c, In it its -> nth_opt (co it) (a0 + a) = Some c -> flt c mn = false /\ flt mx c = false.
Proof.
  induction bb as [|[mn0 mx0] t IH]; intros a0 its H a mn mx Hn; [destruct a; discriminate|].
  cbn [box_ok_from] in H. apply andb_true_iff in H. destruct H as [H H4].
  apply andb_true_iff in H. destruct H as [H H3]. apply andb_true_iff in H. destruct H as [H1 H2].
  destruct a as [|a]; cbn [nth_opt] in Hn.
  - inversion Hn; subst. split; [exact H1|]. split; [exact H2|]. intros it c Hit Hc.
    rewrite Nat.add_0_r in Hc. rewrite forallb_forall in H3. specialize (H3 it Hit). rewrite Hc in H3.
    apply andb_true_iff in H3. destruct H3 as [A B]. apply negb_true_iff in A, B. split; assumption.
  - destruct (IH (S a0) its H4 a mn mx Hn) as (A & B & Cc). split; [exact A|]. split; [exact B|].
    intros it c Hit Hc. apply (Cc it c Hit). replace (S a0 + a)%nat with (a0 + S a)%nat by lia. exact Hc.
Qed.

Notation BalT tol := (BalTree spec_float flt (tol_test tol)).

(* C04 for the search at HEAD, every schedule and fuel.  box_ok32 is a decidable
   premise evaluated by the run glue on every case *)
Theorem rcb_split_balanced_c : forall cl fuel sched D k tol pts ws p0 p,
  contract_c cl pts ws -> box_ok32c cl D pts ws = true ->
  rcb (head_variant_c cl) fuel sched D k tol pts ws p0 = Ok p ->
  exists t, Permutation t (combine (combine (to32c cl pts) ws) p) /\ BalT tol D k 0%nat t.
Proof.
  intros cl fuel sched D k tol pts ws p0 p [Hfin Hnn] Hbox H. destruct mid_spec32 as [Hmf Hme]. unfold rcb in H.
  destruct (Nat.eqb (length ws) (length p0)) eqn:E1; cbn [negb] in H; [|discriminate].
  destruct (Nat.eqb (length pts) (length p0)) eqn:E2; cbn [negb] in H; [|discriminate].
  apply Nat.eqb_eq in E1, E2.
  destruct pts as [|pt0 pts'].
  - inversion H; subst. exists []. split; [constructor|]. apply bal_leaf. intros x y [].
  - cbv iota in H. set (pts := pt0 :: pts') in *.
    unfold box_ok32c in Hbox. cbn [v_clamp head_variant_c] in H.
    destruct (bbox32 cl D 0 pts) as [bb|]; [|discriminate].
    assert (Hlen : length pts = length ws) by lia.
    cbn [v_safe_mid v_old v_by_coord v_probe_max head_variant_c] in H.
    pose proof (rcb_core_balanced spec_float flt fle (f32_mid true) f32_sub f32_add f32_zero f32_inf
                  (tol_test tol) f32v f32_fin flt_irrefl flt_negtrans flt_trans fle_flt
                  inf_valid32 fin_valid32 fin_inf32 Hmf Hme
                  fuel sched D k (mk_items cl 0%N pts ws) (sumZ ws) bb p0 p) as T.
    rewrite (mk_items_co cl pts ws 0%N Hlen), (mk_items_wt cl pts ws 0%N Hlen) in T. apply T.
    + rewrite Forall_forall. intros it Hit. unfold fitem. split.
      * assert (Hc : In (co it) (to32c cl pts)) by (rewrite <- (mk_items_co cl pts ws 0%N Hlen); apply in_map, Hit).
        rewrite Forall_forall in Hfin. specialize (Hfin _ Hc). rewrite Forall_forall in *. intros c Hcc.
        unfold f32_fin. rewrite (Hfin c Hcc), andb_true_r.
        unfold to32c in Hc. apply in_map_iff in Hc. destruct Hc as (p64 & Ep & _). rewrite <- Ep in Hcc.
        apply in_map_iff in Hcc. destruct Hcc as (c64 & Ec & _). rewrite <- Ec. apply cast32_valid.
      * assert (Hw : In (wt it) ws) by (rewrite <- (mk_items_wt cl pts ws 0%N Hlen); apply in_map, Hit).
        rewrite Forall_forall in Hnn. exact (Hnn _ Hw).
    + intros a mn mx Hn. exact (box_ok_sound bb 0%nat _ Hbox a mn mx Hn).
    + unfold tw. rewrite (mk_items_wt cl pts ws 0%N Hlen). reflexivity.
    + rewrite mk_items_ix by exact Hlen. rewrite E2. reflexivity.
    + unfold pts. destruct ws; [cbn in Hlen; discriminate|]. cbn. discriminate.
    + exact H.
Qed.

(* the checker used on the implementation's outputs is sound *)
Theorem check_balance32_sound : forall D k tol pts ws ids,
  check_balance32 D k tol pts ws ids = true ->
  length pts = length ids /\ length ws = length ids
  /\ exists t, Permutation t (combine (combine (to32c true pts) ws) ids) /\ BalT tol D k 0%nat t.
Proof.
  intros D k tol pts ws ids H. unfold check_balance32 in H.
  destruct (check_balance_sound spec_float flt (tol_test tol) f32v flt_irrefl flt_negtrans flt_trans D k _ _ _ H)
    as (A & B & Cc).
  fold (to32c true pts) in *. unfold to32c in A. rewrite map_length in A. auto.
Qed.

(* the node test decides the balance predicate *)
Theorem check_split32_iff : forall tol lo hi,
  vaw spec_float f32v lo -> vaw spec_float f32v hi ->
  (check_split spec_float flt (tol_test tol) lo hi = true
   <-> balanced_or_bracket spec_float flt (tol_test tol) lo hi).
Proof.
  intros tol lo hi. apply (check_split_iff spec_float flt (tol_test tol) f32v flt_irrefl flt_negtrans flt_trans).
Qed.

Definition vawb (l : list (spec_float * Z)) : bool := forallb (fun q => f32v (fst q) && (0 <=? snd q)) l.
Lemma vawb_sound l : vawb l = true -> vaw spec_float f32v l.
Proof.
  unfold vawb, vaw. rewrite forallb_forall, Forall_forall. intros H q Hq. specialize (H q Hq).
  apply andb_true_iff in H. destruct H as [A B]. split; [exact A|apply Z.leb_le, B].
Qed.

(* C04 on the narrow contract, without the decidable premise *)

Definition contract_range (pts : list (list spec_float)) (ws : list Z) : Prop :=
  coords_in_f32_range pts /\ Forall (fun w => 0 <= w) ws.

(* on coordinates with finite images the clamp is the identity *)
Lemma to32c_in_range cl pts : coords_in_f32_range pts -> to32c cl pts = to32 pts.
Proof.
  intros Hr. destruct cl; [|reflexivity]. unfold to32c, to32. apply map_ext_in. intros p Hp. apply map_ext_in. intros c Hc.
  unfold coords_in_f32_range in Hr. rewrite Forall_forall in Hr. specialize (Hr p Hp). rewrite Forall_forall in Hr.
  destruct (Hr c Hc) as (_ & _ & F). unfold cast32. apply clamp32_fin_id, to32_fin, F.
Qed.

Lemma rcb_lengths v fuel sched D k tol pts ws p0 p : rcb v fuel sched D k tol pts ws p0 = Ok p ->
  length ws = length p0 /\ length pts = length p0.
Proof.
  unfold rcb. intros H. destruct (Nat.eqb (length ws) (length p0)) eqn:E1; cbn [negb] in H; [|discriminate].
  destruct (Nat.eqb (length pts) (length p0)) eqn:E2; cbn [negb] in H; [|discriminate].
  apply Nat.eqb_eq in E1, E2. auto.
Qed.

(* every finite f64 coordinate set, with the clamped cast (the current source) *)
Theorem rcb_split_balanced_finite_f64 : forall fuel sched D k tol pts ws p0 p,
  Forall (fun pt => length pt = D) pts -> coords_finite_valid64 pts -> Forall (fun w => 0 <= w) ws ->
  rcb head_variant fuel sched D k tol pts ws p0 = Ok p ->
  exists t, Permutation t (combine (combine (to32c true pts) ws) p) /\ BalT tol D k 0%nat t.
Proof.
  intros fuel sched D k tol pts ws p0 p Hshape Hf Hnn H.
  destruct (rcb_lengths _ _ _ _ _ _ _ _ _ _ H) as [E1 E2].
  apply (rcb_split_balanced_c true fuel sched D k tol pts ws p0 p); [| |exact H].
  - split; [|exact Hnn]. unfold to32c. unfold coords_finite_valid64 in Hf. rewrite Forall_forall in *. intros q Hq.
    apply in_map_iff in Hq. destruct Hq as (p64 & <- & Hp). specialize (Hf p64 Hp).
    rewrite Forall_forall in *. intros y Hy. apply in_map_iff in Hy. destruct Hy as (c & <- & Hc).
    destruct (cast_true_real c (proj2 (Hf c Hc))) as [G _]. unfold f32_fin in G. apply andb_true_iff in G. exact (proj2 G).
  - apply box_ok32c_true_holds; [lia|exact Hshape|exact Hf].
Qed.

Theorem rcb_split_balanced_contract : forall fuel sched D k tol pts ws p0 p,
  Forall (fun pt => length pt = D) pts -> contract_range pts ws ->
  rcb head_variant fuel sched D k tol pts ws p0 = Ok p ->
  exists t, Permutation t (combine (combine (to32 pts) ws) p) /\ BalT tol D k 0%nat t.
Proof.
  intros fuel sched D k tol pts ws p0 p Hshape [Hr Hnn] H.
  rewrite <- (to32c_in_range true pts Hr).
  apply (rcb_split_balanced_finite_f64 fuel sched D k tol pts ws p0 p Hshape); [|exact Hnn|exact H].
  unfold coords_in_f32_range, coords_finite_valid64 in *. rewrite Forall_forall in *. intros q Hq. specialize (Hr q Hq).
  rewrite Forall_forall in *. intros c Hc. destruct (Hr c Hc) as (V & F & _). split; assumption.
Qed.

(* Termination of the cut search and totality of rcb (feeds C01): for the stop
   rules at HEAD ([old = false]) the search continues only when
   `min < middle < max` held, after which one bound moves to `middle`; with an
   order embedding [rank] of the representable values into a bounded interval
   of Z the distance `rank max - rank min` strictly decreases.  The embedding
   is a named Section hypothesis (DESIGN §3 `rank_mono`); it is NOT discharged
   for SpecFloat here, so the instance theorem is labelled partial. *)
From Coupe Require Import Lib.Prelude Lib.SFloat Model.Rcb Proofs.RcbProofs.
From Coq Require Import Permutation.
Open Scope Z_scope.

Section Total.
  Variable C : Type.
  Variables ltb leb : C -> C -> bool.
  Variable mid : C -> C -> C.
  Variables dist addc : C -> C -> C.
  Variables zero inf : C.
  Variable within_tol : Z -> Z -> bool.
  Variables by_coord probe_max : bool.
  Variable valid : C -> bool.
  Hypothesis lt_irrefl : forall x, valid x = true -> ltb x x = false.
  Hypothesis lt_negtrans : forall x y z, valid x = true -> valid y = true -> valid z = true ->
    ltb x y = true -> ltb x z = true \/ ltb z y = true.
  Hypothesis le_lt : forall x y, valid x = true -> valid y = true -> leb x y = negb (ltb y x).

  (* [good]: the representable values (closed under mid); [rank]: a bounded
     order embedding of them into Z *)
  Variable good : C -> bool.
  Variable rank : C -> Z.
  Variables rlo rhi : Z.
  Hypothesis mid_good : forall a b, good a = true -> good b = true -> good (mid a b) = true.
  Hypothesis rank_mono : forall x y, good x = true -> good y = true -> ltb x y = true -> rank x < rank y.
  Hypothesis rank_bounds : forall x, good x = true -> rlo <= rank x <= rhi.

  Notation keyed := (keyed C).
  Notation item := (item C).
  Notation fold_chunk := (fold_chunk C ltb dist zero by_coord).
  Notation par_fold := (par_fold C ltb dist zero inf by_coord).
  Notation search := (search C ltb leb mid dist addc zero inf within_tol false by_coord probe_max).
  Notation rcb_rec := (rcb_rec C ltb leb mid dist addc zero inf within_tol false by_coord probe_max).
  Notation rcb_core := (rcb_core C ltb leb mid dist addc zero inf within_tol false by_coord probe_max).

  (* the index returned by the fold/reduce is an index of the slice, for every split tree *)
  Definition idx_ok (base len : nat) (a : acc C) : Prop :=
    match a with (_, _, Some i, _) => (base <= i < base + len)%nat | _ => True end.

  Lemma fold_chunk_idx t : forall rest a base0 idx,
    (base0 <= idx)%nat -> idx_ok base0 (idx - base0) a ->
    idx_ok base0 (idx - base0 + length rest) (fold_chunk t a idx rest).
  Proof.
    induction rest as [|[x it] rest IH]; intros a base0 idx Hb Ha; cbn [Rcb.fold_chunk length].
    - rewrite Nat.add_0_r. exact Ha.
    - replace (idx - base0 + S (length rest))%nat with (S idx - base0 + length rest)%nat by lia.
      apply IH; [lia|]. destruct a as [[[cnt wl] ni] nd]. unfold Rcb.fold_step. cbv zeta.
      destruct (if by_coord then ltb x t else ltb (if by_coord then x else dist x t) zero).
      + cbn [idx_ok] in *. destruct ni; [lia|exact I].
      + destruct (ltb (if by_coord then x else dist x t) nd); cbn [idx_ok] in *; [lia|destruct ni; [lia|exact I]].
  Qed.

  Lemma par_fold_idx t : forall s base xs, idx_ok base (length xs) (par_fold t s base xs).
  Proof.
    induction s as [|k l IHl r IHr]; intros base xs.
    - cbn [Rcb.par_fold]. pose proof (fold_chunk_idx t xs (acc0 C inf) base base (le_n _) I) as H.
      rewrite Nat.sub_diag in H. exact H.
    - change (par_fold t (SNode k l r) base xs)
        with (reduce C ltb (par_fold t l base (firstn k xs)) (par_fold t r (base + k)%nat (skipn k xs))).
      specialize (IHl base (firstn k xs)). specialize (IHr (base + k)%nat (skipn k xs)).
      destruct (par_fold t l base (firstn k xs)) as [[[c0 w0] n0] d0].
      destruct (par_fold t r (base + k)%nat (skipn k xs)) as [[[c1 w1] n1] d1].
      unfold Rcb.reduce. pose proof (firstn_length k xs) as F1. pose proof (skipn_length k xs) as F2.
      destruct (ltb d0 d1); cbn [idx_ok] in *.
      + destruct n0; [lia|exact I].
      + destruct n1; [|exact I]. destruct (Nat.le_gt_cases k (length xs)) as [Q|Q]; [lia|].
        rewrite F2 in IHr. lia.
  Qed.

  (* the search returns within [rank max - rank min + 1] iterations, with an
     in-range pivot index *)
  Lemma search_total xs sum : forall fuel sch it mn mx prev,
    good mn = true -> good mx = true -> (1 <= fuel)%nat -> Z.of_nat fuel > rank mx - rank mn ->
    exists sr, search fuel sch it xs sum mn mx prev = Ok sr
      /\ match sr with SplitAt i _ _ _ => (i < length xs)%nat | AllLeft _ => True end.
  Proof.
    induction fuel as [|f IH]; intros sch it mn mx prev Hmn Hmx Hf Hr; [lia|].
    cbn [Rcb.search].
    set (m := mid mn mx). assert (Hm : good m = true) by (apply mid_good; assumption).
    set (exh := negb (ltb mn m && ltb m mx)).
    set (t := if probe_max && exh then mx else m).
    pose proof (par_fold_idx t (sch it) 0%nat xs) as Hidx.
    destruct (par_fold t (sch it) 0%nat xs) as [[[cnt wl] ni] nd]. cbn [idx_ok] in Hidx.
    assert (Hcont : exh = false -> good t = true /\ rank mn < rank t < rank mx /\ t = m).
    { intros E. unfold exh in E. apply negb_false_iff, andb_true_iff in E. destruct E as [E1 E2].
      unfold t. replace exh with false by (unfold exh; rewrite E1, E2; reflexivity). rewrite andb_false_r.
      split; [exact Hm|]. split; [|reflexivity].
      split; [apply rank_mono; assumption|apply rank_mono; assumption]. }
    destruct ni as [i|].
    - destruct (exh || (wl <? sum - wl) && leb mx (if by_coord then nd else addc t nd) || within_tol wl sum) eqn:Estop.
      + eexists. split; [reflexivity|]. cbn. lia.
      + assert (E : exh = false) by (destruct exh; [discriminate|reflexivity]).
        destruct (Hcont E) as (Ht & Hrk & _).
        destruct (wl <? sum - wl); apply IH; try assumption; lia.
    - destruct exh eqn:E.
      + eexists. split; [reflexivity|exact I].
      + destruct (Hcont eq_refl) as (Ht & Hrk & _). apply IH; try assumption; lia.
  Qed.

  Definition wf_item (D : nat) (it : item) : Prop := length (co it) = D /\ vitem C valid it.

  Lemma keys_total D a (its : list item) : (a < D)%nat -> Forall (wf_item D) its -> exists xs, keys C a its = Some xs.
  Proof.
    intros Ha. induction 1 as [|it t [Hl _] _ [xs IH]]; cbn [keys]; [eexists; reflexivity|].
    destruct (nth_opt_lt (co it) a) as [c Hc]; [lia|]. rewrite Hc, IH. eexists; reflexivity.
  Qed.

  Lemma rcb_rec_total : forall k fuel sched D its iter_id a sum bb,
    (a < D)%nat -> length bb = D -> Forall (wf_item D) its ->
    Forall (fun b => good (fst b) = true /\ good (snd b) = true) bb ->
    (1 <= fuel)%nat -> Z.of_nat fuel > rhi - rlo ->
    exists asg, rcb_rec fuel sched D k its iter_id a sum bb = Ok asg.
  Proof.
    induction k as [|k IH]; intros fuel sched D its iter_id a sum bb Ha Hbb Hwf Hgood Hf1 Hf2.
    - destruct its; cbn [Rcb.rcb_rec]; eexists; reflexivity.
    - destruct its as [|it0 t]; [eexists; apply rcb_rec_nil|].
      set (its := it0 :: t) in *. cbn [Rcb.rcb_rec]. fold its.
      destruct (nth_opt_lt bb a) as [[mn mx] Eb]; [lia|]. rewrite Eb.
      destruct (keys_total D a its Ha Hwf) as [xs Hk]. rewrite Hk.
      assert (Hg : good mn = true /\ good mx = true).
      { rewrite Forall_forall in Hgood. apply (Hgood (mn, mx)). eapply nth_opt_In; exact Eb. }
      destruct Hg as [Hgmn Hgmx].
      pose proof (rank_bounds mn Hgmn). pose proof (rank_bounds mx Hgmx).
      destruct (search_total xs sum fuel (sched iter_id) 0%nat mn mx None Hgmn Hgmx Hf1) as (sr & Hsr & Hi); [lia|].
      rewrite Hsr. cbn [bind].
      assert (Hv : Forall (vitem C valid) its).
      { rewrite Forall_forall in *. intros it Hit. apply (Hwf it Hit). }
      pose proof (vkey_of_keys C valid a its xs Hk Hv) as Hvx.
      destruct (keys_spec C a its xs Hk) as [Hm _].
      (* the two sides are sub-multisets of the items *)
      assert (Hsides : exists l r wl pos,
        (match sr with
         | AllLeft pos => Ok (xs, [], sum, pos)
         | SplitAt i wl pos _ => bind (reorder_split C ltb leb xs i) (fun lr => Ok (fst lr, snd lr, wl, pos))
         end) = Ok (l, r, wl, pos) /\ Permutation (l ++ r) xs
        /\ good pos = true).
      { destruct sr as [i wl pos why|pos].
        - destruct (reorder_split_scalar_spec C ltb leb valid lt_irrefl le_lt xs i Hvx Hi) as (p & l & r & _ & Hr & Hp & _).
          rewrite Hr. cbn [bind fst snd]. exists l, r, wl, pos. split; [reflexivity|]. split; [exact Hp|].
          (* pos is the probed target: mx or the midpoint of good bounds *)
          clear - Hsr mid_good Hgmn Hgmx. revert Hsr. generalize 0%nat as it0, (sched iter_id) as sch, (@None Z) as prev.
          revert mn mx Hgmn Hgmx. induction fuel as [|f IHf]; intros mn mx Hgmn Hgmx it0 sch prev H; [discriminate|].
          cbn [Rcb.search] in H.
          set (m := mid mn mx) in *. assert (Hm : good m = true) by (apply mid_good; assumption).
          set (t := if probe_max && negb (ltb mn m && ltb m mx) then mx else m) in *.
          assert (Ht : good t = true) by (unfold t; destruct (probe_max && negb (ltb mn m && ltb m mx)); assumption).
          destruct (par_fold t (sch it0) 0%nat xs) as [[[cnt wl'] ni] nd].
          destruct ni as [j|].
          + destruct (negb (ltb mn m && ltb m mx) || (wl' <? sum - wl') && leb mx (if by_coord then nd else addc t nd) || within_tol wl' sum).
            * inversion H; subst. exact Ht.
            * destruct (wl' <? sum - wl'); eapply IHf; try exact H; assumption.
          + destruct (negb (ltb mn m && ltb m mx)); [discriminate|]. eapply IHf; try exact H; assumption.
        - exists xs, [], sum, pos. split; [reflexivity|]. split; [rewrite app_nil_r; apply Permutation_refl|].
          clear - Hsr mid_good Hgmn Hgmx. revert Hsr. generalize 0%nat as it0, (sched iter_id) as sch, (@None Z) as prev.
          revert mn mx Hgmn Hgmx. induction fuel as [|f IHf]; intros mn mx Hgmn Hgmx it0 sch prev H; [discriminate|].
          cbn [Rcb.search] in H.
          set (m := mid mn mx) in *. assert (Hm : good m = true) by (apply mid_good; assumption).
          set (t := if probe_max && negb (ltb mn m && ltb m mx) then mx else m) in *.
          assert (Ht : good t = true) by (unfold t; destruct (probe_max && negb (ltb mn m && ltb m mx)); assumption).
          destruct (par_fold t (sch it0) 0%nat xs) as [[[cnt wl'] ni] nd].
          destruct ni as [j|].
          + destruct (negb (ltb mn m && ltb m mx) || (wl' <? sum - wl') && leb mx (if by_coord then nd else addc t nd) || within_tol wl' sum).
            * discriminate.
            * destruct (wl' <? sum - wl'); eapply IHf; try exact H; assumption.
          + destruct (negb (ltb mn m && ltb m mx)); [inversion H; subst; exact Hgmx|]. eapply IHf; try exact H; assumption. }
      destruct Hsides as (l & r & wl & pos & Hs & Hperm & Hgpos). rewrite Hs. cbn [bind].
      assert (Hsub : forall it, In it (map snd l) \/ In it (map snd r) -> In it its).
      { intros it Hit. rewrite <- Hm. eapply Permutation_in; [apply Permutation_map, Hperm|].
        rewrite map_app. apply in_or_app. exact Hit. }
      assert (Ha' : ((a + 1) mod D < D)%nat) by (apply Nat.mod_upper_bound; lia).
      assert (Hgl : forall b, Forall (fun b => good (fst b) = true /\ good (snd b) = true) (set_nth bb a b) \/ ~ (good (fst b) = true /\ good (snd b) = true)).
      { intros b. destruct (good (fst b)) eqn:G1, (good (snd b)) eqn:G2; try (right; intros [? ?]; discriminate).
        left. clear - Hgood G1 G2. revert a. induction Hgood as [|b0 t Hb0 Ht IHt]; intros [|a]; cbn [set_nth]; constructor; auto. }
      destruct (IH fuel sched D (map snd l) (2 * iter_id + 1)%N ((a + 1) mod D)%nat wl (set_nth bb a (mn, pos))) as [L HL]; auto.
      { rewrite set_nth_length; exact Hbb. }
      { rewrite Forall_forall in *. intros it Hit. apply Hwf, Hsub. left; exact Hit. }
      { destruct (Hgl (mn, pos)) as [G|G]; [exact G|exfalso; apply G; cbn; auto]. }
      destruct (IH fuel sched D (map snd r) (2 * iter_id + 2)%N ((a + 1) mod D)%nat (sum - wl) (set_nth bb a (pos, mx))) as [R HR]; auto.
      { rewrite set_nth_length; exact Hbb. }
      { rewrite Forall_forall in *. intros it Hit. apply Hwf, Hsub. right; exact Hit. }
      { destruct (Hgl (pos, mx)) as [G|G]; [exact G|exfalso; apply G; cbn; auto]. }
      rewrite HL, HR. cbn [bind]. eexists; reflexivity.
  Qed.

  (* totality of rcb_core (no panic, no OutOfFuel), feeding C01 *)
  Theorem rcb_core_total : forall fuel sched D k its sum bb p0,
    (0 < D)%nat -> length bb = D -> Forall (wf_item D) its ->
    Forall (fun b => good (fst b) = true /\ good (snd b) = true) bb ->
    map ix its = seq 0 (length p0) -> its <> [] ->
    (1 <= fuel)%nat -> Z.of_nat fuel > rhi - rlo ->
    exists p, rcb_core fuel sched D k its sum bb p0 = Ok p.
  Proof.
    intros fuel sched D k its sum bb p0 HD Hbb Hwf Hgood Hix Hne Hf1 Hf2.
    destruct (rcb_rec_total k fuel sched D its 0%N 0%nat sum bb HD Hbb Hwf Hgood Hf1 Hf2) as [asg Hrec].
    unfold Rcb.rcb_core. rewrite Hrec. cbn [bind]. rewrite (scatter_fast_eq C).
    assert (Hv : Forall (vitem C valid) its).
    { rewrite Forall_forall in *. intros it Hit. apply (Hwf it Hit). }
    destruct (rcb_rec_spec C ltb leb mid dist addc zero inf within_tol false by_coord probe_max valid
                lt_irrefl lt_negtrans le_lt _ _ _ _ _ _ _ _ _ _ Hv Hrec) as (PL & _ & _).
    (* every store is in range *)
    assert (Hsc : forall (t : list (item * N)) p, Forall (fun x => (ix (fst x) < length p)%nat) t ->
                    exists p', scatter C p t = Ok p' /\ length p' = length p).
    { induction t as [|[it id] t IHt]; intros p Ht; cbn [scatter]; [eexists; split; reflexivity|].
      inversion Ht as [|? ? H1 H2]; subst. cbn [fst] in H1. apply Nat.ltb_lt in H1. rewrite H1.
      destruct (IHt (set_nth p (ix it) id)) as (p' & A & B); [rewrite set_nth_length; exact H2|].
      exists p'. split; [exact A|rewrite B; apply set_nth_length]. }
    destruct (Hsc asg p0) as (p1 & Hp1 & Hl1).
    { rewrite Forall_forall. intros x Hx.
      assert (Hin : In (ix (fst x)) (map ix its)).
      { apply in_map. eapply Permutation_in; [exact PL|apply in_map, Hx]. }
      rewrite Hix in Hin. apply in_seq in Hin. lia. }
    rewrite Hp1. cbn [bind].
    destruct p1 as [|v vt]; [|eexists; reflexivity].
    exfalso. cbn in Hl1. destruct its as [|it0 t]; [congruence|]. cbn [map] in Hix.
    destruct (length p0); [discriminate|discriminate].
  Qed.
End Total.

(* Proofs about the VnFirst model of Model/Vn.v.  The model keeps the stale
   `p` of the inner `for q` loop (after an accepted move the next target is
   evaluated as if the weight were still in its original part, so the tracked
   loads no longer describe the partition).  The full statement is proved
   nevertheless: the gap of the TRUE loads of the returned partition is not
   larger than the gap of the input.  Key facts (lemma vf_for_inv):
   - every tracked load stays <= the input maximum M, hence an accepted target
     q has  L0[q] + w <= M  (otherwise the tracked minimum would have to rise,
     which a move out of `p` into `q` cannot achieve without widening the
     tracked gap);
   - the first accepted move already forces  w <= gap of the input. *)
From Coupe Require Import Lib.Prelude Model.NumPart Model.Vn Proofs.NumPartLemmas Proofs.VnBestProofs.
From Coq Require Import Permutation.
Open Scope Z_scope.

Lemma gap_ge l x y : In x l -> In y l -> x - y <= gap l.
Proof. intros Hx Hy. unfold gap. pose proof (maxl_ge l x Hx). pose proof (minl_le l y Hy). lia. Qed.

Lemma nonempty_length {A} (l : list A) : (1 <= length l)%nat -> l <> [].
Proof. destruct l; cbn; [lia|discriminate]. Qed.

Section VnFirst.
  Variables (ws : list Z) (k : nat) (p0 : list N).
  Hypothesis ws_nonneg : Forall (fun w => 0 <= w) ws.
  Hypothesis len_p0 : length p0 = length ws.
  Hypothesis ids_p0 : Forall (fun x => (x < N.of_nat k)%N) p0.
  Hypothesis k_pos : (1 <= k)%nat.

  Let L0 := loads ws p0 k.
  Let M := maxl L0.
  Let m0 := minl L0.
  Let g0 := gap L0.

  Lemma L0_len : length L0 = k.
  Proof. apply loads_length. Qed.
  Lemma L0_ne : L0 <> [].
  Proof. apply nonempty_length. rewrite L0_len. exact k_pos. Qed.
  Lemma L0_bounds x : In x L0 -> m0 <= x <= M.
  Proof. intros H. split; [now apply minl_le|now apply maxl_ge]. Qed.

  Definition Good (p : list N) : Prop :=
    length p = length p0 /\ Forall (fun x => (x < N.of_nat k)%N) p /\ gap (loads ws p k) <= g0.

  (* ---------- the inner loop over the target parts ---------- *)
  Section ForLoop.
    Variables (pp i : nat) (w : Z) (il0 : nat).
    Hypothesis pp_lt : (pp < k)%nat.
    Hypothesis i_lt : (i < length p0)%nat.
    Hypothesis p0_i : nth_opt p0 i = Some (N.of_nat pp).
    Hypothesis ws_i : nth_opt ws i = Some w.
    Hypothesis L0_pp : nth_opt L0 pp = Some M.

    Lemma w_nonneg : 0 <= w.
    Proof. rewrite Forall_forall in ws_nonneg. apply ws_nonneg. eapply nth_opt_In; eauto. Qed.

    Definition Inv_for (c : nat) (st : vf_state) : Prop :=
      let '(p, T, g, mx, il) := st in
      length T = k /\ g = gap T /\ g <= g0 /\ (forall x, In x T -> x <= M)
      /\ (forall q, (c <= q)%nat -> q <> pp -> nth_opt T q = nth_opt L0 q)
      /\ ((p = p0 /\ T = L0 /\ mx = M /\ il = il0)
          \/ (exists ql lq, ql <> pp /\ nth_opt L0 ql = Some lq /\ p = set_nth p0 i (N.of_nat ql)
                /\ il = i /\ lq + w <= M /\ w <= g0)).

    Lemma Inv_for_clean : Inv_for 0 (p0, L0, g0, M, il0).
    Proof.
      unfold Inv_for. split; [apply L0_len|]. split; [reflexivity|]. split; [lia|]. split.
      - intros x Hx. now apply L0_bounds.
      - split; [reflexivity|]. left. auto.
    Qed.

    Lemma vf_for_inv : forall qs c st, qs = seq c (k - c) -> (c <= k)%nat -> Inv_for c st ->
      exists st', vf_for qs pp i w st = Ok st' /\ Inv_for k st'.
    Proof.
      pose proof w_nonneg as Hw0.
      induction qs as [|q t IH]; intros c st Hqs Hck HI; cbn [vf_for].
      - assert (c = k) by (destruct (k - c)%nat eqn:E; [lia|discriminate]). subst c. eauto.
      - assert (Hc : (c < k)%nat) by (destruct (k - c)%nat eqn:E; [discriminate|lia]).
        assert (Hq : q = c /\ t = seq (S c) (k - S c)).
        { replace (k - c)%nat with (S (k - S c)) in Hqs by lia. cbn [seq] in Hqs. injection Hqs as -> ->. auto. }
        destruct Hq as [-> Ht].
        destruct st as [[[[p T] g] mx] il]. destruct HI as [HlT [Hg [Hg0 [HTM [Hfut Hcase]]]]].
        destruct (Nat.eqb_spec pp c) as [Hpc|Hpc].
        + (* the part the weight is in: skipped *)
          apply (IH (S c)); [exact Ht|lia|]. unfold Inv_for. repeat split; auto. intros q Hq. apply Hfut. lia.
        + destruct (nth_opt_lt T pp) as [lp Hlp]; [lia|]. rewrite Hlp.
          assert (Hb : nth_opt (set_nth T pp (lp - w)) c = nth_opt L0 c).
          { rewrite nth_opt_set_nth_other by exact Hpc. apply Hfut; auto. }
          destruct (nth_opt_lt L0 c) as [b HbL]; [rewrite L0_len; lia|]. rewrite Hb, HbL.
          set (T1 := set_nth T pp (lp - w)). set (T2 := set_nth T1 c (b + w)).
          assert (HlT2 : length T2 = k) by (unfold T2, T1; now rewrite !set_nth_length).
          assert (HT2pp : nth_opt T2 pp = Some (lp - w)).
          { unfold T2. rewrite nth_opt_set_nth_other by auto. apply nth_opt_set_nth_same. lia. }
          assert (HT2c : nth_opt T2 c = Some (b + w)).
          { unfold T2. apply nth_opt_set_nth_same. unfold T1. rewrite set_nth_length. lia. }
          assert (HT2o : forall j, j <> pp -> j <> c -> nth_opt T2 j = nth_opt T j).
          { intros j H1 H2. unfold T2, T1. rewrite !nth_opt_set_nth_other; auto. }
          assert (HTc : nth_opt T c = Some b) by (rewrite <- HbL; apply Hfut; auto).
          destruct T2 as [|t0 T2'] eqn:ET2; [cbn in HlT2; lia|]. rewrite <- ET2 in *.
          destruct (Z.ltb_spec g (maxl T2 - minl T2)) as [Hrej|Hacc].
          * (* rejected: the loads are restored *)
            rewrite HT2pp.
            assert (H3 : nth_opt (set_nth T2 pp (lp - w + w)) c = Some (b + w)).
            { rewrite nth_opt_set_nth_other by auto. exact HT2c. }
            rewrite H3.
            assert (Hrestore : set_nth (set_nth T2 pp (lp - w + w)) c (b + w - w) = T).
            { apply nth_opt_ext. intros j. destruct (Nat.eq_dec j c) as [->|Hjc].
              - rewrite nth_opt_set_nth_same by (rewrite set_nth_length; lia). rewrite HTc. f_equal. lia.
              - rewrite nth_opt_set_nth_other by auto. destruct (Nat.eq_dec j pp) as [->|Hjp].
                + rewrite nth_opt_set_nth_same by lia. rewrite Hlp. f_equal. lia.
                + rewrite nth_opt_set_nth_other by auto. apply HT2o; auto. }
            rewrite Hrestore. apply (IH (S c)); [exact Ht|lia|].
            unfold Inv_for. repeat split; auto. intros q Hq. apply Hfut. lia.
          * (* accepted *)
            assert (Hlenp : length p = length p0).
            { destruct Hcase as [[-> _]|[ql [lq [_ [_ [-> _]]]]]]; [reflexivity|apply set_nth_length]. }
            assert (Hil : Nat.ltb i (length p) = true) by (apply Nat.ltb_lt; lia). rewrite Hil.
            assert (HinT2pp : In (lp - w) T2) by (eapply nth_opt_In; eauto).
            assert (HinT2c : In (b + w) T2) by (eapply nth_opt_In; eauto).
            assert (Hlp_in : In lp T) by (eapply nth_opt_In; eauto).
            assert (Hb_in : In b T) by (eapply nth_opt_In; eauto).
            assert (HbL0 : In b L0) by (eapply nth_opt_In; eauto).
            assert (HTne : T <> []) by (apply nonempty_length; lia).
            assert (Hgap2 : gap T2 <= g) by (unfold gap; lia).
            (* KEY: the target does not rise above the input maximum *)
            assert (KEY : b + w <= M).
            { destruct (Z.le_gt_cases (b + w) M) as [|Hbad]; [assumption|exfalso].
              pose proof (maxl_ge T lp Hlp_in) as Hnu1. pose proof (HTM _ (maxl_in T HTne)) as HnuM.
              pose proof (maxl_ge T2 _ HinT2c) as Hmx2.
              assert (Hmin2 : minl T < minl T2) by (unfold gap in *; lia).
              destruct (In_nth_opt T _ (minl_in T HTne)) as [j Hj].
              destruct (Nat.eq_dec j pp) as [->|Hjp].
              - rewrite Hlp in Hj. injection Hj as Hj. pose proof (minl_le T2 _ HinT2pp). lia.
              - destruct (Nat.eq_dec j c) as [->|Hjc].
                + rewrite HTc in Hj. injection Hj as Hj.
                  pose proof (gap_ge T2 _ _ HinT2c HinT2pp). unfold gap in *. lia.
                + assert (In (minl T) T2) by (eapply nth_opt_In; rewrite HT2o; eauto).
                  pose proof (minl_le T2 _ H). lia. }
            assert (KEY2 : w <= g0).
            { destruct Hcase as [[_ [ET _]]|[ql [lq [_ [_ [_ [_ [_ H]]]]]]]]; [|exact H].
              assert (lp = M) by (rewrite ET, L0_pp in Hlp; now injection Hlp). subst lp.
              pose proof (gap_ge T2 _ _ HinT2c HinT2pp) as G. pose proof (L0_bounds b HbL0) as [B1 B2].
              assert (Eg : g0 = M - m0) by reflexivity. lia. }
            apply (IH (S c)); [exact Ht|lia|]. unfold Inv_for.
            split; [exact HlT2|]. split; [reflexivity|]. split; [unfold gap in *; lia|]. split; [|split].
            -- intros x Hx. unfold T2, T1 in Hx.
               apply set_nth_In in Hx as [->|Hx]; [exact KEY|].
               apply set_nth_In in Hx as [->|Hx]; [specialize (HTM lp Hlp_in); lia|now apply HTM].
            -- intros q Hq Hqp. rewrite HT2o by (auto; lia). apply Hfut; auto. lia.
            -- right. exists c, b. split; [auto|]. split; [exact HbL|]. split; [|auto].
               destruct Hcase as [[-> _]|[ql [lq [_ [_ [-> _]]]]]]; [reflexivity|apply set_nth_twice].
    Qed.

    (* the true loads after the surviving move *)
    Lemma final_gap ql lq : ql <> pp -> nth_opt L0 ql = Some lq -> lq + w <= M -> w <= g0 ->
      Good (set_nth p0 i (N.of_nat ql)).
    Proof.
      intros Hne Hql Hle Hw. pose proof w_nonneg as Hw0.
      assert (Hqlk : (ql < k)%nat) by (apply nth_opt_Some in Hql; now rewrite L0_len in Hql).
      split; [apply set_nth_length|]. split; [apply Forall_set_nth; auto; lia|].
      assert (Hpp' : pp <> ql) by auto.
      rewrite (loads_move ws p0 k i w pp ql M lq ws_i p0_i Hpp' L0_pp Hql). fold L0.
      set (R := set_nth (set_nth L0 pp (M - w)) ql (lq + w)).
      assert (Hb : forall x, In x R -> m0 <= x <= M).
      { intros x Hx. unfold R in Hx. pose proof (L0_bounds lq (nth_opt_In _ _ _ Hql)).
        apply set_nth_In in Hx as [->|Hx]; [lia|].
        apply set_nth_In in Hx as [->|Hx]; [unfold g0, gap in Hw; fold M m0 in Hw; lia|now apply L0_bounds]. }
      assert (HR : R <> []).
      { apply nonempty_length. unfold R. rewrite !set_nth_length, L0_len. exact k_pos. }
      assert (maxl R <= M) by (apply maxl_le_bound; auto; intros x Hx; now apply Hb).
      assert (m0 <= minl R) by (apply minl_ge_bound; auto; intros x Hx; now apply Hb).
      unfold g0, gap. fold M m0. lia.
    Qed.
  End ForLoop.

  (* ---------- the outer loop ---------- *)

  Let len := length ws.

  Definition steps (i : nat) : nat := if Nat.eqb i 0 then 0 else if Nat.eqb i len then len else (len - i).

  Lemma next_index i : (1 <= len)%nat -> (i <= len)%nat -> i <> 0%nat ->
    (Nat.modulo (i + 1) len < len)%nat /\ (steps (Nat.modulo (i + 1) len) + 1 <= steps i)%nat.
  Proof.
    intros Hl Hi Hi0. unfold steps.
    destruct (Nat.eq_dec i len) as [->|Hne].
    - replace (len + 1)%nat with (1 + 1 * len)%nat by lia. rewrite Nat.mod_add by lia.
      destruct (Nat.eq_dec len 1) as [E|E].
      + rewrite E. cbn. lia.
      + rewrite Nat.mod_small by lia.
        replace (Nat.eqb 1 0) with false by reflexivity.
        destruct (Nat.eqb_spec 1 len); [lia|]. destruct (Nat.eqb_spec len 0); [lia|]. rewrite Nat.eqb_refl. lia.
    - destruct (Nat.eq_dec (i + 1) len) as [E|E].
      + rewrite E, Nat.mod_same by lia. cbn [Nat.eqb].
        destruct (Nat.eqb_spec i 0); [lia|]. destruct (Nat.eqb_spec i len); lia.
      + rewrite Nat.mod_small by lia.
        destruct (Nat.eqb_spec (i + 1) 0); [lia|]. destruct (Nat.eqb_spec (i + 1) len); [lia|].
        destruct (Nat.eqb_spec i 0); [lia|]. destruct (Nat.eqb_spec i len); lia.
  Qed.

  Lemma vf_while_stop fuel i iters p T g mx :
    vf_while fuel ws k i iters (p, T, g, mx, i) = Ok (p, iters).
  Proof. destruct fuel; cbn [vf_while]; rewrite Nat.eqb_refl; reflexivity. Qed.

  Lemma Good_p0 : Good p0.
  Proof. unfold Good. repeat split; auto. unfold g0, L0. lia. Qed.

  Lemma vf_while_clean : forall fuel i iters, (1 <= len)%nat -> (i <= len)%nat -> (steps i <= fuel)%nat ->
    exists p' n, vf_while fuel ws k i iters (p0, L0, g0, M, O) = Ok (p', n) /\ Good p'.
  Proof.
    induction fuel as [|f IH]; intros i iters Hl Hi Hs.
    - assert (i = 0)%nat.
      { unfold steps in Hs. destruct (Nat.eqb_spec i 0); auto. destruct (Nat.eqb_spec i len); lia. }
      subst i. cbn [vf_while]. exists p0, iters. split; [reflexivity|apply Good_p0].
    - cbn [vf_while]. destruct (Nat.eqb_spec i 0) as [->|Hi0].
      { exists p0, iters. split; [reflexivity|apply Good_p0]. }
      fold len. destruct (Nat.eqb_spec len 0); [lia|].
      destruct (next_index i Hl Hi Hi0) as [Hlt Hst].
      set (i' := Nat.modulo (i + 1) len) in *.
      destruct (nth_opt_lt p0 i') as [pi Hpi]; [rewrite len_p0; exact Hlt|]. rewrite Hpi.
      assert (Hpik : (N.to_nat pi < k)%nat).
      { rewrite Forall_forall in ids_p0. specialize (ids_p0 pi (nth_opt_In _ _ _ Hpi)). lia. }
      destruct (nth_opt_lt L0 (N.to_nat pi)) as [lp Hlp]; [rewrite L0_len; exact Hpik|]. rewrite Hlp.
      destruct (Z.ltb_spec lp M) as [Hlow|Hmax].
      + apply IH; auto; lia.
      + assert (lp = M) by (pose proof (L0_bounds lp (nth_opt_In _ _ _ Hlp)); lia). subst lp.
        destruct (nth_opt_lt ws i') as [w Hw]; [exact Hlt|]. rewrite Hw.
        assert (Hpi' : nth_opt p0 i' = Some (N.of_nat (N.to_nat pi))) by (rewrite N2Nat.id; exact Hpi).
        assert (Hi'p : (i' < length p0)%nat) by (rewrite len_p0; exact Hlt).
        destruct (vf_for_inv (N.to_nat pi) i' w O Hpik Hi'p Hw Hlp
                    (seq 0 k) 0%nat (p0, L0, g0, M, O)) as [st' [Hfor HI]].
        { now rewrite Nat.sub_0_r. }
        { lia. }
        { apply Inv_for_clean; auto. }
        rewrite Hfor. destruct st' as [[[[p T] g] mx] il].
        destruct HI as [HlT [Hg [Hg0 [HTM [Hfut [[-> [-> [-> ->]]]|[ql [lq [Hne [Hql [-> [-> [Hle Hwg]]]]]]]]]]]]].
        * replace g with g0 by (rewrite Hg; reflexivity). apply IH; auto; lia.
        * rewrite vf_while_stop. eexists _, _. split; [reflexivity|].
          apply (final_gap (N.to_nat pi) i' w Hpik Hi'p Hpi' Hw Hlp ql lq); auto.
  Qed.
End VnFirst.

(* ---------- the entry point ---------- *)

Theorem vnfirst_spec : forall ws p, Forall (fun w => 0 <= w) ws -> length ws = length p ->
  exists p' n, vn_first ws p = Ok (p', n)
    /\ length p' = length p /\ Forall (fun x => (x < N.of_nat (part_count p))%N) p'
    /\ gap (loads ws p' (part_count p)) <= gap (loads ws p (part_count p)).
Proof.
  intros ws p Hnn Hlen. unfold vn_first.
  apply Nat.eqb_eq in Hlen as E. rewrite E. cbn [negb]. clear E.
  set (k := part_count p).
  assert (TRIV : exists p' n, @Ok (list N * N) (p, 0%N) = Ok (p', n)
    /\ length p' = length p /\ Forall (fun x => (x < N.of_nat k)%N) p'
    /\ gap (loads ws p' k) <= gap (loads ws p k)).
  { exists p, 0%N. repeat split; auto; [apply ids_lt_part_count|lia]. }
  destruct (Nat.eqb (length ws) 0 || Nat.ltb k 2) eqn:Ee; [exact TRIV|].
  apply orb_false_iff in Ee as [En Ek]. apply Nat.eqb_neq in En. apply Nat.ltb_ge in Ek.
  rewrite parts_load_loads by exact Hlen. fold k. cbn [bind].
  destruct (sumZ (loads ws p k) =? 0); [exact TRIV|].
  destruct (loads ws p k) as [|l0 L'] eqn:EL.
  { exfalso. apply (f_equal (@length Z)) in EL. rewrite loads_length in EL. cbn in EL. lia. }
  rewrite <- EL.
  destruct (vf_while_clean ws k p Hnn (eq_sym Hlen) (ids_lt_part_count p) ltac:(lia)
              (S (length ws)) (length ws) 0%N) as [p' [n [HW [G1 [G2 G3]]]]].
  - lia.
  - lia.
  - unfold steps. destruct (Nat.eqb_spec (length ws) 0); [lia|]. rewrite Nat.eqb_refl. lia.
  - unfold gap in HW. rewrite HW. exists p', n. repeat split; auto.
Qed.

Theorem vnfirst_gap : forall ws p p' n, Forall (fun w => 0 <= w) ws -> vn_first ws p = Ok (p', n) ->
  let k := part_count p in
  length p' = length p /\ Forall (fun x => (x <= maxN p)%N) p'
  /\ gap (loads ws p' k) <= gap (loads ws p k)
  /\ sumZ (loads ws p' k) = sumZ (loads ws p k).
Proof.
  intros ws p p' n Hnn H k.
  destruct (Nat.eq_dec (length ws) (length p)) as [Hlen|Hlen].
  2:{ unfold vn_first in H. apply Nat.eqb_neq in Hlen. rewrite Hlen in H. discriminate. }
  destruct (vnfirst_spec ws p Hnn Hlen) as [p1 [n1 [H1 [G1 [G2 G3]]]]].
  rewrite H in H1. injection H1 as <- <-. fold k in G2, G3.
  split; [exact G1|]. split; [|split; [exact G3|]].
  - rewrite Forall_forall in *. intros x Hx. specialize (G2 x Hx). unfold k, part_count in G2. lia.
  - rewrite !sumZ_loads; auto; try lia.
    + apply ids_below_le, ids_lt_part_count.
    + now apply ids_below_le.
Qed.

Theorem vnfirst_mismatch : forall ws p, length ws <> length p ->
  vn_first ws p = Err (InputLenMismatch (length p) (length ws)).
Proof. intros ws p H. unfold vn_first. apply Nat.eqb_neq in H. rewrite H. reflexivity. Qed.

(* ---------- the checker decides the property ---------- *)

Theorem check_vn_ok ws p p' :
  check_vn ws p p' = true <->
  (length p' = length p /\ Forall (fun x => (x <= maxN p)%N) p'
   /\ gap (loads ws p' (part_count p)) <= gap (loads ws p (part_count p))
   /\ sumZ (loads ws p' (part_count p)) = sumZ (loads ws p (part_count p))).
Proof.
  unfold check_vn. rewrite !andb_true_iff, Nat.eqb_eq, Z.leb_le, Z.eqb_eq, forallb_forall, Forall_forall.
  split.
  - intros [[[H1 H2] H3] H4]. repeat split; auto. intros x Hx. apply N.leb_le. auto.
  - intros [H1 [H2 [H3 H4]]]. repeat split; auto. intros x Hx. apply N.leb_le. auto.
Qed.
